#!/bin/bash
# seedcheck.sh <dir-with-patch.diff+demo+meta.json> <PROP> <name> [check-tier] [extra props…]
# Confirms a seeded property-breaking change in a scratch worktree of /repo
# (outside /repo and /verif): it applies, compiles, the repository's own test
# suite passes with it, its demonstration fails with it and passes without it;
# then runs ./check <PROP> (and any extra props) against the changed tree and
# records whether the change is caught.  The change is kept as
# seeded/<PROP>-<name>/ ; the worktree and its build output are removed.
set -u
VERIF="$(cd "$(dirname "${BASH_SOURCE[0]}")" && pwd)"
export GOFLAGS=-mod=mod GOPROXY=off GOSUMDB=off GOTOOLCHAIN=local
SRC="$(readlink -f "$1")"; PROP="$2"; NAME="$3"; TIER="${4:-quick}"; shift 4 2>/dev/null || shift $#
EXTRA=("$@")
WT="$(mktemp -d /tmp/seedchk-XXXXXX)"; rmdir "$WT"
OUT="$VERIF/seeded/$PROP-$NAME"
mkdir -p "$OUT"
log() { echo "$@" | tee -a "$OUT/verify.log"; }
: > "$OUT/verify.log"
cleanup() { git -C /repo worktree remove --force "$WT" >/dev/null 2>&1; rm -rf "$WT"; }
trap cleanup EXIT
git -C /repo worktree add --detach "$WT" HEAD -q || { log "cannot create worktree"; exit 3; }
cp "$SRC/patch.diff" "$OUT/patch.diff"
[ -f "$SRC/meta.json" ] && cp "$SRC/meta.json" "$OUT/meta.orig.json"
DEMO="$(ls "$SRC"/demo_test.go "$SRC"/*_test.go 2>/dev/null | head -1)"
DEMOSH=""; [ -z "$DEMO" ] && [ -f "$SRC/demo.sh" ] && DEMOSH="$SRC/demo.sh" && cp "$DEMOSH" "$OUT/demo.sh.txt"
[ -n "$DEMO" ] && cp "$DEMO" "$OUT/demo_test.go.txt"
# where does the demo go?
DEMODIR="${DEMO_DIR:-}"
if [ -z "$DEMODIR" ] && [ -n "$DEMO" ]; then
  pkg="$(grep -m1 '^package ' "$DEMO" | awk '{print $2}')"
  case "$pkg" in
    align) DEMODIR=align;; dna) DEMODIR=distance/dna;; protein) DEMODIR=distance/protein;; cmd) DEMODIR=cmd;;
    fasta|phylip|nexus|clustal|stockholm|partition|utils|paml) DEMODIR=io/$pkg;; stats) DEMODIR=stats;; models) DEMODIR=models;;
    *) DEMODIR="$(grep -rl --include=*.go "^package $pkg\$" "$WT" | head -1 | xargs dirname | sed "s#^$WT/##")";;
  esac
fi
RUNPAT="Demo|Seed"
if [ -n "$DEMO" ]; then RUNPAT="^($(grep -o '^func Test[A-Za-z0-9_]*' "$DEMO" | awk '{print $2}' | paste -sd'|'))\$"; fi
res_apply=no; res_build=no; res_tests=no; res_demo_with=unknown; res_demo_without=unknown
if (cd "$WT" && git apply --whitespace=nowarn "$OUT/patch.diff" 2>>"$OUT/verify.log") || (cd "$WT" && patch -p1 -s --no-backup-if-mismatch < "$OUT/patch.diff" >>"$OUT/verify.log" 2>&1); then res_apply=yes; fi
if [ $res_apply = yes ]; then
  (cd "$WT" && go build ./... >>"$OUT/verify.log" 2>&1) && res_build=yes
fi
if [ $res_build = yes ]; then
  if (cd "$WT" && go test -vet=off -count=1 ./... >"$OUT/suite_with_change.txt" 2>&1); then res_tests=yes; fi
  if [ -n "$DEMO" ] && [ -n "$DEMODIR" ]; then
    cp "$DEMO" "$WT/$DEMODIR/zz_seed_demo_test.go"
    if (cd "$WT" && timeout 900 go test ${DEMO_RACE:+-race} -vet=off -count=1 -run "$RUNPAT" "./$DEMODIR/" >"$OUT/demo_with_change.txt" 2>&1); then res_demo_with=pass; else res_demo_with=fail; fi
    rm -f "$WT/$DEMODIR/zz_seed_demo_test.go"
  fi
  if [ -n "$DEMOSH" ]; then
    if (cd "$WT" && SRC="$WT" timeout 1200 bash "$DEMOSH" >"$OUT/demo_with_change.txt" 2>&1); then res_demo_with=pass; else res_demo_with=fail; fi
  fi
fi
log "apply=$res_apply build=$res_build suite_passes_with_change=$res_tests demo_with_change=$res_demo_with"
declare -A caught
if [ $res_build = yes ]; then
  for P in "$PROP" "${EXTRA[@]}"; do
    o="$(mktemp -d /tmp/seedchk-out-XXXXXX)"
    # the COMMITTED /verif (git archive HEAD): edits in progress in the working tree cannot break or bend the run
    mkdir -p "$o/verif" && git -C "$VERIF" archive HEAD -- . ':!seeded' ':!evidence' ':!replays' | tar -x -C "$o/verif" && mkdir -p "$o/verif/tools/bin" && cp -p "$VERIF/tools/bin/vinstr" "$o/verif/tools/bin/" 2>/dev/null
    VERIF_REPO="$WT" "$o/verif/check" "$P" --tier "$TIER" --budget 600 > "$OUT/check_$P.txt" 2>&1
    rc=$?
    caught[$P]=$rc
    log "check $P tier=$TIER exit=$rc: $(grep -c '^VIOLATION' "$OUT/check_$P.txt") violation line(s)"
    grep -E '^VIOLATION|^  sig=|^HARNESS-ERROR' "$OUT/check_$P.txt" | head -8 | tee -a "$OUT/verify.log"
    rm -rf "$o"
  done
fi
# demonstration on the unchanged tree
if [ -n "$DEMO" ] && [ -n "$DEMODIR" ]; then
  (cd "$WT" && git checkout -q -- . && git clean -fdq)
  cp "$DEMO" "$WT/$DEMODIR/zz_seed_demo_test.go"
  if (cd "$WT" && timeout 900 go test ${DEMO_RACE:+-race} -vet=off -count=1 -run "$RUNPAT" "./$DEMODIR/" >"$OUT/demo_without_change.txt" 2>&1); then res_demo_without=pass; else res_demo_without=fail; fi
  log "demo_without_change=$res_demo_without"
fi
if [ -n "$DEMOSH" ]; then
  (cd "$WT" && git checkout -q -- . && git clean -fdq)
  if (cd "$WT" && SRC="$WT" timeout 1200 bash "$DEMOSH" >"$OUT/demo_without_change.txt" 2>&1); then res_demo_without=pass; else res_demo_without=fail; fi
  log "demo_without_change=$res_demo_without"
fi
python3 - "$OUT" "$PROP" "$NAME" "$TIER" "$res_apply" "$res_build" "$res_tests" "$res_demo_with" "$res_demo_without" "$DEMODIR" "$(for k in "${!caught[@]}"; do echo -n "$k=${caught[$k]} "; done)" "$(git -C /repo log --format=%h -1)" <<'EOF'
import json,sys,os
out,prop,name,tier,ap,bu,te,dw,dwo,demodir,caught,head=sys.argv[1:13]
orig={}
try: orig=json.load(open(os.path.join(out,'meta.orig.json')))
except Exception: pass
c={k:int(v) for k,v in (x.split('=') for x in caught.split())}
meta={"property":prop,"name":name,"breaks":orig.get("clause",""),"needs":orig.get("needs",""),"files":orig.get("files",[]),
 "author":"independent sub-agent given only the property text and a scratch worktree",
 "verified":{"repo_head":head,"applies":ap=="yes","compiles":bu=="yes","existing_suite_passes_with_change":te=="yes",
   "demonstration":{"file":"demo_test.go.txt or demo.sh.txt","package_dir":demodir,"with_change":dw,"without_change":dwo},
   "what_was_run":["git worktree add --detach <scratch> HEAD; git apply patch.diff","go build ./...","go test -vet=off -count=1 ./...","go test -run <demo tests> ./"+demodir+"/ with and without the change"]+[f"VERIF_REPO=<scratch> ./check {k} --tier {tier} -> exit {v}" for k,v in c.items()]},
 "caught_by":[k for k,v in c.items() if v==1],"missed_by":[k for k,v in c.items() if v!=1]}
json.dump(meta,open(os.path.join(out,'meta.json'),'w'),indent=1)
try: os.remove(os.path.join(out,'meta.orig.json'))
except Exception: pass
print("RESULT",prop,name,"valid=" + str(ap=="yes" and bu=="yes" and te=="yes" and dw=="fail" and dwo=="pass"),"caught_by=",meta["caught_by"],"missed_by=",meta["missed_by"])
EOF
