package vrt

import (
	"encoding/json"
	"fmt"
	"os"
)

// Subprocess mode: the instrumented command-line program is run as a child
// process by the explorer.  VRT_CHOICES names a JSON file {"points":[…],
// "opts":{…}} holding the choice prefix to replay and the options of the
// execution; VRT_TRACE names the file the record of the execution is written
// to when the program ends (return of main, os.Exit, deadlock, horizon,
// divergence).  Without VRT_CHOICES the program behaves exactly like the
// uninstrumented one.

// SubIn / SubOut are the two files' contents.
type SubIn struct {
	Points []Point `json:"points"`
	Opts   Options `json:"opts"`
}

type SubOut struct {
	Exec     *Exec  `json:"exec"`
	ExitCode int    `json:"exit_code"`
	End      string `json:"end"` // return | exit | deadlock | horizon | diverged | error
}

var subTrace string

// exit codes used when the controlled execution itself ends the process
const (
	SubExitDeadlock = 96
	SubExitHorizon  = 97
	SubExitDiverged = 98
	SubExitError    = 99
)

// Main wraps the program's main function (rewrite R10).
func Main(f func()) {
	cf := os.Getenv("VRT_CHOICES")
	if cf == "" {
		f()
		return
	}
	var in SubIn
	b, err := os.ReadFile(cf)
	if err == nil {
		err = json.Unmarshal(b, &in)
	}
	if err != nil {
		fmt.Fprintf(os.Stderr, "vrt: cannot read %s: %v\n", cf, err)
		os.Exit(SubExitError)
	}
	subTrace = os.Getenv("VRT_TRACE")
	in.Opts.CatchExit = false
	Begin(in.Points, in.Opts)
	if in.Opts.Sched {
		me := s.newThread(nil)
		s.cur = me
	}
	defer func() {
		r := recover()
		switch v := r.(type) {
		case nil:
			subFinish(0, "return")
		case poisonT, divergedT:
			_ = v
			subFinishAbort()
		default:
			mu.Lock()
			ex.Errors = append(ex.Errors, fmt.Sprintf("panic in main: %v", r))
			mu.Unlock()
			subFinish(2, "error")
		}
	}()
	f()
}

func subFinishAbort() {
	switch {
	case ex.Diverged != "":
		subFinish(SubExitDiverged, "diverged")
	case ex.Deadlock:
		subFinish(SubExitDeadlock, "deadlock")
	case ex.Horizon:
		subFinish(SubExitHorizon, "horizon")
	default:
		subFinish(SubExitError, "error")
	}
}

// subFinish writes the record and ends the process.
func subFinish(code int, end string) {
	mu.Lock()
	e := ex
	if subTrace != "" && e != nil {
		b, _ := json.Marshal(SubOut{Exec: e, ExitCode: code, End: end})
		os.WriteFile(subTrace, b, 0o644)
	}
	mu.Unlock()
	os.Exit(code)
}

// SubprocessActive reports whether this process is a controlled child.
func SubprocessActive() bool { return subTrace != "" || os.Getenv("VRT_CHOICES") != "" }
