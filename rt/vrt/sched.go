package vrt

import (
	"fmt"
	"reflect"
	"runtime"
	"runtime/debug"
	"strings"
	"sync"
	"sync/atomic"
	"time"
)

// Cooperative controlled scheduler.  Exactly one instrumented goroutine runs
// at a time.  Every synchronisation operation announces itself *before* taking
// effect (yield), the scheduler computes which pending operations are enabled
// from shadow state, asks the chooser which thread runs next, and returns to a
// thread only when its operation is enabled, so the real operation that follows
// never blocks.

type opKind int

const (
	opStart opKind = iota
	opYield
	opSend
	opRecv
	opClose
	opLock
	opRLock
	opWgAdd
	opWgDone
	opWgWait
	opCondWait
	opSelect
)

var opNames = [...]string{"start", "spawn", "send", "recv", "close", "lock", "rlock", "wg.Add", "wg.Done", "wg.Wait", "cond.Wait", "select"}

type pend struct {
	kind opKind
	obj  uintptr
	ch   reflect.Value
	sel  []SelCase // opSelect: the communication cases
}

// SelCase is one communication case of a select statement.
type SelCase struct {
	Ch   any
	Send bool
}

type thread struct {
	id   int
	wake chan bool
	op   *pend
	done bool
	vc   []int
	goid int64 // the goroutine that is this thread
}

// curGoid: the id of the calling goroutine ("goroutine 123 [running]:" is how every stack dump starts).
func curGoid() int64 {
	var buf [40]byte
	n := runtime.Stack(buf[:], false)
	var id int64
	for i := len("goroutine "); i < n && buf[i] >= '0' && buf[i] <= '9'; i++ {
		id = id*10 + int64(buf[i]-'0')
	}
	return id
}

type chanShadow struct {
	closed bool
	id     int
	// slot clocks: vector clocks of the senders of buffered elements (FIFO)
	slots [][]int
	// closeVC is the clock of the closer
	closeVC []int
	// recvVCs[k]: clock of the k-th receive; the (k+cap)-th send is ordered after it
	recvVCs [][]int
	nsend   int
}

type lockShadow struct {
	held    bool
	readers int   // sync.RWMutex: number of read locks held
	rvc     []int // join of the clocks of the read-unlocks since the last write lock
	id      int
	vc      []int
}

type wgShadow struct {
	n  int
	id int
	vc []int
}

// condShadow: the waiters of a sync.Cond in arrival order (Signal wakes the oldest one, as the runtime's
// ticket list does), the set of woken threads and the clock of the last Signal / Broadcast.
type condShadow struct {
	id      int
	waiters []int
	woken   map[int]bool
	vc      []int
}

type schedT struct {
	conds    map[uintptr]*condShadow
	threads  []*thread
	cur      *thread
	chans    map[uintptr]*chanShadow
	locks    map[uintptr]*lockShadow
	wgs      map[uintptr]*wgShadow
	rootDone bool
	aborting bool
	quiesce  chan struct{}
	qonce    sync.Once
	zombies  sync.WaitGroup
	nobj     int
	log      []string
	shadow   map[uintptr]*varShadow
	atomicVC []int
}

var s *schedT

func newSched() *schedT {
	return &schedT{chans: map[uintptr]*chanShadow{}, locks: map[uintptr]*lockShadow{}, wgs: map[uintptr]*wgShadow{}, conds: map[uintptr]*condShadow{},
		quiesce: make(chan struct{}), shadow: map[uintptr]*varShadow{}}
}

// schedOn: the caller is the running thread of a controlled execution.  A goroutine that is not a thread of the
// current execution - left over from an aborted execution, or started by library code while no execution was under
// way and still running - is answered false: for it every hook is the plain operation.
func schedOn() bool {
	if !(active.Load() && opts.Sched && s != nil) {
		return false
	}
	cur := s.cur
	if cur == nil {
		return false
	}
	// the identity of the caller is only looked up (a stack header: microseconds) while goroutines exist that
	// the library started outside a controlled execution, or during the abort of one
	return foreign.Load() == 0 || cur.goid == curGoid()
}

// foreign counts the live goroutines started through Go while no execution was under way (or while one
// was being aborted).
var foreign atomic.Int64

func (sc *schedT) newThread(parent *thread) *thread {
	t := &thread{id: len(sc.threads), wake: make(chan bool, 1)}
	if parent != nil {
		t.vc = append([]int{}, parent.vc...)
	}
	for len(t.vc) <= t.id {
		t.vc = append(t.vc, 0)
	}
	t.vc[t.id] = 1
	sc.threads = append(sc.threads, t)
	ex.Threads = len(sc.threads)
	return t
}

func (sc *schedT) chanOf(c reflect.Value) *chanShadow {
	p := c.Pointer()
	cs := sc.chans[p]
	if cs == nil {
		sc.nobj++
		cs = &chanShadow{id: sc.nobj}
		sc.chans[p] = cs
	}
	return cs
}

func (sc *schedT) lockOf(p uintptr) *lockShadow {
	l := sc.locks[p]
	if l == nil {
		sc.nobj++
		l = &lockShadow{id: sc.nobj}
		sc.locks[p] = l
	}
	return l
}

func (sc *schedT) wgOf(p uintptr) *wgShadow {
	w := sc.wgs[p]
	if w == nil {
		sc.nobj++
		w = &wgShadow{id: sc.nobj}
		sc.wgs[p] = w
	}
	return w
}

func (sc *schedT) condOf(p uintptr) *condShadow {
	c := sc.conds[p]
	if c == nil {
		sc.nobj++
		c = &condShadow{id: sc.nobj, woken: map[int]bool{}}
		sc.conds[p] = c
	}
	return c
}

func (sc *schedT) enabled(t *thread) bool {
	if t.done || t.op == nil {
		return false
	}
	switch t.op.kind {
	case opSend:
		cs := sc.chanOf(t.op.ch)
		return cs.closed || t.op.ch.Len() < t.op.ch.Cap()
	case opRecv:
		cs := sc.chanOf(t.op.ch)
		return cs.closed || t.op.ch.Len() > 0
	case opLock:
		l := sc.lockOf(t.op.obj)
		return !l.held && l.readers == 0
	case opRLock:
		return !sc.lockOf(t.op.obj).held
	case opWgWait:
		return sc.wgOf(t.op.obj).n == 0
	case opCondWait:
		return sc.condOf(t.op.obj).woken[t.id]
	case opSelect:
		return len(sc.selReady(t.op.sel)) > 0
	}
	return true
}

// selReady: the indices of the cases of a select that can proceed now.  A nil channel never can; a receive can on
// a closed or non-empty channel; a send on a closed channel (it panics, as in Go) or on one with room.  A send or
// receive on an UNBUFFERED open channel needs a partner blocked in the matching operation, which this model does
// not represent: never ready (a select with default then takes the default, as Go does when no partner waits; a
// blocking select on unbuffered channels only is reported as a deadlock of the model - see Select).
func (sc *schedT) selReady(cases []SelCase) []int {
	var out []int
	for i, c := range cases {
		v := reflect.ValueOf(c.Ch)
		if !v.IsValid() || v.Kind() != reflect.Chan || v.IsNil() {
			continue
		}
		cs := sc.chanOf(v)
		if c.Send {
			if cs.closed || (v.Cap() > 0 && v.Len() < v.Cap()) {
				out = append(out, i)
			}
		} else if cs.closed || v.Len() > 0 {
			out = append(out, i)
		}
	}
	return out
}

func (sc *schedT) describe(t *thread) string {
	if t.op == nil {
		return fmt.Sprintf("T%d:running", t.id)
	}
	switch t.op.kind {
	case opSend, opRecv, opClose:
		return fmt.Sprintf("T%d:%s(chan#%d len=%d cap=%d)", t.id, opNames[t.op.kind], sc.chanOf(t.op.ch).id, t.op.ch.Len(), t.op.ch.Cap())
	case opLock:
		return fmt.Sprintf("T%d:lock(mutex#%d)", t.id, sc.lockOf(t.op.obj).id)
	case opCondWait:
		return fmt.Sprintf("T%d:cond.Wait(cond#%d waiters=%d)", t.id, sc.condOf(t.op.obj).id, len(sc.condOf(t.op.obj).waiters))
	case opWgAdd, opWgDone, opWgWait:
		return fmt.Sprintf("T%d:%s(wg#%d n=%d)", t.id, opNames[t.op.kind], sc.wgOf(t.op.obj).id, sc.wgOf(t.op.obj).n)
	}
	return fmt.Sprintf("T%d:%s", t.id, opNames[t.op.kind])
}

// abort ends the execution: every waiting thread is poisoned and unwinds.
func (sc *schedT) abort(me *thread) {
	if sc.aborting {
		return
	}
	sc.aborting = true
	for _, t := range sc.threads {
		if t != me && !t.done {
			select {
			case t.wake <- false:
			default:
			}
		}
	}
	sc.qonce.Do(func() { close(sc.quiesce) })
}

func (sc *schedT) fail(me *thread, msg string) {
	ex.Errors = append(ex.Errors, msg)
	sc.abort(me)
	panic(poisonT{})
}

// pickNext chooses the next thread to run.  me is the calling thread (its op
// is set if it wants to continue, or it is done).
func (sc *schedT) pickNext(me *thread) {
	ex.Steps++
	if ex.Steps > opts.MaxSteps {
		ex.Horizon = true
		sc.abort(me)
		if !me.done {
			panic(poisonT{})
		}
		return
	}
	var en []*thread
	meEnabled := !me.done && sc.enabled(me)
	if meEnabled {
		en = append(en, me)
	}
	for _, t := range sc.threads {
		if t != me && sc.enabled(t) {
			en = append(en, t)
		}
	}
	if len(en) == 0 {
		var blocked []string
		for _, t := range sc.threads {
			if !t.done {
				blocked = append(blocked, sc.describe(t))
			}
		}
		if len(blocked) > 0 {
			ex.Blocked = blocked
			if sc.rootDone {
				ex.Leak = true
			} else {
				ex.Deadlock = true
			}
		}
		sc.abort(me)
		if !me.done {
			panic(poisonT{})
		}
		return
	}
	cost := 0
	if meEnabled {
		cost = 1
	}
	nxt := en[choose("sched", len(en), cost)]
	if nxt == me {
		return
	}
	sc.cur = nxt
	nxt.wake <- true
	if !me.done {
		if ok := <-me.wake; !ok {
			panic(poisonT{})
		}
	}
}

func yield(p pend) {
	sc := s
	if sc.aborting {
		return
	}
	me := sc.cur
	me.op = &p
	sc.pickNext(me)
	me.op = nil
}

// FnYield (rewrite R12, only in overlays generated with -fnpoints) is a scheduling point
// at a function entry.  It creates no happens-before edge.  With Options.FnPoints off
// it does nothing.
func FnYield() {
	if !opts.FnPoints || !schedOn() || s.aborting {
		return
	}
	yield(pend{kind: opYield})
}

// AtomicYield is inserted in front of every statement that performs a
// sync/atomic operation: a scheduling point at which the thread stays enabled.
func AtomicYield() {
	if !schedOn() || s.aborting {
		return
	}
	yield(pend{kind: opYield})
	// Go's atomics are sequentially consistent synchronisation operations.  Which
	// load observes which store is not tracked: every atomic operation is treated
	// as acquire+release on one global object, which over-approximates
	// happens-before (races may be missed here — the free-running -race pass is
	// precise about atomics — but none is invented).
	me := s.cur
	joinVC(me, s.atomicVC)
	me.vc[me.id]++
	s.atomicVC = maxVC(s.atomicVC, me.vc)
}

// Run executes root as thread 0 of a controlled execution and returns the
// value root panicked with (nil if it returned normally or was aborted).
func Run(root func()) (rec any) {
	if !active.Load() || !opts.Sched {
		defer func() { rec = filterPanic(recover()) }()
		root()
		return
	}
	sc := s
	me := sc.newThread(nil)
	me.goid = curGoid()
	sc.cur = me
	func() {
		defer func() { rec = filterPanic(recover()) }()
		root()
	}()
	me.done = true
	sc.rootDone = true
	if !sc.aborting {
		func() {
			defer func() { recover() }()
			sc.pickNext(me)
		}()
	}
	<-sc.quiesce
	done := make(chan struct{})
	go func() { sc.zombies.Wait(); close(done) }()
	select {
	case <-done:
	case <-time.After(10 * time.Second):
		ex.StuckZombie = true
	}
	return
}

func filterPanic(r any) any {
	switch v := r.(type) {
	case nil:
		return nil
	case poisonT:
		return nil
	case divergedT:
		if s != nil {
			s.abort(nil)
		}
		return nil
	default:
		_ = v
		return r
	}
}

// Go replaces the go statement.
func Go(f func()) {
	if !schedOn() || s.aborting {
		foreign.Add(1)
		go func() {
			defer foreign.Add(-1)
			f()
		}()
		return
	}
	sc := s
	t := sc.newThread(sc.cur)
	sc.cur.vc[sc.cur.id]++
	t.op = &pend{kind: opStart}
	sc.zombies.Add(1)
	go func() {
		defer sc.zombies.Done()
		t.goid = curGoid()
		if ok := <-t.wake; !ok {
			return
		}
		t.op = nil
		defer func() {
			r := recover()
			t.done = true
			switch v := r.(type) {
			case nil:
			case poisonT:
				return
			case divergedT:
				sc.abort(t)
				return
			default:
				st := string(debug.Stack())
				ex.Errors = append(ex.Errors, fmt.Sprintf("panic in goroutine T%d: %v @%s", t.id, v, firstRepoFrame(st)))
				sc.abort(t)
				return
			}
			if !sc.aborting {
				func() {
					defer func() { recover() }()
					sc.pickNext(t)
				}()
			}
		}()
		f()
	}()
	yield(pend{kind: opYield})
}

func firstRepoFrame(st string) string {
	lines := strings.Split(st, "\n")
	for i := 0; i+1 < len(lines); i++ {
		l := lines[i]
		if strings.Contains(l, "goalign/") && !strings.Contains(l, "verifrt") && !strings.HasPrefix(l, "\t") {
			fn := l
			if j := strings.LastIndex(fn, "("); j > 0 {
				fn = fn[:j]
			}
			if j := strings.LastIndex(fn, "/"); j >= 0 {
				fn = fn[j+1:]
			}
			return fn
		}
	}
	return "?"
}

// ---- channel hooks

func chanVal(c any) reflect.Value {
	v := reflect.ValueOf(c)
	if v.Kind() != reflect.Chan {
		panic("vrt: channel hook on non-channel")
	}
	return v
}

// BeforeSend is inserted in front of `c <- v`.
func BeforeSend(c any) {
	if !schedOn() || s.aborting {
		return
	}
	v := chanVal(c)
	if v.Cap() == 0 {
		panic("vrt: unbuffered channels are not modelled")
	}
	yield(pend{kind: opSend, ch: v})
	sc := s
	if sc.aborting {
		return
	}
	cs := sc.chanOf(v)
	if cs.closed {
		sc.fail(sc.cur, fmt.Sprintf("send on closed channel by T%d", sc.cur.id))
	}
	me := sc.cur
	// the k-th receive is ordered before the completion of the (k+cap)-th send
	if k := cs.nsend - v.Cap(); k >= 0 && k < len(cs.recvVCs) {
		joinVC(me, cs.recvVCs[k])
	}
	cs.nsend++
	cs.slots = append(cs.slots, append([]int{}, me.vc...))
	me.vc[me.id]++
}

// BeforeRecv is inserted in front of a receive; it always returns true so that
// it can serve as a loop condition.
func BeforeRecv(c any) bool {
	if !schedOn() || s.aborting {
		return true
	}
	v := chanVal(c)
	yield(pend{kind: opRecv, ch: v})
	sc := s
	if sc.aborting {
		return true
	}
	cs := sc.chanOf(v)
	me := sc.cur
	if len(cs.slots) > 0 {
		joinVC(me, cs.slots[0])
		cs.slots = cs.slots[1:]
	} else if cs.closed {
		joinVC(me, cs.closeVC)
	}
	cs.recvVCs = append(cs.recvVCs, append([]int{}, me.vc...))
	me.vc[me.id]++
	return true
}

// Recv replaces the expression `<-c`.
func Recv[T any](c <-chan T) T {
	BeforeRecv(c)
	return <-c
}

// Recv2 replaces `v, ok := <-c`.
func Recv2[T any](c <-chan T) (T, bool) {
	BeforeRecv(c)
	v, ok := <-c
	return v, ok
}

// Close replaces close(c).
func Close(c any) {
	v := chanVal(c)
	if schedOn() && !s.aborting {
		yield(pend{kind: opClose, ch: v})
		sc := s
		if !sc.aborting {
			cs := sc.chanOf(v)
			if cs.closed {
				sc.fail(sc.cur, fmt.Sprintf("close of closed channel by T%d", sc.cur.id))
			}
			cs.closed = true
			me := sc.cur
			cs.closeVC = append([]int{}, me.vc...)
			me.vc[me.id]++
		}
	}
	v.Close()
}

// Select replaces the choice a select statement makes: it returns the index of the communication case to
// perform (the caller then performs it with the plain operation, which cannot block: no other thread runs in
// between), or -1 for the default clause.  Without default the thread waits until a case is ready.  When several
// are ready Go chooses at random: a choice point of the explorer.  The shadow state and the clocks are updated
// as the send / receive hooks do.
func Select(hasDefault bool, cases ...SelCase) int {
	if !schedOn() || s.aborting {
		return -2 // not under the scheduler: the caller runs the original select
	}
	for _, c := range cases {
		if v := reflect.ValueOf(c.Ch); v.IsValid() && v.Kind() == reflect.Chan && !v.IsNil() && v.Cap() == 0 && !hasDefault {
			panic("vrt: a blocking select on an unbuffered channel is not modelled")
		}
	}
	if hasDefault {
		yield(pend{kind: opYield})
	} else {
		yield(pend{kind: opSelect, sel: cases})
	}
	sc := s
	if sc.aborting {
		return -2
	}
	ready := sc.selReady(cases)
	if len(ready) == 0 {
		return -1
	}
	k := ready[0]
	if len(ready) > 1 {
		k = ready[choose("select", len(ready), 1)]
	}
	v := reflect.ValueOf(cases[k].Ch)
	cs := sc.chanOf(v)
	me := sc.cur
	if cases[k].Send {
		if cs.closed {
			sc.fail(me, fmt.Sprintf("send on closed channel by T%d", me.id))
			return k
		}
		if j := cs.nsend - v.Cap(); j >= 0 && j < len(cs.recvVCs) {
			joinVC(me, cs.recvVCs[j])
		}
		cs.nsend++
		cs.slots = append(cs.slots, append([]int{}, me.vc...))
		me.vc[me.id]++
		return k
	}
	if len(cs.slots) > 0 {
		joinVC(me, cs.slots[0])
		cs.slots = cs.slots[1:]
	} else if cs.closed {
		joinVC(me, cs.closeVC)
	}
	cs.recvVCs = append(cs.recvVCs, append([]int{}, me.vc...))
	me.vc[me.id]++
	return k
}

// ChanClosed tells harness code whether the shadow state saw a close.
func ChanClosed(c any) bool {
	if !schedOn() {
		return false
	}
	return s.chanOf(chanVal(c)).closed
}

// ---- mutex hooks

func Lock(m *sync.Mutex) {
	if schedOn() && !s.aborting {
		p := reflect.ValueOf(m).Pointer()
		yield(pend{kind: opLock, obj: p})
		sc := s
		if !sc.aborting {
			l := sc.lockOf(p)
			l.held = true
			joinVC(sc.cur, l.vc)
		}
	}
	m.Lock()
}

func Unlock(m *sync.Mutex) {
	if schedOn() && !s.aborting {
		sc := s
		l := sc.lockOf(reflect.ValueOf(m).Pointer())
		if !l.held {
			sc.fail(sc.cur, fmt.Sprintf("unlock of unlocked mutex by T%d", sc.cur.id))
		}
		l.held = false
		me := sc.cur
		l.vc = append([]int{}, me.vc...)
		me.vc[me.id]++
	}
	m.Unlock()
}

// ---- sync.Pool and sync.Once
//
// A pool is modelled as a stack of its own per execution (what Put stores is what the next Get of this
// execution returns, else New()), so that an execution is a function of its choices; Put is a release and Get
// an acquire on the pool (the objects handed over carry the clock of the goroutine that put them back).
// Once.Do is the real Do bracketed by a lock of the model that belongs to the Once: callers are ordered, the
// first runs f, the others wait for it and inherit its clock.

var (
	poolMu     sync.Mutex
	poolStacks = map[*schedT]map[*sync.Pool][]any{}
	onceMu     sync.Mutex
	onceLocks  = map[*sync.Once]*sync.Mutex{}
)

func PoolGet(p *sync.Pool) any {
	if !schedOn() || s.aborting {
		return p.Get()
	}
	sc := s
	l := sc.lockOf(reflect.ValueOf(p).Pointer())
	joinVC(sc.cur, l.vc)
	poolMu.Lock()
	st := poolStacks[sc]
	var x any
	have := false
	if n := len(st[p]); n > 0 {
		x, have = st[p][n-1], true
		st[p] = st[p][:n-1]
	}
	poolMu.Unlock()
	if have {
		return x
	}
	if p.New != nil {
		return p.New()
	}
	return nil
}

func PoolPut(p *sync.Pool, x any) {
	if !schedOn() || s.aborting {
		p.Put(x)
		return
	}
	sc := s
	l := sc.lockOf(reflect.ValueOf(p).Pointer())
	me := sc.cur
	l.vc = append([]int{}, me.vc...)
	me.vc[me.id]++
	poolMu.Lock()
	if poolStacks[sc] == nil {
		// one scheduler value per execution: the stacks of earlier executions are dropped
		for k := range poolStacks {
			delete(poolStacks, k)
		}
		poolStacks[sc] = map[*sync.Pool][]any{}
	}
	poolStacks[sc][p] = append(poolStacks[sc][p], x)
	poolMu.Unlock()
}

func OnceDo(o *sync.Once, f func()) {
	if !schedOn() || s.aborting {
		o.Do(f)
		return
	}
	onceMu.Lock()
	m := onceLocks[o]
	if m == nil {
		m = &sync.Mutex{}
		onceLocks[o] = m
	}
	onceMu.Unlock()
	Lock(m)
	o.Do(f)
	Unlock(m)
}

// ---- sync.Cond
//
// Wait = release the Locker (model and real), wait until a Signal / Broadcast that came after the call has
// picked this thread, take the Locker again.  Signal wakes the oldest waiter, Broadcast all of them; both are
// scheduling points and releases on the condition (the woken thread inherits the clock).  The real Cond is never
// used inside a controlled execution: every waiter is a thread of the scheduler.

func lockerUnlock(l sync.Locker) {
	switch m := l.(type) {
	case *sync.Mutex:
		Unlock(m)
	case *sync.RWMutex:
		RWUnlock(m)
	default:
		l.Unlock()
	}
}

func lockerLock(l sync.Locker) {
	switch m := l.(type) {
	case *sync.Mutex:
		Lock(m)
	case *sync.RWMutex:
		RWLock(m)
	default:
		l.Lock()
	}
}

// LockerLock / LockerUnlock: l.Lock() / l.Unlock() on a sync.Locker, dispatched on what it holds.
func LockerLock(l sync.Locker)   { lockerLock(l) }
func LockerUnlock(l sync.Locker) { lockerUnlock(l) }

func CondWait(c *sync.Cond) {
	if !schedOn() || s.aborting {
		c.Wait()
		return
	}
	// a goroutine can be preempted between its test of the condition and its registration as a waiter
	yield(pend{kind: opYield})
	sc := s
	if sc.aborting {
		return
	}
	p := reflect.ValueOf(c).Pointer()
	cs := sc.condOf(p)
	me := sc.cur
	cs.waiters = append(cs.waiters, me.id)
	lockerUnlock(c.L)
	yield(pend{kind: opCondWait, obj: p})
	if !sc.aborting {
		delete(cs.woken, me.id)
		joinVC(sc.cur, cs.vc)
	}
	lockerLock(c.L)
}

func condWake(c *sync.Cond, all bool) {
	p := reflect.ValueOf(c).Pointer()
	yield(pend{kind: opYield})
	sc := s
	if sc.aborting {
		return
	}
	cs := sc.condOf(p)
	me := sc.cur
	cs.vc = maxVC(cs.vc, me.vc)
	me.vc[me.id]++
	for len(cs.waiters) > 0 {
		cs.woken[cs.waiters[0]] = true
		cs.waiters = cs.waiters[1:]
		if !all {
			break
		}
	}
}

func CondSignal(c *sync.Cond) {
	if !schedOn() || s.aborting {
		c.Signal()
		return
	}
	condWake(c, false)
}

func CondBroadcast(c *sync.Cond) {
	if !schedOn() || s.aborting {
		c.Broadcast()
		return
	}
	condWake(c, true)
}

// SyncMapRange replaces m.Range(f): the entries present when the call starts, visited in the order MapKeys
// gives (sorted by default, explorer-chosen under MapChoice) - one of the behaviours Range allows.
func SyncMapRange(m *sync.Map, f func(k, v any) bool) {
	if !active.Load() {
		m.Range(f)
		return
	}
	AtomicYield()
	snap := map[any]any{}
	m.Range(func(k, v any) bool { snap[k] = v; return true })
	for _, k := range MapKeys(snap) {
		if !f(k, snap[k]) {
			return
		}
	}
}

// ---- RWMutex hooks (write side shares the mutex shadow; read locks are counted)

func RWLock(m *sync.RWMutex) {
	if schedOn() && !s.aborting {
		p := reflect.ValueOf(m).Pointer()
		yield(pend{kind: opLock, obj: p})
		sc := s
		if !sc.aborting {
			l := sc.lockOf(p)
			l.held = true
			joinVC(sc.cur, l.vc)
			joinVC(sc.cur, l.rvc)
			l.rvc = nil
		}
	}
	m.Lock()
}

func RWUnlock(m *sync.RWMutex) {
	if schedOn() && !s.aborting {
		sc := s
		l := sc.lockOf(reflect.ValueOf(m).Pointer())
		if !l.held {
			sc.fail(sc.cur, fmt.Sprintf("unlock of unlocked RWMutex by T%d", sc.cur.id))
		}
		l.held = false
		me := sc.cur
		l.vc = append([]int{}, me.vc...)
		me.vc[me.id]++
	}
	m.Unlock()
}

func RWRLock(m *sync.RWMutex) {
	if schedOn() && !s.aborting {
		p := reflect.ValueOf(m).Pointer()
		yield(pend{kind: opRLock, obj: p})
		sc := s
		if !sc.aborting {
			l := sc.lockOf(p)
			l.readers++
			joinVC(sc.cur, l.vc)
		}
	}
	m.RLock()
}

func RWRUnlock(m *sync.RWMutex) {
	if schedOn() && !s.aborting {
		sc := s
		l := sc.lockOf(reflect.ValueOf(m).Pointer())
		if l.readers <= 0 {
			sc.fail(sc.cur, fmt.Sprintf("RUnlock of an RWMutex that is not read-locked by T%d", sc.cur.id))
		}
		l.readers--
		me := sc.cur
		l.rvc = maxVC(l.rvc, me.vc)
		me.vc[me.id]++
	}
	m.RUnlock()
}

// ---- WaitGroup hooks

func WgAdd(w *sync.WaitGroup, n int) {
	if schedOn() && !s.aborting {
		p := reflect.ValueOf(w).Pointer()
		yield(pend{kind: opWgAdd, obj: p})
		sc := s
		if !sc.aborting {
			ws := sc.wgOf(p)
			ws.n += n
			if ws.n < 0 {
				sc.fail(sc.cur, fmt.Sprintf("negative WaitGroup counter by T%d", sc.cur.id))
			}
			me := sc.cur
			ws.vc = maxVC(ws.vc, me.vc)
			me.vc[me.id]++
		}
	}
	w.Add(n)
}

func WgDone(w *sync.WaitGroup) {
	if schedOn() && !s.aborting {
		p := reflect.ValueOf(w).Pointer()
		yield(pend{kind: opWgDone, obj: p})
		sc := s
		if !sc.aborting {
			ws := sc.wgOf(p)
			ws.n--
			if ws.n < 0 {
				sc.fail(sc.cur, fmt.Sprintf("negative WaitGroup counter by T%d", sc.cur.id))
			}
			me := sc.cur
			ws.vc = maxVC(ws.vc, me.vc)
			me.vc[me.id]++
		}
	}
	w.Done()
}

func WgWait(w *sync.WaitGroup) {
	if schedOn() && !s.aborting {
		p := reflect.ValueOf(w).Pointer()
		yield(pend{kind: opWgWait, obj: p})
		sc := s
		if !sc.aborting {
			joinVC(sc.cur, sc.wgOf(p).vc)
		}
	}
	w.Wait()
}

// ---- vector clocks and shared-variable access checking (R8)

func joinVC(t *thread, vc []int) {
	for len(t.vc) < len(vc) {
		t.vc = append(t.vc, 0)
	}
	for i, x := range vc {
		if x > t.vc[i] {
			t.vc[i] = x
		}
	}
}

func maxVC(a, b []int) []int {
	out := append([]int{}, a...)
	for len(out) < len(b) {
		out = append(out, 0)
	}
	for i, x := range b {
		if x > out[i] {
			out[i] = x
		}
	}
	return out
}

// hb reports whether the event stamped (tid, clk) happened before thread t's current point.
func hb(tid, clk int, t *thread) bool {
	return tid == t.id || (tid < len(t.vc) && t.vc[tid] >= clk)
}

type accRec struct {
	tid, clk int
	pos      string
}

type varShadow struct {
	lastW accRec
	hasW  bool
	reads []accRec
}

// Acc records a read (w=false) or write (w=true) of the shared variable at
// addr and reports a data race if it is unordered with a conflicting access.
func Acc(addr any, w bool, pos string) {
	if !schedOn() || s.aborting {
		return
	}
	sc := s
	p := reflect.ValueOf(addr).Pointer()
	me := sc.cur
	vs := sc.shadow[p]
	if vs == nil {
		vs = &varShadow{}
		sc.shadow[p] = vs
	}
	cur := accRec{me.id, me.vc[me.id], pos}
	if vs.hasW && !hb(vs.lastW.tid, vs.lastW.clk, me) {
		kind := "read"
		if w {
			kind = "write"
		}
		ex.Races = append(ex.Races, fmt.Sprintf("%s at %s by T%d races with write at %s by T%d", kind, pos, me.id, vs.lastW.pos, vs.lastW.tid))
	}
	if w {
		for _, r := range vs.reads {
			if !hb(r.tid, r.clk, me) {
				ex.Races = append(ex.Races, fmt.Sprintf("write at %s by T%d races with read at %s by T%d", pos, me.id, r.pos, r.tid))
			}
		}
		vs.lastW, vs.hasW = cur, true
		vs.reads = vs.reads[:0]
	} else {
		vs.reads = append(vs.reads, cur)
	}
}
