// Package vrt is the verification runtime injected into the goalign module by
// `go build -overlay` (it does not exist in the repository).  The instrumenter
// vinstr rewrites goroutine creation, channel / mutex / WaitGroup operations,
// math/rand, map ranges, time.Now and os.Exit into calls of this package.
//
// Outside an execution started with Begin every hook does exactly what the
// original construct did (pass-through), so an instrumented build is
// observationally identical to a plain one.
//
// Inside an execution every source of nondeterminism is a *choice point*: the
// answer comes from the prefix being replayed, else it is alternative 0, and
// the point is appended to the trace so that the explorer can enumerate the
// alternatives.
package vrt

import (
	"fmt"
	"os"
	"reflect"
	"sort"
	"sync"
	"sync/atomic"
	"time"
)

// Point is one choice point of an execution.
type Point struct {
	Kind   string `json:"k"` // sched | map | intn | float | now
	N      int    `json:"n"` // number of alternatives
	Chosen int    `json:"c"`
	Cost   int    `json:"w"` // deviation cost of choosing an alternative != 0
}

// Options configure one execution.
type Options struct {
	Sched     bool      // control goroutine scheduling
	RandMode  int       // RandPass | RandChoice
	FloatReps []float64 // answers offered for rand.Float64 in RandChoice mode
	MapChoice bool      // map iteration order is a choice point (else sorted order, deterministic)
	NowChoice bool      // time.Now is a choice point
	MaxSteps  int       // horizon on scheduling steps (default 200000)
	MaxRand   int       // budget of RNG answers per execution (0 = unlimited); exceeding it aborts with BudgetExceeded
	CatchExit bool      // os.Exit becomes an ExitPanic
	FnPoints  bool      // function entries are scheduling points (needs an overlay generated with -fnpoints)
}

const (
	RandPass   = 0
	RandChoice = 1
)

// Exec is the record of one execution.
type Exec struct {
	Points      []Point
	Deadlock    bool
	Blocked     []string // pending operations of blocked threads at deadlock / at quiescence
	Leak        bool     // root returned and some thread stayed blocked for ever
	Races       []string // unordered conflicting accesses to instrumented shared variables
	Errors      []string // send on closed channel, double close, negative WaitGroup, panic in goroutine
	Horizon     bool
	RandBudget  bool
	Diverged    string
	Steps       int
	Threads     int
	RandDraws   int
	StuckZombie bool
}

type poisonT struct{}

// ExitPanic is raised instead of os.Exit when Options.CatchExit is set.
type ExitPanic struct{ Code int }

// BudgetExceeded is raised when an execution draws more RNG answers than Options.MaxRand.
type BudgetExceeded struct{}

var (
	active atomic.Bool
	mu     sync.Mutex // protects ex/opts against zombie goroutines only; a running execution is single threaded
	ex     *Exec
	opts   Options
	prefix []Point
	// CatchExitAlways makes Exit panic even outside an execution (used by pure input drivers).
	CatchExitAlways atomic.Bool
)

// Begin starts a controlled execution replaying prefix.
func Begin(pfx []Point, o Options) {
	if active.Load() {
		panic("vrt: Begin while an execution is active")
	}
	ex = &Exec{}
	opts = o
	if opts.MaxSteps == 0 {
		opts.MaxSteps = 200000
	}
	prefix = pfx
	s = newSched()
	active.Store(true)
}

// End finishes the execution and returns its record.
func End() *Exec {
	active.Store(false)
	e := ex
	ex = nil
	return e
}

// Active reports whether a controlled execution is running.
func Active() bool { return active.Load() }

type divergedT struct{ msg string }

func choose(kind string, n, cost int) int {
	if n <= 1 {
		return 0
	}
	i := len(ex.Points)
	c := 0
	if i < len(prefix) {
		p := prefix[i]
		if p.Kind != kind || p.N != n || p.Chosen >= n {
			ex.Diverged = fmt.Sprintf("replay diverged at point %d: recorded %s/%d chose %d, now %s/%d", i, p.Kind, p.N, p.Chosen, kind, n)
			panic(divergedT{ex.Diverged})
		}
		c = p.Chosen
	}
	ex.Points = append(ex.Points, Point{kind, n, c, cost})
	return c
}

// Choose lets harness code make its own choice points inside an execution.
func Choose(kind string, n int) int {
	if !active.Load() {
		return 0
	}
	return choose(kind, n, 0)
}

// ---------------------------------------------------------------- environment seams

// Exit replaces os.Exit.
func Exit(code int) {
	if CatchExitAlways.Load() || (active.Load() && opts.CatchExit) {
		panic(ExitPanic{code})
	}
	if active.Load() && subTrace != "" {
		subFinish(code, "exit")
	}
	os.Exit(code)
}

var t0 = time.Date(2020, 1, 2, 3, 4, 5, 0, time.UTC)

// Now replaces time.Now.
func Now() time.Time {
	if !active.Load() || !opts.NowChoice {
		return time.Now()
	}
	switch choose("now", 3, 1) {
	case 1:
		return t0.Add(time.Second)
	case 2:
		return t0.Add(time.Hour)
	}
	return t0
}

// ZeroOf: the zero value of the element type of a channel (declares the variable of `for x := range ch` in
// front of the loop when the module's language version has one variable per loop).
func ZeroOf[T any](c <-chan T) (z T) { return }

// MapKeys returns the keys of m in the order a `for range` over m is to visit
// them: native order in pass-through, sorted order by default in an execution,
// any explorer-chosen order when MapChoice is set (all k! orders for k<=4, the
// 2k rotations of the sorted order and of its reverse beyond).
func MapKeys[K comparable, V any](m map[K]V) []K {
	keys := make([]K, 0, len(m))
	for k := range m {
		keys = append(keys, k)
	}
	if !active.Load() {
		return keys
	}
	sortKeys(keys)
	k := len(keys)
	if !opts.MapChoice || k < 2 {
		return keys
	}
	if k <= 4 {
		nf := 1
		for i := 2; i <= k; i++ {
			nf *= i
		}
		c := choose("map", nf, 1)
		// c-th permutation in lexicographic order (factorial number system)
		out := make([]K, 0, k)
		rest := append([]K{}, keys...)
		f := nf
		for i := k; i >= 1; i-- {
			f /= i
			j := c / f
			c %= f
			out = append(out, rest[j])
			rest = append(rest[:j], rest[j+1:]...)
		}
		return out
	}
	c := choose("map", 2*k, 1)
	out := make([]K, k)
	if c < k {
		for i := range out {
			out[i] = keys[(i+c)%k]
		}
	} else {
		c -= k
		for i := range out {
			out[i] = keys[((k-1-i)+c)%k]
		}
	}
	return out
}

func sortKeys[K comparable](keys []K) {
	if len(keys) < 2 {
		return
	}
	v := reflect.ValueOf(keys[0])
	switch v.Kind() {
	case reflect.Int, reflect.Int8, reflect.Int16, reflect.Int32, reflect.Int64:
		sort.Slice(keys, func(i, j int) bool { return reflect.ValueOf(keys[i]).Int() < reflect.ValueOf(keys[j]).Int() })
	case reflect.Uint, reflect.Uint8, reflect.Uint16, reflect.Uint32, reflect.Uint64, reflect.Uintptr:
		sort.Slice(keys, func(i, j int) bool { return reflect.ValueOf(keys[i]).Uint() < reflect.ValueOf(keys[j]).Uint() })
	case reflect.String:
		sort.Slice(keys, func(i, j int) bool { return reflect.ValueOf(keys[i]).String() < reflect.ValueOf(keys[j]).String() })
	case reflect.Float32, reflect.Float64:
		sort.Slice(keys, func(i, j int) bool { return reflect.ValueOf(keys[i]).Float() < reflect.ValueOf(keys[j]).Float() })
	default:
		sort.Slice(keys, func(i, j int) bool { return fmt.Sprint(keys[i]) < fmt.Sprint(keys[j]) })
	}
}

// RandIntn / RandFloat64 are called by the math/rand shim (package vrand).
func RandControlled() bool { return active.Load() && opts.RandMode == RandChoice }

func randBudget() {
	ex.RandDraws++
	if opts.MaxRand > 0 && ex.RandDraws > opts.MaxRand {
		ex.RandBudget = true
		panic(BudgetExceeded{})
	}
}

func RandIntn(n int) int {
	randBudget()
	return choose("intn", n, 0)
}

func RandFloat64() float64 {
	randBudget()
	if len(opts.FloatReps) == 0 {
		panic("vrt: rand.Float64 in choice mode without FloatReps")
	}
	return opts.FloatReps[choose("float", len(opts.FloatReps), 0)]
}
