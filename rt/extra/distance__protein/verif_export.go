//go:build verif

// This file does not exist in the repository: it is added to package protein
// (distance/protein) by the build overlay so that the transition matrix the ML
// distance code works with - a private field with no accessor - can be read.
package protein

// VerifPMat computes P(l) the way lk_Dist does (pMat) and returns a row-major copy of it.
func VerifPMat(model *ProtDistModel, l float64) []float64 {
	model.pMat(l)
	ns := model.Ns()
	out := make([]float64, 0, ns*ns)
	for i := 0; i < ns; i++ {
		for j := 0; j < ns; j++ {
			out = append(out, model.pij.At(i, j))
		}
	}
	return out
}
