//go:build verif

// This file does not exist in the repository: it is added to package align by
// the build overlay (DESIGN.md §2.1, R9) so that the explorer can observe the
// private representation: row list, name index, cached length, row buffers.
package align

import (
	"fmt"
	"reflect"
	"sort"
	"strings"
	"unsafe"
)

// VerifRow is one row of the ordered row list.
type VerifRow struct {
	Name string
	Seq  string
	Buf  uintptr // address of the first byte of the row buffer (0 when empty)
	Cap  int
	Obj  uintptr // address of the row object
}

// VerifIndexEntry is one entry of the name index.
type VerifIndexEntry struct {
	Key  string
	Row  int    // position in the row list of the object the key points to; -1 = nil entry, -2 = object not in the row list
	Name string // name field of the object pointed to
	Seq  string // residues of the object pointed to (only recorded when Row < 0)
}

// VerifState is the complete private state of a seqbag / align.
type VerifState struct {
	IsAlign  bool
	Rows     []VerifRow
	Index    []VerifIndexEntry // sorted by key
	Length   int               // cached length (align only; 0 for a seqbag)
	Alphabet int
	Policy   int
	// Extra renders every field of the container structs that this file does not know by name (a cache,
	// a memo, a scratch buffer added by a change): hidden state takes part in the canonical state key, so
	// that two containers which differ only there are not merged by the search
	Extra string
}

func verifSeqbagOf(sb SeqBag) (*seqbag, *align) {
	switch x := sb.(type) {
	case *align:
		return &x.seqbag, x
	case *seqbag:
		return x, nil
	}
	return nil, nil
}

// VerifDump returns the private state of sb (nil if sb is of a foreign type).
func VerifDump(sb SeqBag) *VerifState {
	b, a := verifSeqbagOf(sb)
	if b == nil {
		return nil
	}
	st := &VerifState{IsAlign: a != nil, Alphabet: b.alphabet, Policy: b.ignoreidentical}
	if a != nil {
		st.Length = a.length
	}
	pos := map[*seq]int{}
	for i, s := range b.seqs {
		r := VerifRow{}
		if s != nil {
			r.Name, r.Seq, r.Obj = s.name, string(s.sequence), uintptr(unsafe.Pointer(s))
			r.Cap = cap(s.sequence)
			if cap(s.sequence) > 0 {
				r.Buf = uintptr(unsafe.Pointer(unsafe.SliceData(s.sequence)))
			}
			if _, ok := pos[s]; !ok {
				pos[s] = i
			}
		} else {
			r.Name = "<nil row>"
		}
		st.Rows = append(st.Rows, r)
	}
	for k, s := range b.seqmap {
		e := VerifIndexEntry{Key: k}
		switch {
		case s == nil:
			e.Row = -1
		default:
			e.Name = s.name
			if p, ok := pos[s]; ok {
				e.Row = p
			} else {
				e.Row = -2
				e.Seq = string(s.sequence)
			}
		}
		st.Index = append(st.Index, e)
	}
	sort.Slice(st.Index, func(i, j int) bool { return st.Index[i].Key < st.Index[j].Key })
	var sb2 strings.Builder
	verifUnknownFields(&sb2, reflect.ValueOf(b).Elem(), map[string]bool{"seqs": true, "seqmap": true, "ignoreidentical": true, "alphabet": true}, pos)
	if a != nil {
		verifUnknownFields(&sb2, reflect.ValueOf(a).Elem(), map[string]bool{"seqbag": true, "length": true}, pos)
	}
	st.Extra = sb2.String()
	return st
}

// verifUnknownFields renders the fields of v that are not in known.
func verifUnknownFields(w *strings.Builder, v reflect.Value, known map[string]bool, pos map[*seq]int) {
	t := v.Type()
	for i := 0; i < t.NumField(); i++ {
		if known[t.Field(i).Name] {
			continue
		}
		fmt.Fprintf(w, "%s=", t.Field(i).Name)
		verifRender(w, v.Field(i), pos, 0)
		w.WriteByte(';')
	}
}

// verifRender writes a canonical form of a value reached through unexported fields (no Interface()
// calls): maps sorted by rendered key, pointers to rows as row positions, other pointers followed.
func verifRender(w *strings.Builder, v reflect.Value, pos map[*seq]int, depth int) {
	if depth > 6 {
		w.WriteString("...")
		return
	}
	switch v.Kind() {
	case reflect.Bool:
		fmt.Fprint(w, v.Bool())
	case reflect.Int, reflect.Int8, reflect.Int16, reflect.Int32, reflect.Int64:
		fmt.Fprint(w, v.Int())
	case reflect.Uint, reflect.Uint8, reflect.Uint16, reflect.Uint32, reflect.Uint64, reflect.Uintptr:
		fmt.Fprint(w, v.Uint())
	case reflect.Float32, reflect.Float64:
		fmt.Fprintf(w, "%x", v.Float())
	case reflect.String:
		fmt.Fprintf(w, "%q", v.String())
	case reflect.Slice, reflect.Array:
		if v.Kind() == reflect.Slice && v.IsNil() {
			w.WriteString("nil")
			return
		}
		w.WriteByte('[')
		for i := 0; i < v.Len(); i++ {
			verifRender(w, v.Index(i), pos, depth+1)
			w.WriteByte(',')
		}
		w.WriteByte(']')
	case reflect.Map:
		if v.IsNil() {
			w.WriteString("nil")
			return
		}
		var ents []string
		it := v.MapRange()
		for it.Next() {
			var e strings.Builder
			verifRender(&e, it.Key(), pos, depth+1)
			e.WriteByte(':')
			verifRender(&e, it.Value(), pos, depth+1)
			ents = append(ents, e.String())
		}
		sort.Strings(ents)
		w.WriteString("{" + strings.Join(ents, ",") + "}")
	case reflect.Ptr:
		if v.IsNil() {
			w.WriteString("nil")
			return
		}
		if v.Type() == reflect.TypeOf((*seq)(nil)) {
			if p, ok := pos[(*seq)(unsafe.Pointer(v.Pointer()))]; ok {
				fmt.Fprintf(w, "row%d", p)
				return
			}
		}
		w.WriteByte('&')
		verifRender(w, v.Elem(), pos, depth+1)
	case reflect.Struct:
		w.WriteByte('{')
		for i := 0; i < v.NumField(); i++ {
			fmt.Fprintf(w, "%s=", v.Type().Field(i).Name)
			verifRender(w, v.Field(i), pos, depth+1)
			w.WriteByte(',')
		}
		w.WriteByte('}')
	case reflect.Interface:
		if v.IsNil() {
			w.WriteString("nil")
			return
		}
		verifRender(w, v.Elem(), pos, depth+1)
	default:
		// functions, channels, unsafe pointers: presence only
		fmt.Fprintf(w, "<%s>", v.Kind())
	}
}
