//go:build verif

// This file does not exist in the repository: it is added to package align by
// the build overlay (DESIGN.md §2.1, R9) so that the explorer can observe the
// private representation: row list, name index, cached length, row buffers.
package align

import (
	"sort"
	"unsafe"
)

// VerifRow is one row of the ordered row list.
type VerifRow struct {
	Name string
	Seq  string
	Buf  uintptr // address of the first byte of the row buffer (0 when empty)
	Cap  int
	Obj  uintptr // address of the row object
}

// VerifIndexEntry is one entry of the name index.
type VerifIndexEntry struct {
	Key  string
	Row  int    // position in the row list of the object the key points to; -1 = nil entry, -2 = object not in the row list
	Name string // name field of the object pointed to
	Seq  string // residues of the object pointed to (only recorded when Row < 0)
}

// VerifState is the complete private state of a seqbag / align.
type VerifState struct {
	IsAlign  bool
	Rows     []VerifRow
	Index    []VerifIndexEntry // sorted by key
	Length   int               // cached length (align only; 0 for a seqbag)
	Alphabet int
	Policy   int
}

func verifSeqbagOf(sb SeqBag) (*seqbag, *align) {
	switch x := sb.(type) {
	case *align:
		return &x.seqbag, x
	case *seqbag:
		return x, nil
	}
	return nil, nil
}

// VerifDump returns the private state of sb (nil if sb is of a foreign type).
func VerifDump(sb SeqBag) *VerifState {
	b, a := verifSeqbagOf(sb)
	if b == nil {
		return nil
	}
	st := &VerifState{IsAlign: a != nil, Alphabet: b.alphabet, Policy: b.ignoreidentical}
	if a != nil {
		st.Length = a.length
	}
	pos := map[*seq]int{}
	for i, s := range b.seqs {
		r := VerifRow{}
		if s != nil {
			r.Name, r.Seq, r.Obj = s.name, string(s.sequence), uintptr(unsafe.Pointer(s))
			r.Cap = cap(s.sequence)
			if cap(s.sequence) > 0 {
				r.Buf = uintptr(unsafe.Pointer(unsafe.SliceData(s.sequence)))
			}
			if _, ok := pos[s]; !ok {
				pos[s] = i
			}
		} else {
			r.Name = "<nil row>"
		}
		st.Rows = append(st.Rows, r)
	}
	for k, s := range b.seqmap {
		e := VerifIndexEntry{Key: k}
		switch {
		case s == nil:
			e.Row = -1
		default:
			e.Name = s.name
			if p, ok := pos[s]; ok {
				e.Row = p
			} else {
				e.Row = -2
				e.Seq = string(s.sequence)
			}
		}
		st.Index = append(st.Index, e)
	}
	sort.Slice(st.Index, func(i, j int) bool { return st.Index[i].Key < st.Index[j].Key })
	return st
}
