// Package rand replaces math/rand in instrumented goalign code (import path
// rewritten by vinstr).  Outside a controlled execution, or when the execution
// runs in pass-through RNG mode, every function delegates to math/rand, so
// seeded behaviour is bit-identical.  In choice mode each answer is a choice
// point of the explorer.
package rand

import (
	mrand "math/rand"

	"github.com/evolbioinfo/goalign/verifrt/vrt"
)

func Seed(seed int64) {
	if vrt.RandControlled() {
		return
	}
	mrand.Seed(seed)
}

func Intn(n int) int {
	if vrt.RandControlled() {
		if n <= 0 {
			panic("invalid argument to Intn")
		}
		return vrt.RandIntn(n)
	}
	return mrand.Intn(n)
}

func Float64() float64 {
	if vrt.RandControlled() {
		return vrt.RandFloat64()
	}
	return mrand.Float64()
}

// Perm draws exactly like math/rand.Perm (n calls of Intn(i+1)), so all n!
// permutations are leaves of the choice tree.
func Perm(n int) []int {
	if vrt.RandControlled() {
		m := make([]int, n)
		for i := 0; i < n; i++ {
			j := Intn(i + 1)
			m[i] = m[j]
			m[j] = i
		}
		return m
	}
	return mrand.Perm(n)
}

func Int() int             { return mrand.Int() }
func Int63() int64         { return mrand.Int63() }
func Int31n(n int32) int32 { return int32(Intn(int(n))) }
func Int63n(n int64) int64 { return int64(Intn(int(n))) }
func Shuffle(n int, swap func(i, j int)) {
	if vrt.RandControlled() {
		for i := n - 1; i > 0; i-- {
			j := Intn(i + 1)
			swap(i, j)
		}
		return
	}
	mrand.Shuffle(n, swap)
}
func NormFloat64() float64 { return mrand.NormFloat64() }
func ExpFloat64() float64  { return mrand.ExpFloat64() }
