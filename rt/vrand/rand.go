// Package rand replaces math/rand in instrumented goalign code (import path
// rewritten by vinstr).  Outside a controlled execution, or when the execution
// runs in pass-through RNG mode, every function delegates to math/rand, so
// seeded behaviour is bit-identical.  In choice mode each answer is a choice
// point of the explorer.
package rand

import (
	mrand "math/rand"

	"github.com/evolbioinfo/goalign/verifrt/vrt"
)

func Seed(seed int64) {
	if vrt.RandControlled() {
		return
	}
	mrand.Seed(seed)
}

func Intn(n int) int {
	if vrt.RandControlled() {
		if n <= 0 {
			panic("invalid argument to Intn")
		}
		return vrt.RandIntn(n)
	}
	return mrand.Intn(n)
}

func Float64() float64 {
	if vrt.RandControlled() {
		return vrt.RandFloat64()
	}
	return mrand.Float64()
}

// Perm draws exactly like math/rand.Perm (n calls of Intn(i+1)), so all n!
// permutations are leaves of the choice tree.
func Perm(n int) []int {
	if vrt.RandControlled() {
		m := make([]int, n)
		for i := 0; i < n; i++ {
			j := Intn(i + 1)
			m[i] = m[j]
			m[j] = i
		}
		return m
	}
	return mrand.Perm(n)
}

func Int() int {
	if vrt.RandControlled() {
		return int(wide(1<<63 - 1))
	}
	return mrand.Int()
}
func Int63() int64 {
	if vrt.RandControlled() {
		return int64(wide(1<<63 - 1))
	}
	return mrand.Int63()
}
func Int31n(n int32) int32 { return int32(Intn(int(n))) }
func Int63n(n int64) int64 { return int64(Intn(int(n))) }
func Shuffle(n int, swap func(i, j int)) {
	if vrt.RandControlled() {
		for i := n - 1; i > 0; i-- {
			j := Intn(i + 1)
			swap(i, j)
		}
		return
	}
	mrand.Shuffle(n, swap)
}
func NormFloat64() float64 { return mrand.NormFloat64() }
func ExpFloat64() float64  { return mrand.ExpFloat64() }

// The rest of the package-level API of math/rand, so that a change of the code under test that starts using
// another function still builds.  In choice mode the wide-range draws answer one of four representatives
// (0, 1, the middle and the top of the range); a generator of one's own (New, NewSource) is math/rand's.

type (
	Rand     = mrand.Rand
	Source   = mrand.Source
	Source64 = mrand.Source64
	Zipf     = mrand.Zipf
)

func New(src Source) *Rand                             { return mrand.New(src) }
func NewSource(seed int64) Source                      { return mrand.NewSource(seed) }
func NewZipf(r *Rand, s, v float64, imax uint64) *Zipf { return mrand.NewZipf(r, s, v, imax) }

func wide(top uint64) uint64 {
	return []uint64{0, 1, top / 2, top}[vrt.RandIntn(4)]
}

func Uint32() uint32 {
	if vrt.RandControlled() {
		return uint32(wide(1<<32 - 1))
	}
	return mrand.Uint32()
}

func Uint64() uint64 {
	if vrt.RandControlled() {
		return wide(1<<64 - 1)
	}
	return mrand.Uint64()
}

func Int31() int32 {
	if vrt.RandControlled() {
		return int32(wide(1<<31 - 1))
	}
	return mrand.Int31()
}

func Float32() float32 {
	if vrt.RandControlled() {
		return float32(vrt.RandFloat64())
	}
	return mrand.Float32()
}

func Read(p []byte) (n int, err error) {
	if vrt.RandControlled() {
		for i := range p {
			p[i] = byte(wide(255))
		}
		return len(p), nil
	}
	return mrand.Read(p)
}
