#!/bin/bash
# Run once after a fresh restore, offline: builds the instrumenter and warms
# the Go build cache (plain and instrumented) so that each check only relinks.
set -eu
VERIF="$(cd "$(dirname "${BASH_SOURCE[0]}")" && pwd)"
export GOFLAGS=-mod=mod GOPROXY=off GOSUMDB=off GOTOOLCHAIN=local CGO_ENABLED=0
mkdir -p "$VERIF/tools/bin" "$VERIF/evidence" "$VERIF/replays"
(cd "$VERIF/tools/vinstr" && go build -o "$VERIF/tools/bin/vinstr" .)
SCR="$(mktemp -d "${TMPDIR:-/tmp}/verif-setup-XXXXXX")"
trap 'rm -rf "$SCR"' EXIT
"$VERIF/build.sh" "${VERIF_REPO:-/repo}" "$SCR"
# instrumented CLI binary (C11) warms the cmd package too
(cd "${VERIF_REPO:-/repo}" && go build -overlay "$SCR/ov/overlay.json" -tags verif -o "$SCR/goalign" .)
# conformance of the instrumentation: goalign's own tests on the instrumented tree (pass-through mode)
"$VERIF/conformance.sh" "${VERIF_REPO:-/repo}"
echo "setup ok"
