// vinstr: source-to-source instrumenter for the goalign module.
//
// It reads the *current working tree* of the repository, type-checks every
// non-test package (go/types, importer fed by `go list -export -deps -json`),
// writes rewritten copies of the files into -out together with overlay.json,
// and adds the verification runtime as virtual packages of the module.  The
// repository itself is never modified.
//
// Rewrites (all type-directed; see DESIGN.md §2.1):
//
//	R1 go f()                      -> vrt.Go(func(){ f() })
//	R2 c <- v                      -> vrt.BeforeSend(c); c <- v
//	   <-c / v,ok := <-c           -> vrt.Recv(c) / vrt.Recv2(c)
//	   for x := range c {…}        -> for vrt.BeforeRecv(c) { x, ok := <-c; if !ok {break}; … }
//	   close(c)                    -> vrt.Close(c)
//	R3 m.Lock()/Unlock(), wg.Add/Done/Wait on sync.Mutex / sync.WaitGroup -> vrt.Lock(&m) …
//	R4 import "math/rand"          -> import rand ".../verifrt/vrand"
//	R5 for k,v := range <map>      -> for _, k := range vrt.MapKeys(m) { v, ok := m[k]; if !ok {continue}; … }
//	R6 time.Now()                  -> vrt.Now()
//	R7 os.Exit(c)                  -> vrt.Exit(c)
//	R8 accesses to variables captured by go closures -> preceded by vrt.Acc(&v, isWrite, pos)
//	R11 statements performing sync/atomic operations -> preceded by one vrt.AtomicYield() per operation
//	R12 (-fnpoints) function entry (functions of >= 4 statements) -> vrt.FnYield()
//	R10 func main() { B } in package main -> func main() { vrt.Main(func(){ B }) }
//
// Anything it cannot rewrite soundly is a hard error (exit 1), never skipped
// silently.
package main

import (
	"bytes"
	"encoding/json"
	"flag"
	"fmt"
	"go/ast"
	"go/importer"
	"go/parser"
	"go/printer"
	"go/token"
	"go/types"
	"io"
	"os"
	"os/exec"
	"path/filepath"
	"sort"
	"strconv"
	"strings"
)

const modPath = "github.com/evolbioinfo/goalign"
const vrtPath = modPath + "/verifrt/vrt"
const vrandPath = modPath + "/verifrt/vrand"

type listPkg struct {
	ImportPath string
	Dir        string
	Export     string
	GoFiles    []string
	Standard   bool
	Module     *struct{ Path string }
	Error      *struct{ Err string }
}

var (
	repo     = flag.String("repo", "/repo", "repository working tree")
	rtDir    = flag.String("rt", "/verif/rt", "runtime sources (vrt, vrand, extra files)")
	outDir   = flag.String("out", "", "output directory (rewritten files + overlay.json)")
	noRace   = flag.Bool("no-acc", false, "do not insert vrt.Acc shared-variable access events (R8)")
	fnPoints = flag.Bool("fnpoints", false, "R12: a scheduling point at the entry of every function of 4 or more statements (heap interleavings by effect)")
	verbose  = flag.Bool("v", false, "verbose")
)

type stats struct {
	Go, Send, Recv, RangeChan, Close, Mutex, Wg, Rand, MapRange, Now, Exit, Acc, Atomic, FnPoints int
	Files                                                                                         []string
}

func main() {
	flag.Parse()
	if *outDir == "" {
		fatal("missing -out")
	}
	os.MkdirAll(*outDir, 0o755)
	pkgs := goList()
	exports := map[string]string{}
	var mod []*listPkg
	for _, p := range pkgs {
		if p.Error != nil {
			fatal("go list: %s: %s", p.ImportPath, p.Error.Err)
		}
		if p.Export != "" {
			exports[p.ImportPath] = p.Export
		}
		if p.Module != nil && p.Module.Path == modPath && !strings.Contains(p.ImportPath, "/verifrt/") {
			mod = append(mod, p)
		}
	}
	overlay := map[string]string{}
	st := &stats{}
	fset := token.NewFileSet()
	imp := importer.ForCompiler(fset, "gc", func(path string) (io.ReadCloser, error) {
		f, ok := exports[path]
		if !ok {
			return nil, fmt.Errorf("no export data for %s", path)
		}
		return os.Open(f)
	})
	for _, p := range mod {
		instrumentPkg(fset, imp, p, overlay, st)
	}
	// virtual runtime packages
	for _, sub := range []string{"vrt", "vrand"} {
		files, _ := filepath.Glob(filepath.Join(*rtDir, sub, "*.go"))
		if len(files) == 0 {
			fatal("no runtime sources in %s", filepath.Join(*rtDir, sub))
		}
		for _, f := range files {
			overlay[filepath.Join(*repo, "verifrt", sub, filepath.Base(f))] = f
		}
	}
	// extra files added to existing packages: rt/extra/<pkgdir with _ for />/file.go
	extras, _ := filepath.Glob(filepath.Join(*rtDir, "extra", "*", "*.go"))
	for _, f := range extras {
		pkgdir := strings.ReplaceAll(filepath.Base(filepath.Dir(f)), "__", "/")
		overlay[filepath.Join(*repo, pkgdir, filepath.Base(f))] = f
	}
	b, _ := json.MarshalIndent(map[string]any{"Replace": overlay}, "", " ")
	if err := os.WriteFile(filepath.Join(*outDir, "overlay.json"), b, 0o644); err != nil {
		fatal("%v", err)
	}
	sort.Strings(st.Files)
	sb, _ := json.MarshalIndent(st, "", " ")
	os.WriteFile(filepath.Join(*outDir, "vinstr_stats.json"), sb, 0o644)
	if *verbose {
		fmt.Println(string(sb))
	}
}

func fatal(f string, a ...any) {
	fmt.Fprintf(os.Stderr, "vinstr: "+f+"\n", a...)
	os.Exit(1)
}

func goList() []*listPkg {
	cmd := exec.Command("go", "list", "-export", "-deps", "-json=ImportPath,Dir,Export,GoFiles,Standard,Module,Error", "./...")
	cmd.Dir = *repo
	cmd.Stderr = os.Stderr
	out, err := cmd.Output()
	if err != nil {
		fatal("go list failed: %v", err)
	}
	dec := json.NewDecoder(bytes.NewReader(out))
	var pkgs []*listPkg
	for dec.More() {
		var p listPkg
		if err := dec.Decode(&p); err != nil {
			fatal("go list output: %v", err)
		}
		pkgs = append(pkgs, &p)
	}
	return pkgs
}

type rewriter struct {
	fset    *token.FileSet
	info    *types.Info
	pkg     *types.Package
	st      *stats
	file    *ast.File
	fname   string
	usedVrt bool
	changed bool
	tmpN    int
	// shared: objects captured by go closures in the function being processed
	shared map[types.Object]bool
	// globals: package-level variables of this package that some function assigns to
	// (a hoisted scratch buffer, a cache, a counter): shared by every goroutine
	globals map[types.Object]bool
	noAcc   bool
	fnPts   bool
	// rangeWrap: blocks built for `for x := range ch` in a module whose language version gives one
	// variable per loop (go < 1.22): { x := zero; for … { x, ok = <-ch … } }; a label moves inside
	rangeWrap map[*ast.BlockStmt]*ast.ForStmt
}

// sharedLoopVars: the module's go directive is below 1.22 - `for x := range …` declares ONE variable for the
// whole loop, and a closure that outlives an iteration sees later values.  The rewrite of a range over a channel
// must keep that (it used to declare x inside the body, which is the 1.22 semantics).
var sharedLoopVars = func() bool {
	b, err := os.ReadFile(filepath.Join(*repo, "go.mod"))
	if err != nil {
		return false
	}
	for _, l := range strings.Split(string(b), "\n") {
		f := strings.Fields(l)
		if len(f) == 2 && f[0] == "go" {
			v := strings.Split(f[1], ".")
			if len(v) >= 2 {
				maj, _ := strconv.Atoi(v[0])
				min, _ := strconv.Atoi(v[1])
				return maj == 1 && min < 22
			}
		}
	}
	return false
}

func instrumentPkg(fset *token.FileSet, imp types.Importer, p *listPkg, overlay map[string]string, st *stats) {
	var files []*ast.File
	var names []string
	for _, gf := range p.GoFiles {
		fn := filepath.Join(p.Dir, gf)
		f, err := parser.ParseFile(fset, fn, nil, parser.ParseComments)
		if err != nil {
			fatal("parse %s: %v", fn, err)
		}
		files = append(files, f)
		names = append(names, fn)
	}
	info := &types.Info{Types: map[ast.Expr]types.TypeAndValue{}, Uses: map[*ast.Ident]types.Object{}, Defs: map[*ast.Ident]types.Object{}, Selections: map[*ast.SelectorExpr]*types.Selection{}}
	conf := types.Config{Importer: imp, Error: func(err error) {}}
	pkg, err := conf.Check(p.ImportPath, fset, files, info)
	if err != nil {
		fatal("type-check %s: %v", p.ImportPath, err)
	}
	globals := writtenGlobals(pkg, info, files)
	for i, f := range files {
		rw := &rewriter{fset: fset, info: info, pkg: pkg, st: st, file: f, fname: names[i], noAcc: *noRace, globals: globals, fnPts: *fnPoints}
		rw.rewriteFile()
		if !rw.changed {
			continue
		}
		// comments are positioned by offset and would be misplaced around inserted nodes: keep only those in front of the package clause
		var keep []*ast.CommentGroup
		for _, cg := range f.Comments {
			if cg.End() < f.Package {
				keep = append(keep, cg)
			}
		}
		f.Comments = keep
		var buf bytes.Buffer
		cfg := printer.Config{Mode: printer.UseSpaces | printer.TabIndent, Tabwidth: 8}
		if err := cfg.Fprint(&buf, fset, f); err != nil {
			fatal("print %s: %v", names[i], err)
		}
		rel, _ := filepath.Rel(*repo, names[i])
		out := filepath.Join(*outDir, strings.ReplaceAll(rel, "/", "__"))
		if err := os.WriteFile(out, buf.Bytes(), 0o644); err != nil {
			fatal("%v", err)
		}
		// the rewritten file must still parse
		if _, err := parser.ParseFile(token.NewFileSet(), out, nil, 0); err != nil {
			fatal("rewritten %s does not parse: %v", rel, err)
		}
		overlay[names[i]] = out
		st.Files = append(st.Files, rel)
	}
}

func (rw *rewriter) vrt(name string) ast.Expr {
	rw.usedVrt = true
	rw.changed = true
	return &ast.SelectorExpr{X: ast.NewIdent("vrt"), Sel: ast.NewIdent(name)}
}

func (rw *rewriter) call(name string, args ...ast.Expr) *ast.CallExpr {
	return &ast.CallExpr{Fun: rw.vrt(name), Args: args}
}

func (rw *rewriter) typeOf(e ast.Expr) types.Type {
	if tv, ok := rw.info.Types[e]; ok {
		return tv.Type
	}
	if id, ok := e.(*ast.Ident); ok {
		if o := rw.info.Uses[id]; o != nil {
			return o.Type()
		}
		if o := rw.info.Defs[id]; o != nil {
			return o.Type()
		}
	}
	return nil
}

func isChan(t types.Type) bool {
	if t == nil {
		return false
	}
	_, ok := t.Underlying().(*types.Chan)
	return ok
}

func isMap(t types.Type) bool {
	if t == nil {
		return false
	}
	_, ok := t.Underlying().(*types.Map)
	return ok
}

func namedIs(t types.Type, pkg, name string) (isIt bool, ptr bool) {
	if t == nil {
		return false, false
	}
	if p, ok := t.(*types.Pointer); ok {
		t = p.Elem()
		ptr = true
	}
	n, ok := t.(*types.Named)
	if !ok || n.Obj().Pkg() == nil {
		return false, false
	}
	return n.Obj().Pkg().Path() == pkg && n.Obj().Name() == name, ptr
}

func (rw *rewriter) pos(n ast.Node) string {
	p := rw.fset.Position(n.Pos())
	rel, _ := filepath.Rel(*repo, p.Filename)
	return fmt.Sprintf("%s:%d", rel, p.Line)
}

func (rw *rewriter) rewriteFile() {
	f := rw.file
	// R4: math/rand import
	usesTime, usesOS := false, false
	for _, im := range f.Imports {
		switch im.Path.Value {
		case `"math/rand"`:
			if im.Name != nil && im.Name.Name != "rand" {
				fatal("%s: math/rand imported under another name", rw.fname)
			}
			im.Path.Value = `"` + vrandPath + `"`
			im.Name = ast.NewIdent("rand")
			rw.changed = true
			rw.st.Rand++
		case `"time"`:
			usesTime = im.Name == nil
		case `"os"`:
			usesOS = im.Name == nil
		}
	}
	for _, d := range f.Decls {
		if gd, ok := d.(*ast.GenDecl); ok && gd.Tok == token.VAR {
			// package-level variables initialised with function literals (cobra commands)
			for _, sp := range gd.Specs {
				vs := sp.(*ast.ValueSpec)
				for i := range vs.Values {
					rw.shared = map[types.Object]bool{}
					if !rw.noAcc {
						ast.Inspect(vs.Values[i], func(n ast.Node) bool {
							if fl, ok := n.(*ast.FuncLit); ok {
								rw.findShared(fl.Body)
								return false
							}
							return true
						})
					}
					vs.Values[i] = rw.expr(vs.Values[i])
				}
			}
			continue
		}
		fd, ok := d.(*ast.FuncDecl)
		if !ok || fd.Body == nil {
			continue
		}
		rw.shared = map[types.Object]bool{}
		if !rw.noAcc {
			rw.findShared(fd.Body)
		}
		rw.block(fd.Body)
		// R12 (-fnpoints): a scheduling point at the entry of every function of 4 or more statements
		if rw.fnPts && len(fd.Body.List) >= 4 && rw.pkg.Name() != "main" {
			fd.Body.List = append([]ast.Stmt{&ast.ExprStmt{X: rw.call("FnYield")}}, fd.Body.List...)
			rw.st.FnPoints++
		}
		// R10: the program entry point runs as thread 0 of a controlled execution
		// when the environment asks for one (subprocess mode), else unchanged
		if rw.pkg.Name() == "main" && fd.Recv == nil && fd.Name.Name == "main" {
			body := fd.Body
			fd.Body = &ast.BlockStmt{List: []ast.Stmt{&ast.ExprStmt{X: rw.call("Main", &ast.FuncLit{Type: &ast.FuncType{Params: &ast.FieldList{}}, Body: body})}}}
		}
	}
	// keep possibly orphaned imports alive
	if rw.changed {
		if usesTime {
			f.Decls = append(f.Decls, keepAlive("time", "Now"))
		}
		if usesOS {
			f.Decls = append(f.Decls, keepAlive("os", "Exit"))
		}
	}
	if rw.usedVrt {
		addImport(f, "vrt", vrtPath)
	}
}

func keepAlive(pkg, sym string) ast.Decl {
	return &ast.GenDecl{Tok: token.VAR, Specs: []ast.Spec{&ast.ValueSpec{Names: []*ast.Ident{ast.NewIdent("_")},
		Values: []ast.Expr{&ast.SelectorExpr{X: ast.NewIdent(pkg), Sel: ast.NewIdent(sym)}}}}}
}

func addImport(f *ast.File, name, path string) {
	spec := &ast.ImportSpec{Name: ast.NewIdent(name), Path: &ast.BasicLit{Kind: token.STRING, Value: `"` + path + `"`}}
	for _, d := range f.Decls {
		if gd, ok := d.(*ast.GenDecl); ok && gd.Tok == token.IMPORT {
			if !gd.Lparen.IsValid() {
				gd.Lparen = gd.Pos()
				gd.Rparen = gd.End()
			}
			gd.Specs = append(gd.Specs, spec)
			f.Imports = append(f.Imports, spec)
			return
		}
	}
	gd := &ast.GenDecl{Tok: token.IMPORT, Specs: []ast.Spec{spec}}
	f.Decls = append([]ast.Decl{gd}, f.Decls...)
	f.Imports = append(f.Imports, spec)
}

// writtenGlobals: package-level variables (plain data, no map, channel or sync object) that are
// assigned, incremented or element-written inside some function of the package.
func writtenGlobals(pkg *types.Package, info *types.Info, files []*ast.File) map[types.Object]bool {
	out := map[types.Object]bool{}
	mark := func(e ast.Expr) {
		id := rootIdentSel(e)
		if id == nil {
			return
		}
		v, ok := info.Uses[id].(*types.Var)
		if !ok || v.Pkg() != pkg || v.Parent() != pkg.Scope() {
			return
		}
		t := v.Type()
		if isChan(t) || isMap(t) {
			return
		}
		if pt, ok := t.(*types.Pointer); ok {
			t = pt.Elem()
		}
		if nt, ok := t.(*types.Named); ok && nt.Obj().Pkg() != nil && (nt.Obj().Pkg().Path() == "sync" || nt.Obj().Pkg().Path() == "sync/atomic") {
			return
		}
		if _, isSel := e.(*ast.SelectorExpr); isSel {
			return // a field of a global structure: not tracked
		}
		out[v] = true
	}
	for _, f := range files {
		for _, d := range f.Decls {
			fd, ok := d.(*ast.FuncDecl)
			if !ok || fd.Body == nil || (fd.Recv == nil && fd.Name.Name == "init") {
				continue
			}
			ast.Inspect(fd.Body, func(n ast.Node) bool {
				switch t := n.(type) {
				case *ast.AssignStmt:
					if t.Tok != token.DEFINE {
						for _, l := range t.Lhs {
							mark(l)
						}
					}
				case *ast.IncDecStmt:
					mark(t.X)
				}
				return true
			})
		}
	}
	return out
}

// findShared collects the variables that a go-closure in body captures from
// an enclosing scope (they are shared between goroutines).
func (rw *rewriter) findShared(body *ast.BlockStmt) {
	written := rw.writtenVars(body)
	// local variables holding a function literal (f := func(…){…}): a goroutine that calls f runs f's body
	localFn := map[types.Object]*ast.FuncLit{}
	ast.Inspect(body, func(n ast.Node) bool {
		switch t := n.(type) {
		case *ast.AssignStmt:
			for i, l := range t.Lhs {
				if id, ok := l.(*ast.Ident); ok && i < len(t.Rhs) {
					if fl, ok := t.Rhs[i].(*ast.FuncLit); ok {
						if o := rw.info.Defs[id]; o != nil {
							localFn[o] = fl
						} else if o := rw.info.Uses[id]; o != nil {
							localFn[o] = fl
						}
					}
				}
			}
		case *ast.ValueSpec:
			for i, id := range t.Names {
				if i < len(t.Values) {
					if fl, ok := t.Values[i].(*ast.FuncLit); ok {
						if o := rw.info.Defs[id]; o != nil {
							localFn[o] = fl
						}
					}
				}
			}
		}
		return true
	})
	visited := map[*ast.FuncLit]bool{}
	var scan func(root ast.Node, lo, hi token.Pos)
	scan = func(root ast.Node, lo, hi token.Pos) {
		ast.Inspect(root, func(m ast.Node) bool {
			id, ok := m.(*ast.Ident)
			if !ok {
				return true
			}
			obj, ok := rw.info.Uses[id].(*types.Var)
			if !ok || obj.IsField() || obj.Pkg() != rw.pkg {
				return true
			}
			if fl := localFn[obj]; fl != nil && !visited[fl] {
				visited[fl] = true
				scan(fl.Body, fl.Pos(), fl.End())
			}
			// declared outside the goroutine's code (and not a package-level variable)?
			if obj.Pos() < lo || obj.Pos() > hi {
				if obj.Parent() != rw.pkg.Scope() {
					// only plain data: channels, mutexes and waitgroups are synchronisation objects
					t := obj.Type()
					if isChan(t) {
						return true
					}
					for _, sn := range []string{"Mutex", "WaitGroup", "RWMutex"} {
						if ok, _ := namedIs(t, "sync", sn); ok {
							return true
						}
					}
					if pt, ok := t.(*types.Pointer); ok {
						t = pt.Elem()
					}
					if nt, ok := t.(*types.Named); ok && nt.Obj().Pkg() != nil && nt.Obj().Pkg().Path() == "sync/atomic" {
						return true
					}
					if written[obj] {
						rw.shared[obj] = true
					}
				}
			}
			return true
		})
	}
	ast.Inspect(body, func(n ast.Node) bool {
		gs, ok := n.(*ast.GoStmt)
		if !ok {
			return true
		}
		if fl, ok := gs.Call.Fun.(*ast.FuncLit); ok {
			scan(fl.Body, fl.Pos(), fl.End())
		} else {
			scan(gs.Call.Fun, gs.Pos(), gs.End()) // go f(…): f may be a local function value
		}
		return true
	})
}

// writtenVars: variables of body that are assigned after their declaration
// (plain or element assignment, ++/--, address taken, range assignment).  A
// captured variable that is never written cannot take part in a data race.
func (rw *rewriter) writtenVars(body *ast.BlockStmt) map[types.Object]bool {
	w := map[types.Object]bool{}
	mark := func(e ast.Expr) {
		if id := rootIdentSel(e); id != nil {
			if o := rw.info.Uses[id]; o != nil {
				w[o] = true
			}
		}
	}
	ast.Inspect(body, func(n ast.Node) bool {
		switch t := n.(type) {
		case *ast.AssignStmt:
			for _, l := range t.Lhs {
				mark(l)
			}
		case *ast.IncDecStmt:
			mark(t.X)
		case *ast.UnaryExpr:
			if t.Op == token.AND {
				mark(t.X)
			}
		case *ast.RangeStmt:
			if t.Tok == token.ASSIGN {
				if t.Key != nil {
					mark(t.Key)
				}
				if t.Value != nil {
					mark(t.Value)
				}
			}
		}
		return true
	})
	return w
}

func rootIdentSel(e ast.Expr) *ast.Ident {
	for {
		switch t := e.(type) {
		case *ast.Ident:
			return t
		case *ast.IndexExpr:
			e = t.X
		case *ast.ParenExpr:
			e = t.X
		case *ast.StarExpr:
			e = t.X
		default:
			return nil
		}
	}
}

// ---- statement traversal

func (rw *rewriter) block(b *ast.BlockStmt) {
	if b == nil {
		return
	}
	b.List = rw.stmts(b.List)
}

func (rw *rewriter) stmts(list []ast.Stmt) []ast.Stmt {
	var out []ast.Stmt
	for _, st := range list {
		// R11: one scheduling point in front of the statement per sync/atomic operation it performs
		// itself (not in nested blocks or function literals).  The operations of one simple statement
		// are one step of the thread: fewer interleavings than the hardware allows, never an impossible one.
		nat := rw.atomicOps(st)
		if fs, ok := st.(*ast.ForStmt); ok && fs.Cond != nil && rw.atomicIn(fs.Cond) > 0 {
			// for init; cond; post {B}  ->  for init; ; post { vrt.AtomicYield(); if !(cond) {break}; B }
			guard := &ast.IfStmt{Cond: &ast.UnaryExpr{Op: token.NOT, X: &ast.ParenExpr{X: fs.Cond}}, Body: &ast.BlockStmt{List: []ast.Stmt{&ast.BranchStmt{Tok: token.BREAK}}}}
			fs.Cond = nil
			fs.Body.List = append([]ast.Stmt{guard}, fs.Body.List...)
		}
		pre, repl := rw.stmt(st)
		for i := 0; i < nat; i++ {
			out = append(out, &ast.ExprStmt{X: rw.call("AtomicYield")})
			rw.st.Atomic++
		}
		out = append(out, pre...)
		out = append(out, repl)
	}
	return out
}

// atomicOps counts the sync/atomic operations a statement performs outside nested blocks.
func (rw *rewriter) atomicOps(st ast.Stmt) int {
	n := 0
	switch s := st.(type) {
	case *ast.ExprStmt:
		n = rw.atomicIn(s.X)
	case *ast.AssignStmt:
		for _, e := range s.Rhs {
			n += rw.atomicIn(e)
		}
		for _, e := range s.Lhs {
			n += rw.atomicIn(e)
		}
	case *ast.IncDecStmt:
		n = rw.atomicIn(s.X)
	case *ast.ReturnStmt:
		for _, e := range s.Results {
			n += rw.atomicIn(e)
		}
	case *ast.IfStmt:
		if s.Init != nil {
			n += rw.atomicOps(s.Init)
		}
		n += rw.atomicIn(s.Cond)
	case *ast.ForStmt:
		if s.Init != nil {
			n += rw.atomicOps(s.Init)
		}
		if s.Post != nil && rw.atomicOps(s.Post) > 0 {
			fatal("%s: sync/atomic operation in a for-post statement; not supported", rw.pos(s))
		}
	case *ast.SwitchStmt:
		if s.Init != nil {
			n += rw.atomicOps(s.Init)
		}
		if s.Tag != nil {
			n += rw.atomicIn(s.Tag)
		}
	case *ast.DeclStmt:
		if gd, ok := s.Decl.(*ast.GenDecl); ok {
			for _, sp := range gd.Specs {
				if vs, ok := sp.(*ast.ValueSpec); ok {
					for _, e := range vs.Values {
						n += rw.atomicIn(e)
					}
				}
			}
		}
	case *ast.SendStmt:
		n = rw.atomicIn(s.Value)
	case *ast.DeferStmt:
		if rw.atomicIn(s.Call) > 0 {
			fatal("%s: deferred sync/atomic operation; not supported", rw.pos(s))
		}
	case *ast.LabeledStmt:
		n = rw.atomicOps(s.Stmt)
	}
	return n
}

// atomicIn counts calls of sync/atomic functions and of methods of sync/atomic types in an expression.
func (rw *rewriter) atomicIn(e ast.Expr) int {
	n := 0
	ast.Inspect(e, func(m ast.Node) bool {
		if _, ok := m.(*ast.FuncLit); ok {
			return false
		}
		c, ok := m.(*ast.CallExpr)
		if !ok {
			return true
		}
		var id *ast.Ident
		switch f := c.Fun.(type) {
		case *ast.SelectorExpr:
			id = f.Sel
		case *ast.Ident:
			id = f
		case *ast.IndexExpr: // generic instantiation
			if se, ok := f.X.(*ast.SelectorExpr); ok {
				id = se.Sel
			}
		}
		if id != nil {
			if o := rw.info.Uses[id]; o != nil && o.Pkg() != nil && o.Pkg().Path() == "sync/atomic" {
				if _, isFunc := o.(*types.Func); isFunc {
					n++
				}
			}
			// the methods of sync.Map are atomic operations on the map (Range is a call of its own: SyncMapRange)
			if o := rw.info.Uses[id]; o != nil && o.Pkg() != nil && o.Pkg().Path() == "sync" {
				if fn, isFunc := o.(*types.Func); isFunc {
					if sig, ok := fn.Type().(*types.Signature); ok && sig.Recv() != nil {
						if ok, _ := namedIs(sig.Recv().Type(), "sync", "Map"); ok && fn.Name() != "Range" {
							n++
						}
					}
				}
			}
		}
		return true
	})
	return n
}

// stmt rewrites one statement; pre are statements to insert in front of it.
func (rw *rewriter) stmt(st ast.Stmt) (pre []ast.Stmt, out ast.Stmt) {
	out = st
	switch n := st.(type) {
	case *ast.BlockStmt:
		rw.block(n)
	case *ast.LabeledStmt:
		p, o := rw.stmt(n.Stmt)
		if len(p) > 0 {
			// insert in front of the label: the label keeps designating the loop
			pre = p
		}
		if blk, ok := o.(*ast.BlockStmt); ok && rw.rangeWrap[blk] != nil {
			// { x := zero; L: for … }: the label keeps designating the loop
			n.Stmt = rw.rangeWrap[blk]
			blk.List[len(blk.List)-1] = n
			out = blk
			return
		}
		n.Stmt = o
	case *ast.ExprStmt:
		pre = rw.accessesIn(n.X, false)
		n.X = rw.expr(n.X)
	case *ast.SendStmt:
		pre = rw.accessesIn(n.Value, false)
		n.Chan = rw.expr(n.Chan)
		n.Value = rw.expr(n.Value)
		rw.st.Send++
		pre = append(pre, &ast.ExprStmt{X: rw.call("BeforeSend", n.Chan)})
	case *ast.IncDecStmt:
		pre = append(rw.accessesIn(n.X, false), rw.accessesIn(n.X, true)...)
		n.X = rw.expr(n.X)
	case *ast.AssignStmt:
		for _, r := range n.Rhs {
			pre = append(pre, rw.accessesIn(r, false)...)
		}
		if n.Tok != token.DEFINE {
			for _, l := range n.Lhs {
				if n.Tok != token.ASSIGN {
					pre = append(pre, rw.accessesIn(l, false)...)
				}
				pre = append(pre, rw.accessesIn(l, true)...)
			}
		}
		// v, ok := <-c
		if len(n.Lhs) == 2 && len(n.Rhs) == 1 {
			if u, ok := n.Rhs[0].(*ast.UnaryExpr); ok && u.Op == token.ARROW {
				rw.st.Recv++
				n.Rhs[0] = rw.call("Recv2", rw.expr(u.X))
				for i := range n.Lhs {
					n.Lhs[i] = rw.expr(n.Lhs[i])
				}
				return
			}
		}
		for i := range n.Rhs {
			n.Rhs[i] = rw.expr(n.Rhs[i])
		}
		for i := range n.Lhs {
			n.Lhs[i] = rw.expr(n.Lhs[i])
		}
		if len(pre) > 0 && rw.hasSync(n) {
			fatal("%s: statement mixes a shared-variable access with a synchronisation operation; order of events would be guessed", rw.pos(n))
		}
	case *ast.GoStmt:
		// go F(a1, …, an)  ->  vrtA1 := a1; …; [vrtF := F;] vrt.Go(func() { F(vrtA1, …) })
		// (arguments and a non-literal function value are evaluated by the spawning goroutine, as in Go)
		call := n.Call
		var args []ast.Expr
		for _, a := range call.Args {
			pre = append(pre, rw.accessesIn(a, false)...)
			rw.tmpN++
			tmp := ast.NewIdent(fmt.Sprintf("vrtArg%d", rw.tmpN))
			pre = append(pre, &ast.AssignStmt{Lhs: []ast.Expr{tmp}, Tok: token.DEFINE, Rhs: []ast.Expr{rw.expr(a)}})
			args = append(args, ast.NewIdent(tmp.Name))
		}
		if call.Ellipsis.IsValid() {
			fatal("%s: go statement with a variadic spread; not supported", rw.pos(n))
		}
		var fn ast.Expr
		if fl, ok := call.Fun.(*ast.FuncLit); ok {
			rw.block(fl.Body)
			fn = fl
		} else {
			rw.tmpN++
			tmp := ast.NewIdent(fmt.Sprintf("vrtFn%d", rw.tmpN))
			pre = append(pre, &ast.AssignStmt{Lhs: []ast.Expr{tmp}, Tok: token.DEFINE, Rhs: []ast.Expr{rw.expr(call.Fun)}})
			fn = ast.NewIdent(tmp.Name)
		}
		rw.st.Go++
		if fl, ok := fn.(*ast.FuncLit); ok && len(args) == 0 {
			out = &ast.ExprStmt{X: rw.call("Go", fl)}
		} else {
			body := &ast.BlockStmt{List: []ast.Stmt{&ast.ExprStmt{X: &ast.CallExpr{Fun: fn, Args: args}}}}
			out = &ast.ExprStmt{X: rw.call("Go", &ast.FuncLit{Type: &ast.FuncType{Params: &ast.FieldList{}}, Body: body})}
		}
	case *ast.DeferStmt:
		n.Call = rw.expr(n.Call).(*ast.CallExpr)
	case *ast.ReturnStmt:
		for i := range n.Results {
			pre = append(pre, rw.accessesIn(n.Results[i], false)...)
			n.Results[i] = rw.expr(n.Results[i])
		}
		if len(n.Results) == 0 {
			// a bare return reads the named results
			pre = append(pre, rw.namedResultReads(n)...)
		}
	case *ast.IfStmt:
		var initPre, condPre []ast.Stmt
		if n.Init != nil {
			initPre, n.Init = rw.stmt(n.Init)
		}
		condPre = rw.accessesIn(n.Cond, false)
		n.Cond = rw.expr(n.Cond)
		rw.block(n.Body)
		if n.Else != nil {
			// statements inserted for an else-if must run after this condition failed:
			// wrap the else branch in a block
			p, o := rw.stmt(n.Else)
			if len(p) > 0 {
				n.Else = &ast.BlockStmt{List: append(p, o)}
			} else {
				n.Else = o
			}
		}
		if n.Init == nil {
			return condPre, n
		}
		if len(condPre) == 0 {
			return initPre, n
		}
		// { <events of init>; init; <events of cond>; if cond {…} }  (same scoping as the if-init form)
		init := n.Init
		n.Init = nil
		blk := &ast.BlockStmt{}
		blk.List = append(blk.List, initPre...)
		blk.List = append(blk.List, init)
		blk.List = append(blk.List, condPre...)
		blk.List = append(blk.List, n)
		return nil, blk
	case *ast.ForStmt:
		if n.Init != nil {
			p, o := rw.stmt(n.Init)
			pre = append(pre, p...)
			n.Init = o
		}
		var condAcc []ast.Stmt
		if n.Cond != nil {
			condAcc = rw.accessesIn(n.Cond, false)
			n.Cond = rw.expr(n.Cond)
		}
		if n.Post != nil {
			p, o := rw.stmt(n.Post)
			if len(p) > 0 {
				// for …; …; post  ->  for …; …; func() { <events>; post }()
				// (a call is a simple statement; continue still reaches it)
				if _, isSend := o.(*ast.SendStmt); isSend {
					fatal("%s: send in a for-post statement; not supported", rw.pos(n))
				}
				body := &ast.BlockStmt{List: append(p, o)}
				o = &ast.ExprStmt{X: &ast.CallExpr{Fun: &ast.FuncLit{Type: &ast.FuncType{Params: &ast.FieldList{}}, Body: body}}}
			}
			n.Post = o
		}
		rw.block(n.Body)
		if len(condAcc) > 0 {
			// for init; cond; post {B}  ->  for init; ; post { <events>; if !(cond) {break}; B }
			guard := &ast.IfStmt{Cond: &ast.UnaryExpr{Op: token.NOT, X: &ast.ParenExpr{X: n.Cond}}, Body: &ast.BlockStmt{List: []ast.Stmt{&ast.BranchStmt{Tok: token.BREAK}}}}
			n.Cond = nil
			n.Body.List = append(append(condAcc, guard), n.Body.List...)
		}
	case *ast.RangeStmt:
		return rw.rangeStmt(n)
	case *ast.SwitchStmt:
		if n.Init != nil {
			p, o := rw.stmt(n.Init)
			pre = append(pre, p...)
			n.Init = o
		}
		if n.Tag != nil {
			pre = append(pre, rw.accessesIn(n.Tag, false)...)
			n.Tag = rw.expr(n.Tag)
		}
		for _, c := range n.Body.List {
			cc := c.(*ast.CaseClause)
			for i := range cc.List {
				if acc := rw.accessesIn(cc.List[i], false); len(acc) > 0 {
					fatal("%s: case expression reads a goroutine-shared variable; not supported", rw.pos(cc))
				}
				cc.List[i] = rw.expr(cc.List[i])
			}
			cc.Body = rw.stmts(cc.Body)
		}
	case *ast.TypeSwitchStmt:
		if n.Init != nil {
			p, o := rw.stmt(n.Init)
			pre = append(pre, p...)
			n.Init = o
		}
		for _, c := range n.Body.List {
			cc := c.(*ast.CaseClause)
			cc.Body = rw.stmts(cc.Body)
		}
	case *ast.SelectStmt:
		// select { case c1: B1 … default: D }  ->
		//   switch vrtSelN := vrt.Select(hasDefault, cases…); vrtSelN {
		//   case -2: <the original select>          (not under the scheduler)
		//   case 0: <comm 1 as a plain operation>; B1 …
		//   default: D }
		rw.st.Send++
		rw.tmpN++
		sel := ast.NewIdent(fmt.Sprintf("vrtSel%d", rw.tmpN))
		orig := &ast.SelectStmt{Select: n.Select, Body: &ast.BlockStmt{}}
		var cases []ast.Expr
		var clauses []ast.Stmt
		hasDefault := false
		idx := 0
		for _, c := range n.Body.List {
			cc := c.(*ast.CommClause)
			// the copy for the un-scheduled branch keeps the original comm and the (shared, rewritten) body
			if cc.Comm == nil {
				hasDefault = true
				body := rw.stmts(cc.Body)
				orig.Body.List = append(orig.Body.List, &ast.CommClause{Case: cc.Case, Colon: cc.Colon, Body: []ast.Stmt{&ast.ExprStmt{X: &ast.CallExpr{Fun: &ast.FuncLit{Type: &ast.FuncType{Params: &ast.FieldList{}}, Body: &ast.BlockStmt{}}}}}})
				clauses = append(clauses, &ast.CaseClause{Body: body})
				continue
			}
			var ch ast.Expr
			send := false
			switch cm := cc.Comm.(type) {
			case *ast.SendStmt:
				ch, send = cm.Chan, true
			case *ast.ExprStmt:
				ch = cm.X.(*ast.UnaryExpr).X
			case *ast.AssignStmt:
				ch = cm.Rhs[0].(*ast.UnaryExpr).X
			}
			if ch == nil || !simpleExpr(ch) {
				fatal("%s: select on a channel expression that is not a plain variable or field is not modelled", rw.pos(n))
			}
			sv := "false"
			if send {
				sv = "true"
			}
			cases = append(cases, &ast.CompositeLit{Type: &ast.SelectorExpr{X: ast.NewIdent("vrt"), Sel: ast.NewIdent("SelCase")},
				Elts: []ast.Expr{&ast.KeyValueExpr{Key: ast.NewIdent("Ch"), Value: cloneExpr(ch)}, &ast.KeyValueExpr{Key: ast.NewIdent("Send"), Value: ast.NewIdent(sv)}}})
			body := append([]ast.Stmt{cc.Comm}, rw.stmts(cc.Body)...)
			clauses = append(clauses, &ast.CaseClause{List: []ast.Expr{&ast.BasicLit{Kind: token.INT, Value: strconv.Itoa(idx)}}, Body: body})
			idx++
		}
		if len(cases) == 0 {
			fatal("%s: select without communication cases is not modelled", rw.pos(n))
		}
		hd := "false"
		if hasDefault {
			hd = "true"
		}
		rw.usedVrt = true
		call := rw.call("Select", append([]ast.Expr{ast.NewIdent(hd)}, cases...)...)
		// not under the scheduler (-2): the statement as it was written, its bodies rewritten all the same
		plain := &ast.SelectStmt{Select: n.Select, Body: &ast.BlockStmt{}}
		for i, c := range n.Body.List {
			cc := c.(*ast.CommClause)
			var body []ast.Stmt
			if cs, ok := clauses[i].(*ast.CaseClause); ok {
				body = cs.Body
				if cc.Comm != nil {
					body = body[1:]
				}
			}
			plain.Body.List = append(plain.Body.List, &ast.CommClause{Case: cc.Case, Comm: cc.Comm, Colon: cc.Colon, Body: body})
		}
		_ = orig
		if !hasDefault {
			clauses = append(clauses, &ast.CaseClause{Body: []ast.Stmt{&ast.ExprStmt{X: &ast.CallExpr{Fun: ast.NewIdent("panic"), Args: []ast.Expr{&ast.BasicLit{Kind: token.STRING, Value: `"vrt: select without a ready case"`}}}}}})
		}
		clauses = append([]ast.Stmt{&ast.CaseClause{List: []ast.Expr{&ast.UnaryExpr{Op: token.SUB, X: &ast.BasicLit{Kind: token.INT, Value: "2"}}}, Body: []ast.Stmt{plain}}}, clauses...)
		out = &ast.SwitchStmt{Init: &ast.AssignStmt{Lhs: []ast.Expr{sel}, Tok: token.DEFINE, Rhs: []ast.Expr{call}}, Tag: ast.NewIdent(sel.Name), Body: &ast.BlockStmt{List: clauses}}
	case *ast.DeclStmt:
		if gd, ok := n.Decl.(*ast.GenDecl); ok {
			for _, sp := range gd.Specs {
				if vs, ok := sp.(*ast.ValueSpec); ok {
					for i := range vs.Values {
						pre = append(pre, rw.accessesIn(vs.Values[i], false)...)
						vs.Values[i] = rw.expr(vs.Values[i])
					}
				}
			}
		}
	case *ast.BranchStmt, *ast.EmptyStmt:
	default:
		fatal("%s: unhandled statement %T", rw.pos(st), st)
	}
	return
}

func (rw *rewriter) hasSync(n ast.Node) bool {
	found := false
	ast.Inspect(n, func(m ast.Node) bool {
		if c, ok := m.(*ast.CallExpr); ok {
			if se, ok := c.Fun.(*ast.SelectorExpr); ok {
				if id, ok := se.X.(*ast.Ident); ok && id.Name == "vrt" && se.Sel.Name != "Acc" && se.Sel.Name != "MapKeys" {
					found = true
				}
			}
		}
		if _, ok := m.(*ast.FuncLit); ok {
			return false
		}
		return true
	})
	return found
}

func (rw *rewriter) namedResultReads(ret *ast.ReturnStmt) []ast.Stmt {
	// find the enclosing function's named results that are shared
	var pre []ast.Stmt
	for obj := range rw.shared {
		v := obj.(*types.Var)
		if rw.isNamedResultOfEnclosing(v, ret) {
			pre = append(pre, rw.accStmt(ast.NewIdent(v.Name()), false, ret))
		}
	}
	sort.Slice(pre, func(i, j int) bool { return fmt.Sprint(pre[i]) < fmt.Sprint(pre[j]) })
	return pre
}

var enclosing = map[*ast.ReturnStmt]*ast.FuncType{}

func (rw *rewriter) isNamedResultOfEnclosing(v *types.Var, ret *ast.ReturnStmt) bool {
	// the return statement belongs to the innermost function containing it
	var ft *ast.FuncType
	ast.Inspect(rw.file, func(n ast.Node) bool {
		if n == nil {
			return false
		}
		if n.Pos() > ret.Pos() || n.End() < ret.End() {
			return false
		}
		switch f := n.(type) {
		case *ast.FuncDecl:
			ft = f.Type
		case *ast.FuncLit:
			ft = f.Type
		}
		return true
	})
	if ft == nil || ft.Results == nil {
		return false
	}
	for _, fld := range ft.Results.List {
		for _, nm := range fld.Names {
			if rw.info.Defs[nm] == v {
				return true
			}
		}
	}
	return false
}

func (rw *rewriter) accStmt(target ast.Expr, write bool, at ast.Node) ast.Stmt {
	rw.st.Acc++
	w := "false"
	if write {
		w = "true"
	}
	return &ast.ExprStmt{X: rw.call("Acc", &ast.UnaryExpr{Op: token.AND, X: target}, ast.NewIdent(w),
		&ast.BasicLit{Kind: token.STRING, Value: fmt.Sprintf("%q", exprString(target)+"@"+rw.pos(at))})}
}

// accessesIn returns access events for the shared variables that expression e
// reads (write=false) or, when e is an assignment target, writes (write=true).
// Element writes through a shared slice variable (outmatrix[i][j] = …) are
// reported on the element address.
func (rw *rewriter) accessesIn(e ast.Expr, write bool) []ast.Stmt {
	if e == nil || rw.noAcc {
		return nil
	}
	var out []ast.Stmt
	if write {
		switch t := e.(type) {
		case *ast.SelectorExpr:
			if rw.sharedField(t) {
				out = append(out, rw.accessesIn(t.X, false)...)
				out = append(out, rw.accStmt(cloneExpr(t), true, e))
				return out
			}
		case *ast.Ident:
			if o, ok := rw.info.Uses[t].(*types.Var); ok && (rw.shared[o] || rw.globals[o]) {
				out = append(out, rw.accStmt(ast.NewIdent(t.Name), true, e))
			}
			return out
		case *ast.IndexExpr:
			if root := rootIdent(t); root != nil {
				if o, ok := rw.info.Uses[root].(*types.Var); ok && (rw.shared[o] || rw.globals[o]) && !isMap(rw.typeOf(t.X)) {
					out = append(out, rw.accessesIn(t.X, false)...)
					out = append(out, rw.accessesIn(t.Index, false)...)
					out = append(out, rw.accStmt(cloneExpr(t), true, e))
					return out
				}
			}
		}
		// other targets (fields, derefs, blank): reads of what they mention
		return rw.accessesIn(e, false)
	}
	seen := map[string]bool{}
	ast.Inspect(e, func(n ast.Node) bool {
		switch t := n.(type) {
		case *ast.FuncLit:
			return false
		case *ast.IndexExpr:
			if root := rootIdent(t); root != nil {
				if o, ok := rw.info.Uses[root].(*types.Var); ok && (rw.shared[o] || rw.globals[o]) && !isMap(rw.typeOf(t.X)) {
					if _, isSlice := rw.typeOf(t.X).Underlying().(*types.Slice); isSlice {
						k := exprString(t)
						if !seen[k] {
							seen[k] = true
							out = append(out, rw.accStmt(cloneExpr(t), false, t))
						}
					}
				}
			}
		case *ast.Ident:
			if o, ok := rw.info.Uses[t].(*types.Var); ok && (rw.shared[o] || rw.globals[o]) {
				if !seen[t.Name] {
					seen[t.Name] = true
					out = append(out, rw.accStmt(ast.NewIdent(t.Name), false, t))
				}
			}
		case *ast.SelectorExpr:
			if rw.sharedField(t) {
				if k := exprString(t); !seen[k] {
					seen[k] = true
					out = append(out, rw.accStmt(cloneExpr(t), false, t))
				}
			}
		}
		return true
	})
	return out
}

// sharedField: x.Err with x an align.AlignChannel (or a pointer to one) — the one structure goalign
// hands from a parser goroutine to its consumer; its error field is plain data written by the
// producer and read by the consumer, so its accesses are access events wherever they occur.
func (rw *rewriter) sharedField(t *ast.SelectorExpr) bool {
	if t.Sel.Name != "Err" || !simpleExpr(t.X) {
		return false
	}
	ok, _ := namedIs(rw.typeOf(t.X), modPath+"/align", "AlignChannel")
	return ok
}

func rootIdent(e ast.Expr) *ast.Ident {
	for {
		switch t := e.(type) {
		case *ast.Ident:
			return t
		case *ast.IndexExpr:
			e = t.X
		case *ast.ParenExpr:
			e = t.X
		default:
			return nil
		}
	}
}

func exprString(e ast.Expr) string {
	var b bytes.Buffer
	printer.Fprint(&b, token.NewFileSet(), e)
	return b.String()
}

func cloneExpr(e ast.Expr) ast.Expr {
	switch t := e.(type) {
	case *ast.Ident:
		return ast.NewIdent(t.Name)
	case *ast.IndexExpr:
		return &ast.IndexExpr{X: cloneExpr(t.X), Index: cloneExpr(t.Index)}
	case *ast.SelectorExpr:
		return &ast.SelectorExpr{X: cloneExpr(t.X), Sel: ast.NewIdent(t.Sel.Name)}
	case *ast.ParenExpr:
		return &ast.ParenExpr{X: cloneExpr(t.X)}
	case *ast.BasicLit:
		return &ast.BasicLit{Kind: t.Kind, Value: t.Value}
	case *ast.BinaryExpr:
		return &ast.BinaryExpr{X: cloneExpr(t.X), Op: t.Op, Y: cloneExpr(t.Y)}
	}
	fatal("cannot clone expression %T for an access event", e)
	return nil
}

// rangeStmt handles R2 (range over channel) and R5 (range over map).
func (rw *rewriter) rangeStmt(n *ast.RangeStmt) (pre []ast.Stmt, out ast.Stmt) {
	out = n
	t := rw.typeOf(n.X)
	pre = rw.accessesIn(n.X, false)
	switch {
	case isChan(t):
		rw.st.RangeChan++
		ch := rw.expr(n.X)
		if !simpleExpr(ch) {
			rw.tmpN++
			tmp := ast.NewIdent(fmt.Sprintf("vrtCh%d", rw.tmpN))
			pre = append(pre, &ast.AssignStmt{Lhs: []ast.Expr{tmp}, Tok: token.DEFINE, Rhs: []ast.Expr{ch}})
			ch = tmp
		}
		rw.tmpN++
		okId := ast.NewIdent(fmt.Sprintf("vrtOk%d", rw.tmpN))
		rw.block(n.Body)
		var first ast.Stmt
		recv := &ast.UnaryExpr{Op: token.ARROW, X: ch}
		if n.Key != nil {
			first = &ast.AssignStmt{Lhs: []ast.Expr{n.Key, okId}, Tok: n.Tok, Rhs: []ast.Expr{recv}}
			if n.Tok == token.ASSIGN {
				// `for x = range c`: ok must be declared
				first = &ast.BlockStmt{List: []ast.Stmt{}}
			}
		}
		body := []ast.Stmt{}
		if id, isId := n.Key.(*ast.Ident); n.Key != nil && n.Tok == token.DEFINE && isId && id.Name != "_" && sharedLoopVars() {
			// one variable for the whole loop, as the language version of the module has it
			valId := ast.NewIdent(strings.Replace(okId.Name, "vrtOk", "vrtVal", 1))
			body = append(body, &ast.AssignStmt{Lhs: []ast.Expr{valId, okId}, Tok: token.DEFINE, Rhs: []ast.Expr{recv}})
			body = append(body, &ast.IfStmt{Cond: &ast.UnaryExpr{Op: token.NOT, X: okId}, Body: &ast.BlockStmt{List: []ast.Stmt{&ast.BranchStmt{Tok: token.BREAK}}}})
			// the receive (a synchronisation) and the write of the loop variable are two statements: the write
			// is an access event when a goroutine closure captures the variable
			if o, ok := rw.info.Defs[id].(*types.Var); ok && !rw.noAcc && (rw.shared[o] || rw.globals[o]) {
				body = append(body, rw.accStmt(ast.NewIdent(id.Name), true, n))
			}
			body = append(body, &ast.AssignStmt{Lhs: []ast.Expr{ast.NewIdent(id.Name)}, Tok: token.ASSIGN, Rhs: []ast.Expr{ast.NewIdent(valId.Name)}})
			body = append(body, n.Body.List...)
			loop := &ast.ForStmt{For: n.For, Cond: rw.call("BeforeRecv", ch), Body: &ast.BlockStmt{Lbrace: n.Body.Lbrace, List: body, Rbrace: n.Body.Rbrace}}
			blk := &ast.BlockStmt{List: []ast.Stmt{
				&ast.AssignStmt{Lhs: []ast.Expr{ast.NewIdent(id.Name)}, Tok: token.DEFINE, Rhs: []ast.Expr{rw.call("ZeroOf", ch)}},
				&ast.AssignStmt{Lhs: []ast.Expr{ast.NewIdent("_")}, Tok: token.ASSIGN, Rhs: []ast.Expr{ast.NewIdent(id.Name)}},
				loop}}
			if rw.rangeWrap == nil {
				rw.rangeWrap = map[*ast.BlockStmt]*ast.ForStmt{}
			}
			rw.rangeWrap[blk] = loop
			out = blk
			return
		}
		if n.Key != nil && n.Tok == token.DEFINE {
			body = append(body, first)
			if id, ok := n.Key.(*ast.Ident); ok && id.Name != "_" {
				body = append(body, &ast.AssignStmt{Lhs: []ast.Expr{ast.NewIdent("_")}, Tok: token.ASSIGN, Rhs: []ast.Expr{ast.NewIdent(id.Name)}})
			}
		} else if n.Key != nil {
			body = append(body, &ast.DeclStmt{Decl: &ast.GenDecl{Tok: token.VAR, Specs: []ast.Spec{&ast.ValueSpec{Names: []*ast.Ident{okId}, Type: ast.NewIdent("bool")}}}})
			body = append(body, &ast.AssignStmt{Lhs: []ast.Expr{n.Key, okId}, Tok: token.ASSIGN, Rhs: []ast.Expr{recv}})
		} else {
			body = append(body, &ast.AssignStmt{Lhs: []ast.Expr{ast.NewIdent("_"), okId}, Tok: token.DEFINE, Rhs: []ast.Expr{recv}})
		}
		body = append(body, &ast.IfStmt{Cond: &ast.UnaryExpr{Op: token.NOT, X: okId}, Body: &ast.BlockStmt{List: []ast.Stmt{&ast.BranchStmt{Tok: token.BREAK}}}})
		body = append(body, n.Body.List...)
		out = &ast.ForStmt{For: n.For, Cond: rw.call("BeforeRecv", ch), Body: &ast.BlockStmt{Lbrace: n.Body.Lbrace, List: body, Rbrace: n.Body.Rbrace}}
		return
	case isMap(t):
		rw.st.MapRange++
		m := rw.expr(n.X)
		if !simpleExpr(m) {
			rw.tmpN++
			tmp := ast.NewIdent(fmt.Sprintf("vrtMap%d", rw.tmpN))
			pre = append(pre, &ast.AssignStmt{Lhs: []ast.Expr{tmp}, Tok: token.DEFINE, Rhs: []ast.Expr{m}})
			m = tmp
		}
		rw.block(n.Body)
		keys := rw.call("MapKeys", m)
		if n.Key == nil {
			// `for range m`: only the number of iterations matters
			n.X = keys
			return
		}
		if n.Value == nil || isBlank(n.Value) {
			n.X = keys
			n.Value = n.Key
			n.Key = ast.NewIdent("_")
			if n.Tok == token.ILLEGAL {
				n.Tok = token.DEFINE
			}
			return
		}
		// key and value
		rw.tmpN++
		okId := ast.NewIdent(fmt.Sprintf("vrtOk%d", rw.tmpN))
		keyExpr := n.Key
		var body []ast.Stmt
		if isBlank(n.Key) {
			rw.tmpN++
			keyExpr = ast.NewIdent(fmt.Sprintf("vrtKey%d", rw.tmpN))
			if n.Tok == token.ASSIGN {
				fatal("%s: `for _, v = range map` is not supported", rw.pos(n))
			}
		}
		idx := &ast.IndexExpr{X: m, Index: keyExpr}
		if n.Tok == token.DEFINE {
			body = append(body, &ast.AssignStmt{Lhs: []ast.Expr{n.Value, okId}, Tok: token.DEFINE, Rhs: []ast.Expr{idx}})
		} else {
			body = append(body, &ast.DeclStmt{Decl: &ast.GenDecl{Tok: token.VAR, Specs: []ast.Spec{&ast.ValueSpec{Names: []*ast.Ident{okId}, Type: ast.NewIdent("bool")}}}})
			body = append(body, &ast.AssignStmt{Lhs: []ast.Expr{n.Value, okId}, Tok: token.ASSIGN, Rhs: []ast.Expr{idx}})
		}
		body = append(body, &ast.IfStmt{Cond: &ast.UnaryExpr{Op: token.NOT, X: okId}, Body: &ast.BlockStmt{List: []ast.Stmt{&ast.BranchStmt{Tok: token.CONTINUE}}}})
		if id, ok := n.Value.(*ast.Ident); ok && n.Tok == token.DEFINE && id.Name != "_" {
			body = append(body, &ast.AssignStmt{Lhs: []ast.Expr{ast.NewIdent("_")}, Tok: token.ASSIGN, Rhs: []ast.Expr{ast.NewIdent(id.Name)}})
		}
		body = append(body, n.Body.List...)
		n.X = keys
		n.Value = keyExpr
		n.Key = ast.NewIdent("_")
		n.Body.List = body
		return
	default:
		if n.Key != nil && n.Tok == token.ASSIGN {
			pre = append(pre, rw.accessesIn(n.Key, true)...)
		}
		n.X = rw.expr(n.X)
		rw.block(n.Body)
	}
	return
}

func isBlank(e ast.Expr) bool {
	id, ok := e.(*ast.Ident)
	return ok && id.Name == "_"
}

// simpleExpr: identifiers and selector chains can be evaluated repeatedly.
func simpleExpr(e ast.Expr) bool {
	switch t := e.(type) {
	case *ast.Ident:
		return true
	case *ast.SelectorExpr:
		return simpleExpr(t.X)
	case *ast.ParenExpr:
		return simpleExpr(t.X)
	}
	return false
}

// ---- expression rewriting

func (rw *rewriter) expr(e ast.Expr) ast.Expr {
	if e == nil {
		return nil
	}
	switch n := e.(type) {
	case *ast.FuncLit:
		saved := rw.shared
		rw.block(n.Body)
		rw.shared = saved
		return n
	case *ast.UnaryExpr:
		if n.Op == token.ARROW {
			rw.st.Recv++
			return rw.call("Recv", rw.expr(n.X))
		}
		n.X = rw.expr(n.X)
		return n
	case *ast.BinaryExpr:
		n.X = rw.expr(n.X)
		n.Y = rw.expr(n.Y)
		return n
	case *ast.ParenExpr:
		n.X = rw.expr(n.X)
		return n
	case *ast.StarExpr:
		n.X = rw.expr(n.X)
		return n
	case *ast.SelectorExpr:
		n.X = rw.expr(n.X)
		return n
	case *ast.IndexExpr:
		n.X = rw.expr(n.X)
		n.Index = rw.expr(n.Index)
		return n
	case *ast.SliceExpr:
		n.X = rw.expr(n.X)
		n.Low = rw.expr(n.Low)
		n.High = rw.expr(n.High)
		n.Max = rw.expr(n.Max)
		return n
	case *ast.TypeAssertExpr:
		n.X = rw.expr(n.X)
		return n
	case *ast.KeyValueExpr:
		n.Value = rw.expr(n.Value)
		return n
	case *ast.CompositeLit:
		for i := range n.Elts {
			n.Elts[i] = rw.expr(n.Elts[i])
		}
		return n
	case *ast.CallExpr:
		return rw.callExpr(n)
	}
	return e
}

func (rw *rewriter) callExpr(n *ast.CallExpr) ast.Expr {
	// close(c)
	if id, ok := n.Fun.(*ast.Ident); ok && id.Name == "close" && len(n.Args) == 1 {
		if _, isBuiltin := rw.info.Uses[id].(*types.Builtin); isBuiltin {
			rw.st.Close++
			return rw.call("Close", rw.expr(n.Args[0]))
		}
	}
	if se, ok := n.Fun.(*ast.SelectorExpr); ok {
		// package-level functions: time.Now, os.Exit
		if id, ok := se.X.(*ast.Ident); ok {
			if pn, ok := rw.info.Uses[id].(*types.PkgName); ok {
				switch {
				case pn.Imported().Path() == "time" && se.Sel.Name == "Now":
					rw.st.Now++
					return rw.call("Now")
				case pn.Imported().Path() == "os" && se.Sel.Name == "Exit":
					rw.st.Exit++
					for i := range n.Args {
						n.Args[i] = rw.expr(n.Args[i])
					}
					return rw.call("Exit", n.Args...)
				}
			}
		}
		// methods of sync.Mutex / sync.WaitGroup
		if sel := rw.info.Selections[se]; sel != nil && sel.Kind() == types.MethodVal {
			recvT := sel.Recv()
			if ok, ptr := namedIs(recvT, "sync", "Mutex"); ok {
				recv := rw.addr(se.X, ptr)
				switch se.Sel.Name {
				case "Lock":
					rw.st.Mutex++
					return rw.call("Lock", recv)
				case "Unlock":
					rw.st.Mutex++
					return rw.call("Unlock", recv)
				default:
					fatal("%s: sync.Mutex.%s is not modelled", rw.pos(n), se.Sel.Name)
				}
			}
			if ok, ptr := namedIs(recvT, "sync", "WaitGroup"); ok {
				recv := rw.addr(se.X, ptr)
				switch se.Sel.Name {
				case "Add":
					rw.st.Wg++
					return rw.call("WgAdd", recv, rw.expr(n.Args[0]))
				case "Done":
					rw.st.Wg++
					return rw.call("WgDone", recv)
				case "Wait":
					rw.st.Wg++
					return rw.call("WgWait", recv)
				default:
					fatal("%s: sync.WaitGroup.%s is not modelled", rw.pos(n), se.Sel.Name)
				}
			}
			if ok, ptr := namedIs(recvT, "sync", "RWMutex"); ok {
				recv := rw.addr(se.X, ptr)
				switch se.Sel.Name {
				case "Lock", "Unlock", "RLock", "RUnlock":
					rw.st.Mutex++
					return rw.call("RW"+se.Sel.Name, recv)
				default:
					fatal("%s: sync.RWMutex.%s is not modelled", rw.pos(n), se.Sel.Name)
				}
			}
			if ok, ptr := namedIs(recvT, "sync", "Pool"); ok {
				recv := rw.addr(se.X, ptr)
				switch se.Sel.Name {
				case "Get":
					rw.st.Mutex++
					return rw.call("PoolGet", recv)
				case "Put":
					rw.st.Mutex++
					return rw.call("PoolPut", recv, rw.expr(n.Args[0]))
				}
			}
			if ok, ptr := namedIs(recvT, "sync", "Once"); ok && se.Sel.Name == "Do" {
				rw.st.Mutex++
				return rw.call("OnceDo", rw.addr(se.X, ptr), rw.expr(n.Args[0]))
			}
			if ok, _ := namedIs(recvT, "sync", "Locker"); ok && (se.Sel.Name == "Lock" || se.Sel.Name == "Unlock") {
				// c.L.Lock() of a condition variable, a Locker handed around: dispatched on the dynamic type
				rw.st.Mutex++
				return rw.call("Locker"+se.Sel.Name, rw.expr(se.X))
			}
			if ok, ptr := namedIs(recvT, "sync", "Map"); ok && se.Sel.Name == "Range" {
				rw.st.MapRange++
				return rw.call("SyncMapRange", rw.addr(se.X, ptr), rw.expr(n.Args[0]))
			}
			if ok, ptr := namedIs(recvT, "sync", "Cond"); ok {
				switch se.Sel.Name {
				case "Wait", "Signal", "Broadcast":
					rw.st.Mutex++
					return rw.call("Cond"+se.Sel.Name, rw.addr(se.X, ptr))
				}
			}
		}
	}
	n.Fun = rw.expr(n.Fun)
	for i := range n.Args {
		n.Args[i] = rw.expr(n.Args[i])
	}
	return n
}

func (rw *rewriter) addr(x ast.Expr, isPtr bool) ast.Expr {
	x = rw.expr(x)
	if isPtr {
		return x
	}
	return &ast.UnaryExpr{Op: token.AND, X: x}
}
