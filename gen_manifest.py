#!/usr/bin/env python3
"""Generates MANIFEST.json from the table below (kept in one place so that the
manifest stays valid and consistent with the drivers)."""
import json, os
V = os.path.dirname(os.path.abspath(__file__))
checks = json.load(open(os.path.join(V, "manifest_checks.json")))
man = {
 "version": 1,
 "setup_cmd": "./setup.sh",
 "hooks": {
  "guard": "verif",
  "enable": "no hook is committed to /repo: ./build.sh runs tools/vinstr on the current working tree and builds with `go build -overlay <generated> -tags verif` (rewritten copies + virtual package github.com/evolbioinfo/goalign/verifrt + two added files, rt/extra/align/verif_export.go and rt/extra/distance__protein/verif_export.go, that dump private state of packages align and distance/protein); with the overlay absent the repository is the untouched baseline",
  "baseline_off_cmd": "cd /repo && GOFLAGS=-mod=mod go test -json -vet=off -count=1 ./...",
  "source_commits": [],
  "add_only": True,
 },
 "engines": [
  {"name": "vinstr", "path": "tools/vinstr", "serves_properties": [c["property_id"] for c in checks["checks"]],
   "kind_free_text": "type-directed source-to-source instrumenter (go/types) producing a build overlay from /repo's current tree: scheduler hooks, RNG / map-order / clock / exit seams, shared-variable access events"},
  {"name": "vrt", "path": "rt", "serves_properties": [c["property_id"] for c in checks["checks"]],
   "kind_free_text": "runtime: cooperative controlled scheduler with shadow channel/mutex/RWMutex/WaitGroup/Cond/Pool/Once/select state, vector-clock race detection, choice-point trace"},
  {"name": "mc", "path": "harness/mc", "serves_properties": [c["property_id"] for c in checks["checks"]],
   "kind_free_text": "explorer: deviation-bounded choice-tree DFS, explicit-state BFS, bounded-exhaustive input enumeration, sharding over worker processes, 5x replay confirmation, evidence"},
 ],
 "checks": [],
 "notes": checks.get("notes", ""),
 "not_applicable": checks.get("not_applicable", []),
}
for c in checks["checks"]:
    pid = c["property_id"]
    man["checks"].append({
        "property_id": pid,
        "quick_cmd": f"./check {pid} --tier quick",
        "thorough_cmd": f"./check {pid} --tier thorough",
        "evidence_file": f"/verif/evidence/{pid}.json",
        "replay_cmd_template": f"./check {pid} --replay {{path}}",
        "engine": "mc",
        "level_claimed": {"category": c["level"], "text": c["text"], "design_ref": c.get("design_ref", f"DESIGN.md §4 {pid}")},
        "level_note": c["note"],
        "technique": c["technique"],
    })
json.dump(man, open(os.path.join(V, "MANIFEST.json"), "w"), indent=1)
print("MANIFEST.json written:", len(man["checks"]), "checks,", len(man["not_applicable"]), "not applicable")
