#!/usr/bin/env python3
"""addcheck.py ID level 'text' 'note' 'technique'  — claim a property in manifest_checks.json and regenerate MANIFEST.json"""
import json, sys, subprocess, os
V=os.path.dirname(os.path.abspath(__file__))
pid, level, text, note, tech = sys.argv[1:6]
d=json.load(open(f"{V}/manifest_checks.json"))
d["checks"]=[c for c in d["checks"] if c["property_id"]!=pid]
d["checks"].append({"property_id":pid,"level":level,"text":text,"note":note,"technique":tech})
d["checks"].sort(key=lambda c:c["property_id"])
d["not_applicable"]=[n for n in d["not_applicable"] if n["property_id"]!=pid]
json.dump(d,open(f"{V}/manifest_checks.json","w"),indent=1)
subprocess.check_call([f"{V}/gen_manifest.py"])
