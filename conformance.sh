#!/bin/bash
# conformance.sh [repo]: the instrumented tree in pass-through mode must be observationally
# identical to the plain tree — the repository's own test suite is run against the build
# overlay (go test -overlay … -tags verif) and must pass exactly like the baseline.
set -u
VERIF="$(cd "$(dirname "${BASH_SOURCE[0]}")" && pwd)"
export GOFLAGS=-mod=mod GOPROXY=off GOSUMDB=off GOTOOLCHAIN=local CGO_ENABLED=0
REPO="${1:-${VERIF_REPO:-/repo}}"
SCR="$(mktemp -d "${TMPDIR:-/tmp}/verif-conf-XXXXXX")"
trap 'rm -rf "$SCR"' EXIT
"$VERIF/build.sh" "$REPO" "$SCR" >"$SCR/build.log" 2>&1 || { cat "$SCR/build.log"; echo "conformance: build failed"; exit 2; }
cd "$REPO" && go test -overlay "$SCR/ov/overlay.json" -tags verif -vet=off -count=1 -json ./... 2>/dev/null | python3 -c "
import sys,json
p=f=0
for l in sys.stdin:
    try: e=json.loads(l)
    except Exception: continue
    if e.get('Test') and e.get('Action')=='pass': p+=1
    if e.get('Test') and e.get('Action')=='fail':
        f+=1; print('FAIL',e['Package'],e['Test'])
print('conformance: instrumented tree, pass-through mode: %d tests pass, %d fail'%(p,f))
sys.exit(1 if f or p==0 else 0)"
