#!/bin/bash
# seedregress.sh [pattern]: re-runs the quick check(s) recorded as catching each kept seeded change
# (seeded/<id>/patch.diff applied to a scratch worktree of /repo's HEAD) against the current /verif.
# Lighter than seedcheck.sh: the patch is already known to compile, pass the suite and break the property.
# Output: one line per change, "REGRESS <id> caught_by=[...] missed=[...]"; exit 1 if a change is caught by none.
set -u
VERIF="$(cd "$(dirname "${BASH_SOURCE[0]}")" && pwd)"
export GOFLAGS=-mod=mod GOPROXY=off GOSUMDB=off GOTOOLCHAIN=local CGO_ENABLED=0
PAT="${1:-}"
rc=0
for d in "$VERIF"/seeded/*${PAT}*/; do
  id="$(basename "$d")"; [ -f "$d/patch.diff" ] || continue
  props="$(python3 -c "
import json,sys
m=json.load(open('$d/meta.json'))
c=m.get('caught_by') or [m.get('property')]
own=m.get('property')
c=[own]+[x for x in c if x!=own] if own in c else c
print(' '.join(c))")"
  WT="$(mktemp -d /tmp/seedreg-XXXXXX)"; rmdir "$WT"
  git -C /repo worktree add --detach "$WT" HEAD -q || { echo "REGRESS $id cannot create worktree"; rc=1; continue; }
  if ! (cd "$WT" && (git apply --whitespace=nowarn "$d/patch.diff" 2>/dev/null || patch -p1 -s --fuzz=3 --no-backup-if-mismatch < "$d/patch.diff" >/dev/null 2>&1)); then
    echo "REGRESS $id patch does not apply to HEAD"; git -C /repo worktree remove --force "$WT" >/dev/null 2>&1; rm -rf "$WT"; continue
  fi
  caught=""; missed=""
  OUT="$(mktemp -d /tmp/seedreg-out-XXXXXX)"
  # the COMMITTED /verif (git archive HEAD): edits in progress in the working tree cannot break or bend the run
    mkdir -p "$OUT/verif" && git -C "$VERIF" archive HEAD -- . ':!seeded' ':!evidence' ':!replays' | tar -x -C "$OUT/verif" && mkdir -p "$OUT/verif/tools/bin" && cp -p "$VERIF/tools/bin/vinstr" "$OUT/verif/tools/bin/" 2>/dev/null
  for p in $props; do
    CGO=0; [ "$p" = C08 ] || [ "$p" = C16 ] || [ "$p" = C03 ] || [ "$p" = C18 ] && CGO=1
    VERIF_REPO="$WT" CGO_ENABLED=$CGO "$OUT/verif/check" "$p" --budget 600 > "$OUT/check.out" 2>&1
    r=$?
    if [ $r = 1 ] && grep -q "^VIOLATION" "$OUT/check.out"; then caught="$caught $p"; break; else missed="$missed $p(exit$r)"; fi
  done
  echo "REGRESS $id caught_by=[$caught ] missed=[$missed ]"
  [ -z "$caught" ] && rc=1
  rm -rf "$OUT"; git -C /repo worktree remove --force "$WT" >/dev/null 2>&1; rm -rf "$WT"
done
exit $rc
