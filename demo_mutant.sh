#!/bin/bash
# demo_mutant.sh <patch> <property> [check args…]
# Applies <patch> to a scratch copy of the repository (outside /repo and /verif),
# optionally runs the repository's own tests (RUN_BASELINE=1), runs the check
# against the copy and reports whether the mutant is caught.  The copy is removed.
set -u
VERIF="$(cd "$(dirname "${BASH_SOURCE[0]}")" && pwd)"
PATCH="$(readlink -f "$1")"; PROP="$2"; shift 2
export GOFLAGS=-mod=mod GOPROXY=off GOSUMDB=off GOTOOLCHAIN=local
SCR="$(mktemp -d "${TMPDIR:-/tmp}/verif-mut-XXXXXX")"
trap 'rm -rf "$SCR"' EXIT
rsync -a --exclude .git /repo/ "$SCR/repo/"
if ! (cd "$SCR/repo" && patch -p1 --no-backup-if-mismatch -s < "$PATCH"); then echo "MUTANT $(basename "$PATCH"): patch does not apply"; exit 3; fi
if ! (cd "$SCR/repo" && go build ./... 2>"$SCR/build.err"); then echo "MUTANT $(basename "$PATCH"): does not compile"; head -5 "$SCR/build.err"; exit 3; fi
if [ "${RUN_BASELINE:-0}" = 1 ]; then
  if (cd "$SCR/repo" && go test -vet=off -count=1 ./... >"$SCR/test.out" 2>&1); then echo "  baseline tests: pass"; else echo "  baseline tests: FAIL"; grep -E "^(--- FAIL|FAIL)" "$SCR/test.out" | head -5; fi
fi
OUT="$(mktemp -d "${TMPDIR:-/tmp}/verif-mutout-XXXXXX")"
# evidence/replays of a mutant run must not overwrite the real ones
rsync -a --exclude .git --exclude evidence --exclude replays "$VERIF/" "$OUT/verif/"
VERIF_REPO="$SCR/repo" "$OUT/verif/check" "$PROP" "$@" > "$SCR/check.out" 2>&1
rc=$?
grep -E "^VIOLATION|sig=|^HARNESS-ERROR" "$SCR/check.out" | head -6
tail -1 "$SCR/check.out"
rm -rf "$OUT"
if [ $rc = 1 ]; then echo "MUTANT $(basename "$PATCH"): CAUGHT by $PROP"; exit 0; fi
echo "MUTANT $(basename "$PATCH"): NOT caught by $PROP (exit $rc)"; exit 1
