#!/bin/bash
# build.sh <repo> <scratch>: instrument the repository's current working tree
# (overlay only; the repository is not modified) and build vcheck into <scratch>.
set -eu
VERIF="$(cd "$(dirname "${BASH_SOURCE[0]}")" && pwd)"
export GOFLAGS=-mod=mod GOPROXY=off GOSUMDB=off GOTOOLCHAIN=local CGO_ENABLED=0
REPO="$1"; SCR="$2"
mkdir -p "$SCR/ov"
if [ ! -x "$VERIF/tools/bin/vinstr" ] || [ -n "$(find "$VERIF/tools/vinstr" -newer "$VERIF/tools/bin/vinstr" -name '*.go' 2>/dev/null)" ]; then
  mkdir -p "$VERIF/tools/bin"
  (cd "$VERIF/tools/vinstr" && go build -o "$VERIF/tools/bin/vinstr" .)
fi
"$VERIF/tools/bin/vinstr" -repo "$REPO" -rt "$VERIF/rt" -out "$SCR/ov" ${VINSTR_FLAGS:-}
sed "s#=> /repo#=> $REPO#" "$VERIF/harness/go.mod" > "$SCR/go.mod"
cp "$REPO/go.sum" "$SCR/go.sum"
cd "$VERIF/harness"
go build -modfile="$SCR/go.mod" -overlay "$SCR/ov/overlay.json" -tags verif -o "$SCR/vcheck" .
# the instrumented command-line binary (subprocess-mode exploration, C11)
if [ "${VERIF_BUILD_CLI:-0}" = 1 ]; then
  (cd "$REPO" && go build -overlay "$SCR/ov/overlay.json" -tags verif -o "$SCR/goalign-instr" . && go build -o "$SCR/goalign-plain" .)
fi
