// vcheck: single binary holding the explorer and all property drivers.
package main

import (
	"verif/harness/mc"
	_ "verif/harness/props"
)

func main() { mc.Main() }
