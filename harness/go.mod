module verif/harness

go 1.21.6

require github.com/evolbioinfo/goalign v0.0.0

require (
	github.com/armon/go-radix v1.0.0 // indirect
	golang.org/x/exp v0.0.0-20200224162631-6cc2880d07d6 // indirect
	gonum.org/v1/gonum v0.9.3 // indirect
)

replace github.com/evolbioinfo/goalign => /repo
