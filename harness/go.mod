module verif/harness

go 1.21.6

require github.com/evolbioinfo/goalign v0.0.0

replace github.com/evolbioinfo/goalign => /repo
