// racepass: free-running complement of the controlled-scheduler exploration.
// The same driver bodies run uncontrolled under the Go race detector (a
// cooperative scheduler's hand-offs are happens-before edges that blind it).
// The detector is precise: any report is a real data race.
package main

import (
	"errors"
	"fmt"
	"io"
	"log"
	"os"
	"runtime"

	"github.com/evolbioinfo/goalign/align"
	"github.com/evolbioinfo/goalign/distance/dna"
	"github.com/evolbioinfo/goalign/io/phylip"
	"strings"
)

type failModel struct {
	dna.DistModel
	failPair int
	n        chan int
}

var errInjected = errors.New("injected")

func (m *failModel) Distance(a, b []uint8, w []float64) (float64, error) {
	if k := <-m.n; k == m.failPair {
		return 0, errInjected
	}
	return m.DistModel.Distance(a, b, w)
}

func mkAlign(seqs []string) align.Alignment {
	a := align.NewAlign(align.NUCLEOTIDS)
	for i, s := range seqs {
		a.AddSequence(fmt.Sprintf("s%d", i), s, "")
	}
	return a
}

func distBodies(reps int) {
	small := []string{"ACGT", "CCGT", "CAGT", "ACGA"}
	var big []string
	for i := 0; i < 16; i++ {
		big = append(big, fmt.Sprintf("%c%c%cAC", "ACGT"[i%4], "ACGT"[(i/4)%4], "ACGT"[(i/2)%4]))
	}
	for r := 0; r < reps; r++ {
		for _, cpus := range []int{1, 2, 3, 8, 16, 32} {
			for _, seqs := range [][]string{small, big} {
				for _, model := range []string{"k2p", "jc", "pdist", "tn93"} {
					m, _ := dna.Model(model, false)
					dna.DistMatrix(mkAlign(seqs), nil, m, -1, -1, -1, -1, false, 0, cpus)
					m, _ = dna.Model(model, false)
					dna.DistMatrix(mkAlign(seqs), nil, m, 0, 2, 1, 3, false, 0, cpus)
				}
				// failing model: pair k fails
				for k := 0; k < 3; k++ {
					m, _ := dna.Model("k2p", false)
					cnt := make(chan int, 1000)
					for i := 0; i < 1000; i++ {
						cnt <- i
					}
					_, err := dna.DistMatrix(mkAlign(seqs), nil, &failModel{m, k, cnt}, -1, -1, -1, -1, false, 0, cpus)
					if err == nil {
						fmt.Println("RACEPASS-ERROR-LOST")
					}
				}
			}
		}
	}
}

func phaseBodies(reps int) {
	ref := "ATGGCTTGGTAA"
	for r := 0; r < reps; r++ {
		for _, cpus := range []int{1, 2, 3, 8} {
			sb := align.NewSeqBag(align.NUCLEOTIDS)
			// enough sequences, each long enough, for the workers to overlap in time: the
			// detector only sees accesses that really happen on different goroutines
			flanks := []string{"", "C", "CC", "CATGC", "G", "TTGACCA", "GGCATTACGA"}
			for i := 0; i < 240; i++ {
				fl := flanks[i%len(flanks)]
				sb.AddSequence(fmt.Sprintf("s%d", i), fl+flanks[(i/7)%len(flanks)]+ref+"GTT"+fl, "")
			}
			orfs := align.NewSeqBag(align.NUCLEOTIDS)
			orfs.AddSequence("orf", ref, "")
			for _, translate := range []bool{true, false} {
				ph := align.NewPhaser()
				ph.SetCpus(cpus)
				ph.SetTranslate(translate, align.GENETIC_CODE_STANDARD)
				ch, err := ph.Phase(orfs, sb)
				if err != nil {
					continue
				}
				for range ch {
				}
			}
		}
	}
}

// phylipStreamBodies: the producer/consumer protocol of a multi-alignment Phylip
// stream as the command line uses it: the parser runs in its own goroutine and fills
// the channel, the consumer ranges over the channel until it is closed and only then
// reads Err.  A valid first alignment followed by a malformed one.
func phylipStreamBodies(reps int) {
	inputs := []string{
		"   2   4\na  ACGT\nb  AC-T\n   2   4\na  ACGT\nb  AC\n",
		"   2   4\na  ACGT\nb  AC-T\n   2   4\na  ACGT\nb  ACGT\n",
		"   2   4\na  ACGT\nb  AC-T\n   x\n",
		"",
	}
	for r := 0; r < reps*200; r++ {
		for k, in := range inputs {
			for _, strict := range []bool{false, true} {
				ac := &align.AlignChannel{Achan: make(chan align.Alignment, 15)}
				go func() {
					phylip.NewParser(strings.NewReader(in), strict).ParseMultiple(ac)
				}()
				n := 0
				for range ac.Achan {
					n++
				}
				if (k == 0 || k == 2) && ac.Err == nil {
					fmt.Println("RACEPASS-ERROR-LOST")
				}
			}
		}
	}
}

func main() {
	log.SetOutput(io.Discard)
	what := os.Args[1]
	reps := 5
	for _, p := range []int{1, 2, 4, 16} {
		runtime.GOMAXPROCS(p)
		switch what {
		case "dist":
			distBodies(reps)
		case "phase":
			phaseBodies(reps)
		case "phylipstream":
			phylipStreamBodies(reps)
		}
	}
	fmt.Println("RACEPASS-DONE")
}
