// racepass: free-running complement of the controlled-scheduler exploration.
// The same driver bodies run uncontrolled under the Go race detector (a
// cooperative scheduler's hand-offs are happens-before edges that blind it).
// The detector is precise: any report is a real data race.
package main

import (
	"errors"
	"fmt"
	"io"
	"log"
	"math"
	"os"
	"os/exec"
	"runtime"

	"github.com/evolbioinfo/goalign/align"
	"github.com/evolbioinfo/goalign/distance/dna"
	"github.com/evolbioinfo/goalign/io/phylip"
	"github.com/evolbioinfo/goalign/models"
	mdna "github.com/evolbioinfo/goalign/models/dna"
	mprot "github.com/evolbioinfo/goalign/models/protein"
	"strings"
	"sync"
)

type failModel struct {
	dna.DistModel
	failPair int
	n        chan int
}

var errInjected = errors.New("injected")

func (m *failModel) Distance(a, b []uint8, w []float64) (float64, error) {
	if k := <-m.n; k == m.failPair {
		return 0, errInjected
	}
	return m.DistModel.Distance(a, b, w)
}

func mkAlign(seqs []string) align.Alignment {
	a := align.NewAlign(align.NUCLEOTIDS)
	for i, s := range seqs {
		a.AddSequence(fmt.Sprintf("s%d", i), s, "")
	}
	return a
}

func distBodies(reps int) {
	small := []string{"ACGT", "CCGT", "CAGT", "ACGA"}
	var big []string
	for i := 0; i < 16; i++ {
		big = append(big, fmt.Sprintf("%c%c%cAC", "ACGT"[i%4], "ACGT"[(i/4)%4], "ACGT"[(i/2)%4]))
	}
	for r := 0; r < reps; r++ {
		for _, cpus := range []int{1, 2, 3, 8, 16, 32} {
			for _, seqs := range [][]string{small, big} {
				for _, model := range []string{"k2p", "jc", "pdist", "tn93"} {
					m, _ := dna.Model(model, false)
					dna.DistMatrix(mkAlign(seqs), nil, m, -1, -1, -1, -1, false, 0, cpus)
					m, _ = dna.Model(model, false)
					dna.DistMatrix(mkAlign(seqs), nil, m, 0, 2, 1, 3, false, 0, cpus)
				}
				// failing model: pair k fails
				for k := 0; k < 3; k++ {
					m, _ := dna.Model("k2p", false)
					cnt := make(chan int, 1000)
					for i := 0; i < 1000; i++ {
						cnt <- i
					}
					_, err := dna.DistMatrix(mkAlign(seqs), nil, &failModel{m, k, cnt}, -1, -1, -1, -1, false, 0, cpus)
					if err == nil {
						fmt.Println("RACEPASS-ERROR-LOST")
					}
				}
			}
		}
	}
}

func phaseBodies(reps int) {
	ref := "ATGGCTTGGTAA"
	for r := 0; r < reps; r++ {
		for _, cpus := range []int{1, 2, 3, 8} {
			sb := align.NewSeqBag(align.NUCLEOTIDS)
			// enough sequences, each long enough, for the workers to overlap in time: the
			// detector only sees accesses that really happen on different goroutines
			flanks := []string{"", "C", "CC", "CATGC", "G", "TTGACCA", "GGCATTACGA"}
			for i := 0; i < 240; i++ {
				fl := flanks[i%len(flanks)]
				sb.AddSequence(fmt.Sprintf("s%d", i), fl+flanks[(i/7)%len(flanks)]+ref+"GTT"+fl, "")
			}
			orfs := align.NewSeqBag(align.NUCLEOTIDS)
			orfs.AddSequence("orf", ref, "")
			for _, translate := range []bool{true, false} {
				ph := align.NewPhaser()
				ph.SetCpus(cpus)
				ph.SetTranslate(translate, align.GENETIC_CODE_STANDARD)
				ch, err := ph.Phase(orfs, sb)
				if err != nil {
					continue
				}
				for range ch {
				}
			}
		}
	}
}

// phylipStreamBodies: the producer/consumer protocol of a multi-alignment Phylip
// stream as the command line uses it: the parser runs in its own goroutine and fills
// the channel, the consumer ranges over the channel until it is closed and only then
// reads Err.  A valid first alignment followed by a malformed one.
func phylipStreamBodies(reps int) {
	inputs := []string{
		"   2   4\na  ACGT\nb  AC-T\n   2   4\na  ACGT\nb  AC\n",
		"   2   4\na  ACGT\nb  AC-T\n   2   4\na  ACGT\nb  ACGT\n",
		"   2   4\na  ACGT\nb  AC-T\n   x\n",
		"",
	}
	for r := 0; r < reps*200; r++ {
		for k, in := range inputs {
			for _, strict := range []bool{false, true} {
				ac := &align.AlignChannel{Achan: make(chan align.Alignment, 15)}
				go func() {
					phylip.NewParser(strings.NewReader(in), strict).ParseMultiple(ac)
				}()
				n := 0
				for range ac.Achan {
					n++
				}
				if (k == 0 || k == 2) && ac.Err == nil {
					fmt.Println("RACEPASS-ERROR-LOST")
				}
			}
		}
	}
}

// modelBodies: every goroutine owns its model objects (nothing is shared at the API level), initialises
// them and evaluates P(t); the values must be those of the same work done alone.
func modelBodies(reps int) {
	type job func() string
	mk := func(k int) job {
		f := float64(k%5) * 0.03
		piA, piC, piG := 0.1+f, 0.2, 0.3
		piT := 1 - piA - piC - piG
		return func() (res string) {
			defer func() {
				if r := recover(); r != nil {
					res = fmt.Sprint("panic: ", r)
				}
			}()
			var ms []models.Model
			m1 := mdna.NewF81Model()
			m1.InitModel(piA, piC, piG, piT)
			m2 := mdna.NewTN93Model()
			m2.InitModel(1.5+f, 0.7, piA, piC, piG, piT)
			m3 := mdna.NewGTRModel()
			m3.InitModel(1, 2+f, 0.5, 1.2, 3, 0.8, piA, piC, piG, piT)
			m4 := mdna.NewK2PModel()
			m4.InitModel(2 + f)
			m5 := mdna.NewF84Model()
			m5.InitModel(1.2+f, piA, piC, piG, piT)
			ms = append(ms, m1, m2, m3, m4, m5)
			for _, id := range []int{mprot.MODEL_LG, mprot.MODEL_WAG} {
				if pm, err := mprot.NewProtModel(id, false, 0); err == nil && pm.InitModel(nil) == nil {
					ms = append(ms, pm)
				}
			}
			var sb strings.Builder
			for _, m := range ms {
				p, err := models.NewPij(m, 0.1+f)
				if err != nil {
					fmt.Fprint(&sb, "err:", err, ";")
					continue
				}
				for i := 0; i < 4; i++ {
					for j := 0; j < 4; j++ {
						fmt.Fprintf(&sb, "%x,", p.Pij(i, j))
					}
				}
			}
			return sb.String()
		}
	}
	const nj = 8
	want := make([]string, nj)
	for k := range want {
		want[k] = mk(k)()
	}
	for r := 0; r < reps*40; r++ {
		var wg sync.WaitGroup
		got := make([]string, nj)
		for k := 0; k < nj; k++ {
			wg.Add(1)
			go func(k int) {
				defer wg.Done()
				got[k] = mk(k)()
			}(k)
		}
		wg.Wait()
		for k := range got {
			if strings.HasPrefix(got[k], "panic: ") {
				fmt.Println("RACEPASS-PANIC", got[k])
			} else if got[k] != want[k] {
				fmt.Println("RACEPASS-RESULT-DIFFERS")
			}
		}
	}
}

// sharedModelBodies: ONE initialised model read by several goroutines, each with a models.Pij of its own and its own
// branch length (what a tree likelihood with one model and many branches does); P(t) must be what it is alone.
func sharedModelBodies(reps int) {
	var ms []models.Model
	m1 := mdna.NewK2PModel()
	m1.InitModel(2.5)
	m2 := mdna.NewJCModel()
	m2.InitModel()
	m3 := mdna.NewF84Model()
	m3.InitModel(1.7, .1, .2, .3, .4)
	m4 := mdna.NewTN93Model()
	m4.InitModel(1.5, 0.7, .1, .2, .3, .4)
	m5 := mdna.NewGTRModel()
	m5.InitModel(1, 2, 0.5, 1.2, 3, 0.8, .1, .2, .3, .4)
	ms = append(ms, m1, m2, m3, m4, m5)
	if pm, err := mprot.NewProtModel(mprot.MODEL_LG, false, 0); err == nil && pm.InitModel(nil) == nil {
		ms = append(ms, pm)
	}
	render := func(k int) (res string) {
		defer func() {
			if r := recover(); r != nil {
				res = fmt.Sprint("panic: ", r)
			}
		}()
		var sb strings.Builder
		for _, m := range ms {
			p, err := models.NewPij(m, 0.05*float64(k+1))
			if err != nil {
				fmt.Fprint(&sb, "err;")
				continue
			}
			for i := 0; i < 4; i++ {
				for j := 0; j < 4; j++ {
					fmt.Fprintf(&sb, "%x,", p.Pij(i, j))
				}
			}
			p.SetLength(0.3 * float64(k+1))
			fmt.Fprintf(&sb, "%x;", p.Pij(0, 1))
		}
		return sb.String()
	}
	const nj = 8
	want := make([]string, nj)
	for k := range want {
		want[k] = render(k)
	}
	for r := 0; r < reps*40; r++ {
		var wg sync.WaitGroup
		got := make([]string, nj)
		for k := 0; k < nj; k++ {
			wg.Add(1)
			go func(k int) {
				defer wg.Done()
				got[k] = render(k)
			}(k)
		}
		wg.Wait()
		for k := range got {
			if strings.HasPrefix(got[k], "panic: ") {
				fmt.Println("RACEPASS-PANIC", got[k])
			} else if got[k] != want[k] {
				fmt.Println("RACEPASS-RESULT-DIFFERS")
			}
		}
	}
}

// gammaBodies: discrete-gamma rate categories and the incomplete gamma ratio are pure functions of their
// arguments: called by several goroutines at once they give the values of the same calls made alone.
func gammaBodies(reps int) {
	type key struct {
		a float64
		k int
	}
	var keys []key
	for _, a := range []float64{0.05, 0.3, 0.5, 1, 2, 10, 50} {
		for _, k := range []int{2, 4, 8, 16} {
			keys = append(keys, key{a, k})
		}
	}
	render := func(a float64, k int) (res string) {
		defer func() {
			if r := recover(); r != nil {
				res = fmt.Sprint("panic: ", r)
			}
		}()
		var sb strings.Builder
		for _, r := range models.DiscreteGamma(a, k) {
			fmt.Fprintf(&sb, "%x,", r)
		}
		for _, x := range []float64{0.5, 1.5, a, a * 3, 40} {
			lg, _ := math.Lgamma(a)
			fmt.Fprintf(&sb, "%x,", models.IncompleteGamma(x, a, lg))
		}
		return sb.String()
	}
	want := make([]string, len(keys))
	for i, k := range keys {
		want[i] = render(k.a, k.k)
	}
	for r := 0; r < reps*30; r++ {
		var wg sync.WaitGroup
		got := make([]string, len(keys))
		for w := 0; w < 8; w++ {
			wg.Add(1)
			go func(w int) {
				defer wg.Done()
				for i := w; i < len(keys); i += 8 {
					got[i] = render(keys[i].a, keys[i].k)
				}
			}(w)
		}
		wg.Wait()
		for i := range got {
			if strings.HasPrefix(got[i], "panic: ") {
				fmt.Println("RACEPASS-PANIC", got[i])
			} else if got[i] != want[i] {
				fmt.Println("RACEPASS-RESULT-DIFFERS")
			}
		}
	}
}

// ownBodies: each render builds objects of its own and returns what the library computed from them.  The renders are run
// alone first, then by 8 goroutines at once: concurrent callers that share nothing must get what they get alone
// (package-level scratch buffers, caches and pools are what this pass is after).
func ownBodies(reps int, renders []func() string) {
	safe := func(f func() string) (res string) {
		defer func() {
			if r := recover(); r != nil {
				res = fmt.Sprint("panic: ", r)
			}
		}()
		return f()
	}
	want := make([]string, len(renders))
	for i, f := range renders {
		want[i] = safe(f)
	}
	for r := 0; r < reps*6; r++ {
		var wg sync.WaitGroup
		got := make([]string, len(renders))
		for w := 0; w < 8; w++ {
			wg.Add(1)
			go func(w int) {
				defer wg.Done()
				for i := w; i < len(renders); i += 8 {
					got[i] = safe(renders[i])
				}
			}(w)
		}
		wg.Wait()
		for i := range got {
			if strings.HasPrefix(got[i], "panic: ") && !strings.HasPrefix(want[i], "panic: ") {
				fmt.Println("RACEPASS-PANIC", got[i])
			} else if got[i] != want[i] {
				fmt.Println("RACEPASS-RESULT-DIFFERS")
			}
		}
	}
}

func rowsOf(sb align.SeqBag) string {
	var b strings.Builder
	sb.IterateChar(func(name string, s []uint8) bool {
		b.WriteString(name)
		b.WriteByte('=')
		b.Write(s)
		b.WriteByte(';')
		return false
	})
	return b.String()
}

// ntRows / aaRows: k-th family of rows (different lengths and contents per k).
func ntRows(k, n int) []string {
	L := 9 + 3*(k%7)
	out := make([]string, n)
	for i := range out {
		b := make([]byte, L)
		for j := range b {
			b[j] = "ACGTacgtNRY-"[(i*5+j*7+k*3+(i*j)%4)%12]
		}
		out[i] = string(b)
	}
	return out
}

func aaRows(k, n int) []string {
	L := 6 + 2*(k%5)
	out := make([]string, n)
	for i := range out {
		b := make([]byte, L)
		for j := range b {
			b[j] = "ARNDCQEGHILKMFPSTWYV-X"[(i*3+j*5+k*7+(i*j)%3)%22]
		}
		out[i] = string(b)
	}
	return out
}

func mkAln(alpha int, seqs []string) align.Alignment {
	a := align.NewAlign(alpha)
	for i, s := range seqs {
		a.AddSequence(fmt.Sprintf("s%d", i), s, "")
	}
	return a
}

func ownRenders(what string) []func() string {
	var rs []func() string
	for k := 0; k < 24; k++ {
		k := k
		switch what {
		case "own-translate":
			rs = append(rs, func() string {
				var b strings.Builder
				for _, code := range []int{align.GENETIC_CODE_STANDARD, align.GENETIC_CODE_VETEBRATE_MITO, align.GENETIC_CODE_INVETEBRATE_MITO} {
					for fr := 0; fr < 3; fr++ {
						for _, s := range ntRows(k, 3) {
							sq := align.NewSequence("s", []uint8(s), "")
							t, err := sq.Translate(fr, code)
							if err == nil {
								b.WriteString(t.Sequence())
							}
							b.WriteByte('|')
						}
						al := mkAln(align.NUCLEOTIDS, ntRows(k, 3))
						if err := al.Translate(fr, code); err == nil {
							b.WriteString(rowsOf(al))
						}
						al2 := mkAln(align.NUCLEOTIDS, ntRows(k, 3))
						if err := al2.TranslateByReference(0, code, "s0"); err == nil {
							b.WriteString(rowsOf(al2))
						}
					}
				}
				return b.String()
			})
		case "own-strand":
			rs = append(rs, func() string {
				var b strings.Builder
				al := mkAln(align.NUCLEOTIDS, ntRows(k, 4))
				al.ReverseComplement()
				b.WriteString(rowsOf(al))
				al.ReverseComplementSequences("s1", "s2")
				b.WriteString(rowsOf(al))
				al.ToUpper()
				b.WriteString(rowsOf(al))
				al.ToLower()
				b.WriteString(rowsOf(al))
				b.WriteString(rowsOf(al.Unalign()))
				return b.String()
			})
		case "own-extract":
			rs = append(rs, func() string {
				var b strings.Builder
				al := mkAln(align.NUCLEOTIDS, ntRows(k, 4))
				L := al.Length()
				if s, err := al.SubAlign(1, L-2); err == nil {
					b.WriteString(rowsOf(s))
				}
				if s, err := al.SelectSites([]int{L - 1, 0, 2, 2}); err == nil {
					b.WriteString(rowsOf(s))
				}
				if t, err := al.Transpose(); err == nil {
					b.WriteString(rowsOf(t))
				}
				st, ln, _ := al.RefCoordinates("s0", 1, 3)
				fmt.Fprint(&b, st, ln)
				al.DiffWithFirst()
				b.WriteString(rowsOf(al))
				al.ReplaceMatchChars()
				b.WriteString(rowsOf(al))
				al.TrimSequences(2, k%2 == 0)
				b.WriteString(rowsOf(al))
				return b.String()
			})
		case "own-clean":
			rs = append(rs, func() string {
				var b strings.Builder
				al := mkAln(align.NUCLEOTIDS, ntRows(k, 5))
				f, l, kept, rm := al.RemoveGapSites(0.2, k%2 == 0)
				fmt.Fprint(&b, f, l, kept, rm, rowsOf(al))
				al = mkAln(align.NUCLEOTIDS, ntRows(k, 5))
				f, l, kept, rm = al.RemoveMajorityCharacterSites(0.6, false, true, true)
				fmt.Fprint(&b, f, l, kept, rm, rowsOf(al))
				al = mkAln(align.NUCLEOTIDS, ntRows(k, 5))
				f, l, kept, rm = al.RemoveCharacterSites([]uint8{'N', 'a'}, 0.2, false, true, false, false, false)
				fmt.Fprint(&b, f, l, kept, rm, rowsOf(al))
				al = mkAln(align.NUCLEOTIDS, ntRows(k, 5))
				al.RemoveGapSeqs(0.1, false)
				b.WriteString(rowsOf(al))
				return b.String()
			})
		case "own-dedup":
			rs = append(rs, func() string {
				var b strings.Builder
				seqs := ntRows(k, 4)
				seqs = append(seqs, seqs[1], seqs[0])
				al := mkAln(align.NUCLEOTIDS, seqs)
				id, _ := al.Deduplicate(k%2 == 0)
				fmt.Fprint(&b, id, rowsOf(al))
				al = mkAln(align.NUCLEOTIDS, ntRows(k, 3))
				w := al.Compress()
				fmt.Fprint(&b, w, rowsOf(al))
				return b.String()
			})
		case "own-stats":
			rs = append(rs, func() string {
				var b strings.Builder
				al := mkAln(align.NUCLEOTIDS, ntRows(k, 5))
				c, o, t := al.MaxCharStats(k%2 == 0, k%3 == 0)
				fmt.Fprint(&b, string(c), o, t)
				b.WriteString(rowsOf(al.Consensus(false, true)))
				for j := 0; j < al.Length(); j++ {
					e, _ := al.Entropy(j, false)
					fmt.Fprintf(&b, "%x,", e)
				}
				fmt.Fprint(&b, al.CharStats(), al.NbVariableSites())
				g1, g2, g3, _ := al.NumGapsUniquePerSequence(nil)
				fmt.Fprint(&b, g1, g2, g3)
				ref := align.NewSequence("r", []uint8(ntRows(k, 1)[0]), "")
				for _, x := range ntRows(k, 5) {
					nm, _ := align.NewSequence("x", []uint8(x), "").NumMutationsComparedToReferenceSequence(align.NUCLEOTIDS, ref)
					fmt.Fprint(&b, nm, ",")
				}
				u1, u2, u3, _ := al.NumMutationsUniquePerSequence(nil)
				fmt.Fprint(&b, u1, u2, u3)
				return b.String()
			})
		case "own-mask":
			rs = append(rs, func() string {
				var b strings.Builder
				al := mkAln(align.NUCLEOTIDS, ntRows(k, 5))
				al.Mask("", 1, 4, "MAJ", false, false)
				b.WriteString(rowsOf(al))
				al.Mask("s0", 2, 5, "AMBIG", true, true)
				b.WriteString(rowsOf(al))
				al.MaskOccurences("", 1, "MAJ")
				b.WriteString(rowsOf(al))
				al.MaskUnique("s1", "GAP")
				b.WriteString(rowsOf(al))
				return b.String()
			})
		case "own-sw":
			rs = append(rs, func() string {
				var b strings.Builder
				rows := ntRows(k, 2)
				for _, alg := range []int{align.ALIGN_ALGO_SW, align.ALIGN_ALGO_ATG} {
					a := align.NewPwAligner(align.NewSequence("a", []uint8(strings.ToUpper(strings.ReplaceAll(rows[0], "-", "A"))), ""), align.NewSequence("b", []uint8(strings.ToUpper(strings.ReplaceAll(rows[1], "-", "C"))), ""), alg)
					al, err := a.Alignment()
					if err == nil {
						fmt.Fprint(&b, rowsOf(al), a.MaxScore())
					}
				}
				return b.String()
			})
		}
	}
	return rs
}

// firstUse: state that is built lazily at first use is only raced for by the FIRST concurrent use in a process.
// "first" runs this binary again, once per operation, as a fresh process whose very first library call is that
// operation done by several workers at once ("first:<op>"); the children's reports are relayed.
var firstOps = []string{"dist-k2p", "dist-f84", "dist-tn93", "dist-jc", "dist-f81", "dist-pdist", "dist-rawdist", "phase", "gamma", "model-gtr", "model-lg"}

func firstUse(op string) {
	big := make([]string, 8)
	for i := range big {
		big[i] = fmt.Sprintf("%c%c%cACRY-N", "ACGT"[i%4], "ACGT"[(i/4)%4], "ACGT"[(i/2)%4])
	}
	switch {
	case strings.HasPrefix(op, "dist-"):
		m, _ := dna.Model(strings.TrimPrefix(op, "dist-"), false)
		dna.DistMatrix(mkAlign(big), nil, m, -1, -1, -1, -1, false, 0, 4)
	case op == "phase":
		phaseBodies(1)
	case op == "gamma":
		var wg sync.WaitGroup
		for w := 0; w < 4; w++ {
			wg.Add(1)
			go func(w int) {
				defer wg.Done()
				models.DiscreteGamma(0.5+float64(w), 4)
			}(w)
		}
		wg.Wait()
	case strings.HasPrefix(op, "model-"):
		var wg sync.WaitGroup
		for w := 0; w < 4; w++ {
			wg.Add(1)
			go func(w int) {
				defer wg.Done()
				if op == "model-gtr" {
					m := mdna.NewGTRModel()
					m.InitModel(1, 2, 1.5, 0.5, 3, 1, .1, .2, .3, .4)
					models.NewPij(m, 0.1*float64(w+1))
				} else {
					m, _ := mprot.NewProtModel(mprot.MODEL_LG, false, 0)
					m.InitModel(nil)
					models.NewPij(m, 0.1*float64(w+1))
				}
			}(w)
		}
		wg.Wait()
	}
}

func main() {
	log.SetOutput(io.Discard)
	what := os.Args[1]
	if strings.HasPrefix(what, "first:") {
		runtime.GOMAXPROCS(4)
		firstUse(strings.TrimPrefix(what, "first:"))
		return
	}
	if strings.HasPrefix(what, "first/") {
		for _, op := range firstOps {
			if !strings.HasPrefix(op, strings.TrimPrefix(what, "first/")) {
				continue
			}
			for r := 0; r < 3; r++ {
				cmd := exec.Command(os.Args[0], "first:"+op)
				cmd.Env = os.Environ()
				out, _ := cmd.CombinedOutput()
				os.Stdout.Write(out)
			}
		}
		fmt.Println("RACEPASS-DONE")
		return
	}
	reps := 5
	for _, p := range []int{1, 2, 4, 16} {
		runtime.GOMAXPROCS(p)
		switch what {
		case "dist":
			distBodies(reps)
		case "phase":
			phaseBodies(reps)
		case "phylipstream":
			phylipStreamBodies(reps)
		case "models":
			modelBodies(reps)
			sharedModelBodies(reps)
		case "gamma":
			gammaBodies(reps)
		default:
			if rs := ownRenders(what); len(rs) > 0 {
				ownBodies(reps, rs)
			} else {
				fmt.Println("RACEPASS-UNKNOWN", what)
				return
			}
		}
	}
	fmt.Println("RACEPASS-DONE")
}
