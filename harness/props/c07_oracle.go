package props

import (
	"fmt"
	"math"
)

// ---- C07 oracle: the textbook estimators on the harness's own column classification.
//
// Sources: Jukes & Cantor 1969; Kimura 1980; Felsenstein 1981 (as in Tajima & Nei 1984);
// F84 as in PHYLIP dnadist / FastME (McGuire et al. 1999); Tamura & Nei 1993; gamma variants
// after Yang 2006 (Computational Molecular Evolution, ch. 1): every  -ln(x)  becomes
// alpha*(x^(-1/alpha) - 1).  goalign's documentation (docs/commands/compute.md, `compute distance
// --help`) fixes the conventions: a difference is counted when the two IUPAC codes are incompatible
// (R vs Y: yes, N vs A: no); --rm-gaps ignores positions containing >= 1 gap; --gap-mut 1 counts
// gap-vs-nucleotide as a mutation for internal gaps only, 2 for all gaps; --rm-ambiguous drops
// compatible positions holding an ambiguity code from the length (pdist).

const (
	c07Defined = iota
	c07Boundary
	c07Undefined
	c07Skipped
)

const (
	c07HypStatement             = iota
	c07HypFreqGapCells          // base frequencies divided by the number of cells, gap cells included
	c07HypInternalIgnoresRmGaps // --gap-mut 1 counts on every column although --rm-gaps is set
)

var c07HypName = map[int]string{
	c07HypFreqGapCells:          "as-if-base-frequencies-were-divided-by-all-cells-gaps-included",
	c07HypInternalIgnoresRmGaps: "as-if-rm-gaps-were-off-in-internal-gap-mode",
}

const c07Eps = 1e-5

type c07Want struct {
	class  int
	val    float64
	p      float64 // observed proportion of differing sites among the comparable sites; NaN when there is none
	kind   string  // class undefined: saturated | no-comparable-site
	note   string  // constant part of the explanation
	nodiff bool    // comparable sites exist and no difference is counted: the distance is 0 whatever the model
	// numbers the explanation is built from, on demand
	cnt  [5]float64 // diff,total (raw, pdist, JC, F81) or A<->G, C<->T, transversions, sites
	pi   [4]float64
	args []float64
	fam  int // 0 none, 1 difference counts, 2 transition/transversion counts
	// class boundary: whatever rounding makes of the vanishing argument, an evaluation of the
	// formula is +Inf, NaN or at least this value
	lower float64
}

// why words the oracle's reasoning for a violation message (never evaluated on the hot path).
func (w c07Want) why() string {
	s := w.note
	switch w.fam {
	case 1:
		s += fmt.Sprintf(" p=%v/%v", w.cnt[0], w.cnt[1])
	case 2:
		s += fmt.Sprintf(" A<->G=%v C<->T=%v transversions=%v of %v sites", w.cnt[0], w.cnt[1], w.cnt[2], w.cnt[3])
	}
	if w.pi != [4]float64{} {
		s += fmt.Sprintf(" pi(A,C,G,T)=%v", w.pi)
	}
	if w.args != nil {
		s += fmt.Sprintf(" logarithm arguments %v", w.args)
	}
	return s
}

type c07Expected struct {
	computed [][]bool
	want     [][]c07Want
}

// c07Bits: set of bases an IUPAC letter stands for (A=1 C=2 G=4 T=8); 0 for a gap; -1 otherwise.
func c07Bits(b byte) int {
	if 'a' <= b && b <= 'z' {
		b -= 'a' - 'A' // a residue is the same nucleotide in lower case (soft-masked regions)
	}
	switch b {
	case '-':
		return 0
	case 'A':
		return 1
	case 'C':
		return 2
	case 'G':
		return 4
	case 'T':
		return 8
	case 'R':
		return 1 | 4
	case 'Y':
		return 2 | 8
	case 'S':
		return 4 | 2
	case 'W':
		return 1 | 8
	case 'K':
		return 4 | 8
	case 'M':
		return 1 | 2
	case 'B':
		return 2 | 4 | 8
	case 'D':
		return 1 | 4 | 8
	case 'H':
		return 1 | 2 | 8
	case 'V':
		return 1 | 2 | 4
	case 'N':
		return 15
	}
	return -1
}

func c07Card(set int) int {
	n := 0
	for ; set != 0; set &= set - 1 {
		n++
	}
	return n
}

func c07Amb(set int) bool { return c07Card(set) > 1 }

// c07OutOfScope: inputs for which the statement and the documentation do not determine the answer.
func c07OutOfScope(cs c07Case) string {
	n := len(cs.Seqs)
	if n < 2 {
		return "fewer than 2 rows"
	}
	L := len(cs.Seqs[0])
	for _, s := range cs.Seqs {
		if len(s) != L || L == 0 {
			return "not a rectangular non-empty alignment"
		}
		for i := 0; i < L; i++ {
			if c07Bits(s[i]) < 0 {
				return "a character outside A,C,G,T, IUPAC ambiguity codes and '-'"
			}
		}
	}
	if cs.RmGaps {
		for k := 0; k < L; k++ {
			gap, amb := false, false
			for _, s := range cs.Seqs {
				b := c07Bits(s[k])
				gap = gap || b == 0
				amb = amb || c07Amb(b)
			}
			if amb && !gap {
				return "--rm-gaps with an ambiguity code in a gap-free column: the documentation speaks of gaps only"
			}
		}
	}
	return ""
}

// c07F is -ln(x), or its gamma counterpart.
func c07F(x, alpha float64) float64 {
	if alpha > 0 {
		return alpha * (math.Pow(x, -1/alpha) - 1)
	}
	return -math.Log(x)
}

func c07Expect(cs c07Case, hyp int) c07Expected {
	n, L := len(cs.Seqs), len(cs.Seqs[0])
	w := c07Weights(cs.W, L)
	if w == nil {
		w = c07Weights(1, L)
	}
	// sites kept by --rm-gaps
	sel := make([]bool, L)
	for k := range sel {
		sel[k] = true
		if cs.RmGaps {
			for _, s := range cs.Seqs {
				if s[k] == '-' {
					sel[k] = false
				}
			}
		}
	}
	// the alignment the estimators see: selected columns only
	red := make([][]byte, n)
	var rw []float64
	for k := 0; k < L; k++ {
		keep := sel[k] || (hyp == c07HypInternalIgnoresRmGaps && cs.GapMut == 1)
		if !keep {
			continue
		}
		for i := range red {
			red[i] = append(red[i], cs.Seqs[i][k])
		}
		rw = append(rw, w[k])
	}
	// base frequencies of the alignment: weighted nucleotide counts, an ambiguity code shared
	// equally between the bases it stands for, normalised to sum 1
	var pi [4]float64
	{
		var cnt [4]float64
		nuc, cells := 0.0, 0.0
		for i := range red {
			for k, ch := range red[i] {
				cells += rw[k]
				set := c07Bits(ch)
				if set == 0 {
					continue
				}
				nuc += rw[k]
				share := rw[k] / float64(c07Card(set))
				for x := 0; x < 4; x++ {
					if set&(1<<x) != 0 {
						cnt[x] += share
					}
				}
			}
		}
		den := nuc
		if hyp == c07HypFreqGapCells {
			den = cells
		}
		for x := range pi {
			pi[x] = cnt[x] / den // NaN when the alignment holds no nucleotide: every pair is then without comparable site
		}
	}
	e := c07Expected{computed: make([][]bool, n), want: make([][]c07Want, n)}
	for i := range e.computed {
		e.computed[i] = make([]bool, n)
		e.want[i] = make([]c07Want, n)
	}
	if cs.Ranges == nil {
		for i := 0; i < n; i++ {
			for j := i + 1; j < n; j++ {
				e.computed[i][j] = true
			}
		}
	} else {
		r := cs.Ranges
		for i := r[0]; i <= r[1] && i < n; i++ {
			for j := r[2]; j <= r[3] && j < n; j++ {
				if i != j {
					e.computed[min(i, j)][max(i, j)] = true
				}
			}
		}
	}
	for i := 0; i < n; i++ {
		for j := i + 1; j < n; j++ {
			if e.computed[i][j] {
				e.want[i][j] = c07PairWant(cs, red[i], red[j], rw, pi)
			}
		}
	}
	return e
}

// c07CountDiffs: weighted number of differing and of comparable sites of a pair (raw, pdist, JC, F81).
func c07CountDiffs(a, b []byte, w []float64, gapmut int, rmamb bool) (diff, total float64) {
	first := func(s []byte) int {
		for k := range s {
			if s[k] != '-' {
				return k
			}
		}
		return len(s)
	}
	last := func(s []byte) int {
		for k := len(s) - 1; k >= 0; k-- {
			if s[k] != '-' {
				return k
			}
		}
		return -1
	}
	fa, la, fb, lb := first(a), last(a), first(b), last(b)
	for k := range a {
		sa, sb := c07Bits(a[k]), c07Bits(b[k])
		if sa == 0 && sb == 0 {
			continue
		}
		if sa == 0 || sb == 0 {
			switch gapmut {
			case 0:
				continue
			case 1: // only a gap inside its sequence (a nucleotide before and after it) is a mutation
				if sa == 0 && !(fa < k && k < la) {
					continue
				}
				if sb == 0 && !(fb < k && k < lb) {
					continue
				}
			}
		}
		total += w[k]
		if sa&sb == 0 {
			diff += w[k]
		} else if rmamb && (c07Amb(sa) || c07Amb(sb)) {
			total -= w[k]
		}
	}
	return
}

// c07Estimator: every one of the five corrected distances is  d = sum_k coef_k * F(x_k)  with
// F(x) = -ln(x) (or its gamma counterpart), defined iff every x_k > 0.  sign, when given, holds
// the exactly computed signs of the x_k (JC69, K80: binary-exact numerators); otherwise x_k within
// 1e-5 of 0 counts as "at the singularity".
func c07Estimator(out c07Want, name string, alpha float64, coef, x, sign []float64) c07Want {
	out.args, out.note = x, name
	cl := c07Defined
	lower := math.Inf(1)
	for k := range x {
		var c int
		if sign != nil {
			switch {
			case sign[k] > 0:
				c = c07Defined
			case sign[k] < 0:
				c = c07Undefined
			default:
				c = c07Boundary
			}
		} else {
			c = c07Classify(x[k])
		}
		switch c {
		case c07Skipped:
			out.class, out.note = c07Skipped, name+": argument of a logarithm is not a number"
			return out
		case c07Undefined:
			cl = c07Undefined
		case c07Boundary:
			if cl == c07Defined {
				cl = c07Boundary
			}
			// whatever rounding makes of x_k it stays below 2e-5: this term alone is at least ...
			lower = math.Min(lower, coef[k]*c07F(2*c07Eps, alpha))
		}
	}
	out.class = cl
	switch cl {
	case c07Undefined:
		out.kind = "saturated"
	case c07Boundary:
		out.kind, out.lower = "boundary", lower
	default:
		for k := range x {
			out.val += coef[k] * c07F(x[k], alpha)
		}
	}
	return out
}

func c07PairWant(cs c07Case, a, b []byte, w []float64, pi [4]float64) c07Want {
	nan := math.NaN()
	noSite := c07Want{class: c07Undefined, p: nan, kind: "no-comparable-site", note: "no site where both rows hold a nucleotide"}
	al := cs.Alpha
	switch cs.Model {
	case "rawdist", "pdist", "jc", "f81":
		gm, rmamb := cs.GapMut, cs.RmAmb
		if cs.Model == "jc" || cs.Model == "f81" {
			gm, rmamb = 0, false
		}
		if cs.Model == "rawdist" {
			rmamb = false
		}
		diff, total := c07CountDiffs(a, b, w, gm, rmamb)
		out := c07Want{fam: 1, cnt: [5]float64{diff, total}, p: nan}
		if cs.Model == "rawdist" {
			out.class, out.val, out.note, out.nodiff = c07Defined, diff, "weighted number of differences", total > 0 && diff == 0
			return out
		}
		if total == 0 {
			return noSite
		}
		p := diff / total
		out.p = p
		if diff == 0 {
			out.class, out.nodiff, out.note = c07Defined, true, "no difference"
			return out
		}
		switch cs.Model {
		case "pdist":
			out.class, out.val, out.note = c07Defined, p, "differences / sites"
			return out
		case "jc":
			num := 3*total - 4*diff // sign of 1-4p/3, exact (binary-exact weights)
			return c07Estimator(out, "JC69, 1-4p/3:", al, []float64{0.75}, []float64{num / (3 * total)}, []float64{num})
		}
		// f81
		B := 1 - (pi[0]*pi[0] + pi[1]*pi[1] + pi[2]*pi[2] + pi[3]*pi[3])
		out.pi = pi
		if !(B > c07Eps) {
			out.class, out.note = c07Skipped, "F81 with a single base in the alignment (B=0) and a counted difference"
			return out
		}
		return c07Estimator(out, "F81, 1-p/B with B = 1 - sum pi^2:", al, []float64{B}, []float64{1 - p/B}, nil)
	}
	// ---- K2P family: transitions (A<->G, C<->T) and transversions
	var T, P1, P2, Q float64
	purine := func(s int) bool { return s == 1 || s == 4 }
	for k := range a {
		sa, sb := c07Bits(a[k]), c07Bits(b[k])
		if sa == 0 || sb == 0 {
			continue
		}
		if c07Amb(sa) || c07Amb(sb) {
			// documented: a difference is counted when the two codes are incompatible; compatible codes
			// (R facing A or G, N facing anything) are a comparable site without difference.  An
			// incompatible pair holding an ambiguity code is left open (how it is split between
			// transitions and transversions is not documented).
			if sa&sb != 0 {
				T += w[k]
				continue
			}
			return c07Want{class: c07Skipped, p: nan, note: "K2P/F84/TN93 on a pair with an ambiguity code facing an incompatible code: how it enters the transition/transversion counts is not documented"}
		}
		T += w[k]
		if sa == sb {
			continue
		}
		if purine(sa) == purine(sb) {
			if purine(sa) {
				P1 += w[k]
			} else {
				P2 += w[k]
			}
		} else {
			Q += w[k]
		}
	}
	if T == 0 {
		return noSite
	}
	out := c07Want{fam: 2, cnt: [5]float64{P1, P2, Q, T}}
	if P1+P2+Q == 0 {
		out.class, out.nodiff, out.note = c07Defined, true, "no difference"
		return out
	}
	out.p = (P1 + P2 + Q) / T
	switch cs.Model {
	case "k2p":
		n1, n2 := T-2*(P1+P2)-Q, T-2*Q // exact numerators of 1-2P-Q and 1-2Q
		return c07Estimator(out, "K80, 1-2P-Q and 1-2Q:", al, []float64{0.5, 0.25}, []float64{n1 / T, n2 / T}, []float64{n1, n2})
	case "f84":
		pA, pC, pG, pT := pi[0], pi[1], pi[2], pi[3]
		pR, pY := pA+pG, pC+pT
		out.pi = pi
		if !(pR > c07Eps && pY > c07Eps) {
			out.class, out.note = c07Skipped, "F84 with no purine or no pyrimidine in the alignment: the formula is 0/0"
			return out
		}
		A := pA*pG/pR + pC*pT/pY
		B := pA*pG + pC*pT
		C := pR * pY
		if !(A > c07Eps) {
			out.class, out.note = c07Skipped, "F84 with pi_A*pi_G = pi_C*pi_T = 0: the formula is 0/0"
			return out
		}
		Pt, Qt := (P1+P2)/T, Q/T
		x1 := 1 - Pt/(2*A) - (A-B)*Qt/(2*A*C)
		x2 := 1 - Qt/(2*C)
		// d = -2A ln(x1) + 2(A-B-C) ln(x2)
		return c07Estimator(out, "F84:", al, []float64{2 * A, 2 * (B + C - A)}, []float64{x1, x2}, nil)
	case "tn93":
		pA, pC, pG, pT := pi[0], pi[1], pi[2], pi[3]
		pR, pY := pA+pG, pC+pT
		out.pi = pi
		if !(pA*pG > 1e-9 && pC*pT > 1e-9) {
			out.class, out.note = c07Skipped, "TN93 with a base of frequency 0 in the alignment: the formula is 0/0"
			return out
		}
		p1, p2, q := P1/T, P2/T, Q/T
		e1 := 1 - pR*p1/(2*pA*pG) - q/(2*pR)
		e2 := 1 - pY*p2/(2*pC*pT) - q/(2*pY)
		e3 := 1 - q/(2*pR*pY)
		return c07Estimator(out, "TN93:", al,
			[]float64{2 * pA * pG / pR, 2 * pC * pT / pY, 2 * (pR*pY - pA*pG*pY/pR - pC*pT*pR/pY)}, []float64{e1, e2, e3}, nil)
	}
	return c07Want{class: c07Skipped, p: nan, note: "unknown model"}
}

// c07Classify: all arguments of the logarithms clearly positive -> defined; one clearly negative ->
// undefined (saturated); otherwise at the singularity (within 1e-5: rounding decides).
func c07Classify(args ...float64) int {
	cl := c07Defined
	for _, x := range args {
		switch {
		case math.IsNaN(x):
			return c07Skipped
		case x <= -c07Eps:
			return c07Undefined
		case x < c07Eps:
			cl = c07Boundary
		}
	}
	return cl
}
