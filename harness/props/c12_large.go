package props

import (
	"fmt"
	"runtime"
	"strings"

	"verif/harness/mc"

	"github.com/evolbioinfo/goalign/align"
)

// Long alignments (a site loop cut into chunks for several workers would only
// show there) and rows that share their storage.  Oracle without a hand-written
// expected value: the verdict of every column is the verdict the same call gives
// on that column alone (the one-column calls are decided by the exhaustive
// families); the result must be the selection of the kept columns, the index
// lists and the leading / trailing counts must follow.

type c12LargeCase struct {
	Large  bool   `json:"large"`
	Op     string `json:"op"` // gapsites | charsites | majsites
	L      int    `json:"length"`
	Procs  int    `json:"gomaxprocs"`
	Ends   bool   `json:"ends,omitempty"`
	Shared bool   `json:"shared_rows,omitempty"` // the alignment is appended to itself: rows x and x_0001 share their storage
}

func c12LargeRows(L int) []string {
	rows := make([][]byte, 3)
	for r := range rows {
		rows[r] = make([]byte, L)
		for j := range rows[r] {
			rows[r][j] = "ACGT"[(j+r)%4]
		}
	}
	// gap-rich columns: the first two, every 97th, a run in the middle and the last 1..7 columns
	gap := func(j int, n int) {
		if j < 0 || j >= L {
			return
		}
		for r := 0; r < n; r++ {
			rows[r][j] = '-'
		}
	}
	gap(0, 3)
	gap(1, 2)
	for j := 50; j < L; j += 97 {
		gap(j, 2)
	}
	for j := L / 2; j < L/2+5; j++ {
		gap(j, 3)
	}
	for k := 1; k <= 7; k++ {
		gap(L-k, 2+k%2)
	}
	// columns where one letter dominates (majority cleaning)
	for j := 7; j < L; j += 13 {
		if rows[0][j] != '-' {
			rows[1][j], rows[2][j] = rows[0][j], rows[0][j]
		}
	}
	out := make([]string, 3)
	for r := range rows {
		out[r] = string(rows[r])
	}
	return out
}

func c12LargeCall(al align.Alignment, cs *c12LargeCase) (first, last int, kept, rm []int) {
	switch cs.Op {
	case "gapsites":
		return al.RemoveGapSites(0.5, cs.Ends)
	case "charsites":
		return al.RemoveCharacterSites([]uint8{'-', 'A'}, 0.6, cs.Ends, false, false, false, false)
	default:
		return al.RemoveMajorityCharacterSites(0.9, cs.Ends, false, false)
	}
}

func c12LargeBuild(rows []string, shared bool) (align.Alignment, []string, error) {
	al := align.NewAlign(align.NUCLEOTIDS)
	for i, s := range rows {
		if err := al.AddSequence(rowNames[i], s, ""); err != nil {
			return nil, nil, err
		}
	}
	want := append([]string{}, rows...)
	if shared {
		src := align.NewAlign(align.NUCLEOTIDS)
		for i, s := range rows {
			src.AddSequence(rowNames[i], s, "")
		}
		// Append stores the rows of its argument as they are: appended twice, the second and third copy
		// of a row are one storage
		if err := al.Append(src); err != nil {
			return nil, nil, err
		}
		if err := al.Append(src); err != nil {
			return nil, nil, err
		}
		want = append(want, rows...)
		want = append(want, rows...)
	}
	return al, want, nil
}

func c12LargeCheck(c *mc.Ctx, cs *c12LargeCase) {
	c.Eval()
	viol := func(clause, desc string) {
		c.Violation("C12/long/"+cs.Op+"/"+clause, fmt.Sprintf("%s on 3 rows x %d sites (GOMAXPROCS %d, ends=%v, shared rows=%v): %s", cs.Op, cs.L, cs.Procs, cs.Ends, cs.Shared, desc), cs)
	}
	rows := c12LargeRows(cs.L)
	// verdict of every column alone
	removable := make([]bool, cs.L)
	one := *cs
	one.Ends = false
	for j := 0; j < cs.L; j++ {
		col := []string{rows[0][j : j+1], rows[1][j : j+1], rows[2][j : j+1]}
		a1, _, err := c12LargeBuild(col, cs.Shared)
		if err != nil {
			c.Fatal("cannot build a column: %v", err)
			return
		}
		_, _, k1, _ := c12LargeCall(a1, &one)
		removable[j] = len(k1) == 0
	}
	var wantKept, wantRm []int
	wf, wl := 0, 0
	for wf < cs.L && removable[wf] {
		wf++
	}
	for wl < cs.L-wf && removable[cs.L-1-wl] {
		wl++
	}
	for j := 0; j < cs.L; j++ {
		r := removable[j]
		if cs.Ends {
			r = j < wf || j >= cs.L-wl
		}
		if r {
			wantRm = append(wantRm, j)
		} else {
			wantKept = append(wantKept, j)
		}
	}
	al, full, err := c12LargeBuild(rows, cs.Shared)
	if err != nil {
		c.Fatal("cannot build the input: %v", err)
		return
	}
	if cs.Procs > 0 {
		defer runtime.GOMAXPROCS(runtime.GOMAXPROCS(cs.Procs))
	}
	var first, last int
	var kept, rm []int
	if pn, msg := mc.Guard(func() { first, last, kept, rm = c12LargeCall(al, cs) }); pn {
		viol("panic", msg)
		return
	}
	if fmt.Sprint(kept) != fmt.Sprint(wantKept) || fmt.Sprint(rm) != fmt.Sprint(wantRm) {
		viol("decision", fmt.Sprintf("removed %s, the columns taken one by one give %s", c12Brief(rm), c12Brief(wantRm)))
		return
	}
	if first != wf || last != wl {
		viol("leading-trailing", fmt.Sprintf("first=%d last=%d want %d %d", first, last, wf, wl))
		return
	}
	if al.Length() != len(wantKept) {
		viol("length", fmt.Sprintf("Length()=%d want %d", al.Length(), len(wantKept)))
		return
	}
	got := readRows(al)
	if len(got) != len(full) {
		viol("rows", fmt.Sprintf("%d rows", len(got)))
		return
	}
	for i, g := range got {
		var sb strings.Builder
		for _, j := range wantKept {
			sb.WriteByte(full[i][j])
		}
		if g.Seq != sb.String() {
			viol("result-not-the-kept-columns", fmt.Sprintf("row %d (%s) differs from the selection of the kept columns (first difference at %d)", i, g.Name, c12FirstDiff(g.Seq, sb.String())))
			return
		}
	}
	c.Nontrivial(fmt.Sprintf("long|%s|%d|%v|%v", cs.Op, cs.L, cs.Ends, cs.Shared))
	c.Outcome(fmt.Sprintf("long:%s:ok:removed>0=%v", cs.Op, len(wantRm) > 0))
}

func c12Brief(v []int) string {
	if len(v) <= 12 {
		return fmt.Sprint(v)
	}
	return fmt.Sprintf("%v ... %v (%d)", v[:6], v[len(v)-6:], len(v))
}

func c12FirstDiff(a, b string) int {
	for i := 0; i < len(a) && i < len(b); i++ {
		if a[i] != b[i] {
			return i
		}
	}
	if len(a) < len(b) {
		return len(a)
	}
	return len(b)
}

func c12LargeTasks() []mc.Task {
	var ts []mc.Task
	for _, op := range []string{"gapsites", "charsites", "majsites"} {
		op := op
		ts = append(ts, mc.Task{Name: "long#" + op, Run: func(c *mc.Ctx) {
			for _, L := range []int{40, 257, 1023, 1024, 1027, 2053, 4099} {
				for _, procs := range []int{1, 2, 3, 4, 5, 7, 8, 16} {
					for _, ends := range []bool{false, true} {
						c12LargeCheck(c, &c12LargeCase{Large: true, Op: op, L: L, Procs: procs, Ends: ends})
					}
					if L > 300 && procs != 4 {
						continue
					}
					c12LargeCheck(c, &c12LargeCase{Large: true, Op: op, L: L, Procs: procs, Shared: true})
					c12LargeCheck(c, &c12LargeCase{Large: true, Op: op, L: L, Procs: procs, Shared: true, Ends: true})
				}
				if c.Expired() {
					return
				}
			}
		}})
	}
	return ts
}
