package props

import (
	"fmt"
	"runtime"
	"strings"

	"verif/harness/mc"

	"github.com/evolbioinfo/goalign/align"
)

// Long alignments (a site loop cut into chunks for several workers would only
// show there) and rows that share their storage.  Oracle without a hand-written
// expected value: the verdict of every column is the verdict the same call gives
// on that column alone (the one-column calls are decided by the exhaustive
// families); the result must be the selection of the kept columns, the index
// lists and the leading / trailing counts must follow.

type c12LargeCase struct {
	Large  bool   `json:"large"`
	Op     string `json:"op"` // gapsites | charsites | majsites
	L      int    `json:"length"`
	Procs  int    `json:"gomaxprocs"`
	Ends   bool   `json:"ends,omitempty"`
	Shared bool   `json:"shared_rows,omitempty"` // the alignment is appended to itself: rows x and x_0001 share their storage
}

func c12LargeRows(L int) []string {
	rows := make([][]byte, 3)
	for r := range rows {
		rows[r] = make([]byte, L)
		for j := range rows[r] {
			rows[r][j] = "ACGT"[(j+r)%4]
		}
	}
	// gap-rich columns: the first two, every 97th, a run in the middle and the last 1..7 columns
	gap := func(j int, n int) {
		if j < 0 || j >= L {
			return
		}
		for r := 0; r < n; r++ {
			rows[r][j] = '-'
		}
	}
	gap(0, 3)
	gap(1, 2)
	for j := 50; j < L; j += 97 {
		gap(j, 2)
	}
	for j := L / 2; j < L/2+5; j++ {
		gap(j, 3)
	}
	for k := 1; k <= 7; k++ {
		gap(L-k, 2+k%2)
	}
	// columns where one letter dominates (majority cleaning)
	for j := 7; j < L; j += 13 {
		if rows[0][j] != '-' {
			rows[1][j], rows[2][j] = rows[0][j], rows[0][j]
		}
	}
	out := make([]string, 3)
	for r := range rows {
		out[r] = string(rows[r])
	}
	return out
}

func c12LargeCall(al align.Alignment, cs *c12LargeCase) (first, last int, kept, rm []int) {
	switch cs.Op {
	case "gapsites":
		return al.RemoveGapSites(0.5, cs.Ends)
	case "charsites":
		return al.RemoveCharacterSites([]uint8{'-', 'A'}, 0.6, cs.Ends, false, false, false, false)
	default:
		return al.RemoveMajorityCharacterSites(0.9, cs.Ends, false, false)
	}
}

func c12LargeBuild(rows []string, shared bool) (align.Alignment, []string, error) {
	al := align.NewAlign(align.NUCLEOTIDS)
	for i, s := range rows {
		if err := al.AddSequence(rowNames[i], s, ""); err != nil {
			return nil, nil, err
		}
	}
	want := append([]string{}, rows...)
	if shared {
		src := align.NewAlign(align.NUCLEOTIDS)
		for i, s := range rows {
			src.AddSequence(rowNames[i], s, "")
		}
		// Append stores the rows of its argument as they are: appended twice, the second and third copy
		// of a row are one storage
		if err := al.Append(src); err != nil {
			return nil, nil, err
		}
		if err := al.Append(src); err != nil {
			return nil, nil, err
		}
		want = append(want, rows...)
		want = append(want, rows...)
	}
	return al, want, nil
}

func c12LargeCheck(c *mc.Ctx, cs *c12LargeCase) {
	c.Eval()
	viol := func(clause, desc string) {
		c.Violation("C12/long/"+cs.Op+"/"+clause, fmt.Sprintf("%s on 3 rows x %d sites (GOMAXPROCS %d, ends=%v, shared rows=%v): %s", cs.Op, cs.L, cs.Procs, cs.Ends, cs.Shared, desc), cs)
	}
	rows := c12LargeRows(cs.L)
	// verdict of every column alone
	removable := make([]bool, cs.L)
	one := *cs
	one.Ends = false
	for j := 0; j < cs.L; j++ {
		col := []string{rows[0][j : j+1], rows[1][j : j+1], rows[2][j : j+1]}
		a1, _, err := c12LargeBuild(col, cs.Shared)
		if err != nil {
			c.Fatal("cannot build a column: %v", err)
			return
		}
		_, _, k1, _ := c12LargeCall(a1, &one)
		removable[j] = len(k1) == 0
	}
	var wantKept, wantRm []int
	wf, wl := 0, 0
	for wf < cs.L && removable[wf] {
		wf++
	}
	for wl < cs.L-wf && removable[cs.L-1-wl] {
		wl++
	}
	for j := 0; j < cs.L; j++ {
		r := removable[j]
		if cs.Ends {
			r = j < wf || j >= cs.L-wl
		}
		if r {
			wantRm = append(wantRm, j)
		} else {
			wantKept = append(wantKept, j)
		}
	}
	al, full, err := c12LargeBuild(rows, cs.Shared)
	if err != nil {
		c.Fatal("cannot build the input: %v", err)
		return
	}
	if cs.Procs > 0 {
		defer runtime.GOMAXPROCS(runtime.GOMAXPROCS(cs.Procs))
	}
	var first, last int
	var kept, rm []int
	if pn, msg := mc.Guard(func() { first, last, kept, rm = c12LargeCall(al, cs) }); pn {
		viol("panic", msg)
		return
	}
	if fmt.Sprint(kept) != fmt.Sprint(wantKept) || fmt.Sprint(rm) != fmt.Sprint(wantRm) {
		viol("decision", fmt.Sprintf("removed %s, the columns taken one by one give %s", c12Brief(rm), c12Brief(wantRm)))
		return
	}
	if first != wf || last != wl {
		viol("leading-trailing", fmt.Sprintf("first=%d last=%d want %d %d", first, last, wf, wl))
		return
	}
	if al.Length() != len(wantKept) {
		viol("length", fmt.Sprintf("Length()=%d want %d", al.Length(), len(wantKept)))
		return
	}
	got := readRows(al)
	if len(got) != len(full) {
		viol("rows", fmt.Sprintf("%d rows", len(got)))
		return
	}
	for i, g := range got {
		var sb strings.Builder
		for _, j := range wantKept {
			sb.WriteByte(full[i][j])
		}
		if g.Seq != sb.String() {
			viol("result-not-the-kept-columns", fmt.Sprintf("row %d (%s) differs from the selection of the kept columns (first difference at %d)", i, g.Name, c12FirstDiff(g.Seq, sb.String())))
			return
		}
	}
	c.Nontrivial(fmt.Sprintf("long|%s|%d|%v|%v", cs.Op, cs.L, cs.Ends, cs.Shared))
	c.Outcome(fmt.Sprintf("long:%s:ok:removed>0=%v", cs.Op, len(wantRm) > 0))
}

func c12Brief(v []int) string {
	if len(v) <= 12 {
		return fmt.Sprint(v)
	}
	return fmt.Sprintf("%v ... %v (%d)", v[:6], v[len(v)-6:], len(v))
}

func c12FirstDiff(a, b string) int {
	for i := 0; i < len(a) && i < len(b); i++ {
		if a[i] != b[i] {
			return i
		}
	}
	if len(a) < len(b) {
		return len(a)
	}
	return len(b)
}

func c12LargeTasks() []mc.Task {
	var ts []mc.Task
	for _, op := range []string{"gapsites", "charsites", "majsites"} {
		op := op
		ts = append(ts, mc.Task{Name: "long#" + op, Run: func(c *mc.Ctx) {
			for _, L := range []int{40, 257, 1023, 1024, 1027, 2053, 4099} {
				for _, procs := range []int{1, 2, 3, 4, 5, 7, 8, 16} {
					for _, ends := range []bool{false, true} {
						c12LargeCheck(c, &c12LargeCase{Large: true, Op: op, L: L, Procs: procs, Ends: ends})
					}
					if L > 300 && procs != 4 {
						continue
					}
					c12LargeCheck(c, &c12LargeCase{Large: true, Op: op, L: L, Procs: procs, Shared: true})
					c12LargeCheck(c, &c12LargeCase{Large: true, Op: op, L: L, Procs: procs, Shared: true, Ends: true})
				}
				if c.Expired() {
					return
				}
			}
		}})
	}
	return ts
}

// ---------------------------------------------------------------- tall alignments
//
// Many rows: per-site counters in a narrow integer wrap at 65536 rows; sequence cleaning shared between workers
// above a row count must keep the order of the rows.  Oracle: the harness's own counts (the cutoffs used - 0, 0.5,
// 1 - are exact in binary, so count >= cutoff*total is exact in float64 for these sizes).

type c12TallCase struct {
	Tall  bool   `json:"tall"`
	Op    string `json:"op"` // gapsites0 | gapsites | charsites1 | gapseqs
	N     int    `json:"rows"`
	Procs int    `json:"gomaxprocs,omitempty"`
}

func c12TallRows(n int, seqsMode bool) []string {
	out := make([]string, n)
	for i := range out {
		if seqsMode {
			// 4 sites; every 3rd row is mostly gaps (removed at cutoff 0.5), in a pattern that does not follow block borders
			if i%3 == 1 || i%250 == 7 {
				out[i] = "---" + string("ACGT"[i%4])
			} else {
				out[i] = string([]byte{"ACGT"[i%4], "ACGT"[(i/4)%4], "ACGT"[(i/16)%4], "ACGT"[(i/64)%4]})
			}
			continue
		}
		// 3 sites: site 0 has gaps in its first 10 rows, site 1 is all gaps, site 2 is A but for 10 rows of C
		s := []byte{'C', '-', 'A'}
		if i < 10 {
			s[0] = '-'
		}
		if i >= n-10 {
			s[2] = 'C'
		}
		out[i] = string(s)
	}
	return out
}

func c12TallCheck(c *mc.Ctx, cs c12TallCase) {
	c.Eval()
	viol := func(clause, desc string) {
		c.Violation("C12/tall/"+cs.Op+"/"+clause, fmt.Sprintf("%s on %d rows (GOMAXPROCS %d): %s", cs.Op, cs.N, cs.Procs, desc), cs)
	}
	rowsIn := c12TallRows(cs.N, cs.Op == "gapseqs")
	build := func() (align.Alignment, error) {
		al := align.NewAlign(align.NUCLEOTIDS)
		for i, s := range rowsIn {
			if err := al.AddSequence(fmt.Sprintf("r%06d", i), s, ""); err != nil {
				return nil, err
			}
		}
		return al, nil
	}
	if cs.Op == "gapseqs" {
		var want []string
		for i, s := range rowsIn {
			if strings.Count(s, "-")*2 < len(s) {
				want = append(want, fmt.Sprintf("r%06d=%s", i, s))
			}
		}
		if cs.Procs > 0 {
			defer runtime.GOMAXPROCS(runtime.GOMAXPROCS(cs.Procs))
		}
		mc.SchedProbeJudged(c, "C12/tall/gapseqs", fmt.Sprintf("RemoveGapSeqs(0.5) on %d rows, GOMAXPROCS %d", cs.N, cs.Procs), 1, cs, func() any {
			al, err := build()
			if err != nil {
				return "build: " + err.Error()
			}
			al.RemoveGapSeqs(0.5, false)
			var got []string
			for _, r := range readRows(al) {
				got = append(got, r.Name+"="+r.Seq)
			}
			return strings.Join(got, ";")
		}, func(a, b any) bool { return a == b }, func(first any) string {
			if first != strings.Join(want, ";") {
				g := strings.Split(fmt.Sprint(first), ";")
				for i := range want {
					if i >= len(g) || g[i] != want[i] {
						return fmt.Sprintf("%d rows kept, %d expected; row %d of the result differs from the %d-th row to keep (%s)", len(g), len(want), i, i, want[i])
					}
				}
				return fmt.Sprintf("%d rows kept, %d expected", len(g), len(want))
			}
			return ""
		})
		c.Nontrivial(fmt.Sprintf("tall|%v", cs))
		return
	}
	al, err := build()
	if err != nil {
		c.Fatal("cannot build %d rows: %v", cs.N, err)
		return
	}
	if cs.Procs > 0 {
		defer runtime.GOMAXPROCS(runtime.GOMAXPROCS(cs.Procs))
	}
	var kept, rm []int
	var want []int
	if pn, msg := mc.Guard(func() {
		switch cs.Op {
		case "gapsites0": // cutoff 0: sites with at least one gap
			_, _, kept, rm = al.RemoveGapSites(0, false)
			want = []int{0, 1}
		case "gapsites": // cutoff 0.5: 10 gaps of n is below, n of n above
			_, _, kept, rm = al.RemoveGapSites(0.5, false)
			want = []int{1}
		case "charsites1": // cutoff 1, character A: n-10 of n is below 1
			_, _, kept, rm = al.RemoveCharacterSites([]uint8{'A'}, 1, false, false, false, false, false)
			want = nil
		}
	}); pn {
		viol("panic", msg)
		return
	}
	if fmt.Sprint(rm) != fmt.Sprint(want) && !(len(rm) == 0 && len(want) == 0) {
		viol("decision", fmt.Sprintf("removed sites %v, counting the rows gives %v", rm, want))
		return
	}
	if len(kept)+len(rm) != 3 || al.Length() != len(kept) {
		viol("partition", fmt.Sprintf("kept %v removed %v Length() %d", kept, rm, al.Length()))
		return
	}
	c.Nontrivial(fmt.Sprintf("tall|%v", cs))
	c.Outcome("tall:" + cs.Op + ":ok")
}

func c12TallTasks() []mc.Task {
	var ts []mc.Task
	ts = append(ts, mc.Task{Name: "tall#sites", Run: func(c *mc.Ctx) {
		for _, n := range []int{255, 256, 257, 32767, 32768, 65535, 65536, 65537, 65546, 131082} {
			for _, op := range []string{"gapsites0", "gapsites", "charsites1"} {
				c12TallCheck(c, c12TallCase{Tall: true, Op: op, N: n})
			}
			if c.Expired() {
				return
			}
		}
	}})
	for _, procs := range []int{2, 4} {
		procs := procs
		ts = append(ts, mc.Task{Name: fmt.Sprintf("tall#seqs/procs%d", procs), Run: func(c *mc.Ctx) {
			for _, n := range []int{999, 1000, 1001, 4000} {
				c12TallCheck(c, c12TallCase{Tall: true, Op: "gapseqs", N: n, Procs: procs})
			}
		}})
	}
	return ts
}
