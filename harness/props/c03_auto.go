package props

import (
	"bufio"
	"encoding/json"
	"fmt"
	"io"
	"os"
	"strconv"
	"strings"

	"verif/harness/mc"

	"github.com/evolbioinfo/goalign/align"
	"github.com/evolbioinfo/goalign/io/utils"
	"github.com/evolbioinfo/goalign/verifrt/vrt"
)

// The auto-detecting entry point (utils.ParseMultiAlignmentsAuto, behind --auto-detect): for Phylip the stream
// is parsed by a goroutine after the function has returned, and the function is handed the closer of the file.
// The input here behaves like a file: reads after Close fail.  The call runs under the controlled scheduler
// (producer goroutine / consumer), every schedule within one preemption: the alignments delivered and the
// final error must be those of the stream, whatever the schedule.

type c03AutoCase struct {
	Auto   bool  `json:"auto_stream"`
	Ls     []int `json:"lengths"` // one 2-row alignment per entry, of that many columns
	Strict bool  `json:"strict,omitempty"`
	// Raw: the input is this text as it is (blank inputs, truncated files); whatever is delivered must be an
	// explicit error or well-formed alignments - never a nil or empty alignment presented as parsed
	Raw  bool   `json:"raw,omitempty"`
	Text string `json:"text,omitempty"` // Go-quoted
}

// c03FileLike: a reader that fails once closed, like *os.File.
type c03FileLike struct {
	r      *strings.Reader
	closed bool
}

func (f *c03FileLike) Read(p []byte) (int, error) {
	if f.closed {
		return 0, os.ErrClosed
	}
	return f.r.Read(p)
}

func (f *c03FileLike) Close() error { f.closed = true; return nil }

func c03AutoText(cs c03AutoCase) (string, []string) {
	var sb strings.Builder
	var want []string
	for k, L := range cs.Ls {
		rowsOf := make([]string, 2)
		for i := range rowsOf {
			b := make([]byte, L)
			for j := range b {
				b[j] = "ACGT"[(j*(i+1)+k+j/7)%4]
			}
			rowsOf[i] = string(b)
		}
		fmt.Fprintf(&sb, "   2   %d\n", L)
		for i, r := range rowsOf {
			fmt.Fprintf(&sb, "%-10s%s\n", fmt.Sprintf("s%d_%d", k, i), r)
		}
		want = append(want, fmt.Sprintf("s%d_0=%s;s%d_1=%s", k, rowsOf[0], k, rowsOf[1]))
	}
	return sb.String(), want
}

func c03CheckAuto(c *mc.Ctx, cs c03AutoCase) {
	text, want := c03AutoText(cs)
	wantStr := strings.Join(want, "|") + "|err=<nil>"
	body := func() any {
		f := &c03FileLike{r: strings.NewReader(text)}
		ch, _, err := utils.ParseMultiAlignmentsAuto(f, bufio.NewReader(io.Reader(f)), cs.Strict, align.BOTH)
		if err != nil {
			return "call-error: " + err.Error()
		}
		var got []string
		for vrt.BeforeRecv(ch.Achan) {
			al, ok := <-ch.Achan
			if !ok {
				break
			}
			var rs []string
			for _, r := range readRows(al) {
				rs = append(rs, r.Name+"="+r.Seq)
			}
			got = append(got, strings.Join(rs, ";"))
		}
		return strings.Join(got, "|") + fmt.Sprintf("|err=%v", ch.Err)
	}
	short := func(s string) string {
		if len(s) > 300 {
			return s[:140] + "…" + s[len(s)-140:]
		}
		return s
	}
	mc.SchedProbeJudged(c, "C03/auto-detect-stream", fmt.Sprintf("ParseMultiAlignmentsAuto on a Phylip stream of %d alignments (%d bytes)", len(cs.Ls), len(text)), 1, cs, body,
		func(a, b any) bool { return a == b },
		func(first any) string {
			if first != wantStr {
				return fmt.Sprintf("delivered %s, the stream holds %s", short(fmt.Sprint(first)), short(wantStr))
			}
			return ""
		})
	c.Nontrivial(jsonStr(cs))
	c.Outcome("auto-stream:checked")
}

// c03CheckAutoRaw: the auto-detecting entry on an arbitrary small input.
func c03CheckAutoRaw(c *mc.Ctx, cs c03AutoCase) {
	text, err := strconv.Unquote(cs.Text)
	if err != nil {
		c.Fatal("bad quoted text %s", cs.Text)
		return
	}
	body := func() any {
		f := &c03FileLike{r: strings.NewReader(text)}
		ch, _, err := utils.ParseMultiAlignmentsAuto(f, bufio.NewReader(io.Reader(f)), cs.Strict, align.BOTH)
		if err != nil {
			return "call-error"
		}
		if ch == nil || ch.Achan == nil {
			return "BAD: no error and no channel"
		}
		var got []string
		for vrt.BeforeRecv(ch.Achan) {
			al, ok := <-ch.Achan
			if !ok {
				break
			}
			if al == nil {
				got = append(got, "BAD: nil alignment delivered")
				continue
			}
			rs := readRows(al)
			d := fmt.Sprintf("%d rows", len(rs))
			if len(rs) == 0 || len(rs[0].Seq) == 0 {
				d = "BAD: empty alignment delivered"
			}
			for _, r := range rs {
				if len(r.Seq) != len(rs[0].Seq) || al.Length() != len(r.Seq) {
					d = "BAD: ragged alignment delivered"
				}
			}
			got = append(got, d+":"+fmt.Sprint(rs))
		}
		e := "nil"
		if ch.Err != nil {
			e = "error"
		}
		return strings.Join(got, "|") + "|err=" + e
	}
	mc.SchedProbeExitOK(c, "C03/auto-detect-input", fmt.Sprintf("ParseMultiAlignmentsAuto on %s", cs.Text), 1, cs, body,
		func(a, b any) bool { return a == b },
		func(first any) string {
			if strings.Contains(fmt.Sprint(first), "BAD:") {
				return fmt.Sprint(first)
			}
			return ""
		})
	c.Eval()
	c.Nontrivial(jsonStr(cs))
	c.Outcome("auto-input:checked")
}

func c03AutoTasks() []mc.Task {
	var ts []mc.Task
	// small inputs through the auto-detecting entry: every string of <= 3 bytes over blanks, line ends, a digit, a
	// letter and the first bytes of the other formats; every truncation of one file per format
	ts = append(ts, mc.Task{Name: "autoinput#small", Run: func(c *mc.Ctx) {
		forEachString(" \n\r\t2a>#C", 0, 3, func(b []byte) bool {
			for _, strict := range []bool{false, true} {
				c03CheckAutoRaw(c, c03AutoCase{Auto: true, Raw: true, Strict: strict, Text: strconv.Quote(string(b))})
			}
			return !c.Expired()
		})
		for _, file := range []string{" 2 4\na ACGT\nb AC-T\n 1 2\nc GT\n", "   2   4\na         ACGT\nb         AC-T\n", ">a\nAC\n>b\nGT\n",
			"#NEXUS\nBEGIN DATA;\nDIMENSIONS NTAX=2 NCHAR=2;\nFORMAT DATATYPE=DNA;\nMATRIX\na AC\nb GT\n;\nEND;\n", "CLUSTAL W\n\na AC\nb GT\n  **\n"} {
			for i := 0; i <= len(file); i++ {
				for _, strict := range []bool{false, true} {
					c03CheckAutoRaw(c, c03AutoCase{Auto: true, Raw: true, Strict: strict, Text: strconv.Quote(file[:i])})
				}
			}
			if c.Expired() {
				return
			}
		}
	}})
	// the first alignment grows column by column so that its end (and the header of the second) falls on every
	// offset around the 4096-byte read buffer; then streams of three, and small ones
	for sh := 0; sh < 8; sh++ {
		sh := sh
		ts = append(ts, mc.Task{Name: fmt.Sprintf("autostream#sweep/%d", sh), Run: func(c *mc.Ctx) {
			for L := 1990 + sh; L <= 2060; L += 8 {
				c03CheckAuto(c, c03AutoCase{Auto: true, Ls: []int{L, 7}})
				c03CheckAuto(c, c03AutoCase{Auto: true, Ls: []int{L, 2100, 3}})
			}
			for _, ls := range [][]int{{1}, {1, 1}, {3, 2, 1}, {5000}, {4075, 1}, {4074, 1}, {4076, 1}} {
				if sh == 0 {
					c03CheckAuto(c, c03AutoCase{Auto: true, Ls: ls})
				}
			}
		}})
	}
	return ts
}

func c03AutoReplay(c *mc.Ctx, payload []byte) bool {
	var cs c03AutoCase
	if err := json.Unmarshal(payload, &cs); err != nil || !cs.Auto {
		return false
	}
	if cs.Raw {
		c03CheckAutoRaw(c, cs)
		return true
	}
	c03CheckAuto(c, cs)
	return true
}
