package props

import (
	"encoding/json"
	"fmt"
	"sort"
	"strings"

	"verif/harness/mc"

	"github.com/evolbioinfo/goalign/align"
	"github.com/evolbioinfo/goalign/verifrt/vrt"
)

// C16 — phasing: one correctly framed result per sequence for any thread count and schedule.
//
// Part "orf":   Sequence.LongestORF / SeqBag.LongestORF against a brute-force scan, all short sequences and all short codon-token strings.
// Part "phase": Phase on a structured corpus (ORF embedded with flanks / substitutions / reverse
//               complement, plus a sequence with no similarity), every option combination, per-result oracle.
// Part "sched": every interleaving of producer, workers, closer and consumer inside a preemption
//               bound: result set equal to the sequential one, stream closed, no deadlock, no
//               channel misuse, no data race, inputs unchanged; with and without a failing sequence.

type c16Case struct {
	Kind      string      `json:"kind"` // orf | bagorf | phase | sched
	Seqs      []string    `json:"seqs"`
	Orf       string      `json:"orf,omitempty"`  // "" = none supplied
	Orfs      []string    `json:"orfs,omitempty"` // several reference ORFs, in this order (instead of Orf)
	Translate bool        `json:"translate,omitempty"`
	// NoCutoff: SetLenCutoff(-1), SetMatchCutoff(-1) - no sequence is discarded for a short or poor hit
	NoCutoff bool `json:"no_cutoff,omitempty"`
	Reverse   bool        `json:"reverse,omitempty"`
	CutEnd    bool        `json:"cutend,omitempty"`
	Code      int         `json:"code,omitempty"`
	Cpus      int         `json:"cpus,omitempty"`
	Bound     int         `json:"bound,omitempty"`
	FnPts     bool        `json:"fn_points,omitempty"` // function entries are scheduling points too
	Choices   []vrt.Point `json:"choices,omitempty"`
	// Prior: sequences of an earlier Phase() run on the SAME Phaser (same references), whose stream is
	// consumed and dropped; the run that is judged must be what a fresh Phaser gives
	Prior []string `json:"prior,omitempty"`
	// CodesBefore: the same sequences are first phased, by Phasers of their own, under these genetic codes (what
	// the process did before the run that is judged)
	CodesBefore []int `json:"codes_before,omitempty"`
	// Scores: flat match / mismatch scores given through SetAlignScores (--match / --mismatch)
	Scores []float64 `json:"scores,omitempty"`
}

// ---- brute-force ORF oracle

func c16IsStop(s string, i int) bool {
	c := s[i : i+3]
	return c == "TAA" || c == "TGA" || c == "TAG"
}

// c16Orfs returns every ATG-to-first-in-frame-stop frame [start,end) of s (upper case, U->T).
func c16Orfs(s string) (out [][2]int) {
	s = strings.ReplaceAll(strings.ToUpper(s), "U", "T")
	for i := 0; i+3 <= len(s); i++ {
		if s[i:i+3] != "ATG" {
			continue
		}
		for j := i + 3; j+3 <= len(s); j += 3 {
			if c16IsStop(s, j) {
				out = append(out, [2]int{i, j + 3})
				break
			}
		}
	}
	return
}

func c16LongestLen(s string) int {
	best := 0
	for _, o := range c16Orfs(s) {
		if o[1]-o[0] > best {
			best = o[1] - o[0]
		}
	}
	return best
}

func c16CheckOrf(c *mc.Ctx, cs c16Case) {
	c.Eval()
	s := cs.Seqs[0]
	viol := func(clause, desc string) {
		c.Violation("C16/orf/"+clause, fmt.Sprintf("%s: sequence %q", desc, s), cs)
	}
	var st, en int
	if pn, msg := mc.Guard(func() { st, en = align.NewSequence("s", []uint8(s), "").LongestORF() }); pn {
		viol("panic/"+mc.PanicSite(msg), msg)
		return
	}
	want := c16LongestLen(s)
	if want == 0 {
		if st != -1 || en != -1 {
			viol("found-where-none", fmt.Sprintf("returned [%d,%d) but the sequence has no ATG…stop frame", st, en))
		}
		c.Outcome("orf:none")
		return
	}
	valid := false
	for _, o := range c16Orfs(s) {
		if o[0] == st && o[1] == en {
			valid = true
		}
	}
	if !valid {
		viol("not-an-orf", fmt.Sprintf("returned [%d,%d) is not an ATG-to-first-in-frame-stop frame", st, en))
		return
	}
	if en-st != want {
		viol("not-longest", fmt.Sprintf("returned [%d,%d) of length %d but a frame of length %d exists", st, en, en-st, want))
		return
	}
	c.Nontrivial("orf|" + s)
	c.Outcome(fmt.Sprintf("orf:len%d", want))
	if len(c16Orfs(s)) > 1 {
		c.Sample(map[string]any{"seq": s, "orf": []int{st, en}, "all_frames": c16Orfs(s)})
	}
}

// c16CheckUnmod (kind "unmod"): sequences holding symbols the ORF oracle does not interpret (U, lower case,
// X, N, ?): only the clause "the input sequences are not modified" is judged, for the ORF search on both
// strands and for Phase without a reference.
func c16CheckUnmod(c *mc.Ctx, cs c16Case) {
	c.Eval()
	viol := func(op, desc string) {
		c.Violation("C16/"+op+"/input-modified/unusual-symbols", fmt.Sprintf("%s: case %s", desc, jsonStr(cs)), cs)
	}
	sb, err := mkSeqBag(align.NUCLEOTIDS, namedRows(cs.Seqs...))
	if err != nil {
		c.Fatal("%v", err)
		return
	}
	before := readRows(sb)
	if pn, msg := mc.Guard(func() { sb.LongestORF(cs.Reverse) }); pn {
		c.Violation("C16/bagorf/panic/"+mc.PanicSite(msg), msg+": case "+jsonStr(cs), cs)
		return
	}
	if !sameRows(before, readRows(sb)) {
		viol("bagorf", fmt.Sprintf("sequences after LongestORF(%v): %v", cs.Reverse, readRows(sb)))
		return
	}
	c.Mark(cs)
	if pn, msg := mc.Guard(func() {
		ph := c16Phaser(cs)
		if ch, err := ph.Phase(nil, sb); err == nil {
			for range ch {
			}
		}
	}); pn {
		c.Violation("C16/phase/panic/"+mc.PanicSite(msg), msg+": case "+jsonStr(cs), cs)
		return
	}
	if !sameRows(before, readRows(sb)) {
		viol("phase", fmt.Sprintf("sequences after Phase without reference: %v", readRows(sb)))
		return
	}
	c.Outcome("unmod:ok")
	c.Nontrivial(fmt.Sprintf("unmod|%v|%v", cs.Seqs, cs.Reverse))
}

func c16CheckBagOrf(c *mc.Ctx, cs c16Case) {
	c.Eval()
	viol := func(clause, desc string) {
		c.Violation("C16/bagorf/"+clause, fmt.Sprintf("%s: case %s", desc, jsonStr(cs)), cs)
	}
	sb, err := mkSeqBag(align.NUCLEOTIDS, namedRows(cs.Seqs...))
	if err != nil {
		c.Fatal("%v", err)
		return
	}
	before := readRows(sb)
	var orf align.Sequence
	if pn, msg := mc.Guard(func() { orf, err = sb.LongestORF(cs.Reverse) }); pn {
		viol("panic/"+mc.PanicSite(msg), msg)
		return
	}
	want := 0
	cands := map[string]bool{}
	for _, s := range cs.Seqs {
		strands := []string{s}
		if cs.Reverse {
			strands = append(strands, c08RevComp(s))
		}
		for _, t := range strands {
			for _, o := range c16Orfs(t) {
				cands[t[o[0]:o[1]]] = true
				if o[1]-o[0] > want {
					want = o[1] - o[0]
				}
			}
		}
	}
	if !sameRows(before, readRows(sb)) {
		viol("input-modified", fmt.Sprintf("sequences after the call: %v", readRows(sb)))
		return
	}
	if want == 0 {
		if err == nil {
			viol("found-where-none", fmt.Sprintf("returned %q", orf.Sequence()))
		}
		c.Outcome("bagorf:none")
		return
	}
	if err != nil {
		viol("unexpected-error", err.Error())
		return
	}
	if !cands[orf.Sequence()] {
		viol("not-an-orf", fmt.Sprintf("returned %q is not an ATG…first-stop frame of any input strand", orf.Sequence()))
		return
	}
	if orf.Length() != want {
		viol("not-longest", fmt.Sprintf("returned %q (length %d) but a frame of length %d exists", orf.Sequence(), orf.Length(), want))
		return
	}
	c.Nontrivial(fmt.Sprintf("bagorf|%v|%v", cs.Seqs, cs.Reverse))
	c.Outcome(fmt.Sprintf("bagorf:len%d", want))
}

// ---- Phase

type c16Res struct {
	Name     string
	Err      string
	Removed  bool
	Position int
	Nt       string
	Codon    string
	Aa       string
}

func (r c16Res) key() string {
	return fmt.Sprintf("%s|%s|%v|%d|%s|%s|%s", r.Name, r.Err, r.Removed, r.Position, r.Nt, r.Codon, r.Aa)
}

func c16Snapshot(ph align.PhasedSequence) c16Res {
	r := c16Res{Removed: ph.Removed, Position: ph.Position}
	if ph.Err != nil {
		r.Err = ph.Err.Error()
	}
	if ph.NtSeq != nil {
		r.Name, r.Nt = ph.NtSeq.Name(), ph.NtSeq.Sequence()
	}
	if ph.CodonSeq != nil {
		r.Codon = ph.CodonSeq.Sequence()
	}
	if ph.AaSeq != nil {
		r.Aa = ph.AaSeq.Sequence()
	}
	return r
}

func c16Phaser(cs c16Case) align.Phaser {
	p := align.NewPhaser()
	p.SetCpus(cs.Cpus)
	p.SetTranslate(cs.Translate, cs.Code)
	p.SetReverse(cs.Reverse)
	p.SetCutEnd(cs.CutEnd)
	if cs.NoCutoff {
		p.SetLenCutoff(-1)
		p.SetMatchCutoff(-1)
	}
	if len(cs.Scores) == 2 {
		p.SetAlignScores(cs.Scores[0], cs.Scores[1])
	}
	return p
}

type c16Out struct {
	res    []c16Res
	err    error
	closed bool
	after  rows
}

// c16Run calls the real Phase and consumes its stream.  Under the controlled
// scheduler the consumer announces its receives like instrumented code does.
func c16Run(cs c16Case) c16Out {
	var out c16Out
	for _, code := range cs.CodesBefore {
		before := cs
		before.CodesBefore, before.Code = nil, code
		c16Run(before)
	}
	seqs, err := mkSeqBag(align.NUCLEOTIDS, namedRows(cs.Seqs...))
	if err != nil {
		out.err = err
		return out
	}
	var orfs align.SeqBag
	if cs.Orf != "" {
		o := align.NewSeqBag(align.UNKNOWN)
		o.AddSequence("orf", cs.Orf, "")
		o.AutoAlphabet()
		orfs = o
	} else if len(cs.Orfs) > 0 {
		o := align.NewSeqBag(align.UNKNOWN)
		for k, r := range cs.Orfs {
			o.AddSequence(fmt.Sprintf("orf%d", k), r, "")
		}
		o.AutoAlphabet()
		orfs = o
	}
	phaser := c16Phaser(cs)
	if len(cs.Prior) > 0 {
		if prior, perr := mkSeqBag(align.NUCLEOTIDS, namedRows(cs.Prior...)); perr == nil {
			var porfs align.SeqBag
			if orfs != nil {
				porfs, _ = orfs.CloneSeqBag()
			}
			if pch, e := phaser.Phase(porfs, prior); e == nil {
				for vrt.BeforeRecv(pch) {
					if _, ok := <-pch; !ok {
						break
					}
				}
			}
		}
	}
	ch, err := phaser.Phase(orfs, seqs)
	if err != nil {
		out.err = err
		out.closed = true
		return out
	}
	for vrt.BeforeRecv(ch) {
		ph, ok := <-ch
		if !ok {
			out.closed = true
			break
		}
		out.res = append(out.res, c16Snapshot(ph))
	}
	out.after = readRows(seqs)
	return out
}

func c16CheckPhase(c *mc.Ctx, cs c16Case) {
	c.Eval()
	viol := func(clause, desc string) {
		c.Violation("C16/phase/"+clause, fmt.Sprintf("%s: case %s", desc, jsonStr(cs)), cs)
	}
	// a panic inside a Phase worker goroutine cannot be recovered here: name the case for the master
	c.Mark(cs)
	var out c16Out
	if pn, msg := mc.Guard(func() { out = c16Run(cs) }); pn {
		viol("panic/"+mc.PanicSite(msg), msg)
		return
	}
	c16Oracle(c, cs, out, viol)
}

// c16Oracle checks one complete Phase run against the statement.
func c16Oracle(c *mc.Ctx, cs c16Case, out c16Out, viol func(clause, desc string)) bool {
	if out.err != nil {
		// Phase refused as a whole (e.g. no ORF found anywhere): an explicit error
		if cs.Orf == "" && len(cs.Orfs) == 0 {
			maxlen := 0
			for _, s := range cs.Seqs {
				maxlen = max(maxlen, c16LongestLen(s))
				if cs.Reverse {
					maxlen = max(maxlen, c16LongestLen(c08RevComp(s)))
				}
			}
			if maxlen == 0 {
				c.Outcome("phase:error-no-orf")
				return true
			}
		}
		viol("unexpected-error", out.err.Error())
		return false
	}
	if !out.closed {
		viol("stream-not-closed", "the consumer never saw the end of the result stream")
		return false
	}
	if !sameRows(out.after, namedRows(cs.Seqs...)) {
		viol("input-modified", fmt.Sprintf("input sequences after Phase: %v", out.after))
		return false
	}
	anyErr := false
	for _, r := range out.res {
		if r.Err != "" {
			anyErr = true
		}
	}
	if anyErr {
		// "unless an alignment error is reported": nothing more is promised
		c.Outcome("phase:error-result")
		return true
	}
	if len(out.res) != len(cs.Seqs) {
		viol("result-count", fmt.Sprintf("%d results for %d sequences: %v", len(out.res), len(cs.Seqs), out.res))
		return false
	}
	byName := map[string]c16Res{}
	for _, r := range out.res {
		if _, dup := byName[r.Name]; dup {
			viol("duplicate-result", fmt.Sprintf("two results for %s: %v", r.Name, out.res))
			return false
		}
		byName[r.Name] = r
	}
	for i, in := range cs.Seqs {
		r, ok := byName[namedRows(cs.Seqs...)[i].Name]
		if !ok {
			viol("missing-result", fmt.Sprintf("no result for sequence %d: %v", i, out.res))
			return false
		}
		if r.Removed {
			// a sequence holding the supplied reference verbatim, once, on an allowed strand aligns with it
			// over its whole length without a mismatch: no cut-off on length or match rate can discard it
			if cs.Orf != "" {
				n, nrc := c16CountOverlapping(in, cs.Orf), 0
				if cs.Reverse {
					nrc = c16CountOverlapping(c08RevComp(in), cs.Orf)
				}
				if n+nrc == 1 {
					viol("verbatim-orf-removed", fmt.Sprintf("sequence %d %q embeds the reference ORF verbatim but is flagged Removed (discarded by the cut-offs)", i, in))
					return false
				}
			}
			c.Outcome("phase:removed")
			continue
		}
		strands := []string{in}
		if cs.Reverse {
			strands = append(strands, c08RevComp(in))
		}
		okStrand := ""
		for _, t := range strands {
			if r.Position >= 0 && r.Position <= len(t) {
				tail := t[r.Position:]
				if (!cs.CutEnd && r.Nt == tail) || (cs.CutEnd && strings.HasPrefix(tail, r.Nt)) {
					okStrand = t
				}
			}
		}
		if okStrand == "" {
			viol("nt-not-substring-at-position", fmt.Sprintf("sequence %d %q: NtSeq %q is not the input (or allowed reverse complement) from position %d", i, in, r.Nt, r.Position))
			return false
		}
		// codon sequence in frame with the trimmed nucleotides: a suffix of them at offset 0..2
		off := len(r.Nt) - len(r.Codon)
		if off < 0 || off > 2 || !strings.HasSuffix(r.Nt, r.Codon) {
			viol("codon-not-in-frame", fmt.Sprintf("sequence %d: CodonSeq %q is not NtSeq %q minus 0..2 leading bases", i, r.Codon, r.Nt))
			return false
		}
		if want := refTranslate(r.Codon, 0, cs.Code); want != r.Aa {
			viol("aa-not-translation-of-codons", fmt.Sprintf("sequence %d: CodonSeq %q translates to %q, AaSeq is %q", i, r.Codon, want, r.Aa))
			return false
		}
		// several references: a sequence that contains exactly one of them verbatim, exactly once, and
		// none of the others on any allowed strand, is trimmed at that ORF's start; its codon sequence,
		// being in frame, then begins with that ORF's codons
		if len(cs.Orfs) > 0 {
			hits, hitRef := 0, ""
			for _, ref := range cs.Orfs {
				n := c16CountOverlapping(in, ref)
				if cs.Reverse {
					n += c16CountOverlapping(c08RevComp(in), ref)
				}
				hits += n
				if n > 0 {
					hitRef = ref
				}
			}
			// only claimed when the verbatim reference is strictly the longest one: no alignment with a
			// shorter reference can then out-score the exact copy (every reference scores at most its own
			// self-alignment; checked for the corpus references under both scoring schemes)
			longest := true
			for _, ref := range cs.Orfs {
				if ref != hitRef && len(ref) >= len(hitRef) {
					longest = false
				}
			}
			if hits == 1 && longest && strings.Contains(in, hitRef) {
				want := strings.Index(in, hitRef)
				if r.Position != want || okStrand != in {
					viol("verbatim-orf-not-trimmed-at-start", fmt.Sprintf("sequence %d %q embeds reference %q at %d but Position=%d", i, in, hitRef, want, r.Position))
					return false
				}
				if !strings.HasPrefix(r.Codon, hitRef) {
					viol("verbatim-orf-codons-not-in-frame", fmt.Sprintf("sequence %d %q embeds reference %q verbatim and is trimmed at its start, but CodonSeq is %q (AaSeq %q)", i, in, hitRef, r.Codon, r.Aa))
					return false
				}
				c.Outcome("phase:multiref-verbatim-ok")
			}
		}
		// a sequence containing the supplied reference ORF verbatim exactly once is trimmed at its start
		if cs.Orf != "" {
			n := strings.Count(in, cs.Orf)
			nrc := 0
			if cs.Reverse {
				nrc = strings.Count(c08RevComp(in), cs.Orf)
			}
			if n == 1 && nrc == 0 && c16CountOverlapping(in, cs.Orf) == 1 {
				if want := strings.Index(in, cs.Orf); r.Position != want || okStrand != in {
					viol("verbatim-orf-not-trimmed-at-start", fmt.Sprintf("sequence %d %q embeds the ORF at %d but Position=%d", i, in, want, r.Position))
					return false
				}
				c.Outcome("phase:verbatim-ok")
			}
		}
		c.Outcome("phase:framed-ok")
	}
	c.Nontrivial(fmt.Sprintf("phase|%v|%s|%v|%v|%v|%v|%d", cs.Seqs, cs.Orf, cs.Orfs, cs.Translate, cs.Reverse, cs.CutEnd, cs.Code))
	if len(cs.Seqs) > 1 && cs.Reverse {
		c.Sample(map[string]any{"case": cs, "results": out.res})
	}
	return true
}

func c16CountOverlapping(s, sub string) int {
	n := 0
	for i := 0; i+len(sub) <= len(s); i++ {
		if s[i:i+len(sub)] == sub {
			n++
		}
	}
	return n
}

func c16ResultSet(res []c16Res) string {
	var ks []string
	for _, r := range res {
		if r.Err != "" {
			r.Err = "error" // messages name the reference, which differs between supplied and detected ORFs
		}
		ks = append(ks, r.key())
	}
	sort.Strings(ks)
	return strings.Join(ks, "\n")
}

// c16NoOrfDifferential: Phase without a reference must behave like Phase with the
// (unique) longest ORF of the inputs supplied explicitly.
func c16NoOrfDifferential(c *mc.Ctx, cs c16Case) {
	best, nbest := "", 0
	for _, s := range cs.Seqs {
		strands := []string{s}
		if cs.Reverse {
			strands = append(strands, c08RevComp(s))
		}
		for _, t := range strands {
			for _, o := range c16Orfs(t) {
				f := t[o[0]:o[1]]
				switch {
				case len(f) > len(best):
					best, nbest = f, 1
				case len(f) == len(best) && f != best:
					nbest++
				}
			}
		}
	}
	if best == "" || nbest != 1 {
		c.Skip("phase without reference: no ORF or several distinct longest ORFs (which one is used is not determined)")
		return
	}
	c.Eval()
	c.Mark(cs)
	var a, b c16Out
	cs2 := cs
	cs2.Orf = best
	if pn, msg := mc.Guard(func() { a = c16Run(cs); b = c16Run(cs2) }); pn {
		c.Violation("C16/phase/panic/"+mc.PanicSite(msg), fmt.Sprintf("%s: case %s", msg, jsonStr(cs)), cs)
		return
	}
	if a.err != nil || b.err != nil {
		if (a.err == nil) != (b.err == nil) {
			c.Violation("C16/phase/noref-differs-from-longest-orf", fmt.Sprintf("errors differ: %v vs %v: case %s", a.err, b.err, jsonStr(cs)), cs)
		}
		return
	}
	if c16ResultSet(a.res) != c16ResultSet(b.res) {
		c.Violation("C16/phase/noref-differs-from-longest-orf", fmt.Sprintf("without reference: %v; with the longest ORF %q supplied: %v: case %s", a.res, best, b.res, jsonStr(cs)), cs)
		return
	}
	c.Outcome("phase:noref-equals-longest-orf")
}

// ---- schedule part

func c16Sched(c *mc.Ctx, cs c16Case, single bool) {
	viol := func(x *mc.Execution, clause, desc string) {
		r := cs
		r.Choices = x.Exec.Points
		c.Violation("C16/sched/"+clause, fmt.Sprintf("%s; case %s schedule=[%s]", desc, jsonStr(cs), x.Choices()), r)
	}
	refCase := cs
	refCase.Cpus = 1
	var ref c16Out
	if pn, msg := mc.Guard(func() { ref = c16Run(refCase) }); pn {
		c.Violation("C16/phase/panic/"+mc.PanicSite(msg), fmt.Sprintf("%s: case %s", msg, jsonStr(refCase)), refCase)
		return
	}
	refHasErr := ref.err != nil
	for _, r := range ref.res {
		if r.Err != "" {
			refHasErr = true
		}
	}
	ex := &mc.Explorer{
		Ctx:   c,
		Opts:  vrt.Options{Sched: true, MaxSteps: 500000, FnPoints: cs.FnPts},
		Bound: map[string]int{"sched": cs.Bound},
		Body:  func() any { return c16Run(cs) },
	}
	ex.Check = func(x *mc.Execution) {
		e := x.Exec
		c.Nontrivial(fmt.Sprintf("sched|%v|%s", cs, x.Choices()))
		switch {
		case e.Horizon:
			viol(x, "horizon", "execution did not finish within the step horizon")
			return
		case len(e.Errors) > 0:
			cl := "sync-misuse"
			if strings.Contains(e.Errors[0], "panic in goroutine") {
				cl = "panic-in-worker"
			}
			viol(x, cl, strings.Join(e.Errors, "; "))
			return
		case e.Deadlock:
			viol(x, "deadlock", "blocked for ever: "+strings.Join(e.Blocked, ", "))
			return
		case x.Panic != nil:
			viol(x, "panic", fmt.Sprint(x.Panic))
			return
		}
		if len(e.Races) > 0 {
			viol(x, "data-race/"+raceVar(e.Races[0]), e.Races[0])
			return
		}
		if e.Leak {
			viol(x, "goroutine-left-blocked", "after the stream was consumed a goroutine stayed blocked: "+strings.Join(e.Blocked, ", "))
			return
		}
		out := x.Result.(c16Out)
		ok := c16Oracle(c, cs, out, func(clause, desc string) { viol(x, clause, desc) })
		if !ok {
			return
		}
		hasErr := out.err != nil
		for _, r := range out.res {
			if r.Err != "" {
				hasErr = true
			}
		}
		if !refHasErr {
			if hasErr {
				viol(x, "error-depends-on-schedule", fmt.Sprintf("sequential run has no error, this schedule reports %v", out.res))
				return
			}
			if c16ResultSet(out.res) != c16ResultSet(ref.res) {
				viol(x, "result-set-depends-on-schedule", fmt.Sprintf("got %v want %v", out.res, ref.res))
				return
			}
			c.Outcome(fmt.Sprintf("sched:ok:order=%s", c16Order(out.res)))
		} else {
			if !hasErr {
				viol(x, "error-lost", fmt.Sprintf("sequential run reports an error, this schedule none: %v", out.res))
				return
			}
			c.Outcome("sched:error-reported")
		}
		if ex.Executions%64 == 1 {
			if !ex.Deterministic(x, func(a, b *mc.Execution) bool {
				return c16ResultSet(a.Result.(c16Out).res) == c16ResultSet(b.Result.(c16Out).res)
			}) {
				c.Fatal("replaying schedule [%s] gave a different execution", x.Choices())
				ex.Stop()
			}
		}
		if ex.Executions == 5 {
			c.Sample(map[string]any{"case": cs, "schedule": x.Choices(), "threads": e.Threads, "result_order": c16Order(out.res)})
		}
	}
	if single {
		x := ex.RunOnce(cs.Choices)
		c.Eval()
		ex.Executions = 2
		ex.Check(x)
		return
	}
	if !ex.Explore() {
		c.Note(fmt.Sprintf("schedule tree not completed within the time cap after %d executions: %s", ex.Executions, jsonStr(cs)))
		c.Count("sched_trees_capped", 1)
	} else {
		c.Count("sched_trees_completed", 1)
	}
	c.Count(fmt.Sprintf("executions_sched_cpus%d", cs.Cpus), ex.Executions)
}

func c16Order(res []c16Res) string {
	var b strings.Builder
	for _, r := range res {
		b.WriteString(r.Name)
	}
	return b.String()
}

// ---- corpus

// translations M L W * and M F E I W *: each contains a protein-only letter, otherwise goalign would
// take the translated sequences for nucleotides (letters valid in both alphabets) and refuse '*'
var c16Refs = []string{"ATGCTTTGGTAA", "ATGTTTGAAATTTGGTAG"}

func c16Variants(ref string) []string {
	out := []string{ref, c08RevComp(ref)}
	for _, pos := range []int{3, 4, 5, 6, 7, 8} {
		for _, b := range "ACGT" {
			if byte(b) != ref[pos] {
				out = append(out, ref[:pos]+string(b)+ref[pos+1:])
			}
		}
	}
	return out
}

var c16Flank5 = []string{"", "C", "CC", "CCC", "CATGC"}
var c16Flank3 = []string{"", "G", "GTT"}

const c16NoSim = "CCCCCCCCCCCC"

func c16Tasks(tier string) []mc.Task {
	var ts []mc.Task
	thorough := tier == "thorough"
	// --- schedule part
	sref := c16Refs[0]
	schedInputs := [][]string{
		{"C" + sref + "G", "CC" + sref, sref + "GTT"},
	}
	errInputs := [][]string{
		{"ATGC", "CC" + sref, sref + "GTT"},
		{"C" + sref + "G", "ATGC", sref + "GTT"},
		{"C" + sref + "G", "CC" + sref, "ATGC"},
	}
	// (cpus, preemption bound) pairs; a tree with bound b contains the trees of all smaller bounds
	type cb struct{ cpus, bound int }
	plan := []cb{{1, 2}, {2, 1}, {3, 0}}
	if thorough {
		plan = append(plan, cb{1, 3}, cb{2, 2}, cb{3, 1})
	}
	for _, p := range plan {
		for _, tr := range []bool{true, false} {
			if !tr && !(p.cpus == 2 && (p.bound == 1 || thorough)) {
				continue
			}
			cs := c16Case{Kind: "sched", Seqs: schedInputs[0], Orf: sref, Translate: tr, Cpus: p.cpus, Bound: p.bound}
			ts = append(ts, mc.Task{Name: fmt.Sprintf("sched#ok/cpus%d/bound%d/tr%v", p.cpus, p.bound, tr), Run: func(c *mc.Ctx) { c16Sched(c, cs, false) }})
		}
	}
	for _, cpus := range []int{1, 2, 3} {
		// error path / no reference: bound 1 (cpus 1,2) and 0 (cpus 3: only the free switches at blocking points) in quick
		eb := 1
		if cpus == 3 {
			eb = 0
		}
		if thorough {
			eb++
		}
		for k, in := range errInputs {
			cs := c16Case{Kind: "sched", Seqs: in, Orf: sref, Translate: true, Cpus: cpus, Bound: eb}
			ts = append(ts, mc.Task{Name: fmt.Sprintf("sched#err%d/cpus%d", k, cpus), Run: func(c *mc.Ctx) { c16Sched(c, cs, false) }})
		}
		// no reference supplied, and a sequence without similarity
		cs := c16Case{Kind: "sched", Seqs: []string{"C" + sref + "G", c16NoSim, sref + "GTT"}, Translate: true, Cpus: cpus, Bound: eb}
		ts = append(ts, mc.Task{Name: fmt.Sprintf("sched#noref-nosim/cpus%d", cpus), Run: func(c *mc.Ctx) { c16Sched(c, cs, false) }})
	}
	// more workers than sequences (1 sequence / 2, 3 workers; 2 sequences / 3 workers; no sequence at all is
	// refused before any worker starts): every result arrives and the stream is closed
	for _, in := range [][]string{{"C" + sref + "G"}, {"C" + sref + "G", sref + "GTT"}} {
		for cpus := len(in) + 1; cpus <= 3; cpus++ {
			for _, tr := range []bool{true, false} {
				cs := c16Case{Kind: "sched", Seqs: in, Orf: sref, Translate: tr, Cpus: cpus, Bound: 3 - cpus}
				ts = append(ts, mc.Task{Name: fmt.Sprintf("sched#more-workers-than-sequences/n%d/cpus%d/tr%v", len(in), cpus, tr), Run: func(c *mc.Ctx) { c16Sched(c, cs, false) }})
			}
		}
	}
	// interleavings inside the workers: every function entry (>= 4 statements) of goalign is a scheduling
	// point as well, one preemption, two workers: state shared through the heap (a reference sequence
	// edited in place by the aligner, a buffer kept in the phaser) shows by its effect on the results
	for _, tr := range []bool{true, false} {
		for _, rev := range []bool{false, true} {
			if rev && !thorough {
				continue
			}
			cs := c16Case{Kind: "sched", Seqs: []string{"C" + sref + "G", sref + "GT"}, Orf: sref, Translate: tr, Reverse: rev, Cpus: 2, Bound: 1, FnPts: true}
			ts = append(ts, mc.Task{Name: fmt.Sprintf("sched#fnpoints/tr%v/rev%v", tr, rev), Run: func(c *mc.Ctx) { c16Sched(c, cs, false) }})
		}
	}
	// --- LongestORF: all sequences over ATGC
	maxL := 9
	if thorough {
		maxL = 11
	}
	for l := 0; l <= maxL; l++ {
		l := l
		prefixes := []string{""}
		if l >= 8 {
			prefixes = nil
			for i := 0; i < 4; i++ {
				for j := 0; j < 4; j++ {
					prefixes = append(prefixes, string([]byte{"ATGC"[i], "ATGC"[j]}))
				}
			}
		}
		for _, pf := range prefixes {
			pf := pf
			ts = append(ts, mc.Task{Name: fmt.Sprintf("orf#L%d/%s", l, pf), Run: func(c *mc.Ctx) {
				forEachStringLen("ATGC", l, []byte(pf), func(s []byte) bool {
					c16CheckOrf(c, c16Case{Kind: "orf", Seqs: []string{string(s)}})
					return !c.Expired()
				})
			}})
		}
	}
	// longer sequences built from overlapping frames: ATG…(ATG shifted)…stop…stop
	ts = append(ts, mc.Task{Name: "orf#overlapping", Run: func(c *mc.Ctx) {
		for _, a := range []string{"ATG", "ATGC", "ATGCC"} {
			for _, mid := range []string{"", "C", "CC", "CCC"} {
				for _, st1 := range []string{"TAA", "TGA", "TAG"} {
					for _, tailN := range []int{0, 1, 2, 3, 4, 5, 6, 7, 8, 9} {
						for _, st2 := range []string{"TGA", "TAA"} {
							s := a + "ATG" + mid + st1 + strings.Repeat("C", tailN) + st2
							c16CheckOrf(c, c16Case{Kind: "orf", Seqs: []string{s}})
							c16CheckOrf(c, c16Case{Kind: "orf", Seqs: []string{strings.ToLower(s)}})
							c16CheckOrf(c, c16Case{Kind: "orf", Seqs: []string{strings.ReplaceAll(s, "T", "U")}})
						}
					}
				}
			}
		}
	}})
	// codon-token strings: every concatenation of up to 7 (thorough 8) tokens from {ATG, TAA, TGA, AAA, C}
	// (start, two stops, a sense codon, a one-base frame shift): adjacent, nested and
	// back-to-back frames (a start codon right after the stop of an earlier frame) far beyond
	// the length reachable by enumerating single bases
	tokens := []string{"ATG", "TAA", "TGA", "AAA", "C"}
	maxTok := 7
	if thorough {
		maxTok = 8
	}
	for _, t0 := range tokens {
		for _, t1 := range tokens {
			t0, t1 := t0, t1
			ts = append(ts, mc.Task{Name: fmt.Sprintf("orf#tokens/%s%s", t0, t1), Run: func(c *mc.Ctx) {
				c16CheckOrf(c, c16Case{Kind: "orf", Seqs: []string{t0}})
				c16CheckOrf(c, c16Case{Kind: "orf", Seqs: []string{t0 + t1}})
				var rec func(prefix string, n int)
				rec = func(prefix string, n int) {
					if c.Expired() {
						return
					}
					for _, t := range tokens {
						s := prefix + t
						c16CheckOrf(c, c16Case{Kind: "orf", Seqs: []string{s}})
						if n+1 < maxTok {
							rec(s, n+1)
						}
					}
				}
				rec(t0+t1, 2)
			}})
		}
	}
	// SeqBag.LongestORF on all pairs of sequences of length 6/7
	bagL := 6
	if thorough {
		bagL = 7
	}
	for i := 0; i < 4; i++ {
		for j := 0; j < 4; j++ {
			pf := []byte{"ATGC"[i], "ATGC"[j]}
			ts = append(ts, mc.Task{Name: fmt.Sprintf("bagorf#L%d/%s", bagL, pf), Run: func(c *mc.Ctx) {
				// first sequence: every sequence of length bagL starting with pf that contains ATG; second: a fixed family
				seconds := []string{"ATGTAA", "ATGCCCTGA", "TTACAT", "CCCCCC", "TCAGGGCAT"}
				forEachStringLen("ATGC", bagL, pf, func(s []byte) bool {
					if !strings.Contains(string(s), "ATG") && !strings.Contains(string(s), "CAT") {
						return true
					}
					for _, t := range seconds {
						for _, rev := range []bool{false, true} {
							c16CheckBagOrf(c, c16Case{Kind: "bagorf", Seqs: []string{string(s), t}, Reverse: rev})
							c16CheckBagOrf(c, c16Case{Kind: "bagorf", Seqs: []string{t, string(s)}, Reverse: rev})
						}
					}
					return !c.Expired()
				})
			}})
		}
	}
	// SeqBag.LongestORF where ORF lengths, ORF end coordinates and sequence lengths are in every order: a
	// short ORF behind a 5' flank of 0..12 bases (so that it ENDS far into its sequence) next to a longer or
	// shorter ORF in a sequence with small flanks, on either strand, in both orders and with a third sequence
	ts = append(ts, mc.Task{Name: "bagorf#offsets", Run: func(c *mc.Ctx) {
		for f := 0; f <= 12; f++ {
			for k := 0; k <= 2; k++ {
				first := strings.Repeat("C", f) + "ATG" + strings.Repeat("CCC", k) + "TAA"
				for m := 0; m <= 5; m++ {
					for g := 0; g <= 3; g++ {
						for tl := 0; tl <= 2; tl++ {
							second := strings.Repeat("G", g) + "ATG" + strings.Repeat("GCC", m) + "TGA" + strings.Repeat("C", tl)
							for _, sec := range []string{second, c08RevComp(second)} {
								for _, rev := range []bool{false, true} {
									c16CheckBagOrf(c, c16Case{Kind: "bagorf", Seqs: []string{first, sec}, Reverse: rev})
									c16CheckBagOrf(c, c16Case{Kind: "bagorf", Seqs: []string{sec, first}, Reverse: rev})
									c16CheckBagOrf(c, c16Case{Kind: "bagorf", Seqs: []string{"CCCCCCCCCCCCCCCC", first, sec}, Reverse: rev})
								}
							}
						}
					}
				}
			}
			if c.Expired() {
				return
			}
		}
	}})
	// unusual symbols: inputs are left as they were.  Every sequence ATG+x+TAA / its reverse complement with x
	// over {A,U,c,X,N,?}^(0..3), alone and next to an ordinary ORF, both strand settings
	ts = append(ts, mc.Task{Name: "unmod#symbols", Run: func(c *mc.Ctx) {
		forEachString("AUcXN?", 0, 3, func(x []byte) bool {
			for _, core := range []string{"ATG" + string(x) + "TAA", "UUA" + string(x) + "CAU", "aug" + string(x) + "uaa"} {
				for _, set := range [][]string{{core}, {"CC" + core + "G", "ATGCCCTGA"}} {
					for _, rev := range []bool{false, true} {
						c16CheckUnmod(c, c16Case{Kind: "unmod", Seqs: set, Reverse: rev, Translate: true, Code: align.GENETIC_CODE_STANDARD, Cpus: 1})
					}
				}
			}
			return !c.Expired()
		})
	}})
	// translate off / on under the three genetic codes: a reference whose codons read differently
	// (ATA, AGA, TGA): the reported amino acids are the translation of the reported codons under that code
	ts = append(ts, mc.Task{Name: "phase#codes", Run: func(c *mc.Ctx) {
		// the second reference holds ambiguous codons whose (unique) amino acid differs between the codes (AGR,
		// ATR, TGR); the three codes follow each other in one process, in both directions
		for _, ref := range []string{"ATGATAAGATGGTGACCCTAA", "ATGAGRATRTGRCCCGGGTAA"} {
			for _, f5 := range []string{"", "C", "CC"} {
				for k, code := range geneticCodes {
					// every case carries its own history: the two other codes, in both orders, then the judged one
					o1, o2 := geneticCodes[(k+1)%3], geneticCodes[(k+2)%3]
					for _, before := range [][]int{{o1, o2}, {o2, o1}} {
						for _, tr := range []bool{false, true} {
							for _, ce := range []bool{false, true} {
								c16CheckPhase(c, c16Case{Kind: "phase", Seqs: []string{f5 + ref + "G"}, Orf: ref, Translate: tr, CutEnd: ce, Code: code, Cpus: 1, CodesBefore: before})
							}
						}
					}
				}
			}
		}
	}})
	// a sequence whose best hit leaves less than one codon (the reference's first two bases at its very end, a
	// read of two bases, a read that stops inside the start codon) beside ordinary ones: an error for it, or a
	// result that satisfies every clause - never a malformed result without an error; translation on and off
	ts = append(ts, mc.Task{Name: "phase#less-than-a-codon", Run: func(c *mc.Ctx) {
		ref := c16Refs[0]
		for _, odd := range []string{strings.Repeat("C", 16) + ref[:2], ref[:2], ref[:1], "C" + ref[:2], strings.Repeat("C", 9) + ref[:4], ref[len(ref)-4:], ref[len(ref)-2:]} {
			for _, tr := range []bool{false, true} {
				for _, ce := range []bool{false, true} {
					for _, code := range []int{align.GENETIC_CODE_STANDARD, align.GENETIC_CODE_VETEBRATE_MITO} {
						for _, cpus := range []int{1, 3} {
							set := []string{"CCGT" + ref + "GGT", odd, "C" + ref + "CG"}
							for _, nc := range []bool{true, false} {
								c16CheckPhase(c, c16Case{Kind: "phase", Seqs: set, Orf: ref, Translate: tr, CutEnd: ce, Code: code, Cpus: cpus, NoCutoff: nc})
								c16CheckPhase(c, c16Case{Kind: "phase", Seqs: set, Translate: tr, CutEnd: ce, Code: code, Cpus: cpus, NoCutoff: nc})
								c16CheckPhase(c, c16Case{Kind: "phase", Seqs: []string{odd}, Orf: ref, Translate: tr, CutEnd: ce, Code: code, Cpus: cpus, NoCutoff: nc})
							}
						}
					}
				}
			}
		}
	}})
	// many sequences: 49..52, 101 and 257 sequences (the channel that feeds the workers holds 50), 1 and 3 workers:
	// exactly one result per sequence, each trimmed at its ORF
	ts = append(ts, mc.Task{Name: "phase#many-sequences", Run: func(c *mc.Ctx) {
		ref := c16Refs[0]
		for _, n := range []int{49, 50, 51, 52, 101, 257} {
			set := make([]string, n)
			for i := range set {
				set[i] = strings.Repeat("C", i%7) + ref + strings.Repeat("G", (i/7)%3)
			}
			for _, cpus := range []int{1, 3} {
				for _, tr := range []bool{true, false} {
					c16CheckPhase(c, c16Case{Kind: "phase", Seqs: set, Orf: ref, Translate: tr, Cpus: cpus})
				}
			}
			c16CheckPhase(c, c16Case{Kind: "phase", Seqs: set, Translate: true, Cpus: 2})
			if c.Expired() {
				return
			}
		}
	}})
	// one Phaser, two runs: an earlier run that fails (a sequence too short to translate / to align), succeeds,
	// or finds nothing, then the run that is judged
	ts = append(ts, mc.Task{Name: "phase#reused-phaser", Run: func(c *mc.Ctx) {
		ref := c16Refs[0]
		for _, prior := range [][]string{{"ATGC"}, {"AT"}, {"CC" + ref, "ATGC", ref}, {c16NoSim}, {"C" + ref + "G"}} {
			for _, tr := range []bool{true, false} {
				for _, cpus := range []int{1, 2} {
					for _, set := range [][]string{{"C" + ref + "G"}, {"CC" + ref, ref + "GTT", "C" + ref + "G"}} {
						c16CheckPhase(c, c16Case{Kind: "phase", Seqs: set, Orf: ref, Translate: tr, Cpus: cpus, Prior: prior})
						c16CheckPhase(c, c16Case{Kind: "phase", Seqs: set, Translate: tr, Cpus: cpus, Prior: prior})
					}
				}
			}
		}
	}})
	// flat match / mismatch scores (--match / --mismatch): the clauses do not depend on the scoring scheme
	ts = append(ts, mc.Task{Name: "phase#flat-scores", Run: func(c *mc.Ctx) {
		for _, ref := range c16Refs {
			for _, sc := range [][]float64{{1, -1}, {2, -3}, {5, -4}} {
				for _, f5 := range []string{"", "C", "CC", "CCTTAGG"} {
					for _, tr := range []bool{true, false} {
						for _, rev := range []bool{false, true} {
							seq := f5 + ref + "GCC"
							if rev {
								seq = c08RevComp(seq)
							}
							c16CheckPhase(c, c16Case{Kind: "phase", Seqs: []string{seq}, Orf: ref, Translate: tr, Reverse: rev, Cpus: 1, Scores: sc})
							c16CheckPhase(c, c16Case{Kind: "phase", Seqs: []string{seq, "CC" + ref}, Orf: ref, Translate: tr, Reverse: rev, CutEnd: true, Cpus: 1, Scores: sc})
						}
					}
				}
			}
		}
	}})
	// --- Phase input part
	for ri, ref := range c16Refs {
		ref := ref
		for _, f5 := range c16Flank5 {
			f5 := f5
			ts = append(ts, mc.Task{Name: fmt.Sprintf("phase#ref%d/f5=%s", ri, f5), Run: func(c *mc.Ctx) {
				for _, v := range c16Variants(ref) {
					for _, f3 := range c16Flank3 {
						seq := f5 + v + f3
						for _, set := range [][]string{{seq}, {seq, c16NoSim}, {c16NoSim, seq, "CC" + ref}} {
							for _, tr := range []bool{true, false} {
								for _, rev := range []bool{false, true} {
									for _, ce := range []bool{false, true} {
										codes := []int{align.GENETIC_CODE_STANDARD}
										if tr && len(set) == 1 {
											codes = geneticCodes
										}
										for _, code := range codes {
											cs := c16Case{Kind: "phase", Seqs: set, Orf: ref, Translate: tr, Reverse: rev, CutEnd: ce, Code: code, Cpus: 1}
											c16CheckPhase(c, cs)
											if len(set) <= 2 && code == align.GENETIC_CODE_STANDARD {
												cs.Orf = ""
												c16CheckPhase(c, cs)
												c16NoOrfDifferential(c, cs)
											}
										}
									}
								}
							}
						}
						if c.Expired() {
							return
						}
					}
				}
			}})
		}
	}
	// several references: the sequence opens with a 5'-truncated piece of one reference (a weaker hit that
	// aligns with leading gaps) and contains another reference verbatim further on (the better hit); and,
	// with the reverse strand allowed, a truncated piece forward and the whole ORF on the reverse strand
	refA, refB := c16Refs[0], c16Refs[1]
	ts = append(ts, mc.Task{Name: "phase#multiref", Run: func(c *mc.Ctx) {
		// (short pair of the corpus, and a longer pair whose truncated pieces score well on their own)
		const refA2, refB2 = "ATGGCTCGTAACGACTGCCAGGAAGGTCACTAA", "ATGATTCTGAAAATGTTCCCGTCTACCTGGTACGTTGACTAG"
		for _, pair := range [][2]string{{refA, refB}, {refA2, refB2}} { // the verbatim reference is the longer one
			weak, strong := pair[0], pair[1]
			for cut := 1; cut <= 4; cut++ {
				for _, spacer := range []string{"", "C", "CC", "CCCCC"} {
					for _, tail := range c16Flank3 {
						seq := weak[cut:len(weak)-3] + spacer + strong + tail
						for _, order := range [][]string{{weak, strong}, {strong, weak}} {
							for _, tr := range []bool{false, true} {
								for _, rev := range []bool{false, true} {
									for _, ce := range []bool{false, true} {
										c16CheckPhase(c, c16Case{Kind: "phase", Seqs: []string{seq}, Orfs: order, Translate: tr, Reverse: rev, CutEnd: ce, Code: align.GENETIC_CODE_STANDARD, Cpus: 1})
										c16CheckPhase(c, c16Case{Kind: "phase", Seqs: []string{seq, c16NoSim, "CC" + weak}, Orfs: order, Translate: tr, Reverse: rev, CutEnd: ce, Code: align.GENETIC_CODE_STANDARD, Cpus: 1})
									}
								}
							}
						}
						// truncated piece forward, whole ORF on the reverse strand
						seq2 := c08RevComp(tail + c08RevComp(strong[cut:len(strong)-3]+spacer) + strong)
						for _, tr := range []bool{false, true} {
							for _, ce := range []bool{false, true} {
								c16CheckPhase(c, c16Case{Kind: "phase", Seqs: []string{seq2}, Orfs: []string{strong}, Translate: tr, Reverse: true, CutEnd: ce, Code: align.GENETIC_CODE_STANDARD, Cpus: 1})
							}
						}
					}
				}
			}
		}
	}})
	return ts
}

func init() {
	mc.Register(&mc.Prop{
		ID:    "C16",
		Level: "model_checking",
		Rule: "Command line: goalign phase and phasent (one thread) on 4 sequence sets x reference given / detected x --reverse x --cut-end x genetic code x 7 sets of given flags among --len-cutoff, --match-cutoff, --match, --mismatch, --gap-open, --gap-extend, and goalign orf (--reverse) on 7 sets: the files written must be those of the library configured the same way (documented defaults for flags not given). " + "schedule part: stateless DFS over all interleavings of the real Phase goroutines (sequence producer, cpus workers, closer, consuming harness thread) with iterative preemption bounds 0..2 (quick) / 0..3 (thorough), 3 sequences x cpus 1..3 x {translate, nt}; error path with an untranslatable sequence in each position; no reference + a sequence without similarity. " +
			"function-entry part: 2 sequences, 2 workers, translate on/off, every function entry of goalign (functions of >= 4 statements) an additional scheduling point, preemption bound 1. " +
			"(49..52, 101 and 257 sequences through Phase with 1..3 workers: one result per sequence;) input part: LongestORF on all sequences of length <=9 (quick) / <=11 (thorough) over {A,T,G,C} plus a family of overlapping-frame sequences (upper/lower case, U) and every concatenation of up to 7 (thorough 8) codon tokens from {ATG,TAA,TGA,AAA,C} against a brute-force scan; SeqBag.LongestORF on pairs, and on sets where a short ORF behind a 5' flank of 0..12 bases stands before/after a sequence holding an ORF of 0..5 inner codons with flanks of 0..3 / 0..2 bases on either strand (ORF lengths, ORF end coordinates and sequence lengths in every order); inputs unmodified by the ORF search (both strands) and by Phase without reference on sequences holding U, lower case, X, N, ? ; two references with codons that read differently under the three codes (plain: ATA, AGA, TGA; ambiguous: AGR, ATR, TGR) x translate on/off, each code after the others have been used in the same process; Phase on ORF copies with 5 five-prime flanks x (exact | 18 single substitutions | reverse complement) x 3 three-prime flanks, alone / with a no-similarity sequence / in a set of 3, x translate x reverse x cut-end x genetic codes x reference supplied or not; two references in both orders against sequences that open with a 5'-truncated piece of one and contain the other verbatim (and truncated piece forward + whole ORF on the reverse strand). " +
			"distinct_nontrivial counts distinct (case, schedule) executions plus input cases whose result was fully compared.",
		Assumptions: []string{
			"results flagged Removed (discarded by the cut-offs) are only counted, their framing is not compared",
			"Phase without a reference is compared with Phase given the longest ORF only when that ORF is unique",
			"sequential consistency below the race check; scheduling points at synchronisation operations only",
		},
		Tasks: func(tier string) []mc.Task { return append(c16Tasks(tier), c16CLITasks()...) },
		Replay: func(c *mc.Ctx, payload json.RawMessage) {
			if c16CLIReplay(c, payload) {
				return
			}
			var cs c16Case
			if err := json.Unmarshal(payload, &cs); err != nil {
				c.Fatal("bad payload: %v", err)
				return
			}
			switch cs.Kind {
			case "orf":
				c16CheckOrf(c, cs)
			case "unmod":
				c16CheckUnmod(c, cs)
			case "bagorf":
				c16CheckBagOrf(c, cs)
			case "phase":
				c16CheckPhase(c, cs)
				if cs.Orf == "" {
					c16NoOrfDifferential(c, cs)
				}
			case "sched":
				c16Sched(c, cs, true)
			}
		},
		Post: func(m *mc.Master) { m.RacePass("phase"); m.RacePass("first/phase") },
		Vacuity: func(tier string, t *mc.Totals) error {
			if t.Extra["executions_sched_cpus3"] < 50 {
				return fmt.Errorf("too few schedules explored: %v", t.Extra)
			}
			return nil
		},
	})
}
