package props

// C19 — the operations of step 1: everything goalign documents as a query or
// as producing a new object.

import (
	"bufio"
	"bytes"
	"fmt"
	"strings"
	"unsafe"

	"github.com/evolbioinfo/goalign/align"
	"github.com/evolbioinfo/goalign/distance/dna"
	"github.com/evolbioinfo/goalign/distance/protein"
	"github.com/evolbioinfo/goalign/draw"
	"github.com/evolbioinfo/goalign/io/clustal"
	"github.com/evolbioinfo/goalign/io/fasta"
	"github.com/evolbioinfo/goalign/io/nexus"
	"github.com/evolbioinfo/goalign/io/paml"
	"github.com/evolbioinfo/goalign/io/phylip"
	"github.com/evolbioinfo/goalign/io/stockholm"
)

type c19Op struct {
	Name      string
	Aln       bool // needs an alignment (else any sequence set)
	Own       bool // the ownership clause of the statement names this operation
	Rand      bool // draws random numbers: executed under every answer sequence
	Heavy     bool // expensive: only on the special instances in quick
	Kill      bool // runs goroutines (a panic inside one kills the process): every case is marked
	Applies   func(in *c19Inst) bool
	Args      func(in *c19Inst, lvl c19Level) []string
	Class     func(arg string) string // argument class that goes into the violation signature
	FloatReps func(cs *c19Case) []float64
	Run       func(e *c19Env, arg string)
}

var c19OpList = c19Ops()

var c19OpByName = func() map[string]*c19Op {
	m := map[string]*c19Op{}
	for _, o := range c19OpList {
		if m[o.Name] != nil {
			panic("c19: duplicate operation " + o.Name)
		}
		m[o.Name] = o
	}
	return m
}()

func c19Range(n int) []string {
	var out []string
	for i := 0; i < n; i++ {
		out = append(out, c19Join(i))
	}
	return out
}

func c19Cross(a []string, b ...[]string) []string {
	out := a
	for _, l := range b {
		var nx []string
		for _, x := range out {
			for _, y := range l {
				switch {
				case x == "":
					nx = append(nx, y)
				case y == "":
					nx = append(nx, x)
				default:
					nx = append(nx, x+","+y)
				}
			}
		}
		out = nx
	}
	return out
}

func c19IsNt(in *c19Inst) bool    { return in.Alpha == align.NUCLEOTIDS }
func c19IsAA(in *c19Inst) bool    { return in.Alpha == align.AMINOACIDS }
func c19HasCell(in *c19Inst) bool { return in.n() >= 1 && in.L() >= 1 }
func c19HasRow(in *c19Inst) bool  { return in.n() >= 1 }

var c19DnaModels = []string{"jc", "k2p", "pdist", "rawdist", "f81", "tn93", "f84"}

// codons used to build a nucleotide set that a protein alignment can be codon-aligned with
var c19Codon = map[byte]string{'M': "ATG", 'K': "AAA", 'L': "CTG", 'Q': "CAG", 'A': "GCT", 'C': "TGT", 'N': "AAT", 'F': "TTT", 'E': "GAA", 'I': "ATT", 'P': "CCT", 'X': "NNN"}

func c19RarefyCounts(in *c19Inst) (map[string]int, []int) {
	base := []int{2, 1, 3, 1}
	m := map[string]int{}
	var l []int
	for i, r := range in.Rows {
		m[r.Name] = base[i%len(base)]
		l = append(l, base[i%len(base)])
	}
	return m, l
}

func c19RarefyArgs(in *c19Inst, _ c19Level) []string {
	_, l := c19RarefyCounts(in)
	tot := 0
	for _, x := range l {
		tot += x
	}
	var out []string
	for nb := 1; nb < tot && nb <= 2; nb++ {
		out = append(out, c19Join(nb))
	}
	return out
}

func c19RarefyReps(cs *c19Case) []float64 {
	_, l := c19RarefyCounts(&cs.Inst)
	return c10FloatReps(c10Case{Op: "rarefy", Counts: l})
}

func c19Ops() []*c19Op {
	var ops []*c19Op
	add := func(o *c19Op) { ops = append(ops, o) }
	q := func(name string, aln bool, applies func(in *c19Inst) bool, args func(in *c19Inst, lvl c19Level) []string, run func(e *c19Env, arg string)) *c19Op {
		o := &c19Op{Name: name, Aln: aln, Applies: applies, Args: args, Run: run}
		add(o)
		return o
	}
	sites := func(in *c19Inst, _ c19Level) []string { return c19Range(max(in.L(), 0)) }
	rowIdx := func(in *c19Inst, _ c19Level) []string { return c19Range(in.n()) }

	// ------------------------------------------------------------ writers
	q("write/fasta", false, nil, nil, func(e *c19Env, _ string) { _ = fasta.WriteAlignment(e.in) })
	q("write/fasta-sequences", false, nil, nil, func(e *c19Env, _ string) { _ = fasta.WriteSequences(e.in) })
	q("write/phylip", true, nil, func(*c19Inst, c19Level) []string { return c19BoolArgs(3) }, func(e *c19Env, arg string) {
		a := c19Ints(arg)
		_ = phylip.WriteAlignment(e.al, c19B(a[0]), c19B(a[1]), c19B(a[2]))
	})
	q("write/nexus", true, nil, nil, func(e *c19Env, _ string) { _ = nexus.WriteAlignment(e.al) })
	q("write/clustal", true, nil, nil, func(e *c19Env, _ string) { _ = clustal.WriteAlignment(e.al) })
	q("write/stockholm", true, nil, nil, func(e *c19Env, _ string) { _ = stockholm.WriteAlignment(e.al) })
	q("write/paml", true, nil, nil, func(e *c19Env, _ string) { _ = paml.WriteAlignment(e.al) })
	q("write/String", false, nil, nil, func(e *c19Env, _ string) { _ = e.in.String() })
	q("draw/png", true, c19HasCell, nil, func(e *c19Env, _ string) {
		var b bytes.Buffer
		w := bufio.NewWriter(&b)
		if err := draw.NewPngLayout(w).DrawAlign(e.al); err != nil {
			e.failed = true
		}
		w.Flush()
	})
	q("draw/biojs", true, c19HasCell, nil, func(e *c19Env, _ string) {
		var b bytes.Buffer
		w := bufio.NewWriter(&b)
		if err := draw.NewBioJSLayout(w).DrawAlign(e.al); err != nil {
			e.failed = true
		}
		w.Flush()
	}).Heavy = true

	// ------------------------------------------------------------ writers and statistics on DERIVED alignments
	// (rows of a transposed / cloned / extracted alignment may be laid out otherwise than rows that were added one
	// by one: adjacent in one block, without spare capacity): the derived object is unchanged by every writer,
	// by String() and by the column statistics
	q("derived+writers", true, c19HasCell, func(*c19Inst, c19Level) []string { return []string{"0", "1", "2", "3"} }, func(e *c19Env, arg string) {
		var d align.Alignment
		var err error
		switch arg {
		case "0":
			d, err = e.al.Transpose()
		case "1":
			d, err = e.al.Clone()
		case "2":
			d, err = e.al.SubAlign(0, e.al.Length())
		case "3":
			all := make([]int, e.al.Length())
			for i := range all {
				all[i] = i
			}
			d, err = e.al.SelectSites(all)
		}
		if err != nil || d == nil || align.VerifDump(d) == nil {
			e.failed = true
			return
		}
		e.addAux([]string{"transposed", "cloned", "sub-", "site-selected"}[c19Ints(arg)[0]]+" alignment", d)
		_ = fasta.WriteAlignment(d)
		_ = fasta.WriteSequences(d)
		_ = phylip.WriteAlignment(d, false, false, false)
		_ = phylip.WriteAlignment(d, true, true, true)
		_ = nexus.WriteAlignment(d)
		_ = clustal.WriteAlignment(d)
		_ = stockholm.WriteAlignment(d)
		_ = paml.WriteAlignment(d)
		_ = d.String()
		d.MaxCharStats(false, false)
		d.Consensus(false, false)
		d.CharStats()
	})

	// ------------------------------------------------------------ accessors
	q("get/by-index", false, nil, nil, func(e *c19Env, _ string) {
		n := e.in.NbSequences()
		for i := -1; i <= n; i++ {
			_, _ = e.in.GetSequenceById(i)
			_, _ = e.in.GetSequenceCharById(i)
			_, _ = e.in.GetSequenceNameById(i)
			_, _ = e.in.Sequence(i)
		}
	})
	q("get/by-name", false, nil, nil, func(e *c19Env, _ string) {
		for _, r := range append(e.inst.Rows.clone(), row{"nosuch", ""}) {
			_, _ = e.in.GetSequence(r.Name)
			_, _ = e.in.GetSequenceChar(r.Name)
			_, _ = e.in.GetSequenceByName(r.Name)
			_, _ = e.in.SequenceByName(r.Name)
			_ = e.in.GetSequenceIdByName(r.Name)
		}
	})
	q("get/iterate", false, nil, func(*c19Inst, c19Level) []string { return []string{"0", "1"} }, func(e *c19Env, arg string) {
		stop := arg == "1" // stop after the first row
		k := 0
		e.in.Iterate(func(name, s string) bool { k += len(name) + len(s); return stop })
		e.in.IterateChar(func(name string, s []uint8) bool { k += len(name) + len(s); return stop })
		e.in.IterateAll(func(name string, s []uint8, cm string) bool { k += len(name) + len(s) + len(cm); return stop })
	})
	q("get/Sequences", false, nil, nil, func(e *c19Env, _ string) {
		for _, s := range e.in.Sequences() {
			_, _, _, _ = s.Name(), s.Sequence(), s.Comment(), s.Length()
		}
	})
	q("get/SequencesChan", false, nil, nil, func(e *c19Env, _ string) {
		for s := range e.in.SequencesChan() {
			_ = s.Name()
		}
	})
	q("get/container-properties", false, nil, nil, func(e *c19Env, _ string) {
		_, _, _ = e.in.Alphabet(), e.in.AlphabetStr(), e.in.AlphabetCharacters()
		for _, ch := range []uint8("Ac-NG*?.XL#") {
			_ = e.in.AlphabetCharToIndex(ch)
		}
		_, _, _ = e.in.DetectAlphabet(), e.in.MaxNameLength(), e.in.NbSequences()
		if e.al != nil {
			_ = e.al.Length()
		}
	})
	q("stat/Identical", false, nil, func(*c19Inst, c19Level) []string { return []string{"same", "other-residue", "other-name", "as-set"} }, func(e *c19Env, arg string) {
		o := *e.inst
		o.Rows = o.Rows.clone()
		switch arg {
		case "other-residue":
			if len(o.Rows) > 0 && len(o.Rows[0].Seq) > 0 {
				o.Rows[0].Seq = "G" + o.Rows[0].Seq[1:]
			}
		case "other-name":
			if len(o.Rows) > 0 {
				o.Rows[len(o.Rows)-1].Name = "zz"
			}
		case "as-set":
			o.Bag = true
		}
		other, err := o.build()
		if err != nil {
			e.failed = true
			return
		}
		e.addAux("compared", other)
		_ = e.in.Identical(other)
		_ = other.Identical(e.in)
	})

	// ------------------------------------------------------------ statistics
	q("stat/CharStats", false, nil, nil, func(e *c19Env, _ string) { _ = e.in.CharStats() })
	q("stat/UniqueCharacters", false, nil, nil, func(e *c19Env, _ string) { _ = e.in.UniqueCharacters() })
	q("stat/CharStatsSeq", false, c19HasRow, rowIdx, func(e *c19Env, arg string) {
		if _, err := e.in.CharStatsSeq(c19Ints(arg)[0]); err != nil {
			e.failed = true
		}
	})
	q("stat/CharStatsSite", true, c19HasCell, sites, func(e *c19Env, arg string) {
		if _, err := e.al.CharStatsSite(c19Ints(arg)[0]); err != nil {
			e.failed = true
		}
	})
	q("stat/AvgAllelesPerSite", true, nil, nil, func(e *c19Env, _ string) { _ = e.al.AvgAllelesPerSite() })
	q("stat/NbVariableSites", true, nil, nil, func(e *c19Env, _ string) { _ = e.al.NbVariableSites() })
	q("stat/InformativeSites", true, nil, nil, func(e *c19Env, _ string) { _ = e.al.InformativeSites() })
	q("stat/CountDifferences", true, c19HasRow, nil, func(e *c19Env, _ string) { _, _ = e.al.CountDifferences() })
	q("stat/MaxCharStats", true, c19HasRow, func(*c19Inst, c19Level) []string { return c19BoolArgs(2) }, func(e *c19Env, arg string) {
		a := c19Ints(arg)
		_, _, _ = e.al.MaxCharStats(c19B(a[0]), c19B(a[1]))
	})
	q("stat/Entropy", true, c19HasCell, func(in *c19Inst, l c19Level) []string { return c19Cross(sites(in, l), c19BoolArgs(1)) }, func(e *c19Env, arg string) {
		a := c19Ints(arg)
		if _, err := e.al.Entropy(a[0], c19B(a[1])); err != nil {
			e.failed = true
		}
	})
	q("stat/SiteConservation", true, c19HasCell, sites, func(e *c19Env, arg string) {
		if _, err := e.al.SiteConservation(c19Ints(arg)[0]); err != nil {
			e.failed = true
		}
	})
	q("stat/Pssm", true, c19HasCell, func(*c19Inst, c19Level) []string {
		return c19Cross(c19BoolArgs(1), []string{"0", "1"}, []string{"0", "1", "2", "3", "4"})
	}, func(e *c19Env, arg string) {
		a := c19Ints(arg)
		if _, err := e.al.Pssm(c19B(a[0]), float64(a[1]), a[2]); err != nil {
			e.failed = true
		}
	})
	q("stat/Frameshifts", true, c19HasRow, func(*c19Inst, c19Level) []string { return c19BoolArgs(1) }, func(e *c19Env, arg string) {
		_ = e.al.Frameshifts(c19B(c19Ints(arg)[0]))
	})
	q("stat/Stops", true, func(in *c19Inst) bool { return c19HasRow(in) && c19IsNt(in) }, func(*c19Inst, c19Level) []string { return c19Cross(c19BoolArgs(1), []string{"0", "1", "2"}) }, func(e *c19Env, arg string) {
		a := c19Ints(arg)
		if _, err := e.al.Stops(c19B(a[0]), a[1]); err != nil {
			e.failed = true
		}
	})
	q("stat/CountProfile", true, nil, nil, func(e *c19Env, _ string) {
		p := align.NewCountProfileFromAlignment(e.al)
		_ = p.NbCharacters()
	})
	q("stat/NumGapsUniquePerSequence", true, c19HasCell, func(*c19Inst, c19Level) []string { return []string{"no-profile", "own-profile"} }, func(e *c19Env, arg string) {
		var p *align.CountProfile
		if arg == "own-profile" {
			p = align.NewCountProfileFromAlignment(e.al)
		}
		if _, _, _, err := e.al.NumGapsUniquePerSequence(p); err != nil {
			e.failed = true
		}
	})
	q("stat/NumMutationsUniquePerSequence", true, c19HasCell, func(*c19Inst, c19Level) []string { return []string{"no-profile", "own-profile"} }, func(e *c19Env, arg string) {
		var p *align.CountProfile
		if arg == "own-profile" {
			p = align.NewCountProfileFromAlignment(e.al)
		}
		if _, _, _, err := e.al.NumMutationsUniquePerSequence(p); err != nil {
			e.failed = true
		}
	})
	q("coord/InverseCoordinates", true, c19HasRow, func(in *c19Inst, _ c19Level) []string { return c19Windows(max(in.L(), 0), 0) }, func(e *c19Env, arg string) {
		a := c19Ints(arg)
		if _, _, err := e.al.InverseCoordinates(a[0], a[1]); err != nil {
			e.failed = true
		}
	})
	q("coord/InversePositions", true, c19HasRow, func(in *c19Inst, _ c19Level) []string { return c19SiteLists(min(in.L(), 4), 2) }, func(e *c19Env, arg string) {
		if _, err := e.al.InversePositions(c19Ints(arg)); err != nil {
			e.failed = true
		}
	})
	ungapped := func(in *c19Inst, i int) int { return len(ungap(in.Rows[i].Seq)) }
	q("coord/RefCoordinates", true, c19HasCell, func(in *c19Inst, _ c19Level) []string {
		var out []string
		for i := range in.Rows {
			for _, w := range c19Windows(min(ungapped(in, i), 4), 1) {
				out = append(out, c19Join(i)+","+w)
			}
		}
		return out
	}, func(e *c19Env, arg string) {
		a := c19Ints(arg)
		if _, _, err := e.al.RefCoordinates(e.inst.Rows[a[0]].Name, a[1], a[2]); err != nil {
			e.failed = true
		}
	})
	q("coord/RefSites", true, c19HasCell, func(in *c19Inst, _ c19Level) []string {
		var out []string
		for i := range in.Rows {
			for _, w := range c19SiteLists(min(ungapped(in, i), 4), 2) {
				out = append(out, strings.TrimSuffix(c19Join(i)+","+w, ","))
			}
		}
		return out
	}, func(e *c19Env, arg string) {
		a := c19Ints(arg)
		if _, err := e.al.RefSites(e.inst.Rows[a[0]].Name, a[1:]); err != nil {
			e.failed = true
		}
	})

	// ------------------------------------------------------------ row-level queries (cmd/stats* works through them)
	q("seq/getters", false, c19HasRow, rowIdx, func(e *c19Env, arg string) {
		s, ok := e.in.Sequence(c19Ints(arg)[0])
		if !ok {
			e.failed = true
			return
		}
		_, _, _, _ = s.Sequence(), s.Name(), s.Comment(), s.Length()
		_ = s.SameSequence([]uint8("AC"))
		_ = s.SameSequence(s.SequenceChar())
		if s.Length() > 0 {
			_ = s.CharAt(s.Length() - 1)
		}
		_, _, _, _, _ = s.DetectAlphabet(), s.NumGaps(), s.NumGapsOpenning(), s.NumGapsFromStart(), s.NumGapsFromEnd()
		_, _ = s.LongestORF()
		e.outSeqs = append(e.outSeqs, s.Clone())
	})
	q("seq/Translate", false, func(in *c19Inst) bool { return c19HasRow(in) && c19IsNt(in) }, func(in *c19Inst, l c19Level) []string {
		return c19Cross(rowIdx(in, l), []string{"0", "1", "2"}, []string{"0", "1", "2"})
	}, func(e *c19Env, arg string) {
		a := c19Ints(arg)
		s, _ := e.in.Sequence(a[0])
		t, err := s.Translate(a[1], a[2])
		if err != nil {
			e.failed = true
			return
		}
		e.outSeqs = append(e.outSeqs, t)
	})
	q("seq/mutations-vs-reference", true, c19HasCell, func(in *c19Inst, l c19Level) []string {
		return c19Cross(rowIdx(in, l), rowIdx(in, l), c19BoolArgs(1))
	}, func(e *c19Env, arg string) {
		a := c19Ints(arg)
		s, _ := e.in.Sequence(a[0])
		ref := align.NewSequence("ref", []uint8(e.inst.Rows[a[1]].Seq), "")
		if _, err := s.NumMutationsComparedToReferenceSequence(e.in.Alphabet(), ref); err != nil {
			e.failed = true
		}
		lst, err := s.ListMutationsComparedToReferenceSequence(e.in.Alphabet(), ref, c19B(a[2]))
		if err != nil {
			e.failed = true
		}
		// the returned list belongs to the caller ("followed by arbitrary in-place mutations of the returned
		// object"): every byte of every Alt is overwritten and every Alt is extended inside its capacity
		for i := range lst {
			for k := range lst[i].Alt {
				lst[i].Alt[k] = '#'
			}
			full := lst[i].Alt[:cap(lst[i].Alt)]
			for k := range full {
				full[k] = '#'
			}
		}
	})

	// ------------------------------------------------------------ consensus, transposition, un-alignment
	q("Consensus", true, c19HasCell, func(*c19Inst, c19Level) []string { return c19BoolArgs(2) }, func(e *c19Env, arg string) {
		a := c19Ints(arg)
		e.out(e.al.Consensus(c19B(a[0]), c19B(a[1])), nil)
	}).Own = true // "consensus" is in the statement's list too: see below
	// transposition and bootstrap are in the statement's list of copy-producing operations, and the quantifier has
	// every such operation "followed by arbitrary in-place mutations of the returned object": step 2 applies
	q("Transpose", true, nil, nil, func(e *c19Env, _ string) { e.out(e.al.Transpose()) }).Own = true
	q("Unalign", false, nil, nil, func(e *c19Env, _ string) { e.out(e.in.Unalign(), nil) })
	q("CodonAlign", true, func(in *c19Inst) bool { return c19HasCell(in) && c19IsAA(in) }, nil, func(e *c19Env, _ string) {
		nt := align.NewSeqBag(align.NUCLEOTIDS)
		for _, r := range e.inst.Rows {
			var b []byte
			for i := 0; i < len(r.Seq); i++ {
				if cd, ok := c19Codon[upper(r.Seq[i])]; ok {
					b = append(b, cd...)
				}
			}
			nt.AddSequence(r.Name, string(b), "")
		}
		e.addAux("nucleotide-set", nt)
		r, err := e.al.CodonAlign(nt)
		if err != nil || r == nil {
			e.failed = true
			return
		}
		e.out(r, nil)
	})

	// ------------------------------------------------------------ distances
	dist := q("dist/dna", true, func(in *c19Inst) bool { return c19HasCell(in) && c19IsNt(in) }, func(in *c19Inst, _ c19Level) []string {
		var out []string
		for mi, m := range c19DnaModels {
			for rg := 0; rg < 2; rg++ {
				gm := []int{0}
				if m == "pdist" || m == "rawdist" {
					gm = []int{0, 1, 2}
				}
				for _, g := range gm {
					out = append(out, c19Join(mi, rg, g, 0), c19Join(mi, rg, g, 1))
				}
			}
		}
		return out
	}, func(e *c19Env, arg string) {
		a := c19Ints(arg)
		m, err := c08Model(c19DnaModels[a[0]], c19B(a[1]), a[2])
		if err != nil {
			e.failed = true
			return
		}
		var w []float64
		if a[3] == 1 {
			for j := 0; j < e.al.Length(); j++ {
				w = append(w, 1+0.5*float64(j%3))
			}
		}
		if _, err := dna.DistMatrix(e.al, w, m, -1, -1, -1, -1, false, 0, 1); err != nil {
			e.failed = true
		}
	})
	dist.Class = func(arg string) string { return c19DnaModels[c19Ints(arg)[0]] }
	dist.Kill = true
	q("dist/protein-ML", true, func(in *c19Inst) bool { return c19HasCell(in) && c19IsAA(in) && in.n() >= 2 }, func(in *c19Inst, lvl c19Level) []string {
		models := []string{"3"} // LG
		if lvl.Full {
			models = c19Range(7)
		}
		return c19Cross(models, c19BoolArgs(2))
	}, func(e *c19Env, arg string) {
		a := c19Ints(arg)
		m, err := protein.NewProtDistModel(a[0], c19B(a[1]), false, 0, c19B(a[2]))
		if err != nil {
			e.failed = true
			return
		}
		if c19B(a[1]) {
			err = m.InitModel(nil, nil) // as cmd/computedist.go does
		} else {
			err = m.InitModel(e.al, nil)
		}
		if err != nil {
			e.failed = true
			return
		}
		if _, _, _, err := m.MLDist(e.al, nil); err != nil {
			e.failed = true
		}
	})

	// ------------------------------------------------------------ pairwise alignment, ORF, phasing
	q("pairwise-align", false, c19HasCell, func(in *c19Inst, l c19Level) []string {
		return c19Cross(rowIdx(in, l), rowIdx(in, l), []string{"0", "1"})
	}, func(e *c19Env, arg string) {
		a := c19Ints(arg)
		s1, _ := e.in.Sequence(a[0])
		s2, _ := e.in.Sequence(a[1])
		algo := align.ALIGN_ALGO_SW
		if a[2] == 1 {
			algo = align.ALIGN_ALGO_ATG
		}
		pw := align.NewPwAligner(s1, s2, algo)
		al, err := pw.Alignment()
		if err != nil {
			e.failed = true
			return
		}
		_, _, _, _, _ = pw.MaxScore(), pw.NbMatches(), pw.NbMisMatches(), pw.NbGaps(), pw.Length()
		_ = pw.AlignmentStr()
		e.out(al, nil)
	})
	q("LongestORF", false, func(in *c19Inst) bool { return c19HasRow(in) && c19IsNt(in) }, func(*c19Inst, c19Level) []string { return c19BoolArgs(1) }, func(e *c19Env, arg string) {
		s, err := e.in.LongestORF(c19B(c19Ints(arg)[0]))
		if err != nil || s == nil {
			e.failed = true
			return
		}
		e.outSeqs = append(e.outSeqs, s)
	})
	ph := q("Phase", false, func(in *c19Inst) bool { return c19HasCell(in) && c19IsNt(in) }, func(*c19Inst, c19Level) []string {
		var out []string
		for _, o := range []string{"0", "1", "2"} {
			for _, b := range c19BoolArgs(3) {
				if o == "2" && strings.HasPrefix(b, "0") {
					continue // a protein reference only makes sense with translation
				}
				out = append(out, o+","+b)
			}
		}
		return out
	}, func(e *c19Env, arg string) {
		a := c19Ints(arg)
		var orfs align.SeqBag
		switch a[0] {
		case 1:
			orfs = align.NewSeqBag(align.NUCLEOTIDS)
			orfs.AddSequence("orf", "ATGAAATAA", "")
		case 2:
			orfs = align.NewSeqBag(align.AMINOACIDS)
			orfs.AddSequence("orf", "MKL", "")
		}
		if orfs != nil {
			e.addAux("reference-orfs", orfs)
		}
		p := align.NewPhaser()
		p.SetCpus(1)
		p.SetTranslate(c19B(a[1]), align.GENETIC_CODE_STANDARD)
		p.SetReverse(c19B(a[2]))
		p.SetCutEnd(c19B(a[3]))
		ch, err := p.Phase(orfs, e.in)
		if err != nil {
			e.failed = true
			return
		}
		for r := range ch {
			if r.Err != nil {
				e.failed = true
				continue
			}
			e.outSeqs = append(e.outSeqs, r.NtSeq, r.CodonSeq, r.AaSeq)
		}
	})
	ph.Kill = true
	ph.Class = func(arg string) string {
		return []string{"no-reference", "nt-reference", "aa-reference"}[c19Ints(arg)[0]]
	}

	// ------------------------------------------------------------ randomised producers of new objects
	small := func(in *c19Inst) bool { return c19HasCell(in) && in.L() <= 6 && in.n() <= 4 }
	// (also on rows without any site: the replicate of a site-less alignment is a new site-less alignment)
	bs := q("BuildBootstrap", true, func(in *c19Inst) bool { return c19HasRow(in) && in.L() <= 6 && in.n() <= 4 }, func(in *c19Inst, _ c19Level) []string {
		if in.L() > 3 {
			return []string{"50"}
		}
		return []string{"100", "50", "0"}
	}, func(e *c19Env, arg string) {
		e.out(e.al.BuildBootstrap(float64(c19Ints(arg)[0])/100), nil)
	})
	bs.Rand, bs.Own = true, true
	sm := q("Sample", true, small, func(in *c19Inst, _ c19Level) []string { return c19Range(in.n() + 1)[1:] }, func(e *c19Env, arg string) {
		e.out(e.al.Sample(c19Ints(arg)[0]))
	})
	sm.Rand = true
	sb := q("SampleSeqBag", false, func(in *c19Inst) bool { return c19HasRow(in) && in.n() <= 4 }, func(in *c19Inst, _ c19Level) []string { return c19Range(in.n() + 1)[1:] }, func(e *c19Env, arg string) {
		e.out(e.in.SampleSeqBag(c19Ints(arg)[0]))
	})
	sb.Rand = true
	rf := q("Rarefy", true, small, c19RarefyArgs, func(e *c19Env, arg string) {
		m, _ := c19RarefyCounts(e.inst)
		e.out(e.al.Rarefy(c19Ints(arg)[0], m))
	})
	rf.Rand, rf.FloatReps = true, c19RarefyReps
	rfb := q("RarefySeqBag", false, func(in *c19Inst) bool { return c19HasRow(in) && in.n() <= 4 }, c19RarefyArgs, func(e *c19Env, arg string) {
		m, _ := c19RarefyCounts(e.inst)
		e.out(e.in.RarefySeqBag(c19Ints(arg)[0], m))
	})
	rfb.Rand, rfb.FloatReps = true, c19RarefyReps

	// ------------------------------------------------------------ the operations of the ownership clause
	own := func(o *c19Op) *c19Op { o.Own = true; return o }
	own(q("Clone", true, nil, nil, func(e *c19Env, _ string) { e.out(e.al.Clone()) }))
	own(q("CloneSeqBag", false, nil, nil, func(e *c19Env, _ string) { e.out(e.in.CloneSeqBag()) }))
	own(q("SubAlign", true, c19HasRow, func(in *c19Inst, _ c19Level) []string { return c19Windows(min(max(in.L(), 0), 6), 0) }, func(e *c19Env, arg string) {
		a := c19Ints(arg)
		e.out(e.al.SubAlign(a[0], a[1]))
	}))
	own(q("SelectSites", true, c19HasRow, func(in *c19Inst, lvl c19Level) []string {
		k := 2
		if lvl.Full && in.L() <= 3 {
			k = 3
		}
		return c19SiteLists(min(in.L(), 4), k)
	}, func(e *c19Env, arg string) {
		e.out(e.al.SelectSites(c19Ints(arg)))
	}))
	rs := own(q("RandSubAlign", true, small, func(in *c19Inst, _ c19Level) []string {
		if in.L() > 3 { // L! leaves per scattered draw: one length only
			out := c19Cross(c19Range(in.L() + 1)[1:], []string{"1"})
			return append(out, c19Join(in.L()-1, 0))
		}
		return c19Cross(c19Range(in.L() + 1)[1:], c19BoolArgs(1))
	}, func(e *c19Env, arg string) {
		a := c19Ints(arg)
		e.out(e.al.RandSubAlign(a[0], c19B(a[1])))
	}))
	rs.Rand = true
	rs.Class = func(arg string) string {
		if c19B(c19Ints(arg)[1]) {
			return "consecutive"
		}
		return "scattered"
	}
	// a cloned row: the clone is observed (and mutated) through a one-row set that is a view of the clone's own buffer
	own(q("Sequence.Clone", false, c19HasRow, rowIdx, func(e *c19Env, arg string) {
		s, ok := e.in.Sequence(c19Ints(arg)[0])
		if !ok {
			e.failed = true
			return
		}
		cl := s.Clone()
		view := align.NewSeqBag(e.in.Alphabet())
		view.AddSequenceChar(cl.Name(), cl.SequenceChar(), cl.Comment())
		if st := align.VerifDump(view); len(cl.SequenceChar()) > 0 && (len(st.Rows) != 1 || st.Rows[0].Buf != uintptr(unsafe.Pointer(unsafe.SliceData(cl.SequenceChar())))) {
			e.failed = true // AddSequenceChar no longer stores the slice it is given: the view would not be the clone
			return
		}
		e.out(view, nil)
	}))
	own(q("Split", true, func(in *c19Inst) bool { return c19HasRow(in) && in.L() >= 2 }, func(in *c19Inst, _ c19Level) []string {
		// every assignment of the columns to 2 or 3 parts (parts numbered in order of first appearance)
		L := in.L()
		if L > 6 {
			return []string{strings.TrimSuffix(strings.Repeat("0,1,", L), ",")}
		}
		var out []string
		cur := make([]int, L)
		var rec func(j, used int)
		rec = func(j, used int) {
			if j == L {
				if used >= 2 {
					out = append(out, c19Join(cur...))
				}
				return
			}
			for p := 0; p <= used && p < 3; p++ {
				cur[j] = p
				nu := used
				if p == used {
					nu++
				}
				rec(j+1, nu)
			}
		}
		rec(0, 0)
		return out
	}, func(e *c19Env, arg string) {
		a := c19Ints(arg)
		ps := align.NewPartitionSet(len(a))
		for j, p := range a {
			if err := ps.AddRange(fmt.Sprintf("p%d", p), "m", j, j, 1); err != nil {
				panic("c19: cannot build the partition set: " + err.Error())
			}
		}
		parts, err := e.al.Split(ps)
		if err != nil {
			e.failed = true
			return
		}
		for _, p := range parts {
			e.out(p, nil)
		}
	}))
	return ops
}
