package props

import (
	"runtime"
	"encoding/json"
	"fmt"
	"strconv"
	"strings"

	"verif/harness/mc"

	"github.com/evolbioinfo/goalign/align"
)

// ---- oracle data: the two EMBOSS matrices the documentation names (goalign sw:
// "blosum62 or dnafull substitution matrices (taken from EMBOSS WATER)"), typed
// in their published text form, independently of align/const.go.

const c09DNAfullText = `
    A   T   G   C   S   W   R   Y   K   M   B   V   H   D   N   U
A   5  -4  -4  -4  -4   1   1  -4  -4   1  -4  -1  -1  -1  -2  -4
T  -4   5  -4  -4  -4   1  -4   1   1  -4  -1  -4  -1  -1  -2   5
G  -4  -4   5  -4   1  -4   1  -4   1  -4  -1  -1  -4  -1  -2  -4
C  -4  -4  -4   5   1  -4  -4   1  -4   1  -1  -1  -1  -4  -2  -4
S  -4  -4   1   1  -1  -4  -2  -2  -2  -2  -1  -1  -3  -3  -1  -4
W   1   1  -4  -4  -4  -1  -2  -2  -2  -2  -3  -3  -1  -1  -1   1
R   1  -4   1  -4  -2  -2  -1  -4  -2  -2  -3  -1  -3  -1  -1  -4
Y  -4   1  -4   1  -2  -2  -4  -1  -2  -2  -1  -3  -1  -3  -1   1
K  -4   1   1  -4  -2  -2  -2  -2  -1  -4  -1  -3  -3  -1  -1   1
M   1  -4  -4   1  -2  -2  -2  -2  -4  -1  -3  -1  -1  -3  -1  -4
B  -4  -1  -1  -1  -1  -3  -3  -1  -1  -3  -1  -2  -2  -2  -1  -1
V  -1  -4  -1  -1  -1  -3  -1  -3  -3  -1  -2  -1  -2  -2  -1  -4
H  -1  -1  -4  -1  -3  -1  -3  -1  -3  -1  -2  -2  -1  -2  -1  -1
D  -1  -1  -1  -4  -3  -1  -1  -3  -1  -3  -2  -2  -2  -1  -1  -1
N  -2  -2  -2  -2  -1  -1  -1  -1  -1  -1  -1  -1  -1  -1  -1  -2
U  -4   5  -4  -4  -4   1  -4   1   1  -4  -1  -4  -1  -1  -2   5
`

const c09Blosum62Text = `
   A  R  N  D  C  Q  E  G  H  I  L  K  M  F  P  S  T  W  Y  V  B  Z  X  *
A  4 -1 -2 -2  0 -1 -1  0 -2 -1 -1 -1 -1 -2 -1  1  0 -3 -2  0 -2 -1  0 -4
R -1  5  0 -2 -3  1  0 -2  0 -3 -2  2 -1 -3 -2 -1 -1 -3 -2 -3 -1  0 -1 -4
N -2  0  6  1 -3  0  0  0  1 -3 -3  0 -2 -3 -2  1  0 -4 -2 -3  3  0 -1 -4
D -2 -2  1  6 -3  0  2 -1 -1 -3 -4 -1 -3 -3 -1  0 -1 -4 -3 -3  4  1 -1 -4
C  0 -3 -3 -3  9 -3 -4 -3 -3 -1 -1 -3 -1 -2 -3 -1 -1 -2 -2 -1 -3 -3 -2 -4
Q -1  1  0  0 -3  5  2 -2  0 -3 -2  1  0 -3 -1  0 -1 -2 -1 -2  0  3 -1 -4
E -1  0  0  2 -4  2  5 -2  0 -3 -3  1 -2 -3 -1  0 -1 -3 -2 -2  1  4 -1 -4
G  0 -2  0 -1 -3 -2 -2  6 -2 -4 -4 -2 -3 -3 -2  0 -2 -2 -3 -3 -1 -2 -1 -4
H -2  0  1 -1 -3  0  0 -2  8 -3 -3 -1 -2 -1 -2 -1 -2 -2  2 -3  0  0 -1 -4
I -1 -3 -3 -3 -1 -3 -3 -4 -3  4  2 -3  1  0 -3 -2 -1 -3 -1  3 -3 -3 -1 -4
L -1 -2 -3 -4 -1 -2 -3 -4 -3  2  4 -2  2  0 -3 -2 -1 -2 -1  1 -4 -3 -1 -4
K -1  2  0 -1 -3  1  1 -2 -1 -3 -2  5 -1 -3 -1  0 -1 -3 -2 -2  0  1 -1 -4
M -1 -1 -2 -3 -1  0 -2 -3 -2  1  2 -1  5  0 -2 -1 -1 -1 -1  1 -3 -1 -1 -4
F -2 -3 -3 -3 -2 -3 -3 -3 -1  0  0 -3  0  6 -4 -2 -2  1  3 -1 -3 -3 -1 -4
P -1 -2 -2 -1 -3 -1 -1 -2 -2 -3 -3 -1 -2 -4  7 -1 -1 -4 -3 -2 -2 -1 -2 -4
S  1 -1  1  0 -1  0  0  0 -1 -2 -2  0 -1 -2 -1  4  1 -3 -2 -2  0  0  0 -4
T  0 -1  0 -1 -1 -1 -1 -2 -2 -1 -1 -1 -1 -2 -1  1  5 -2 -2  0 -1 -1  0 -4
W -3 -3 -4 -4 -2 -2 -3 -2 -2 -3 -2 -3 -1  1 -4 -3 -2 11  2 -3 -4 -3 -2 -4
Y -2 -2 -2 -3 -2 -1 -2 -3  2 -1 -1 -2 -1  3 -3 -2 -2  2  7 -1 -3 -2 -1 -4
V  0 -3 -3 -3 -1 -2 -2 -3 -3  3  1 -2  1 -1 -2 -2  0 -3 -1  4 -3 -2 -1 -4
B -2 -1  3  4 -3  0  1 -1  0 -3 -4  0 -3 -3 -2  0 -1 -4 -3 -3  4  1 -1 -4
Z -1  0  0  1 -3  3  4 -2  0 -3 -3  1 -1 -3 -1  0 -1 -3 -2 -2  1  4 -1 -4
X  0 -1 -1 -1 -2 -1 -1 -1 -1 -1 -1 -1 -1 -1 -2  0  0 -2 -1 -1 -1 -1 -1 -4
* -4 -4 -4 -4 -4 -4 -4 -4 -4 -4 -4 -4 -4 -4 -4 -4 -4 -4 -4 -4 -4 -4 -4  1
`

// c09Matrix is a substitution matrix indexed by residue bytes.
type c09Matrix struct {
	letters string
	score   [256][256]float64
	known   [256]bool
}

func c09ParseMatrix(text string) *c09Matrix {
	m := &c09Matrix{}
	lines := strings.Split(strings.TrimSpace(text), "\n")
	cols := strings.Fields(lines[0])
	for _, c := range cols {
		m.letters += c
		m.known[c[0]] = true
	}
	if len(lines) != len(cols)+1 {
		panic("c09: matrix text is not square")
	}
	for r, l := range lines[1:] {
		f := strings.Fields(l)
		if len(f) != len(cols)+1 || f[0] != cols[r] {
			panic("c09: bad matrix row " + l)
		}
		for k, v := range f[1:] {
			var x int
			if _, err := fmt.Sscanf(v, "%d", &x); err != nil {
				panic("c09: bad matrix entry " + v)
			}
			m.score[cols[r][0]][cols[k][0]] = float64(x)
		}
	}
	for _, a := range cols {
		for _, b := range cols {
			if m.score[a[0]][b[0]] != m.score[b[0]][a[0]] {
				panic("c09: matrix text is not symmetric at " + a + b)
			}
		}
	}
	return m
}

var (
	c09DNAfull  = c09ParseMatrix(c09DNAfullText)
	c09Blosum62 = c09ParseMatrix(c09Blosum62Text)
)

// ---- cases

// c09Case is one call of the local aligner.
//
//	mode "mm":     SetScore(Match, Mismatch); identical residues score Match, different ones Mismatch
//	mode "matrix": the built-in matrix chosen from the two sequences
//
// Open and Extend are always set explicitly.
type c09Case struct {
	S1       string  `json:"s1"`
	S2       string  `json:"s2"`
	Mode     string  `json:"mode"`
	Match    float64 `json:"match,omitempty"`
	Mismatch float64 `json:"mismatch,omitempty"`
	Open     float64 `json:"open"`
	Extend   float64 `json:"extend"`
	// Order in which the scheme is configured: 0 = open, extend, scores; 1 = extend, open, scores;
	// 2 = scores, extend, open.  The configured scheme is the last value given to each setter.
	Order int `json:"setter_order,omitempty"`
	// Procs: GOMAXPROCS during the alignment (0 = unchanged)
	Procs int `json:"gomaxprocs,omitempty"`
}

// c09Configure applies the scheme of the case in the order the case asks for.
func c09Configure(a align.PairwiseAligner, cs *c09Case, scores bool) {
	open := func() { a.SetGapOpenScore(cs.Open) }
	ext := func() { a.SetGapExtendScore(cs.Extend) }
	sc := func() {
		if scores {
			a.SetScore(cs.Match, cs.Mismatch)
		}
	}
	switch cs.Order {
	case 1:
		ext()
		open()
		sc()
	case 2:
		sc()
		ext()
		open()
	default:
		open()
		ext()
		sc()
	}
}

type c09Gap struct{ open, extend float64 }

type c09Scheme struct {
	match, mismatch float64
	c09Gap
}

// c09MMSchemes: match in {1,2,3} x mismatch in {-1,-2} x (open,extend) with
// open in {-1,-2,-3,-10}, extend in {-0.5,-1,-2}, open <= extend: 66 schemes.
var c09MMSchemes = func() (out []c09Scheme) {
	for _, m := range []float64{1, 2, 3} {
		for _, x := range []float64{-1, -2} {
			for _, o := range []float64{-1, -2, -3, -10} {
				for _, e := range []float64{-0.5, -1, -2} {
					if o <= e {
						out = append(out, c09Scheme{m, x, c09Gap{o, e}})
					}
				}
			}
		}
	}
	return
}()

// c09DecimalSchemes: penalties that are not binary fractions (sums of them
// round in float64; every comparison of the driver has a 1e-9 tolerance, and
// two different achievable scores differ by at least 0.1 under these schemes).
var c09DecimalSchemes = func() (out []c09Scheme) {
	for _, m := range []float64{1, 3} {
		for _, g := range []c09Gap{{-1, -0.1}, {-0.3, -0.1}, {-1.1, -0.3}, {-0.7, -0.7}} {
			out = append(out, c09Scheme{m, -1, g})
		}
	}
	return
}()

// c09MatrixGaps: gap penalties used with the built-in matrices; -10/-0.5 is the
// documented default, -4 and -1 are below the largest DNAfull (5) / BLOSUM62
// (W-W 11, L-L 4) scores so that a gap directly after the first aligned pair pays off.
var c09MatrixGaps = []c09Gap{{-10, -0.5}, {-10, -1}, {-4, -0.25}, {-4, -0.5}, {-4, -1}, {-1, -0.5}, {-1, -1}, {-4, -0.1}}

const (
	c09AlphaMM     = "ACG"
	c09AlphaMMProt = "LAW"
	c09AlphaBin    = "AC"
	c09AlphaLower  = "aCg"
	c09AlphaDNA    = "ATGCNW"
	c09AlphaProt   = "WLFAY"
)

// ---- oracle

const c09NegInf = -1e300

// c09Oracle holds the scoring scheme of one case, re-derived from the case
// description only.
type c09Oracle struct {
	mm              bool
	match, mismatch float64
	mat             *c09Matrix
	open, extend    float64
	// scratch
	m, x, y [][]float64
	b1, b2  []byte
	best    float64
	n       int64
}

// c09IsNt / c09IsAA: the IUPAC nucleotide codes and the amino-acid codes of
// BLOSUM62; c09IsAAOnly: the amino-acid letters that can in no way be read as a
// nucleotide symbol (X and * are generic unknown / stop symbols, not counted).
func c09IsNt(b byte) bool     { return strings.IndexByte("ACGTURYSWKMBDHVN", b) >= 0 }
func c09IsAA(b byte) bool     { return strings.IndexByte("ARNDCQEGHILKMFPSTWYVBZX*", b) >= 0 }
func c09IsAAOnly(b byte) bool { return strings.IndexByte("QEILFPZ", b) >= 0 }

// c09Kind: "nt" when every residue of both sequences is a nucleotide code
// (goalign reads ambiguous input as nucleotides), "aa" when every residue is an
// amino-acid code and at least one is a letter that only proteins have, ""
// otherwise (undetermined: e.g. X or * next to nucleotide-readable letters).
func c09Kind(s1, s2 string) string {
	nt, aa, aaOnly := true, true, false
	for _, s := range []string{s1, s2} {
		for i := 0; i < len(s); i++ {
			nt = nt && c09IsNt(s[i])
			aa = aa && c09IsAA(s[i])
			aaOnly = aaOnly || c09IsAAOnly(s[i])
		}
	}
	switch {
	case nt:
		return "nt"
	case aa && aaOnly:
		return "aa"
	}
	return ""
}

func (o *c09Oracle) sub(a, b byte) float64 {
	if o.mm {
		if a == b {
			return o.match
		}
		return o.mismatch
	}
	return o.mat.score[a][b]
}

// scoreRows scores a gapped pair of rows from the definition: every column
// holding two residues scores sub(a,b); every maximal run of k gap symbols in
// one row scores open + (k-1)*extend.  ok=false for rows of different length or
// with a column of two gaps.
func (o *c09Oracle) scoreRows(r1, r2 []byte) (score float64, ok bool) {
	if len(r1) != len(r2) {
		return 0, false
	}
	prev := 0 // 0: residue pair or start, 1: gap in r1, 2: gap in r2
	for i := range r1 {
		g1, g2 := r1[i] == '-', r2[i] == '-'
		switch {
		case g1 && g2:
			return 0, false
		case g1:
			if prev == 1 {
				score += o.extend
			} else {
				score += o.open
			}
			prev = 1
		case g2:
			if prev == 2 {
				score += o.extend
			} else {
				score += o.open
			}
			prev = 2
		default:
			score += o.sub(r1[i], r2[i])
			prev = 0
		}
	}
	return score, true
}

func c09Grid(g [][]float64, n, m int) [][]float64 {
	if len(g) < n+1 {
		g = make([][]float64, n+1)
	}
	for i := 0; i <= n; i++ {
		if len(g[i]) < m+1 {
			g[i] = make([]float64, m+1)
		}
	}
	return g
}

// gotoh: three-state local dynamic program.  M/X/Y[i][j] = best score of a
// non-empty alignment of a suffix of s1[:i] with a suffix of s2[:j] whose last
// column is (residue,residue) / (residue,gap) / (gap,residue).  Returns the
// maximum over all non-empty local alignments, and the maximum over those whose
// last column pairs two residues neither of which is the first of its sequence.
func (o *c09Oracle) gotoh(s1, s2 string) (best, bestInside float64) {
	n, m := len(s1), len(s2)
	o.m, o.x, o.y = c09Grid(o.m, n, m), c09Grid(o.x, n, m), c09Grid(o.y, n, m)
	M, X, Y := o.m, o.x, o.y
	best, bestInside = c09NegInf, c09NegInf
	for i := 0; i <= n; i++ {
		for j := 0; j <= m; j++ {
			M[i][j], X[i][j], Y[i][j] = c09NegInf, c09NegInf, c09NegInf
			if i > 0 && j > 0 {
				M[i][j] = o.sub(s1[i-1], s2[j-1]) + max(0, M[i-1][j-1], X[i-1][j-1], Y[i-1][j-1])
			}
			if i > 0 {
				X[i][j] = max(o.open+max(0, M[i-1][j], Y[i-1][j]), o.extend+X[i-1][j])
			}
			if j > 0 {
				Y[i][j] = max(o.open+max(0, M[i][j-1], X[i][j-1]), o.extend+Y[i][j-1])
			}
			best = max(best, M[i][j], X[i][j], Y[i][j])
			if i > 1 && j > 1 {
				bestInside = max(bestInside, M[i][j])
			}
		}
	}
	return
}

// brute enumerates every non-empty local alignment explicitly (every start
// pair, every sequence of columns (residue,residue) / (residue,gap) /
// (gap,residue)) and scores each with scoreRows.
func (o *c09Oracle) brute(s1, s2 string) float64 {
	o.best = c09NegInf
	o.n = 0
	for i := 0; i <= len(s1); i++ {
		for j := 0; j <= len(s2); j++ {
			o.b1, o.b2 = o.b1[:0], o.b2[:0]
			o.bruteFrom(s1, s2, i, j)
		}
	}
	return o.best
}

func (o *c09Oracle) bruteFrom(s1, s2 string, i, j int) {
	if len(o.b1) > 0 {
		sc, _ := o.scoreRows(o.b1, o.b2)
		o.best = max(o.best, sc)
		o.n++
	}
	l := len(o.b1)
	if i < len(s1) && j < len(s2) {
		o.b1, o.b2 = append(o.b1[:l], s1[i]), append(o.b2[:l], s2[j])
		o.bruteFrom(s1, s2, i+1, j+1)
	}
	if i < len(s1) {
		o.b1, o.b2 = append(o.b1[:l], s1[i]), append(o.b2[:l], '-')
		o.bruteFrom(s1, s2, i+1, j)
	}
	if j < len(s2) {
		o.b1, o.b2 = append(o.b1[:l], '-'), append(o.b2[:l], s2[j])
		o.bruteFrom(s1, s2, i, j+1)
	}
	o.b1, o.b2 = o.b1[:l], o.b2[:l]
}

// ---- the check

const c09Eps = 1e-9

func c09Near(a, b float64) bool { return a-b < c09Eps && b-a < c09Eps }

// c09BruteMax: both sequences at most this long => brute-force cross-check.
func c09BruteMax(c *mc.Ctx) int {
	if c.Thorough() {
		return 4
	}
	return 3
}

type c09Checker struct {
	c  *mc.Ctx
	cs c09Case
	o  *c09Oracle
}

// key identifies the case (pair and scheme) for the distinct-case count.
func (k *c09Checker) key() string {
	b := make([]byte, 0, 64)
	b = append(append(append(append(b, k.cs.S1...), '|'), k.cs.S2...), '|')
	b = append(append(b, k.cs.Mode...), '|')
	for _, f := range []float64{k.cs.Match, k.cs.Mismatch, k.cs.Open, k.cs.Extend} {
		b = append(strconv.AppendFloat(b, f, 'g', -1, 64), '|')
	}
	return string(b)
}

func (k *c09Checker) viol(clause, desc string) {
	k.c.Violation("C09/sw/"+clause, fmt.Sprintf("%s: case %s", desc, jsonStr(k.cs)), k.cs)
}

// c09Inputs: the one clause of the statement that also binds the aligner's other mode (ALIGN_ALGO_ATG,
// which works on reversed sequences) and its error path: whatever Alignment() returns, the two input
// sequences are left as they were.  Mode "atg-inputs"; residues may include '-' (rejected by the aligner).
func c09Inputs(c *mc.Ctx, cs c09Case) {
	c.Eval()
	sq1 := align.NewSequence("s1", []byte(cs.S1), "")
	sq2 := align.NewSequence("s2", []byte(cs.S2), "")
	var err error
	if pn, msg := mc.Guard(func() {
		a := align.NewPwAligner(sq1, sq2, align.ALIGN_ALGO_ATG)
		c09Configure(a, &cs, true)
		_, err = a.Alignment()
	}); pn {
		c.Violation("C09/atg/panic/"+mc.PanicSite(msg), msg+": case "+jsonStr(cs), cs)
		return
	}
	if sq1.Sequence() != cs.S1 || sq2.Sequence() != cs.S2 || sq1.Name() != "s1" || sq2.Name() != "s2" {
		clause := "inputs-modified"
		if err != nil {
			clause = "inputs-modified/after-error"
		}
		c.Violation("C09/atg/"+clause, fmt.Sprintf("inputs are now %q/%q (error: %v): case %s", sq1.Sequence(), sq2.Sequence(), err, jsonStr(cs)), cs)
		return
	}
	if err != nil {
		c.Outcome("atg-inputs:error")
	} else {
		c.Outcome("atg-inputs:ok")
	}
	c.Nontrivial("atg|" + cs.S1 + "|" + cs.S2)
}

func c09Check(c *mc.Ctx, o *c09Oracle, cs c09Case) {
	if cs.Mode == "atg-inputs" {
		c09Inputs(c, cs)
		return
	}
	c.Eval()
	k := &c09Checker{c: c, cs: cs, o: o}

	// scheme of the case
	o.open, o.extend = cs.Open, cs.Extend
	// lower-case residues: the statement does not say how case enters the
	// score, so only the scheme-independent clauses are checked on such a pair
	up1, up2 := strings.ToUpper(cs.S1), strings.ToUpper(cs.S2)
	lower := up1 != cs.S1 || up2 != cs.S2
	kind := c09Kind(up1, up2)
	if (kind == "" && cs.Mode != "mm") || cs.S1 == "" || cs.S2 == "" { // a match/mismatch scheme needs no table
		c.Fatal("case outside the enumerated domain: %s", jsonStr(cs))
		return
	}
	switch cs.Mode {
	case "mm":
		o.mm, o.match, o.mismatch, o.mat = true, cs.Match, cs.Mismatch, nil
	case "matrix":
		o.mm = false
		if kind == "nt" {
			o.mat = c09DNAfull
		} else {
			o.mat = c09Blosum62
		}
	default:
		c.Fatal("bad mode in %s", jsonStr(cs))
		return
	}

	// oracle optimum
	opt, optInside := c09NegInf, c09NegInf
	if !lower {
		opt, optInside = o.gotoh(cs.S1, cs.S2)
	}
	if !lower && len(cs.S1) <= c09BruteMax(c) && len(cs.S2) <= c09BruteMax(c) {
		bf := o.brute(cs.S1, cs.S2)
		c.Count("brute_force_cases", 1)
		c.Count("brute_force_alignments", o.n)
		if !c09Near(bf, opt) {
			c.Fatal("oracle disagreement: Gotoh %v, brute force %v on %s", opt, bf, jsonStr(cs))
			return
		}
	}

	// the real code
	sq1 := align.NewSequence("s1", []byte(cs.S1), "")
	sq2 := align.NewSequence("s2", []byte(cs.S2), "")
	var (
		err                    error
		al                     align.Alignment
		r1, r2                 []byte
		st1, st2, en1, en2     int
		score                  float64
		nmatch, nmis, ngap, ln int
	)
	if pn, msg := mc.Guard(func() {
		if cs.Procs > 0 {
			defer runtime.GOMAXPROCS(runtime.GOMAXPROCS(cs.Procs))
		}
		a := align.NewPwAligner(sq1, sq2, align.ALIGN_ALGO_SW)
		c09Configure(a, &cs, cs.Mode == "mm")
		al, err = a.Alignment()
		r1, r2 = a.Seq1Ali(), a.Seq2Ali()
		st1, st2 = a.AlignStarts()
		en1, en2 = a.AlignEnds()
		score = a.MaxScore()
		nmatch, nmis, ngap, ln = a.NbMatches(), a.NbMisMatches(), a.NbGaps(), a.Length()
	}); pn {
		k.viol("panic/"+mc.PanicSite(msg), msg)
		return
	}
	if err != nil {
		k.viol("unexpected-error", "Alignment() failed on valid sequences: "+err.Error())
		return
	}
	got := func() string {
		optimum := fmt.Sprint(opt)
		if lower {
			optimum = "not computed (lower-case residues)"
		}
		return fmt.Sprintf("rows %q/%q start %d,%d end %d,%d score %v matches %d mismatches %d gaps %d length %d; oracle optimum %s",
			r1, r2, st1, st2, en1, en2, score, nmatch, nmis, ngap, ln, optimum)
	}

	// inputs left unmodified
	if sq1.Sequence() != cs.S1 || sq2.Sequence() != cs.S2 || sq1.Name() != "s1" || sq2.Name() != "s2" {
		k.viol("inputs-modified", fmt.Sprintf("inputs are now %q/%q", sq1.Sequence(), sq2.Sequence()))
	}

	// (1) structure
	structural := true
	bad := func(clause, desc string) {
		structural = false
		k.viol(clause, desc+": "+got())
	}
	if len(r1) != len(r2) {
		bad("rows/unequal-length", "the two rows differ in length")
	} else {
		for i := range r1 {
			if r1[i] == '-' && r2[i] == '-' {
				bad("rows/all-gap-column", fmt.Sprintf("column %d holds two gaps", i))
				break
			}
		}
	}
	if al == nil || al.NbSequences() != 2 {
		bad("rows/returned-alignment", "Alignment() did not return two rows")
	} else {
		a1, _ := al.GetSequenceById(0)
		a2, _ := al.GetSequenceById(1)
		if a1 != string(r1) || a2 != string(r2) {
			bad("rows/returned-alignment", fmt.Sprintf("Alignment() rows %q/%q differ from Seq1Ali/Seq2Ali", a1, a2))
		}
	}
	for _, x := range []struct {
		which   string
		in      string
		row     []byte
		st, end int
	}{{"seq1", cs.S1, r1, st1, en1}, {"seq2", cs.S2, r2, st2, en2}} {
		// start = index of the first aligned residue, end = index of the last one (both 0-based, inclusive)
		if x.st < 0 || x.end >= len(x.in) || x.st > x.end+1 {
			bad("positions/out-of-range/"+x.which, fmt.Sprintf("start %d / end %d do not delimit a substring of %q", x.st, x.end, x.in))
		} else if ungap(string(x.row)) != x.in[x.st:x.end+1] {
			bad("rows/not-the-delimited-substring/"+x.which, fmt.Sprintf("row %q de-gapped is not %q[%d..%d]=%q", x.row, x.in, x.st, x.end, x.in[x.st:x.end+1]))
		}
	}
	if nmatch+nmis+ngap != ln {
		bad("counts/sum-vs-length", "matches + mismatches + gaps != Length()")
	}
	if len(r1) == len(r2) {
		if ln != len(r1) {
			bad("counts/length-vs-rows", fmt.Sprintf("Length() is not the row length %d", len(r1)))
		}
		wm, wx, wg, undetermined := 0, 0, 0, lower
		for i := range r1 {
			switch {
			case r1[i] == '-' || r2[i] == '-':
				wg++
			case r1[i] == r2[i]:
				wm++
				undetermined = undetermined || k.o.sub(r1[i], r2[i]) <= 0
			default:
				wx++
				undetermined = undetermined || k.o.sub(r1[i], r2[i]) > 0
			}
		}
		if ngap != wg {
			bad("counts/gaps", fmt.Sprintf("rows hold %d gap columns", wg))
		}
		if lower {
			c.Skip("match/mismatch counts and score clauses on a pair holding lower-case residues: the statement does not say how case enters the score")
		} else if undetermined {
			c.Skip("match/mismatch counts when identical residues score <= 0 or different residues score > 0 in the built-in matrix: 'match' is not defined by the statement")
		} else if nmatch != wm || nmis != wx {
			bad("counts/matches-mismatches", fmt.Sprintf("rows hold %d identical and %d different residue pairs", wm, wx))
		}
	}

	// (2), (3) score clauses: only when some local alignment has a positive score
	// penalties that are no multiples of 1/4 make sums round in float64: own signature class
	inexact := ""
	for _, f := range []float64{cs.Match, cs.Mismatch, cs.Open, cs.Extend} {
		if f*4 != float64(int(f*4)) {
			inexact = "/non-binary-fraction-penalties"
		}
	}
	class := "no-positive-alignment"
	if lower {
		class = "lower-case"
	}
	if opt > c09Eps {
		c.Nontrivial(k.key())
		class = "positive"
		if structural {
			touches := ""
			if st1 == 0 || st2 == 0 {
				touches = "/alignment-starts-at-first-residue"
			}
			touches += inexact
			if ret, ok := o.scoreRows(r1, r2); ok && !c09Near(ret, score) {
				rel := "returned-scores-less-than-reported"
				if ret > score {
					rel = "returned-scores-more-than-reported"
				}
				switch {
				case score < opt-c09Eps:
					rel += "/reported-below-optimum"
				case score > opt+c09Eps:
					rel += "/reported-above-optimum"
				default:
					rel += "/reported-optimal"
				}
				k.viol("score-consistency/"+rel+touches, fmt.Sprintf("returned alignment scores %v under the scheme: %s", ret, got()))
			}
			if strings.IndexByte(string(r1), '-') >= 0 || strings.IndexByte(string(r2), '-') >= 0 {
				class += "/gapped"
			} else {
				class += "/ungapped"
			}
			if st1 == 0 || st2 == 0 {
				class += "/from-first-residue"
			}
			if en1 == len(cs.S1)-1 || en2 == len(cs.S2)-1 {
				class += "/to-last-residue"
			}
		}
		if score < opt-c09Eps {
			// where the missed optimum lies: only alignments ending on the first
			// residue of a sequence reach it, or some ending further inside do
			detail := "/optimum-ends-inside"
			if optInside < opt-c09Eps {
				detail = "/optimum-ends-at-a-first-residue"
			}
			if score <= 0 {
				detail += "/nothing-found"
			}
			k.viol("optimality/reported-below-optimum"+detail+inexact, "a local alignment scores higher than reported: "+got())
		} else if score > opt+c09Eps {
			k.viol("optimality/reported-above-optimum"+inexact, "no local alignment reaches the reported score: "+got())
		}
	}
	// a result stays what it was when another aligner works afterwards (same goroutine, the two sequences
	// swapped: same sizes, so that recycled work space is fully reused)
	if al != nil && al.NbSequences() == 2 {
		before1, before2 := string(r1), string(r2)
		b1, _ := al.GetSequenceById(0)
		b2, _ := al.GetSequenceById(1)
		if pn, msg := mc.Guard(func() {
			a2 := align.NewPwAligner(align.NewSequence("t1", []byte(cs.S2), ""), align.NewSequence("t2", []byte(cs.S1), ""), align.ALIGN_ALGO_SW)
			c09Configure(a2, &cs, cs.Mode == "mm")
			a2.Alignment()
		}); pn {
			k.viol("panic/"+mc.PanicSite(msg), "second aligner (sequences swapped): "+msg)
			return
		}
		n1, _ := al.GetSequenceById(0)
		n2, _ := al.GetSequenceById(1)
		if string(r1) != before1 || string(r2) != before2 || n1 != b1 || n2 != b2 {
			k.viol("earlier-result-changed-by-later-alignment", fmt.Sprintf("rows were %q/%q; after another aligner aligned the swapped pair they read %q/%q (returned alignment %q/%q)", before1, before2, r1, r2, n1, n2))
		}
	}
	// an aligner asked twice (a caller that changes the scheme and aligns again): after the second call the
	// counts still add up to the length it reports
	if al != nil {
		var m2, x2, g2, l2 int
		if pn, msg := mc.Guard(func() {
			a3 := align.NewPwAligner(align.NewSequence("u1", []byte(cs.S1), ""), align.NewSequence("u2", []byte(cs.S2), ""), align.ALIGN_ALGO_SW)
			c09Configure(a3, &cs, cs.Mode == "mm")
			if _, e := a3.Alignment(); e != nil {
				return
			}
			if _, e := a3.Alignment(); e != nil {
				return
			}
			m2, x2, g2, l2 = a3.NbMatches(), a3.NbMisMatches(), a3.NbGaps(), a3.Length()
		}); pn {
			k.viol("panic/"+mc.PanicSite(msg), "Alignment() called twice on one aligner: "+msg)
			return
		}
		if m2+x2+g2 != l2 {
			k.viol("counts-after-second-call", fmt.Sprintf("after Alignment() was called twice on one aligner: %d matches + %d mismatches + %d gaps != length %d", m2, x2, g2, l2))
		}
	}
	kindTag := cs.Mode
	if cs.Mode == "matrix" {
		kindTag += "-" + kind
	}
	c.Outcome(kindTag + ":" + class)
	if class == "positive/gapped" && len(cs.S1) >= 4 {
		c.Sample(map[string]any{"case": cs, "rows": []string{string(r1), string(r2)}, "score": score})
	}
}

// ---- tasks

// c09Group partitions the strings of length 1..maxL over alpha by their first
// min(len, p) letters and returns the groups in shortest-first order.
func c09Group(alpha string, maxL, p int) (keys []string, groups map[string][]string) {
	groups = map[string][]string{}
	forEachString(alpha, 1, maxL, func(s []byte) bool {
		key := string(s[:min(len(s), p)])
		if _, ok := groups[key]; !ok {
			keys = append(keys, key)
		}
		groups[key] = append(groups[key], string(s))
		return true
	})
	return
}

// c09PairTasks: every ordered pair (s1, s2) accepted by keep, s1 and s2 of
// length 1..maxL over alpha, under every scheme; one task per group of s1.
func c09PairTasks(ts []mc.Task, class, alpha string, maxL int, keep func(s1, s2 string) bool, run func(c *mc.Ctx, o *c09Oracle, s1, s2 string)) []mc.Task {
	keys, groups := c09Group(alpha, maxL, maxL-1)
	for _, key := range keys {
		firsts := groups[key]
		ts = append(ts, mc.Task{Name: class + "#" + key, Run: func(c *mc.Ctx) {
			o := &c09Oracle{}
			for _, s1 := range firsts {
				forEachString(alpha, 1, maxL, func(s2 []byte) bool {
					if keep == nil || keep(s1, string(s2)) {
						run(c, o, s1, string(s2))
					}
					return !c.Expired()
				})
			}
		}})
	}
	return ts
}

func c09Tasks(tier string) []mc.Task {
	thorough := tier == "thorough"
	var ts []mc.Task

	mm := func(c *mc.Ctx, o *c09Oracle, s1, s2 string) {
		for _, sc := range c09MMSchemes {
			c09Check(c, o, c09Case{S1: s1, S2: s2, Mode: "mm", Match: sc.match, Mismatch: sc.mismatch, Open: sc.open, Extend: sc.extend})
		}
	}
	decimal := func(c *mc.Ctx, o *c09Oracle, s1, s2 string) {
		for _, sc := range c09DecimalSchemes {
			c09Check(c, o, c09Case{S1: s1, S2: s2, Mode: "mm", Match: sc.match, Mismatch: sc.mismatch, Open: sc.open, Extend: sc.extend})
		}
	}
	matrix := func(c *mc.Ctx, o *c09Oracle, s1, s2 string) {
		for _, g := range c09MatrixGaps {
			c09Check(c, o, c09Case{S1: s1, S2: s2, Mode: "matrix", Open: g.open, Extend: g.extend})
		}
	}

	// (i) every entry of the two built-in matrices: x/y alone and flanked by a
	// strongly matching residue on both sides, default gap penalties
	for _, t := range []struct {
		name  string
		mat   *c09Matrix
		flank string
	}{{"dnafull", c09DNAfull, "A"}, {"blosum62", c09Blosum62, "F"}} {
		t := t
		ts = append(ts, mc.Task{Name: "table#" + t.name, Run: func(c *mc.Ctx) {
			o := &c09Oracle{}
			for i := 0; i < len(t.mat.letters); i++ {
				for j := 0; j < len(t.mat.letters); j++ {
					x, y := t.mat.letters[i:i+1], t.mat.letters[j:j+1]
					switch {
					case t.name == "dnafull" || c09Kind(x, y) == "aa":
						c09Check(c, o, c09Case{S1: x, S2: y, Mode: "matrix", Open: -10, Extend: -0.5})
					case c09Kind(x, y) == "":
						c.Skip("matrix for a pair of single residues none of which is a protein-only letter but one of which is X or *: not determined by the documentation")
					}
					c09Check(c, o, c09Case{S1: t.flank + x + t.flank, S2: t.flank + y + t.flank, Mode: "matrix", Open: -10, Extend: -0.5})
				}
			}
		}})
	}

	// (ii) match/mismatch schemes on a 3-letter alphabet
	mmMax := 5
	if thorough {
		mmMax = 6
	}
	// the 66 schemes and the 8 schemes with penalties that are not binary fractions
	both := func(c *mc.Ctx, o *c09Oracle, s1, s2 string) { mm(c, o, s1, s2); decimal(c, o, s1, s2) }
	ts = c09PairTasks(ts, "mm", c09AlphaMM, mmMax, nil, both)
	// the 66 schemes through the protein alphabet
	ts = c09PairTasks(ts, "mmprot", c09AlphaMMProt, 3, func(s1, s2 string) bool { return c09Kind(s1, s2) == "aa" }, mm)

	// symbols that share an entry of the substitution tables without being the same residue (N and X), next to A
	ts = c09PairTasks(ts, "mmnx", "ANX", 3, nil, mm)

	// the same with lower-case residues (scheme-independent clauses only)
	ts = c09PairTasks(ts, "mmlower", c09AlphaLower, 3, func(s1, s2 string) bool { return strings.ContainsAny(s1+s2, "ag") }, mm)

	// (iii) longer pairs on a 2-letter alphabet (those with both sequences <= mmMax are in (ii))
	binMax := 7
	if thorough {
		binMax = 8
	}
	ts = c09PairTasks(ts, "mmbin", c09AlphaBin, binMax, func(s1, s2 string) bool { return len(s1) > mmMax || len(s2) > mmMax }, both)

	// (iii') penalties beyond the defaults (open -10, extend -0.5) with scores large enough for gap runs of
	// two and more to be optimal on short sequences, configured in the three setter orders; and the 8
	// non-binary schemes in the other two orders
	steep := func(c *mc.Ctx, o *c09Oracle, s1, s2 string) {
		for _, sc := range []c09Scheme{{30, -30, c09Gap{-12, -11}}, {20, -20, c09Gap{-25, -15}}, {30, -10, c09Gap{-11, -10.5}}} {
			for order := 0; order < 3; order++ {
				c09Check(c, o, c09Case{S1: s1, S2: s2, Mode: "mm", Match: sc.match, Mismatch: sc.mismatch, Open: sc.open, Extend: sc.extend, Order: order})
			}
		}
		for _, sc := range c09DecimalSchemes {
			for order := 1; order < 3; order++ {
				c09Check(c, o, c09Case{S1: s1, S2: s2, Mode: "mm", Match: sc.match, Mismatch: sc.mismatch, Open: sc.open, Extend: sc.extend, Order: order})
			}
		}
	}
	ts = c09PairTasks(ts, "mmsteep", c09AlphaBin, 6, nil, steep)

	// (iii'') longer sequences (a banded, blocked or vectorised fast path would only show there): for every pair of
	// lengths (n, m) with n in 7..40 step 3 and m in {n-3, n, n+5}, a sequence of period 5 against a copy with a
	// substitution every 7th and a deletion at one third, under 3 match/mismatch schemes and the matrix mode;
	// judged by the same oracle (Gotoh dynamic program; no brute force at these lengths)
	// (iii-3) gap runs beyond a byte's range and sequences longer than a block of a column-wise parallel fill:
	// two flanks of 80 around an insert of n residues against the flanks alone (n around 256 and 512), and a
	// sequence of 571 against itself with 30 residues inserted around multiples of 128; both orientations,
	// GOMAXPROCS 1, 2, 3, 4, 8; judged by the Gotoh oracle
	ts = append(ts, mc.Task{Name: "long-gaps", Run: func(c *mc.Ctx) {
		o := &c09Oracle{}
		x := uint32(12345)
		dna := func(n int) string {
			b := make([]byte, n)
			for i := range b {
				x = x*1664525 + 1013904223
				b[i] = "ACGT"[(x>>24)&3]
			}
			return string(b)
		}
		run := func(s1, s2 string, procs int) {
			for _, pr := range [][2]string{{s1, s2}, {s2, s1}} {
				c09Check(c, o, c09Case{S1: pr[0], S2: pr[1], Mode: "matrix", Open: -10, Extend: -0.5, Procs: procs})
				c09Check(c, o, c09Case{S1: pr[0], S2: pr[1], Mode: "mm", Match: 5, Mismatch: -4, Open: -4, Extend: -0.25, Procs: procs})
			}
		}
		a, b := dna(80), dna(80)
		for _, n := range []int{100, 250, 255, 256, 257, 258, 300, 330, 511, 513, 520} {
			run(a+dna(n)+b, a+b, 0)
			if c.Expired() {
				return
			}
		}
		base := dna(571)
		for _, procs := range []int{1, 2, 3, 4, 8} {
			for _, at := range []int{100, 120, 128, 250, 256, 300, 384, 500} {
				run(base[:at]+dna(30)+base[at:], base, procs)
			}
			if c.Expired() {
				return
			}
		}
	}})
	ts = append(ts, mc.Task{Name: "long-pairs", Run: func(c *mc.Ctx) {
		o := &c09Oracle{}
		for n := 7; n <= 40; n += 3 {
			for _, m := range []int{n - 3, n, n + 5} {
				a := make([]byte, n)
				for i := range a {
					a[i] = "ACGTA"[(i*3+i/5)%5]
				}
				var b []byte
				for i := 0; len(b) < m; i++ {
					x := a[i%n]
					if i%7 == 3 {
						x = "TGCA"[(i/7)%4]
					}
					if i == n/3 || i == n/3+1 {
						continue
					}
					b = append(b, x)
				}
				s1, s2 := string(a), string(b)
				for _, sc := range []c09Scheme{{1, -1, c09Gap{-10, -0.5}}, {2, -3, c09Gap{-5, -1}}, {5, -4, c09Gap{-4, -0.25}}} {
					c09Check(c, o, c09Case{S1: s1, S2: s2, Mode: "mm", Match: sc.match, Mismatch: sc.mismatch, Open: sc.open, Extend: sc.extend})
					c09Check(c, o, c09Case{S1: s2, S2: s1, Mode: "mm", Match: sc.match, Mismatch: sc.mismatch, Open: sc.open, Extend: sc.extend})
				}
				c09Check(c, o, c09Case{S1: s1, S2: s2, Mode: "matrix", Open: -10, Extend: -0.5})
				c09Check(c, o, c09Case{S1: s1, S2: s2, Mode: "matrix", Open: -4, Extend: -1})
			}
			if c.Expired() {
				return
			}
		}
	}})

	// (iv) DNAfull
	dnaMax := 3
	if thorough {
		dnaMax = 4
	}
	ts = c09PairTasks(ts, "dnafull", c09AlphaDNA, dnaMax, nil, matrix)

	// (v) BLOSUM62 (pairs over {W,A,Y} only are nucleotide pairs and are scored with DNAfull)
	protMax := 4
	if thorough {
		protMax = 5
	}
	// thorough leaves out the 5x5 corner (64% of the pairs) to stay inside the time limit
	ts = c09PairTasks(ts, "blosum62", c09AlphaProt, protMax, func(s1, s2 string) bool { return len(s1)+len(s2) <= 9 }, matrix)

	// (vi) inputs unmodified in the aligner's reversed mode and on its error path: all ordered pairs of
	// length 1..3 over {A,C,G,-} (a '-' makes the alignment fail half-way)
	for i := 0; i < 4; i++ {
		first := "ACG-"[i]
		ts = append(ts, mc.Task{Name: fmt.Sprintf("atg-inputs#%c", first), Run: func(c *mc.Ctx) {
			forEachString("ACG-", 1, 3, func(a []byte) bool {
				if a[0] != first {
					return true
				}
				s1 := string(a)
				forEachString("ACG-", 1, 3, func(b []byte) bool {
					c09Check(c, nil, c09Case{S1: s1, S2: string(b), Mode: "atg-inputs", Match: 1, Mismatch: -1, Open: -2, Extend: -1})
					return true
				})
				return !c.Expired()
			})
		}})
	}
	return ts
}

func init() {
	mc.Register(&mc.Prop{
		ID:    "C09",
		Level: "exploration",
		Rule: "(Match/mismatch schemes also on all pairs of length <= 3 over {A,N,X}. Longer sequences: for lengths n = 7, 10, .., 40 and m = n-3, n, n+5 a periodic sequence against a copy with substitutions and a deletion, 3 match/mismatch schemes in both orders and the matrix mode with 2 gap settings, judged by the Gotoh oracle. On every case: after the judged alignment another aligner aligns the swapped pair; the rows and the returned alignment of the first must read as before.) (Free-running complement under the race detector: 8 goroutines doing this property's operations on objects of their own must get the values the same work gives alone.) Command line: goalign sw on 8 pairs (nucleotide, protein, mixed case) with every subset of --match, --mismatch, --gap-open, --gap-extend given (4 value sets): the alignment written and the log (coordinates, length, score, counts) must be those of the library aligner configured the same way (substitution matrix unless --match or --mismatch is given). " + "bounded-exhaustive enumeration of align.NewPwAligner(s1,s2,ALIGN_ALGO_SW) with SetGapOpenScore/SetGapExtendScore always set (and SetScore in match/mismatch mode), then Alignment(); all pairs of length 1..6 over {A,C} also under 3 schemes with penalties beyond the defaults (30/-30/-12/-11, 20/-20/-25/-15, 30/-10/-11/-10.5) and the 8 non-binary schemes configured in the three setter orders (open-extend-scores, extend-open-scores, scores-extend-open); " +
			"on every case: rows (Seq1Ali/Seq2Ali and the returned Alignment) of equal length, no all-gap column, de-gapped rows = s[start..end] (0-based inclusive; an empty alignment has end = start-1), " +
			"matches+mismatches+gaps = Length() = row length, gap count = gap columns, match/mismatch counts = identical/different residue pairs, inputs unchanged, no error, no panic; " +
			"when the oracle optimum is > 0: MaxScore() = score of the returned rows (gap of length k costs open+(k-1)*extend) and MaxScore() = optimum of an independent three-state Gotoh local dynamic program, " +
			"which is itself cross-checked on every pair with both lengths <= 3 (quick) / <= 4 (thorough) against explicit enumeration of all local alignments. Cases: " +
			"(i) every ordered letter pair x,y of DNAfull (16x16) and BLOSUM62 (24x24) as x/y and as AxA/AyA resp. FxF/FyF, gaps -10/-0.5; " +
			"(ii) all ordered pairs of sequences of length 1..5 (quick) / 1..6 (thorough) over {A,C,G}, and of length 1..3 over {L,A,W} holding an L, and of length 1..3 over {a,C,g} holding a lower-case letter (on these only the clauses that do not depend on the score), under the 66 schemes match {1,2,3} x mismatch {-1,-2} x open {-1,-2,-3,-10} x extend {-0.5,-1,-2} with open <= extend; the pairs over {A,C,G} also under the 8 schemes match {1,3} x mismatch -1 x (open,extend) in {(-1,-0.1),(-0.3,-0.1),(-1.1,-0.3),(-0.7,-0.7)} (not binary fractions; all score comparisons have tolerance 1e-9); " +
			"(iii) all ordered pairs of length 1..7 (quick) / 1..8 (thorough) over {A,C} with at least one sequence longer than in (ii), same 66 + 8 schemes; " +
			"(iv) DNAfull: all ordered pairs of length 1..3 (quick) / 1..4 (thorough) over {A,T,G,C,N,W} x the 8 gap settings (open,extend) in {-10,-4,-1} x {-0.5,-1}, (-4,-0.25) and (-4,-0.1); " +
			"(v) BLOSUM62 (DNAfull for the pairs over {W,A,Y} only, which are nucleotide pairs): all ordered pairs of length 1..4 (quick) / of length 1..5 with total length <= 9 (thorough) over {W,L,F,A,Y} x the same 8 gap settings. " +
			"A case is non-trivial when some local alignment scores > 0 (the score clauses apply); distinct = distinct (pair, scheme).",
		Assumptions: []string{
			"affine convention of the code's documentation source (EMBOSS water): a gap of k symbols costs open + (k-1)*extend; consecutive gaps in different rows are two gaps",
			"start/end are 0-based indices of the first and last aligned residue (cmd/sw.go prints them as 'Start,End'; aligner.go: 'Indices of alignment end')",
			"a pair in which every residue is an IUPAC nucleotide code is scored with DNAfull (goalign reads ambiguous input as nucleotides), a pair of amino-acid codes holding at least one non-nucleotide letter with BLOSUM62; mixed pairs are not enumerated",
			"score clauses and match/mismatch counts only on upper-case residues; for ALIGN_ALGO_ATG (the reversed mode used by Phase, otherwise C16's) only 'inputs unmodified, also when Alignment() fails' is checked, on all pairs of length 1..3 over {A,C,G,-}",
			"match/mismatch counts are compared only when every identical pair scores > 0 and every different pair <= 0 under the scheme",
			"Alignment() is called once per aligner",
		},
		// free-running complement: goroutines that each own their objects must get what they get alone (harness/racepass)
		Post:  func(m *mc.Master) { m.RacePass("own-sw") },
		Tasks: func(tier string) []mc.Task { return append(c09Tasks(tier), c09CLITasks()...) },
		Replay: func(c *mc.Ctx, payload json.RawMessage) {
			if c09CLIReplay(c, payload) {
				return
			}
			var cs c09Case
			if err := json.Unmarshal(payload, &cs); err != nil {
				c.Fatal("bad payload: %v", err)
				return
			}
			c09Check(c, &c09Oracle{}, cs)
		},
		Vacuity: func(tier string, t *mc.Totals) error {
			if t.Evaluations < 15000000 || t.Nontrivial < 10000000 || len(t.OutcomeSet) < 12 || t.Extra["brute_force_cases"] < 500000 {
				return fmt.Errorf("only %d evaluations / %d non-trivial / %d outcome classes / %d brute-force cases",
					t.Evaluations, t.Nontrivial, len(t.OutcomeSet), t.Extra["brute_force_cases"])
			}
			for _, want := range []string{"mm:positive/gapped", "matrix-nt:positive/gapped", "matrix-aa:positive/gapped", "mm:no-positive-alignment", "mm:lower-case"} {
				found := false
				for o := range t.OutcomeSet {
					found = found || strings.HasPrefix(o, want)
				}
				if !found {
					return fmt.Errorf("no case of outcome class %s", want)
				}
			}
			return nil
		},
	})
}
