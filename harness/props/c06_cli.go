package props

import (
	"encoding/json"
	"fmt"
	"strings"

	"verif/harness/mc"

	"github.com/evolbioinfo/goalign/align"
	"github.com/evolbioinfo/goalign/io/fasta"
)

// Command-line layer of C06 (cmd/revcomp.go, toupper.go, tolower.go, unalign.go): goalign revcomp [names…],
// toupper, tolower, unalign, each on an alignment and - where the command has it - with --unaligned on a set of
// sequences of different lengths, write what ReverseComplement / ReverseComplementSequences / ToUpper / ToLower /
// Unalign give.

type c06CLICase struct {
	CLI       bool     `json:"cli_c06"`
	Cmd       string   `json:"cmd"` // revcomp | toupper | tolower | unalign
	Names     []string `json:"names,omitempty"`
	Seqs      []string `json:"seqs"`
	Unaligned bool     `json:"unaligned,omitempty"`
}

func c06CheckCLI(c *mc.Ctx, box *cliBox, cs c06CLICase) {
	c.Eval()
	viol := func(clause, desc string) {
		c.Violation("C06/cli-"+cs.Cmd+"/"+clause, fmt.Sprintf("%s: case %s", desc, jsonStr(cs)), cs)
	}
	var sb align.SeqBag
	var err error
	if cs.Unaligned {
		sb, err = mkSeqBag(align.NUCLEOTIDS, namedRows(cs.Seqs...))
	} else {
		sb, err = mkAlign(align.NUCLEOTIDS, namedRows(cs.Seqs...))
	}
	if err != nil {
		c.Fatal("cannot build %s: %v", jsonStr(cs), err)
		return
	}
	var lerr error
	out := sb
	if pn, _ := mc.Guard(func() {
		switch cs.Cmd {
		case "revcomp":
			if len(cs.Names) > 0 {
				lerr = sb.ReverseComplementSequences(cs.Names...)
			} else {
				lerr = sb.ReverseComplement()
			}
		case "toupper":
			sb.ToUpper()
		case "tolower":
			sb.ToLower()
		case "unalign":
			out = sb.Unalign()
		}
	}); pn {
		return
	}
	// every command writes its sequences as they are, 80 residues to a line (gaps of an unaligned set are residues)
	want := fasta.WriteAlignment(out)
	box.drop("out.fa")
	if !box.put(c, "in.fa", cliFasta(rowNames, cs.Seqs)) {
		return
	}
	args := []string{cs.Cmd, "-i", "@in.fa", "--alphabet", "nt", "-o", box.path("out.fa")}
	if cs.Unaligned {
		args = append(args, "--unaligned")
	}
	args = append(args, cs.Names...)
	c.Mark(cs)
	cerr, pn, msg, herr := box.run(c, args...)
	if herr {
		return
	}
	if pn {
		viol("panic/"+mc.PanicSite(msg), msg)
		return
	}
	if (lerr != nil) != (cerr != nil) {
		viol("error-differs-from-library", fmt.Sprintf("library error %v, command error %v (goalign %s)", lerr, cerr, strings.Join(args, " ")))
		return
	}
	if lerr != nil {
		c.Outcome("cli-" + cs.Cmd + ":refused")
		return
	}
	outName := "out.fa"
	if cs.Cmd == "unalign" {
		outName = "out.fa_000001.fa" // -o is a prefix: <prefix>_<index>.fa
	}
	got, _ := box.get(outName)
	box.drop(outName)
	c.Nontrivial(jsonStr(cs))
	if got != want {
		viol("output-differs-from-library", fmt.Sprintf("goalign %s writes %q; the library call gives %q", strings.Join(args, " "), got, want))
		return
	}
	c.Outcome("cli-" + cs.Cmd + ":same")
}

func c06CLITasks() []mc.Task {
	return []mc.Task{{Name: "cli-c06#all", Run: func(c *mc.Ctx) {
		box := newCLIBox(c, "c06-cli-")
		if box == nil {
			return
		}
		defer box.close()
		aligned := [][]string{{"ACgt-RYn", "TTGCA-ac", "GgCcAaNN"}, {"acgu", "ACGT"}, {"A-C.G*", "a-c.g*"}}
		ragged := [][]string{{"ACgt-RY", "TTg", "GgCcAaNNkm"}, {"a", "ACGT-"}}
		// names with a blank or a tab around them are names no row has: the rows they resemble stay as they are
		nameSets := [][]string{nil, {"a"}, {"b", "a"}, {c06Unknown, "b"}, {"b", c06Unknown, "a"}, {c06Unknown}, {" b"}, {"b\t", "a"}, {"b "}, {"B"}}
		for _, seqs := range aligned {
			for _, cmd := range []string{"toupper", "tolower", "unalign"} {
				c06CheckCLI(c, box, c06CLICase{CLI: true, Cmd: cmd, Seqs: seqs})
			}
			for _, names := range nameSets {
				c06CheckCLI(c, box, c06CLICase{CLI: true, Cmd: "revcomp", Names: names, Seqs: seqs})
			}
		}
		for _, seqs := range append(ragged, aligned...) {
			for _, cmd := range []string{"toupper", "tolower"} {
				c06CheckCLI(c, box, c06CLICase{CLI: true, Cmd: cmd, Seqs: seqs, Unaligned: true})
			}
			for _, names := range nameSets {
				c06CheckCLI(c, box, c06CLICase{CLI: true, Cmd: "revcomp", Names: names, Seqs: seqs, Unaligned: true})
			}
		}
	}}}
}

func c06CLIReplay(c *mc.Ctx, payload []byte) bool {
	var cs c06CLICase
	if err := json.Unmarshal(payload, &cs); err != nil || !cs.CLI {
		return false
	}
	box := newCLIBox(c, "c06-cli-")
	if box == nil {
		return true
	}
	defer box.close()
	c06CheckCLI(c, box, cs)
	return true
}
