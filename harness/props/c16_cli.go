package props

import (
	"encoding/json"
	"fmt"
	"strconv"
	"strings"

	"verif/harness/mc"

	"github.com/evolbioinfo/goalign/align"
	"github.com/evolbioinfo/goalign/io/fasta"
)

// Command-line layer of C16 (cmd/phase.go, cmd/phasent.go, cmd/orf.go): with one thread the commands write
// the phased nucleotide / amino-acid / codon sequences of a Phaser configured from their flags, in input
// order; goalign orf writes the longest ORF.  Output files must be those of the library configured the same
// way (documented defaults where a flag is not given); the library results are judged by the oracle of c16.go.

type c16CLICase struct {
	CLI     bool     `json:"cli_phase"`
	Cmd     string   `json:"cmd"` // phase | phasent | orf
	Seqs    []string `json:"seqs"`
	Orf     string   `json:"orf,omitempty"`
	Reverse bool     `json:"reverse,omitempty"`
	CutEnd  bool     `json:"cutend,omitempty"`
	Code    string   `json:"code,omitempty"`  // standard | mitov | mitoi
	Flags   []string `json:"flags,omitempty"` // among len-cutoff, match-cutoff, match, mismatch, gap-open, gap-extend
	LenCut  float64  `json:"lencut,omitempty"`
	MatCut  float64  `json:"matchcut,omitempty"`
	Match   float64  `json:"match,omitempty"`
	Mism    float64  `json:"mismatch,omitempty"`
	Open    float64  `json:"open,omitempty"`
	Extend  float64  `json:"extend,omitempty"`
}

func c16CheckCLI(c *mc.Ctx, box *cliBox, cs c16CLICase) {
	c.Eval()
	viol := func(clause, desc string) {
		c.Violation("C16/cli-"+cs.Cmd+"/"+clause, fmt.Sprintf("%s: case %s", desc, jsonStr(cs)), cs)
	}
	given := map[string]bool{}
	for _, f := range cs.Flags {
		given[f] = true
	}
	f64 := func(x float64) string { return strconv.FormatFloat(x, 'g', -1, 64) }
	var fa strings.Builder
	for i, s := range cs.Seqs {
		fmt.Fprintf(&fa, ">%s\n%s\n", rowNames[i], s)
	}
	if !box.put(c, "in.fa", fa.String()) {
		return
	}
	read := func() align.SeqBag {
		sb := align.NewSeqBag(align.UNKNOWN)
		for i, s := range cs.Seqs {
			sb.AddSequence(rowNames[i], s, "")
		}
		sb.AutoAlphabet()
		return sb
	}
	box.drop("out.fa", "aa.fa", "nt.fa")
	if cs.Cmd == "orf" {
		args := []string{"orf", "-i", "@in.fa", "-o", box.path("out.fa")}
		if cs.Reverse {
			args = append(args, "--reverse")
		}
		var want string
		var lerr error
		if pn, _ := mc.Guard(func() {
			var o align.Sequence
			if o, lerr = read().LongestORF(cs.Reverse); lerr != nil {
				return
			}
			want = o.Sequence()
		}); pn {
			return
		}
		c.Mark(cs)
		cerr, pn, msg, herr := box.run(c, args...)
		if herr {
			return
		}
		if pn {
			viol("panic/"+mc.PanicSite(msg), msg)
			return
		}
		if (lerr != nil) != (cerr != nil) {
			viol("error-differs-from-library", fmt.Sprintf("library error %v, command error %v", lerr, cerr))
			return
		}
		if lerr == nil {
			got, _ := box.get("out.fa")
			rs, ok := c04ParseFasta(got)
			if !ok || len(rs) != 1 || rs[0].Seq != want {
				viol("output-differs-from-library", fmt.Sprintf("goalign %s writes %q; LongestORF gives %q", strings.Join(args[1:], " "), got, want))
				return
			}
		}
		c.Nontrivial(jsonStr(cs))
		c.Outcome("cli-orf:same")
		return
	}
	// phase / phasent
	code := map[string]int{"": align.GENETIC_CODE_STANDARD, "standard": align.GENETIC_CODE_STANDARD, "mitov": align.GENETIC_CODE_VETEBRATE_MITO, "mitoi": align.GENETIC_CODE_INVETEBRATE_MITO}[cs.Code]
	lencut, matcut, open, ext := -1.0, 0.5, -10.0, -0.5 // documented defaults
	if cs.Cmd == "phasent" {
		open = -12.0
	}
	args := []string{cs.Cmd, "--unaligned", "-t", "1", "-i", "@in.fa", "-o", box.path("out.fa"), "--aa-output", box.path("aa.fa")}
	if cs.Cmd == "phasent" {
		args = append(args, "--nt-output", box.path("nt.fa"))
	}
	if cs.Reverse {
		args = append(args, "--reverse")
	}
	if cs.CutEnd {
		args = append(args, "--cut-end")
	}
	if cs.Code != "" {
		args = append(args, "--genetic-code", cs.Code)
	}
	if cs.Orf != "" {
		if !box.put(c, "orf.fa", ">orf\n"+cs.Orf+"\n") {
			return
		}
		args = append(args, "--ref-orf", box.path("orf.fa"))
	}
	if given["len-cutoff"] {
		lencut = cs.LenCut
		args = append(args, "--len-cutoff="+f64(lencut))
	}
	if given["match-cutoff"] {
		matcut = cs.MatCut
		args = append(args, "--match-cutoff="+f64(matcut))
	}
	if given["gap-open"] {
		open = cs.Open
		args = append(args, "--gap-open="+f64(open))
	} else {
		// the default gap-open score is always given explicitly: phase, phasent and sw bind one variable with
		// different documented defaults (-10, -12, -10), the last registration wins, and in a fresh process
		// goalign phasent runs with -10 where its help says -12 (observed on the unchanged tree; the
		// statement of C16 says nothing about scoring defaults, so neither value is demanded)
		args = append(args, "--gap-open="+f64(open))
	}
	if given["gap-extend"] {
		ext = cs.Extend
		args = append(args, "--gap-extend="+f64(ext))
	}
	match, mism := 1.0, -1.0
	if given["match"] {
		match = cs.Match
		args = append(args, "--match="+f64(match))
	}
	if given["mismatch"] {
		mism = cs.Mism
		args = append(args, "--mismatch="+f64(mism))
	}
	var wantNt, wantAa, wantCodon string
	var lerr error
	if pn, _ := mc.Guard(func() {
		in := read()
		var ref align.SeqBag
		if cs.Orf != "" {
			r := align.NewSeqBag(align.UNKNOWN)
			r.AddSequence("orf", cs.Orf, "")
			r.AutoAlphabet()
			ref = r
		} else {
			var o align.Sequence
			if o, lerr = in.LongestORF(cs.Reverse); lerr != nil {
				return
			}
			o.SetName(o.Name() + "_LongestORF")
			r := align.NewSeqBag(align.UNKNOWN)
			r.AddSequenceChar(o.Name(), o.SequenceChar(), o.Comment())
			r.AutoAlphabet()
			ref = r
		}
		p := align.NewPhaser()
		p.SetLenCutoff(lencut)
		p.SetMatchCutoff(matcut)
		p.SetReverse(cs.Reverse)
		p.SetCutEnd(cs.CutEnd)
		p.SetCpus(1)
		if lerr = p.SetTranslate(cs.Cmd == "phase", code); lerr != nil {
			return
		}
		p.SetGapOpen(open)
		p.SetGapExtend(ext)
		if given["match"] || given["mismatch"] {
			p.SetAlignScores(match, mism)
		}
		var ch chan align.PhasedSequence
		if ch, lerr = p.Phase(ref, in); lerr != nil {
			return
		}
		nt, aa, cod := align.NewSeqBag(align.UNKNOWN), align.NewSeqBag(align.UNKNOWN), align.NewSeqBag(align.UNKNOWN)
		for ph := range ch {
			if ph.Err != nil {
				if lerr == nil {
					lerr = ph.Err
				}
				continue
			}
			if !ph.Removed {
				nt.AddSequence(ph.NtSeq.Name(), ph.NtSeq.Sequence(), ph.NtSeq.Comment())
				aa.AddSequence(ph.AaSeq.Name(), ph.AaSeq.Sequence(), ph.AaSeq.Comment())
				cod.AddSequence(ph.CodonSeq.Name(), ph.CodonSeq.Sequence(), ph.CodonSeq.Comment())
			}
		}
		wantNt, wantAa, wantCodon = fasta.WriteAlignment(nt), fasta.WriteAlignment(aa), fasta.WriteAlignment(cod)
	}); pn {
		return
	}
	c.Mark(cs)
	cerr, pn, msg, herr := box.run(c, args...)
	if herr {
		return
	}
	if pn {
		viol("panic/"+mc.PanicSite(msg), msg)
		return
	}
	if (lerr != nil) != (cerr != nil) {
		viol("error-differs-from-library", fmt.Sprintf("library error %v, command error %v (goalign %s)", lerr, cerr, strings.Join(args[1:], " ")))
		return
	}
	if lerr != nil {
		c.Outcome("cli-" + cs.Cmd + ":refused")
		return
	}
	c.Nontrivial(jsonStr(cs))
	files := []struct{ name, want, what string }{{"out.fa", wantNt, "nucleotide"}, {"aa.fa", wantAa, "amino-acid"}}
	if cs.Cmd == "phasent" {
		files = append(files, struct{ name, want, what string }{"nt.fa", wantCodon, "codon"})
	}
	for _, f := range files {
		got, _ := box.get(f.name)
		if got != f.want {
			viol(f.what+"-output-differs-from-library", fmt.Sprintf("goalign %s writes %q; the Phaser configured the same way gives %q", strings.Join(args[1:], " "), got, f.want))
			return
		}
	}
	c.Outcome("cli-" + cs.Cmd + ":same")
}

func c16CLITasks() []mc.Task {
	ref := c16Refs[0]
	sets := [][]string{
		{"C" + ref + "G", "CC" + ref, ref + "GTT"},
		{"CCTTAGG" + ref + "GCC", c08RevComp("AA" + ref + "C")},
		{"ATGGCTAAGTGGTAACC", "CCATGGCTAAGTGGTAA", "ATGGCTAAGTGG"},
		{c16NoSim, "C" + ref},
	}
	var ts []mc.Task
	for _, cmd := range []string{"phase", "phasent"} {
		cmd := cmd
		ts = append(ts, mc.Task{Name: "cli-" + cmd + "#all", Run: func(c *mc.Ctx) {
			box := newCLIBox(c, "c16-cli-")
			if box == nil {
				return
			}
			defer box.close()
			flagSets := [][]string{nil, {"len-cutoff"}, {"match-cutoff"}, {"match", "mismatch"}, {"match"}, {"gap-open", "gap-extend"}, {"len-cutoff", "match-cutoff", "mismatch", "gap-open"}}
			for _, seqs := range sets {
				for _, orf := range []string{"", ref} {
					for m := 0; m < 4; m++ {
						for _, code := range []string{"", "mitov"} {
							for _, fl := range flagSets {
								c16CheckCLI(c, box, c16CLICase{CLI: true, Cmd: cmd, Seqs: seqs, Orf: orf, Reverse: m&1 != 0, CutEnd: m&2 != 0, Code: code, Flags: fl,
									LenCut: 0.3, MatCut: 0.9, Match: 2, Mism: -3, Open: -5, Extend: -1})
							}
						}
					}
				}
				if c.Expired() {
					return
				}
			}
		}})
	}
	ts = append(ts, mc.Task{Name: "cli-orf#all", Run: func(c *mc.Ctx) {
		box := newCLIBox(c, "c16-cli-")
		if box == nil {
			return
		}
		defer box.close()
		for _, seqs := range append(sets, []string{"TTACAT", "ATGTAA"}, []string{"CCCC"}, []string{c08RevComp("ATGAAACCCTAA") + "A", "ATGTAA"}) {
			for _, rev := range []bool{false, true} {
				c16CheckCLI(c, box, c16CLICase{CLI: true, Cmd: "orf", Seqs: seqs, Reverse: rev})
			}
		}
	}})
	return ts
}

func c16CLIReplay(c *mc.Ctx, payload []byte) bool {
	var cs c16CLICase
	if err := json.Unmarshal(payload, &cs); err != nil || !cs.CLI {
		return false
	}
	box := newCLIBox(c, "c16-cli-")
	if box == nil {
		return true
	}
	defer box.close()
	c16CheckCLI(c, box, cs)
	return true
}
