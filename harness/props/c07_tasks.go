package props

import (
	"encoding/json"
	"fmt"

	"verif/harness/mc"
)

// ---- C07 enumeration

var c07Corrected = []string{"jc", "k2p", "f81", "f84", "tn93"}

// c07Cfgs crosses the options that exist for each model: rawdist gap-mut x rm-gaps; pdist gap-mut x
// rm-gaps x rm-ambiguous; the five corrected models gamma(alpha) x rm-gaps; all x weight schemes.
func c07Cfgs(models []string, alphas []float64, gms []int, rmambs []bool, ws []int) []c07Case {
	var out []c07Case
	for _, mo := range models {
		for _, rm := range []bool{false, true} {
			for _, w := range ws {
				switch mo {
				case "rawdist":
					for _, gm := range gms {
						out = append(out, c07Case{Model: mo, RmGaps: rm, GapMut: gm, W: w, Cpus: 1})
					}
				case "pdist":
					for _, gm := range gms {
						for _, ra := range rmambs {
							out = append(out, c07Case{Model: mo, RmGaps: rm, GapMut: gm, RmAmb: ra, W: w, Cpus: 1})
						}
					}
				default:
					for _, a := range alphas {
						out = append(out, c07Case{Model: mo, Alpha: a, RmGaps: rm, W: w, Cpus: 1})
					}
				}
			}
		}
	}
	return out
}

// c07Variant is a (ranges, cpus, weights) combination laid over a configuration (matrix-level families).
type c07Variant struct {
	Ranges []int
	Cpus   int
	W      int
}

func c07Cross(cfgs []c07Case, vs []c07Variant) []c07Case {
	var out []c07Case
	for _, v := range vs {
		for _, cf := range cfgs {
			cf.Ranges, cf.Cpus, cf.W = v.Ranges, v.Cpus, v.W
			out = append(out, cf)
		}
	}
	return out
}

// c07PairTypes: every ordered pair column over sigma.
func c07PairTypes(sigma string) [][2]byte {
	var t [][2]byte
	for i := 0; i < len(sigma); i++ {
		for j := 0; j < len(sigma); j++ {
			t = append(t, [2]byte{sigma[i], sigma[j]})
		}
	}
	return t
}

// c07Multisets calls f with every 2-row alignment whose columns are a multiset of size L of the
// given column types, columns in non-decreasing type order.
func c07Multisets(types [][2]byte, L int, f func(seqs []string) bool) {
	idx := make([]int, L)
	a, b := make([]byte, L), make([]byte, L)
	for {
		for k, t := range idx {
			a[k], b[k] = types[t][0], types[t][1]
		}
		if !f([]string{string(a), string(b)}) {
			return
		}
		k := L - 1
		for ; k >= 0 && idx[k] == len(types)-1; k-- {
		}
		if k < 0 {
			return
		}
		idx[k]++
		for m := k + 1; m < L; m++ {
			idx[m] = idx[k]
		}
	}
}

func c07Binom(n, k int) int {
	r := 1
	for i := 1; i <= k; i++ {
		r = r * (n - k + i) / i
	}
	return r
}

func c07Pow(b, e int) int {
	r := 1
	for ; e > 0; e-- {
		r *= b
	}
	return r
}

type c07Family struct {
	name  string
	items int // number of alignments
	each  func(f func(seqs []string) bool)
	cfgs  []c07Case
}

// c07Ordered: all n x L alignments over sigma.
func c07Ordered(name, sigma string, n, L int, cfgs []c07Case) c07Family {
	return c07Family{name: name, items: c07Pow(len(sigma), n*L), cfgs: cfgs,
		each: func(f func([]string) bool) { forEachAlignment(sigma, n, L, f) }}
}

// c07Lattice: all 2-row alignments that are multisets of L pair columns over the given types.
func c07Lattice(name string, types [][2]byte, L int, cfgs []c07Case) c07Family {
	return c07Family{name: name, items: c07Binom(len(types)+L-1, L), cfgs: cfgs,
		each: func(f func([]string) bool) { c07Multisets(types, L, f) }}
}

const c07IUPAC = "ACGTRYSWKMBDHVN-"

// c07SatTypes: the column types of the saturation lattice — identical, both transitions in both
// orientations, transversions, one gap column, one compatible-ambiguity column.
var c07SatTypes = [][2]byte{{'A', 'A'}, {'C', 'C'}, {'G', 'G'}, {'T', 'T'}, {'A', 'G'}, {'G', 'A'}, {'C', 'T'}, {'T', 'C'}, {'A', 'C'}, {'T', 'G'}, {'A', '-'}, {'N', 'A'}}

func c07Families(tier string) []c07Family {
	th := tier == "thorough"
	all := append([]string{"rawdist", "pdist"}, c07Corrected...)
	alphas := []float64{0, 0.5, 1, 2}
	full := c07Cfgs(all, alphas, []int{0, 1, 2}, []bool{false, true}, []int{0, 1, 2, 3})
	var fs []c07Family
	// (1) one column, the whole IUPAC alphabet and the gap, both thread counts
	unw := c07Cfgs(all, alphas, []int{0, 1, 2}, []bool{false, true}, []int{0})
	fs = append(fs, c07Ordered("col1", c07IUPAC, 2, 1, c07Cross(unw, []c07Variant{{nil, 1, 0}, {nil, 2, 0}, {nil, 1, 1}, {nil, 2, 2}, {nil, 1, 3}})))
	// (2) two columns over {A,C,G,T,-,N,R,Y}, ordered
	fs = append(fs, c07Ordered("col2", "ACGT-NRY", 2, 2, full))
	// (2') lower-case residues (soft-masked regions): two columns over {A,C,g,t,a,-}, ordered
	fs = append(fs, c07Ordered("lower2", "ACgta-", 2, 2, unw))
	// (2b) the three-base ambiguity codes (their shares in the base frequencies): all 2x2 over {A,C,G,T,B,D,H,V}
	fs = append(fs, c07Ordered("bdhv2", "ACGTBDHV", 2, 2, unw))
	// (2c) blocks of 8 and 16 columns: every multiset of 9, 12 and 17 pair columns over {A/A, C/C, -/-, N/N, A/-, A/C}
	// in type order - a run of columns identical in both rows, shared gaps and N among them, then the others
	blockTypes := [][2]byte{{'A', 'A'}, {'C', 'C'}, {'-', '-'}, {'N', 'N'}, {'A', '-'}, {'A', 'C'}}
	blockCfg := c07Cfgs([]string{"pdist", "rawdist", "jc", "k2p", "f81"}, []float64{0}, []int{0, 1, 2}, []bool{false, true}, []int{0})
	for _, L := range []int{9, 12, 17} {
		fs = append(fs, c07Lattice(fmt.Sprintf("blocks%d", L), blockTypes, L, blockCfg))
	}
	// (3) lattice: multisets of 3 pair columns over {A,C,G,T,-,N}
	t6 := c07PairTypes("ACGT-N")
	fs = append(fs, c07Lattice("lat3", t6, 3, full))
	// (4) ordered alignments for the order-dependent internal-gap mode (and positional weights)
	gapCfg := c07Cfgs([]string{"rawdist", "pdist"}, nil, []int{0, 1, 2}, []bool{false}, []int{0, 2, 3})
	gapCfgAmb := c07Cfgs([]string{"rawdist", "pdist"}, nil, []int{0, 1, 2}, []bool{false, true}, []int{0, 3})
	for L := 3; L <= 5; L++ {
		fs = append(fs, c07Ordered(fmt.Sprintf("gaps%d", L), "AC-", 2, L, gapCfg))
	}
	fs = append(fs, c07Ordered("gapsN3", "AC-N", 2, 3, gapCfgAmb))
	// (5) three rows: matrix-level claims (symmetry, diagonal, substitution, ranges, threads)
	matCfg := c07Cfgs(all, []float64{0, 0.5, 1}, []int{0, 1, 2}, []bool{false}, []int{0})
	v3 := []c07Variant{{nil, 1, 0}, {nil, 2, 2}, {[]int{0, 0, 1, 2}, 1, 0}, {[]int{0, 1, 1, 2}, 2, 0}, {[]int{0, 2, 0, 2}, 1, 0}, {[]int{0, 5, 1, 7}, 1, 0}, {[]int{1, 2, 0, 1}, 1, 0}, {[]int{1, 1, 1, 1}, 1, 0}}
	fs = append(fs, c07Ordered("mat3x1", "ACGT-N", 3, 1, c07Cross(matCfg, v3)))
	fs = append(fs, c07Ordered("mat3x4AC", "AC", 3, 4, c07Cross(matCfg, v3[:4])))
	fs = append(fs, c07Ordered("mat3x2", "ACGT-", 3, 2, c07Cross(matCfg, append(append([]c07Variant{}, v3[:4]...), v3[6]))))
	// (5') more rows than workers: all 7x1 alignments over {A,C} with 3, 4 and 5 workers (neither the rows nor
	// the rows less one a multiple of the workers), also with ranges
	v7 := []c07Variant{{nil, 3, 0}, {nil, 4, 0}, {nil, 5, 0}, {[]int{0, 5, 1, 6}, 4, 0}}
	fs = append(fs, c07Ordered("mat7x1", "AC", 7, 1, c07Cross(matCfg, v7)))
	// (6) lattice of 4 columns over {A,C,G,T,-,N}
	lat4 := c07Cfgs(all, []float64{0, 1}, []int{0, 1, 2}, []bool{false, true}, []int{0})
	if th {
		lat4 = full
	}
	fs = append(fs, c07Lattice("lat4", t6, 4, lat4))
	// (7) saturation lattice: 5..6 (quick) / 5..8 (thorough) columns over 12 column types, corrected models
	satW := []int{0, 3}
	maxSat := 6
	if th {
		satW, maxSat = []int{0, 1, 2, 3}, 8
	}
	sat := c07Cfgs(c07Corrected, alphas, nil, nil, satW)
	for L := 5; L <= maxSat; L++ {
		fs = append(fs, c07Lattice(fmt.Sprintf("sat%d", L), c07SatTypes, L, sat))
	}
	// (7') shapes far from 1: every multiset of 5 columns of the saturation lattice under alpha 0.05, 10, 101 and 1000
	// (towards the uncorrected formula, which a large alpha approaches but never equals)
	fs = append(fs, c07Lattice("alphas5", c07SatTypes, 5, c07Cfgs(c07Corrected, []float64{0.05, 10, 101, 1000}, nil, nil, []int{0})))
	if th {
		fs = append(fs, c07Ordered("gaps6", "AC-", 2, 6, gapCfg))
		fs = append(fs, c07Ordered("gapsN4", "AC-N", 2, 4, gapCfgAmb))
		fs = append(fs, c07Lattice("lat3RY", c07PairTypes("ACGT-NRY"), 3, full))
		v2 := []c07Variant{{nil, 1, 0}, {[]int{0, 1, 1, 2}, 2, 2}}
		fs = append(fs, c07Ordered("mat3x3", "ACG-", 3, 3, c07Cross(matCfg, v2)))
		v4 := []c07Variant{{nil, 1, 0}, {nil, 2, 3}, {[]int{0, 1, 2, 3}, 1, 0}, {[]int{0, 2, 1, 3}, 2, 0}, {[]int{0, 9, 0, 9}, 1, 0}}
		fs = append(fs, c07Ordered("mat4x1", "ACGT-", 4, 1, c07Cross(matCfg, v4)))
		fs = append(fs, c07Ordered("mat4x2", "ACG-", 4, 2, c07Cross(matCfg, v4[:1])))
		fs = append(fs, c07Ordered("mat4x2r", "ACG-", 4, 2, c07Cross(matCfg, v4[3:4])))
		fs = append(fs, c07Lattice("lat5", t6, 5, c07Cfgs(all, []float64{0, 1}, []int{0, 1, 2}, []bool{false, true}, []int{0})))
	}
	return fs
}

func c07Tasks(tier string) []mc.Task {
	per := 40000 // evaluations per task
	if tier == "thorough" {
		per = 120000
	}
	var ts []mc.Task
	for _, fam := range c07Families(tier) {
		fam := fam
		total := fam.items * len(fam.cfgs)
		shards := (total + per - 1) / per
		if shards > fam.items {
			shards = fam.items
		}
		for s := 0; s < shards; s++ {
			s := s
			ts = append(ts, mc.Task{Name: fmt.Sprintf("%s#%d/%d", fam.name, s, shards), Run: func(c *mc.Ctx) {
				i := -1
				fam.each(func(seqs []string) bool {
					i++
					if i%shards != s {
						return true
					}
					model := ""
					for _, cf := range fam.cfgs {
						cf.Seqs = seqs
						if cf.Model != model { // a worker goroutine of DistMatrix that panics kills the process
							model = cf.Model
							c.Mark(cf)
						}
						c07Check(c, cf)
					}
					return !c.Expired()
				})
			}})
		}
	}
	// model re-use: the matrix of every 2x2 alignment over {A,C,G,T} computed with a model object that has
	// already served another alignment (skewed / balanced composition, with a gap), 7 models x gamma off / 1
	for _, model := range []string{"rawdist", "pdist", "jc", "k2p", "f81", "f84", "tn93"} {
		for _, alpha := range []float64{0, 1} {
			if alpha > 0 && (model == "rawdist" || model == "pdist") {
				continue
			}
			model, alpha := model, alpha
			ts = append(ts, mc.Task{Name: fmt.Sprintf("reuse-%s-a%v#0/1", model, alpha), Run: func(c *mc.Ctx) {
				for _, prior := range [][]string{{"AAAAAC", "AAAACC"}, {"ACGT-A", "AGGTCA"}} {
					forEachStringLen("ACGT", 4, nil, func(s []byte) bool {
						cf := c07Case{Seqs: []string{string(s[:2]), string(s[2:])}, Model: model, Alpha: alpha, Cpus: 1, Prior: prior}
						c07Check(c, cf)
						cf.RmGaps = true
						c07Check(c, cf)
						return !c.Expired()
					})
				}
			}})
		}
	}
	return ts
}

var c07Ops = []string{"rawdist", "pdist", "jc", "k2p", "f81", "f84", "tn93", "jc+gamma", "k2p+gamma", "f81+gamma", "f84+gamma", "tn93+gamma"}

func init() {
	mc.Register(&mc.Prop{
		ID:    "C07",
		Level: "exploration",
		Rule: "Command line: goalign compute distance for the 7 nucleotide models x -r x --alpha 0.5 x -a x --gap-mut 0,1,2 (rawdist, pdist) x --rm-ambiguous (pdist) x -t 1,3 x --range1 0:1 --range2 1:2 on every 3x2 alignment over {A,C,-} and three larger ones, and for the 7 protein models x -r x --alpha 0.7 x -a on two protein alignments: what is printed must be the library matrix (average) for the same options, as printed with 12 decimals. " + "bounded-exhaustive exploration of the real dna.DistMatrix (models from dna.Model + SetCountGapMutations/SetRemoveAmbiguous) on a lattice of column types; every entry of every matrix is compared (1e-9 relative) with the harness's own textbook estimators, plus symmetry, zero diagonal, no-difference => 0, undefined => NaN/+Inf/2*max. " +
			"Option space O (232 configurations) = rawdist x gap-mut {0,1,2} x rm-gaps; pdist x gap-mut x rm-gaps x rm-ambiguous; {jc,k2p,f81,f84,tn93} x gamma {off, alpha 0.5, 1, 2} x rm-gaps; all x weights {none, all 1, (1,2,3,..), (0.5,2,0.5,2,..)}. " +
			"Alignments: (1) all 2x1 over the 15 IUPAC letters and '-' x O(unweighted) x {(cpus 1, no weights), (2, none), (1, all 1), (2, (1,2,..)), (1, (0.5,2,..))}; (2) all 2x2 over {A,C,G,T,-,N,R,Y} x O, and all 2x2 over {A,C,g,t,a,-} x O(unweighted) (a residue is the same nucleotide in lower case), all 2x2 over {A,C,G,T,B,D,H,V} x O(unweighted) (shares of the three-base codes in the base frequencies), every multiset of 9, 12 and 17 pair columns over {A/A,C/C,-/-,N/N,A/-,A/C} in type order x {pdist,rawdist,jc,k2p,f81} x gap modes x rm-gaps x rm-ambiguous (runs of identical columns with shared gaps, longer than an 8- or 16-column block); (3) every multiset of 3 ordered pair columns over {A,C,G,T,-,N} x O; " +
			"(4) order-dependent internal-gap mode: all ordered 2xL over {A,C,-}, L=3..5 (thorough ..6) x {rawdist,pdist} x gap-mut x rm-gaps x weights {none,(1,2,..),(0.5,2,..)}, and over {A,C,-,N}, L=3 (thorough ..4) x the same x rm-ambiguous x weights {none,(0.5,2,..)}; " +
			"(5) matrix level, M (42 configurations) = rawdist/pdist x gap-mut x rm-gaps, 5 corrected models x alpha {off,0.5,1} x rm-gaps: all 3x1 over {A,C,G,T,-,N} x M x V, all 3x2 over {A,C,G,T,-} x M x V[1,2,3,4,7], all 3x4 over {A,C} (pairs at exactly p=3/4 beside finite ones) x M x V[1..4], with V = {(no range, cpus 1), (no range, cpus 2, weights (1,2,..)), (ranges 0:0 vs 1:2), (overlapping 0:1 vs 1:2, cpus 2), (0:2 vs 0:2), (beyond the end 0:5 vs 1:7), (second before first 1:2 vs 0:1), (1:1 vs 1:1)}; all 7x1 over {A,C} x M x {3, 4, 5 workers; ranges 0:5 vs 1:6 with 4 workers} (more rows than workers); thorough adds all 3x3 over {A,C,G,-} x M x {(no range), (0:1 vs 1:2, cpus 2, weights)}, all 4x1 over {A,C,G,T,-} x M x 5 four-row variants, all 4x2 over {A,C,G,-} x M x {(no range), (0:2 vs 1:3, cpus 2)}; " +
			"(6) every multiset of 4 pair columns over {A,C,G,T,-,N} x (quick: unweighted, alpha {off,1}: 38 configurations; thorough: O); thorough also 5 columns x the 38 and 3 columns over {A,C,G,T,-,N,R,Y} x O; " +
			"(7') every multiset of 5 columns of the saturation lattice x 5 corrected models x alpha {0.05, 10, 101, 1000} x rm-gaps; (7) saturation lattice: every multiset of 5..6 (thorough 5..8) columns over 12 column types (A/A C/C G/G T/T, A/G G/A C/T T/C, A/C T/G, A/-, N/A) x 5 corrected models x 4 gamma settings x rm-gaps x weights {none,(0.5,2,..)} (thorough: all 4). " +
			"A case is non-trivial when at least one pair of its matrix was compared with a defined estimator value or checked as an undefined/boundary pair (cases skipped as undetermined are not counted); distinct = distinct (alignment, options, weights, ranges).",
		Assumptions: []string{
			"textbook formulas: JC69, K80, F81 (Tajima-Nei form with B = 1 - sum pi^2), F84 (PHYLIP/FastME closed form), TN93; gamma variants replace -ln(x) by alpha*(x^(-1/alpha)-1) (Yang 2006)",
			"goalign's documented conventions: a difference is counted iff the two IUPAC codes share no base; --rm-gaps drops positions containing a gap (for the counts and for the base frequencies); --gap-mut 1 = internal gaps only, 2 = all gaps; --rm-ambiguous drops compatible positions holding an ambiguity code from the pdist length",
			"base frequencies = weighted nucleotide counts over all rows and kept positions, an ambiguity code shared equally between its bases (property record: 'base frequency estimation with ambiguity sharing'), normalised to sum 1",
			"skipped as undetermined: K2P/F84/TN93 on a pair with an ambiguity code at a comparable site; --rm-gaps when a gap-free column holds an ambiguity code; F84/TN93 when a base frequency that the formula divides by is 0; defined values above 9e4; a range maximum beyond the last sequence when an error is returned",
			"within 1e-5 of a singularity of the estimator (argument of a logarithm = 0) rounding may decide between +Inf and a huge value: only zero, negative and below-p results are rejected there",
			"an undefined pair may be reported as NaN, +Inf, or as twice the largest defined entry of the matrix (the substitution the property record names); that substitute must be positive and, like every finite corrected distance, at least the pair's observed p",
		},
		Tasks: func(tier string) []mc.Task { return append(c07Tasks(tier), c07CLITasks(tier == "thorough")...) },
		Replay: func(c *mc.Ctx, payload json.RawMessage) {
			if c07CLIReplay(c, payload) {
				return
			}
			var cs c07Case
			if err := json.Unmarshal(payload, &cs); err != nil {
				c.Fatal("bad payload: %v", err)
				return
			}
			c07Check(c, cs)
		},
		Vacuity: func(tier string, t *mc.Totals) error {
			if t.Evaluations < 5000000 || t.Nontrivial < 1000000 {
				return fmt.Errorf("only %d evaluations / %d non-trivial", t.Evaluations, t.Nontrivial)
			}
			for _, op := range c07Ops {
				for _, cl := range []string{":defined", ":nodiff"} {
					if _, ok := t.OutcomeSet[op+cl]; !ok {
						return fmt.Errorf("no %s pair was compared for %s", cl[1:], op)
					}
				}
			}
			for _, op := range c07Ops {
				if t.Extra["pairs_defined_"+op] < 1000 {
					return fmt.Errorf("only %d pairs compared with a defined %s estimator value", t.Extra["pairs_defined_"+op], op)
				}
			}
			for _, op := range c07Ops[1:] {
				seenUndef, seenNoSite := false, false
				for _, r := range []string{"NaN", "Inf", "finite", "nonpositive"} {
					if _, ok := t.OutcomeSet[op+":undefined:no-comparable-site:"+r]; ok {
						seenNoSite = true
					}
					if _, ok := t.OutcomeSet[op+":undefined:saturated:"+r]; ok {
						seenUndef = true
					}
				}
				if !seenNoSite || (op != "pdist" && !seenUndef) {
					return fmt.Errorf("no undefined pair (saturated %v, no comparable site %v) was explored for %s", seenUndef, seenNoSite, op)
				}
			}
			for _, k := range []string{"cases_rmgaps", "cases_gapmut1", "cases_gapmut2", "cases_rmambiguous", "cases_weighted", "cases_cpus2", "cases_ranges", "cases_3rows"} {
				if t.Extra[k] < 1000 {
					return fmt.Errorf("option class %s exercised only %d times", k, t.Extra[k])
				}
			}
			return nil
		},
	})
}
