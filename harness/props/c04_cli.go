package props

import (
	"errors"
	"fmt"
	"os"
	"path/filepath"
	"runtime"
	"strconv"
	"strings"

	"verif/harness/mc"

	gcmd "github.com/evolbioinfo/goalign/cmd"
	"github.com/spf13/cobra"
	"github.com/spf13/pflag"
)

// The commands are executed in process: cmd.RootCmd with explicit arguments,
// input and output in FASTA files of a private directory.  Flag values and
// their "changed" marks are reset before every run (cobra keeps them between
// executions of one process).
//
//	cli-subseq:   goalign subseq -i in.fa -o out.fa -s X -l Y [--ref-seq Ref] [-r] [--step Z: sliding windows, files out_sub<k>.fa]
//	cli-subsites: goalign subsites -i in.fa -o out.fa --sitefile sites.txt [--ref-seq Ref] [-r]
//	cli-split:    goalign split -i in.fa --partition part.txt -o <dir>/sp_   (Build: ranges | modulo)
//	cli-concat:   goalign concat -i in.fa -o out.fa -l log.txt in2.fa
//	cli-trimseq:  goalign trim seq -i in.fa -o out.fa -n X [-s]
//	cli-extract:  goalign extract -i in.fa -o <dir> --coordinates coords.txt [--ref-seq Ref]; Flag = minus-strand feature (4th column "-"); Sites = start,end[,start,end] (0-based, end exclusive), one line, name "x"

var (
	c04CLIDir   string // private directory of the running task
	c04CLICount int
	c04DevNull  *os.File
	c04Written  = map[string]string{} // path -> content written by this process
)

// c04TempDir makes the private directory, in memory when the machine offers it.
func c04TempDir(pattern string) (string, error) {
	if st, err := os.Stat("/dev/shm"); err == nil && st.IsDir() {
		if d, err := os.MkdirTemp("/dev/shm", pattern); err == nil {
			return d, nil
		}
	}
	return os.MkdirTemp("", pattern)
}

// c04FlagInit: the value every flag variable holds when the process starts, i.e. after all init() functions
// have registered their flags.  It is the declared default unless two commands bind one variable with
// different defaults (then the last registration wins, in the real binary too): a run is reset to THAT value,
// so that the in-process runs see what a fresh goalign process sees.
var c04FlagInit map[*pflag.Flag]string

func c04SnapshotFlags(cm *cobra.Command) {
	snap := func(f *pflag.Flag) {
		if _, seen := c04FlagInit[f]; !seen {
			c04FlagInit[f] = f.Value.String()
		}
	}
	cm.Flags().VisitAll(snap)
	cm.PersistentFlags().VisitAll(snap)
	for _, sub := range cm.Commands() {
		c04SnapshotFlags(sub)
	}
}

func c04ResetFlags(cm *cobra.Command) {
	reset := func(f *pflag.Flag) {
		v := f.DefValue
		if init, ok := c04FlagInit[f]; ok && init != f.DefValue && !strings.HasPrefix(init, "[") {
			v = init
		}
		f.Value.Set(v)
		f.Changed = false
	}
	cm.Flags().VisitAll(reset)
	cm.PersistentFlags().VisitAll(reset)
}

// c04RunCLI executes goalign with the given arguments.
func c04RunCLI(args []string) (err error, panicked bool, msg string) {
	root := gcmd.RootCmd
	if c04FlagInit == nil {
		c04FlagInit = map[*pflag.Flag]string{}
		c04SnapshotFlags(root)
	}
	target, _, _ := root.Find(args)
	for p := target; p != nil; p = p.Parent() {
		c04ResetFlags(p)
	}
	c04ResetFlags(root)
	root.SetArgs(args)
	root.SilenceErrors, root.SilenceUsage = true, true
	if c04DevNull == nil {
		c04DevNull, _ = os.OpenFile(os.DevNull, os.O_WRONLY, 0)
	}
	oldErr := os.Stderr
	os.Stderr = c04DevNull // goalign reports command errors on stderr
	defer func() { os.Stderr = oldErr }()
	var exited bool
	panicked, msg, exited = mc.GuardExit(func() { err = root.Execute() })
	if exited && err == nil {
		err = errors.New("the command called os.Exit")
	}
	// the commands leave their output file open on error paths; let the
	// finalizers return the descriptors
	if c04CLICount++; c04CLICount%200 == 0 {
		runtime.GC()
	}
	return
}

func c04Fasta(r rows) string {
	var b strings.Builder
	for _, x := range r {
		fmt.Fprintf(&b, ">%s\n%s\n", x.Name, x.Seq)
	}
	return b.String()
}

// c04ParseFasta reads what the FASTA writer produced (names, residues possibly on several lines).
func c04ParseFasta(s string) (out rows, ok bool) {
	out = rows{}
	for _, line := range strings.Split(s, "\n") {
		switch {
		case strings.HasPrefix(line, ">"):
			out = append(out, row{Name: line[1:]})
		case len(out) > 0:
			out[len(out)-1].Seq += line
		case line != "":
			return nil, false
		}
	}
	return out, true
}

type c04Run struct {
	k   *c04K
	op  string
	dir string
}

func (r *c04Run) path(name string) string { return filepath.Join(r.dir, name) }

func (r *c04Run) write(name, content string) bool {
	full := r.path(name)
	if c04Written[full] == content && content != "" {
		return true // still there from the previous case of this task
	}
	c04Written[full] = content
	if err := os.WriteFile(full, []byte(content), 0o644); err != nil {
		r.k.c.Fatal("cannot write %s: %v", name, err)
		return false
	}
	return true
}

// exec runs the command; ok=false when the case is over (crash or harness failure).
func (r *c04Run) exec(class string, args ...string) (err error, ok bool) {
	r.k.c.Mark(r.k.cs)
	r.k.c.Count("goalign_commands", 1)
	err, pn, msg := c04RunCLI(args)
	if pn {
		if class == "" {
			class = "valid"
		}
		r.k.viol(r.op, "panic/"+mc.PanicSite(msg)+"/"+class, msg)
		return nil, false
	}
	if err != nil && (strings.Contains(err.Error(), "too many open files") || strings.Contains(err.Error(), "no such file")) {
		r.k.c.Fatal("harness: %v", err)
		return nil, false
	}
	return err, true
}

// output reads an alignment written by the command and compares it.
func (r *c04Run) output(name string, want ...rows) (matched int) {
	b, err := os.ReadFile(r.path(name))
	if err != nil {
		r.k.viol(r.op, "no-output", fmt.Sprintf("the command succeeded but %s cannot be read: %v", name, err))
		return -1
	}
	got, ok := c04ParseFasta(string(b))
	if !ok {
		r.k.viol(r.op, "output-format", fmt.Sprintf("%q", b))
		return -1
	}
	first := ""
	for i, w := range want {
		cl := c04Diff(got, w)
		if cl == "" {
			return i
		}
		if i == 0 {
			first = cl
		}
	}
	r.k.viol(r.op, first, fmt.Sprintf("got %v want %v", got, want[0]))
	return -1
}

func (r *c04Run) rejected(class string, err error) {
	if err == nil {
		b, _ := os.ReadFile(r.path("out.fa"))
		r.k.viol(r.op, "out-of-range-accepted/"+class, fmt.Sprintf("the command succeeded (output %q) although the argument is out of range (%s)", b, class))
		return
	}
	r.k.c.Outcome(r.op + ":rejected:" + class)
}

func (k *c04K) cli() {
	dir := c04CLIDir
	if dir == "" {
		d, err := c04TempDir("c04-replay-")
		if err != nil {
			k.c.Fatal("%v", err)
			return
		}
		defer func() {
			c04Written = map[string]string{}
			os.RemoveAll(d)
		}()
		dir = d
	}
	r := &c04Run{k: k, op: k.cs.Op, dir: dir}
	in := k.cs.rows1()
	if !r.write("in.fa", c04Fasta(in)) {
		return
	}
	os.Remove(r.path("out.fa"))
	switch k.cs.Op {
	case "cli-subseq":
		r.subseq(in)
	case "cli-subsites":
		r.subsites(in)
	case "cli-split":
		r.split(in)
	case "cli-concat":
		r.concat(in)
	case "cli-trimseq":
		r.trimseq(in)
	case "cli-extract":
		r.extract(in)
	default:
		k.c.Fatal("unknown op %q", k.cs.Op)
	}
}

func (r *c04Run) subseq(in rows) {
	cs := r.k.cs
	L := c04Len(in)
	args := []string{"subseq", "-i", r.path("in.fa"), "-o", r.path("out.fa"), "-s", strconv.Itoa(cs.X), "-l", strconv.Itoa(cs.Y)}
	if cs.Flag {
		args = append(args, "-r")
	}
	if cs.Z > 0 {
		// sliding windows: starts X, X+Z, ... while the window ends inside the alignment; the first window is
		// judged as without --step, window k > 0 is written to out_sub<k>.fa
		args = append(args, "--step", strconv.Itoa(cs.Z))
		r.op = "cli-subseq-step"
		for k := 1; k <= L+2; k++ {
			os.Remove(r.path(fmt.Sprintf("out_sub%d.fa", k)))
		}
	}
	// candidate windows on the alignment, the first is the one the statement asks for
	var wins [][2]int
	class := ""
	tag := ""
	if cs.Ref == "" {
		class = c04WindowClass(cs.X, cs.Y, L)
		if class == "end>L" && cs.Y > 0 && cs.X < L {
			class = "" // documented truncation
			wins = [][2]int{{cs.X, L - cs.X}}
			tag = ":past-end"
		} else if class == "" {
			wins = [][2]int{{cs.X, cs.Y}}
		}
	} else {
		args = append(args, "--ref-seq", cs.Ref)
		r.op = "cli-subseq-refseq"
		tag = ":ref"
		u, found := c04RefPositions(in, cs.Ref)
		switch {
		case !found:
			class = "unknown-reference"
		case cs.X < 0:
			class = "start<0"
		case cs.Y < 0:
			class = "len<0"
		case cs.Y == 0:
			r.k.c.Skip(c04SkipRefLenZero)
			return
		case cs.X >= len(u):
			class = "start>=U"
		case cs.X+cs.Y > len(u):
			// past the end of the reference: error, or stop at the last residue / at the end of the alignment
			wins = [][2]int{{u[cs.X], u[len(u)-1] - u[cs.X] + 1}, {u[cs.X], L - u[cs.X]}}
			tag = ":ref:past-end"
		default:
			wins = [][2]int{{u[cs.X], u[cs.X+cs.Y-1] - u[cs.X] + 1}}
		}
	}
	if cs.Flag && class == "" {
		// a refused argument is refused before --reverse matters; otherwise the reverse path is its own operation
		r.op = "cli-subseq-reverse"
	}
	err, ok := r.exec(class, args...)
	if !ok {
		return
	}
	if class != "" {
		r.rejected(class, err)
		return
	}
	var want []rows
	empty := false
	for _, w := range wins {
		cols := c04Range(w[0], w[1])
		if cs.Flag {
			cols = c04Complement(L, cols)
		}
		empty = empty || len(cols) == 0
		want = append(want, c04Pick(in, cols))
	}
	if err != nil {
		switch {
		case strings.HasSuffix(tag, "past-end"):
			r.k.c.Outcome("cli-subseq:rejected:end>L")
		case empty:
			r.k.c.Skip(c04SkipEmptyRejected)
		default:
			r.k.viol(r.op, "unexpected-error", err.Error())
		}
		return
	}
	if cs.Z > 0 && cs.Ref == "" {
		if r.output("out.fa", want...) < 0 {
			return
		}
		k := 1
		for st := cs.X + cs.Z; st+cs.Y <= L; st += cs.Z {
			cols := c04Range(st, cs.Y)
			if cs.Flag {
				cols = c04Complement(L, cols)
			}
			if r.output(fmt.Sprintf("out_sub%d.fa", k), c04Pick(in, cols)) < 0 {
				return
			}
			k++
		}
		if _, e := os.Stat(r.path(fmt.Sprintf("out_sub%d.fa", k))); e == nil {
			r.k.viol(r.op, "window-beyond-the-end", fmt.Sprintf("out_sub%d.fa was written: its window would start at %d and end after the alignment (length %d)", k, cs.X+k*cs.Z, L))
			return
		}
		r.k.c.Outcome(fmt.Sprintf("cli-subseq-step:ok:%d-windows", min(k, 4)))
		r.k.c.Nontrivial("cli-subseq-step|" + in.String() + "|" + fmt.Sprint(cs.X, cs.Y, cs.Z, cs.Flag))
		return
	}
	if r.output("out.fa", want...) >= 0 {
		if cs.Flag {
			r.k.c.Outcome("cli-subseq:ok:reverse")
		} else {
			r.k.c.Outcome("cli-subseq:ok" + tag)
		}
		if !sameRows(want[0], in) && !empty {
			r.k.c.Nontrivial("cli-subseq|" + in.String() + "|" + fmt.Sprint(cs.X, cs.Y, cs.Ref, cs.Flag))
		}
	}
}

func (r *c04Run) subsites(in rows) {
	cs := r.k.cs
	L := c04Len(in)
	var sf strings.Builder
	for _, s := range cs.Sites {
		fmt.Fprintf(&sf, "%d\n", s)
	}
	args := []string{"subsites", "-i", r.path("in.fa"), "-o", r.path("out.fa")}
	switch cs.Build {
	case "args": // the sites as arguments of the command
		for _, s := range cs.Sites {
			args = append(args, strconv.Itoa(s))
		}
	default:
		txt := sf.String()
		if cs.Build == "no-final-newline" {
			txt = strings.TrimSuffix(txt, "\n")
		}
		if !r.write("sites.txt", txt) {
			return
		}
		args = append(args, "--sitefile", r.path("sites.txt"))
	}
	if cs.Flag {
		args = append(args, "-r")
	}
	class := ""
	var cands [][]int
	if cs.Ref == "" {
		if class = c04SitesClass(cs.Sites, L); class == "" {
			cands = [][]int{cs.Sites}
		}
	} else {
		args = append(args, "--ref-seq", cs.Ref)
		r.op = "cli-subsites-refseq"
		u, found := c04RefPositions(in, cs.Ref)
		if !found {
			class = "unknown-reference"
		} else if class = c04SitesClass(cs.Sites, L); class == "" {
			addressed := make([]int, len(cs.Sites))
			for i, s := range cs.Sites {
				if s >= len(u) {
					r.k.c.Skip(c04SkipRefSitesBeyond)
					return
				}
				addressed[i] = u[s]
			}
			cands = [][]int{addressed, c04SortedSet(addressed)}
		}
	}
	if cs.Flag {
		r.op += "-reverse"
	}
	err, ok := r.exec(class, args...)
	if !ok {
		return
	}
	if class != "" {
		r.rejected(class, err)
		return
	}
	if err != nil {
		r.k.viol(r.op, "unexpected-error", err.Error())
		return
	}
	var want []rows
	for _, cols := range cands {
		if cs.Flag {
			cols = c04Complement(L, cols)
		}
		want = append(want, c04Pick(in, cols))
	}
	if r.output("out.fa", want...) >= 0 {
		switch {
		case cs.Flag:
			r.k.c.Outcome("cli-subsites:ok:reverse")
		case cs.Ref != "":
			r.k.c.Outcome("cli-subsites:ok:ref")
		default:
			r.k.c.Outcome("cli-subsites:ok")
		}
		r.k.c.Nontrivial("cli-subsites|" + in.String() + "|" + fmt.Sprint(cs.Sites, cs.Ref, cs.Flag))
	}
}

func (r *c04Run) split(in rows) {
	cs := r.k.cs
	L := c04Len(in)
	pl := L
	if cs.PartLen != 0 {
		pl = cs.PartLen
	}
	modulo := cs.Build == "modulo"
	if !r.write("part.txt", c04PartText(cs.Map, pl, modulo, modulo)) {
		return
	}
	blocks := c04Blocks(cs.Map)
	for b := range blocks {
		os.Remove(r.path(fmt.Sprintf("sp_p%d.fa", b)))
	}
	class := ""
	switch {
	case pl > L:
		class = "partition-site>=L"
	case len(blocks) < 2:
		class = "single-partition"
	}
	err, ok := r.exec(class, "split", "-i", r.path("in.fa"), "--partition", r.path("part.txt"), "-o", r.path("sp_"))
	if !ok {
		return
	}
	switch {
	case class == "single-partition":
		if err == nil {
			r.k.viol(r.op, "single-partition-accepted", "the command succeeded with one partition")
		} else {
			r.k.c.Outcome("cli-split:rejected:single-partition")
		}
		return
	case class != "":
		r.rejected(class, err)
		return
	}
	if err != nil {
		r.k.viol(r.op, "unexpected-error", err.Error())
		return
	}
	for b, S := range blocks {
		if r.output(fmt.Sprintf("sp_p%d.fa", b), c04Pick(in, S)) < 0 {
			return
		}
	}
	r.k.c.Outcome("cli-split:ok")
	r.k.c.Nontrivial("cli-split|" + in.String() + "|" + fmt.Sprint(cs.Map, cs.Build))
}

func (r *c04Run) concat(in rows) {
	second := r.k.cs.rows2()
	if !r.write("in2.fa", c04Fasta(second)) {
		return
	}
	err, ok := r.exec("", "concat", "-i", r.path("in.fa"), "-o", r.path("out.fa"), "-l", r.path("log.txt"), r.path("in2.fa"))
	if !ok {
		return
	}
	if err != nil {
		r.k.viol(r.op, "unexpected-error", err.Error())
		return
	}
	b, rerr := os.ReadFile(r.path("out.fa"))
	got, pok := c04ParseFasta(string(b))
	if rerr != nil || !pok {
		r.k.viol(r.op, "no-output", fmt.Sprintf("%v %q", rerr, b))
		return
	}
	if r.k.checkConcat(r.op, got, -1, in, second) {
		r.k.c.Outcome("cli-concat:ok")
		r.k.c.Nontrivial("cli-concat|" + in.String() + "|" + second.String())
	}
}

func (r *c04Run) trimseq(in rows) {
	cs := r.k.cs
	L := c04Len(in)
	args := []string{"trim", "seq", "-i", r.path("in.fa"), "-o", r.path("out.fa"), "-n", strconv.Itoa(cs.X)}
	if cs.Flag {
		args = append(args, "-s")
	}
	class := ""
	switch {
	case cs.X < 0:
		class = "size<0"
	case cs.X > L:
		class = "size>L"
	}
	err, ok := r.exec(class, args...)
	if !ok {
		return
	}
	if class != "" {
		r.rejected(class, err)
		return
	}
	if err != nil {
		if cs.X == L {
			r.k.c.Outcome("cli-trimseq:rejected:size=L")
			return
		}
		r.k.viol(r.op, "unexpected-error", err.Error())
		return
	}
	want := c04Range(0, L-cs.X)
	if cs.Flag {
		want = c04Range(cs.X, L-cs.X)
	}
	if r.output("out.fa", c04Pick(in, want)) >= 0 {
		r.k.c.Outcome(fmt.Sprintf("cli-trimseq:ok:start=%v", cs.Flag))
		if cs.X > 0 {
			r.k.c.Nontrivial("cli-trim|" + in.String() + "|" + fmt.Sprint(cs.X, cs.Flag))
		}
	}
}

func (r *c04Run) extract(in rows) {
	cs := r.k.cs
	L := c04Len(in)
	nb := len(cs.Sites) / 2
	var starts, ends []string
	for b := 0; b < nb; b++ {
		starts = append(starts, strconv.Itoa(cs.Sites[2*b]))
		ends = append(ends, strconv.Itoa(cs.Sites[2*b+1]))
	}
	strand := ""
	if cs.Flag {
		strand = "\t-" // minus-strand feature: the concatenated blocks are reverse-complemented as a whole
	}
	fname := "x"
	if cs.Build == "blank-name" && !cs.Flag {
		fname = "x y" // the columns are separated by tabs: a blank belongs to the name
	}
	lines := strings.Join(starts, ",") + "\t" + strings.Join(ends, ",") + "\t" + fname + strand + "\n"
	if cs.Build == "after-minus" && !cs.Flag {
		// the judged feature (three columns: no strand given, so the forward one) follows a feature of the minus
		// strand and precedes one whose strand is given as +
		lines = "0\t1\tw\t-\n" + lines + "0\t1\tv\t+\n"
	}
	if !r.write("coords.txt", lines) {
		return
	}
	os.Remove(r.path("x.fa"))
	os.Remove(r.path(fname + ".fa"))
	args := []string{"extract", "-i", r.path("in.fa"), "-o", r.dir, "--coordinates", r.path("coords.txt")}
	limit, limitName := L, "L"
	var u []int
	class := ""
	if cs.Ref != "" {
		args = append(args, "--ref-seq", cs.Ref)
		r.op = "cli-extract-refseq"
		var found bool
		if u, found = c04RefPositions(in, cs.Ref); !found {
			class = "unknown-reference"
		}
		limit, limitName = len(u), "U"
	}
	emptyBlock := false
	var cols []int
	for b := 0; b < nb && class == ""; b++ {
		s, e := cs.Sites[2*b], cs.Sites[2*b+1]
		switch {
		case s < 0:
			class = "start<0"
		case e < s:
			class = "end<start"
		case s > limit:
			class = "start>" + limitName
		case e > limit:
			class = "end>" + limitName
		case s == e:
			emptyBlock = true
		case cs.Ref != "":
			cols = append(cols, c04Range(u[s], u[e-1]-u[s]+1)...)
		default:
			cols = append(cols, c04Range(s, e-s)...)
		}
	}
	err, ok := r.exec(class, args...)
	if !ok {
		return
	}
	if class != "" {
		if err == nil {
			b, _ := os.ReadFile(r.path(fname + ".fa"))
			r.k.viol(r.op, "out-of-range-accepted/"+class, fmt.Sprintf("the command succeeded (output %q) although a block is out of range (%s)", b, class))
		} else {
			r.k.c.Outcome("cli-extract:rejected:" + class)
		}
		return
	}
	if err != nil {
		if emptyBlock {
			// documented: "block length should be >0"
			r.k.c.Outcome("cli-extract:rejected:empty-block")
			return
		}
		r.k.viol(r.op, "unexpected-error", err.Error())
		return
	}
	want := c04Pick(in, cols)
	if cs.Flag {
		for i := range want {
			want[i].Seq = refRevComp(want[i].Seq)
		}
	}
	if r.output(fname+".fa", want) >= 0 {
		if cs.Flag {
			r.k.c.Outcome(fmt.Sprintf("cli-extract:ok:minus-strand:%d-blocks", nb))
		}
		if cs.Ref != "" {
			r.k.c.Outcome("cli-extract:ok:ref")
		} else {
			r.k.c.Outcome(fmt.Sprintf("cli-extract:ok:%d-blocks", nb))
		}
		r.k.c.Nontrivial("cli-extract|" + in.String() + "|" + fmt.Sprint(cs.Sites, cs.Ref))
	}
}

// ---- enumeration

func c04RunCLIAll(maxList int) func(c *mc.Ctx, seqs []string) {
	return func(c *mc.Ctx, seqs []string) {
		L := len(seqs[0])
		listLen, pairs := maxList, true
		if L > 3 {
			listLen, pairs = 1, false
		}
		refs := append([]string{""}, rowNames[:len(seqs)]...)
		refs = append(refs, c04Unknown)
		for _, ref := range refs {
			for _, rev := range []bool{false, true} {
				for s := -1; s <= L+1; s++ {
					for l := -1; l <= L+1; l++ {
						c04Check(c, c04Case{Op: "cli-subseq", Seqs: seqs, X: s, Y: l, Ref: ref, Flag: rev})
						if ref == "" {
							for step := 1; step <= 3; step++ {
								c04Check(c, c04Case{Op: "cli-subseq", Seqs: seqs, X: s, Y: l, Z: step, Flag: rev})
							}
						}
					}
				}
				c04ForLists(L, listLen, func(sites []int) {
					c04Check(c, c04Case{Op: "cli-subsites", Seqs: seqs, Sites: sites, Ref: ref, Flag: rev})
					if len(sites) > 0 && sites[0] >= 0 {
						c04Check(c, c04Case{Op: "cli-subsites", Seqs: seqs, Sites: sites, Ref: ref, Flag: rev, Build: "no-final-newline"})
						c04Check(c, c04Case{Op: "cli-subsites", Seqs: seqs, Sites: sites, Ref: ref, Flag: rev, Build: "args"})
					}
				})
			}
		}
		for _, ref := range refs {
			var valid [][2]int
			for s := -1; s <= L+1; s++ {
				for e := -1; e <= L+1; e++ {
					c04Check(c, c04Case{Op: "cli-extract", Seqs: seqs, Sites: []int{s, e}, Ref: ref})
					if ref == "" && 0 <= s && s < e && e <= L {
						c04Check(c, c04Case{Op: "cli-extract", Seqs: seqs, Sites: []int{s, e}, Build: "after-minus"})
						c04Check(c, c04Case{Op: "cli-extract", Seqs: seqs, Sites: []int{s, e}, Build: "blank-name"})
					}
					if 0 <= s && s < e && e <= L {
						c04Check(c, c04Case{Op: "cli-extract", Seqs: seqs, Sites: []int{s, e}, Ref: ref, Flag: true})
					}
					if 0 <= s && s < e && e <= L {
						valid = append(valid, [2]int{s, e})
					}
				}
			}
			// two blocks, any order, overlapping or not (blocks valid on the alignment; on a reference they may still be outside it)
			for _, b1 := range valid {
				for _, b2 := range valid {
					if !pairs {
						break
					}
					c04Check(c, c04Case{Op: "cli-extract", Seqs: seqs, Sites: []int{b1[0], b1[1], b2[0], b2[1]}, Ref: ref})
					c04Check(c, c04Case{Op: "cli-extract", Seqs: seqs, Sites: []int{b1[0], b1[1], b2[0], b2[1]}, Ref: ref, Flag: true})
				}
			}
		}
		for x := -1; x <= L+1; x++ {
			c04Check(c, c04Case{Op: "cli-trimseq", Seqs: seqs, X: x})
			c04Check(c, c04Case{Op: "cli-trimseq", Seqs: seqs, X: x, Flag: true})
		}
		c04ForMaps(L, 3, func(m []int) {
			c04Check(c, c04Case{Op: "cli-split", Seqs: seqs, Map: m, Build: "ranges"})
			c04Check(c, c04Case{Op: "cli-split", Seqs: seqs, Map: m, Build: "modulo"})
		})
		c04ForMaps(L+1, 2, func(m []int) {
			if len(c04Blocks(m)) == 2 {
				c04Check(c, c04Case{Op: "cli-split", Seqs: seqs, Map: m, Build: "ranges", PartLen: L + 1})
			}
		})
	}
}

// c04InDir gives every task its own directory.
func c04InDir(ts []mc.Task) []mc.Task {
	for i := range ts {
		run := ts[i].Run
		ts[i].Run = func(c *mc.Ctx) {
			d, err := c04TempDir("c04-")
			if err != nil {
				c.Fatal("%v", err)
				return
			}
			c04CLIDir = d
			defer func() {
				c04CLIDir = ""
				c04Written = map[string]string{}
				os.RemoveAll(d)
			}()
			run(c)
		}
	}
	return ts
}

func c04CLITasks(thorough bool) []mc.Task {
	var ts []mc.Task
	maxL, maxList := 3, 2
	if thorough {
		maxL, maxList = 4, 2
	}
	for L := 1; L <= maxL; L++ {
		ts = c04AlnTasks(ts, "cli", c04Alpha, 2, L, min(2*L-2, 5), c04RunCLIAll(maxList))
	}
	// concat: every pair of non-empty alignments of the library enumeration, lengths 1..2
	var firsts, seconds []c04Case
	for _, o := range c04Operands([]string{"a", "b"}, 2, 2) {
		if len(o.Seqs) > 0 && len(o.Seqs[0]) > 0 {
			firsts = append(firsts, o)
		}
	}
	for _, o := range c04Operands([]string{"a", "b", "c"}, 2, 2) {
		if len(o.Seqs) > 0 && len(o.Seqs[0]) > 0 {
			seconds = append(seconds, o)
		}
	}
	const chunk = 8
	for lo := 0; lo < len(firsts); lo += chunk {
		lo, hi := lo, min(lo+chunk, len(firsts))
		ts = append(ts, mc.Task{Name: fmt.Sprintf("cli-concat#%d", lo/chunk), Run: func(c *mc.Ctx) {
			for _, a := range firsts[lo:hi] {
				for _, b := range seconds {
					c04Check(c, c04Case{Op: "cli-concat", Names: a.Names, Seqs: a.Seqs, Names2: b.Names, Seqs2: b.Seqs})
				}
				if c.Expired() {
					return
				}
			}
		}})
	}
	return c04InDir(ts)
}

// refRevComp: reverse complement by the IUPAC definition (the oracle of C06).
func refRevComp(s string) string {
	comp, _ := c06ComplementString(s)
	b := []byte(comp)
	for x, y := 0, len(b)-1; x < y; x, y = x+1, y-1 {
		b[x], b[y] = b[y], b[x]
	}
	return string(b)
}
