package props

import (
	"encoding/json"
	"fmt"
	"math"
	"strings"

	"verif/harness/mc"

	"github.com/evolbioinfo/goalign/align"
	"github.com/evolbioinfo/goalign/io/fasta"
)

// Command-line layer of C14 (cmd/stats_gaps.go, computeentropy.go, maxchars.go, consensus.go,
// stats_mutations.go): what the commands print must be what the library calls they document return for the
// same options, rendered as the command renders them.  The library calls are judged by the oracle of c14.go.

type c14CLICase struct {
	CLI   bool     `json:"cli_stats"`
	Alpha string   `json:"alphabet"` // nt | aa
	Seqs  []string `json:"seqs"`
	Cmd   string   `json:"cmd"`  // gaps | entropy | maxchar | consensus | mutations
	Mode  string   `json:"mode"` // gaps: "", from-start, from-end, unique, openning; mutations: unique | a row name
	IgG   bool     `json:"ig,omitempty"`
	IgN   bool     `json:"in,omitempty"`
	Avg   bool     `json:"avg,omitempty"`
}

func c14CheckCLI(c *mc.Ctx, box *cliBox, cs c14CLICase) {
	c.Eval()
	viol := func(clause, desc string) {
		c.Violation("C14/cli-"+cs.Cmd+"/"+clause, fmt.Sprintf("%s: case %s", desc, jsonStr(cs)), cs)
	}
	alphabet := align.NUCLEOTIDS
	if cs.Alpha == "aa" {
		alphabet = align.AMINOACIDS
	}
	al, err := mkAlign(alphabet, namedRows(cs.Seqs...))
	if err != nil {
		c.Fatal("cannot build %s: %v", jsonStr(cs), err)
		return
	}
	var want strings.Builder
	var lerr error
	args := []string{}
	if pn, _ := mc.Guard(func() {
		switch cs.Cmd {
		case "gaps":
			args = []string{"stats", "gaps"}
			if cs.Mode != "" {
				args = append(args, "--"+cs.Mode)
			}
			var uniq []int
			if cs.Mode == "unique" {
				if uniq, _, _, lerr = al.NumGapsUniquePerSequence(nil); lerr != nil {
					return
				}
			}
			for i, s := range al.Sequences() {
				n := 0
				switch cs.Mode {
				case "from-start":
					n = s.NumGapsFromStart()
				case "from-end":
					n = s.NumGapsFromEnd()
				case "unique":
					n = uniq[i]
				case "openning":
					n = s.NumGapsOpenning()
				default:
					n = s.NumGaps()
				}
				fmt.Fprintf(&want, "%s\t%d\n", s.Name(), n)
			}
		case "entropy":
			args = []string{"compute", "entropy"}
			if cs.Avg {
				args = append(args, "-a")
				want.WriteString("Alignment\tAvgEntropy\n")
			} else {
				want.WriteString("Alignment\tSite\tEntropy\n")
			}
			if cs.IgG {
				args = append(args, "-g")
			}
			avg, total := 0.0, 0
			for i := 0; i < al.Length(); i++ {
				var e float64
				if e, lerr = al.Entropy(i, cs.IgG); lerr != nil {
					return
				}
				if cs.Avg {
					if !math.IsNaN(e) {
						avg += e
						total++
					}
				} else {
					fmt.Fprintf(&want, "0\t%d\t%.3f\n", i, e)
				}
			}
			if cs.Avg {
				fmt.Fprintf(&want, "0\t%.3f\n", avg/float64(total))
			}
		case "maxchar":
			args = []string{"stats", "maxchar"}
			out, occ, _ := al.MaxCharStats(cs.IgG, cs.IgN)
			want.WriteString("site\tchar\tnb\n")
			for i, ch := range out {
				fmt.Fprintf(&want, "%d\t%c\t%d\n", i, ch, occ[i])
			}
		case "consensus":
			args = []string{"consensus"}
			want.WriteString(fasta.WriteAlignment(al.Consensus(cs.IgG, cs.IgN)))
		case "mutations":
			args = []string{"stats", "mutations"}
			if cs.Mode == "unique" {
				args = append(args, "--unique")
				var u []int
				if u, _, _, lerr = al.NumMutationsUniquePerSequence(nil); lerr != nil {
					return
				}
				for i, s := range al.Sequences() {
					fmt.Fprintf(&want, "%s\t%d\n", s.Name(), u[i])
				}
			} else {
				args = append(args, "--ref-sequence", cs.Mode)
				ref, _ := al.GetSequence(cs.Mode)
				for _, s := range al.Sequences() {
					var n int
					if n, lerr = s.NumMutationsComparedToReferenceSequence(al.Alphabet(), align.NewSequence("ref", []uint8(ref), "")); lerr != nil {
						return
					}
					fmt.Fprintf(&want, "%s\t%d\n", s.Name(), n)
				}
			}
		}
		if cs.Cmd == "maxchar" || cs.Cmd == "consensus" {
			if cs.IgG {
				args = append(args, "--ignore-gaps")
			}
			if cs.IgN {
				args = append(args, "--ignore-n")
			}
		}
	}); pn {
		return // reported by the library cases
	}
	if !box.put(c, "in.fa", cliFasta(rowNames, cs.Seqs)) {
		return
	}
	args = append(args, "-i", "@in.fa", "--alphabet", cs.Alpha)
	c.Mark(cs)
	got, cerr, pn, msg, herr := box.runStdout(c, args...)
	if herr {
		return
	}
	if pn {
		viol("panic/"+mc.PanicSite(msg), msg)
		return
	}
	if lerr != nil {
		if cerr == nil {
			viol("library-error-not-reported", fmt.Sprintf("the library refuses the call (%v); the command prints %q", lerr, got))
			return
		}
		c.Outcome("cli-" + cs.Cmd + ":refused")
		return
	}
	if cerr != nil {
		viol("command-fails", fmt.Sprintf("goalign %s: %v", strings.Join(args, " "), cerr))
		return
	}
	c.Nontrivial(jsonStr(cs))
	if got != want.String() {
		viol("output-differs-from-library", fmt.Sprintf("goalign %s prints %q; the library calls with these options give %q", strings.Join(args, " "), got, want.String()))
		return
	}
	c.Outcome("cli-" + cs.Cmd + ":same")
}

func c14CLITasks() []mc.Task {
	var ts []mc.Task
	for _, alpha := range []string{"nt", "aa"} {
		alpha := alpha
		ts = append(ts, mc.Task{Name: "cli-stats#" + alpha, Run: func(c *mc.Ctx) {
			box := newCLIBox(c, "c14-cli-")
			if box == nil {
				return
			}
			defer box.close()
			w := "N"
			if alpha == "aa" {
				w = "X"
			}
			var alns [][]string
			forEachAlignment("AC-"+w, 2, 2, func(seqs []string) bool {
				alns = append(alns, append([]string{}, seqs...))
				return true
			})
			alns = append(alns, []string{"--AC-A--", "-AAC--A-", "A-CC-AA-"}, []string{"A" + w + "-C", "AC-C", w + w + "-A", "ACAA"}, []string{"-"}, []string{"A"})
			for _, seqs := range alns {
				for _, mode := range []string{"", "from-start", "from-end", "unique", "openning"} {
					c14CheckCLI(c, box, c14CLICase{CLI: true, Alpha: alpha, Seqs: seqs, Cmd: "gaps", Mode: mode})
				}
				for m := 0; m < 4; m++ {
					c14CheckCLI(c, box, c14CLICase{CLI: true, Alpha: alpha, Seqs: seqs, Cmd: "entropy", Avg: m&1 != 0, IgG: m&2 != 0})
					c14CheckCLI(c, box, c14CLICase{CLI: true, Alpha: alpha, Seqs: seqs, Cmd: "maxchar", IgG: m&1 != 0, IgN: m&2 != 0})
					c14CheckCLI(c, box, c14CLICase{CLI: true, Alpha: alpha, Seqs: seqs, Cmd: "consensus", IgG: m&1 != 0, IgN: m&2 != 0})
				}
				c14CheckCLI(c, box, c14CLICase{CLI: true, Alpha: alpha, Seqs: seqs, Cmd: "mutations", Mode: "unique"})
				for i := range seqs {
					if i < 2 {
						c14CheckCLI(c, box, c14CLICase{CLI: true, Alpha: alpha, Seqs: seqs, Cmd: "mutations", Mode: rowNames[i]})
					}
				}
				if c.Expired() {
					return
				}
			}
		}})
	}
	return ts
}

func c14CLIReplay(c *mc.Ctx, payload []byte) bool {
	var cs c14CLICase
	if err := json.Unmarshal(payload, &cs); err != nil || !cs.CLI {
		return false
	}
	box := newCLIBox(c, "c14-cli-")
	if box == nil {
		return true
	}
	defer box.close()
	c14CheckCLI(c, box, cs)
	return true
}
