package props

import (
	"encoding/json"
	"fmt"
	"math"
	"runtime"
	"sort"
	"strings"

	"verif/harness/mc"

	"github.com/evolbioinfo/goalign/align"
	"github.com/evolbioinfo/goalign/verifrt/vrand"
	"github.com/evolbioinfo/goalign/verifrt/vrt"
)

// C10 — randomised operations keep their invariants, reach every admissible
// outcome, and replay from a seed.
//
// Each rand.Intn / rand.Perm / rand.Float64 answer inside an operation is a
// choice point; the explorer enumerates EVERY sequence of answers (no bound).
// Per leaf: the operation's invariant.  Over the whole tree: the set of
// outcomes reached equals the admissible set ("positive probability" decided as
// reachability, assuming rand.Intn(n) can return every value in [0,n)).
// Seed replay: the real seeded stream, run twice (and under map-order choices
// where the operation ranges over a map).

type c10Case struct {
	Op      string      `json:"op"`
	Seqs    []string    `json:"seqs"`
	Alpha   int         `json:"alphabet"`
	F1      float64     `json:"f1,omitempty"`
	F2      float64     `json:"f2,omitempty"`
	N       int         `json:"n,omitempty"`
	B       bool        `json:"b,omitempty"`
	Counts  []int       `json:"counts,omitempty"`
	Seed    int64       `json:"seed,omitempty"`
	Mode    string      `json:"mode"`            // tree | leaf | seed | large
	Shape   []int       `json:"shape,omitempty"` // large: rows, columns of the generated alignment (Seqs is empty)
	Procs   int         `json:"gomaxprocs,omitempty"`
	Choices []vrt.Point `json:"choices,omitempty"`
}

type c10Res struct {
	Rows  rows
	Len   int
	Err   string
	Aux   []string // rogue names etc.
	Aux2  []string
	Input rows // the input after the call (for operations that return a new object)
}

func (r c10Res) key() string {
	return fmt.Sprintf("%v|%d|%s|%v|%v", r.Rows, r.Len, r.Err, r.Aux, r.Aux2)
}

// c10Apply runs the real operation on a fresh alignment.
func c10Apply(cs c10Case) c10Res {
	var res c10Res
	if cs.Op == "samplebag" && c10Ragged(cs.Seqs) {
		// a plain sequence set whose sequences have different lengths
		sb, err := mkSeqBag(cs.Alpha, namedRows(cs.Seqs...))
		if err != nil {
			res.Err = "build:" + err.Error()
			return res
		}
		out, err := sb.SampleSeqBag(cs.N)
		if err != nil {
			res.Err = err.Error()
		} else {
			res.Rows = readRows(out)
		}
		res.Input = readRows(sb)
		return res
	}
	al, err := mkAlign(cs.Alpha, namedRows(cs.Seqs...))
	if err != nil {
		res.Err = "build:" + err.Error()
		return res
	}
	out := align.Alignment(al)
	inPlace := true
	switch cs.Op {
	case "shuffleseqs":
		al.ShuffleSequences()
	case "shufflesites":
		res.Aux = al.ShuffleSites(cs.F1, cs.F2, cs.B)
	case "swap":
		err = al.Swap(cs.F1, cs.F2)
	case "rogue":
		res.Aux, res.Aux2 = al.SimulateRogue(cs.F1, cs.F2)
	case "bootstrap":
		out, inPlace = al.BuildBootstrap(cs.F1), false
	case "bootstrap2":
		// a replicate is drawn, the alignment is edited in place without changing its shape (case folding),
		// and a second replicate is drawn: its columns are columns of the alignment as it is now
		al.BuildBootstrap(1)
		al.ToLower()
		out, inPlace = al.BuildBootstrap(cs.F1), false
		res.Rows = readRows(out)
		res.Len = out.Length()
		return res
	case "bootparts":
		// bootstrap of a partitioned alignment, the way build seqboot --partition does it: each block
		// is bootstrapped on its own and the replicates are concatenated
		L := al.Length()
		var p1, p2 align.Alignment
		if p1, err = al.SubAlign(0, cs.N); err == nil {
			if p2, err = al.SubAlign(cs.N, L-cs.N); err == nil {
				b1, b2 := p1.BuildBootstrap(1), p2.BuildBootstrap(1)
				err = b1.Concat(b2)
				out = b1
			}
		}
		inPlace = false
	case "sample":
		out, err = al.Sample(cs.N)
		inPlace = false
	case "samplebag":
		var sb align.SeqBag
		sb, err = al.SampleSeqBag(cs.N)
		inPlace = false
		if err == nil {
			res.Rows = readRows(sb)
			res.Input = readRows(al)
			return res
		}
	case "randsub":
		out, err = al.RandSubAlign(cs.N, cs.B)
		inPlace = false
	case "recombine":
		err = al.Recombine(cs.F1, cs.F2, cs.B)
		if err == nil && cs.N == 1 {
			// the rows are then edited one cell at a time: every write reaches its own cell only (rows that
			// recombination made equal are still rows of their own)
			want := readRows(al)
			for i := range want {
				if len(want[i].Seq) == 0 {
					continue
				}
				if e := al.SetSequenceChar(i, 0, '?'); e != nil {
					res.Aux = append(res.Aux, fmt.Sprintf("SetSequenceChar(%d,0) fails: %v", i, e))
					break
				}
				want[i].Seq = "?" + want[i].Seq[1:]
				if got := readRows(al); !sameRows(got, want) {
					res.Aux = append(res.Aux, fmt.Sprintf("after writing cell (%d,0) the rows read %v, expected %v", i, got, want))
					break
				}
			}
			for i := range want {
				if len(want[i].Seq) > 0 {
					al.SetSequenceChar(i, 0, cs.Seqs[0][0]) // any letter of the alphabet: the leaf check reads columns >= 1 only after this
				}
			}
		}
	case "addgaps":
		al.AddGaps(cs.F1, cs.F2)
	case "mutate":
		al.Mutate(cs.F1)
	case "rarefy":
		counts := map[string]int{}
		for i, n := range cs.Counts {
			if n != 0 {
				counts[namedRows(cs.Seqs...)[i].Name] = n
			}
		}
		out, err = al.Rarefy(cs.N, counts)
		inPlace = false
	default:
		panic("unknown op " + cs.Op)
	}
	if err != nil {
		res.Err = err.Error()
		if !inPlace {
			res.Input = readRows(al)
			return res
		}
	}
	if out != nil {
		res.Rows = readRows(out)
		res.Len = out.Length()
	}
	if !inPlace {
		res.Input = readRows(al)
	}
	return res
}

func c10Ragged(seqs []string) bool {
	for _, x := range seqs {
		if len(x) != len(seqs[0]) {
			return true
		}
	}
	return false
}

func multiset(s string) string {
	b := []byte(s)
	sort.Slice(b, func(i, j int) bool { return b[i] < b[j] })
	return string(b)
}

func column(r rows, j int) string {
	b := make([]byte, len(r))
	for i := range r {
		b[i] = r[i].Seq[j]
	}
	return string(b)
}

func sameNamesLens(in, out rows) bool {
	if len(in) != len(out) {
		return false
	}
	for i := range in {
		if in[i].Name != out[i].Name || len(in[i].Seq) != len(out[i].Seq) {
			return false
		}
	}
	return true
}

// c10Leaf checks the invariant the operation promises on one outcome.
// It returns ("", "") when the outcome is admissible.
func c10Leaf(cs c10Case, res c10Res) (clause, desc string) {
	in := namedRows(cs.Seqs...)
	n, L := len(in), len(in[0].Seq)
	out := res.Rows
	bad := func(cl, f string, a ...any) (string, string) { return cl, fmt.Sprintf(f, a...) }
	if res.Input != nil && !sameRows(res.Input, in) {
		return bad("input-modified", "the input alignment changed to %v", res.Input)
	}
	op := cs.Op
	if op == "bootstrap2" {
		op = "bootstrap"
		for i := range in {
			in[i].Seq = strings.ToLower(in[i].Seq)
		}
	}
	switch op {
	case "shuffleseqs":
		a, b := []string{}, []string{}
		for i := range in {
			a = append(a, in[i].Name+"="+in[i].Seq)
		}
		for i := range out {
			b = append(b, out[i].Name+"="+out[i].Seq)
		}
		if strings.Join(sortedCopy(a), ";") != strings.Join(sortedCopy(b), ";") {
			return bad("not-a-row-permutation", "rows %v", out)
		}
	case "shufflesites", "swap":
		if res.Err != "" {
			if cs.Op == "swap" && (cs.F1 < 0 || cs.F1 > 1) {
				return "", ""
			}
			return bad("unexpected-error", "%s", res.Err)
		}
		if !sameNamesLens(in, out) {
			return bad("names-or-shape-changed", "rows %v", out)
		}
		for j := 0; j < L; j++ {
			if multiset(column(in, j)) != multiset(column(out, j)) {
				return bad("column-multiset-changed", "column %d: %q became %q", j, column(in, j), column(out, j))
			}
		}
	case "rogue":
		if !sameNamesLens(in, out) {
			return bad("names-or-shape-changed", "rows %v", out)
		}
		if cs.F1 < 0 || cs.F1 > 1 || cs.F2 < 0 || cs.F2 > 1 {
			if !sameRows(in, out) {
				return bad("changed-on-invalid-parameters", "rows %v", out)
			}
			return "", ""
		}
		rog := map[string]bool{}
		for _, x := range res.Aux {
			if rog[x] {
				return bad("rogue-listed-twice", "rogue %v intact %v", res.Aux, res.Aux2)
			}
			rog[x] = true
		}
		all := map[string]bool{}
		for _, x := range res.Aux2 {
			if rog[x] || all[x] {
				return bad("rogue-intact-not-a-partition", "rogue %v intact %v", res.Aux, res.Aux2)
			}
			all[x] = true
		}
		for x := range rog {
			all[x] = true
		}
		for _, r := range in {
			if !all[r.Name] {
				return bad("rogue-intact-not-a-partition", "row %s is in neither list: rogue %v intact %v", r.Name, res.Aux, res.Aux2)
			}
		}
		if len(all) != n {
			return bad("rogue-intact-not-a-partition", "rogue %v intact %v", res.Aux, res.Aux2)
		}
		for i := range in {
			if rog[in[i].Name] {
				if multiset(in[i].Seq) != multiset(out[i].Seq) {
					return bad("rogue-row-not-a-permutation", "row %s %q became %q", in[i].Name, in[i].Seq, out[i].Seq)
				}
			} else if in[i].Seq != out[i].Seq {
				return bad("intact-row-changed", "row %s %q became %q", in[i].Name, in[i].Seq, out[i].Seq)
			}
		}
	case "bootstrap":
		frac := cs.F1
		if frac <= 0 || frac > 1 {
			frac = 1 // documented: treated as a full bootstrap
		}
		want := int(math.Floor(frac * float64(L)))
		if len(out) != n {
			return bad("rows-changed", "rows %v", out)
		}
		for i := range out {
			if out[i].Name != in[i].Name || len(out[i].Seq) != want {
				return bad("length-not-floor-frac-L", "row %v, want length %d", out[i], want)
			}
		}
		for j := 0; j < want; j++ {
			ok := false
			for k := 0; k < L; k++ {
				if column(out, j) == column(in, k) {
					ok = true
				}
			}
			if !ok {
				return bad("column-not-an-original-column", "output column %d = %q", j, column(out, j))
			}
		}
	case "bootparts":
		if res.Err != "" {
			return bad("unexpected-error", "%s", res.Err)
		}
		if len(out) != n {
			return bad("rows-changed", "rows %v", out)
		}
		for i := range out {
			if out[i].Name != in[i].Name || len(out[i].Seq) != L {
				return bad("length-not-floor-frac-L", "row %v, want length %d", out[i], L)
			}
		}
		for j := 0; j < L; j++ {
			lo, hi := 0, cs.N
			if j >= cs.N {
				lo, hi = cs.N, L
			}
			ok := false
			for k := lo; k < hi; k++ {
				if column(out, j) == column(in, k) {
					ok = true
				}
			}
			if !ok {
				return bad("column-not-an-original-column", "output column %d = %q is not a column of its block [%d,%d)", j, column(out, j), lo, hi)
			}
		}
	case "sample", "samplebag":
		if cs.N < 1 || cs.N > n {
			if res.Err == "" {
				return bad("no-error-on-invalid-size", "rows %v", out)
			}
			return "", ""
		}
		if res.Err != "" {
			return bad("unexpected-error", "%s", res.Err)
		}
		if len(out) != cs.N {
			return bad("wrong-number-of-rows", "rows %v", out)
		}
		seen := map[string]bool{}
		for _, r := range out {
			found := false
			for _, x := range in {
				if x == r {
					found = true
				}
			}
			if !found || seen[r.Name] {
				return bad("not-distinct-original-rows", "rows %v", out)
			}
			seen[r.Name] = true
		}
	case "randsub":
		if cs.N <= 0 || cs.N > L {
			if res.Err == "" {
				return bad("no-error-on-invalid-length", "rows %v", out)
			}
			return "", ""
		}
		if res.Err != "" {
			return bad("unexpected-error", "%s", res.Err)
		}
		if len(out) != n {
			return bad("rows-changed", "rows %v", out)
		}
		for i := range out {
			if out[i].Name != in[i].Name || len(out[i].Seq) != cs.N {
				return bad("shape", "row %v", out[i])
			}
		}
		// columns of the position-coded input are pairwise distinct, so each output column identifies its origin
		var idx []int
		for j := 0; j < cs.N; j++ {
			k := -1
			for q := 0; q < L; q++ {
				if column(out, j) == column(in, q) {
					k = q
				}
			}
			if k < 0 {
				return bad("column-not-an-original-column", "output column %d = %q", j, column(out, j))
			}
			idx = append(idx, k)
		}
		if cs.B {
			for j := 1; j < len(idx); j++ {
				if idx[j] != idx[j-1]+1 {
					return bad("window-not-contiguous", "columns %v", idx)
				}
			}
		} else {
			s := map[int]bool{}
			for _, k := range idx {
				if s[k] {
					return bad("columns-not-distinct", "columns %v", idx)
				}
				s[k] = true
			}
		}
	case "recombine":
		if cs.F1 < 0 || cs.F1 > 0.5 || cs.F2 < 0 || cs.F2 > 1 {
			if res.Err == "" {
				return bad("no-error-on-invalid-parameters", "rows %v", out)
			}
			return "", ""
		}
		if res.Err != "" {
			return bad("unexpected-error", "%s", res.Err)
		}
		if len(res.Aux) > 0 {
			return bad("write-after-recombination-reaches-another-row", "%s", res.Aux[0])
		}
		if !sameNamesLens(in, out) {
			return bad("names-or-shape-changed", "rows %v", out)
		}
		for i := range out {
			for j := 0; j < L; j++ {
				if !strings.ContainsRune(column(in, j), rune(out[i].Seq[j])) {
					return bad("residue-not-from-same-column", "cell (%d,%d)=%c, input column %q", i, j, out[i].Seq[j], column(in, j))
				}
			}
		}
	case "addgaps":
		if !sameNamesLens(in, out) {
			return bad("names-or-shape-changed", "rows %v", out)
		}
		for i := range out {
			for j := 0; j < L; j++ {
				if out[i].Seq[j] != in[i].Seq[j] && out[i].Seq[j] != '-' {
					return bad("residue-changed-to-non-gap", "cell (%d,%d) %c -> %c", i, j, in[i].Seq[j], out[i].Seq[j])
				}
			}
		}
	case "mutate":
		if !sameNamesLens(in, out) {
			return bad("names-or-shape-changed", "rows %v", out)
		}
		letters := "ACGT"
		if cs.Alpha == align.AMINOACIDS {
			letters = "ARNDCQEGHILKMFPSTWYV"
		}
		for i := range out {
			for j := 0; j < L; j++ {
				a, b := in[i].Seq[j], out[i].Seq[j]
				if a == b {
					continue
				}
				if a == '-' {
					return bad("gap-replaced", "cell (%d,%d) %c -> %c", i, j, a, b)
				}
				if !strings.ContainsRune(letters, rune(b)) {
					return bad("replacement-not-an-alphabet-letter", "cell (%d,%d) %c -> %c", i, j, a, b)
				}
			}
		}
	case "rarefy":
		total := 0
		for _, x := range cs.Counts {
			total += x
		}
		if cs.N >= total {
			if res.Err == "" {
				return bad("no-error-on-invalid-size", "rows %v", out)
			}
			return "", ""
		}
		if res.Err != "" {
			return bad("unexpected-error", "%s", res.Err)
		}
		// distinct original rows, in original order, only rows with a positive count, at most N of them
		k := 0
		for _, r := range out {
			for k < n && in[k] != r {
				k++
			}
			if k == n {
				return bad("not-original-rows-in-order", "rows %v", out)
			}
			if cs.Counts[k] <= 0 {
				return bad("row-without-count-selected", "rows %v", out)
			}
			k++
		}
		if len(out) > cs.N || (cs.N > 0 && len(out) == 0) {
			return bad("wrong-number-of-rows", "rows %v for %d draws", out, cs.N)
		}
	}
	return "", ""
}

// c10Support returns the admissible outcome set (keys as produced by c10OutcomeKey)
// for the operations whose support the statement pins down, nil otherwise.
func c10Support(cs c10Case) map[string]bool {
	in := namedRows(cs.Seqs...)
	n, L := len(in), len(in[0].Seq)
	adm := map[string]bool{}
	switch cs.Op {
	case "shuffleseqs":
		perms(n, func(p []int) {
			r := make(rows, n)
			for i := range p {
				r[i] = in[p[i]]
			}
			adm[r.String()] = true
		})
	case "bootstrap":
		frac := cs.F1
		if frac <= 0 || frac > 1 {
			frac = 1
		}
		m := int(math.Floor(frac * float64(L)))
		idx := make([]int, m)
		var rec func(k int)
		rec = func(k int) {
			if k == m {
				r := make(rows, n)
				for i := range in {
					b := make([]byte, m)
					for j, q := range idx {
						b[j] = in[i].Seq[q]
					}
					r[i] = row{in[i].Name, string(b)}
				}
				adm[r.String()] = true
				return
			}
			for q := 0; q < L; q++ {
				idx[k] = q
				rec(k + 1)
			}
		}
		rec(0)
	case "sample", "samplebag":
		if cs.N < 1 || cs.N > n {
			return nil
		}
		// every k-subset of rows (in any order the implementation likes): keys are sorted name sets
		var rec func(start int, cur []string)
		rec = func(start int, cur []string) {
			if len(cur) == cs.N {
				adm[strings.Join(cur, ",")] = true
				return
			}
			for i := start; i < n; i++ {
				rec(i+1, append(append([]string{}, cur...), in[i].Name))
			}
		}
		rec(0, nil)
	case "randsub":
		if cs.N <= 0 || cs.N > L {
			return nil
		}
		if cs.B {
			for s := 0; s+cs.N <= L; s++ {
				adm[fmt.Sprint("window@", s)] = true
			}
		} else {
			var rec func(start int, cur []int)
			rec = func(start int, cur []int) {
				if len(cur) == cs.N {
					adm[fmt.Sprint("cols", cur)] = true
					return
				}
				for i := start; i < L; i++ {
					rec(i+1, append(append([]int{}, cur...), i))
				}
			}
			rec(0, nil)
		}
	case "shufflesites":
		if cs.F1 != 1 {
			return nil
		}
		// rate 1: every column independently takes every permutation of its characters
		cols := make([][]string, L)
		for j := 0; j < L; j++ {
			set := map[string]bool{}
			c := column(in, j)
			perms(n, func(p []int) {
				b := make([]byte, n)
				for i := range p {
					b[i] = c[p[i]]
				}
				set[string(b)] = true
			})
			for k := range set {
				cols[j] = append(cols[j], k)
			}
			sort.Strings(cols[j])
		}
		cur := make([]string, L)
		var rec func(j int)
		rec = func(j int) {
			if j == L {
				r := make(rows, n)
				for i := range r {
					b := make([]byte, L)
					for q := 0; q < L; q++ {
						b[q] = cur[q][i]
					}
					r[i] = row{in[i].Name, string(b)}
				}
				adm[r.String()] = true
				return
			}
			for _, c := range cols[j] {
				cur[j] = c
				rec(j + 1)
			}
		}
		rec(0)
	case "mutate":
		// rate >= 1: every cell that is not a gap or special character takes "a random nucleotide or amino
		// acid uniformly": every letter of the alphabet, independently per cell (small shapes only)
		if cs.F1 < 1 || n*L > 2 {
			return nil
		}
		letters := "ACGT"
		if cs.Alpha == align.AMINOACIDS {
			letters = "ARNDCQEGHILKMFPSTWYV"
		}
		cells := []string{""}
		for i := 0; i < n; i++ {
			for j := 0; j < L; j++ {
				var next []string
				for _, pre := range cells {
					if ch := in[i].Seq[j]; ch == '-' || ch == '.' || ch == '*' {
						next = append(next, pre+string(ch))
						continue
					}
					for k := 0; k < len(letters); k++ {
						next = append(next, pre+letters[k:k+1])
					}
				}
				cells = next
			}
		}
		for _, flat := range cells {
			r := in.clone()
			for i := range r {
				r[i].Seq = flat[i*L : (i+1)*L]
			}
			adm[r.String()] = true
		}
	default:
		return nil
	}
	return adm
}

func c10OutcomeKey(cs c10Case, res c10Res) string {
	in := namedRows(cs.Seqs...)
	switch cs.Op {
	case "sample", "samplebag":
		var names []string
		for _, r := range res.Rows {
			names = append(names, r.Name)
		}
		return strings.Join(sortedCopy(names), ",")
	case "randsub":
		if len(res.Rows) == 0 {
			return "error"
		}
		var idx []int
		for j := 0; j < len(res.Rows[0].Seq); j++ {
			for q := 0; q < len(in[0].Seq); q++ {
				if column(res.Rows, j) == column(in, q) {
					idx = append(idx, q)
				}
			}
		}
		if cs.B {
			if len(idx) == 0 {
				return "?"
			}
			return fmt.Sprint("window@", idx[0])
		}
		sort.Ints(idx)
		return fmt.Sprint("cols", idx)
	}
	return res.Rows.String()
}

func c10FloatReps(cs c10Case) []float64 {
	switch cs.Op {
	case "mutate":
		r := cs.F1
		if r > 1 {
			r = 1
		}
		if r <= 0 {
			return []float64{0.5}
		}
		if r >= 1 {
			return []float64{0, 0.5, 0.999}
		}
		return []float64{r / 2, r, (1 + r) / 2} // r itself: the documented test is "<= rate"
	case "rarefy":
		// midpoints of all cumulative-probability intervals k/total for total <= sum of counts, plus the edges
		total := 0
		for _, x := range cs.Counts {
			total += x
		}
		set := map[float64]bool{0: true, 0.999999: true}
		for t := 1; t <= total; t++ {
			for k := 0; k < t; k++ {
				set[(float64(k)+0.5)/float64(t)] = true
			}
		}
		var out []float64
		for f := range set {
			out = append(out, f)
		}
		sort.Float64s(out)
		return out
	}
	return []float64{0.5}
}

func c10Run(c *mc.Ctx, cs c10Case) {
	viol := func(clause, desc string, pts []vrt.Point) {
		r := cs
		r.Mode, r.Choices = "leaf", pts
		c.Violation("C10/"+cs.Op+"/"+clause, fmt.Sprintf("%s; case %s answers=[%s]", desc, jsonStr(cs), mc.RenderPoints(pts)), r)
	}
	switch cs.Mode {
	case "seed":
		c10Seed(c, cs)
		return
	case "large":
		c10LargeProbe(c, cs)
		return
	case "seed-procs":
		c10SeedProcs(c, cs)
		return
	}
	ex := &mc.Explorer{
		Ctx:  c,
		Opts: vrt.Options{RandMode: vrt.RandChoice, FloatReps: c10FloatReps(cs), CatchExit: true, MaxRand: 10000},
		Body: func() any { return c10Apply(cs) },
	}
	reached := map[string]bool{}
	failed := false
	ex.Check = func(x *mc.Execution) {
		if x.Panic != nil {
			if _, ok := x.Panic.(vrt.ExitPanic); ok {
				// explicit error + exit inside library code (ShuffleSites on invalid rates)
				c.Outcome(cs.Op + ":exit")
				return
			}
			failed = true
			viol("panic", fmt.Sprint(x.Panic), x.Exec.Points)
			return
		}
		if x.Exec.RandBudget {
			failed = true
			viol("does-not-terminate", "more than 10000 random draws", x.Exec.Points)
			return
		}
		res := x.Result.(c10Res)
		if cl, desc := c10Leaf(cs, res); cl != "" {
			failed = true
			viol(cl, desc, x.Exec.Points)
			return
		}
		reached[c10OutcomeKey(cs, res)] = true
		c.Nontrivial(fmt.Sprintf("%v|%s", cs, x.Choices()))
		if ex.Executions%97 == 1 {
			if !ex.Deterministic(x, func(a, b *mc.Execution) bool { return a.Result.(c10Res).key() == b.Result.(c10Res).key() }) {
				c.Fatal("replaying answers [%s] of %s gave a different result", x.Choices(), jsonStr(cs))
				ex.Stop()
			}
		}
		if ex.Executions == 4 {
			c.Sample(map[string]any{"case": cs, "answers": x.Choices(), "result": res.Rows})
		}
	}
	if cs.Mode == "leaf" {
		x := ex.RunOnce(cs.Choices)
		c.Eval()
		ex.Executions = 2
		ex.Check(x)
		return
	}
	complete := ex.Explore()
	c.Count("rng_trees", 1)
	c.Count("rng_leaves", ex.Executions)
	c.Outcome(fmt.Sprintf("%s:outcomes%d", cs.Op, min(len(reached), 9)))
	if !complete || failed {
		if !complete {
			c.Count("rng_trees_capped", 1)
		}
		return
	}
	if adm := c10Support(cs); adm != nil {
		c.Count("support_sets_compared", 1)
		var missing, extra []string
		for k := range adm {
			if !reached[k] {
				missing = append(missing, k)
			}
		}
		for k := range reached {
			if !adm[k] {
				extra = append(extra, k)
			}
		}
		sort.Strings(missing)
		sort.Strings(extra)
		if len(missing) > 0 {
			r := cs
			r.Mode = "tree"
			c.Violation("C10/"+cs.Op+"/admissible-outcome-unreachable", fmt.Sprintf("no sequence of random answers yields %q (%d of %d admissible outcomes unreachable); case %s", missing[0], len(missing), len(adm), jsonStr(cs)), r)
		}
		if len(extra) > 0 {
			r := cs
			r.Mode = "tree"
			c.Violation("C10/"+cs.Op+"/outcome-not-admissible", fmt.Sprintf("reached %q which is not admissible; case %s", extra[0], jsonStr(cs)), r)
		}
	}
}

// c10Seed: the real seeded stream, twice, must give identical results; where
// the operation ranges over a map also under every explored map order.
func c10Seed(c *mc.Ctx, cs c10Case) {
	c.Eval()
	run := func() c10Res {
		rand.Seed(cs.Seed)
		return c10Apply(cs)
	}
	var a c10Res
	if pn, msg, _ := mc.GuardExit(func() { a = run() }); pn {
		c.Violation("C10/"+cs.Op+"/panic", msg+"; case "+jsonStr(cs), cs)
		return
	}
	ex := &mc.Explorer{
		Ctx:   c,
		Opts:  vrt.Options{RandMode: vrt.RandPass, MapChoice: true, CatchExit: true},
		Bound: map[string]int{"map": 2},
		Body:  func() any { return run() },
	}
	ex.Check = func(x *mc.Execution) {
		if x.Panic != nil {
			if _, ok := x.Panic.(vrt.ExitPanic); ok {
				return
			}
			c.Violation("C10/"+cs.Op+"/panic", fmt.Sprint(x.Panic)+"; case "+jsonStr(cs), cs)
			return
		}
		if b := x.Result.(c10Res); b.key() != a.key() {
			c.Violation("C10/"+cs.Op+"/seed-replay-differs", fmt.Sprintf("seed %d gave %v then %v (map orders [%s]); case %s", cs.Seed, a.Rows, b.Rows, x.Choices(), jsonStr(cs)), cs)
			ex.Stop()
		}
	}
	ex.Explore()
	if cl, desc := c10Leaf(cs, a); cl != "" {
		c.Violation("C10/"+cs.Op+"/"+cl, fmt.Sprintf("%s; seeded case %s", desc, jsonStr(cs)), cs)
		return
	}
	c.Nontrivial(fmt.Sprintf("seed|%v", cs))
	c.Outcome(cs.Op + ":seed-replay-ok")
}

// c10SeedProcs: "re-running with the same seed reproduces the result exactly" on an alignment large enough for
// code that shares the work between goroutines (64 x 1100 cells): the seeded run with GOMAXPROCS 1 against the
// seeded runs with 2, 3, 4 and 8 (a machine with another number of processors is another run of the same
// command), each twice.
func c10SeedProcs(c *mc.Ctx, cs c10Case) {
	c.Eval()
	run := cs
	run.Seqs = c10LargeRows(cs.Shape[0], cs.Shape[1])
	one := func(procs int) (res c10Res, pn bool, msg string) {
		pn, msg, _ = mc.GuardExit(func() {
			defer runtime.GOMAXPROCS(runtime.GOMAXPROCS(procs))
			rand.Seed(cs.Seed)
			res = c10Apply(run)
		})
		return
	}
	ref, pn, msg := one(1)
	if pn {
		c.Violation("C10/"+cs.Op+"/panic", msg+"; case "+jsonStr(cs), cs)
		return
	}
	for _, procs := range []int{1, 2, 3, 4, 8} {
		for rep := 0; rep < 2; rep++ {
			got, pn, msg := one(procs)
			if pn {
				c.Violation("C10/"+cs.Op+"/panic", msg+"; case "+jsonStr(cs), cs)
				return
			}
			if got.key() != ref.key() {
				c.Violation("C10/"+cs.Op+"/seed-replay-differs-with-processors", fmt.Sprintf("seed %d on a %dx%d alignment: the run with GOMAXPROCS %d differs from the run with GOMAXPROCS 1; case %s", cs.Seed, cs.Shape[0], cs.Shape[1], procs, jsonStr(cs)), cs)
				return
			}
		}
	}
	c.Nontrivial(fmt.Sprintf("seedprocs|%v", cs))
	c.Outcome(cs.Op + ":seed-replay-ok-with-processors")
}

// c10LargeRows: n x L rows over ACGT whose columns are pairwise distinct (rows 0..5 spell the column
// number in base 4) and whose rows are pairwise distinct.
func c10LargeRows(n, L int) []string {
	out := make([]string, n)
	for i := range out {
		b := make([]byte, L)
		for j := range b {
			if i < 6 {
				b[j] = "ACGT"[(j>>(2*i))&3]
			} else {
				b[j] = "ACGT"[(i*131+j*31+(i*j)%7+(j>>(i%9)))&3]
			}
		}
		out[i] = string(b)
	}
	return out
}

// c10LargeProbe: the sampling operations on an alignment of 64 x 1100 cells, the sample holding at least
// 65536 cells, with GOMAXPROCS 2 or 4, under the controlled scheduler (the operations are documented as
// sequential; code that shares the work between goroutines above a size threshold is explored with one
// preemption, every interleaving must be free of data races and give the same sample) with the seeded
// generator; the sample itself is judged: original columns taken for all rows / original rows.
func c10LargeProbe(c *mc.Ctx, cs c10Case) {
	n, L := cs.Shape[0], cs.Shape[1]
	seqs := c10LargeRows(n, L)
	in := namedRows(seqs...)
	colIdx := map[string]int{}
	for j := 0; j < L; j++ {
		colIdx[column(in, j)] = j
	}
	if len(colIdx) != L {
		c.Fatal("large alignment: columns are not pairwise distinct")
		return
	}
	run := cs
	run.Seqs = seqs
	if cs.Procs > 0 {
		defer runtime.GOMAXPROCS(runtime.GOMAXPROCS(cs.Procs))
	}
	judge := func(first any) string {
		res := first.(c10Res)
		if res.Err != "" {
			return "unexpected error: " + res.Err
		}
		if res.Input != nil && !sameRows(res.Input, in) {
			return "the input alignment changed"
		}
		out := res.Rows
		switch cs.Op {
		case "randsub", "bootstrap":
			want := cs.N
			if cs.Op == "bootstrap" {
				want = L
			}
			if len(out) != n {
				return fmt.Sprintf("%d rows for %d", len(out), n)
			}
			for i := range out {
				if out[i].Name != in[i].Name || len(out[i].Seq) != want {
					return fmt.Sprintf("row %d is %s of length %d, want %s of length %d", i, out[i].Name, len(out[i].Seq), in[i].Name, want)
				}
			}
			seen := map[int]bool{}
			prev := -1
			for j := 0; j < want; j++ {
				k, ok := colIdx[column(out, j)]
				if !ok {
					return fmt.Sprintf("column %d of the sample is not a column of the alignment (rows of the sample hold columns of different origins)", j)
				}
				if cs.Op == "randsub" {
					if seen[k] {
						return fmt.Sprintf("column %d of the alignment drawn twice", k)
					}
					if cs.B && j > 0 && k != prev+1 {
						return fmt.Sprintf("window not contiguous: column %d of the sample is column %d, the previous one %d", j, k, prev)
					}
				}
				seen[k], prev = true, k
			}
		case "sample", "samplebag":
			if len(out) != cs.N {
				return fmt.Sprintf("%d rows sampled, want %d", len(out), cs.N)
			}
			by := map[string]string{}
			for _, r := range in {
				by[r.Name] = r.Seq
			}
			seen := map[string]bool{}
			for _, r := range out {
				if seen[r.Name] {
					return "row " + r.Name + " drawn twice"
				}
				seen[r.Name] = true
				if s, ok := by[r.Name]; !ok || s != r.Seq {
					return "sampled row " + r.Name + " is not the original row of that name"
				}
			}
		case "shuffleseqs":
			if len(out) != n {
				return fmt.Sprintf("%d rows for %d", len(out), n)
			}
			a, b := []string{}, []string{}
			for i := range in {
				a, b = append(a, in[i].Name+"="+in[i].Seq), append(b, out[i].Name+"="+out[i].Seq)
			}
			if strings.Join(sortedCopy(a), ";") != strings.Join(sortedCopy(b), ";") {
				return "not a permutation of the rows"
			}
		}
		return ""
	}
	what := fmt.Sprintf("%s(n=%d, consecutive=%v) on a %dx%d alignment, GOMAXPROCS %d", cs.Op, cs.N, cs.B, n, L, cs.Procs)
	mc.SchedProbeJudged(c, "C10/"+cs.Op+"/large", what, 1, cs, func() any {
		rand.Seed(7)
		return c10Apply(run)
	}, func(a, b any) bool { return a.(c10Res).key() == b.(c10Res).key() }, judge)
	c.Outcome(cs.Op + ":large-sample-ok")
	c.Nontrivial(fmt.Sprintf("large|%v", cs))
}

// position-coded alignments: all cells distinct, so that the origin of every residue is identifiable
func c10Coded(n, L, alpha int) []string {
	letters := "ACGTRYSWKMBDHVN"
	if alpha == align.AMINOACIDS {
		letters = "ARNDCQEGHILKMFPSTWYV"
	}
	out := make([]string, n)
	for i := 0; i < n; i++ {
		b := make([]byte, L)
		for j := range b {
			b[j] = letters[(i*L+j)%len(letters)]
		}
		out[i] = string(b)
	}
	return out
}

func c10Cases(tier string) []c10Case {
	var cs []c10Case
	thorough := tier == "thorough"
	maxN, maxL := 3, 3
	nt := align.NUCLEOTIDS
	add := func(c c10Case) { c.Mode = "tree"; cs = append(cs, c) }
	for n := 1; n <= maxN+1; n++ {
		for L := 1; L <= maxL+1; L++ {
			big := n > maxN || L > maxL
			if big && !thorough {
				continue
			}
			seqs := c10Coded(n, L, nt)
			add(c10Case{Op: "shuffleseqs", Seqs: seqs, Alpha: nt})
			for _, frac := range []float64{0.25, 0.5, 0.75, 1, 0, 1.5} {
				add(c10Case{Op: "bootstrap", Seqs: seqs, Alpha: nt, F1: frac})
			}
			if n >= 2 && L >= 2 && L <= 3 {
				for k := 1; k < L; k++ {
					add(c10Case{Op: "bootparts", Seqs: seqs, Alpha: nt, N: k})
				}
			}
			for k := 0; k <= n+1; k++ {
				add(c10Case{Op: "sample", Seqs: seqs, Alpha: nt, N: k})
				add(c10Case{Op: "samplebag", Seqs: seqs, Alpha: nt, N: k})
			}
			for l := 0; l <= L+1; l++ {
				add(c10Case{Op: "randsub", Seqs: seqs, Alpha: nt, N: l, B: true})
				add(c10Case{Op: "randsub", Seqs: seqs, Alpha: nt, N: l, B: false})
			}
			if big {
				continue
			}
			for _, rate := range []float64{0, 0.5, 1} {
				for _, rr := range []float64{0, 0.5, 1} {
					for _, first := range []bool{false, true} {
						if n == 3 && L == 3 && rate == 1 && rr > 0 && !thorough {
							continue
						}
						add(c10Case{Op: "shufflesites", Seqs: seqs, Alpha: nt, F1: rate, F2: rr, B: first})
					}
				}
				for _, pos := range []float64{-1, 0, 0.5, 1} {
					add(c10Case{Op: "swap", Seqs: seqs, Alpha: nt, F1: rate, F2: pos})
				}
			}
			for _, prop := range []float64{0, 0.5, 1} {
				for _, pl := range []float64{0, 0.5, 1} {
					if n*L >= 9 && prop == 1 && pl == 1 && !thorough {
						continue
					}
					add(c10Case{Op: "rogue", Seqs: seqs, Alpha: nt, F1: prop, F2: pl})
				}
			}
			for _, prop := range []float64{0, 0.25, 0.5, 0.75} {
				for _, lp := range []float64{0, 0.5, 1} {
					for _, sw := range []bool{false, true} {
						add(c10Case{Op: "recombine", Seqs: seqs, Alpha: nt, F1: prop, F2: lp, B: sw})
						if lp == 1 || lp == 0.5 {
							// then every row is written to, one cell at a time
							add(c10Case{Op: "recombine", Seqs: seqs, Alpha: nt, F1: prop, F2: lp, B: sw, N: 1})
						}
					}
				}
			}
			for _, lp := range []float64{0, 0.5, 1} {
				for _, prop := range []float64{0, 0.5, 1} {
					if n*L >= 9 && lp > 0 && prop == 1 && !thorough {
						continue
					}
					add(c10Case{Op: "addgaps", Seqs: seqs, Alpha: nt, F1: lp, F2: prop})
				}
			}
			// rarefy: counts per row
			if L == 2 {
				for _, counts := range [][]int{{1, 1, 1}, {2, 1, 0}, {1, 2, 3}, {3, 0, 0}} {
					cn := counts[:n]
					tot := 0
					for _, x := range cn {
						tot += x
					}
					for nb := 0; nb <= tot; nb++ {
						if tot > 4 && nb > 2 && !thorough {
							continue
						}
						add(c10Case{Op: "rarefy", Seqs: seqs, Alpha: nt, N: nb, Counts: cn})
					}
				}
			}
		}
	}
	// content-sensitive operations on all alignments n<=2, L<=2 over {A,C,-} (+ a protein instance)
	for n := 1; n <= 2; n++ {
		for L := 1; L <= 2; L++ {
			forEachAlignment("AC-", n, L, func(seqs []string) bool {
				s := append([]string{}, seqs...)
				for _, rate := range []float64{0.5, 1, 0, 1.5} {
					add(c10Case{Op: "mutate", Seqs: s, Alpha: nt, F1: rate})
				}
				add(c10Case{Op: "addgaps", Seqs: s, Alpha: nt, F1: 0.5, F2: 1})
				add(c10Case{Op: "recombine", Seqs: s, Alpha: nt, F1: 0.5, F2: 0.5, B: true})
				add(c10Case{Op: "swap", Seqs: s, Alpha: nt, F1: 1, F2: -1})
				return true
			})
		}
	}
	// swaps of two pairs of rows (4 and 5 rows): each pair draws its own position, every order and position
	for _, sh := range [][2]int{{4, 3}, {4, 4}, {5, 3}} {
		for _, pos := range []float64{-1, 0.5} {
			add(c10Case{Op: "swap", Seqs: c10Coded(sh[0], sh[1], nt), Alpha: nt, F1: 1, F2: pos})
		}
	}
	// support of the substituted letter (rate 1: every cell is redrawn): 1x1, 1x2, 2x1 in both alphabets
	for _, s := range [][]string{{"L"}, {"LK"}, {"L", "K"}, {"L-"}, {"*E"}} {
		add(c10Case{Op: "mutate", Seqs: s, Alpha: align.AMINOACIDS, F1: 1})
	}
	for _, s := range [][]string{{"A"}, {"AC"}, {"A", "C"}, {"A-"}} {
		add(c10Case{Op: "mutate", Seqs: s, Alpha: nt, F1: 1})
	}
	add(c10Case{Op: "mutate", Seqs: []string{"L-"}, Alpha: align.AMINOACIDS, F1: 0.5})
	add(c10Case{Op: "mutate", Seqs: []string{"L.", "*E"}, Alpha: align.AMINOACIDS, F1: 1})
	// a second replicate after an in-place edit of the same shape
	for _, sh := range [][2]int{{2, 2}, {2, 3}, {3, 2}} {
		add(c10Case{Op: "bootstrap2", Seqs: c10Coded(sh[0], sh[1], nt), Alpha: nt, F1: 1})
	}
	// SampleSeqBag on plain sequence sets whose sequences have different lengths (longest first, shortest first)
	for n := 2; n <= 4; n++ {
		if n == 4 && !thorough {
			continue
		}
		coded := c10Coded(n, n+1, nt)
		dec, inc := make([]string, n), make([]string, n)
		for i := range coded {
			dec[i] = coded[i][:n+1-i]
			inc[i] = coded[i][:i+1]
		}
		for k := 0; k <= n+1; k++ {
			add(c10Case{Op: "samplebag", Seqs: dec, Alpha: nt, N: k})
			add(c10Case{Op: "samplebag", Seqs: inc, Alpha: nt, N: k})
		}
	}
	// large samples (at least 65536 cells) with 2 and 4 processors, under the controlled scheduler
	for _, procs := range []int{2, 4} {
		for _, c := range []c10Case{
			{Op: "randsub", N: 1024, B: true}, {Op: "randsub", N: 1024}, {Op: "randsub", N: 1100, B: true},
			{Op: "bootstrap", F1: 1}, {Op: "sample", N: 60}, {Op: "samplebag", N: 60}, {Op: "shuffleseqs"},
		} {
			c.Alpha, c.Mode, c.Shape, c.Procs = nt, "large", []int{64, 1100}, procs
			cs = append(cs, c)
		}
	}
	// rogue rows with three shuffled sites out of four (a site drawn twice among three loses a residue; with one or
	// two shuffled sites nothing can be lost): every RNG answer
	add(c10Case{Op: "rogue", Seqs: c10Coded(2, 4, nt), Alpha: nt, F1: 0.5, F2: 0.75})
	add(c10Case{Op: "rogue", Seqs: c10Coded(3, 4, nt), Alpha: nt, F1: 0.4, F2: 0.75})
	// the same seed with another number of processors, on the large alignment
	for _, seed := range []int64{1, -5} {
		for _, c := range []c10Case{
			{Op: "mutate", F1: 0.1}, {Op: "addgaps", F1: 0.3, F2: 0.2}, {Op: "shufflesites", F1: 0.5, F2: 0.5}, {Op: "swap", F1: 0.5, F2: 0.5}, {Op: "rogue", F1: 0.3, F2: 0.5},
			{Op: "recombine", F1: 0.3, F2: 0.5}, {Op: "shuffleseqs"}, {Op: "bootstrap", F1: 1}, {Op: "sample", N: 60}, {Op: "randsub", N: 1024},
		} {
			c.Alpha, c.Mode, c.Shape, c.Seed = nt, "seed-procs", []int{64, 1100}, seed
			cs = append(cs, c)
		}
	}
	// output length of a partial bootstrap: floor(frac*L) for every frac = k/100, k = 1..99, on L = 7, 10, 50, 100
	// (products just below and just above an integer among them), with the seeded generator
	for _, L := range []int{7, 10, 50, 100} {
		seqs := c10Coded(2, L, nt)
		for k := 1; k <= 99; k++ {
			cs = append(cs, c10Case{Op: "bootstrap", Seqs: seqs, Alpha: nt, F1: float64(k) / 100, Seed: 1, Mode: "seed"})
		}
	}
	// seed replay in pass-through mode
	for _, seed := range []int64{0, 1, 42} {
		seqs := c10Coded(3, 3, nt)
		for _, c := range []c10Case{
			{Op: "shuffleseqs"}, {Op: "shufflesites", F1: 0.5, F2: 0.5}, {Op: "swap", F1: 1, F2: -1}, {Op: "rogue", F1: 0.5, F2: 1},
			{Op: "bootstrap", F1: 1}, {Op: "sample", N: 2}, {Op: "samplebag", N: 2}, {Op: "randsub", N: 2, B: true}, {Op: "randsub", N: 2},
			{Op: "recombine", F1: 0.5, F2: 0.5, B: true}, {Op: "addgaps", F1: 0.5, F2: 0.5}, {Op: "mutate", F1: 0.5}, {Op: "rarefy", N: 3, Counts: []int{2, 1, 3}},
		} {
			c.Seqs, c.Alpha, c.Seed, c.Mode = seqs, nt, seed, "seed"
			cs = append(cs, c)
		}
		// 4x4: two or more rogue taxa / recombining pairs, so that reported name lists have an order
		seqs4 := c10Coded(4, 4, nt)
		for _, c := range []c10Case{
			{Op: "shufflesites", F1: 0.5, F2: 0.5}, {Op: "shufflesites", F1: 0.5, F2: 1, B: true}, {Op: "rogue", F1: 0.5, F2: 0.5}, {Op: "rogue", F1: 1, F2: 1},
			{Op: "swap", F1: 1, F2: 0.5}, {Op: "recombine", F1: 1, F2: 0.5}, {Op: "sample", N: 3}, {Op: "rarefy", N: 4, Counts: []int{2, 1, 3, 2}},
		} {
			c.Seqs, c.Alpha, c.Seed, c.Mode = seqs4, nt, seed, "seed"
			cs = append(cs, c)
		}
	}
	return cs
}

func init() {
	mc.Register(&mc.Prop{
		ID:    "C10",
		Level: "model_checking",
		Rule: "for each randomised operation (ShuffleSequences, ShuffleSites, Swap, SimulateRogue, BuildBootstrap (also block-wise followed by Concat, as build seqboot --partition does; also a second replicate drawn after the alignment was lower-cased in place), Sample, SampleSeqBag, RandSubAlign, Recombine (also followed by a write to one cell of every row in turn: a write reaches its own row only), AddGaps, Mutate, Rarefy) on position-coded alignments of every shape n<=3 x L<=3 (4x4 for the support-checked operations in thorough; Swap of two pairs of rows on 4x3, 4x4, 5x3) and on all alignments n<=2,L<=2 over {A,C,-} for the content-sensitive ones, with all listed parameter values: EVERY sequence of RNG answers (rand.Intn: all n values; rand.Perm: all n! orders; rand.Float64: representatives on both sides of and at every threshold the code compares with) is executed; states/transitions are nodes/edges of the RNG choice trees; " +
			"per leaf the operation's invariant, per tree reached-outcome set == admissible set where the statement pins the support down (row shuffle, bootstrap, sampling, site sampling, full site shuffle, substituted letters at rate 1); SampleSeqBag also on plain sequence sets of 2..3 (thorough 4) sequences of pairwise different lengths, longest first and shortest first; RandSubAlign (window and scattered, 1024 and all of 1100 columns), BuildBootstrap, Sample / SampleSeqBag (60 rows) and ShuffleSequences on a 64x1100 alignment with pairwise distinct columns (samples of at least 65536 cells) with GOMAXPROCS 2 and 4 under the controlled scheduler (one preemption, no data race, same sample under every interleaving) and the sample judged (original columns taken for all rows, distinct, contiguous for a window; original rows); BuildBootstrap with every fraction k/100 on L = 7, 10, 50, 100 (output length floor(frac*L) as the product is computed in double precision, columns original); seed replay with the real stream for seeds 0,1,42 twice and under map-order choices, on 3x3 and (for operations reporting name lists or pairing rows) 4x4 alignments. distinct_nontrivial = distinct (case, answer sequence) leaves whose invariant was checked.",
		Assumptions: []string{
			"rand.Intn(n) can return every value of [0,n) and rand.Perm every permutation (positive probability is decided as reachability over RNG answers)",
			"rand.Float64 answers are representatives: below, at and above each comparison threshold of the operation",
		},
		Tasks: func(tier string) []mc.Task {
			var ts []mc.Task
			for i, cs := range c10Cases(tier) {
				cs := cs
				ts = append(ts, mc.Task{Name: fmt.Sprintf("%s#%d", cs.Op, i), Run: func(c *mc.Ctx) { c10Run(c, cs) }})
			}
			return ts
		},
		Replay: func(c *mc.Ctx, payload json.RawMessage) {
			var cs c10Case
			if err := json.Unmarshal(payload, &cs); err != nil {
				c.Fatal("bad payload: %v", err)
				return
			}
			c10Run(c, cs)
		},
		Vacuity: func(tier string, t *mc.Totals) error {
			if t.Extra["support_sets_compared"] < 50 || t.Extra["rng_leaves"] < 20000 {
				return fmt.Errorf("too little explored: %v", t.Extra)
			}
			return nil
		},
	})
}
