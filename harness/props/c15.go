package props

import (
	"runtime"
	"encoding/json"
	"fmt"
	"math"
	"strings"

	"verif/harness/mc"

	"github.com/evolbioinfo/goalign/align"
)

// C15 - masking rewrites exactly the selected residues and nothing else.
//
// The oracle below is written from the property statement and from the
// documentation of Mask / MaskOccurences / MaskUnique (doc comments in
// align/align.go, docs/commands/mask.md).  It classifies every cell of the
// alignment as "must be replaced", "must be kept" or "not determined", and
// gives, per column, the set of replacement characters that the statement
// allows.  It never calls the functions under test.

const (
	c15MaxN    = 6
	c15MaxL    = 4
	c15Unknown = "zz"        // a name no row has
	c15Huge    = math.MaxInt // a window length that certainly overhangs

	c15SkipMajRef     = "MAJ with a reference: the statement says 'the column's most frequent character', the documentation says 'without considering the reference sequence': every candidate population's most frequent character is accepted"
	c15SkipNoRefNoRef = "noref=true without a reference ('only if refseq is specified'): an error and 'no protection' are both accepted"
	c15SkipUnknownRef = "reference name that no row has: an error is accepted; without error, cells whose fate depends on the reference are not compared"
	c15SkipMultiChar  = "replacement string of several characters that is no keyword: an error is accepted; without error the replacement character is not compared"
	c15SkipWindowOdd  = "start < 0, start >= length of the alignment or length < 0: an error is accepted; cells outside [0,L) x window must be unchanged either way"
	c15SkipThreshold  = "negative occurrence threshold: an error is accepted; nothing may be replaced either way"
)

// c15Case is one call, as written to a replay file.
type c15Case struct {
	Op    string   `json:"op"`    // Mask | MaskOccurences | MaskUnique
	Alpha string   `json:"alpha"` // nt | aa
	Seqs  []string `json:"seqs"`  // rows, named a, b, c ...
	Ref   string   `json:"ref"`   // "" = no reference, a row name, or a name no row has
	Start int      `json:"start"` // Mask
	// Procs (long rows): GOMAXPROCS during the case (0 = unchanged)
	Procs int `json:"gomaxprocs,omitempty"`
	Len   int      `json:"len"`   // Mask
	Repl  string   `json:"repl"`
	NoGap bool     `json:"nogap"` // Mask
	NoRef bool     `json:"noref"` // Mask
	Max   int      `json:"max"`   // MaskOccurences
}

const (
	c15OpMask = iota
	c15OpOcc
	c15OpUnique
)

var c15OpNames = [...]string{"Mask", "MaskOccurences", "MaskUnique"}

// c15Cfg is the call without the alignment (inner loops must not allocate).
type c15Cfg struct {
	op            int
	ref           int // -1 none, 0..n-1 row, n = unknown name
	start, length int
	repl          string
	nogap, noref  bool
	max           int
}

// cell expectations
const (
	c15Keep = iota
	c15Replace
	c15Either
)

// why a cell must be kept (names the oracle clause in the signature)
const (
	c15WhyOutside = iota
	c15WhyNothingSelected
	c15WhyGapProtected
	c15WhyRefProtected
	c15WhyGap
	c15WhyRefRow
	c15WhyEqualRef
	c15WhyAbove
	c15WhyJustAbove
)

var c15WhyNames = [...]string{"outside-window", "nothing-selected", "protected-gap", "protected-same-as-reference",
	"gap", "reference-row", "same-as-reference", "count-above-threshold", "count-one-above-threshold"}

// c15Set is a set of ASCII characters.
type c15Set [2]uint64

func (s *c15Set) add(b byte)     { s[b>>6&1] |= 1 << (b & 63) }
func (s c15Set) has(b byte) bool { return b < 128 && s[b>>6]&(1<<(b&63)) != 0 }
func (s *c15Set) union(o c15Set) { s[0] |= o[0]; s[1] |= o[1] }
func (s c15Set) String() string {
	var b strings.Builder
	for c := 0; c < 128; c++ {
		if s.has(byte(c)) {
			b.WriteByte(byte(c))
		}
	}
	return "{" + b.String() + "}"
}

type c15Expect struct {
	errAllowed bool
	anyChar    bool // the replacement character is not determined
	majAmbig   bool
	cell       [c15MaxN][c15MaxL]uint8
	why        [c15MaxN][c15MaxL]uint8
	cnt        [c15MaxN][c15MaxL]uint8 // MaskOccurences: count of the residue in its column's population
	acc        [c15MaxL]c15Set
	lo, hi     int // Mask: the determined window [lo,hi)
}

type c15Checker struct {
	c     *mc.Ctx
	alpha string
	seqs  []string
	n, L  int
	orig  [c15MaxN][c15MaxL]byte
	al    align.Alignment
	len0  int // Length() of the freshly built alignment
	fresh bool

	outcomeSeen [4096]bool
	counters    [16]int64
	nontrivial  bool
}

const (
	c15CtMaskReplaced = iota
	c15CtMaskGapProt
	c15CtMaskRefProt
	c15CtMaskOverhang
	c15CtMaskHuge
	c15CtMaskEmpty
	c15CtMaskInner
	c15CtErrors
	c15CtOccReplaced
	c15CtOccKeptAbove
	c15CtOccKeptEqualRef
	c15CtMajTie
	c15CtMajUnique
	c15CtObservable
	c15CtN
)

var c15CtNames = [...]string{"mask_calls_replacing", "mask_cells_gap_protected", "mask_cells_ref_protected", "mask_windows_overhanging",
	"mask_windows_huge_length", "mask_windows_empty", "mask_windows_strictly_inside", "calls_returning_error", "occ_calls_replacing",
	"occ_cells_kept_above_threshold", "occ_cells_kept_same_as_reference", "maj_columns_tied", "maj_columns_unique_majority", "calls_with_observable_change"}

func (k *c15Checker) flush() {
	for i := 0; i < c15CtN; i++ {
		if k.counters[i] != 0 {
			k.c.Count(c15CtNames[i], k.counters[i])
			k.counters[i] = 0
		}
	}
}

func c15Alphabet(alpha string) int {
	if alpha == "aa" {
		return align.AMINOACIDS
	}
	return align.NUCLEOTIDS
}

func c15Ambig(alpha string) byte {
	if alpha == "aa" {
		return 'X'
	}
	return 'N'
}

// load sets the input and builds the real alignment.
func (k *c15Checker) load(alpha string, seqs []string) bool {
	k.alpha, k.seqs, k.n, k.L = alpha, seqs, len(seqs), 0
	if k.n > c15MaxN {
		k.c.Fatal("too many rows: %v", seqs)
		return false
	}
	if k.n > 0 {
		k.L = len(seqs[0])
	}
	if k.L > c15MaxL {
		k.c.Fatal("rows too long: %v", seqs)
		return false
	}
	for i, s := range seqs {
		if len(s) != k.L {
			k.c.Fatal("ragged input: %v", seqs)
			return false
		}
		for j := 0; j < k.L; j++ {
			if s[j] >= 128 {
				k.c.Fatal("non-ASCII input: %v", seqs)
				return false
			}
			k.orig[i][j] = s[j]
		}
	}
	k.nontrivial = false
	return k.build()
}

func (k *c15Checker) build() bool {
	al := align.NewAlign(c15Alphabet(k.alpha))
	for i, s := range k.seqs {
		if err := al.AddSequence(rowNames[i], s, ""); err != nil {
			k.c.Fatal("cannot build input %v: %v", k.seqs, err)
			return false
		}
	}
	k.al, k.len0, k.fresh = al, al.Length(), true
	return true
}

// maxSet: the most frequent character(s) among the rows of rowsMask in column j.
func (k *c15Checker) maxSet(j int, rowsMask uint) (s c15Set, tied bool) {
	var cnt [128]uint8
	best := uint8(0)
	for i := 0; i < k.n; i++ {
		if rowsMask>>uint(i)&1 == 1 {
			b := k.orig[i][j]
			cnt[b]++
			if cnt[b] > best {
				best = cnt[b]
			}
		}
	}
	if best == 0 {
		return
	}
	kinds := 0
	for i := 0; i < k.n; i++ {
		if rowsMask>>uint(i)&1 == 1 && cnt[k.orig[i][j]] == best && !s.has(k.orig[i][j]) {
			s.add(k.orig[i][j])
			kinds++
		}
	}
	return s, kinds > 1
}

// replacement fills e.acc for the non-MAJ modes; returns true for MAJ.
func (k *c15Checker) replacement(cfg *c15Cfg, e *c15Expect) (maj bool) {
	var s c15Set
	switch cfg.repl {
	case "", "AMBIG":
		s.add(c15Ambig(k.alpha)) // "N or X according to the alphabet"
	case "GAP":
		s.add('-')
	case "MAJ":
		return true
	default:
		if len(cfg.repl) == 1 && cfg.repl[0] < 128 {
			s.add(cfg.repl[0]) // "a given character"
		} else {
			e.errAllowed, e.anyChar = true, true
		}
	}
	for j := 0; j < k.L; j++ {
		e.acc[j] = s
	}
	return false
}

// expectMask: the statement's rule for a window.
func (k *c15Checker) expectMask(cfg *c15Cfg, e *c15Expect) {
	n, L := k.n, k.L
	all := uint(1)<<uint(n) - 1
	refRow, refUnknown := -1, false
	if cfg.ref >= 0 && cfg.ref < n {
		refRow = cfg.ref
	} else if cfg.ref >= n {
		refUnknown = true
	}

	// the window
	windowOdd := false
	switch {
	case cfg.length < 0 || cfg.start >= L:
		e.errAllowed = true // nothing of the alignment is requested
		for i := 0; i < n; i++ {
			for j := 0; j < L; j++ {
				e.why[i][j] = c15WhyNothingSelected
			}
		}
	case cfg.start < 0:
		e.errAllowed, windowOdd = true, true
		e.lo, e.hi = 0, 0
		for j := 0; j < L; j++ {
			if j-cfg.start < cfg.length { // j < start+length without overflow
				e.hi = j + 1
			}
		}
	default:
		e.lo = cfg.start
		if cfg.length >= L-cfg.start {
			e.hi = L // "a window extending past the end is truncated rather than failing"
		} else {
			e.hi = cfg.start + cfg.length
		}
	}

	maj := k.replacement(cfg, e)

	// protection by the reference
	protectRef, refOdd := false, false
	if cfg.noref {
		switch {
		case refRow >= 0:
			protectRef = true
		case refUnknown:
			e.errAllowed, refOdd = true, true
		default:
			e.errAllowed = true // no reference: nothing equals it
		}
	} else if refUnknown {
		e.errAllowed = true // the name is not needed when the reference is not protected
	}

	for j := e.lo; j < e.hi; j++ {
		if maj {
			s, tied := k.maxSet(j, all)
			if refRow >= 0 && n > 1 {
				s2, tied2 := k.maxSet(j, all&^(1<<uint(refRow)))
				if s2 != s {
					e.majAmbig = true
					s.union(s2)
					tied = tied || tied2
				}
			}
			e.acc[j] = s
			if tied {
				k.counters[c15CtMajTie]++
			} else {
				k.counters[c15CtMajUnique]++
			}
		}
		for i := 0; i < n; i++ {
			b := k.orig[i][j]
			switch {
			case cfg.nogap && b == '-':
				e.cell[i][j], e.why[i][j] = c15Keep, c15WhyGapProtected
			case protectRef && b == k.orig[refRow][j]:
				e.cell[i][j], e.why[i][j] = c15Keep, c15WhyRefProtected
			case refOdd || windowOdd:
				e.cell[i][j] = c15Either
			default:
				e.cell[i][j] = c15Replace
			}
		}
	}
}

// expectOcc: the statement's rule for rare residues.
func (k *c15Checker) expectOcc(cfg *c15Cfg, e *c15Expect) {
	n, L := k.n, k.L
	all := uint(1)<<uint(n) - 1
	refRow, refUnknown := -1, false
	if cfg.ref >= 0 && cfg.ref < n {
		refRow = cfg.ref
	} else if cfg.ref >= n {
		refUnknown = true
		e.errAllowed = true
	}
	if cfg.max < 0 {
		e.errAllowed = true
	}
	maj := k.replacement(cfg, e)
	e.lo, e.hi = 0, L
	for j := 0; j < L; j++ {
		// the population: every row but the reference row and the residues equal to the reference
		pop := all
		if refRow >= 0 {
			pop = 0
			for i := 0; i < n; i++ {
				if i != refRow && k.orig[i][j] != k.orig[refRow][j] {
					pop |= 1 << uint(i)
				}
			}
		}
		if maj {
			s, tied := k.maxSet(j, all)
			if refRow >= 0 {
				cands := [3]uint{all &^ (1 << uint(refRow)), pop, pop}
				if k.orig[refRow][j] == '-' {
					cands[2] = all &^ (1 << uint(refRow)) // docs: "or if the reference is a GAP"
				}
				for _, m := range cands {
					s2, tied2 := k.maxSet(j, m)
					if s2 != s && s2 != (c15Set{}) {
						if s2[0]&^s[0] != 0 || s2[1]&^s[1] != 0 {
							e.majAmbig = true
						}
						s.union(s2)
						tied = tied || tied2
					}
				}
			}
			e.acc[j] = s
			if tied {
				k.counters[c15CtMajTie]++
			} else {
				k.counters[c15CtMajUnique]++
			}
		}
		for i := 0; i < n; i++ {
			b := k.orig[i][j]
			switch {
			case i == refRow:
				e.why[i][j] = c15WhyRefRow
			case b == '-':
				e.why[i][j] = c15WhyGap
			case refRow >= 0 && b == k.orig[refRow][j]:
				e.why[i][j] = c15WhyEqualRef
				k.counters[c15CtOccKeptEqualRef]++
			case refUnknown:
				e.cell[i][j] = c15Either
			default:
				cnt := 0
				for i2 := 0; i2 < n; i2++ {
					if pop>>uint(i2)&1 == 1 && k.orig[i2][j] == b {
						cnt++
					}
				}
				e.cnt[i][j] = uint8(cnt)
				if cnt <= cfg.max {
					e.cell[i][j] = c15Replace
				} else {
					e.why[i][j] = c15WhyAbove
					if cnt == cfg.max+1 {
						e.why[i][j] = c15WhyJustAbove
					}
					k.counters[c15CtOccKeptAbove]++
				}
			}
		}
	}
}

func (k *c15Checker) caseOf(cfg *c15Cfg) c15Case {
	cs := c15Case{Op: c15OpNames[cfg.op], Alpha: k.alpha, Seqs: k.seqs, Repl: cfg.repl}
	switch {
	case cfg.ref >= k.n:
		cs.Ref = c15Unknown
	case cfg.ref >= 0:
		cs.Ref = rowNames[cfg.ref]
	}
	switch cfg.op {
	case c15OpMask:
		cs.Start, cs.Len, cs.NoGap, cs.NoRef = cfg.start, cfg.length, cfg.nogap, cfg.noref
	case c15OpOcc:
		cs.Max = cfg.max
	}
	return cs
}

func (k *c15Checker) refName(cfg *c15Cfg) string {
	switch {
	case cfg.ref >= k.n:
		return c15Unknown
	case cfg.ref >= 0:
		return rowNames[cfg.ref]
	}
	return ""
}

func (k *c15Checker) refClass(cfg *c15Cfg) string {
	switch {
	case cfg.ref >= k.n:
		return "unknown-reference"
	case cfg.ref >= 0:
		return "with-reference"
	}
	return "no-reference"
}

func (k *c15Checker) replClass(cfg *c15Cfg) string {
	switch cfg.repl {
	case "":
		return "default-" + k.alpha
	case "AMBIG":
		return "AMBIG-" + k.alpha
	case "GAP", "MAJ":
		return cfg.repl
	}
	if len(cfg.repl) == 1 {
		return "given-character"
	}
	return "multi-character"
}

// replSig: the replacement clause of a signature (MAJ depends on the reference, the other modes do not).
func (k *c15Checker) replSig(cfg *c15Cfg) string {
	if cfg.repl == "MAJ" {
		return "MAJ/" + k.refClass(cfg)
	}
	return k.replClass(cfg)
}

// windowClass names the kind of window of a Mask call (determined windows only).
func (k *c15Checker) windowClass(cfg *c15Cfg) string {
	switch {
	case cfg.length < 0:
		return "negative-length"
	case cfg.start < 0:
		return "negative-start"
	case cfg.start > k.L:
		return "start-past-end"
	case cfg.start == k.L:
		return "start-at-end"
	case cfg.length == 0:
		return "empty-window"
	case cfg.length == c15Huge:
		return "huge-length"
	case cfg.length > k.L-cfg.start:
		return "overhanging-window"
	case cfg.length == k.L-cfg.start:
		return "window-to-last-column"
	}
	return "window-inside"
}

func (k *c15Checker) viol(cfg *c15Cfg, clause, desc string) {
	cs := k.caseOf(cfg)
	k.c.Violation("C15/"+c15OpNames[cfg.op]+"/"+clause, fmt.Sprintf("%s: %s: case %s", c15OpNames[cfg.op], desc, jsonStr(cs)), cs)
}

// c15Slug reduces an error message to its first six words (letters only), so
// that refusals for different reasons get different signatures.
func c15Slug(msg string) string {
	words := strings.FieldsFunc(strings.ToLower(msg), func(r rune) bool { return r < 'a' || r > 'z' })
	if len(words) > 6 {
		words = words[:6]
	}
	if len(words) == 0 {
		return "error"
	}
	return strings.Join(words, "-")
}

// observed renders the alignment as it is now.
func (k *c15Checker) observed() string {
	return readRows(k.al).String()
}

// run executes one call on the current input and judges it.
func (k *c15Checker) run(cfg *c15Cfg) {
	c := k.c
	c.Eval()
	var e c15Expect
	if cfg.op == c15OpMask {
		k.expectMask(cfg, &e)
	} else {
		k.expectOcc(cfg, &e)
	}
	n, L := k.n, k.L

	var err error
	refName := k.refName(cfg)
	al := k.al
	var pn bool
	var msg string
	switch cfg.op {
	case c15OpMask:
		pn, msg = mc.Guard(func() { err = al.Mask(refName, cfg.start, cfg.length, cfg.repl, cfg.nogap, cfg.noref) })
	case c15OpOcc:
		pn, msg = mc.Guard(func() { err = al.MaskOccurences(refName, cfg.max, cfg.repl) })
	default:
		pn, msg = mc.Guard(func() { err = al.MaskUnique(refName, cfg.repl) })
	}
	k.fresh = false
	if pn {
		k.viol(cfg, "panic/"+mc.PanicSite(msg), msg)
		k.build()
		return
	}

	// frame: rows, names, order, lengths
	structural := ""
	if al.NbSequences() != n {
		structural = "row-count"
	} else if al.Length() != k.len0 {
		structural = "length"
	} else {
		for i := 0; i < n && structural == ""; i++ {
			if name, _ := al.GetSequenceNameById(i); name != rowNames[i] {
				structural = "names-or-order"
			} else if s, _ := al.GetSequenceCharById(i); len(s) != L {
				structural = "row-length"
			}
		}
	}
	if structural != "" {
		k.viol(cfg, "frame/"+structural, fmt.Sprintf("got %s (Length()=%d, was %d)", k.observed(), al.Length(), k.len0))
		k.build()
		return
	}

	outcome := cfg.op << 9
	if err != nil {
		outcome |= 1
		k.counters[c15CtErrors]++
		if !e.errAllowed {
			k.viol(cfg, "unexpected-error/"+c15Slug(err.Error()), "error "+err.Error())
			k.restore()
			return
		}
	}

	// cells
	var got [c15MaxN][]byte
	for i := 0; i < n; i++ {
		got[i], _ = al.GetSequenceCharById(i)
	}
	nReplace, nKeep, nGapProt, nRefProt, observable := 0, 0, 0, 0, false
	bad := false
	for j := 0; j < L && !bad; j++ {
		// the replacement character actually used in this column
		chosen, haveChosen := byte(0), false
		for i := 0; i < n; i++ {
			if e.cell[i][j] == c15Replace && got[i][j] != k.orig[i][j] && !haveChosen {
				chosen, haveChosen = got[i][j], true
			}
		}
		for i := 0; i < n && !bad; i++ {
			o, g := k.orig[i][j], got[i][j]
			exp := e.cell[i][j]
			if exp == c15Replace && (err != nil || e.anyChar) {
				// a refused call may or may not have started; an undetermined replacement character cannot be compared
				exp = c15Either
			}
			switch exp {
			case c15Keep:
				nKeep++
				switch e.why[i][j] {
				case c15WhyGapProtected:
					nGapProt++
				case c15WhyRefProtected:
					nRefProt++
				}
				if g != o {
					bad = true
					clause := "frame/" + c15WhyNames[e.why[i][j]]
					if e.why[i][j] == c15WhyOutside && cfg.op == c15OpMask {
						switch {
						case j == e.hi && e.hi > e.lo:
							clause += "/column-after-window"
						case j == e.lo-1 && e.hi > e.lo:
							clause += "/column-before-window"
						case e.hi <= e.lo:
							clause += "/" + k.windowClass(cfg)
						}
					}
					if e.why[i][j] == c15WhyNothingSelected && cfg.op == c15OpMask {
						clause += "/" + k.windowClass(cfg)
					}
					k.viol(cfg, clause, fmt.Sprintf("row %s column %d: %q must stay, became %q; got %s", rowNames[i], j, o, g, k.observed()))
				}
			case c15Replace:
				nReplace++
				want := chosen
				if !haveChosen {
					want = o // nothing visibly changed in this column: legitimate only if every selected cell already holds one accepted character
					for i2 := 0; i2 < n; i2++ {
						if e.cell[i2][j] == c15Replace {
							want = k.orig[i2][j]
							break
						}
					}
				}
				if !e.acc[j].has(o) {
					observable = true
				}
				switch {
				case g == want && e.acc[j].has(want):
				case g == o:
					bad = true
					k.viol(cfg, "selection/not-replaced/"+k.notReplacedDetail(cfg, &e, i, j),
						fmt.Sprintf("row %s column %d: %q must be replaced by one of %s, was kept; got %s", rowNames[i], j, o, e.acc[j], k.observed()))
				case !e.acc[j].has(g):
					bad = true
					k.viol(cfg, "replacement/"+k.replSig(cfg),
						fmt.Sprintf("row %s column %d: %q replaced by %q, allowed %s; got %s", rowNames[i], j, o, g, e.acc[j], k.observed()))
				default:
					bad = true
					k.viol(cfg, "replacement/"+k.replClass(cfg)+"/differs-within-column",
						fmt.Sprintf("column %d: selected cells replaced by different characters (%q and %q); got %s", j, want, g, k.observed()))
				}
			default: // c15Either
				if g != o && !e.anyChar && !e.acc[j].has(g) {
					bad = true
					k.viol(cfg, "replacement/"+k.replSig(cfg),
						fmt.Sprintf("row %s column %d: %q became %q, allowed %s; got %s", rowNames[i], j, o, g, e.acc[j], k.observed()))
				}
			}
		}
	}
	if bad {
		k.restore()
		return
	}

	// bookkeeping (no verdicts below)
	if err == nil {
		switch {
		case nReplace == 0:
			outcome |= 0 << 1
		case nKeep == 0:
			outcome |= 1 << 1
		default:
			outcome |= 2 << 1
		}
		if nGapProt > 0 {
			outcome |= 1 << 3
		}
		if nRefProt > 0 {
			outcome |= 1 << 4
		}
		if observable {
			outcome |= 1 << 5
			k.counters[c15CtObservable]++
			if nKeep > 0 {
				k.nontrivial = true
			}
		}
		if e.majAmbig {
			outcome |= 1 << 6
		}
		if e.errAllowed {
			outcome |= 1 << 7
		}
	}
	if e.errAllowed && err == nil {
		outcome |= 1 << 8
	}
	if !k.outcomeSeen[outcome] {
		k.outcomeSeen[outcome] = true
		c.Outcome(k.outcomeName(cfg, outcome))
	}
	if e.majAmbig {
		c.Skip(c15SkipMajRef)
	}
	if cfg.op == c15OpMask {
		k.counters[c15CtMaskGapProt] += int64(nGapProt)
		k.counters[c15CtMaskRefProt] += int64(nRefProt)
		if nReplace > 0 && err == nil {
			k.counters[c15CtMaskReplaced]++
		}
		if cfg.start >= 0 && cfg.start < L && cfg.length >= 0 {
			switch {
			case cfg.length == c15Huge:
				k.counters[c15CtMaskHuge]++
			case cfg.length > L-cfg.start:
				k.counters[c15CtMaskOverhang]++
			case cfg.length == 0:
				k.counters[c15CtMaskEmpty]++
			case cfg.start > 0 && cfg.start+cfg.length < L:
				k.counters[c15CtMaskInner]++
			}
		} else {
			c.Skip(c15SkipWindowOdd)
		}
		if cfg.noref && cfg.ref < 0 {
			c.Skip(c15SkipNoRefNoRef)
		}
	} else {
		if nReplace > 0 && err == nil {
			k.counters[c15CtOccReplaced]++
		}
		if cfg.max < 0 {
			c.Skip(c15SkipThreshold)
		}
	}
	if cfg.ref >= n {
		c.Skip(c15SkipUnknownRef)
	}
	if e.anyChar {
		c.Skip(c15SkipMultiChar)
	}
	k.restore()
}

func (k *c15Checker) outcomeName(cfg *c15Cfg, o int) string {
	var b strings.Builder
	b.WriteString(c15OpNames[cfg.op])
	if o&1 == 1 {
		b.WriteString(":error")
		return b.String()
	}
	b.WriteString([]string{":none-selected", ":all-cells-selected", ":some-selected-some-kept", ":?"}[o>>1&3])
	if o>>3&1 == 1 {
		b.WriteString("+gap-protected")
	}
	if o>>4&1 == 1 {
		b.WriteString("+ref-protected")
	}
	if o>>5&1 == 1 {
		b.WriteString("+visible-change")
	}
	if o>>6&1 == 1 {
		b.WriteString("+maj-population-ambiguous")
	}
	if o>>8&1 == 1 {
		b.WriteString("+error-would-be-accepted")
	}
	return b.String()
}

// notReplacedDetail names the situation of a cell that should have been replaced.
func (k *c15Checker) notReplacedDetail(cfg *c15Cfg, e *c15Expect, i, j int) string {
	if cfg.op != c15OpMask {
		rel := "count-below-threshold"
		if int(e.cnt[i][j]) == cfg.max {
			rel = "count-equals-threshold"
		}
		return rel + "/" + k.refClass(cfg)
	}
	switch huge, bare := cfg.length == c15Huge, cfg.noref && cfg.ref < 0; {
	case huge && bare:
		return "huge-length+noref-without-reference"
	case huge:
		return "huge-length"
	case bare:
		return "noref-without-reference"
	}
	pos := "inside-window"
	switch {
	case j == e.hi-1 && j == k.L-1:
		pos = "last-column-of-alignment"
	case j == e.hi-1:
		pos = "last-column-of-window"
	case j == e.lo:
		pos = "first-column-of-window"
	}
	kind := "residue"
	switch {
	case k.orig[i][j] == '-':
		kind = "gap"
	case cfg.ref >= 0 && cfg.ref < k.n && i == cfg.ref:
		kind = "reference-row"
	case cfg.ref >= 0 && cfg.ref < k.n && k.orig[i][j] == k.orig[cfg.ref][j]:
		kind = "same-as-reference"
	}
	// a call that protects something is classified by the kind of cell (a
	// protection applied to the wrong cell), a plain call by the position in
	// the window (a wrong bound)
	switch {
	case cfg.noref && cfg.ref >= 0 && cfg.ref < k.n:
		return "reference-protected-call/" + kind
	case cfg.nogap:
		return "gap-protected-call/" + kind
	}
	return pos
}

// restore puts the input residues back into the alignment object (Mask works
// in place); if that is not possible the alignment is rebuilt.
func (k *c15Checker) restore() {
	for i := 0; i < k.n; i++ {
		s, ok := k.al.GetSequenceCharById(i)
		if !ok || len(s) != k.L {
			k.build()
			return
		}
		copy(s, k.seqs[i])
	}
}

// ---- enumeration

var (
	c15Repls      = []string{"", "AMBIG", "MAJ", "GAP", "Z", "ZZ"}
	c15ReplsExtra = []string{"", "AMBIG", "MAJ", "GAP", "Z", "ZZ", "-", "A", "z", "n", "x", "maj"}
)

// maskAll runs every Mask configuration of the bound on the loaded input.
func (k *c15Checker) maskAll(repls []string) {
	n, L := k.n, k.L
	var cfg c15Cfg
	cfg.op = c15OpMask
	for cfg.ref = -1; cfg.ref <= n; cfg.ref++ {
		for _, cfg.repl = range repls {
			for flags := 0; flags < 4; flags++ {
				cfg.nogap, cfg.noref = flags&1 == 1, flags&2 == 2
				for cfg.start = -1; cfg.start <= L+1; cfg.start++ {
					for cfg.length = -1; cfg.length <= L+2; cfg.length++ {
						k.run(&cfg)
					}
					cfg.length = c15Huge
					k.run(&cfg)
				}
			}
		}
		if k.c.Expired() {
			return
		}
	}
	if k.nontrivial {
		k.c.Nontrivial("Mask|" + k.alpha + "|" + strings.Join(k.seqs, "/"))
	}
}

// occAll runs every MaskOccurences / MaskUnique configuration of the bound.
func (k *c15Checker) occAll(repls []string) {
	n := k.n
	var cfg c15Cfg
	k.nontrivial = false
	for cfg.ref = -1; cfg.ref <= n; cfg.ref++ {
		for _, cfg.repl = range repls {
			cfg.op = c15OpOcc
			for cfg.max = -1; cfg.max <= n+1; cfg.max++ {
				k.run(&cfg)
			}
			cfg.op, cfg.max = c15OpUnique, 1
			k.run(&cfg)
		}
	}
	if k.nontrivial {
		k.c.Nontrivial("Occ|" + k.alpha + "|" + strings.Join(k.seqs, "/"))
	}
}

func c15MaskCfgs(n, L, repls int) int { return (n + 2) * repls * 4 * (L + 3) * (L + 5) }
func c15OccCfgs(n, repls int) int     { return (n + 2) * repls * (n + 4) }

type c15Block struct {
	class   string // mask | occ
	alpha   string
	symbols string
	n, L    int
	repls   []string
}

func c15Pow(b, e int) int {
	r := 1
	for ; e > 0; e-- {
		r *= b
	}
	return r
}

// tasks cuts one block into tasks of about `target` evaluations by prefix of the row-major residue string.
func (b c15Block) tasks(ts []mc.Task, target int) []mc.Task {
	per := c15OccCfgs(b.n, len(b.repls))
	if b.class != "occ" {
		per = c15MaskCfgs(b.n, b.L, len(b.repls))
	}
	total := b.n * b.L
	p := 0
	for p < total && c15Pow(len(b.symbols), total-p)*per > target {
		p++
	}
	forEachStringLen(b.symbols, p, nil, func(pf []byte) bool {
		pf = append([]byte{}, pf...)
		name := fmt.Sprintf("%s#%s/%s/n%dL%d/%s", b.class, b.alpha, strings.ReplaceAll(b.symbols, ".", "dot"), b.n, b.L, pf)
		ts = append(ts, mc.Task{Name: name, Run: func(c *mc.Ctx) {
			k := &c15Checker{c: c}
			defer k.flush()
			sampled := false
			forEachStringLen(b.symbols, total, pf, func(s []byte) bool {
				seqs := make([]string, b.n)
				for i := range seqs {
					seqs[i] = string(s[i*b.L : (i+1)*b.L])
				}
				if !k.load(b.alpha, seqs) {
					return false
				}
				if b.class == "occ" {
					k.occAll(b.repls)
				} else {
					k.maskAll(b.repls)
				}
				if k.nontrivial && !sampled && b.n >= 2 {
					sampled = true
					c.Sample(map[string]any{"block": name, "input": namedRows(seqs...)})
				}
				return !c.Expired()
			})
		}})
		return true
	})
	return ts
}

const (
	c15SymNt    = "AC-N"
	c15SymAa    = "AC-X"
	c15SymSmall = "AC-"
	c15SymDotNt = "AC-N."
	c15SymDotAa = "AC-X."
)

func c15Blocks(tier string) []c15Block {
	var bs []c15Block
	both := func(class string, n, L int, nt, aa string, repls []string) {
		bs = append(bs, c15Block{class, "nt", nt, n, L, repls}, c15Block{class, "aa", aa, n, L, repls})
	}
	// degenerate shapes: no row, rows without columns
	both("mask", 0, 0, c15SymNt, c15SymAa, c15ReplsExtra)
	both("occ", 0, 0, c15SymNt, c15SymAa, c15ReplsExtra)
	for n := 1; n <= 3; n++ {
		both("mask", n, 0, c15SymNt, c15SymAa, c15ReplsExtra)
		both("occ", n, 0, c15SymNt, c15SymAa, c15ReplsExtra)
	}
	// Mask: every alignment n<=3, L<=3 (the 3x3 ones over three symbols in the quick tier)
	for cells := 1; cells <= 9; cells++ {
		for n := 1; n <= 3; n++ {
			for L := 1; L <= 3; L++ {
				if n*L != cells {
					continue
				}
				switch {
				case n*L <= 4:
					both("mask", n, L, c15SymDotNt, c15SymDotAa, c15ReplsExtra)
				case n*L < 9:
					both("mask", n, L, c15SymNt, c15SymAa, c15Repls)
				case tier == "thorough":
					both("mask", n, L, c15SymNt, c15SymAa, c15Repls)
				default:
					both("mask", n, L, c15SymSmall, c15SymSmall, c15Repls)
				}
				if n*L <= 4 {
					both("occ", n, L, c15SymDotNt, c15SymDotAa, c15ReplsExtra)
				} else {
					both("occ", n, L, c15SymNt, c15SymAa, c15Repls)
				}
			}
		}
	}
	// four columns: windows with two columns on either side, two inner columns
	both("mask", 1, 4, c15SymDotNt, c15SymDotAa, c15Repls)
	if tier == "thorough" {
		both("mask", 2, 4, c15SymNt, c15SymAa, c15Repls)
	} else {
		both("mask", 2, 4, c15SymSmall, c15SymSmall, c15Repls)
	}
	// four and five rows: 2-2 ties, counts up to 5
	both("mask", 4, 1, c15SymNt, c15SymAa, c15Repls)
	both("occ", 4, 1, c15SymNt, c15SymAa, c15Repls)
	both("occ", 5, 1, c15SymNt, c15SymAa, c15Repls)
	both("occ", 4, 2, c15SymNt, c15SymAa, c15Repls)
	// six rows, three letters and the gap: two characters above the threshold with the more frequent one later
	// in byte order, beside a rare one (2 + 3 + 1)
	both("occ", 6, 1, "ACT-", "ACW-", c15Repls)
	both("mask", 6, 1, "ACT-", "ACW-", c15Repls)
	if tier == "thorough" {
		both("mask", 4, 2, c15SymNt, c15SymAa, c15Repls)
		both("occ", 5, 2, c15SymNt, c15SymAa, c15Repls)
	}
	return bs
}

func c15Tasks(tier string) []mc.Task {
	target := 1500000
	if tier == "thorough" {
		target = 12000000
	}
	var ts []mc.Task
	for _, b := range c15Blocks(tier) {
		ts = b.tasks(ts, target)
	}
	// long alignments (4 x 2600: longer than any block size a parallel version would plausibly use): the call
	// under the controlled scheduler (one execution unless the operation spawns goroutines; then every
	// interleaving within one preemption must give the result of the default one, without a data race)
	ts = append(ts, mc.Task{Name: "concurrent#long", Run: func(c *mc.Ctx) {
		seqs := make([]string, 4)
		for i := range seqs {
			b := make([]byte, 2600)
			for j := range b {
				b[j] = "AACCA-CA"[(j*(i+1)+j/5+i*(j/1000))%8]
			}
			seqs[i] = string(b)
		}
		for _, cs := range []c15Case{
			{Op: "MaskOccurences", Alpha: "nt", Seqs: seqs, Repl: "MAJ", Max: 1},
			{Op: "MaskOccurences", Alpha: "nt", Seqs: seqs, Ref: "a", Repl: "", Max: 2},
			{Op: "MaskUnique", Alpha: "nt", Seqs: seqs, Repl: "MAJ"},
			{Op: "Mask", Alpha: "nt", Seqs: seqs, Start: 5, Len: 2500, Repl: "MAJ"},
			{Op: "Mask", Alpha: "nt", Seqs: seqs, Start: 0, Len: 2600, Repl: "", NoGap: true},
		} {
			cs.Op = "sched-" + cs.Op
			c15Replay(c, cs)
		}
	}})
	ts = append(ts, c15LongTask())
	ts = append(ts, mc.Task{Name: "manyrows#all", Run: func(c *mc.Ctx) {
		for _, n := range []int{257, 258, 259, 515, 65537, 65538, 65539} {
			for _, repl := range []string{"", "MAJ"} {
				c15ManyRows(c, c15Case{Op: "manyrows", Alpha: "nt", Max: n, Repl: repl})
			}
		}
	}})
	return ts
}

// c15Long: masking is column-wise - what a call does to column j of a long alignment is what the same call does to
// that column alone (window reduced to the column: length 1 if the window holds it, else 0).  The one-column
// calls are the ones the small-scope enumeration judges; here the long call is compared with them, for rows of
// every length 5..40 and 63..65 (several columns per step with a tail would show).
func c15Long(c *mc.Ctx, cs c15Case) {
	c.Eval()
	if cs.Procs > 0 {
		defer runtime.GOMAXPROCS(runtime.GOMAXPROCS(cs.Procs))
	}
	viol := func(clause, desc string) {
		c.Violation("C15/"+strings.TrimPrefix(cs.Op, "long-")+"/long-rows/"+clause, fmt.Sprintf("%s: case %s", desc, jsonStr(cs)), cs)
	}
	n, L := len(cs.Seqs), len(cs.Seqs[0])
	call := func(seqs []string, start, length int) (rows, error, bool) {
		al, err := mkAlign(c15Alphabet(cs.Alpha), namedRows(seqs...))
		if err != nil {
			c.Fatal("cannot build %v: %v", seqs, err)
			return nil, nil, false
		}
		var e error
		if pn, msg := mc.Guard(func() {
			switch cs.Op {
			case "long-Mask":
				e = al.Mask(cs.Ref, start, length, cs.Repl, cs.NoGap, cs.NoRef)
			case "long-MaskOccurences":
				e = al.MaskOccurences(cs.Ref, cs.Max, cs.Repl)
			}
		}); pn {
			viol("panic/"+mc.PanicSite(msg), msg)
			return nil, nil, false
		}
		return readRows(al), e, true
	}
	got, err, ok := call(cs.Seqs, cs.Start, cs.Len)
	if !ok {
		return
	}
	if err != nil && cs.Op == "long-Mask" && cs.Start >= L {
		c.Outcome(cs.Op + ":start-beyond-the-end-refused")
		return
	}
	if err != nil {
		viol("unexpected-error", err.Error())
		return
	}
	for j := 0; j < L; j++ {
		col := make([]string, n)
		for i := range col {
			col[i] = cs.Seqs[i][j : j+1]
		}
		length := 0
		if j >= cs.Start && j-cs.Start < cs.Len {
			length = 1
		}
		want, e1, ok := call(col, 0, length)
		if !ok {
			return
		}
		if e1 != nil {
			c.Skip("the one-column call is refused")
			return
		}
		for i := 0; i < n; i++ {
			if got[i].Seq[j:j+1] != want[i].Seq {
				viol("column-differs-from-the-column-alone", fmt.Sprintf("column %d of %d: row %s holds %q, the same call on that column alone gives %q", j, L, got[i].Name, got[i].Seq[j:j+1], want[i].Seq))
				return
			}
		}
	}
	c.Nontrivial(jsonStr(cs))
	c.Outcome(cs.Op + ":columnwise")
}

func c15LongTask() mc.Task {
	return mc.Task{Name: "long-rows#columnwise", Run: func(c *mc.Ctx) {
		var lens []int
		for l := 5; l <= 40; l++ {
			lens = append(lens, l)
		}
		lens = append(lens, 63, 64, 65, 300, 520, 1000, 1030)
		for _, L := range lens {
			seqs := make([]string, 4)
			for i := range seqs {
				b := make([]byte, L)
				for j := range b {
					b[j] = "AC-AN-CA"[(j*(i+2)+i+j/5)%8]
					if i == 0 && j%6 == 4 {
						b[j] = '-'
					}
				}
				seqs[i] = string(b)
			}
			windows := [][2]int{{0, L}, {1, L - 2}, {3, 5}, {L - 3, 10}, {2, 9}, {6, 17}}
			repls, refs := []string{"", "GAP", "MAJ", "z"}, []string{"", "a", "c"}
			if L >= 300 {
				// windows longer than a block of 256 (and of 512) that end well before the alignment does
				windows = [][2]int{{10, 257}, {10, 290}, {0, 256}, {7, 255}, {5, 513}, {100, 600}, {3, L - 40}}
				repls, refs = []string{"", "MAJ"}, []string{"", "a"}
			}
			for _, w := range windows {
				if w[0]+w[1] > L+10 {
					continue
				}
				for _, repl := range repls {
					for _, ref := range refs {
						for opt := 0; opt < 4; opt++ {
							if ref == "" && opt&2 != 0 {
								continue
							}
							c15Long(c, c15Case{Op: "long-Mask", Alpha: "nt", Seqs: seqs, Ref: ref, Start: w[0], Len: w[1], Repl: repl, NoGap: opt&1 != 0, NoRef: opt&2 != 0})
							if L >= 300 && opt == 0 {
								for _, procs := range []int{2, 3, 8} {
									c15Long(c, c15Case{Op: "long-Mask", Alpha: "nt", Seqs: seqs, Ref: ref, Start: w[0], Len: w[1], Repl: repl, Procs: procs})
								}
							}
						}
					}
				}
			}
			for _, repl := range []string{"", "GAP", "MAJ"} {
				for _, ref := range []string{"", "b"} {
					for max := 0; max <= 2; max++ {
						c15Long(c, c15Case{Op: "long-MaskOccurences", Alpha: "nt", Seqs: seqs, Ref: ref, Repl: repl, Max: max})
						if L >= 300 {
							for _, procs := range []int{3, 8} {
								c15Long(c, c15Case{Op: "long-MaskOccurences", Alpha: "nt", Seqs: seqs, Ref: ref, Repl: repl, Max: max, Procs: procs})
							}
						}
					}
				}
			}
			if c.Expired() {
				return
			}
		}
	}}
}

// c15Sched runs one call under the controlled scheduler (see mc.SchedProbe).
func c15Sched(c *mc.Ctx, cs c15Case) {
	op := strings.TrimPrefix(cs.Op, "sched-")
	mc.SchedProbe(c, "C15/"+op, fmt.Sprintf("%s on a %dx%d alignment", op, len(cs.Seqs), len(cs.Seqs[0])), 1, cs, func() any {
		al, err := mkAlign(c15Alphabet(cs.Alpha), namedRows(cs.Seqs...))
		if err != nil {
			return "build:" + err.Error()
		}
		switch op {
		case "Mask":
			err = al.Mask(cs.Ref, cs.Start, cs.Len, cs.Repl, cs.NoGap, cs.NoRef)
		case "MaskOccurences":
			err = al.MaskOccurences(cs.Ref, cs.Max, cs.Repl)
		case "MaskUnique":
			err = al.MaskUnique(cs.Ref, cs.Repl)
		}
		return fmt.Sprint(err, readRows(al))
	}, func(a, b any) bool { return a == b })
}

// c15ManyRows: one column of Max rows: a residue A occurring Max-2 times, C and G once each.  Rare residues
// (threshold 1) are exactly C and G, whatever the number of rows (counters narrower than int wrap at 256, 65536).
// The case travels as {Op: "manyrows", Max: number of rows, Repl}.
func c15ManyRows(c *mc.Ctx, cs c15Case) {
	c.Eval()
	n := cs.Max
	al := align.NewAlign(align.NUCLEOTIDS)
	for i := 0; i < n; i++ {
		ch := "A"
		if i == n/2 {
			ch = "C"
		} else if i == n-1 {
			ch = "G"
		}
		if err := al.AddSequence(fmt.Sprintf("s%d", i), ch+"T", ""); err != nil {
			c.Fatal("cannot build %d rows: %v", n, err)
			return
		}
	}
	var err error
	if pn, msg := mc.Guard(func() { err = al.MaskOccurences("", 1, cs.Repl) }); pn {
		c.Violation("C15/MaskOccurences/many-rows/panic", msg+": "+jsonStr(cs), cs)
		return
	}
	if err != nil {
		c.Violation("C15/MaskOccurences/many-rows/unexpected-error", err.Error()+": "+jsonStr(cs), cs)
		return
	}
	want := byte('N')
	if cs.Repl == "MAJ" {
		want = 'A'
	}
	for i := 0; i < n; i++ {
		s, _ := al.GetSequenceById(i)
		exp := "AT"
		if i == n/2 || i == n-1 {
			exp = string([]byte{want, 'T'})
		}
		if s != exp {
			c.Violation("C15/MaskOccurences/many-rows/cells", fmt.Sprintf("row %d of %d is %q, expected %q (A occurs %d times, C and G once; threshold 1, replacement %q): %s", i, n, s, exp, n-2, cs.Repl, jsonStr(cs)), cs)
			return
		}
	}
	c.Nontrivial(jsonStr(cs))
	c.Outcome("manyrows:ok")
}

// c15Replay runs one written-out case on a fresh alignment.
func c15Replay(c *mc.Ctx, cs c15Case) {
	if cs.Op == "manyrows" {
		c15ManyRows(c, cs)
		return
	}
	if strings.HasPrefix(cs.Op, "sched-") {
		c15Sched(c, cs)
		return
	}
	if strings.HasPrefix(cs.Op, "long-") {
		c15Long(c, cs)
		return
	}
	k := &c15Checker{c: c}
	defer k.flush()
	if !k.load(cs.Alpha, cs.Seqs) {
		return
	}
	cfg := c15Cfg{ref: -1, start: cs.Start, length: cs.Len, repl: cs.Repl, nogap: cs.NoGap, noref: cs.NoRef, max: cs.Max}
	switch cs.Op {
	case "Mask":
		cfg.op = c15OpMask
	case "MaskOccurences":
		cfg.op = c15OpOcc
	case "MaskUnique":
		cfg.op, cfg.max = c15OpUnique, 1
	default:
		c.Fatal("unknown operation %q", cs.Op)
		return
	}
	if cs.Ref != "" {
		cfg.ref = k.n
		for i := 0; i < k.n; i++ {
			if rowNames[i] == cs.Ref {
				cfg.ref = i
			}
		}
	}
	k.run(&cfg)
}

func init() {
	mc.Register(&mc.Prop{
		ID:    "C15",
		Level: "exploration",
		Rule: cliStreamRule[1:] + "(Long rows: 4 rows of every length 5..40 and 63..65; Mask with 6 windows x 4 replacements x reference x protection flags and MaskOccurences with thresholds 0..2 must do to every column what the same call does to that column alone - the one-column calls being judged by the enumeration below.) (Free-running complement under the race detector: 8 goroutines doing this property's operations on objects of their own must get the values the same work gives alone.)  Command line: goalign mask with -s/-l, --pos, --unique --at-most, --ref-seq (none, a, b), --replace (not given, GAP, MAJ, Z, n), --no-gaps, --no-ref on every 2x3 alignment over {A,C,-} (protein alphabet: 2x2 in the quick tier) and two larger ones: the output must be what the documented library calls (RefCoordinates + Mask per window / position, MaskOccurences) give; a call the library refuses must be refused. " + "(also: five calls on a 4 x 2600 alignment under the controlled scheduler, preemption bound 1 — one execution unless the operation spawns goroutines;) bounded-exhaustive enumeration of calls on real alignments (alphabet fixed to nucleotide, AMBIG = N, and to amino acid, AMBIG = X; rows named a, b, c ...). " +
			"Inputs (n rows x L columns, all alignments of the shape over the symbol set): 1x1, 1x2, 1x3, 2x1, 2x2, 3x1 and (Mask only) 1x4 over {A,C,-,N,.} (nt) / {A,C,-,X,.} (aa); " +
			"2x3, 3x2, 4x1 and (MaskOccurences/MaskUnique only) 3x3, 4x2, 5x1 over {A,C,-,N} / {A,C,-,X}; Mask on 3x3 and 2x4 over {A,C,-} in the quick tier and over the four symbols in the thorough tier; " +
			"thorough adds Mask on 4x2 and MaskOccurences/MaskUnique on 5x2 over the four symbols; plus the alignment without rows and 1, 2, 3 rows without columns. " +
			"Mask: on each input every combination of reference in {none, each row, a name no row has} x replacement in {\"\", AMBIG, MAJ, GAP, Z, ZZ} (also -, A, z, n, x and maj on 1x1 .. 3x1 and the shapes without cells) x nogap x noref x " +
			"start in -1..L+1 x length in {-1..L+2, MaxInt}. " +
			"MaskOccurences: every reference x replacement as above x threshold in -1..n+1; MaskUnique: every reference x replacement. " +
			"After each call every cell, every name, the row order, the row lengths and Length() are compared with an oracle that classifies each cell as must-be-replaced / must-be-kept / undetermined from the statement, " +
			"and the replacement character with the set the statement allows for the column (ties of MAJ: any tied character, the same one for the whole column). " +
			"The alignment object is reused between the calls on one input after its residues have been put back in place; replays build a fresh object. " +
			"Non-trivial input = one on which some call of the block both visibly replaces a cell and has to keep another one.",
		Assumptions: []string{
			"cells are compared as bytes; inputs are upper case (whether a and A are 'equal to the reference' or the same rare residue is not stated)",
			"'the column's most frequent character' counts every character of the column, gaps included, before the call; ties may be resolved either way but with one character per column",
			"MAJ while a reference row is named: the most frequent character of the whole column, of the column without the reference row, and (MaskOccurences) of the counted population are all accepted (docs/commands/mask.md and the statement name different populations)",
			"start < 0, start >= L, length < 0, threshold < 0, a reference name no row has, noref without reference, and a replacement string of several characters may be refused with an error; if they are not, only what the statement still determines is compared",
			"a call that returns an error may have replaced selected cells already; cells outside the selection must be unchanged even then",
			"a window with 0 <= start < L and length >= 0 must not fail ('truncated rather than failing'), whatever its length",
		},
		// free-running complement: goroutines that each own their objects must get what they get alone (harness/racepass)
		Post: func(m *mc.Master) { m.RacePass("own-mask") },
		Tasks: func(tier string) []mc.Task {
			return append(append(c15Tasks(tier), cliStreamTasks("C15")...), c15CLITasks(tier == "thorough")...)
		},
		Replay: func(c *mc.Ctx, payload json.RawMessage) {
			if cliStreamReplay(c, payload) || c15CLIReplay(c, payload) {
				return
			}
			var cs c15Case
			if err := json.Unmarshal(payload, &cs); err != nil {
				c.Fatal("bad payload: %v", err)
				return
			}
			c15Replay(c, cs)
		},
		Vacuity: func(tier string, t *mc.Totals) error {
			if t.Evaluations < 100000000 || len(t.OutcomeSet) < 30 {
				return fmt.Errorf("only %d evaluations / %d outcome classes", t.Evaluations, len(t.OutcomeSet))
			}
			for _, name := range c15CtNames {
				if t.Extra[name] < 1000 {
					return fmt.Errorf("counter %s = %d: that part of the rule was hardly exercised", name, t.Extra[name])
				}
			}
			return nil
		},
	})
}
