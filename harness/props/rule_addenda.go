package props

import "verif/harness/mc"

// Bounds added in rounds 7 and 8 of the seeded changes, appended to the rule of each property (the rule is copied
// into the evidence): kept in one place so that the long rule strings of the drivers stay as they were reviewed.
var ruleAddenda = map[string]string{
	"C01": " ROUNDS 7-8: states are merged only when implementation AND model (policy, alphabet) agree; names with a format directive and a trailing vertical tab; Append/Concat arguments with three new names not in sorted order.",
	"C02": " ROUNDS 7-8: two names of one alignment equal up to case / prefixes of one another / one the automatic duplicate name of the other (12 pairs x 3 shapes); after every write the alignment must still hold its rows. Mini-round 9: 1003 x 2100 residues (> 2^21) through one writer per format under GOMAXPROCS 1, 3, 4.",
	"C03": " ROUNDS 7-8: per format, files of 99..102 and 257 rows in two blocks written by goalign's writers.",
	"C04": " ROUNDS 7-8: TrimSequences after Append from another alignment and after a.Append(a); partition sets declared site by site; 127..130, 200, 255..258, 300 partitions (one site each and interleaved, 3 builds); extract: a 3-column line after a minus-strand line, a feature name holding a blank. Mini-round 9: a rejected TrimSequences leaves rows and Length() as they were and SubAlign(0,L) still works.",
	"C05": " ROUNDS 7-8: CodonAlign with the nucleotide set in every order and under 8 sets of look-alike names; TranslateByReference after every name was looked up and the rows were re-sorted (every byref case twice).",
	"C06": " ROUNDS 7-8: a container that refuses a valid input of the family is a violation; command line: names with a blank / tab / other case are unknown names; unalign -o on streams, one file per alignment (-t 1 and 4). Mini-round 9: long rows also under GOMAXPROCS 2, 3, 8.",
	"C07": " ROUNDS 7-8: shapes 0.05, 10, 101, 1000 on a 5-column family for every corrected model.",
	"C08": " ROUNDS 7-8: failing evaluations on 16 rows (120 pairs) with 1 and 2 workers and one preemption.",
	"C09": " ROUNDS 7-8: all pairs <= 3 over {A,N,X} under match/mismatch; two flanks of 80 around inserts of 100..520 against the flanks alone, 571 residues with 30 inserted at 8 places under GOMAXPROCS 1,2,3,4,8, both orientations, matrix and match/mismatch schemes, Gotoh oracle. Mini-round 9: Alignment() called twice on one aligner: the counts still add up to the length.",
	"C10": " ROUNDS 7-8: bootstrap length for every k/100 on 50 and 100 columns; writes after a whole-length recombination; the same seed (1, -5) with GOMAXPROCS 1,2,3,4,8 on 64x1100 for 10 operations, each run twice. Mini-round 9: rogue rows with three shuffled sites of four (2x4, 3x4), every RNG answer.",
	"C11": " ROUNDS 7-8: chains through reformat fasta --unaligned, headers with a description; distboot == seqboot + distance for a protein model with --alpha; unalign -p -o (one file per alignment) with threads.",
	"C12": " ROUNDS 7-8: every letter in both cases in one column; RemoveGapSites / RemoveCharacterSites / RemoveMajorityCharacterSites on 3 x {40, 257, 1023, 1024, 1027, 2053, 4099} sites under GOMAXPROCS {1,2,3,4,5,7,8,16}, ends on/off, also on the alignment appended to itself twice (rows sharing storage): verdict of a column = verdict on that column alone, result = selection of the kept columns, index lists and leading/trailing counts follow. Mini-round 9: 255..131082 rows x 3 sites against the harness's own counts (cutoffs 0, 0.5, 1); RemoveGapSeqs on 999..4000 rows with GOMAXPROCS 2, 4 under the controlled scheduler (order of the kept rows).",
	"C13": " ROUNDS 7-8: command-line layer for dedup (log plain/.gz x output stdout/file). Mini-round 9: Compress of 65537 sites under GOMAXPROCS 2, 3, 8.",
	"C14": " ROUNDS 7-8: every letter in both cases in one column; per-site statistics of long alignments column-wise; ListMutationsComparedToReferenceSequence(aa=true) on references ATG GCA / TTA CGT with <= 3 gaps inside codons x 3 options per position (same / substituted / gap; inserted A / C / gap) against the documented definition (deletion '-', frameshift '/', amino acids otherwise); stats --per-sequences [--ref-sequence b] on streams. Mini-round 9: long alignments (255..4099 sites) also under GOMAXPROCS 2, 3, 5, 8.",
	"C15": " ROUNDS 7-8: long rows column-wise (lengths 5..65 and 300, 520, 1000, 1030 with windows of 255..600 ending inside the alignment); command line with two-digit and zero-padded positions. Mini-round 9: long rows also under GOMAXPROCS 2, 3, 8.",
	"C16": " ROUNDS 7-8: ambiguous codons under each code after the other two were used, in both orders; 7 sequences whose hit leaves less than a codon x translate x cut-end x 2 codes x 1,3 workers x default / disabled cut-offs.",
	"C17": " ROUNDS 7-8: a kept matrix reads as before after the next call; weights 1e-5..1e-4 per column, 1/4096, x1e5, and normalised weights with one light (0.0005, 1/1500, 0.002) shared column.",
	"C18": " ROUNDS 7-8: user frequencies with a nearly absent amino acid; one model read by 4 goroutines (free-running); GOMAXPROCS {1,2,3,6,7,8,9,16,19,24} for LG, Dayhoff, GTR, K2P; P(t) of the ML distance code (overlay accessor VerifPMat) for 7 matrices x model/empirical frequencies x gamma off/0.5 x 15 lengths 1e-8..20: entries strictly in [0,1], rows sum to 1.",
	"C19": " ROUNDS 7-8: every writer and statistic on Transpose / Clone / SubAlign / SelectSites results; the returned mutation list overwritten up to capacity; copy-producing operations on 999..1003, 1023..1027, 2051 rows.",
	"C20": " ROUNDS 7-8: Dirichlet vectors of 4095, 4096, 4097, 5000, 9000 components, valid and with one invalid component (0, -1, NaN, +Inf) at 6 places, GOMAXPROCS 1,2,3,16 (seeded); weightboot --threads 1,2,3,4,16 x 1,2,5,17 vectors. Mini-round 9: samples handed out by earlier calls read as before after later calls; weightboot into an existing longer file.",
}

// applyRuleAddenda is called once all properties are registered.
func init() {
	mc.AfterRegister(func(p *mc.Prop) {
		if a, ok := ruleAddenda[p.ID]; ok {
			p.Rule += a
		}
	})
}
