package props

import (
	"runtime"
	"encoding/json"
	"fmt"
	"github.com/evolbioinfo/goalign/io/countprofile"
	"math"
	"os"
	"path/filepath"
	"reflect"
	"sort"
	"strings"

	"verif/harness/mc"

	"github.com/evolbioinfo/goalign/align"
	"github.com/evolbioinfo/goalign/verifrt/vrt"
)

// C14 — column statistics and consensus match their definitions and are
// deterministic.
//
// Every `for … range <map>` of goalign is a choice point (vrt.MapKeys).  Each
// call of a statistic that ranges over a map (MaxCharStats, Consensus, Entropy,
// Pssm) is executed under EVERY iteration order the runtime offers at every
// such point (mc.Explorer, MapChoice); every leaf is compared with the naive
// oracle (c14_oracle.go) and all leaves of one call with each other.  The
// statistics that do not range over a map are executed inside the same
// explorer (one leaf, unless a change introduces a map range) and twice on the
// same alignment object.

type c14Case struct {
	Op      string      `json:"op"` // maxchar | consensus | entropy | pssm | plain | sorted | refrel
	Alpha   int         `json:"alphabet"`
	Seqs    []string    `json:"seqs"`
	Ref     string      `json:"ref,omitempty"`
	IgG     bool        `json:"ignoreGaps,omitempty"`
	IgN     bool        `json:"ignoreNs,omitempty"`
	Site    int         `json:"site,omitempty"`
	// Procs (long-columnwise): GOMAXPROCS during the case (0 = unchanged)
	Procs int `json:"gomaxprocs,omitempty"`
	RmGaps  bool        `json:"removeGaps,omitempty"`
	Norm    int         `json:"norm,omitempty"`
	Log     bool        `json:"log,omitempty"`
	Pseudo  float64     `json:"pseudo,omitempty"`
	MapDev  int         `json:"mapDeviations,omitempty"` // >0: at most this many map ranges per execution leave the sorted order
	Choices []vrt.Point `json:"choices,omitempty"`
	Leaf    bool        `json:"leaf,omitempty"`
	// Warm (refrel): reference and sequence are rows of one sequence set that first held both rows
	// reversed, answered the same two queries in that state and was edited in place into the case's rows
	Warm bool `json:"warm,omitempty"`
}

func (cs c14Case) String() string {
	a := "nt"
	if cs.Alpha == align.AMINOACIDS {
		a = "aa"
	}
	return fmt.Sprintf("%s rows=%q", a, cs.Seqs)
}

func c14Mk(cs c14Case) align.Alignment {
	al, err := mkAlign(cs.Alpha, namedRows(cs.Seqs...))
	if err != nil {
		panic("c14: cannot build alignment: " + err.Error())
	}
	return al
}

// c14Explore runs body under every map order (or only the recorded leaf when
// replaying one) and hands every leaf to onLeaf.
func c14Explore(c *mc.Ctx, cs c14Case, mapChoice bool, body func() any, onLeaf func(res any, pts []vrt.Point)) (complete bool) {
	ex := &mc.Explorer{Ctx: c, Opts: vrt.Options{MapChoice: mapChoice}, Body: body}
	if cs.MapDev > 0 {
		ex.Bound = map[string]int{"map": cs.MapDev}
	}
	ex.Check = func(x *mc.Execution) {
		if x.Panic != nil {
			// every call into goalign is guarded inside body: this is a harness failure
			c.Fatal("unguarded panic in %s %s: %v", cs.Op, cs, x.Panic)
			ex.Stop()
			return
		}
		onLeaf(x.Result, x.Exec.Points)
	}
	if cs.Leaf {
		x := ex.RunOnce(cs.Choices)
		c.Eval()
		if x.Exec.Diverged != "" {
			c.Fatal("replay diverged: %s", x.Exec.Diverged)
			return false
		}
		ex.Check(x)
		return false
	}
	complete = ex.Explore()
	c.Count("map_order_leaves", ex.Executions)
	if ex.Executions > 1 {
		c.Count("calls_with_more_than_one_map_order", 1)
	}
	return complete
}

type c14Violf func(sig, desc string, pts []vrt.Point)

func c14Reporter(c *mc.Ctx, cs c14Case) c14Violf {
	return func(sig, desc string, pts []vrt.Point) {
		r := cs
		if pts != nil {
			r.Leaf, r.Choices = true, pts
		}
		d := fmt.Sprintf("%s; %s", desc, cs)
		if len(pts) > 0 {
			d += " map orders [" + mc.RenderPoints(pts) + "]"
		}
		c.Violation("C14/"+sig, d, r)
	}
}

// ------------------------------------------------------------------ majority character / consensus

type c14MaxRes struct {
	Panic string
	Out   []byte
	Occur []int
	Total []int
	Shape string // consensus only: "" when 1 row of length L
}

func c14SiteClause(site, L int) string {
	switch {
	case site < 0:
		return "site-negative"
	case site >= L:
		return "site-eq-L"
	}
	return "site-in-range"
}

func c14CallMax(al align.Alignment, igG, igN bool) (r c14MaxRes) {
	pn, msg := mc.Guard(func() { r.Out, r.Occur, r.Total = al.MaxCharStats(igG, igN) })
	if pn {
		r.Panic = msg
	}
	return
}

func c14CallCons(al align.Alignment, igG, igN bool) (r c14MaxRes) {
	pn, msg := mc.Guard(func() {
		cons := al.Consensus(igG, igN)
		if cons == nil {
			r.Shape = "nil"
			return
		}
		if cons.NbSequences() != 1 {
			r.Shape = fmt.Sprintf("%d rows", cons.NbSequences())
			return
		}
		s, _ := cons.GetSequenceCharById(0)
		r.Out = append([]byte{}, s...)
	})
	if pn {
		r.Panic = msg
	}
	return
}

// c14MaxWants evaluates the oracle of every site once.
func c14MaxWants(cs c14Case) []c14MaxWant {
	w := make([]c14MaxWant, c14Len(cs.Seqs))
	for j := range w {
		w[j] = c14MaxOracle(cs.Seqs, cs.Alpha, j, cs.IgG, cs.IgN)
	}
	return w
}

// c14CheckMax compares one result with the definition; returns the outcome class.
func c14CheckMax(c *mc.Ctx, cs c14Case, fn string, r *c14MaxRes, withCounts bool, wants []c14MaxWant, viol func(clause, desc string)) string {
	L := len(wants)
	opt := func() string { return fmt.Sprintf("ignoreGaps=%v ignoreNs=%v", cs.IgG, cs.IgN) }
	if r.Panic != "" {
		viol("panic/"+mc.PanicSite(r.Panic), opt()+": "+r.Panic)
		return "panic"
	}
	if r.Shape != "" {
		viol("shape", opt()+": consensus is "+r.Shape)
		return "shape"
	}
	if len(r.Out) != L || (withCounts && (len(r.Occur) != L || len(r.Total) != L)) {
		viol("length", fmt.Sprintf("%s: result has %d/%d/%d entries for %d sites", opt(), len(r.Out), len(r.Occur), len(r.Total), L))
		return "length"
	}
	class := "unique-max"
	for j := 0; j < L; j++ {
		w := &wants[j]
		switch w.Mode {
		case c14MaxOpen:
			c.Skip(fn + ": column of only gaps and Ns with both ignored (no single kind to fall back to)")
			class = "open"
			continue
		case c14MaxFallback:
			if r.Out[j] != w.Allowed[0] {
				viol("fallback-character", fmt.Sprintf("%s site %d: got %q, the column holds only %q", opt(), j, r.Out[j], w.Allowed[0]))
				return "bad"
			}
			if withCounts {
				c.Skip(fn + ": occurrence/total of an all-ignored column are not determined")
			}
			class = "fallback"
			continue
		}
		found := false
		for _, a := range w.Allowed {
			if a == r.Out[j] {
				found = true
			}
		}
		if !found {
			viol("not-a-most-frequent-character", fmt.Sprintf("%s site %d: got %q, most frequent among the characters not excluded: %q (%d times)", opt(), j, r.Out[j], w.Allowed, w.Occur))
			return "bad"
		}
		if withCounts && r.Occur[j] != w.Occur {
			viol("occurrence", fmt.Sprintf("%s site %d: occur=%d want %d", opt(), j, r.Occur[j], w.Occur))
			return "bad"
		}
		if withCounts && r.Total[j] != w.Total {
			viol("total", fmt.Sprintf("%s site %d: total=%d want %d", opt(), j, r.Total[j], w.Total))
			return "bad"
		}
		if len(w.Allowed) > 1 {
			class = "tie"
		}
	}
	return class
}

func c14MaxSame(a, b *c14MaxRes) bool {
	return a.Panic == b.Panic && a.Shape == b.Shape && string(a.Out) == string(b.Out) && intsEq(a.Occur, b.Occur) && intsEq(a.Total, b.Total)
}

func c14RowsUnchanged(al align.Alignment, seqs []string) bool {
	if al.NbSequences() != len(seqs) {
		return false
	}
	for i, s := range seqs {
		if g, _ := al.GetSequenceCharById(i); string(g) != s {
			return false
		}
	}
	return true
}

func c14RunMax(c *mc.Ctx, cs c14Case) {
	report := c14Reporter(c, cs)
	fn, withCounts := "MaxCharStats", true
	cons := cs.Op == "consensus"
	if cons {
		fn, withCounts = "Consensus", false
	}
	wants := c14MaxWants(cs)
	al := c14Mk(cs) // the same alignment object for every call
	var first *c14MaxRes
	var firstPts []vrt.Point
	bad, differs := false, false
	class := ""
	c14Explore(c, cs, true, func() any {
		var r c14MaxRes
		if cons {
			r = c14CallCons(al, cs.IgG, cs.IgN)
		} else {
			r = c14CallMax(al, cs.IgG, cs.IgN)
		}
		return &r
	}, func(res any, pts []vrt.Point) {
		r := res.(*c14MaxRes)
		if bad {
			return
		}
		cl := c14CheckMax(c, cs, fn, r, withCounts, wants, func(clause, desc string) {
			bad = true
			report(fn+"/"+clause, desc, pts)
		})
		if bad {
			return
		}
		if first == nil {
			first, firstPts, class = r, append([]vrt.Point{}, pts...), cl
			return
		}
		if differs {
			return
		}
		if !c14MaxSame(first, r) {
			differs = true
			tie := false
			for j := range r.Out {
				if j < len(first.Out) && r.Out[j] != first.Out[j] && wants[j].Mode == c14MaxNormal && len(wants[j].Allowed) > 1 {
					tie = true
				}
			}
			clause := "differs-across-map-orders"
			if tie {
				clause = "tie-broken-by-map-iteration-order"
			}
			report(fn+"/"+clause, fmt.Sprintf("ignoreGaps=%v ignoreNs=%v: %q/%v/%v under map orders [%s] but %q/%v/%v under [%s]",
				cs.IgG, cs.IgN, first.Out, first.Occur, first.Total, mc.RenderPoints(firstPts), r.Out, r.Occur, r.Total, mc.RenderPoints(pts)), nil)
		}
	})
	if !c14RowsUnchanged(al, cs.Seqs) {
		report("alignment-modified-by-a-statistic", fn+" changed the rows to "+fmt.Sprintf("%q", c14RowSeqs(al)), nil)
		return
	}
	if !bad && first != nil {
		c.Nontrivial(c14Key(cs))
		c.Outcome(cs.Op + ":" + class + c14OptTag(cs.IgG, cs.IgN))
	}
}

func c14OptTag(igG, igN bool) string {
	switch {
	case igG && igN:
		return ":igtrue:intrue"
	case igG:
		return ":igtrue:infalse"
	case igN:
		return ":igfalse:intrue"
	}
	return ":igfalse:infalse"
}

// c14Key: compact identity of a case for the distinct-case count.
func c14Key(cs c14Case) string {
	var b strings.Builder
	b.WriteString(cs.Op)
	b.WriteByte(byte('0' + cs.Alpha))
	for _, s := range cs.Seqs {
		b.WriteByte('|')
		b.WriteString(s)
	}
	b.WriteByte('|')
	b.WriteString(cs.Ref)
	flags := byte('0')
	if cs.IgG {
		flags |= 1
	}
	if cs.IgN {
		flags |= 2
	}
	if cs.RmGaps {
		flags |= 4
	}
	if cs.Log {
		flags |= 8
	}
	b.WriteByte(flags)
	b.WriteByte(byte('a' + cs.Site + 1))
	b.WriteByte(byte('a' + cs.Norm))
	if cs.Pseudo > 0 {
		b.WriteByte('p')
	}
	return b.String()
}

// ------------------------------------------------------------------ entropy

type c14EntRes struct {
	Panic string
	H     float64
	Err   bool
}

func c14CallEntropy(al align.Alignment, site int, rm bool) (r c14EntRes) {
	pn, msg := mc.Guard(func() {
		h, err := al.Entropy(site, rm)
		r.H, r.Err = h, err != nil
	})
	if pn {
		r.Panic = msg
	}
	return
}

var c14EntropyReadings = c14Readings(c14Both, []int{0}, c14Both)

// c14EntWant is the oracle's verdict for one Entropy call.
type c14EntWant struct {
	Where string
	OutOf bool // site outside the alignment: error expected
	Open  bool // the readings disagree
	NaN   bool
	H     float64
}

func c14EntropyWant(cs c14Case) (w c14EntWant) {
	L := c14Len(cs.Seqs)
	w.Where = c14SiteClause(cs.Site, L)
	if cs.Site < 0 || cs.Site >= L {
		w.OutOf = true
		return
	}
	set := false
	for _, rd := range c14EntropyReadings {
		h, ok := c14Entropy(cs.Seqs, cs.Site, cs.RmGaps, rd)
		if !set {
			w.H, w.NaN, set = h, !ok, true
			continue
		}
		if w.NaN != !ok || (ok && math.Abs(h-w.H) > 1e-15) {
			w.Open = true
		}
	}
	return
}

func c14CheckEntropy(c *mc.Ctx, cs c14Case, r *c14EntRes, w *c14EntWant, viol func(clause, desc string)) string {
	arg := func() string {
		return fmt.Sprintf("Entropy(%d, removeGaps=%v) with L=%d", cs.Site, cs.RmGaps, c14Len(cs.Seqs))
	}
	if r.Panic != "" {
		viol(w.Where+"/panic/"+mc.PanicSite(r.Panic), arg()+": "+r.Panic)
		return "panic"
	}
	if w.OutOf {
		if !r.Err {
			viol(w.Where+"/no-error", fmt.Sprintf("%s returned %v and no error", arg(), r.H))
			return "bad"
		}
		return "error:" + w.Where
	}
	if r.Err {
		viol("site-in-range/error", arg()+" returned an error")
		return "bad"
	}
	if w.Open {
		c.Skip("Entropy: column mixing cases of one letter or holding '.' (whether they are distinct / counted is not determined)")
		return "open"
	}
	if w.NaN {
		if !math.IsNaN(r.H) {
			viol("value", fmt.Sprintf("%s = %v, want NaN (no character to count)", arg(), r.H))
			return "bad"
		}
		return "NaN"
	}
	if !c14Close(r.H, w.H) {
		viol("value", fmt.Sprintf("%s = %.17g, want %.17g", arg(), r.H, w.H))
		return "bad"
	}
	if w.H == 0 {
		return "zero"
	}
	return "positive"
}

func c14RunEntropy(c *mc.Ctx, cs c14Case) {
	report := c14Reporter(c, cs)
	want := c14EntropyWant(cs)
	al := c14Mk(cs)
	var first *c14EntRes
	var firstPts []vrt.Point
	bad, differs := false, false
	class := ""
	c14Explore(c, cs, true, func() any {
		r := c14CallEntropy(al, cs.Site, cs.RmGaps)
		return &r
	}, func(res any, pts []vrt.Point) {
		r := res.(*c14EntRes)
		if bad {
			return
		}
		cl := c14CheckEntropy(c, cs, r, &want, func(clause, desc string) {
			bad = true
			report("Entropy/"+clause, desc, pts)
		})
		if bad {
			return
		}
		if first == nil {
			first, firstPts, class = r, append([]vrt.Point{}, pts...), cl
			return
		}
		if !differs && (first.Err != r.Err || !c14Close(first.H, r.H)) {
			differs = true
			report("Entropy/differs-across-map-orders", fmt.Sprintf("Entropy(%d,%v) = %.17g under [%s] but %.17g under [%s]", cs.Site, cs.RmGaps, first.H, mc.RenderPoints(firstPts), r.H, mc.RenderPoints(pts)), nil)
		}
	})
	if !c14RowsUnchanged(al, cs.Seqs) {
		report("alignment-modified-by-a-statistic", "Entropy changed the rows to "+fmt.Sprintf("%q", c14RowSeqs(al)), nil)
		return
	}
	if !bad && first != nil {
		c.Nontrivial(c14Key(cs))
		if cs.RmGaps {
			c.Outcome("entropy:" + class + ":rmtrue")
		} else {
			c.Outcome("entropy:" + class + ":rmfalse")
		}
	}
}

// ------------------------------------------------------------------ PSSM

type c14PssmRes struct {
	Panic   string
	Err     bool
	M       map[uint8][]float64
	Skipped bool // not called in this pass
}

func c14CallPssm(al align.Alignment, logv bool, pseudo float64, norm int) (r c14PssmRes) {
	pn, msg := mc.Guard(func() {
		m, err := al.Pssm(logv, pseudo, norm)
		r.M, r.Err = m, err != nil
	})
	if pn {
		r.Panic = msg
	}
	return
}

func c14PssmSame(a, b c14PssmRes, exact bool) bool {
	if a.Skipped || b.Skipped {
		return true
	}
	if a.Panic != b.Panic || a.Err != b.Err || len(a.M) != len(b.M) {
		return false
	}
	for k, va := range a.M {
		vb, ok := b.M[k]
		if !ok || len(va) != len(vb) {
			return false
		}
		for i := range va {
			if exact {
				if math.Float64bits(va[i]) != math.Float64bits(vb[i]) && !(math.IsNaN(va[i]) && math.IsNaN(vb[i])) {
					return false
				}
			} else if !c14Close(va[i], vb[i]) {
				return false
			}
		}
	}
	return true
}

func c14PssmArg(cs c14Case) string {
	return fmt.Sprintf("Pssm(log=%v, pseudocount=%v, normalization=%d)", cs.Log, cs.Pseudo, cs.Norm)
}

func c14CheckPssm(c *mc.Ctx, cs c14Case, r c14PssmRes, viol func(clause, desc string)) string {
	arg := c14PssmArg(cs)
	if r.Panic != "" {
		viol("panic/"+mc.PanicSite(r.Panic), arg+": "+r.Panic)
		return "panic"
	}
	if cs.Norm < align.PSSM_NORM_NONE || cs.Norm > align.PSSM_NORM_LOGO {
		// not part of the statement: only required not to crash
		if !r.Err {
			return "unknown-normalization:accepted"
		}
		return "error:unknown-normalization"
	}
	want, open, determined := c14Pssm(cs.Seqs, cs.Alpha, cs.Norm, cs.Log, cs.Pseudo)
	if !determined {
		// data / logo normalisation: formula not pinned down by statement or documentation; determinism only
		if r.Err {
			return fmt.Sprintf("norm%d:error", cs.Norm)
		}
		return fmt.Sprintf("norm%d:not-compared", cs.Norm)
	}
	if r.Err {
		viol("unexpected-error", arg+" returned an error")
		return "bad"
	}
	letters := c14Letters(cs.Alpha)
	if len(r.M) != len(letters) {
		viol("rows", fmt.Sprintf("%s has %d rows, the alphabet has %d letters", arg, len(r.M), len(letters)))
		return "bad"
	}
	L := c14Len(cs.Seqs)
	skipped := false
	for k := 0; k < len(letters); k++ {
		ch := letters[k]
		v, ok := r.M[ch]
		if !ok || len(v) != L {
			viol("rows", fmt.Sprintf("%s: row %q missing or of length %d (L=%d)", arg, ch, len(v), L))
			return "bad"
		}
		for j := 0; j < L; j++ {
			if open[j] {
				skipped = true
				continue
			}
			if !c14Close(v[j], want[ch][j]) {
				viol(fmt.Sprintf("value/norm%d", cs.Norm), fmt.Sprintf("%s [%q][%d] = %.17g, want %.17g", arg, ch, j, v[j], want[ch][j]))
				return "bad"
			}
		}
	}
	if skipped {
		c.Skip("Pssm: frequency of a column holding gaps/ambiguity codes (denominator: sequences or counted letters?)")
		return fmt.Sprintf("norm%d:partly-compared", cs.Norm)
	}
	return fmt.Sprintf("norm%d:compared:log%v:pc%v", cs.Norm, cs.Log, cs.Pseudo > 0)
}

func c14RunPssm(c *mc.Ctx, cs c14Case) {
	report := c14Reporter(c, cs)
	var first *c14PssmRes
	var firstPts []vrt.Point
	bad, differs := false, false
	class := ""
	al := c14Mk(cs)
	c14Explore(c, cs, true, func() any {
		return c14CallPssm(al, cs.Log, cs.Pseudo, cs.Norm)
	}, func(res any, pts []vrt.Point) {
		r := res.(c14PssmRes)
		if bad {
			return
		}
		cl := c14CheckPssm(c, cs, r, func(clause, desc string) {
			bad = true
			report("Pssm/"+clause, desc, pts)
		})
		if bad {
			return
		}
		if first == nil {
			first, firstPts, class = &r, append([]vrt.Point{}, pts...), cl
			return
		}
		if !differs && !c14PssmSame(*first, r, false) {
			differs = true
			report("Pssm/differs-across-map-orders", fmt.Sprintf("%s = %v under [%s] but %v under [%s]", c14PssmArg(cs), first.M, mc.RenderPoints(firstPts), r.M, mc.RenderPoints(pts)), nil)
		}
	})
	if !bad && first != nil {
		c.Nontrivial(c14Key(cs))
		c.Outcome("pssm-orders:" + class)
	}
}

// ------------------------------------------------------------------ statistics without a map range ("plain") and same-object repetition

const (
	c14ProfNil = iota
	c14ProfSelf
	c14ProfFirst
	c14ProfLast
	c14ProfWrongLen
	c14ProfKinds
)

var c14ProfName = [c14ProfKinds]string{"nil", "self", "first-row", "last-row", "wrong-length"}

const c14Probe = "AaCGNX-." // characters looked up in the count profile

type c14Uniq struct {
	U, N, B []int
	Err     bool
}

// c14R holds every observation made on one alignment object in one pass.
type c14R struct {
	Panics []string

	CharStats map[uint8]int64
	SeqStats  []map[uint8]int // index -1..n
	SeqErr    []bool
	SiteStats []map[uint8]int // site -1..L
	SiteErr   []bool
	Uniq      []byte

	ProfChars    []byte
	ProfCountAt  [][]int // [header index][site -1..L]
	ProfCountAtE [][]bool
	ProfCount    [][]int // [probe character][site -1..L]
	ProfCountE   [][]bool
	ProfIndexOK  []bool // NameIndex(probe character)
	ProfCheckLen []bool // CheckLength(L), CheckLength(L+1)

	Variable    int
	Informative []int
	AvgAlleles  uint64 // bits

	NumGaps, GapsStart, GapsEnd, GapsOpen []int

	GapsU [c14ProfKinds]c14Uniq
	MutsU [c14ProfKinds]c14Uniq

	AllDiffs []string
	PerDiffs []map[string]int
	DiffRows []string

	// functions that range over a map (only collected under the fixed sorted order)
	Max  []c14MaxRes
	Cons []c14MaxRes
	Ent  []c14EntRes
	Pssm []c14PssmRes

	RowsAfter []string
}

type c14PssmCfg struct {
	Norm   int
	Log    bool
	Pseudo float64
}

var c14PssmCfgs = func() (out []c14PssmCfg) {
	for norm := 0; norm <= 5; norm++ {
		for _, lg := range c14Both {
			for _, pc := range []float64{0, 0.5} {
				if norm == 5 && (lg || pc > 0) {
					continue
				}
				if norm == align.PSSM_NORM_LOGO && lg {
					continue
				}
				out = append(out, c14PssmCfg{norm, lg, pc})
			}
		}
	}
	return
}()

// c14PssmSorted: the configurations compared on every alignment under the fixed
// order; Twice: also repeated on the same object.
var c14PssmSorted = []struct {
	c14PssmCfg
	Twice bool
}{
	{c14PssmCfg{align.PSSM_NORM_NONE, false, 0}, true}, {c14PssmCfg{align.PSSM_NORM_NONE, true, 0.5}, false},
	{c14PssmCfg{align.PSSM_NORM_FREQ, false, 0}, false}, {c14PssmCfg{align.PSSM_NORM_FREQ, true, 0}, false}, {c14PssmCfg{align.PSSM_NORM_FREQ, false, 0.5}, false}, {c14PssmCfg{align.PSSM_NORM_FREQ, true, 0.5}, true},
	{c14PssmCfg{align.PSSM_NORM_UNIF, false, 0.5}, false}, {c14PssmCfg{align.PSSM_NORM_UNIF, true, 0}, false},
	{c14PssmCfg{align.PSSM_NORM_DATA, false, 0}, false}, {c14PssmCfg{align.PSSM_NORM_LOGO, false, 0.5}, true}, {c14PssmCfg{5, false, 0}, false},
}

func c14ProfileRows(seqs []string, kind int) []string {
	L := c14Len(seqs)
	switch kind {
	case c14ProfSelf:
		return seqs
	case c14ProfFirst:
		return seqs[:1]
	case c14ProfLast:
		return seqs[len(seqs)-1:]
	case c14ProfWrongLen:
		return []string{strings.Repeat("A", L+1)}
	}
	return nil
}

// c14Collect performs every call once on al.
func c14Collect(al align.Alignment, cs c14Case, mapFns, second bool) *c14R {
	r := &c14R{}
	n, L := len(cs.Seqs), c14Len(cs.Seqs)
	g := func(label string, f func()) {
		if pn, msg := mc.Guard(f); pn {
			r.Panics = append(r.Panics, label+"|"+msg)
		}
	}
	if mapFns {
		for _, igG := range c14Both {
			for _, igN := range c14Both {
				r.Max = append(r.Max, c14CallMax(al, igG, igN))
				r.Cons = append(r.Cons, c14CallCons(al, igG, igN))
			}
		}
		for site := -1; site <= L; site++ {
			for _, rm := range c14Both {
				r.Ent = append(r.Ent, c14CallEntropy(al, site, rm))
			}
		}
		for _, cfg := range c14PssmSorted {
			if second && !cfg.Twice {
				r.Pssm = append(r.Pssm, c14PssmRes{Skipped: true})
				continue
			}
			r.Pssm = append(r.Pssm, c14CallPssm(al, cfg.Log, cfg.Pseudo, cfg.Norm))
		}
		r.RowsAfter = c14RowSeqs(al)
		return r
	}
	g("CharStats", func() { r.CharStats = al.CharStats() })
	for i := -1; i <= n; i++ {
		i := i
		cl := "index-in-range"
		if i < 0 {
			cl = "index-negative"
		} else if i >= n {
			cl = "index-eq-n"
		}
		g("CharStatsSeq/"+cl, func() {
			m, err := al.CharStatsSeq(i)
			r.SeqStats, r.SeqErr = append(r.SeqStats, m), append(r.SeqErr, err != nil)
		})
	}
	for j := -1; j <= L; j++ {
		j := j
		g("CharStatsSite/"+c14SiteClause(j, L), func() {
			m, err := al.CharStatsSite(j)
			r.SiteStats, r.SiteErr = append(r.SiteStats, m), append(r.SiteErr, err != nil)
		})
	}
	g("UniqueCharacters", func() { r.Uniq = append([]byte{}, al.UniqueCharacters()...) })

	var prof *align.CountProfile
	g("NewCountProfileFromAlignment", func() { prof = align.NewCountProfileFromAlignment(al) })
	if prof != nil {
		g("CountProfile.NameAt", func() {
			nb := prof.NbCharacters()
			for i := 0; i < nb; i++ {
				ch, _ := prof.NameAt(i)
				r.ProfChars = append(r.ProfChars, ch)
			}
		})
		for i := range r.ProfChars {
			var cnt []int
			var es []bool
			for j := -1; j <= L; j++ {
				i, j := i, j
				g("CountProfile.CountAt/"+c14SiteClause(j, L), func() {
					x, err := prof.CountAt(i, j)
					cnt, es = append(cnt, x), append(es, err != nil)
				})
			}
			r.ProfCountAt, r.ProfCountAtE = append(r.ProfCountAt, cnt), append(r.ProfCountAtE, es)
		}
		for k := 0; k < len(c14Probe); k++ {
			ch := c14Probe[k]
			var cnt []int
			var es []bool
			for j := -1; j <= L; j++ {
				j := j
				g("CountProfile.Count/"+c14SiteClause(j, L), func() {
					x, err := prof.Count(ch, j)
					cnt, es = append(cnt, x), append(es, err != nil)
				})
			}
			r.ProfCount, r.ProfCountE = append(r.ProfCount, cnt), append(r.ProfCountE, es)
			g("CountProfile.NameIndex", func() {
				_, ok := prof.NameIndex(ch)
				r.ProfIndexOK = append(r.ProfIndexOK, ok)
			})
		}
		g("CountProfile.CheckLength", func() { r.ProfCheckLen = []bool{prof.CheckLength(L), prof.CheckLength(L + 1)} })
	}

	g("NbVariableSites", func() { r.Variable = al.NbVariableSites() })
	g("InformativeSites", func() { r.Informative = append([]int{}, al.InformativeSites()...) })
	g("AvgAllelesPerSite", func() { r.AvgAlleles = math.Float64bits(al.AvgAllelesPerSite()) })

	g("NumGaps", func() {
		for i := 0; i < n; i++ {
			s, _ := al.Sequence(i)
			r.NumGaps = append(r.NumGaps, s.NumGaps())
			r.GapsStart = append(r.GapsStart, s.NumGapsFromStart())
			r.GapsEnd = append(r.GapsEnd, s.NumGapsFromEnd())
			r.GapsOpen = append(r.GapsOpen, s.NumGapsOpenning())
		}
	})

	for kind := 0; kind < c14ProfKinds; kind++ {
		kind := kind
		var p *align.CountProfile
		if kind != c14ProfNil {
			pal, err := mkAlign(cs.Alpha, namedRows(c14ProfileRows(cs.Seqs, kind)...))
			if err != nil {
				panic("c14: profile alignment: " + err.Error())
			}
			g("NewCountProfileFromAlignment", func() { p = align.NewCountProfileFromAlignment(pal) })
			if p == nil {
				continue
			}
		}
		g("NumGapsUniquePerSequence/profile-"+c14ProfName[kind], func() {
			u, nw, b, err := al.NumGapsUniquePerSequence(p)
			r.GapsU[kind] = c14Uniq{append([]int{}, u...), append([]int{}, nw...), append([]int{}, b...), err != nil}
		})
		g("NumMutationsUniquePerSequence/profile-"+c14ProfName[kind], func() {
			u, nw, b, err := al.NumMutationsUniquePerSequence(p)
			r.MutsU[kind] = c14Uniq{append([]int{}, u...), append([]int{}, nw...), append([]int{}, b...), err != nil}
		})
	}

	g("CountDifferences", func() {
		all, per := al.CountDifferences()
		r.AllDiffs = append([]string{}, all...)
		for _, m := range per {
			cp := map[string]int{}
			for k, v := range m {
				cp[k] = v
			}
			r.PerDiffs = append(r.PerDiffs, cp)
		}
	})
	g("DiffWithFirst", func() {
		d := c14Mk(cs)
		d.DiffWithFirst()
		r.DiffRows = c14RowSeqs(d)
	})
	r.RowsAfter = c14RowSeqs(al)
	return r
}

func c14RowSeqs(al align.Alignment) []string {
	out := []string{}
	for _, x := range readRows(al) {
		out = append(out, x.Seq)
	}
	return out
}

func c14MapEq[K comparable, V comparable](a, b map[K]V) bool {
	if len(a) != len(b) {
		return false
	}
	for k, v := range a {
		if w, ok := b[k]; !ok || w != v {
			return false
		}
	}
	return true
}

func c14SliceEq[T any](a, b []T, eq func(x, y T) bool) bool {
	if len(a) != len(b) {
		return false
	}
	for i := range a {
		if !eq(a[i], b[i]) {
			return false
		}
	}
	return true
}

func c14BoolsEq(a, b []bool) bool {
	return c14SliceEq(a, b, func(x, y bool) bool { return x == y })
}

func c14UniqEq(a, b c14Uniq) bool {
	return a.Err == b.Err && intsEq(a.U, b.U) && intsEq(a.N, b.N) && intsEq(a.B, b.B)
}

func c14StrsEq(a, b []string) bool {
	return c14SliceEq(a, b, func(x, y string) bool { return x == y })
}

// c14REqual: fast path of c14DiffField.
func c14REqual(a, b *c14R) bool {
	if !c14StrsEq(a.Panics, b.Panics) || !c14MapEq(a.CharStats, b.CharStats) ||
		!c14SliceEq(a.SeqStats, b.SeqStats, c14MapEq[uint8, int]) || !c14BoolsEq(a.SeqErr, b.SeqErr) ||
		!c14SliceEq(a.SiteStats, b.SiteStats, c14MapEq[uint8, int]) || !c14BoolsEq(a.SiteErr, b.SiteErr) ||
		string(a.Uniq) != string(b.Uniq) || string(a.ProfChars) != string(b.ProfChars) ||
		!c14SliceEq(a.ProfCountAt, b.ProfCountAt, intsEq) || !c14SliceEq(a.ProfCountAtE, b.ProfCountAtE, c14BoolsEq) ||
		!c14SliceEq(a.ProfCount, b.ProfCount, intsEq) || !c14SliceEq(a.ProfCountE, b.ProfCountE, c14BoolsEq) ||
		!c14BoolsEq(a.ProfIndexOK, b.ProfIndexOK) || !c14BoolsEq(a.ProfCheckLen, b.ProfCheckLen) ||
		a.Variable != b.Variable || !intsEq(a.Informative, b.Informative) || a.AvgAlleles != b.AvgAlleles ||
		!intsEq(a.NumGaps, b.NumGaps) || !intsEq(a.GapsStart, b.GapsStart) || !intsEq(a.GapsEnd, b.GapsEnd) || !intsEq(a.GapsOpen, b.GapsOpen) ||
		!c14StrsEq(a.AllDiffs, b.AllDiffs) || !c14SliceEq(a.PerDiffs, b.PerDiffs, c14MapEq[string, int]) || !c14StrsEq(a.DiffRows, b.DiffRows) ||
		!c14StrsEq(a.RowsAfter, b.RowsAfter) {
		return false
	}
	for k := 0; k < c14ProfKinds; k++ {
		if !c14UniqEq(a.GapsU[k], b.GapsU[k]) || !c14UniqEq(a.MutsU[k], b.MutsU[k]) {
			return false
		}
	}
	if !c14SliceEq(a.Max, b.Max, func(x, y c14MaxRes) bool { return c14MaxSame(&x, &y) }) ||
		!c14SliceEq(a.Cons, b.Cons, func(x, y c14MaxRes) bool { return c14MaxSame(&x, &y) }) ||
		!c14SliceEq(a.Ent, b.Ent, func(x, y c14EntRes) bool {
			return x.Panic == y.Panic && x.Err == y.Err && (x.H == y.H || (math.IsNaN(x.H) && math.IsNaN(y.H)))
		}) ||
		!c14SliceEq(a.Pssm, b.Pssm, func(x, y c14PssmRes) bool { return c14PssmSame(x, y, true) }) {
		return false
	}
	return true
}

// c14DiffField names the first field in which two observations differ.
func c14DiffField(a, b *c14R) string {
	if c14REqual(a, b) {
		return ""
	}
	va, vb := reflect.ValueOf(*a), reflect.ValueOf(*b)
	for i := 0; i < va.NumField(); i++ {
		if !reflect.DeepEqual(va.Field(i).Interface(), vb.Field(i).Interface()) {
			name := va.Type().Field(i).Name
			if name == "Pssm" {
				same := len(a.Pssm) == len(b.Pssm)
				for k := 0; same && k < len(a.Pssm); k++ {
					same = c14PssmSame(a.Pssm[k], b.Pssm[k], true)
				}
				if same {
					continue
				}
			}
			if name == "Ent" {
				same := len(a.Ent) == len(b.Ent)
				for k := 0; same && k < len(a.Ent); k++ {
					x, y := a.Ent[k], b.Ent[k]
					same = x.Panic == y.Panic && x.Err == y.Err && (x.H == y.H || (math.IsNaN(x.H) && math.IsNaN(y.H)))
				}
				if same {
					continue
				}
			}
			return name
		}
	}
	return ""
}

func c14CountsEq[V int | int64](got map[uint8]V, want map[byte]int) bool {
	for k, v := range want {
		if int(got[k]) != v {
			return false
		}
	}
	for k, v := range got {
		if int(v) != want[k] {
			return false
		}
	}
	return true
}

// c14Cnt renders a character-count map readably, e.g. {A:2 -:1}.
func c14Cnt[K uint8, V int | int64](m map[K]V) string {
	ks := make([]int, 0, len(m))
	for k := range m {
		ks = append(ks, int(k))
	}
	sort.Ints(ks)
	var b strings.Builder
	b.WriteByte('{')
	for i, k := range ks {
		if i > 0 {
			b.WriteByte(' ')
		}
		fmt.Fprintf(&b, "%c:%d", k, m[K(k)])
	}
	b.WriteByte('}')
	return b.String()
}

func c14HasLower(seqs []string) bool {
	for _, s := range seqs {
		for i := 0; i < len(s); i++ {
			if s[i] >= 'a' && s[i] <= 'z' {
				return true
			}
		}
	}
	return false
}

// c14CheckPlain compares one observation with the definitions.
func c14CheckPlain(c *mc.Ctx, cs c14Case, r *c14R, viol func(sig, desc string)) {
	seqs, alpha := cs.Seqs, cs.Alpha
	n, L := len(seqs), c14Len(seqs)
	for _, p := range r.Panics {
		label, msg, _ := strings.Cut(p, "|")
		fn, clause, has := strings.Cut(label, "/")
		if has {
			viol(fn+"/"+clause+"/panic/"+mc.PanicSite(msg), label+": "+msg)
		} else {
			viol(fn+"/panic/"+mc.PanicSite(msg), label+": "+msg)
		}
	}
	if len(r.Panics) > 0 {
		return
	}
	if !reflect.DeepEqual(r.RowsAfter, seqs) {
		viol("alignment-modified-by-a-statistic", fmt.Sprintf("rows afterwards %q", r.RowsAfter))
		return
	}
	// ---- case-folded counts
	all := map[byte]int{}
	for _, s := range seqs {
		for i := 0; i < len(s); i++ {
			all[c14Up(s[i])]++
		}
	}
	if !c14CountsEq(r.CharStats, all) {
		viol("CharStats/counts", fmt.Sprintf("got %s want %s", c14Cnt(r.CharStats), c14Cnt(all)))
	}
	for i := -1; i <= n; i++ {
		got, gotErr := r.SeqStats[i+1], r.SeqErr[i+1]
		if i < 0 || i >= n {
			if !gotErr {
				viol("CharStatsSeq/index-out-of-range/no-error", fmt.Sprintf("CharStatsSeq(%d) with %d sequences returned %s and no error", i, n, c14Cnt(got)))
			}
			continue
		}
		want := map[byte]int{}
		for k := 0; k < L; k++ {
			want[c14Up(seqs[i][k])]++
		}
		if gotErr || !c14CountsEq(got, want) {
			viol("CharStatsSeq/counts", fmt.Sprintf("CharStatsSeq(%d) = %s err=%v want %s", i, c14Cnt(got), gotErr, c14Cnt(want)))
		}
	}
	for j := -1; j <= L; j++ {
		got, gotErr := r.SiteStats[j+1], r.SiteErr[j+1]
		if j < 0 || j >= L {
			if !gotErr {
				viol("CharStatsSite/"+c14SiteClause(j, L)+"/no-error", fmt.Sprintf("CharStatsSite(%d) with L=%d returned %s and no error", j, L, c14Cnt(got)))
			}
			continue
		}
		if want := c14FoldCounts(seqs, j); gotErr || !c14CountsEq(got, want) {
			viol("CharStatsSite/counts", fmt.Sprintf("CharStatsSite(%d) = %s err=%v want %s", j, c14Cnt(got), gotErr, c14Cnt(want)))
		}
	}
	{
		var want []byte
		for k := range all {
			want = append(want, k)
		}
		got := append([]byte{}, r.Uniq...)
		sort.Slice(want, func(a, b int) bool { return want[a] < want[b] })
		sort.Slice(got, func(a, b int) bool { return got[a] < got[b] })
		if string(got) != string(want) {
			viol("UniqueCharacters/set", fmt.Sprintf("got %q want %q", r.Uniq, want))
		}
	}
	// ---- count profile (compared on upper-case input only, DESIGN.md §5)
	if c14HasLower(seqs) {
		c.Skip("count profile on mixed-case input (the statement lists it as case-folded, neither code nor documentation folds; DESIGN.md §5)")
	} else {
		raw := map[byte][]int{}
		for _, s := range seqs {
			for j := 0; j < L; j++ {
				if raw[s[j]] == nil {
					raw[s[j]] = make([]int, L)
				}
				raw[s[j]][j]++
			}
		}
		ok := len(r.ProfChars) == len(raw)
		seen := map[byte]bool{}
		for _, ch := range r.ProfChars {
			if raw[ch] == nil || seen[ch] {
				ok = false
			}
			seen[ch] = true
		}
		if !ok {
			viol("CountProfile/characters", fmt.Sprintf("header %q, the alignment holds %d different characters", r.ProfChars, len(raw)))
		} else {
			for i, ch := range r.ProfChars {
				for j := -1; j <= L; j++ {
					got, gotErr := r.ProfCountAt[i][j+1], r.ProfCountAtE[i][j+1]
					if j < 0 || j >= L {
						if !gotErr {
							viol("CountProfile.CountAt/"+c14SiteClause(j, L)+"/no-error", fmt.Sprintf("CountAt(%d,%d) with L=%d returned %d and no error", i, j, L, got))
						}
					} else if gotErr || got != raw[ch][j] {
						viol("CountProfile.CountAt/counts", fmt.Sprintf("CountAt(%d=%q,%d) = %d err=%v want %d", i, ch, j, got, gotErr, raw[ch][j]))
					}
				}
			}
			for k := 0; k < len(c14Probe); k++ {
				ch := c14Probe[k]
				if r.ProfIndexOK[k] != (raw[ch] != nil) {
					viol("CountProfile.NameIndex/presence", fmt.Sprintf("NameIndex(%q) ok=%v", ch, r.ProfIndexOK[k]))
				}
				for j := -1; j <= L; j++ {
					got, gotErr := r.ProfCount[k][j+1], r.ProfCountE[k][j+1]
					switch {
					case raw[ch] == nil:
						if got != 0 {
							viol("CountProfile.Count/absent-character", fmt.Sprintf("Count(%q,%d) = %d for a character that is not in the alignment", ch, j, got))
						}
					case j < 0 || j >= L:
						if !gotErr {
							viol("CountProfile.Count/"+c14SiteClause(j, L)+"/no-error", fmt.Sprintf("Count(%q,%d) with L=%d returned %d and no error", ch, j, L, got))
						}
					case gotErr || got != raw[ch][j]:
						viol("CountProfile.Count/counts", fmt.Sprintf("Count(%q,%d) = %d err=%v want %d", ch, j, got, gotErr, raw[ch][j]))
					}
				}
			}
			if len(raw) > 0 && len(r.ProfCheckLen) == 2 && (!r.ProfCheckLen[0] || r.ProfCheckLen[1]) {
				viol("CountProfile.CheckLength", fmt.Sprintf("CheckLength(L)=%v CheckLength(L+1)=%v", r.ProfCheckLen[0], r.ProfCheckLen[1]))
			}
		}
	}
	// ---- site measures
	{
		rds := c14Readings(c14Both, []int{0, 1, 2}, c14True)
		want, agree := c14Variable(seqs, alpha, rds[0]), true
		for _, rd := range rds[1:] {
			if c14Variable(seqs, alpha, rd) != want {
				agree = false
			}
		}
		if !agree {
			c.Skip("NbVariableSites: a column where case or N/X decides (not determined whether a/A or N are different characters)")
		} else {
			if r.Variable != want {
				viol("NbVariableSites/count", fmt.Sprintf("got %d want %d", r.Variable, want))
			}
			c.Outcome(fmt.Sprintf("variable:%d", want))
		}
	}
	{
		rds := c14Readings(c14Both, []int{1, 2}, c14Both)
		want, agree := c14Informative(seqs, alpha, rds[0]), true
		for _, rd := range rds[1:] {
			if !intsEq(c14Informative(seqs, alpha, rd), want) {
				agree = false
			}
		}
		if !agree {
			c.Skip("InformativeSites: a column where case, '.', lower-case n/x or the other alphabet's wildcard decides")
		} else {
			if !intsEq(r.Informative, want) {
				viol("InformativeSites/sites", fmt.Sprintf("got %v want %v", r.Informative, want))
			}
			c.Outcome(fmt.Sprintf("informative:%d", len(want)))
		}
	}
	{
		rds := c14Readings(c14Both, []int{0, 1, 2}, c14Both)
		num, den := c14AvgAlleles(seqs, alpha, rds[0])
		agree := true
		for _, rd := range rds[1:] {
			if a, b := c14AvgAlleles(seqs, alpha, rd); a != num || b != den {
				agree = false
			}
		}
		switch {
		case !agree:
			c.Skip("AvgAllelesPerSite: a column where case, '.' or N/X decides (not determined whether they are alleles)")
		case den == 0:
			c.Skip("AvgAllelesPerSite: no site has an allele (0/0)")
		default:
			if got := math.Float64frombits(r.AvgAlleles); !c14Close(got, float64(num)/float64(den)) {
				viol("AvgAllelesPerSite/value", fmt.Sprintf("got %v want %d/%d", got, num, den))
			}
			c.Outcome(fmt.Sprintf("alleles:%d/%d", num, den))
		}
	}
	// ---- per-sequence gap counters
	for i := 0; i < n && len(r.NumGaps) == n; i++ {
		s := seqs[i]
		start := len(s) - len(strings.TrimLeft(s, "-"))
		end := len(s) - len(strings.TrimRight(s, "-"))
		open := 0
		for k := 0; k < len(s); k++ {
			if s[k] == '-' && (k == 0 || s[k-1] != '-') {
				open++
			}
		}
		if r.NumGaps[i] != strings.Count(s, "-") {
			viol("NumGaps/count", fmt.Sprintf("row %d: got %d", i, r.NumGaps[i]))
		}
		if r.GapsStart[i] != start {
			viol("NumGapsFromStart/count", fmt.Sprintf("row %d: got %d want %d", i, r.GapsStart[i], start))
		}
		if r.GapsEnd[i] != end {
			viol("NumGapsFromEnd/count", fmt.Sprintf("row %d: got %d want %d", i, r.GapsEnd[i], end))
		}
		if r.GapsOpen[i] != open {
			viol("NumGapsOpenning/count", fmt.Sprintf("row %d: got %d want %d", i, r.GapsOpen[i], open))
		}
	}
	if len(r.NumGaps) != n {
		viol("NumGaps/count", fmt.Sprintf("%d results for %d rows", len(r.NumGaps), n))
	}
	// ---- unique gaps / residues, alone and against a profile
	for kind := 0; kind < c14ProfKinds; kind++ {
		var p *c14Profile
		if kind != c14ProfNil {
			p = &c14Profile{Rows: c14ProfileRows(seqs, kind)}
		}
		tag := "profile-" + c14ProfName[kind]
		gu, mu := r.GapsU[kind], r.MutsU[kind]
		if kind == c14ProfWrongLen {
			// a profile of another length: not part of the statement, only required not to crash
			c.Outcome(fmt.Sprintf("unique:profile-wrong-length:error%v", gu.Err && mu.Err))
			continue
		}
		wu, wn, wb := c14GapsUnique(seqs, p)
		if gu.Err {
			viol("NumGapsUniquePerSequence/"+tag+"/unexpected-error", "returned an error")
		} else {
			if !intsEq(gu.U, wu) {
				viol("NumGapsUniquePerSequence/unique", fmt.Sprintf("%s: got %v want %v", tag, gu.U, wu))
			}
			if !intsEq(gu.N, wn) {
				viol("NumGapsUniquePerSequence/new", fmt.Sprintf("%s: got %v want %v", tag, gu.N, wn))
			}
			if !intsEq(gu.B, wb) {
				viol("NumGapsUniquePerSequence/both", fmt.Sprintf("%s: got %v want %v", tag, gu.B, wb))
			}
			c.Outcome(fmt.Sprintf("gapsunique:%s:u%v:n%v", c14ProfName[kind], c14Any(wu), c14Any(wn)))
		}
		if mu.Err {
			viol("NumMutationsUniquePerSequence/"+tag+"/unexpected-error", "returned an error")
			continue
		}
		rds := c14Readings(c14Both, []int{1, 2}, c14Both)
		if kind != c14ProfNil && c14HasLower(seqs) {
			// the profile itself is only determined on upper-case input
			c.Skip("NumMutationsUniquePerSequence against a profile on mixed-case input")
			continue
		}
		mwu, mwn, mwb := c14MutsUnique(seqs, alpha, p, rds[0])
		agree := true
		for _, rd := range rds[1:] {
			a, b, d := c14MutsUnique(seqs, alpha, p, rd)
			if !intsEq(a, mwu) || !intsEq(b, mwn) || !intsEq(d, mwb) {
				agree = false
			}
		}
		if !agree {
			c.Skip("NumMutationsUniquePerSequence: a column where case, '.' or the other alphabet's wildcard decides")
			continue
		}
		if !intsEq(mu.U, mwu) {
			viol("NumMutationsUniquePerSequence/unique", fmt.Sprintf("%s: got %v want %v", tag, mu.U, mwu))
		}
		if !intsEq(mu.N, mwn) {
			viol("NumMutationsUniquePerSequence/new", fmt.Sprintf("%s: got %v want %v", tag, mu.N, mwn))
		}
		if !intsEq(mu.B, mwb) {
			viol("NumMutationsUniquePerSequence/both", fmt.Sprintf("%s: got %v want %v", tag, mu.B, mwb))
		}
		c.Outcome(fmt.Sprintf("mutsunique:%s:u%v:n%v", c14ProfName[kind], c14Any(mwu), c14Any(mwn)))
	}
	// ---- differences with the first sequence
	{
		rds := c14Readings(c14Both, []int{0, 1, 2}, c14Both)
		wantAll, wantPer := c14Diffs(seqs, alpha, rds[0])
		agree := true
		for _, rd := range rds[1:] {
			a, p := c14Diffs(seqs, alpha, rd)
			if !reflect.DeepEqual(a, wantAll) || !reflect.DeepEqual(p, wantPer) {
				agree = false
			}
		}
		if !agree {
			c.Skip("CountDifferences: a pair where case, N/X or '.' decides whether it is a difference")
		} else {
			got := sortedCopy(r.AllDiffs)
			if !reflect.DeepEqual(got, wantAll) {
				viol("CountDifferences/set-of-differences", fmt.Sprintf("got %v want %v", r.AllDiffs, wantAll))
			}
			if len(r.PerDiffs) != len(wantPer) && !(n < 2 && len(r.PerDiffs) == 0) {
				viol("CountDifferences/per-sequence", fmt.Sprintf("%d maps for %d compared sequences", len(r.PerDiffs), len(wantPer)))
			} else {
				for i := range wantPer {
					if len(r.PerDiffs[i]) != len(wantPer[i]) {
						viol("CountDifferences/per-sequence", fmt.Sprintf("sequence %d: got %v want %v", i+1, r.PerDiffs[i], wantPer[i]))
						break
					}
					for k, v := range wantPer[i] {
						if r.PerDiffs[i][k] != v {
							viol("CountDifferences/per-sequence", fmt.Sprintf("sequence %d: got %v want %v", i+1, r.PerDiffs[i], wantPer[i]))
							break
						}
					}
				}
			}
			c.Outcome(fmt.Sprintf("diffs:%d", min(len(wantAll), 3)))
		}
		w0, w1 := c14DiffWithFirst(seqs, false), c14DiffWithFirst(seqs, true)
		if !reflect.DeepEqual(w0, w1) {
			c.Skip("DiffWithFirst: a position differing from the first sequence by case only")
		} else if !reflect.DeepEqual(r.DiffRows, w0) {
			viol("DiffWithFirst/rows", fmt.Sprintf("got %q want %q", r.DiffRows, w0))
		}
	}
}

func c14Any(v []int) bool {
	for _, x := range v {
		if x != 0 {
			return true
		}
	}
	return false
}

// c14CheckSorted: definitions of the map-ranging functions under the fixed order.
func c14CheckSorted(c *mc.Ctx, cs c14Case, r *c14R, viol func(sig, desc string)) {
	L := c14Len(cs.Seqs)
	if !reflect.DeepEqual(r.RowsAfter, cs.Seqs) {
		viol("alignment-modified-by-a-statistic", fmt.Sprintf("rows afterwards %q", r.RowsAfter))
		return
	}
	k := 0
	for _, igG := range c14Both {
		for _, igN := range c14Both {
			sub := cs
			sub.IgG, sub.IgN = igG, igN
			wants := c14MaxWants(sub)
			c14CheckMax(c, sub, "MaxCharStats", &r.Max[k], true, wants, func(cl, d string) { viol("MaxCharStats/"+cl, d) })
			c14CheckMax(c, sub, "Consensus", &r.Cons[k], false, wants, func(cl, d string) { viol("Consensus/"+cl, d) })
			k++
		}
	}
	k = 0
	for site := -1; site <= L; site++ {
		for _, rm := range c14Both {
			sub := cs
			sub.Site, sub.RmGaps = site, rm
			w := c14EntropyWant(sub)
			c14CheckEntropy(c, sub, &r.Ent[k], &w, func(cl, d string) { viol("Entropy/"+cl, d) })
			k++
		}
	}
	for i, cfg := range c14PssmSorted {
		sub := cs
		sub.Norm, sub.Log, sub.Pseudo = cfg.Norm, cfg.Log, cfg.Pseudo
		cl := c14CheckPssm(c, sub, r.Pssm[i], func(cl, d string) { viol("Pssm/"+cl, d) })
		c.Outcome("pssm:" + cl)
	}
}

// c14RunTwice: op "plain" (map order is a choice, functions without a map
// range) and op "sorted" (fixed sorted order, the map-ranging functions): every
// call is made twice on the SAME alignment object.
func c14RunTwice(c *mc.Ctx, cs c14Case) {
	report := c14Reporter(c, cs)
	mapFns := cs.Op == "sorted"
	type pair struct{ a, b *c14R }
	var first *c14R
	bad := false
	c14Explore(c, cs, !mapFns, func() any {
		al := c14Mk(cs)
		a := c14Collect(al, cs, mapFns, false)
		b := c14Collect(al, cs, mapFns, true)
		return pair{a, b}
	}, func(res any, pts []vrt.Point) {
		p := res.(pair)
		if bad {
			return
		}
		if f := c14DiffField(p.a, p.b); f != "" && len(p.a.Panics) == 0 {
			bad = true
			report(f+"/second-call-on-the-same-alignment-differs", fmt.Sprintf("first %v, second %v", reflect.ValueOf(*p.a).FieldByName(f).Interface(), reflect.ValueOf(*p.b).FieldByName(f).Interface()), pts)
			return
		}
		if first == nil {
			first = p.a
			v := func(sig, desc string) {
				bad = true
				report(sig, desc, pts)
			}
			if mapFns {
				c14CheckSorted(c, cs, p.a, v)
			} else {
				c14CheckPlain(c, cs, p.a, v)
			}
			return
		}
		if f := c14DiffField(first, p.a); f != "" {
			bad = true
			report(f+"/differs-across-map-orders", fmt.Sprintf("%v under the sorted order, %v under [%s]", reflect.ValueOf(*first).FieldByName(f).Interface(), reflect.ValueOf(*p.a).FieldByName(f).Interface(), mc.RenderPoints(pts)), nil)
		}
	})
	if !bad && first != nil {
		c.Nontrivial(c14Key(cs))
		c.Outcome(cs.Op + ":compared")
	}
}

// ------------------------------------------------------------------ reference-relative counters

type c14RefRes struct {
	Panics []string
	Num    int
	NumErr bool
	List   []align.Mutation
	LstErr bool
}

func c14RunRefRel(c *mc.Ctx, cs c14Case) {
	report := c14Reporter(c, cs)
	ref, s := cs.Ref, cs.Seqs[0]
	var first *c14RefRes
	bad := false
	c14Explore(c, cs, true, func() any {
		r := &c14RefRes{}
		sb, err := mkSeqBag(cs.Alpha, namedRows(s))
		if err != nil {
			panic(err)
		}
		sq, _ := sb.Sequence(0)
		var rs align.Sequence = align.NewSequence("ref", []uint8(ref), "")
		if cs.Warm && len(ref) == len(s) && len(s) > 0 {
			rev := func(x string) string {
				b := []byte(x)
				for i, j := 0, len(b)-1; i < j; i, j = i+1, j-1 {
					b[i], b[j] = b[j], b[i]
				}
				return string(b)
			}
			wb, err := mkSeqBag(cs.Alpha, rows{{"ref", rev(ref)}, {"a", rev(s)}})
			if err != nil {
				panic(err)
			}
			rs, _ = wb.Sequence(0)
			sq, _ = wb.Sequence(1)
			if pn, msg := mc.Guard(func() {
				sq.NumMutationsComparedToReferenceSequence(cs.Alpha, rs)
				sq.ListMutationsComparedToReferenceSequence(cs.Alpha, rs, false)
				rs.NumMutationsComparedToReferenceSequence(cs.Alpha, sq)
				for j := 0; j < len(s); j++ {
					if e := wb.SetSequenceChar(0, j, ref[j]); e != nil {
						panic(e)
					}
					if e := wb.SetSequenceChar(1, j, s[j]); e != nil {
						panic(e)
					}
				}
			}); pn {
				r.Panics = append(r.Panics, "warm-up|"+msg)
			}
		}
		for pass := 0; pass < 2; pass++ {
			var num int
			var lst []align.Mutation
			var e1, e2 error
			if pn, msg := mc.Guard(func() { num, e1 = sq.NumMutationsComparedToReferenceSequence(cs.Alpha, rs) }); pn {
				r.Panics = append(r.Panics, "NumMutationsComparedToReferenceSequence|"+msg)
			}
			if pn, msg := mc.Guard(func() { lst, e2 = sq.ListMutationsComparedToReferenceSequence(cs.Alpha, rs, false) }); pn {
				r.Panics = append(r.Panics, "ListMutationsComparedToReferenceSequence|"+msg)
			}
			if pass == 0 {
				r.Num, r.NumErr, r.List, r.LstErr = num, e1 != nil, lst, e2 != nil
			} else if len(r.Panics) == 0 && (r.Num != num || r.NumErr != (e1 != nil) || r.LstErr != (e2 != nil) || !reflect.DeepEqual(r.List, lst)) {
				r.Panics = append(r.Panics, "second-call|differs")
			}
		}
		if sq.Sequence() != s || rs.Sequence() != ref {
			r.Panics = append(r.Panics, "modified|inputs")
		}
		return r
	}, func(res any, pts []vrt.Point) {
		r := res.(*c14RefRes)
		if bad {
			return
		}
		v := func(sig, desc string) {
			bad = true
			report(sig, fmt.Sprintf("%s; reference %q sequence %q", desc, ref, s), pts)
		}
		if first != nil {
			if !reflect.DeepEqual(first, r) {
				bad = true
				report("reference-relative/differs-across-map-orders", fmt.Sprintf("reference %q sequence %q", ref, s), nil)
			}
			return
		}
		first = r
		for _, p := range r.Panics {
			fn, msg, _ := strings.Cut(p, "|")
			switch fn {
			case "second-call":
				v("reference-relative/second-call-differs", "the same call made twice gave two answers")
			case "modified":
				v("reference-relative/inputs-modified", "the sequences were modified")
			default:
				v(fn+"/panic/"+mc.PanicSite(msg), msg)
			}
			return
		}
		if len(ref) != len(s) {
			if !r.NumErr {
				v("NumMutationsComparedToReferenceSequence/different-lengths/no-error", fmt.Sprintf("returned %d", r.Num))
			}
			if !r.LstErr {
				v("ListMutationsComparedToReferenceSequence/different-lengths/no-error", fmt.Sprintf("returned %v", r.List))
			}
			c.Outcome("refrel:different-lengths:error")
			return
		}
		if r.NumErr || r.LstErr {
			v("reference-relative/unexpected-error", "an error on equal-length sequences over the alphabet's own characters")
			return
		}
		w0, w1 := c14NumMutations(cs.Alpha, ref, s, false), c14NumMutations(cs.Alpha, ref, s, true)
		if w0 != w1 {
			c.Skip("NumMutationsComparedToReferenceSequence: protein residue facing X in the reference")
		} else {
			if r.Num != w0 {
				v("NumMutationsComparedToReferenceSequence/count", fmt.Sprintf("got %d want %d", r.Num, w0))
			}
			c.Outcome(fmt.Sprintf("refrel:num%d", min(w0, 2)))
		}
		want, open := c14ListMutations(cs.Alpha, ref, s)
		if open {
			c.Skip("ListMutations: insertion holding a wildcard or split by a gap, or protein residue facing X in the reference")
			return
		}
		if len(r.List) != len(want) {
			v("ListMutationsComparedToReferenceSequence/events", fmt.Sprintf("got %s want %s", c14MutStr(r.List), c14WantStr(want)))
			return
		}
		kinds := map[string]bool{}
		for i, w := range want {
			g := r.List[i]
			if g.Ref != w.Ref || string(g.Alt) != w.Alt {
				v("ListMutationsComparedToReferenceSequence/events", fmt.Sprintf("got %s want %s", c14MutStr(r.List), c14WantStr(want)))
				return
			}
			switch {
			case w.Ins:
				kinds["ins"] = true
			case w.Alt == "-":
				kinds["del"] = true
			default:
				kinds["sub"] = true
			}
		}
		// positions: reference coordinates (gaps of the reference not counted); the
		// numbering base (0/1) and whether an insertion carries the residue before
		// or after it are not determined - any consistent convention is accepted
		okPos := len(want) == 0
		for _, base := range []int{0, 1} {
			for _, insShift := range []int{0, -1} {
				all := true
				for i, w := range want {
					p := w.Pos + base
					if w.Ins {
						p += insShift
					}
					if r.List[i].Pos != p {
						all = false
					}
				}
				if all {
					okPos = true
				}
			}
		}
		if !okPos {
			v("ListMutationsComparedToReferenceSequence/positions", fmt.Sprintf("got %s want (0-based reference coordinates) %s", c14MutStr(r.List), c14WantStr(want)))
			return
		}
		ks := []string{}
		for k := range kinds {
			ks = append(ks, k)
		}
		sort.Strings(ks)
		c.Outcome("refrel:list:" + strings.Join(ks, "+"))
		c.Nontrivial(c14Key(cs))
	})
}

func c14MutStr(l []align.Mutation) string {
	var b strings.Builder
	for i, m := range l {
		if i > 0 {
			b.WriteByte(',')
		}
		fmt.Fprintf(&b, "%c%d%s", m.Ref, m.Pos, m.Alt)
	}
	return "[" + b.String() + "]"
}

func c14WantStr(l []c14Mut) string {
	var b strings.Builder
	for i, m := range l {
		if i > 0 {
			b.WriteByte(',')
		}
		fmt.Fprintf(&b, "%c%d%s", m.Ref, m.Pos, m.Alt)
	}
	return "[" + b.String() + "]"
}

// ------------------------------------------------------------------ dispatch, enumeration, registration

func c14Run(c *mc.Ctx, cs c14Case) {
	if cs.Op == "profile-file" {
		c14ProfileFile(c, cs.Site)
		return
	}
	if cs.Op == "long-columnwise" {
		c14LongColumnwise(c, cs.Site, cs.Procs)
		return
	}
	if len(cs.Seqs) == 0 {
		c.Fatal("case without sequences")
		return
	}
	switch cs.Op {
	case "maxchar", "consensus":
		c14RunMax(c, cs)
	case "entropy":
		c14RunEntropy(c, cs)
	case "pssm":
		c14RunPssm(c, cs)
	case "plain", "sorted":
		c14RunTwice(c, cs)
	case "refrel":
		c14RunRefRel(c, cs)
	case "profile-file":
		c14ProfileFile(c, cs.Site)
	default:
		c.Fatal("unknown op %q", cs.Op)
	}
}

// c14Alignment runs every per-alignment operation.
func c14Alignment(c *mc.Ctx, alpha int, seqs []string) {
	base := c14Case{Alpha: alpha, Seqs: seqs}
	L := c14Len(seqs)
	cs := base
	cs.Op = "plain"
	c.Mark(cs)
	c14Run(c, cs)
	cs.Op = "sorted"
	c14Run(c, cs)
	for _, igG := range c14Both {
		for _, igN := range c14Both {
			cs = base
			cs.IgG, cs.IgN = igG, igN
			cs.Op = "maxchar"
			c14Run(c, cs)
			cs.Op = "consensus"
			c14Run(c, cs)
		}
	}
	for site := -1; site <= L; site++ {
		for _, rm := range c14Both {
			cs = base
			cs.Op, cs.Site, cs.RmGaps = "entropy", site, rm
			c14Run(c, cs)
		}
	}
}

// c14PssmOrders explores Pssm under the map orders for one alignment.
func c14PssmOrders(c *mc.Ctx, alpha int, seqs []string, thorough bool) {
	for _, cfg := range c14PssmCfgs {
		ranges := 1
		if cfg.Pseudo > 0 {
			ranges++
		}
		if cfg.Log || cfg.Norm == align.PSSM_NORM_LOGO {
			ranges++
		}
		cs := c14Case{Op: "pssm", Alpha: alpha, Seqs: seqs, Norm: cfg.Norm, Log: cfg.Log, Pseudo: cfg.Pseudo}
		c.Mark(cs)
		if ranges == 3 && !(thorough && alpha == align.NUCLEOTIDS) {
			cs.MapDev = 2
		}
		c14Run(c, cs)
		if c.Expired() {
			return
		}
	}
}

type c14Shape struct {
	kind   string // aln | pssm | pssm4 | ref | reflen
	alpha  int
	chars  string
	n, L   int
	prefix int // number of leading characters fixed per task
}

func c14AlphaName(a int) string {
	if a == align.AMINOACIDS {
		return "aa"
	}
	return "nt"
}

func c14Shapes(tier string) []c14Shape {
	var out []c14Shape
	thorough := tier == "thorough"
	const full = "AaC-NX."
	// W stands for the alphabet's wildcard
	type spec struct {
		kind, chars          string
		n, L, prefix         int
		ntOnly, aaOnly, slow bool
	}
	specs := []spec{
		// L = 0 (both site indices -1 and 0 are outside)
		{kind: "aln", chars: "A", n: 1, L: 0}, {kind: "aln", chars: "A", n: 2, L: 0},
		// L = 1: every column
		{kind: "aln", chars: full, n: 1, L: 1}, {kind: "aln", chars: full, n: 2, L: 1}, {kind: "aln", chars: full, n: 3, L: 1},
		{kind: "aln", chars: full, n: 1, L: 2}, {kind: "aln", chars: full, n: 1, L: 3},
		// reference-relative counters: (reference, sequence) pairs of equal length L
		{kind: "ref", chars: "ACRYW-", L: 1}, {kind: "ref", chars: "ACRYW-", L: 2}, {kind: "reflen", chars: "AW-", L: 2},
		// symbols that are no IUPAC code (stop, match character): identical on both sides they are no substitution
		// (one such symbol at a time: whether '*' differs from '.' is not determined)
		{kind: "ref", chars: "AC*", L: 1}, {kind: "ref", chars: "AC*", L: 2}, {kind: "ref", chars: "AC.", L: 1}, {kind: "ref", chars: "AC.", L: 2},
		{kind: "aln", chars: full, n: 2, L: 2, prefix: 1},
		{kind: "aln", chars: full, n: 4, L: 1, prefix: 1},
		{kind: "ref", chars: "ACRYW-", L: 3, prefix: 1},
		{kind: "ref", chars: "ACW-", L: 4, prefix: 1},
		// Pssm under map orders
		{kind: "pssm", chars: "AC-W", n: 1, L: 1, prefix: 1}, {kind: "pssm", chars: "AC-W", n: 2, L: 1, prefix: 2}, {kind: "pssm", chars: "AC-W", n: 3, L: 1, prefix: 3, ntOnly: true},
		{kind: "pssm4", chars: "ACGT", n: 4, L: 1, prefix: 2, ntOnly: true}, {kind: "pssm4", chars: "ACGT", n: 2, L: 2, prefix: 2, ntOnly: true},
		{kind: "aln", chars: "AaC-W", n: 2, L: 3, prefix: 1},
		{kind: "aln", chars: full, n: 3, L: 2, prefix: 2},
		// thorough only
		{kind: "aln", chars: full, n: 5, L: 1, prefix: 2, slow: true},
		{kind: "aln", chars: full, n: 2, L: 3, prefix: 2, slow: true},
		{kind: "pssm", chars: "AC-W", n: 3, L: 1, prefix: 3, aaOnly: true, slow: true},
		{kind: "aln", chars: "AC-W", n: 2, L: 4, prefix: 2, slow: true},
		{kind: "ref", chars: "ACRYW-", L: 4, prefix: 2, slow: true},
		{kind: "pssm", chars: "AC-W", n: 2, L: 2, prefix: 4, slow: true},
		{kind: "aln", chars: "AaC-W", n: 4, L: 2, prefix: 3, slow: true},
		{kind: "aln", chars: "AC-W", n: 3, L: 3, prefix: 3, slow: true},
	}
	for _, sp := range specs {
		if sp.slow && !thorough {
			continue
		}
		for _, alpha := range []int{align.NUCLEOTIDS, align.AMINOACIDS} {
			if (sp.ntOnly && alpha != align.NUCLEOTIDS) || (sp.aaOnly && alpha != align.AMINOACIDS) {
				continue
			}
			chars := strings.ReplaceAll(sp.chars, "W", string(c14OwnWild(alpha)))
			out = append(out, c14Shape{sp.kind, alpha, chars, sp.n, sp.L, sp.prefix})
		}
	}
	return out
}

func c14SplitRows(s []byte, n, L int) []string {
	seqs := make([]string, n)
	for i := 0; i < n; i++ {
		seqs[i] = string(s[i*L : (i+1)*L])
	}
	return seqs
}

func c14Tasks(tier string) []mc.Task {
	var ts []mc.Task
	thorough := tier == "thorough"
	for _, sh := range c14Shapes(tier) {
		sh := sh
		total := sh.n * sh.L
		if sh.kind == "ref" {
			total = 2 * sh.L
		}
		run := func(prefix []byte) func(c *mc.Ctx) {
			return func(c *mc.Ctx) {
				switch sh.kind {
				case "aln", "pssm", "pssm4":
					if total == 0 {
						seqs := make([]string, sh.n)
						c14Alignment(c, sh.alpha, seqs)
						return
					}
					forEachStringLen(sh.chars, total, prefix, func(s []byte) bool {
						seqs := c14SplitRows(s, sh.n, sh.L)
						switch sh.kind {
						case "aln":
							c14Alignment(c, sh.alpha, seqs)
						case "pssm4":
							// only alignments in which every letter occurs (data normalisation defined)
							if j := strings.Join(seqs, ""); strings.Contains(j, "A") && strings.Contains(j, "C") && strings.Contains(j, "G") && strings.Contains(j, "T") {
								c14PssmOrders(c, sh.alpha, seqs, thorough)
							}
						default:
							c14PssmOrders(c, sh.alpha, seqs, thorough)
						}
						return !c.Expired()
					})
				case "ref":
					forEachStringLen(sh.chars, total, prefix, func(s []byte) bool {
						c14Run(c, c14Case{Op: "refrel", Alpha: sh.alpha, Ref: string(s[:sh.L]), Seqs: []string{string(s[sh.L:])}})
						if sh.L <= 3 {
							c14Run(c, c14Case{Op: "refrel", Alpha: sh.alpha, Ref: string(s[:sh.L]), Seqs: []string{string(s[sh.L:])}, Warm: true})
						}
						return !c.Expired()
					})
				case "reflen":
					forEachString(sh.chars, 0, sh.L, func(a []byte) bool {
						ref := string(a)
						return forEachString(sh.chars, 0, sh.L, func(b []byte) bool {
							if len(b) != len(ref) {
								c14Run(c, c14Case{Op: "refrel", Alpha: sh.alpha, Ref: ref, Seqs: []string{string(b)}})
							}
							return true
						})
					})
				}
			}
		}
		name := fmt.Sprintf("%s-%s-n%dL%d-%s", sh.kind, c14AlphaName(sh.alpha), sh.n, sh.L, sh.chars)
		if sh.prefix == 0 || total == 0 {
			ts = append(ts, mc.Task{Name: name + "#all", Run: run(nil)})
			continue
		}
		forEachStringLen(sh.chars, sh.prefix, nil, func(p []byte) bool {
			pp := append([]byte{}, p...)
			ts = append(ts, mc.Task{Name: name + "#" + string(pp), Run: run(pp)})
			return true
		})
	}
	// many rows (counters narrower than int wrap at 256 / 65536): one- and two-column alignments of 255..258 and
	// 513 rows in which one residue occurs 256k+1 times, another once
	ts = append(ts, mc.Task{Name: "manyrows#all", Run: func(c *mc.Ctx) {
		for _, alpha := range []int{align.NUCLEOTIDS, align.AMINOACIDS} {
			for _, n := range []int{255, 256, 257, 258, 513} {
				col := func(major byte, k int, minor byte) []byte {
					b := make([]byte, n)
					for i := range b {
						b[i] = major
						if i >= k {
							b[i] = minor
						}
					}
					return b
				}
				for _, cols := range [][][]byte{
					{col('A', n, 'A')}, {col('A', n-1, 'C')}, {col('A', 257, 'C')}, {col('C', 1, 'A')},
					{col('A', 256, '-'), col('C', n-1, 'A')},
				} {
					seqs := make([]string, n)
					for i := range seqs {
						b := make([]byte, len(cols))
						for j := range cols {
							b[j] = cols[j][i]
						}
						seqs[i] = string(b)
					}
					c14Alignment(c, alpha, seqs)
				}
			}
		}
	}})
	// count profiles read from a file (io/countprofile, behind --count-profile): 3..250 sites (the profile reserves
	// room for 100 sites per character), 4 rows; every count equals the count of the character at the site, and the
	// per-sequence unique counts with that profile are those with the profile built from the same alignment
	ts = append(ts, mc.Task{Name: "profile-file#lengths", Run: func(c *mc.Ctx) {
		for _, L := range []int{3, 99, 100, 101, 150, 199, 200, 201, 250} {
			c14ProfileFile(c, L)
			if c.Expired() {
				return
			}
		}
	}})
	// every letter in both cases: all one-column alignments of 3 rows over {X, x, -} for each letter X (case folding of the
	// counts and of the majority character is the same for all 26 letters), both alphabets
	ts = append(ts, mc.Task{Name: "letters#both-cases", Run: func(c *mc.Ctx) {
		for ch := byte('A'); ch <= 'Z'; ch++ {
			forEachStringLen(string([]byte{ch, ch + 32, '-'}), 3, nil, func(s []byte) bool {
				for _, alpha := range []int{align.NUCLEOTIDS, align.AMINOACIDS} {
					c14Alignment(c, alpha, c14SplitRows(s, 3, 1))
				}
				return !c.Expired()
			})
		}
	}})
	ts = append(ts, mc.Task{Name: "long-alignment#columnwise", Run: func(c *mc.Ctx) {
		var lens []int
		for l := 5; l <= 40; l++ {
			lens = append(lens, l)
		}
		for _, L := range append(lens, 63, 64, 65, 255, 256, 257, 1023, 1024, 1027, 4099) {
			c14LongColumnwise(c, L, 0)
			if L >= 255 {
				// statistics whose sites could be shared between processors: the same under 2, 3, 5, 8
				for _, procs := range []int{2, 3, 5, 8} {
					c14LongColumnwise(c, L, procs)
				}
			}
			if c.Expired() {
				return
			}
		}
	}})
	// reference-relative counts for every pair of symbols: all ordered pairs over the IUPAC nucleotide alphabet in both
	// cases, '-', '.', '*', '?' (one column; and as the second of two columns), nucleotides and amino acids
	ts = append(ts, mc.Task{Name: "refrel#symbol-pairs", Run: func(c *mc.Ctx) {
		// (U is refused by the IUPAC table of these functions - an explicit error, observed on the unchanged tree,
		// which the statement does not rule out: left out)
		const sym = "ACGTRYSWKMBDHVNacgtryswkmbdhvn-"
		for i := 0; i < len(sym); i++ {
			for j := 0; j < len(sym); j++ {
				for _, alpha := range []int{align.NUCLEOTIDS} {
					c14Run(c, c14Case{Op: "refrel", Alpha: alpha, Ref: sym[i : i+1], Seqs: []string{sym[j : j+1]}})
					c14Run(c, c14Case{Op: "refrel", Alpha: alpha, Ref: "A" + sym[i:i+1], Seqs: []string{"A" + sym[j:j+1]}})
				}
			}
			if c.Expired() {
				return
			}
		}
	}})
	// symbols below 'A' in the byte order: ? * . - and a digit next to letters, 1..3 rows, one and two columns
	for _, L := range []int{1, 2} {
		L := L
		ts = append(ts, mc.Task{Name: fmt.Sprintf("lowsymbols#L%d", L), Run: func(c *mc.Ctx) {
			for n := 1; n <= 3; n++ {
				if n*L > 4 {
					continue
				}
				forEachStringLen("AG?*.-", n*L, nil, func(s []byte) bool {
					for _, alpha := range []int{align.NUCLEOTIDS, align.AMINOACIDS} {
						c14Alignment(c, alpha, c14SplitRows(s, n, L))
					}
					return !c.Expired()
				})
			}
		}})
	}
	return append(ts, c14AATasks()...)
}

// c14LongColumnwise: the per-site statistics of a long alignment are, site by site, those of the column alone
// (MaxCharStats under the four option pairs, CharStatsSite, Entropy with and without gaps, SiteConservation,
// the count profile; NbVariableSites and InformativeSites as sums / lists over the columns).  The one-column
// values are what the enumeration judges; rows of every length 5..40, 63..65, 255..257.
func c14LongColumnwise(c *mc.Ctx, L int, procs int) {
	c.Eval()
	if procs > 0 {
		defer runtime.GOMAXPROCS(runtime.GOMAXPROCS(procs))
	}
	cs := c14Case{Op: "long-columnwise", Alpha: align.NUCLEOTIDS, Site: L, Procs: procs}
	viol := func(clause, desc string) {
		c.Violation("C14/long-alignment/"+clause, fmt.Sprintf("%s (5 rows, %d sites, GOMAXPROCS %d)", desc, L, procs), cs)
	}
	seqs := make([]string, 5)
	for i := range seqs {
		b := make([]byte, L)
		for j := range b {
			b[j] = "ACGT-NacA-"[(i*j+j/3+i*3+(j/7)*(i+1))%10]
		}
		seqs[i] = string(b)
	}
	type site struct {
		max   [4]string
		stats string
		ent   [2]string
		cons  string
		vari  int
		inf   bool
	}
	observe := func(rs []string) (out []site, ok bool) {
		al, err := mkAlign(align.NUCLEOTIDS, namedRows(rs...))
		if err != nil {
			c.Fatal("%v", err)
			return nil, false
		}
		n := len(rs[0])
		out = make([]site, n)
		if pn, msg := mc.Guard(func() {
			for o := 0; o < 4; o++ {
				ch, occ, tot := al.MaxCharStats(o&1 != 0, o&2 != 0)
				for j := 0; j < n; j++ {
					out[j].max[o] = fmt.Sprint(string(ch[j:j+1]), occ[j], tot[j])
				}
			}
			inf := map[int]bool{}
			for _, j := range al.InformativeSites() {
				inf[j] = true
			}
			for j := 0; j < n; j++ {
				m, e := al.CharStatsSite(j)
				out[j].stats = fmt.Sprint(m, e)
				for g := 0; g < 2; g++ {
					h, e := al.Entropy(j, g == 1)
					out[j].ent[g] = fmt.Sprintf("%x %v", math.Float64bits(h), e != nil)
				}
				k, e := al.SiteConservation(j)
				out[j].cons = fmt.Sprint(k, e)
				out[j].inf = inf[j]
			}
			if n == 1 {
				out[0].vari = al.NbVariableSites()
			} else {
				out[0].vari = -al.NbVariableSites() // total, kept negative to tell it from a per-site value
			}
		}); pn {
			viol("panic/"+mc.PanicSite(msg), msg)
			return nil, false
		}
		return out, true
	}
	long, ok := observe(seqs)
	if !ok {
		return
	}
	variable := 0
	for j := 0; j < L; j++ {
		col := make([]string, len(seqs))
		for i := range col {
			col[i] = seqs[i][j : j+1]
		}
		one, ok := observe(col)
		if !ok {
			return
		}
		variable += one[0].vari
		a, b := long[j], one[0]
		a.vari, b.vari = 0, 0
		if a != b {
			viol("site-differs-from-the-column-alone", fmt.Sprintf("site %d: in the alignment %+v, the column alone %+v", j, a, b))
			return
		}
	}
	if -long[0].vari != variable && L > 1 {
		viol("variable-sites", fmt.Sprintf("NbVariableSites = %d, the columns alone sum to %d", -long[0].vari, variable))
		return
	}
	c.Nontrivial(fmt.Sprintf("long-columnwise|%d", L))
	c.Outcome("long-alignment:columnwise")
}

// c14ProfileFile: see the task profile-file#lengths.
func c14ProfileFile(c *mc.Ctx, L int) {
	c.Eval()
	cs := c14Case{Op: "profile-file", Alpha: align.NUCLEOTIDS, Site: L}
	viol := func(clause, desc string) {
		c.Violation("C14/CountProfile-from-file/"+clause, fmt.Sprintf("%s (4 rows, %d sites)", desc, L), cs)
	}
	seqs := make([]string, 4)
	for i := range seqs {
		b := make([]byte, L)
		for j := range b {
			b[j] = "ACGT-N"[(i*j+j/3+i+(j/100)*(i+1))%6]
		}
		seqs[i] = string(b)
	}
	al, err := mkAlign(align.NUCLEOTIDS, namedRows(seqs...))
	if err != nil {
		c.Fatal("%v", err)
		return
	}
	const header = "-ACGNT"
	var sb strings.Builder
	sb.WriteString("site")
	for i := 0; i < len(header); i++ {
		sb.WriteString("\t" + header[i:i+1])
	}
	sb.WriteString("\n")
	want := make([][]int, len(header))
	for k := range want {
		want[k] = make([]int, L)
	}
	for j := 0; j < L; j++ {
		fmt.Fprintf(&sb, "%d", j)
		for k := 0; k < len(header); k++ {
			for _, s := range seqs {
				if s[j] == header[k] {
					want[k][j]++
				}
			}
			fmt.Fprintf(&sb, "\t%d", want[k][j])
		}
		sb.WriteString("\n")
	}
	dir, derr := os.MkdirTemp(mc.ScratchDir, "c14-profile-")
	if derr != nil {
		c.Fatal("%v", derr)
		return
	}
	defer os.RemoveAll(dir)
	file := filepath.Join(dir, "profile.txt")
	if err := os.WriteFile(file, []byte(sb.String()), 0o644); err != nil {
		c.Fatal("%v", err)
		return
	}
	var p *align.CountProfile
	if pn, msg := mc.Guard(func() { p, err = countprofile.FromFile(file) }); pn {
		viol("panic/"+mc.PanicSite(msg), msg)
		return
	}
	if err != nil || p == nil {
		viol("unexpected-error", fmt.Sprint(err))
		return
	}
	if p.NbCharacters() != len(header) || !p.CheckLength(L) {
		viol("shape", fmt.Sprintf("%d characters, CheckLength(%d)=%v", p.NbCharacters(), L, p.CheckLength(L)))
		return
	}
	for k := 0; k < len(header); k++ {
		for j := 0; j < L; j++ {
			got, e := p.Count(header[k], j)
			got2, e2 := p.CountAt(k, j)
			if e != nil || e2 != nil || got != want[k][j] || got2 != want[k][j] {
				viol("count", fmt.Sprintf("count of %q at site %d: Count=%d (%v) CountAt=%d (%v), the file says %d", header[k], j, got, e, got2, e2, want[k][j]))
				return
			}
		}
	}
	ref := align.NewCountProfileFromAlignment(al)
	u1, n1, b1, e1 := al.NumMutationsUniquePerSequence(p)
	u2, n2, b2, e2 := al.NumMutationsUniquePerSequence(ref)
	if fmt.Sprint(u1, n1, b1, e1) != fmt.Sprint(u2, n2, b2, e2) {
		viol("unique-mutations-differ", fmt.Sprintf("with the profile read from the file %v %v %v %v, with the profile of the same alignment %v %v %v %v", u1, n1, b1, e1, u2, n2, b2, e2))
		return
	}
	g1, gn1, gb1, ge1 := al.NumGapsUniquePerSequence(p)
	g2, gn2, gb2, ge2 := al.NumGapsUniquePerSequence(ref)
	if fmt.Sprint(g1, gn1, gb1, ge1) != fmt.Sprint(g2, gn2, gb2, ge2) {
		viol("unique-gaps-differ", fmt.Sprintf("with the profile read from the file %v %v %v %v, with the profile of the same alignment %v %v %v %v", g1, gn1, gb1, ge1, g2, gn2, gb2, ge2))
		return
	}
	c.Nontrivial(fmt.Sprintf("profile-file|%d", L))
	c.Outcome("profile-file:same")
}

var c14RequiredOutcomes = []string{
	"maxchar:tie:igfalse:infalse", "maxchar:tie:igtrue:intrue", "maxchar:unique-max:igtrue:infalse", "maxchar:fallback:igtrue:infalse", "maxchar:fallback:igfalse:intrue", "maxchar:open:igtrue:intrue",
	"consensus:tie:igfalse:infalse", "consensus:unique-max:igfalse:intrue", "consensus:fallback:igtrue:intrue",
	"entropy:error:site-negative:rmfalse", "entropy:error:site-eq-L:rmtrue", "entropy:NaN:rmtrue", "entropy:zero:rmfalse", "entropy:positive:rmfalse", "entropy:positive:rmtrue",
	"plain:compared", "sorted:compared",
	"variable:0", "variable:1", "variable:2", "informative:0", "informative:1",
	"gapsunique:nil:utrue:nfalse", "gapsunique:first-row:utrue:ntrue", "mutsunique:nil:utrue:nfalse", "mutsunique:last-row:utrue:ntrue", "mutsunique:self:ufalse:nfalse",
	"diffs:0", "diffs:2",
	"pssm:norm0:compared:logfalse:pcfalse", "pssm:norm1:compared:logtrue:pctrue", "pssm:norm3:compared:logfalse:pctrue",
	"pssm-orders:norm1:compared:logtrue:pctrue", "pssm-orders:norm4:not-compared", "pssm-orders:norm2:not-compared",
	"refrel:different-lengths:error", "refrel:num0", "refrel:num2", "refrel:list:del+ins+sub", "refrel:list:ins", "refrel:list:sub",
}

func init() {
	mc.Register(&mc.Prop{
		ID:    "C14",
		Level: "model_checking",
		Rule: cliStreamRule[1:] + "(Also: every one-column alignment of 3 rows over {X, x, -} for each of the 26 letters X, both alphabets; per-site statistics of 5-row alignments of every length 5..40, 63..65, 255..257 equal, site by site, those of the column alone; count profiles read from files of 3..250 sites through countprofile.FromFile - every count, and the per-sequence unique counts against the profile built from the same alignment; reference-relative counts and lists for every ordered pair of symbols over the IUPAC nucleotide alphabet (without U) in both cases and the gap, alone and as second column.) (Free-running complement under the race detector: 8 goroutines doing this property's operations on objects of their own must get the values the same work gives alone.)  Command line: goalign stats gaps (all five modes), compute entropy (-a, -g), stats maxchar and consensus (--ignore-gaps, --ignore-n), stats mutations (--unique, --ref-sequence each of the first two rows) on every 2x2 alignment over {A,C,-,W} and four others, both alphabets: the printed text must be what the documented library calls return, rendered as the command renders it. " + "Alignments (nucleotide and protein alphabet each; W = the alphabet's wildcard, N resp. X): all with L=1, n<=4 rows over {A,a,C,-,N,X,.}; L=2, n<=3 over the same 7 characters; L=3, n=1 over the 7 and n=2 over {A,a,C,-,W}; L=0, n<=2 " +
			"[thorough adds L=1,n=5 and L=3,n=2 over the 7 characters; L=2,n=4 over {A,a,C,-,W}; L=3,n=3 and L=4,n=2 over {A,C,-,W}]. " +
			"Per alignment: MaxCharStats and Consensus with all 4 (ignoreGaps,ignoreNs), Entropy for every site in [-1,L] x removeGaps, each call executed under EVERY map iteration order at every map range it reaches (all k! orders for k<=4 keys, the 2k rotations of the sorted and reversed order beyond; unbounded product over the ranges of one call; the same alignment object for all orders), " +
			"every leaf compared with the naive oracle and all leaves of a call with each other (exact; 1e-12 for Entropy/Pssm); CharStats, CharStatsSeq (index -1..n), CharStatsSite (site -1..L), UniqueCharacters, the count profile (NameAt/NameIndex/Count/CountAt with site -1..L, CheckLength), NbVariableSites, InformativeSites, AvgAllelesPerSite, NumGaps/FromStart/FromEnd/Openning, " +
			"NumGapsUniquePerSequence and NumMutationsUniquePerSequence with profile in {nil, the alignment itself, its first row, its last row, a profile of length L+1}, CountDifferences, DiffWithFirst in one execution under the same explorer; every call made twice on the same alignment object (the map-ranging ones under the fixed sorted order, where Pssm is compared for 11 configurations: raw counts, frequency and uniform normalisation with/without log2 and pseudo-count 0.5; data, logo and an unknown normalisation only for crashes/repeatability). " +
			"Pssm under map orders, all 19 configurations (normalisation 0..4 x log x pseudo-count {0,0.5}, unknown normalisation): all alignments L=1, n<=3 (nt) / n<=2 (aa) over {A,C,-,W}; nucleotide alignments n=4,L=1 and n=2,L=2 over {A,C,G,T} in which every letter occurs; calls reaching 3 map ranges: at most 2 of them off the sorted order [thorough: unbounded for nucleotides; adds aa n=3,L=1 and n=2,L=2 over {A,C,-,W}]. " +
			"Reference-relative counters (NumMutationsComparedToReferenceSequence, ListMutationsComparedToReferenceSequence aa=false): all (reference, sequence) pairs of equal length <=3 over {A,C,R,Y,W,-} and length 4 over {A,C,W,-} (thorough: length 4 over all 6), both alphabets, each called twice; all pairs of different lengths <=2 over {A,W,-}. " +
			"A case is non-trivial when the call returned and its complete result was compared with the oracle; distinct = distinct (operation, alphabet, rows, arguments).",
		Assumptions: []string{
			"the instrumenter turns every `for range <map>` of goalign into a vrt.MapKeys choice point (a map iterated by other means would escape the order exploration)",
			"for maps of more than 4 keys (n=5 columns, protein Pssm) the orders offered are the 2k rotations of the sorted and of the reversed key order, not all k!",
			"where statement and documentation leave a reading open (case of a letter, N/X or '.' as a character, frequency denominator of a column with gaps, position numbering of mutation lists, protein residue facing X in the reference, data/logo PSSM formulas) the comparison is made only when all readings agree; such cases are counted as skipped",
			"entropy uses the natural logarithm (goalign's own TestEntropy), PSSM log is base 2 (documentation)",
			"the count profile is compared on upper-case input only (DESIGN.md §5)",
		},
		// free-running complement: goroutines that each own their objects must get what they get alone (harness/racepass)
		Post: func(m *mc.Master) { m.RacePass("own-stats") },
		Tasks: func(tier string) []mc.Task {
			return append(append(c14Tasks(tier), cliStreamTasks("C14")...), c14CLITasks()...)
		},
		Replay: func(c *mc.Ctx, payload json.RawMessage) {
			if cliStreamReplay(c, payload) || c14CLIReplay(c, payload) || c14AAReplay(c, payload) {
				return
			}
			var cs c14Case
			if err := json.Unmarshal(payload, &cs); err != nil {
				c.Fatal("bad payload: %v", err)
				return
			}
			c14Run(c, cs)
		},
		Vacuity: func(tier string, t *mc.Totals) error {
			if t.Evaluations < 2000000 {
				return fmt.Errorf("only %d executions", t.Evaluations)
			}
			if t.Extra["calls_with_more_than_one_map_order"] < 100000 {
				return fmt.Errorf("only %d calls were executed under more than one map order", t.Extra["calls_with_more_than_one_map_order"])
			}
			var missing []string
			for _, o := range c14RequiredOutcomes {
				if _, ok := t.OutcomeSet[o]; !ok {
					missing = append(missing, o)
				}
			}
			if len(missing) > 0 {
				return fmt.Errorf("outcome classes never observed: %v", missing)
			}
			return nil
		},
	})
}
