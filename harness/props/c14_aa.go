package props

import (
	"encoding/json"
	"fmt"
	"strings"

	"verif/harness/mc"

	"github.com/evolbioinfo/goalign/align"
)

// Codon-wise mutation lists (ListMutationsComparedToReferenceSequence with aa = true; goalign stats mutations list
// --aa).  The definition, as the function documents it: the reference is read codon by codon; the residues of the
// compared sequence between the first and the last nucleotide of a reference codon (gaps of the reference inside
// the codon included), gaps removed, are a deletion ('-') when there is none, a frameshift ('/') when their number
// is not a multiple of 3, and otherwise the amino acids they spell - reported when there is more than one or when
// it differs from the reference's.  The enumerated domain keeps to references whose gaps are INSIDE codons (the
// treatment of gaps between codons is not spelt out) and to complete codons.

type c14AACase struct {
	AAList bool   `json:"aa_list"`
	Ref    string `json:"ref"`
	Seq    string `json:"seq"`
}

func c14AAOracle(ref, seq string) []align.Mutation {
	var out []align.Mutation
	i, aa := 0, 0
	for i < len(ref) {
		// next reference codon: three nucleotides, gaps in between
		var pos []int
		j := i
		for j < len(ref) && len(pos) < 3 {
			if ref[j] != '-' {
				pos = append(pos, j)
			}
			j++
		}
		if len(pos) < 3 {
			break
		}
		refaa := refCodon(ref[pos[0]], ref[pos[1]], ref[pos[2]], align.GENETIC_CODE_STANDARD)
		var res []byte
		for k := pos[0]; k <= pos[2]; k++ {
			if seq[k] != '-' {
				res = append(res, seq[k])
			}
		}
		switch {
		case len(res) == 0:
			out = append(out, align.Mutation{Ref: refaa, Pos: aa, Alt: []uint8{'-'}})
		case len(res)%3 != 0:
			out = append(out, align.Mutation{Ref: refaa, Pos: aa, Alt: []uint8{'/'}})
		default:
			var alt []uint8
			diff := false
			for k := 0; k+2 < len(res); k += 3 {
				a := refCodon(res[k], res[k+1], res[k+2], align.GENETIC_CODE_STANDARD)
				alt = append(alt, a)
				diff = diff || a != refaa
			}
			if len(alt) > 1 || diff {
				out = append(out, align.Mutation{Ref: refaa, Pos: aa, Alt: alt})
			}
		}
		i = pos[2] + 1
		aa++
	}
	return out
}

func c14MutString(m []align.Mutation) string {
	var sb strings.Builder
	for _, x := range m {
		fmt.Fprintf(&sb, "%c%d%s ", x.Ref, x.Pos, x.Alt)
	}
	return strings.TrimSpace(sb.String())
}

func c14AACheck(c *mc.Ctx, cs c14AACase) {
	c.Eval()
	viol := func(clause, desc string) {
		c.Violation("C14/ListMutationsComparedToReferenceSequence-aa/"+clause, fmt.Sprintf("%s; reference %q sequence %q", desc, cs.Ref, cs.Seq), cs)
	}
	want := c14AAOracle(cs.Ref, cs.Seq)
	rs := align.NewSequence("ref", []uint8(cs.Ref), "")
	sq := align.NewSequence("s", []uint8(cs.Seq), "")
	var got, again []align.Mutation
	var err error
	if pn, msg := mc.Guard(func() {
		got, err = sq.ListMutationsComparedToReferenceSequence(align.NUCLEOTIDS, rs, true)
		again, _ = sq.ListMutationsComparedToReferenceSequence(align.NUCLEOTIDS, rs, true)
	}); pn {
		viol("panic/"+mc.PanicSite(msg), msg)
		return
	}
	if err != nil {
		viol("unexpected-error", err.Error())
		return
	}
	if sq.Sequence() != cs.Seq || rs.Sequence() != cs.Ref {
		viol("inputs-modified", "the sequences were modified")
		return
	}
	if c14MutString(got) != c14MutString(again) {
		viol("second-call-differs", fmt.Sprintf("%s then %s", c14MutString(got), c14MutString(again)))
		return
	}
	if c14MutString(got) != c14MutString(want) {
		viol("list", fmt.Sprintf("got [%s] want [%s]", c14MutString(got), c14MutString(want)))
		return
	}
	c.Nontrivial("aalist|" + cs.Ref + "|" + cs.Seq)
	kinds := ""
	for _, m := range want {
		switch {
		case string(m.Alt) == "-":
			kinds += "d"
		case string(m.Alt) == "/":
			kinds += "f"
		case len(m.Alt) > 1:
			kinds += "i"
		default:
			kinds += "s"
		}
	}
	if len(kinds) > 2 {
		kinds = kinds[:2]
	}
	c.Outcome("aalist:" + kinds)
}

// c14AATasks: two reference codons (ATG GCA; TTA CGT) with 0..3 gaps at every place inside a codon; the compared
// sequence takes, at every reference nucleotide, that nucleotide, another one or a gap, and at every reference
// gap a residue of {A, C} or a gap.
func c14AATasks() []mc.Task {
	var ts []mc.Task
	for _, codons := range [][2]string{{"ATG", "GCA"}, {"TTA", "CGT"}} {
		codons := codons
		ts = append(ts, mc.Task{Name: "refrel-aa#" + codons[0] + codons[1], Run: func(c *mc.Ctx) {
			var refs []string
			// gaps after the 1st / 2nd nucleotide of either codon: (g1, g2, g3, g4) with at most 3 gaps in all
			for g := 0; g < 256; g++ {
				n := []int{g & 3, (g >> 2) & 3, (g >> 4) & 3, (g >> 6) & 3}
				if n[0]+n[1]+n[2]+n[3] > 3 {
					continue
				}
				a, b := codons[0], codons[1]
				refs = append(refs, a[:1]+strings.Repeat("-", n[0])+a[1:2]+strings.Repeat("-", n[1])+a[2:]+b[:1]+strings.Repeat("-", n[2])+b[1:2]+strings.Repeat("-", n[3])+b[2:])
			}
			for _, ref := range refs {
				seq := make([]byte, len(ref))
				var rec func(k int) bool
				rec = func(k int) bool {
					if k == len(ref) {
						c14AACheck(c, c14AACase{AAList: true, Ref: ref, Seq: string(seq)})
						return !c.Expired()
					}
					opts := "AC-"
					if ref[k] != '-' {
						alt := byte('C')
						if ref[k] == 'C' {
							alt = 'T'
						}
						opts = string([]byte{ref[k], alt, '-'})
					}
					for i := 0; i < len(opts); i++ {
						seq[k] = opts[i]
						if !rec(k + 1) {
							return false
						}
					}
					return true
				}
				if !rec(0) {
					return
				}
			}
		}})
	}
	return ts
}

func c14AAReplay(c *mc.Ctx, payload []byte) bool {
	var cs c14AACase
	if err := json.Unmarshal(payload, &cs); err != nil || !cs.AAList {
		return false
	}
	c14AACheck(c, cs)
	return true
}
