package props

// C03 — parsers are total: every byte string given to the FASTA, Phylip
// (strict / relaxed), Nexus, Clustal, Stockholm or partition parser makes the
// parser return, with an explicit error or a well-formed result.
//
// This file holds the case type, the instrumented reader that decides
// termination by counting reads after end of input, the call into goalign and
// the oracle.  c03_space.go holds the enumerated input space.

import (
	"bytes"
	"encoding/json"
	"fmt"
	"io"
	"os"
	"runtime"
	"strconv"
	"strings"
	"sync"

	"verif/harness/mc"

	"github.com/evolbioinfo/goalign/align"
	"github.com/evolbioinfo/goalign/io/clustal"
	"github.com/evolbioinfo/goalign/io/fasta"
	"github.com/evolbioinfo/goalign/io/nexus"
	"github.com/evolbioinfo/goalign/io/partition"
	"github.com/evolbioinfo/goalign/io/phylip"
	"github.com/evolbioinfo/goalign/io/stockholm"
	"github.com/evolbioinfo/goalign/verifrt/vrt"
)

// ---- the reader: input, then io.EOF; reads after the end are counted

// c03MaxPostEOF is the livelock verdict: a parser that has been told "end of
// input" this many times and is still asking will never stop asking.  A
// terminating parse polls the reader a handful of times after the end (one per
// token it still tries to scan).
const c03MaxPostEOF = 10000

const c03LivelockMsg = "c03-livelock in "

type c03Reader struct {
	data    []byte
	pos     int
	postEOF int
	// endErr: the input ends with a read error that is not io.EOF and is reported at every further read,
	// as a gzip reader does on a truncated file (io.ErrUnexpectedEOF)
	endErr bool
}

func (r *c03Reader) Read(p []byte) (int, error) {
	if r.pos < len(r.data) {
		n := copy(p, r.data[r.pos:])
		r.pos += n
		return n, nil
	}
	r.postEOF++
	if r.postEOF > c03MaxPostEOF {
		panic(c03LivelockMsg + c03LoopSite())
	}
	if r.endErr {
		return 0, io.ErrUnexpectedEOF
	}
	return 0, io.EOF
}

// c03LoopSite names the innermost goalign function on the stack that is not a
// lexer or a token-fetching helper: the function whose loop keeps polling.
func c03LoopSite() string {
	pcs := make([]uintptr, 64)
	n := runtime.Callers(2, pcs)
	frames := runtime.CallersFrames(pcs[:n])
	for {
		f, more := frames.Next()
		if strings.Contains(f.Function, "evolbioinfo/goalign/") && !strings.Contains(f.Function, "verifrt") {
			fn := f.Function[strings.LastIndex(f.Function, "/")+1:] // nexus.(*Parser).consumeComment
			name := fn[strings.LastIndex(fn, ".")+1:]
			if !strings.Contains(fn, "(*Scanner)") && !strings.HasPrefix(name, "scan") {
				return fn
			}
		}
		if !more {
			return "?"
		}
	}
}

// c03PanicKind classifies a panic message without its numbers:
// "runtime error: index out of range [4] with length 3 @…" -> "index-out-of-range".
func c03PanicKind(msg string) string {
	if i := strings.LastIndex(msg, " @"); i >= 0 {
		msg = msg[:i]
	}
	msg = strings.TrimPrefix(msg, "runtime error: ")
	if i := strings.IndexAny(msg, "[0123456789\n"); i >= 0 {
		msg = msg[:i]
	}
	msg = strings.TrimSpace(msg)
	if len(msg) > 48 {
		msg = msg[:48]
	}
	var b strings.Builder
	for _, r := range msg {
		if r >= 'a' && r <= 'z' || r >= 'A' && r <= 'Z' {
			b.WriteRune(r)
		} else {
			b.WriteByte('-')
		}
	}
	return strings.Trim(b.String(), "-")
}

// ---- cases

// c03Case is one parse.  With All set it stands for the same entry point and
// input under every option combination (used to mark the input before it is
// executed, so that a process death or hang names it).
type c03Case struct {
	Format string `json:"format,omitempty"` // with All and no Entry: every entry point of this format
	Entry  string `json:"entry,omitempty"`  // fasta.Parse fasta.ParseUnalign phylip.Parse phylip.ParseMultiple nexus.Parse clustal.Parse stockholm.Parse partition.Parse
	Strict bool   `json:"strict,omitempty"` // phylip only
	Ign    int    `json:"ign"`              // align.IGNORE_NONE / _NAME / _SEQUENCE
	Alpha  int    `json:"alpha"`            // align.BOTH (auto) / NUCLEOTIDS / AMINOACIDS
	Len    int    `json:"len,omitempty"`    // partition only: declared alignment length
	All    bool   `json:"all_options,omitempty"`
	In     string `json:"in"` // the input bytes as a Go quoted string (exact for any byte)
	// Seed is set for an unmodified seed file known to hold an alignment.
	Seed bool `json:"seed,omitempty"`
	// EndErr: the reader answers every read past the input with io.ErrUnexpectedEOF instead of io.EOF
	// (a truncated compressed file)
	EndErr bool `json:"end_with_read_error,omitempty"`
}

func (cs c03Case) op() string {
	if strings.HasPrefix(cs.Entry, "phylip.") {
		if cs.Strict {
			return "phylip-strict." + cs.Entry[7:]
		}
		return "phylip-relaxed." + cs.Entry[7:]
	}
	return cs.Entry
}

func (cs c03Case) hasOptions() bool { return cs.Entry != "partition.Parse" }

var (
	c03Ignores = []int{align.IGNORE_NONE, align.IGNORE_NAME, align.IGNORE_SEQUENCE}
	c03Alphas  = []int{align.BOTH, align.NUCLEOTIDS, align.AMINOACIDS}
)

const (
	c03SkipPolicyCount  = "fewer rows than the header count while a duplicate-dropping policy is active: the option documents dropping rows, the statement forbids contradicting the header"
	c03SkipNexusHeader  = "nexus success whose declared counts the independent reader cannot establish unambiguously (comment brackets, NUL, lone CR, several blocks or repeated declarations)"
	c03SkipPhylipHeader = "phylip success whose header line the independent reader does not recognise as two integers"
	c03SkipStockholmSQ  = "stockholm #=GF SQ line: goalign's documentation does not say whether this count is interpreted"
)

// c03Result is what one call into goalign produced.
type c03Result struct {
	sb    align.SeqBag      // fasta.ParseUnalign
	als   []align.Alignment // alignment parsers (ParseMultiple: every alignment delivered on the channel)
	isNil bool              // single alignment parser returned (nil, nil)
	ps    *align.PartitionSet
	err   error
}

func c03Call(cs c03Case, rd io.Reader) (res c03Result) {
	single := func(al align.Alignment, err error) {
		res.err = err
		if err == nil {
			if al == nil {
				res.isNil = true
			} else {
				res.als = []align.Alignment{al}
			}
		}
	}
	switch cs.Entry {
	case "fasta.Parse":
		single(fasta.NewParser(rd).IgnoreIdentical(cs.Ign).Alphabet(cs.Alpha).Parse())
	case "fasta.ParseUnalign":
		res.sb, res.err = fasta.NewParser(rd).IgnoreIdentical(cs.Ign).Alphabet(cs.Alpha).ParseUnalign()
	case "phylip.Parse":
		single(phylip.NewParser(rd, cs.Strict).IgnoreIdentical(cs.Ign).Alphabet(cs.Alpha).Parse())
	case "phylip.ParseMultiple":
		// the channel is large enough for every alignment the input can hold
		// (an alignment takes at least 8 bytes), so the call cannot block
		ac := &align.AlignChannel{Achan: make(chan align.Alignment, len(cs.In)/4+4)}
		phylip.NewParser(rd, cs.Strict).IgnoreIdentical(cs.Ign).Alphabet(cs.Alpha).ParseMultiple(ac)
		res.err = ac.Err
		for al := range ac.Achan {
			res.als = append(res.als, al)
		}
		res.isNil = len(res.als) == 0 && res.err == nil
	case "nexus.Parse":
		single(nexus.NewParser(rd).IgnoreIdentical(cs.Ign).Alphabet(cs.Alpha).Parse())
	case "clustal.Parse":
		single(clustal.NewParser(rd).IgnoreIdentical(cs.Ign).Alphabet(cs.Alpha).Parse())
	case "stockholm.Parse":
		single(stockholm.NewParser(rd).IgnoreIdentical(cs.Ign).Alphabet(cs.Alpha).Parse())
	case "partition.Parse":
		res.ps, res.err = partition.NewParser(rd).Parse(cs.Len)
	default:
		panic("c03: unknown entry " + cs.Entry)
	}
	return
}

// ---- independent readers of the counts a file declares

// c03PhylipHeader: "the first line holds the number of sequences and their
// length" — the first line that is not blank, cut at white space.
func c03PhylipHeader(in []byte) (n, l int64, ok bool) {
	for _, line := range bytes.Split(in, []byte{'\n'}) {
		f := bytes.Fields(line)
		if len(f) == 0 {
			continue
		}
		if len(f) < 2 {
			return 0, 0, false
		}
		n, e1 := strconv.ParseInt(string(f[0]), 10, 64)
		l, e2 := strconv.ParseInt(string(f[1]), 10, 64)
		return n, l, e1 == nil && e2 == nil
	}
	return 0, 0, false
}

// c03PhylipHeaderLines lists every line of the input that consists of exactly
// two integers: the only places where a further alignment of a stream can
// declare its size.
func c03PhylipHeaderLines(in []byte) (hs [][3]int64) {
	for li, line := range bytes.Split(in, []byte{'\n'}) {
		// a NUL inside the line is read as nothing or as a blank (NUL is an ordinary input byte, see the
		// assumptions: how the lexers pass over it is not judged)
		for _, v := range [][]byte{line, bytes.ReplaceAll(line, []byte{0}, nil), bytes.ReplaceAll(line, []byte{0}, []byte{' '})} {
			f := bytes.Fields(v)
			if len(f) != 2 {
				continue
			}
			n, e1 := strconv.ParseInt(string(f[0]), 10, 64)
			l, e2 := strconv.ParseInt(string(f[1]), 10, 64)
			if e1 == nil && e2 == nil {
				hs = append(hs, [3]int64{n, l, int64(li)}) // with the number of the line
			}
		}
	}
	return
}

// c03NexusDecl holds the counts declared by DIMENSIONS commands (nil = not declared).
type c03NexusDecl struct {
	dataNtax, dataNchar, taxaNtax *int64
}

// c03NexusDeclared reads the declared counts from the Nexus format
// definition: "#NEXUS", blocks "BEGIN name; ... END;", commands ended by ';',
// "DIMENSIONS [NTAX=n] [NCHAR=n];" inside a TAXA, DATA or CHARACTERS block.
// ok=false whenever the file leaves any room for another reading.
func c03NexusDeclared(in []byte) (d c03NexusDecl, ok bool) {
	for i, b := range in {
		switch {
		case b == '[' || b == ']' || b == 0:
			return d, false
		case b == '\r' && (i+1 >= len(in) || in[i+1] != '\n'):
			return d, false
		}
	}
	var toks []string
	cur := []byte{}
	flush := func() {
		if len(cur) > 0 {
			toks = append(toks, strings.ToUpper(string(cur)))
			cur = cur[:0]
		}
	}
	for _, b := range in {
		switch b {
		case ' ', '\t', '\n', '\r':
			flush()
		case ';', '=':
			flush()
			toks = append(toks, string(b))
		default:
			cur = append(cur, b)
		}
	}
	flush()
	if len(toks) == 0 || toks[0] != "#NEXUS" {
		return d, false
	}
	nData, nTaxa := 0, 0
	i := 1
	for i < len(toks) {
		if toks[i] != "BEGIN" {
			i++
			continue
		}
		if i+2 >= len(toks) || toks[i+2] != ";" {
			return d, false
		}
		block := toks[i+1]
		i += 3
		closed := false
		for i < len(toks) && !closed {
			// one command: toks[i..j) followed by ';'
			j := i
			for j < len(toks) && toks[j] != ";" {
				j++
			}
			if j == len(toks) {
				return d, false // unterminated command
			}
			cmd := toks[i:j]
			i = j + 1
			if len(cmd) == 0 {
				continue
			}
			switch cmd[0] {
			case "BEGIN":
				return d, false
			case "END", "ENDBLOCK":
				if len(cmd) != 1 {
					return d, false
				}
				closed = true
			case "DIMENSIONS":
				isData := block == "DATA" || block == "CHARACTERS"
				if !isData && block != "TAXA" {
					continue
				}
				for k := 1; k < len(cmd); k++ {
					if cmd[k] != "NTAX" && cmd[k] != "NCHAR" {
						continue
					}
					if k+2 >= len(cmd) || cmd[k+1] != "=" {
						return d, false
					}
					v, err := strconv.ParseInt(cmd[k+2], 10, 64)
					if err != nil {
						return d, false
					}
					var slot **int64
					switch {
					case isData && cmd[k] == "NTAX":
						slot = &d.dataNtax
					case isData:
						slot = &d.dataNchar
					case cmd[k] == "NTAX":
						slot = &d.taxaNtax
					default:
						continue
					}
					if *slot != nil {
						return d, false
					}
					*slot = &v
					k += 2
				}
			}
		}
		if !closed {
			return d, false
		}
		switch block {
		case "DATA", "CHARACTERS":
			nData++
		case "TAXA":
			nTaxa++
		}
	}
	return d, nData <= 1 && nTaxa <= 1
}

// ---- the check

type c03Checker struct {
	c  *mc.Ctx
	cs c03Case
	in []byte
}

func (k *c03Checker) viol(clause, desc string) {
	k.c.Violation("C03/"+k.cs.op()+"/"+clause, fmt.Sprintf("%s on %s (ignore=%d alphabet=%d len=%d): %s", k.cs.op(), k.cs.In, k.cs.Ign, k.cs.Alpha, k.cs.Len, desc), k.cs)
}

// wellFormed checks one returned sequence set: non-empty (at least one row
// and one column), rectangular when it is an alignment, names pairwise
// distinct.  It returns the dimensions.
func (k *c03Checker) wellFormed(sb align.SeqBag, aligned bool) (n, length int, ok bool) {
	var names, seqs []string
	declared := -1
	if pn, msg := mc.Guard(func() {
		n = sb.NbSequences()
		for i := 0; i < n; i++ {
			nm, ok1 := sb.GetSequenceNameById(i)
			sq, ok2 := sb.GetSequenceById(i)
			if !ok1 || !ok2 {
				panic(fmt.Sprintf("row %d of %d cannot be read back", i, n))
			}
			names, seqs = append(names, nm), append(seqs, sq)
		}
		if al, isAl := sb.(align.Alignment); isAl && aligned {
			declared = al.Length()
		}
	}); pn {
		k.viol("result-unreadable", msg)
		return 0, 0, false
	}
	if n == 0 {
		k.viol("empty/zero-rows", fmt.Sprintf("success with no sequence at all (Length()=%d)", declared))
		return 0, 0, false
	}
	if aligned {
		length = declared
		for i, s := range seqs {
			if len(s) != length {
				k.viol("ragged", fmt.Sprintf("success, Length()=%d but row %d (%q) has %d residues", length, i, names[i], len(s)))
				return 0, 0, false
			}
		}
		if length <= 0 {
			k.viol("empty/zero-columns", fmt.Sprintf("success with %d row(s) and %d columns", n, length))
			return 0, 0, false
		}
	} else {
		for _, s := range seqs {
			length = max(length, len(s))
		}
		if length == 0 {
			k.viol("empty/zero-columns", fmt.Sprintf("success with %d sequence(s), all of them empty", n))
			return 0, 0, false
		}
	}
	seen := make(map[string]int, n)
	for i, nm := range names {
		if j, dup := seen[nm]; dup {
			k.viol("duplicate-names", fmt.Sprintf("success, rows %d and %d are both named %q", j, i, nm))
			return 0, 0, false
		}
		seen[nm] = i
	}
	return n, length, true
}

// count compares one dimension with the count the file declares; it returns
// true when it raised a violation.
func (k *c03Checker) count(what string, declared int64, got int, dropsAllowed bool) bool {
	if int64(got) == declared {
		return false
	}
	if dropsAllowed && int64(got) < declared && k.cs.Ign != align.IGNORE_NONE {
		k.c.Skip(c03SkipPolicyCount)
		return false
	}
	sign := "declared-nonnegative"
	if declared < 0 {
		sign = "declared-negative"
	}
	k.viol("header-count/"+what+"/"+sign, fmt.Sprintf("success with %s=%d although the file declares %d", what, got, declared))
	return true
}

// run executes one parse and applies the oracle; it returns the outcome class.
func (k *c03Checker) run() string {
	c, cs := k.c, k.cs
	c.Eval()
	rd := &c03Reader{data: k.in, endErr: cs.EndErr}
	var res c03Result
	pn, msg, exited := mc.GuardExit(func() { res = c03Call(cs, rd) })
	switch {
	case pn && strings.HasPrefix(msg, c03LivelockMsg):
		site := msg[len(c03LivelockMsg):]
		if i := strings.Index(site, " @"); i >= 0 {
			site = site[:i]
		}
		k.viol("livelock/"+site, fmt.Sprintf("still reading after being told end-of-input %d times (loop in %s): the call never returns", c03MaxPostEOF, site))
		return "livelock"
	case pn:
		k.viol("panic/"+mc.PanicSite(msg)+"/"+c03PanicKind(msg), msg)
		return "panic"
	case exited:
		return "error-exit"
	case res.err != nil && cs.Entry != "phylip.ParseMultiple":
		return "error"
	}
	switch cs.Entry {
	case "partition.Parse":
		return k.partition(res.ps)
	case "fasta.ParseUnalign":
		if res.sb == nil {
			k.viol("nil-result", "success with a nil sequence set")
			return "bad"
		}
		if _, _, ok := k.wellFormed(res.sb, false); !ok {
			return "bad"
		}
		return "ok"
	}
	if res.isNil {
		if !strings.HasPrefix(cs.Entry, "phylip.") {
			k.viol("nil-result", "success with a nil alignment")
			return "bad"
		}
		if cs.Seed {
			k.viol("end-of-stream-on-alignment", "end-of-stream marker (nil, nil) although the stream holds an alignment")
			return "bad"
		}
		return "end-of-stream"
	}
	out := "ok"
	if res.err != nil {
		out = "error" // ParseMultiple: the alignments delivered before the error are checked all the same
		if len(res.als) > 0 {
			out = "ok-then-error"
		}
	}
	lastHeaderLine := int64(0) // line of the header that declared the previous alignment (the first: line 0 or the first non-blank one)
	for li, line := range bytes.Split(k.in, []byte{'\n'}) {
		if len(bytes.Fields(line)) > 0 {
			lastHeaderLine = int64(li)
			break
		}
	}
	for i, al := range res.als {
		n, l, ok := k.wellFormed(al, true)
		if !ok {
			return "bad"
		}
		switch cs.Entry {
		case "phylip.Parse", "phylip.ParseMultiple":
			if i == 0 {
				hn, hl, hok := c03PhylipHeader(k.in)
				if !hok {
					c.Skip(c03SkipPhylipHeader)
				} else if k.count("length", hl, l, false) || k.count("rows", hn, n, true) {
					out = "bad"
				}
			} else {
				// the alignments of a stream come in the order of their header lines: alignment #i is declared
				// by a line after the one that declared alignment #i-1 (the first by the first line)
				match, fewer := false, false
				for _, h := range c03PhylipHeaderLines(k.in) {
					if h[2] <= lastHeaderLine {
						continue
					}
					if h[0] == int64(n) && h[1] == int64(l) {
						match, lastHeaderLine = true, h[2]
						break
					}
					if h[0] > int64(n) && h[1] == int64(l) && cs.Ign != align.IGNORE_NONE {
						// a duplicate-name policy may have dropped rows: this line may be the header
						fewer, lastHeaderLine = true, h[2]
						break
					}
				}
				if !match && fewer && cs.Ign != align.IGNORE_NONE {
					c.Skip(c03SkipPolicyCount)
				} else if !match {
					k.viol("header-count/later-alignment", fmt.Sprintf("alignment #%d of the stream is %d x %d but no line after the header of the previous alignment declares these counts", i+1, n, l))
					out = "bad"
				}
			}
		case "nexus.Parse":
			d, dok := c03NexusDeclared(k.in)
			if !dok {
				c.Skip(c03SkipNexusHeader)
				break
			}
			good := true
			if d.dataNchar != nil && k.count("nchar", *d.dataNchar, l, false) {
				good = false
			}
			if d.dataNtax != nil && k.count("ntax", *d.dataNtax, n, false) {
				good = false
			}
			if d.taxaNtax != nil && k.count("taxa-ntax", *d.taxaNtax, n, false) {
				good = false
			}
			if d.dataNchar != nil || d.dataNtax != nil || d.taxaNtax != nil {
				c.Count("nexus_successes_compared_with_declared_counts", 1)
			}
			if !good {
				out = "bad"
			}
		case "stockholm.Parse":
			if bytes.Contains(bytes.ToUpper(k.in), []byte("#=GF SQ")) {
				c.Skip(c03SkipStockholmSQ)
			}
		}
	}
	return out
}

// partition: a map over exactly the declared length whose every entry is -1
// (unassigned) or the index of a declared partition.
func (k *c03Checker) partition(ps *align.PartitionSet) string {
	if ps == nil {
		k.viol("nil-result", "success with a nil partition set")
		return "bad"
	}
	bad := ""
	assigned := 0
	if pn, msg := mc.Guard(func() {
		np := ps.NPartitions()
		if ps.AliLength() != k.cs.Len {
			bad = fmt.Sprintf("AliLength()=%d, declared length %d", ps.AliLength(), k.cs.Len)
			return
		}
		for i := -1; i <= k.cs.Len; i++ {
			p := ps.Partition(i)
			inside := i >= 0 && i < k.cs.Len
			switch {
			case !inside && p != -1:
				bad = fmt.Sprintf("site %d outside the declared length %d is mapped to %d", i, k.cs.Len, p)
			case inside && (p < -1 || p >= np):
				bad = fmt.Sprintf("site %d is mapped to %d, there are %d partitions", i, p, np)
			case inside && p >= 0:
				assigned++
			}
			if bad != "" {
				return
			}
		}
	}); pn {
		k.viol("result-unreadable", msg)
		return "bad"
	}
	if bad != "" {
		k.viol("partition-map", bad)
		return "bad"
	}
	if assigned == 0 {
		return "ok-nothing-assigned"
	}
	return "ok"
}

var (
	c03Quiet   sync.Once
	c03DevNull *os.File
	// c03RealStderr keeps the process's descriptor 2 reachable: an os.File that
	// becomes garbage is closed by its finalizer, and the runtime's fatal error
	// report (which the master shows for a dead worker) goes to descriptor 2.
	c03RealStderr = os.Stderr
)

// c03Setup: library code calls os.Exit through io.ExitWithMessage (rewritten to
// vrt.Exit) and prints warnings on os.Stderr.
func c03Setup() {
	vrt.CatchExitAlways.Store(true)
	c03Quiet.Do(func() {
		if f, err := os.OpenFile(os.DevNull, os.O_WRONLY, 0); err == nil {
			f.Close() // a closed file refuses writes without a system call
			c03DevNull = f
		}
	})
	if c03DevNull != nil {
		os.Stderr = c03DevNull // fatal runtime errors still reach the real descriptor 2
	}
}

type c03OutKey struct {
	op              string
	ign, alpha, len int
	out             string
}

// c03Seen remembers which outcome classes the current task has already
// reported, so that the per-parse bookkeeping is one map lookup.
var c03Seen struct {
	c    *mc.Ctx
	seen map[c03OutKey]struct{}
}

func c03Record(c *mc.Ctx, cs c03Case, out string) {
	if c03Seen.c != c {
		c03Seen.c, c03Seen.seen = c, map[c03OutKey]struct{}{}
	}
	key := c03OutKey{cs.op(), cs.Ign, cs.Alpha, cs.Len, out}
	if _, ok := c03Seen.seen[key]; ok {
		return
	}
	c03Seen.seen[key] = struct{}{}
	if cs.hasOptions() {
		c.Outcome(fmt.Sprintf("%s/ignore=%d/alphabet=%d:%s", key.op, cs.Ign, cs.Alpha, out))
	} else {
		c.Outcome(fmt.Sprintf("%s/len=%d:%s", key.op, cs.Len, out))
	}
	c.Flag(key.op + ":" + out)
}

// c03CheckInput runs one entry point on one input under every option
// combination.  The caller has marked the input: a worker that dies or stops
// making progress is reported by the master on it.
func c03CheckInput(c *mc.Ctx, cs c03Case, in []byte) {
	if cs.In == "" {
		cs.In = strconv.Quote(string(in))
	}
	cs.All = false
	k := &c03Checker{c: c, in: in}
	if !cs.hasOptions() {
		cs.Ign, cs.Alpha = 0, align.BOTH
		k.cs = cs
		out := k.run()
		c03Record(c, cs, out)
		if strings.HasPrefix(out, "ok") {
			c.Nontrivial(cs.op() + strconv.Itoa(cs.Len) + cs.In)
		}
		return
	}
	var outs [3][3]string
	anyOK := false
	for i, ign := range c03Ignores {
		for j, alpha := range c03Alphas {
			cs.Ign, cs.Alpha = ign, alpha
			k.cs = cs
			out := k.run()
			outs[i][j] = out
			c03Record(c, cs, out)
			anyOK = anyOK || strings.HasPrefix(out, "ok")
		}
	}
	if anyOK {
		c.Nontrivial(cs.op() + cs.In)
		if len(in) > 40 {
			c.Sample(map[string]any{"entry": cs.op(), "input": string(in), "outcome_by_ignore_policy_and_alphabet": outs})
		}
	}
	for i := 0; i < 3; i++ {
		for j := 0; j < 3; j++ {
			if outs[i][j] != outs[0][j] {
				c.Flag("duplicate-policy-changes-outcome")
			}
			if outs[i][j] != outs[i][0] {
				c.Flag("forced-alphabet-changes-outcome")
			}
		}
	}
}

func c03Replay(c *mc.Ctx, payload json.RawMessage) {
	var cs c03Case
	if err := json.Unmarshal(payload, &cs); err != nil {
		c.Fatal("bad payload: %v", err)
		return
	}
	s, err := strconv.Unquote(cs.In)
	if err != nil {
		c.Fatal("bad quoted input %s: %v", cs.In, err)
		return
	}
	c03Setup()
	if cs.All && cs.Entry == "" {
		for _, f := range c03Formats() {
			if f.Name == cs.Format {
				f.checkAllEnd(c, s, cs.Seed, cs.EndErr)
				return
			}
		}
		c.Fatal("unknown format %q", cs.Format)
		return
	}
	if cs.All {
		c03CheckInput(c, cs, []byte(s))
		return
	}
	k := &c03Checker{c: c, cs: cs, in: []byte(s)}
	k.run()
}
