package props

import (
	"encoding/json"
	"fmt"
	"runtime"
	"strings"

	"verif/harness/mc"

	"github.com/evolbioinfo/goalign/align"
)

// ---- oracle: NCBI translation tables 1, 2, 5 (TCAG order), entered independently of align/const.go

var ncbiTables = map[int]string{
	align.GENETIC_CODE_STANDARD:         "FFLLSSSSYY**CC*WLLLLPPPPHHQQRRRRIIIMTTTTNNKKSSRRVVVVAAAADDEEGGGG",
	align.GENETIC_CODE_VETEBRATE_MITO:   "FFLLSSSSYY**CCWWLLLLPPPPHHQQRRRRIIMMTTTTNNKKSS**VVVVAAAADDEEGGGG",
	align.GENETIC_CODE_INVETEBRATE_MITO: "FFLLSSSSYY**CCWWLLLLPPPPHHQQRRRRIIMMTTTTNNKKSSSSVVVVAAAADDEEGGGG",
}

var geneticCodes = []int{align.GENETIC_CODE_STANDARD, align.GENETIC_CODE_VETEBRATE_MITO, align.GENETIC_CODE_INVETEBRATE_MITO}

// iupacSet returns the bit set (T=1,C=2,A=4,G=8) of an IUPAC nucleotide letter
// after case folding and U->T; 0 when the byte is not an IUPAC nucleotide.
func iupacSet(c byte) int {
	const T, C, A, G = 1, 2, 4, 8
	switch upper(c) {
	case 'T', 'U':
		return T
	case 'C':
		return C
	case 'A':
		return A
	case 'G':
		return G
	case 'R':
		return A | G
	case 'Y':
		return C | T
	case 'S':
		return G | C
	case 'W':
		return A | T
	case 'K':
		return G | T
	case 'M':
		return A | C
	case 'B':
		return C | G | T
	case 'D':
		return A | G | T
	case 'H':
		return A | C | T
	case 'V':
		return A | C | G
	case 'N':
		return A | C | G | T
	}
	return 0
}

// refCodon is the property statement: table entry after folding; unique amino
// acid over all expansions else X; --- -> -; anything else X.
func refCodon(b1, b2, b3 byte, code int) byte {
	if b1 == '-' && b2 == '-' && b3 == '-' {
		return '-'
	}
	s1, s2, s3 := iupacSet(b1), iupacSet(b2), iupacSet(b3)
	if s1 == 0 || s2 == 0 || s3 == 0 {
		return 'X'
	}
	tab := ncbiTables[code]
	var aa byte
	for i := 0; i < 4; i++ {
		if s1&(1<<i) == 0 {
			continue
		}
		for j := 0; j < 4; j++ {
			if s2&(1<<j) == 0 {
				continue
			}
			for k := 0; k < 4; k++ {
				if s3&(1<<k) == 0 {
					continue
				}
				x := tab[16*i+4*j+k]
				if aa != 0 && aa != x {
					return 'X'
				}
				aa = x
			}
		}
	}
	return aa
}

func refTranslate(s string, frame, code int) string {
	var b strings.Builder
	for i := frame; i+2 < len(s); i += 3 {
		b.WriteByte(refCodon(s[i], s[i+1], s[i+2], code))
	}
	return b.String()
}

// couldBeNt is the documented alphabet detection: characters goalign accepts in
// a nucleotide sequence.
func couldBeNt(s string) bool {
	for i := 0; i < len(s); i++ {
		switch upper(s[i]) {
		case 'A', 'C', 'B', 'R', 'G', '?', '-', '.', '*', 'D', 'K', 'S', 'H', 'M', 'N', 'V', 'X', 'T', 'W', 'Y', 'U', 'O':
		default:
			return false
		}
	}
	return true
}

type c05Case struct {
	Kind  string   `json:"kind"` // seq | bag | aln | codonalign | byref
	Seqs  []string `json:"seqs"`
	Prot  []string `json:"prot,omitempty"`
	Frame int      `json:"frame"`
	Code  int      `json:"code"`
	Ref   int      `json:"ref,omitempty"`
	Codes []int    `json:"codes,omitempty"` // kind codeswitch: the genetic codes to use one after the other
	// AfterSample (bag, aln): a sample of all rows is drawn from the container and translated (frame 0) first;
	// the container itself is then translated and must give the translation of its rows as they were built
	AfterSample bool `json:"after_sample,omitempty"`
	// Procs (codonalign): GOMAXPROCS during the call (0 = unchanged)
	Procs int `json:"procs,omitempty"`
	// NtOrder (codonalign): the nucleotide sequences are handed over in this order of rows (nil: the order of
	// the protein alignment); the result is in the order of the protein alignment whatever the order is
	NtOrder []int `json:"nt_order,omitempty"`
	// Names (codonalign): the names of the rows (nil: a, b, c, ...)
	Names []string `json:"names,omitempty"`
	// Reordered (byref): the alignment is built with its rows in reverse order, every name is looked up
	// (GetSequenceIdByName, GetSequenceByName), then Sort() brings the rows into the order of Seqs
	Reordered bool `json:"reordered,omitempty"`
}

const c05CodonAlpha = "ACGTURYSWKMBDHVNacgturyswkmbdhvn-.*?XxZ1 \xe9"

func c05Tasks(tier string) []mc.Task {
	var ts []mc.Task
	// (i) all codons over the 42-symbol alphabet x 3 codes, through Sequence.Translate and Alignment.Translate
	for _, code := range geneticCodes {
		code := code
		for i := 0; i < len(c05CodonAlpha); i++ {
			first := c05CodonAlpha[i]
			ts = append(ts, mc.Task{Name: fmt.Sprintf("codon#%d/%q", code, first), Run: func(c *mc.Ctx) {
				forEachStringLen(c05CodonAlpha, 3, []byte{first}, func(s []byte) bool {
					c05Check(c, c05Case{Kind: "seq", Seqs: []string{string(s)}, Frame: 0, Code: code})
					c05Check(c, c05Case{Kind: "aln", Seqs: []string{string(s)}, Frame: 0, Code: code})
					return true
				})
			}})
		}
	}
	// (i') history independence: the same codon under all three codes one after the other, in
	// every order of the codes, inside one process (a translation must not depend on which code
	// an earlier call used — e.g. a cache keyed by codon only)
	for i := 0; i < len(c05CodonAlpha); i++ {
		first := c05CodonAlpha[i]
		ts = append(ts, mc.Task{Name: fmt.Sprintf("codeswitch#%q", first), Run: func(c *mc.Ctx) {
			forEachStringLen(c05CodonAlpha, 3, []byte{first}, func(s []byte) bool {
				perms(3, func(p []int) {
					c05Check(c, c05Case{Kind: "codeswitch", Seqs: []string{string(s)}, Frame: 0, Codes: []int{geneticCodes[p[0]], geneticCodes[p[1]], geneticCodes[p[2]]}})
				})
				return true
			})
		}})
	}
	// (ii) all sequences of length 0..maxL over {A,T,G,R,-} x frames x codes
	maxL := 6
	if tier == "thorough" {
		maxL = 8
	}
	const seqAlpha = "ATGR-"
	for _, code := range geneticCodes {
		code := code
		for l := 0; l <= maxL; l++ {
			l := l
			prefixes := []string{""}
			if l >= 6 {
				prefixes = nil
				for i := 0; i < len(seqAlpha); i++ {
					prefixes = append(prefixes, seqAlpha[i:i+1])
				}
			}
			for _, pf := range prefixes {
				pf := pf
				ts = append(ts, mc.Task{Name: fmt.Sprintf("frames#%d/L%d/%s", code, l, pf), Run: func(c *mc.Ctx) {
					forEachStringLen(seqAlpha, l, []byte(pf), func(s []byte) bool {
						for fr := 0; fr <= 2; fr++ {
							c05Check(c, c05Case{Kind: "seq", Seqs: []string{string(s)}, Frame: fr, Code: code})
						}
						for _, fr := range []int{0, 1, 2, -1} {
							c05Check(c, c05Case{Kind: "bag", Seqs: []string{string(s), "ATGATGAT"[:min(8, max(l, 0))]}, Frame: fr, Code: code})
							c05Check(c, c05Case{Kind: "aln", Seqs: []string{string(s), strings.Repeat("G", l)}, Frame: fr, Code: code})
						}
						return !c.Expired()
					})
				}})
			}
		}
	}
	// (ii'') every length 9..100 and around 256, 1024, 4096, 65536 (several codons per step with a tail, paths
	// that switch above a size): rows cycling through codons that read differently under the three codes,
	// ambiguity codes, lower case and U; every frame, three codes; as sequence, sequence set and alignment
	ts = append(ts, mc.Task{Name: "length-sweep", Run: func(c *mc.Ctx) {
		var lens []int
		for l := 9; l <= 100; l++ {
			lens = append(lens, l)
		}
		for _, b := range []int{256, 1024, 4096, 65536} {
			for d := -2; d <= 3; d++ {
				lens = append(lens, b+d)
			}
		}
		const unit = "ATGAGAATATGAGCNcugRAYaaaTTYAGGuaaCTNGGGACSTARMGR---A-CNNN"
		for _, l := range lens {
			for _, off := range []int{0, 1, 7} {
				r1, r2 := make([]byte, l), make([]byte, l)
				for j := range r1 {
					r1[j] = unit[(j+off)%len(unit)]
					r2[j] = unit[(j+off+20)%len(unit)]
				}
				for _, code := range geneticCodes {
					for _, fr := range []int{0, 1, 2, -1} {
						if fr >= 0 {
							c05Check(c, c05Case{Kind: "seq", Seqs: []string{string(r1)}, Frame: fr, Code: code})
						}
						c05Check(c, c05Case{Kind: "bag", Seqs: []string{string(r1), string(r2[:l/2+1])}, Frame: fr, Code: code})
						c05Check(c, c05Case{Kind: "aln", Seqs: []string{string(r1), string(r2)}, Frame: fr, Code: code})
					}
				}
			}
			if c.Expired() {
				return
			}
		}
	}})
	// (ii') a sample of the container translated before the container itself (frames 0..2, three codes)
	ts = append(ts, mc.Task{Name: "after-sample#all", Run: func(c *mc.Ctx) {
		for _, seqs := range [][]string{{"ATGGCTTAA"}, {"ATGGCTTAA", "ATGTTTAAG"}, {"ATGGCTTAAG", "CCATGGTTAA", "ATGNNNTRAC"}} {
			for _, kind := range []string{"bag", "aln"} {
				for _, code := range geneticCodes {
					for fr := 0; fr < 3; fr++ {
						c05Check(c, c05Case{Kind: kind, Seqs: seqs, Frame: fr, Code: code, AfterSample: true})
					}
				}
			}
		}
	}})
	// (iii') CodonAlign on many rows (100, 101, 130, 257) with 1, 2, 3, 4 processors: work shared out by row
	// blocks must cover every row
	ts = append(ts, mc.Task{Name: "codonalign#many-rows", Run: func(c *mc.Ctx) {
		codons := []string{"ATG", "GCT", "AAA", "TGG", "GAT", "CTG"}
		for _, n := range []int{100, 101, 130, 257} {
			var nt, pr []string
			for i := 0; i < n; i++ {
				s := codons[i%6] + codons[(i/6)%6] + codons[(i/36)%6]
				nt = append(nt, s)
				p := refTranslate(s, 0, align.GENETIC_CODE_STANDARD)
				pr = append(pr, p[:1+i%2]+"-"+p[1+i%2:])
			}
			for _, procs := range []int{1, 2, 3, 4} {
				c05Check(c, c05Case{Kind: "codonalign", Seqs: nt, Prot: pr, Code: align.GENETIC_CODE_STANDARD, Procs: procs})
			}
		}
	}})
	// (iii) CodonAlign: all nucleotide rows of length 3..maxNt over {A,C,G,T}, n<=2, protein = translation with <=2 gap columns inserted
	maxNt := 6
	if tier == "thorough" {
		maxNt = 8
	}
	for l := 3; l <= maxNt; l++ {
		l := l
		for i := 0; i < 4; i++ {
			first := "ACGT"[i]
			ts = append(ts, mc.Task{Name: fmt.Sprintf("codonalign#L%d/%c", l, first), Run: func(c *mc.Ctx) {
				forEachStringLen("ACGT", l, []byte{first}, func(s []byte) bool {
					c05CodonAlignCases(c, string(s))
					return !c.Expired()
				})
			}})
		}
	}
	// (iii') the nucleotide sequences in another order than the rows of the protein alignment: 3 rows, every order
	ts = append(ts, mc.Task{Name: "codonalign#row-orders", Run: func(c *mc.Ctx) {
		nts := []string{"ATGAAACCC", "ATGCCCAAATT", "TTGGGGAAAC"}
		pr := []string{"MK-P", "MPK-", "LG-K"}
		perms(3, func(p []int) {
			c05Check(c, c05Case{Kind: "codonalign", Seqs: nts, Prot: pr, Code: align.GENETIC_CODE_STANDARD, NtOrder: append([]int{}, p...)})
			// names that share a first word, a prefix, everything up to a separator, or differ by case only:
			// the sequences are matched on their whole names
			for _, nm := range [][]string{{"Homo sapiens", "Homo neanderthalensis", "Homo"}, {"s.1", "s.2", "s"}, {"x|1", "x|2", "x|"}, {"s_1", "s_2", "s_"},
				{"Seq\tA", "Seq\tB", "Seq"}, {"ab", "AB", "Ab"}, {"a b", "a  b", "a b "}, {"s1", "s10", "s100"}} {
				c05Check(c, c05Case{Kind: "codonalign", Seqs: nts, Prot: pr, Code: align.GENETIC_CODE_STANDARD, NtOrder: append([]int{}, p...), Names: nm})
			}
		})
	}})
	// (iv) TranslateByReference: all 2-row alignments L<=maxR over {A,C,G,-}, frames 0..2, each row as reference
	maxR := 5
	if tier == "thorough" {
		maxR = 6
	}
	for l := 1; l <= maxR; l++ {
		l := l
		for i := 0; i < 4; i++ {
			for j := 0; j < 4; j++ {
				pf := []byte{"ACG-"[i], "ACG-"[j]}
				if l == 1 && j > 0 {
					continue
				}
				if l == 1 {
					pf = pf[:1]
				}
				ts = append(ts, mc.Task{Name: fmt.Sprintf("byref#L%d/%s", l, pf), Run: func(c *mc.Ctx) {
					forEachStringLen("ACG-", 2*l, pf, func(s []byte) bool {
						seqs := []string{string(s[:l]), string(s[l:])}
						for fr := 0; fr <= 2; fr++ {
							for ref := 0; ref < 2; ref++ {
								c05Check(c, c05Case{Kind: "byref", Seqs: seqs, Frame: fr, Code: align.GENETIC_CODE_STANDARD, Ref: ref})
							}
						}
						return !c.Expired()
					})
				}})
			}
		}
	}
	// (iv') reference codons split by a run of 3 or 4 gaps (an in-frame insertion in the other row):
	// reference = one codon with the run after its 1st or 2nd base, optionally followed by a whole
	// codon; the other row ranges over every string of that length over {A,C,-}
	for _, g := range []int{3, 4} {
		for _, at := range []int{1, 2} {
			for _, tail := range []string{"", "TAC"} {
				ref := "ACG"[:at] + strings.Repeat("-", g) + "ACG"[at:] + tail
				g, at, tail, ref := g, at, tail, ref
				ts = append(ts, mc.Task{Name: fmt.Sprintf("byrefgap#g%d/at%d/%s", g, at, tail), Run: func(c *mc.Ctx) {
					forEachStringLen("AC-", len(ref), nil, func(s []byte) bool {
						c05Check(c, c05Case{Kind: "byref", Seqs: []string{ref, string(s)}, Frame: 0, Code: align.GENETIC_CODE_STANDARD, Ref: 0})
						return !c.Expired()
					})
				}})
			}
		}
	}
	// (iv'') case folding and U->T on the reference-guided path: one row in upper-case DNA, the other row
	// every string over lower case, U/u, an ambiguity code (and '-' for the short lengths), each as reference
	for _, fc := range []struct {
		alpha string
		l     int
	}{{"aUugCn-", 3}, {"aUugCn", 4}, {"aUgt", 6}, {"cuGR", 7}} {
		fc := fc
		if fc.l == 7 && tier != "thorough" {
			continue
		}
		for i := 0; i < len(fc.alpha); i++ {
			first := fc.alpha[i]
			ts = append(ts, mc.Task{Name: fmt.Sprintf("byref-folding#L%d/%c", fc.l, first), Run: func(c *mc.Ctx) {
				upper := "ACGTACG"[:fc.l]
				forEachStringLen(fc.alpha, fc.l, []byte{first}, func(s []byte) bool {
					for _, code := range []int{align.GENETIC_CODE_STANDARD, align.GENETIC_CODE_VETEBRATE_MITO} {
						for fr := 0; fr <= 2; fr++ {
							for ref := 0; ref < 2; ref++ {
								c05Check(c, c05Case{Kind: "byref", Seqs: []string{upper, string(s)}, Frame: fr, Code: code, Ref: ref})
							}
						}
					}
					return !c.Expired()
				})
			}})
		}
	}
	if tier == "thorough" {
		// 3 rows, L<=4, other codes
		for l := 3; l <= 4; l++ {
			l := l
			for i := 0; i < 4; i++ {
				pf := []byte{"ACG-"[i]}
				ts = append(ts, mc.Task{Name: fmt.Sprintf("byref3#L%d/%s", l, pf), Run: func(c *mc.Ctx) {
					forEachStringLen("ACG-", 3*l, pf, func(s []byte) bool {
						seqs := []string{string(s[:l]), string(s[l : 2*l]), string(s[2*l:])}
						for fr := 0; fr <= 1; fr++ {
							for ref := 0; ref < 3; ref++ {
								c05Check(c, c05Case{Kind: "byref", Seqs: seqs, Frame: fr, Code: align.GENETIC_CODE_VETEBRATE_MITO, Ref: ref})
							}
						}
						return !c.Expired()
					})
				}})
			}
		}
	}
	return ts
}

// c05CodonAlignCases: protein alignment = translations of nt rows with every
// placement of <=2 gap columns per row that keeps rows equal length.
func c05CodonAlignCases(c *mc.Ctx, nt1 string) {
	code := align.GENETIC_CODE_STANDARD
	p1 := refTranslate(nt1, 0, code)
	// second row: a fixed different sequence of the same codon count (complement-ish shift) and one codon shorter
	shift := func(s string) string {
		b := []byte(s)
		for i := range b {
			b[i] = "CGTA"[strings.IndexByte("ACGT", b[i])]
		}
		return string(b)
	}
	nt2 := shift(nt1[:3*(len(nt1)/3)])
	p2 := refTranslate(nt2, 0, code)
	// one-row cases: gaps inserted anywhere (0..2 gaps)
	for _, g1 := range gapPlacements(p1, 2) {
		c05Check(c, c05Case{Kind: "codonalign", Seqs: []string{nt1}, Prot: []string{g1}, Code: code})
	}
	// two-row cases: same number of gaps in each row
	for k := 0; k <= 2; k++ {
		for _, g1 := range gapPlacementsExact(p1, k) {
			for _, g2 := range gapPlacementsExact(p2, k) {
				c05Check(c, c05Case{Kind: "codonalign", Seqs: []string{nt1, nt2}, Prot: []string{g1, g2}, Code: code})
			}
		}
	}
}

func gapPlacements(p string, maxGaps int) []string {
	var out []string
	for k := 0; k <= maxGaps; k++ {
		out = append(out, gapPlacementsExact(p, k)...)
	}
	return out
}

// gapPlacementsExact returns all distinct strings obtained by inserting exactly k '-' into p.
func gapPlacementsExact(p string, k int) []string {
	if k == 0 {
		return []string{p}
	}
	seen := map[string]bool{}
	var out []string
	for _, q := range gapPlacementsExact(p, k-1) {
		for i := 0; i <= len(q); i++ {
			s := q[:i] + "-" + q[i:]
			if !seen[s] {
				seen[s] = true
				out = append(out, s)
			}
		}
	}
	return out
}

func c05Check(c *mc.Ctx, cs c05Case) {
	c.Eval()
	viol := func(clause, desc string) {
		c.Violation("C05/"+cs.Kind+"/"+clause, fmt.Sprintf("%s: case %s", desc, jsonStr(cs)), cs)
	}
	switch cs.Kind {
	case "codeswitch":
		// the same sequence under several codes one after the other in this process: each answer
		// must be the one of its own code whatever was translated before (replayable as a whole)
		for _, code := range cs.Codes {
			sub := cs
			sub.Kind, sub.Code, sub.Codes = "seq", code, nil
			s := sub.Seqs[0]
			var got string
			var err error
			pn, msg := mc.Guard(func() {
				var tr align.Sequence
				tr, err = align.NewSequence("s", []uint8(s), "").Translate(sub.Frame, code)
				if err == nil {
					got = tr.Sequence()
				}
			})
			if pn {
				viol("panic", msg)
				return
			}
			c05Compare(c, cs, s, refTranslate(s, sub.Frame, code), got, err, viol)
		}
	case "seq":
		s := cs.Seqs[0]
		var got string
		var err error
		pn, msg := mc.Guard(func() {
			var tr align.Sequence
			tr, err = align.NewSequence("s", []uint8(s), "").Translate(cs.Frame, cs.Code)
			if err == nil {
				got = tr.Sequence()
			}
		})
		if pn {
			viol("panic", msg)
			return
		}
		want := refTranslate(s, cs.Frame, cs.Code)
		c05Compare(c, cs, s, want, got, err, viol)
	case "bag", "aln":
		var sb align.SeqBag
		var e error
		r := namedRows(cs.Seqs...)
		if cs.Kind == "bag" {
			sb, e = mkSeqBag(align.NUCLEOTIDS, r)
		} else {
			sb, e = mkAlign(align.NUCLEOTIDS, r)
		}
		if e != nil {
			c.Fatal("cannot build input %v: %v", cs, e)
			return
		}
		var err error
		pn, msg := mc.Guard(func() {
			if cs.AfterSample {
				var smp align.SeqBag
				if al, ok := sb.(align.Alignment); ok {
					smp, _ = al.Sample(len(r))
				} else {
					smp, _ = sb.SampleSeqBag(len(r))
				}
				if smp != nil {
					smp.Translate(0, cs.Code)
				}
			}
			err = sb.Translate(cs.Frame, cs.Code)
		})
		if pn {
			viol("panic", msg)
			return
		}
		frames := []int{cs.Frame}
		if cs.Frame == -1 {
			frames = []int{0, 1, 2}
		}
		// expected rows
		var want rows
		wantErr := false
		inScope := true
		for _, x := range r {
			if !couldBeNt(x.Seq) {
				inScope = false
			}
			for _, fr := range frames {
				if (len(x.Seq)-fr)/3 <= 0 || len(x.Seq)-fr < 3 {
					wantErr = true
				}
				n := x.Name
				if cs.Frame == -1 {
					n = fmt.Sprintf("%s_%d", x.Name, fr)
				}
				want = append(want, row{n, refTranslate(x.Seq, fr, cs.Code)})
			}
		}
		if !inScope {
			if err != nil {
				c.Skip("non-nucleotide symbol in sequence: an error is acceptable")
				return
			}
		}
		if wantErr {
			if err == nil {
				viol("no-error-on-empty-translation", fmt.Sprintf("expected an error (a frame yields zero residues), got rows %v", readRows(sb)))
			} else {
				c.Outcome(cs.Kind + ":error-short")
			}
			return
		}
		if err != nil {
			viol("unexpected-error", err.Error())
			return
		}
		got := readRows(sb)
		if !sameRows(got, want) {
			viol("residues", fmt.Sprintf("got %v want %v", got, want))
			return
		}
		if al, ok := sb.(align.Alignment); ok && cs.Frame != -1 {
			if al.Length() != len(want[0].Seq) {
				viol("length-not-updated", fmt.Sprintf("Length()=%d want %d", al.Length(), len(want[0].Seq)))
				return
			}
		}
		c.Nontrivial(fmt.Sprintf("%s|%v|%d|%d", cs.Kind, cs.Seqs, cs.Frame, cs.Code))
		c.Outcome(cs.Kind + ":ok")
		c.Sample(map[string]any{"case": cs, "result": got})
	case "codonalign":
		c05CodonAlign(c, cs, viol)
	case "byref":
		c05ByRef(c, cs, viol)
		if !cs.Reordered && len(cs.Seqs) >= 2 {
			cs.Reordered = true
			c05Check(c, cs)
		}
	}
}

func c05Compare(c *mc.Ctx, cs c05Case, s, want, got string, err error, viol func(string, string)) {
	if !couldBeNt(s) {
		if err != nil {
			c.Skip("non-nucleotide symbol in sequence: an error is acceptable")
			return
		}
	}
	if len(s)-cs.Frame < 3 {
		if err == nil {
			viol("no-error-on-empty-translation", fmt.Sprintf("expected an error, got %q", got))
		} else {
			c.Outcome("seq:error-short")
		}
		return
	}
	if err != nil {
		viol("unexpected-error", err.Error())
		return
	}
	if got != want {
		viol("residues", fmt.Sprintf("got %q want %q", got, want))
		return
	}
	if len(got) != (len(s)-cs.Frame)/3 {
		viol("length", fmt.Sprintf("got %d residues want %d", len(got), (len(s)-cs.Frame)/3))
		return
	}
	c.Nontrivial(fmt.Sprintf("seq|%s|%d|%d", s, cs.Frame, cs.Code))
	c.Outcome("seq:" + got[:1])
	if strings.ContainsAny(s, "RYN") {
		c.Sample(map[string]any{"case": cs, "result": got})
	}
}

func c05RowName(i int) string {
	if i < len(rowNames) {
		return rowNames[i]
	}
	return fmt.Sprintf("r%04d", i)
}

func c05Named(seqs []string, names ...string) rows {
	out := make(rows, len(seqs))
	for i, s := range seqs {
		out[i] = row{c05RowName(i), s}
		if i < len(names) {
			out[i].Name = names[i]
		}
	}
	return out
}

func c05CodonAlign(c *mc.Ctx, cs c05Case, viol func(string, string)) {
	prot, e1 := mkAlign(align.AMINOACIDS, c05Named(cs.Prot, cs.Names...))
	ntRows := c05Named(cs.Seqs, cs.Names...)
	if cs.NtOrder != nil {
		perm := make(rows, len(ntRows))
		for i, k := range cs.NtOrder {
			perm[i] = ntRows[k]
		}
		ntRows = perm
	}
	nt, e2 := mkSeqBag(align.NUCLEOTIDS, ntRows)
	if e1 != nil || e2 != nil {
		c.Fatal("cannot build codonalign input %v: %v %v", cs, e1, e2)
		return
	}
	var out align.Alignment
	var err error
	pn, msg := mc.Guard(func() {
		if cs.Procs > 0 {
			defer runtime.GOMAXPROCS(runtime.GOMAXPROCS(cs.Procs))
		}
		o, e := prot.CodonAlign(nt)
		if e == nil {
			out = o
		}
		err = e
	})
	if pn {
		viol("panic", msg)
		return
	}
	if err != nil {
		viol("unexpected-error", err.Error())
		return
	}
	got := readRows(out)
	if len(got) != len(cs.Seqs) {
		viol("rowcount", fmt.Sprintf("got %v", got))
		return
	}
	if out.Length() != 3*len(cs.Prot[0]) {
		viol("length", fmt.Sprintf("Length()=%d want %d", out.Length(), 3*len(cs.Prot[0])))
		return
	}
	for i, g := range got {
		if g.Name != c05Named(cs.Seqs, cs.Names...)[i].Name || len(g.Seq) != 3*len(cs.Prot[i]) {
			viol("shape", fmt.Sprintf("row %d = %v", i, g))
			return
		}
		ntin := cs.Seqs[i]
		keep := 3 * (len(ntin) / 3)
		if ungap(g.Seq) != ntin[:keep] || len(ntin)-keep > 2 {
			viol("ungapped-content", fmt.Sprintf("row %d ungapped %q want %q", i, ungap(g.Seq), ntin[:keep]))
			return
		}
		if tr := refTranslate(g.Seq, 0, cs.Code); tr != cs.Prot[i] {
			viol("retranslation", fmt.Sprintf("row %d translates to %q want %q", i, tr, cs.Prot[i]))
			return
		}
	}
	// and the implementation's own Translate agrees (round trip through the code under test)
	if cl, err := out.Clone(); err == nil {
		if err := cl.Translate(0, cs.Code); err != nil {
			viol("roundtrip-error", err.Error())
			return
		}
		back := readRows(cl)
		for i := range back {
			if back[i].Seq != cs.Prot[i] {
				viol("roundtrip", fmt.Sprintf("Translate(CodonAlign) row %d = %q want %q", i, back[i].Seq, cs.Prot[i]))
				return
			}
		}
	}
	c.Nontrivial(fmt.Sprintf("ca|%v|%v", cs.Seqs, cs.Prot))
	c.Outcome(fmt.Sprintf("codonalign:rows%d:gaps%d", len(cs.Seqs), strings.Count(cs.Prot[0], "-")))
	if strings.Contains(cs.Prot[0], "-") {
		c.Sample(map[string]any{"case": cs, "result": got})
	}
}

func c05ByRef(c *mc.Ctx, cs c05Case, viol func(string, string)) {
	in := namedRows(cs.Seqs...)
	build := in
	if cs.Reordered {
		build = nil
		for i := len(in) - 1; i >= 0; i-- {
			build = append(build, in[i])
		}
	}
	al, e := mkAlign(align.NUCLEOTIDS, build)
	if e != nil {
		c.Fatal("cannot build byref input: %v", e)
		return
	}
	if cs.Reordered {
		for _, r := range in {
			al.GetSequenceIdByName(r.Name)
			al.GetSequenceByName(r.Name)
		}
		al.Sort()
		for i, r := range readRows(al) {
			if r != in[i] {
				viol("sort", fmt.Sprintf("after Sort row %d is %v", i, r))
				return
			}
		}
	}
	var err error
	pn, msg := mc.Guard(func() { err = al.TranslateByReference(cs.Frame, cs.Code, rowNames[cs.Ref]) })
	if pn {
		viol("panic", msg)
		return
	}
	hasGap := false
	for _, s := range cs.Seqs {
		if strings.Contains(s, "-") {
			hasGap = true
		}
	}
	L := len(cs.Seqs[0])
	if !hasGap {
		// coincides with plain translation in every frame
		if (L-cs.Frame)/3 <= 0 {
			// plain translation would be an error; nothing to coincide with (result undetermined by the statement)
			c.Skip("byref: gap-free alignment shorter than one codon in this frame (plain translation is an error)")
			return
		}
		if err != nil {
			viol("nogap-unexpected-error", err.Error())
			return
		}
		got := readRows(al)
		for i, g := range got {
			if w := refTranslate(cs.Seqs[i], cs.Frame, cs.Code); g.Seq != w || g.Name != in[i].Name {
				viol("nogap-differs-from-plain", fmt.Sprintf("row %d = %v want %q", i, g, w))
				return
			}
		}
		if al.Length() != (L-cs.Frame)/3 {
			viol("nogap-length", fmt.Sprintf("Length()=%d", al.Length()))
			return
		}
		c.Nontrivial(fmt.Sprintf("br|%v|%d|%d|%d", cs.Seqs, cs.Frame, cs.Ref, cs.Code))
		c.Outcome("byref:nogap-ok")
		return
	}
	if cs.Frame != 0 {
		// with gaps, frames 1 and 2 are only required not to crash
		c.Outcome("byref:gapped-frame>0-no-crash")
		return
	}
	if err != nil {
		// an explicit error is not a rectangular protein alignment; the statement says "always returns"
		viol("frame0-error", err.Error())
		return
	}
	got := readRows(al)
	if len(got) != len(in) {
		viol("frame0-rowcount", fmt.Sprintf("got %v", got))
		return
	}
	l0 := len(got[0].Seq)
	for i, g := range got {
		if len(g.Seq) != l0 || g.Name != in[i].Name {
			viol("frame0-ragged", fmt.Sprintf("got %v", got))
			return
		}
	}
	if l0 > 0 && al.Length() != l0 {
		viol("frame0-length", fmt.Sprintf("Length()=%d rows have %d", al.Length(), l0))
		return
	}
	refUng := ungap(cs.Seqs[cs.Ref])
	full := ""
	if len(refUng) >= 3 {
		full = refTranslate(refUng, 0, cs.Code)
	}
	if pre := ungap(got[cs.Ref].Seq); !strings.HasPrefix(full, pre) {
		viol("frame0-ref-not-prefix", fmt.Sprintf("reference row %q ungapped %q is not a prefix of %q", got[cs.Ref].Seq, pre, full))
		return
	}
	c.Nontrivial(fmt.Sprintf("br|%v|%d|%d|%d", cs.Seqs, cs.Frame, cs.Ref, cs.Code))
	c.Outcome(fmt.Sprintf("byref:gapped-ok:len%d", l0))
	if l0 > 1 {
		c.Sample(map[string]any{"case": cs, "result": got})
	}
}

func init() {
	mc.Register(&mc.Prop{
		ID:    "C05",
		Level: "exploration",
		Rule: cliStreamRule[1:] + "(Free-running complement under the race detector: 8 goroutines doing this property's operations on objects of their own must get the values the same work gives alone.)  Command line: goalign translate --phase 0,1,2,-1 x --genetic-code (not given, standard, mitov, mitoi) x aligned / --unaligned / --ref-seq on 4 sets holding the codons on which the three tables differ: the output must be what Translate / TranslateByReference give for that frame and table. " + "bounded-exhaustive enumeration: (i) all 42^3 codons over IUPAC letters in both cases plus - . * ? X x Z 1 space 0xE9, x 3 genetic codes, through Sequence.Translate and Alignment.Translate, and every codon under the three codes in all 6 orders inside one process (a result must not depend on which code an earlier call used); " +
			"(ii) all sequences of length 0..6 (quick) / 0..8 (thorough) over {A,T,G,R,-} x frames {0,1,2,-1} x 3 codes through Sequence/SeqBag/Alignment.Translate; " +
			"(ii'') rows of every length 9..100 and within -2..+3 of 256, 1024, 4096, 65536 cycling through codons on which the tables differ, ambiguity codes, lower case and U, three starting points x 3 codes x every frame, as sequence, set and alignment; (iii) CodonAlign for all nt rows of length 3..6/8 over ACGT with every placement of <=2 gap columns; (iv) TranslateByReference for all 2-row alignments L<=6/7 over {A,C,G,-} x frames x each reference, and for references whose codon is split by a run of 3 or 4 gaps (after its 1st or 2nd base, with and without a following codon) against every other row over {A,C,-}; and an upper-case DNA row beside every row of length 3,4,6(,7) over lower case, U/u and an ambiguity code, each as reference, standard and vertebrate mitochondrial tables (case folding and U->T on the reference-guided path). " +
			"A case is non-trivial when the call succeeded and its full result was compared with the NCBI-table oracle (error-path and skipped cases are not counted); distinct = distinct (entry point, input, frame, code).",
		Assumptions: []string{
			"NCBI translation tables 1, 2, 5 entered in the harness as the canonical 64-letter strings are correct",
			"sequences containing a symbol goalign's documented alphabet detection does not accept as nucleotide (Z, digit, blank, non-ASCII) may be rejected with an error instead of translated",
			"TranslateByReference with gaps is only constrained in frame 0 (as stated); in frames 1,2 it must merely not panic",
		},
		// free-running complement: goroutines that each own their objects must get what they get alone (harness/racepass)
		Post: func(m *mc.Master) { m.RacePass("own-translate") },
		Tasks: func(tier string) []mc.Task {
			return append(append(c05Tasks(tier), cliStreamTasks("C05")...), c05CLITasks()...)
		},
		Replay: func(c *mc.Ctx, payload json.RawMessage) {
			if cliStreamReplay(c, payload) || c05CLIReplay(c, payload) {
				return
			}
			var cs c05Case
			if err := json.Unmarshal(payload, &cs); err != nil {
				c.Fatal("bad payload: %v", err)
				return
			}
			c05Check(c, cs)
		},
		Vacuity: func(tier string, t *mc.Totals) error {
			if t.Evaluations < 400000 || len(t.OutcomeSet) < 20 {
				return fmt.Errorf("only %d evaluations / %d outcomes", t.Evaluations, len(t.OutcomeSet))
			}
			return nil
		},
	})
}
