package props

import (
	"encoding/json"
	"fmt"
	"strconv"
	"strings"

	"verif/harness/mc"

	"github.com/evolbioinfo/goalign/align"
	"github.com/evolbioinfo/goalign/io/fasta"
)

// Command-line layer of C09 (cmd/sw.go): goalign sw writes the alignment and, with -l, the coordinates,
// length, score and counts of the aligner configured from --gap-open, --gap-extend, --match, --mismatch
// (substitution matrix unless --match or --mismatch is given).  Output and log must be those of the library
// aligner configured the same way (which the oracle of c09.go judges).

type c09CLICase struct {
	CLI      bool     `json:"cli_sw"`
	S1, S2   string   `json:"-"`
	Seqs     []string `json:"seqs"`
	Flags    []string `json:"flags,omitempty"` // among match, mismatch, gap-open, gap-extend: the flags that are given
	Match    float64  `json:"match"`
	Mismatch float64  `json:"mismatch"`
	Open     float64  `json:"open"`
	Extend   float64  `json:"extend"`
}

func c09CheckCLI(c *mc.Ctx, box *cliBox, cs c09CLICase) {
	c.Eval()
	viol := func(clause, desc string) {
		c.Violation("C09/cli-sw/"+clause, fmt.Sprintf("%s: case %s", desc, jsonStr(cs)), cs)
	}
	given := map[string]bool{}
	for _, f := range cs.Flags {
		given[f] = true
	}
	open, ext, match, mismatch := -10.0, -0.5, 1.0, -1.0 // documented defaults
	args := []string{"sw", "-i", "@pair.fa", "-o", box.path("out.fa"), "-l", box.path("log.txt")}
	f64 := func(x float64) string { return strconv.FormatFloat(x, 'g', -1, 64) }
	if given["gap-open"] {
		open = cs.Open
		args = append(args, "--gap-open="+f64(open))
	}
	if given["gap-extend"] {
		ext = cs.Extend
		args = append(args, "--gap-extend="+f64(ext))
	}
	if given["match"] {
		match = cs.Match
		args = append(args, "--match="+f64(match))
	}
	if given["mismatch"] {
		mismatch = cs.Mismatch
		args = append(args, "--mismatch="+f64(mismatch))
	}
	// the library aligner, on sequences read the way the command reads them
	sb := align.NewSeqBag(align.UNKNOWN)
	sb.AddSequence("q", cs.Seqs[0], "")
	sb.AddSequence("s", cs.Seqs[1], "")
	sb.AutoAlphabet()
	s1, _ := sb.Sequence(0)
	s2, _ := sb.Sequence(1)
	var want, wantLog string
	var lerr error
	if pn, _ := mc.Guard(func() {
		a := align.NewPwAligner(s1, s2, align.ALIGN_ALGO_SW)
		a.SetGapOpenScore(open)
		a.SetGapExtendScore(ext)
		if given["match"] || given["mismatch"] {
			a.SetScore(match, mismatch)
		}
		var al align.Alignment
		if al, lerr = a.Alignment(); lerr != nil {
			return
		}
		want = fasta.WriteAlignment(al)
		st1, st2 := a.AlignStarts()
		e1, e2 := a.AlignEnds()
		wantLog = fmt.Sprintf("Query Start,End: %d,%d\nSubject Start,End: %d,%d\nAlign length: %d\nAlign Score: %.2f\nAlign Matches: %d\nAlign Mismatches: %d\nAlign Gaps: %d\nAlignment:\n%s\n",
			st1, e1, st2, e2, a.Length(), a.MaxScore(), a.NbMatches(), a.NbMisMatches(), a.NbGaps(), a.AlignmentStr())
	}); pn {
		return
	}
	box.drop("out.fa", "log.txt")
	if !box.put(c, "pair.fa", ">q\n"+cs.Seqs[0]+"\n>s\n"+cs.Seqs[1]+"\n") {
		return
	}
	c.Mark(cs)
	cerr, pn, msg, herr := box.run(c, args...)
	if herr {
		return
	}
	if pn {
		viol("panic/"+mc.PanicSite(msg), msg)
		return
	}
	if lerr != nil {
		if cerr == nil {
			viol("library-error-not-reported", fmt.Sprintf("the library refuses (%v); the command succeeds", lerr))
		}
		return
	}
	if cerr != nil {
		viol("command-fails", fmt.Sprintf("goalign %s: %v", strings.Join(args, " "), cerr))
		return
	}
	got, _ := box.get("out.fa")
	gotLog, _ := box.get("log.txt")
	c.Nontrivial(jsonStr(cs))
	if got != want {
		viol("alignment-differs-from-library", fmt.Sprintf("goalign %s writes %q; the library aligner configured the same way gives %q", strings.Join(args[1:], " "), got, want))
		return
	}
	if gotLog != wantLog {
		viol("log-differs-from-library", fmt.Sprintf("goalign %s logs %q; the library aligner reports %q", strings.Join(args[1:], " "), gotLog, wantLog))
		return
	}
	c.Outcome("cli-sw:same")
}

func c09CLITasks() []mc.Task {
	pairs := [][]string{{"ACGTTGCA", "CGTAGC"}, {"ACGTACGT", "ACGTCGT"}, {"AAAACCCC", "AAAAGGCCCC"}, {"ACGT", "ACGT"}, {"ACGT", "TGCA"}, {"MKVLAW", "MKLAW"}, {"WWFFHH", "WFH"}, {"acgtACGT", "ACGTacgt"}}
	var ts []mc.Task
	ts = append(ts, mc.Task{Name: "cli-sw#all", Run: func(c *mc.Ctx) {
		box := newCLIBox(c, "c09-cli-")
		if box == nil {
			return
		}
		defer box.close()
		names := []string{"match", "mismatch", "gap-open", "gap-extend"}
		for _, p := range pairs {
			for mask := 0; mask < 16; mask++ {
				var fl []string
				for i, n := range names {
					if mask>>i&1 == 1 {
						fl = append(fl, n)
					}
				}
				for _, v := range [][4]float64{{1, -1, -10, -0.5}, {2, -3, -5, -1}, {5, -4, -12, -11}, {1, -2, -1, -1}} {
					c09CheckCLI(c, box, c09CLICase{CLI: true, Seqs: p, Flags: fl, Match: v[0], Mismatch: v[1], Open: v[2], Extend: v[3]})
				}
			}
			if c.Expired() {
				return
			}
		}
	}})
	return ts
}

func c09CLIReplay(c *mc.Ctx, payload []byte) bool {
	var cs c09CLICase
	if err := json.Unmarshal(payload, &cs); err != nil || !cs.CLI || len(cs.Seqs) != 2 {
		return false
	}
	box := newCLIBox(c, "c09-cli-")
	if box == nil {
		return true
	}
	defer box.close()
	c09CheckCLI(c, box, cs)
	return true
}
