package props

// C18 — substitution models yield valid, reversible Markov transition matrices.
//
// Bounded-exhaustive exploration of a finite parameter lattice.  For every
// model instance (model, rate parameters, frequencies) the real goalign code
// produces P(t) for every branch length of a fixed list and for every sum
// s+t of two of them; each matrix is judged by an oracle built here from the
// textbook definition of the model: the rate matrix Q written down from the
// parameters, scaled to one expected substitution per unit time, and
// exponentiated by an independent Taylor + scaling-and-squaring routine
// (cross-checked inside the harness against a second, spectral evaluation by
// cyclic Jacobi on the symmetrised generator).

import (
	"runtime"
	"encoding/json"
	"fmt"
	"math"
	"sort"
	"strconv"
	"strings"

	"verif/harness/mc"

	"github.com/evolbioinfo/goalign/models"
	"github.com/evolbioinfo/goalign/models/dna"
	"github.com/evolbioinfo/goalign/models/protein"
)

// ---------------------------------------------------------------------------
// small dense matrices (row major)

type c18M struct {
	n int
	a []float64
}

func c18New(n int) c18M { return c18M{n, make([]float64, n*n)} }

func c18Eye(n int) c18M {
	m := c18New(n)
	for i := 0; i < n; i++ {
		m.a[i*n+i] = 1
	}
	return m
}

func (m c18M) at(i, j int) float64 { return m.a[i*m.n+j] }

func c18Mul(x, y c18M) c18M {
	n := x.n
	z := c18New(n)
	for i := 0; i < n; i++ {
		zi := z.a[i*n : (i+1)*n]
		for k := 0; k < n; k++ {
			v := x.a[i*n+k]
			if v == 0 {
				continue
			}
			yk := y.a[k*n : (k+1)*n]
			for j := 0; j < n; j++ {
				zi[j] += v * yk[j]
			}
		}
	}
	return z
}

// c18Dev returns the largest |x-y| entry (NaN counts as +Inf) and where it is.
func c18Dev(x, y c18M) (d float64, ii, jj int) {
	n := x.n
	for i := 0; i < n; i++ {
		for j := 0; j < n; j++ {
			e := math.Abs(x.a[i*n+j] - y.a[i*n+j])
			if e != e {
				e = math.Inf(1)
			}
			if e > d {
				d, ii, jj = e, i, j
			}
		}
	}
	return
}

// c18Sum is a compensated (Neumaier) sum.
func c18Sum(v []float64) float64 {
	s, comp := 0.0, 0.0
	for _, x := range v {
		t := s + x
		if math.Abs(s) >= math.Abs(x) {
			comp += (s - t) + x
		} else {
			comp += (x - t) + s
		}
		s = t
	}
	return s + comp
}

// ---------------------------------------------------------------------------
// oracle 1: exp(Q t) by Taylor series of expm1 on a scaled argument followed
// by repeated squaring in the form E <- 2E + E*E  (E = P - I), which keeps
// full relative accuracy for tiny t.

func c18Expm(q c18M, t float64) c18M {
	n := q.n
	norm := 0.0
	for i := 0; i < n; i++ {
		r := 0.0
		for j := 0; j < n; j++ {
			r += math.Abs(q.a[i*n+j])
		}
		norm = math.Max(norm, r)
	}
	norm *= t
	s := 0
	for norm > 0.25 {
		norm /= 2
		s++
	}
	h := math.Ldexp(t, -s)
	a := c18New(n)
	for i := range a.a {
		a.a[i] = q.a[i] * h
	}
	e := c18New(n)    // sum_{k>=1} A^k / k!
	term := c18Eye(n) // A^k / k!
	for k := 1; k <= 40; k++ {
		term = c18Mul(term, a)
		mx := 0.0
		for i := range term.a {
			term.a[i] /= float64(k)
			e.a[i] += term.a[i]
			mx = math.Max(mx, math.Abs(term.a[i]))
		}
		if mx < 1e-40 {
			break
		}
	}
	for ; s > 0; s-- {
		e2 := c18Mul(e, e)
		for i := range e.a {
			e.a[i] = 2*e.a[i] + e2.a[i]
		}
	}
	for i := 0; i < n; i++ {
		e.a[i*n+i] += 1
	}
	return e
}

// oracle 2: spectral form for a reversible generator.  B = D^{1/2} Q D^{-1/2}
// is symmetric; cyclic Jacobi gives B = V diag(lambda) V^T, hence
// P_ij(t) = sqrt(pi_j/pi_i) * sum_k V_ik exp(lambda_k t) V_jk.
type c18Spec struct {
	n      int
	lambda []float64 // descending; lambda[0] ~ 0
	v      c18M      // columns = eigenvectors, same order
	sq     []float64 // sqrt(pi)
}

func c18Jacobi(b c18M) (lambda []float64, v c18M) {
	n := b.n
	a := c18New(n)
	copy(a.a, b.a)
	v = c18Eye(n)
	for sweep := 0; sweep < 60; sweep++ {
		off := 0.0
		for i := 0; i < n; i++ {
			for j := i + 1; j < n; j++ {
				off += a.a[i*n+j] * a.a[i*n+j]
			}
		}
		if off < 1e-60 {
			break
		}
		for p := 0; p < n; p++ {
			for q := p + 1; q < n; q++ {
				apq := a.a[p*n+q]
				if math.Abs(apq) < 1e-300 {
					continue
				}
				theta := (a.a[q*n+q] - a.a[p*n+p]) / (2 * apq)
				tt := 1 / (math.Abs(theta) + math.Sqrt(theta*theta+1))
				if theta < 0 {
					tt = -tt
				}
				cs := 1 / math.Sqrt(tt*tt+1)
				sn := tt * cs
				for k := 0; k < n; k++ { // columns p,q of A
					akp, akq := a.a[k*n+p], a.a[k*n+q]
					a.a[k*n+p] = cs*akp - sn*akq
					a.a[k*n+q] = sn*akp + cs*akq
				}
				for k := 0; k < n; k++ { // rows p,q of A
					apk, aqk := a.a[p*n+k], a.a[q*n+k]
					a.a[p*n+k] = cs*apk - sn*aqk
					a.a[q*n+k] = sn*apk + cs*aqk
				}
				for k := 0; k < n; k++ {
					vkp, vkq := v.a[k*n+p], v.a[k*n+q]
					v.a[k*n+p] = cs*vkp - sn*vkq
					v.a[k*n+q] = sn*vkp + cs*vkq
				}
			}
		}
	}
	lambda = make([]float64, n)
	for i := range lambda {
		lambda[i] = a.a[i*n+i]
	}
	return
}

func c18Spectral(q c18M, pi []float64) *c18Spec {
	n := q.n
	sq := make([]float64, n)
	for i := range sq {
		sq[i] = math.Sqrt(pi[i])
	}
	b := c18New(n)
	for i := 0; i < n; i++ {
		for j := 0; j < n; j++ {
			b.a[i*n+j] = sq[i] * q.a[i*n+j] / sq[j]
		}
	}
	for i := 0; i < n; i++ { // exact symmetry
		for j := i + 1; j < n; j++ {
			m := 0.5 * (b.a[i*n+j] + b.a[j*n+i])
			b.a[i*n+j], b.a[j*n+i] = m, m
		}
	}
	lam, v := c18Jacobi(b)
	idx := make([]int, n)
	for i := range idx {
		idx[i] = i
	}
	sort.Slice(idx, func(x, y int) bool { return lam[idx[x]] > lam[idx[y]] })
	sp := &c18Spec{n: n, lambda: make([]float64, n), v: c18New(n), sq: sq}
	for k, src := range idx {
		sp.lambda[k] = lam[src]
		for i := 0; i < n; i++ {
			sp.v.a[i*n+k] = v.a[i*n+src]
		}
	}
	return sp
}

func (sp *c18Spec) p(t float64) c18M {
	n := sp.n
	ex := make([]float64, n)
	for k := range ex {
		ex[k] = math.Exp(sp.lambda[k] * t)
	}
	ex[0] = 1 // the stationary mode
	out := c18New(n)
	for i := 0; i < n; i++ {
		for j := 0; j < n; j++ {
			s := 0.0
			for k := 0; k < n; k++ {
				s += sp.v.a[i*n+k] * ex[k] * sp.v.a[j*n+k]
			}
			out.a[i*n+j] = s * sp.sq[j] / sp.sq[i]
		}
	}
	return out
}

// ---------------------------------------------------------------------------
// cases

// c18Case is one model instance together with the branch lengths to examine.
//
//	Model: jc k2p f81 f84 tn93 gtr | dayhoff jtt mtrev lg wag hivb ab
//	Par:   k2p,f84: [kappa]; tn93: [kappa1 kappa2]; gtr: [d f b e a c] = exchangeabilities AC AG AT CG CT GT (goalign's documented argument order)
//	Pi:    f81,f84,tn93,gtr: piA piC piG piT; protein: 20 user frequencies, or absent = the model's own frequencies
//	T:     branch lengths: each is examined alone, every ordered pair (s,t) for the semigroup law, and in this order by one re-used Pij object
type c18Case struct {
	Model string    `json:"model"`
	Par   []float64 `json:"par,omitempty"`
	Pi    []float64 `json:"pi,omitempty"`
	PiTag string    `json:"pitag,omitempty"` // readable name of a protein user-frequency vector
	T     []float64 `json:"t"`
	// Reinit: the model object is first initialised with other parameters (kappa 0.3 / 0.7, pi .4 .1 .3 .2;
	// protein: uniform frequencies) and used once (a P(t) is computed) before it is initialised with the
	// parameters of the case: the matrices must be those of the new parameters
	Reinit bool `json:"reinit,omitempty"`
	// Default: the model object is used as its constructor returns it, without InitModel; the parameters
	// of the case are the documented defaults (K2P: kappa 1; F84: kappa 1, frequencies 1/4)
	Default bool `json:"default_constructed,omitempty"`
	// Tables: the case is the comparison of the model's data with the frozen reference tables
	Tables bool `json:"tables,omitempty"`
	// Procs: GOMAXPROCS while the case runs (0 = unchanged): code that shares the rows of a matrix between
	// GOMAXPROCS workers must give every row whatever that number is
	Procs int `json:"gomaxprocs,omitempty"`
}

// c18TMin is the smallest positive normal double, a legal branch length t>=0.
const c18TMin = 2.2250738585072014e-308

var (
	c18TQuick    = []float64{0, 1e-8, 1e-4, 0.01, 0.1, 0.5, 1, 2, 5, 20, 30, 100, c18TMin}
	c18TThorough = []float64{0, 1e-8, 1e-6, 1e-4, 1e-3, 0.01, 0.05, 0.1, 0.2, 0.5, 1, 2, 5, 10, 20, 28, 29, 30, 50, 100, c18TMin}
	c18Kappas    = []float64{0.1, 0.5, 1, 2, 4, 10}
	c18KappasTh  = []float64{0.1, 0.25, 0.5, 1, 2, 4, 10, 25}
	c18GTRRates  = []float64{0.2, 1, 3}
	c18GTRRates4 = []float64{0.2, 0.5, 1, 3}
	c18ProtNames = []string{"dayhoff", "jtt", "mtrev", "lg", "wag", "hivb", "ab"}
)

// c18Simplex returns the uniform vector followed by every strictly positive
// point of the 4-simplex lattice with the given denominator, most even first.
func c18Simplex(den int) [][]float64 {
	type pt struct {
		k      [4]int
		spread int
	}
	var pts []pt
	for a := 1; a < den; a++ {
		for b := 1; a+b < den; b++ {
			for c := 1; a+b+c < den; c++ {
				d := den - a - b - c
				k := [4]int{a, b, c, d}
				mn, mx := den, 0
				for _, x := range k {
					mn, mx = min(mn, x), max(mx, x)
				}
				if mn == mx {
					continue // the uniform point is emitted once, first
				}
				pts = append(pts, pt{k, mx - mn})
			}
		}
	}
	sort.SliceStable(pts, func(i, j int) bool { return pts[i].spread < pts[j].spread })
	out := [][]float64{{0.25, 0.25, 0.25, 0.25}}
	for _, p := range pts {
		out = append(out, []float64{float64(p.k[0]) / float64(den), float64(p.k[1]) / float64(den), float64(p.k[2]) / float64(den), float64(p.k[3]) / float64(den)})
	}
	return out
}

// c18GTRPis: the 7 frequency vectors combined with the GTR rate lattice in the quick tier.
var c18GTRPis = [][]float64{
	{0.25, 0.25, 0.25, 0.25},
	{0.3, 0.3, 0.2, 0.2},
	{0.1, 0.2, 0.3, 0.4},
	{0.4, 0.3, 0.2, 0.1},
	{0.1, 0.4, 0.4, 0.1},
	{0.7, 0.1, 0.1, 0.1},
	{0.1, 0.1, 0.1, 0.7},
}

// c18ProtPis returns the named user frequency vectors for a tier ("" = model frequencies).
func c18ProtPis(thorough bool) (tags []string, pis [][]float64) {
	add := func(tag string, pi []float64) { tags = append(tags, tag); pis = append(pis, pi) }
	add("", nil)
	u := make([]float64, 20)
	for i := range u {
		u[i] = 0.05
	}
	add("uniform", u)
	dom := func(k int) []float64 {
		p := make([]float64, 20)
		for i := range p {
			p[i] = 0.025
		}
		p[k] = 0.525
		return p
	}
	add("dominant0", dom(0))
	ramp := make([]float64, 20)
	for i := range ramp {
		ramp[i] = float64(i+1) / 210
	}
	add("ramp", ramp)
	// one amino acid nearly absent (2e-4: a valid frequency, below any floor a model might be tempted to apply)
	rare := make([]float64, 20)
	for i := range rare {
		rare[i] = (1 - 2e-4) / 19
	}
	rare[17] = 2e-4
	add("rare-W", rare)
	if thorough {
		for k := 1; k < 20; k++ {
			add(fmt.Sprintf("dominant%d", k), dom(k))
		}
		rr := make([]float64, 20)
		alt := make([]float64, 20)
		for i := range rr {
			rr[i] = float64(20-i) / 210
			alt[i] = 0.08
			if i%2 == 1 {
				alt[i] = 0.02
			}
		}
		add("reverse-ramp", rr)
		add("alternating", alt)
	}
	return
}

func c18Tasks(tier string) []mc.Task {
	thorough := tier == "thorough"
	T := c18TQuick
	den := 10
	chunk := 30
	kappas := c18Kappas
	if thorough {
		T, den, chunk, kappas = c18TThorough, 20, 120, c18KappasTh
	}
	pis := c18Simplex(den)
	var ts []mc.Task
	var pending []c18Case
	var class string
	flush := func() {
		for len(pending) > 0 {
			n := min(chunk, len(pending))
			part := pending[:n]
			pending = pending[n:]
			ts = append(ts, mc.Task{Name: fmt.Sprintf("%s#%d", class, len(ts)), Run: func(c *mc.Ctx) {
				for _, cs := range part {
					if c.Expired() {
						return
					}
					c18Check(c, cs)
				}
			}})
		}
	}
	start := func(cl string) { flush(); class = cl }

	// closed-form models
	start("jc-k2p")
	pending = append(pending, c18Case{Model: "jc", T: T})
	for _, k := range kappas {
		pending = append(pending, c18Case{Model: "k2p", Par: []float64{k}, T: T})
	}
	// protein models: one task per instance (20x20 matrices)
	tags, ppis := c18ProtPis(thorough)
	for i := range tags {
		for _, name := range c18ProtNames {
			start("protein")
			pending = append(pending, c18Case{Model: name, Pi: ppis[i], PiTag: tags[i], T: T})
		}
	}
	start("f81")
	for _, pi := range pis {
		pending = append(pending, c18Case{Model: "f81", Pi: pi, T: T})
	}
	start("f84")
	for _, pi := range pis {
		for _, k := range kappas {
			pending = append(pending, c18Case{Model: "f84", Par: []float64{k}, Pi: pi, T: T})
		}
	}
	start("tn93")
	for _, pi := range pis {
		for _, k1 := range kappas {
			for _, k2 := range kappas {
				pending = append(pending, c18Case{Model: "tn93", Par: []float64{k1, k2}, Pi: pi, T: T})
			}
		}
	}
	start("gtr")
	gpis := c18GTRPis
	if thorough {
		gpis = c18Simplex(10)
	}
	for _, pi := range gpis {
		r := c18GTRRates
		if thorough {
			for _, q := range c18GTRPis { // the 7 quick-tier vectors get the finer rate lattice
				if q[0] == pi[0] && q[1] == pi[1] && q[2] == pi[2] && q[3] == pi[3] {
					r = c18GTRRates4
				}
			}
		}
		total := 1
		for d := 0; d < 6; d++ {
			total *= len(r)
		}
		for i := 0; i < total; i++ {
			par := make([]float64, 6)
			for d, x := 0, i; d < 6; d, x = d+1, x/len(r) {
				par[5-d] = r[x%len(r)]
			}
			pending = append(pending, c18Case{Model: "gtr", Par: par, Pi: pi, T: T})
		}
	}
	// re-initialised model objects: a model that has served once with other parameters, then re-initialised
	start("reinit")
	sk := []float64{0.5, 2, 10}
	for _, k := range sk {
		pending = append(pending, c18Case{Model: "k2p", Par: []float64{k}, T: T, Reinit: true})
	}
	for pi, piv := range pis {
		if pi%6 != 0 {
			continue
		}
		pending = append(pending, c18Case{Model: "f81", Pi: piv, T: T, Reinit: true})
		for _, k := range sk {
			pending = append(pending, c18Case{Model: "f84", Par: []float64{k}, Pi: piv, T: T, Reinit: true})
			pending = append(pending, c18Case{Model: "tn93", Par: []float64{k, 1 / k}, Pi: piv, T: T, Reinit: true})
		}
		pending = append(pending, c18Case{Model: "gtr", Par: []float64{0.2, 1, 3, 1, 0.2, 3}, Pi: piv, T: T, Reinit: true})
	}
	// models used as their constructors return them (documented defaults)
	pending = append(pending, c18Case{Model: "k2p", Par: []float64{1}, T: T, Default: true})
	pending = append(pending, c18Case{Model: "f84", Par: []float64{1}, Pi: []float64{0.25, 0.25, 0.25, 0.25}, T: T, Default: true})
	for _, name := range c18ProtNames {
		// with the model's own frequencies (nil vector) after other objects served and a vector was refused
		start("reinit")
		pending = append(pending, c18Case{Model: name, T: T, Reinit: true})
		for i := range tags {
			if ppis[i] != nil {
				start("reinit")
				pending = append(pending, c18Case{Model: name, Pi: ppis[i], PiTag: tags[i], T: T, Reinit: true})
				break
			}
		}
	}
	// another number of processors (every number of rows per worker that 20 and 4 states allow)
	for _, procs := range []int{1, 2, 3, 6, 7, 8, 9, 16, 19, 24} {
		for _, name := range []string{"lg", "dayhoff"} {
			start("procs")
			pending = append(pending, c18Case{Model: name, T: T, Procs: procs})
		}
		start("procs")
		pending = append(pending, c18Case{Model: "gtr", Par: []float64{0.2, 1, 3, 1, 0.2, 3}, Pi: []float64{0.4, 0.1, 0.3, 0.2}, T: T, Procs: procs})
		pending = append(pending, c18Case{Model: "k2p", Par: []float64{2}, T: T, Procs: procs})
	}
	flush()
	ts = append(ts, mc.Task{Name: "protein-tables", Run: c18CheckTables})
	ts = append(ts, c18MLTask())
	return ts
}

// c18CheckTables: the seven empirical models are data.  The exchangeabilities and frequencies that
// goalign's data functions deliver are compared, entry by entry (relative 1e-6), with the frozen copy
// in c18_tables.go; entries above the diagonal with those below.
func c18CheckTables(c *mc.Ctx) {
	for _, name := range c18ProtNames {
		c.Eval()
		ref := strings.Fields(c18FrozenTables[name])
		if len(ref) != 210 {
			c.Fatal("frozen table of %s has %d entries", name, len(ref))
			return
		}
		var ex c18M
		var pi []float64
		if pn, msg := mc.Guard(func() { ex, pi = c18ProtData(name) }); pn {
			c.Violation("C18/"+name+"/tables/panic", msg, c18Case{Model: name})
			continue
		}
		bad := func(what string, got, want float64) {
			c.Violation("C18/"+name+"/tables/entry-differs-from-reference", fmt.Sprintf("%s of %s is %.10g, the reference table has %.10g", what, name, got, want), c18Case{Model: name, Tables: true})
		}
		k := 0
		same := func(got, want float64) bool { return math.Abs(got-want) <= 1e-6*math.Max(math.Abs(want), 1e-12) }
	scan:
		for i := 1; i < 20; i++ {
			for j := 0; j < i; j++ {
				want, _ := strconv.ParseFloat(ref[k], 64)
				k++
				for _, got := range []float64{ex.a[i*20+j], ex.a[j*20+i]} {
					if !same(got, want) {
						bad(fmt.Sprintf("exchangeability %c<->%c", c17AAs[i], c17AAs[j]), got, want)
						break scan
					}
				}
			}
		}
		if len(pi) != 20 {
			bad("number of frequencies", float64(len(pi)), 20)
			continue
		}
		for i := 0; i < 20; i++ {
			want, _ := strconv.ParseFloat(ref[190+i], 64)
			if !same(pi[i], want) {
				bad(fmt.Sprintf("frequency of %c", c17AAs[i]), pi[i], want)
				break
			}
		}
		c.Outcome("tables:" + name + ":checked")
		c.Nontrivial("tables|" + name)
	}
}

// ---------------------------------------------------------------------------
// the textbook generator

func c18IsProt(model string) int {
	for i, n := range c18ProtNames {
		if n == model {
			return i
		}
	}
	return -1
}

func c18ProtData(model string) (s c18M, pi []float64) {
	type dense interface{ At(i, j int) float64 }
	var d dense
	switch model {
	case "dayhoff":
		d, pi = protein.DayoffMats()
	case "jtt":
		d, pi = protein.JTTMats()
	case "mtrev":
		d, pi = protein.MtREVMats()
	case "lg":
		d, pi = protein.LGMats()
	case "wag":
		d, pi = protein.WAGMats()
	case "hivb":
		d, pi = protein.HIVBMats()
	case "ab":
		d, pi = protein.ABMats()
	}
	s = c18New(20)
	for i := 0; i < 20; i++ {
		for j := 0; j < 20; j++ {
			s.a[i*20+j] = d.At(i, j)
		}
	}
	return s, append([]float64{}, pi...)
}

// c18Oracle is everything the oracle knows about one model instance.
type c18Oracle struct {
	n       int
	pi      []float64 // frequencies as given (parameters)
	stat    []float64 // the stationary distribution pi / sum(pi)
	q       c18M      // generator with exactly one expected substitution per unit time under stat
	qLit    *c18M     // generator scaled by -sum_i pi_i Q_ii = 1 with pi as published, when that differs (sum(pi) != 1)
	piSum   float64
	spec    *c18Spec
	lambda2 float64
	// repeated: two eigenvalues of Q coincide (relative gap < 1e-9), e.g. every F81 instance, TN93 with kappa1 = kappa2 = 1
	repeated bool
}

// c18Textbook builds the oracle; problem != "" means the case is not a valid
// model instance (harness error, never a violation).
func c18Textbook(cs c18Case) (o *c18Oracle, problem string) {
	n := 4
	var ex c18M // symmetric exchangeabilities r_ij, Q_ij = r_ij * pi_j
	var pi []float64
	need := func(np int) bool {
		if len(cs.Par) != np {
			problem = fmt.Sprintf("model %s needs %d parameters", cs.Model, np)
			return false
		}
		for _, p := range cs.Par {
			if !(p > 0) || math.IsInf(p, 0) {
				problem = "rate parameters must be positive and finite"
				return false
			}
		}
		return true
	}
	uniform4 := []float64{0.25, 0.25, 0.25, 0.25}
	// states A C G T = 0 1 2 3; transitions are A<->G and C<->T
	sym := func(ac, ag, at, cg, ct, gt float64) c18M {
		m := c18New(4)
		set := func(i, j int, v float64) { m.a[i*4+j], m.a[j*4+i] = v, v }
		set(0, 1, ac)
		set(0, 2, ag)
		set(0, 3, at)
		set(1, 2, cg)
		set(1, 3, ct)
		set(2, 3, gt)
		return m
	}
	switch cs.Model {
	case "jc":
		if !need(0) {
			return
		}
		pi, ex = uniform4, sym(1, 1, 1, 1, 1, 1)
	case "k2p":
		if !need(1) {
			return
		}
		k := cs.Par[0]
		pi, ex = uniform4, sym(1, k, 1, 1, k, 1)
	case "f81":
		if !need(0) {
			return
		}
		pi, ex = cs.Pi, sym(1, 1, 1, 1, 1, 1)
	case "f84":
		if !need(1) || len(cs.Pi) != 4 {
			problem = "f84 needs kappa and 4 frequencies"
			return
		}
		k := cs.Par[0]
		piR, piY := cs.Pi[0]+cs.Pi[2], cs.Pi[1]+cs.Pi[3]
		pi, ex = cs.Pi, sym(1, 1+k/piR, 1, 1, 1+k/piY, 1)
	case "tn93":
		if !need(2) {
			return
		}
		pi, ex = cs.Pi, sym(1, cs.Par[0], 1, 1, cs.Par[1], 1)
	case "gtr":
		if !need(6) {
			return
		}
		// goalign: InitModel(d, f, b, e, a, c, ...) with d=AC f=AG b=AT e=CG a=CT c=GT
		pi, ex = cs.Pi, sym(cs.Par[0], cs.Par[1], cs.Par[2], cs.Par[3], cs.Par[4], cs.Par[5])
	default:
		if c18IsProt(cs.Model) < 0 {
			return nil, "unknown model " + cs.Model
		}
		if !need(0) {
			return
		}
		n = 20
		var mpi []float64
		ex, mpi = c18ProtData(cs.Model)
		for i := 0; i < 20; i++ {
			ex.a[i*20+i] = 0 // a textbook exchangeability matrix has no diagonal
			for j := 0; j < 20; j++ {
				if ex.a[i*20+j] != ex.a[j*20+i] || !(ex.a[i*20+j] >= 0) {
					return nil, "data: exchangeability matrix is not symmetric non-negative"
				}
			}
		}
		if d := math.Abs(c18Sum(mpi) - 1); !(d <= 1e-5) {
			return nil, fmt.Sprintf("data: model frequencies sum to 1%+.3g", c18Sum(mpi)-1)
		}
		for _, p := range mpi {
			if !(p > 0) {
				return nil, "data: model frequency not positive"
			}
		}
		pi = cs.Pi
		if pi == nil {
			pi = mpi
		}
	}
	if len(pi) != n {
		return nil, fmt.Sprintf("model %s needs %d frequencies", cs.Model, n)
	}
	for _, p := range pi {
		if !(p > 0 && p < 1) {
			return nil, "frequencies must lie in the open simplex"
		}
	}
	o = &c18Oracle{n: n, pi: pi, piSum: c18Sum(pi)}
	if math.Abs(o.piSum-1) > 1e-5 {
		return nil, "frequencies do not sum to 1"
	}
	o.stat = make([]float64, n)
	for i := range pi {
		o.stat[i] = pi[i] / o.piSum
	}
	raw := c18New(n)
	rates := make([]float64, n)
	for i := 0; i < n; i++ {
		row := make([]float64, 0, n)
		for j := 0; j < n; j++ {
			if j != i {
				raw.a[i*n+j] = ex.a[i*n+j] * o.stat[j]
				row = append(row, raw.a[i*n+j])
			}
		}
		out := c18Sum(row)
		raw.a[i*n+i] = -out
		rates[i] = o.stat[i] * out
	}
	mu := c18Sum(rates) // expected substitutions per unit time of raw under its stationary distribution
	o.q = c18New(n)
	for i := range raw.a {
		o.q.a[i] = raw.a[i] / mu
	}
	if math.Abs(o.piSum-1) > 8*2.3e-16 {
		// -sum_i pi_i Q_ii with the published (unnormalised) pi equals piSum * mu
		lit := c18New(n)
		for i := range raw.a {
			lit.a[i] = raw.a[i] / (mu * o.piSum)
		}
		o.qLit = &lit
	}
	o.spec = c18Spectral(o.q, o.stat)
	o.lambda2 = o.spec.lambda[1]
	for i := 1; i+1 < n; i++ {
		if o.spec.lambda[i]-o.spec.lambda[i+1] < 1e-9*math.Abs(o.spec.lambda[n-1]) {
			o.repeated = true
		}
	}
	return o, ""
}

// ---------------------------------------------------------------------------
// tolerances (absolute, on probabilities).  Observed discrepancies on the
// unchanged tree are recorded per clause as decade histograms in the evidence
// (counters dev:<clause>:<family>:1e-XX); see the report for the margins.
const (
	c18TolRange = 1e-12 // entries in [0,1]
	c18TolRow   = 1e-9  // row sums
	c18TolId    = 1e-9  // P(0) = I
	c18TolExpm  = 1e-9  // P(t) = exp(Qt)
	c18TolSemi  = 1e-9  // P(s+t) = P(s)P(t)
	c18TolDB    = 1e-9  // pi_i P_ij = pi_j P_ji
	c18TolConv  = 1e-9  // |P_ij(t) - pi_j| <= sqrt(pi_j/pi_i) exp(lambda2 t) + tol
	c18TolAE    = 1e-9  // analytical vs eigen-based
	c18TolSelf  = 1e-11 // the two oracle evaluations of exp(Qt) against each other (harness self-check)
)

const c18SfxTMin = "/t-smallest-normal"

const c18SkipPiSum = "published model frequencies sum to 1+d, |d| <= 1e-5 (rounding of the published table): scaling by -sum_i pi_i Q_ii = 1 with the published pi gives 1/(1+d) substitutions per unit time under the exact stationary distribution pi/sum(pi); P(t) agrees with that reading and not with the exact one, both are accepted"

// ---------------------------------------------------------------------------
// the check

type c18Checker struct {
	c      *mc.Ctx
	cs     c18Case
	o      *c18Oracle
	m      models.Model
	label  string // model name used in signatures
	family string // analytic | dna-eigen | protein (histogram key)
	raised map[string]bool
	implC  map[float64]c18M
	oraC   map[float64]c18M
	litC   map[float64]c18M
	maxDev map[string]float64
	dead   bool    // a goalign call panicked or failed: stop examining the instance
	gap    float64 // largest |P - exp(Qt)| under the exact unit-rate scaling where only the published-pi scaling matched
	gapT   float64
}

func (k *c18Checker) desc() string {
	s := k.cs.Model
	if len(k.cs.Par) > 0 {
		s += fmt.Sprintf(" par=%v", k.cs.Par)
	}
	switch {
	case k.cs.PiTag != "":
		s += " pi=" + k.cs.PiTag
	case k.cs.Pi != nil:
		s += fmt.Sprintf(" pi=%v", k.cs.Pi)
	case k.o != nil && k.o.n == 20:
		s += " pi=model"
	}
	return s
}

// viol reports once per signature and instance; ts are the branch lengths needed to reproduce.
func (k *c18Checker) viol(clause, what string, ts ...float64) {
	sig := "C18/" + k.label + "/" + clause
	if k.o.repeated && !strings.HasSuffix(clause, c18SfxTMin) {
		sig += "/repeated-eigenvalue"
	}
	if k.raised[sig] {
		return
	}
	k.raised[sig] = true
	p := k.cs
	if len(ts) > 0 {
		p.T = ts
	}
	k.c.Violation(sig, fmt.Sprintf("%s: %s", k.desc(), what), p)
}

func (k *c18Checker) call(op string, ts []float64, f func()) bool {
	k.c.Count("goalign_calls", 1)
	if pn, msg := mc.Guard(f); pn {
		k.viol(op+"/panic/"+mc.PanicSite(msg), msg, ts...)
		k.dead = true
		return false
	}
	return true
}

// note keeps the largest deviation seen per clause for the evidence histogram.
func (k *c18Checker) note(clause string, d float64) {
	if d > k.maxDev[clause] {
		k.maxDev[clause] = d
	}
}

// c18Use makes a model serve once (its decomposition is computed and a P(t) evaluated).
func c18Use(m models.Model) {
	if p, err := models.NewPij(m, 0.3); err == nil {
		p.Pij(0, 1)
		p.SetLength(1.5)
		p.Pij(1, 0)
	}
}

// build constructs and initialises the goalign model.
func (k *c18Checker) build() bool {
	cs := k.cs
	var err error
	ok := k.call("init", nil, func() {
		switch cs.Model {
		case "jc":
			m := dna.NewJCModel()
			err = m.InitModel()
			k.m = m
		case "k2p":
			m := dna.NewK2PModel()
			if cs.Reinit {
				m.InitModel(0.3)
				c18Use(m)
			}
			if !cs.Default {
				m.InitModel(cs.Par[0])
			}
			k.m = m
		case "f81":
			m := dna.NewF81Model()
			if cs.Reinit {
				m.InitModel(.4, .1, .3, .2)
				c18Use(m)
			}
			err = m.InitModel(cs.Pi[0], cs.Pi[1], cs.Pi[2], cs.Pi[3])
			k.m = m
		case "f84":
			m := dna.NewF84Model()
			if cs.Reinit {
				m.InitModel(0.3, .4, .1, .3, .2)
				c18Use(m)
			}
			if !cs.Default {
				m.InitModel(cs.Par[0], cs.Pi[0], cs.Pi[1], cs.Pi[2], cs.Pi[3])
			}
			k.m = m
		case "tn93":
			m := dna.NewTN93Model()
			if cs.Reinit {
				m.InitModel(0.3, 0.7, .4, .1, .3, .2)
				c18Use(m)
			}
			err = m.InitModel(cs.Par[0], cs.Par[1], cs.Pi[0], cs.Pi[1], cs.Pi[2], cs.Pi[3])
			k.m = m
		case "gtr":
			m := dna.NewGTRModel()
			if cs.Reinit {
				m.InitModel(0.3, 0.7, 1.5, 0.4, 2, 1, .4, .1, .3, .2)
				c18Use(m)
			}
			err = m.InitModel(cs.Par[0], cs.Par[1], cs.Par[2], cs.Par[3], cs.Par[4], cs.Par[5], cs.Pi[0], cs.Pi[1], cs.Pi[2], cs.Pi[3])
			k.m = m
		default:
			var m *protein.ProtModel
			if m, err = protein.NewProtModel(c18IsProt(cs.Model), false, 0); err != nil {
				return
			}
			var user []float64
			if cs.Pi != nil {
				user = append([]float64{}, cs.Pi...)
			}
			if cs.Reinit {
				// note: goalign documents InitModel as callable once per ProtModel object for the rate
				// matrix (a second call multiplies by the frequencies again), so the protein re-use goes
				// through a fresh object and only checks that earlier use of ANOTHER object does not leak
				if m0, e0 := protein.NewProtModel(c18IsProt(cs.Model), false, 0); e0 == nil {
					if m0.InitModel(nil) == nil {
						c18Use(m0)
					}
				}
			}
			if cs.Reinit {
				// a refused frequency vector (21 entries) leaves nothing behind
				bad := make([]float64, 21)
				for i := range bad {
					bad[i] = 1.0 / 21
				}
				if m.InitModel(bad) == nil {
					err = fmt.Errorf("a frequency vector of 21 entries was accepted")
					return
				}
			}
			if err = m.InitModel(user); err != nil {
				return
			}
			// the frequencies the model reports must be the ones in force (as given, or normalised to sum 1)
			want := k.o.pi
			for i := 0; i < 20; i++ {
				if got := m.Pi(i); math.Abs(got-want[i]) > 1e-12 && math.Abs(got-k.o.stat[i]) > 1e-12 {
					k.viol("pi", fmt.Sprintf("ProtModel.Pi(%d)=%v, frequencies in force are %v", i, got, want[i]))
					break
				}
			}
			k.m = m
		}
	})
	if !ok {
		return false
	}
	if err != nil {
		k.viol("init/error", "valid parameters refused: "+err.Error())
		return false
	}
	if k.m.NState() != k.o.n {
		k.viol("init/nstate", fmt.Sprintf("NState()=%d want %d", k.m.NState(), k.o.n))
		return false
	}
	return true
}

func (k *c18Checker) read(p *models.Pij) c18M {
	n := k.o.n
	out := c18New(n)
	for i := 0; i < n; i++ {
		for j := 0; j < n; j++ {
			out.a[i*n+j] = p.Pij(i, j)
		}
	}
	return out
}

// impl returns goalign's P(t) from a fresh Pij object (cached per instance).
func (k *c18Checker) impl(t float64) (c18M, bool) {
	if m, ok := k.implC[t]; ok {
		return m, true
	}
	var out c18M
	var err error
	if !k.call("pij", []float64{t}, func() {
		var p *models.Pij
		if p, err = models.NewPij(k.m, t); err == nil {
			out = k.read(p)
		}
	}) {
		return out, false
	}
	if err != nil {
		k.viol("pij/error", fmt.Sprintf("NewPij(t=%v): %v", t, err), t)
		k.dead = true
		return out, false
	}
	k.c.Eval()
	k.implC[t] = out
	return out, true
}

// oracle returns exp(Q t) (cached), after checking the two oracle routes against each other.
func (k *c18Checker) oracle(t float64) c18M {
	if m, ok := k.oraC[t]; ok {
		return m
	}
	m := c18Expm(k.o.q, t)
	if d, i, j := c18Dev(m, k.o.spec.p(t)); !(d <= c18TolSelf) {
		k.c.Fatal("oracle self-check: scaling-and-squaring and Jacobi spectral exp(Qt) differ by %g at (%d,%d), %s t=%v", d, i, j, k.desc(), t)
	} else {
		k.note("oracle-self", d)
	}
	k.oraC[t] = m
	return m
}

func (k *c18Checker) oracleLit(t float64) c18M {
	if m, ok := k.litC[t]; ok {
		return m
	}
	m := c18Expm(*k.o.qLit, t)
	k.litC[t] = m
	return m
}

// judgeExpm compares a goalign matrix with exp(Qt).
func (k *c18Checker) judgeExpm(clause string, p c18M, t float64, ts ...float64) bool {
	want := k.oracle(t)
	d, i, j := c18Dev(p, want)
	if k.o.qLit != nil {
		// published frequencies that do not sum to 1: the other reading of the scaling is accepted too
		dl, _, _ := c18Dev(p, k.oracleLit(t))
		if dl <= c18TolExpm && !(d <= c18TolExpm) {
			k.c.Skip(c18SkipPiSum)
		}
		if dl <= c18TolExpm {
			if d > k.gap {
				k.gap, k.gapT = d, t
			}
			d = math.Min(d, dl)
		}
	}
	if d <= c18TolExpm {
		k.note(clause, d)
		return true
	}
	k.viol(clause, fmt.Sprintf("t=%v: P[%d][%d]=%.17g but exp(Qt)[%d][%d]=%.17g (|diff|=%.3g) for the textbook Q scaled to one substitution per unit time", t, i, j, p.at(i, j), i, j, want.at(i, j), d), ts...)
	return false
}

// single examines one matrix P(t) of goalign against every one-matrix clause.
// sfx distinguishes the boundary class t = smallest normal double.
func (k *c18Checker) single(p c18M, t float64, sfx string, ts ...float64) {
	n := k.o.n
	st := k.o.stat
	firstOnly := sfx != ""
	failed := false
	fail := func(clause, what string) {
		if firstOnly && failed {
			return
		}
		failed = true
		k.viol(clause+sfx, fmt.Sprintf("t=%v: %s", t, what), ts...)
	}
	// entries in [0,1]
	worst := 0.0
	for i := 0; i < n; i++ {
		for j := 0; j < n; j++ {
			v := p.at(i, j)
			out := math.Max(-v, v-1)
			if v != v {
				out = math.Inf(1)
			}
			if out > 0 {
				k.c.Count("entries_outside_[0,1]_by_rounding_or_more", 1)
			}
			if out > worst {
				worst = out
				if out > c18TolRange {
					fail("stochastic/range", fmt.Sprintf("P[%d][%d]=%.17g is outside [0,1]", i, j, v))
				}
			}
		}
	}
	k.note("range", worst)
	// rows sum to 1
	for i := 0; i < n; i++ {
		s := c18Sum(p.a[i*n : (i+1)*n])
		d := math.Abs(s - 1)
		if d != d {
			d = math.Inf(1)
		}
		k.note("row-sum", d)
		if !(d <= c18TolRow) {
			fail("stochastic/row-sum", fmt.Sprintf("row %d sums to %.17g", i, s))
			break
		}
	}
	// P(0) = I
	if t == 0 {
		d, i, j := c18Dev(p, c18Eye(n))
		k.note("P0", d)
		if !(d <= c18TolId) {
			fail("P0-identity", fmt.Sprintf("P(0)[%d][%d]=%.17g", i, j, p.at(i, j)))
		}
	}
	// P(t) = exp(Qt)
	if !(firstOnly && failed) {
		if !k.judgeExpm("expm"+sfx, p, t, ts...) {
			failed = true
		}
	}
	// detailed balance
	wd, wi, wj := 0.0, 0, 0
	for i := 0; i < n; i++ {
		for j := i + 1; j < n; j++ {
			d := math.Abs(st[i]*p.at(i, j) - st[j]*p.at(j, i))
			if d != d {
				d = math.Inf(1)
			}
			if d > wd {
				wd, wi, wj = d, i, j
			}
		}
	}
	k.note("detailed-balance", wd)
	if !(wd <= c18TolDB) {
		fail("detailed-balance", fmt.Sprintf("pi[%d]P[%d][%d]=%.17g but pi[%d]P[%d][%d]=%.17g", wi, wi, wj, st[wi]*p.at(wi, wj), wj, wj, wi, st[wj]*p.at(wj, wi)))
	}
	// convergence: for a reversible chain |P_ij(t) - pi_j| <= sqrt(pi_j/pi_i) exp(lambda2 t)
	decay := math.Exp(k.o.lambda2 * t)
	far := 0.0
	for i := 0; i < n && !(firstOnly && failed); i++ {
		for j := 0; j < n; j++ {
			d := math.Abs(p.at(i, j) - st[j])
			if d != d {
				d = math.Inf(1)
			}
			far = math.Max(far, d)
			bound := math.Sqrt(st[j]/st[i])*decay + c18TolConv
			if !(d <= bound) {
				fail("convergence", fmt.Sprintf("|P[%d][%d]-pi[%d]|=%.3g exceeds the bound %.3g given by the second eigenvalue %.6g of Q", i, j, j, d, bound, k.o.lambda2))
				i = n
				break
			}
		}
	}
	if decay < 1e-12 {
		k.note("converged-distance", far)
	}
	// coarse outcome class
	off := 0.0
	for i := 0; i < n; i++ {
		for j := 0; j < n; j++ {
			if i != j {
				off = math.Max(off, p.at(i, j))
			}
		}
	}
	regime := "mixing"
	switch {
	case failed:
		regime = "violating"
	case off <= 1e-12:
		regime = "identity"
	case off < 1e-3:
		regime = "near-identity"
	case far < 1e-9:
		regime = "stationary"
	}
	k.c.Outcome(k.label + ":" + regime)
}

// eigenP assembles R exp(Dt) L from the model's Eigens().
func (k *c18Checker) eigenP(t float64) (c18M, bool) {
	n := k.o.n
	out := c18New(n)
	var err error
	bad := ""
	if !k.call("eigens", []float64{t}, func() {
		val, left, right, e := k.m.Eigens()
		if err = e; err != nil {
			return
		}
		if len(val) != n || left == nil || right == nil {
			bad = "Eigens() returned incomplete results"
			return
		}
		if r, c := left.Dims(); r != n || c != n {
			bad = "left eigenvector matrix has the wrong shape"
			return
		}
		if r, c := right.Dims(); r != n || c != n {
			bad = "right eigenvector matrix has the wrong shape"
			return
		}
		for i := 0; i < n; i++ {
			for j := 0; j < n; j++ {
				s := 0.0
				for x := 0; x < n; x++ {
					s += right.At(i, x) * math.Exp(val[x]*t) * left.At(x, j)
				}
				out.a[i*n+j] = s
			}
		}
	}) {
		return out, false
	}
	if err != nil {
		k.viol("eigens/error", err.Error(), t)
		return out, false
	}
	if bad != "" {
		k.viol("eigens/shape", bad, t)
		return out, false
	}
	return out, true
}

func c18Check(c *mc.Ctx, cs c18Case) {
	if cs.Procs > 0 {
		defer runtime.GOMAXPROCS(runtime.GOMAXPROCS(cs.Procs))
	}
	o, problem := c18Textbook(cs)
	if strings.HasPrefix(problem, "data: ") {
		// the model's own published constants cannot define a reversible rate matrix
		c.Eval()
		c.Violation("C18/protein-"+cs.Model+"/data", cs.Model+": "+problem[6:], cs)
		return
	}
	if problem != "" {
		c.Fatal("invalid case %s: %s", jsonStr(cs), problem)
		return
	}
	if len(cs.T) == 0 {
		c.Fatal("case without branch lengths: %s", jsonStr(cs))
		return
	}
	label := cs.Model
	if cs.Reinit {
		label += "+reinitialised"
	}
	if cs.Default {
		label += "+default-constructed"
	}
	k := &c18Checker{c: c, cs: cs, o: o, label: label, family: "dna-eigen",
		raised: map[string]bool{}, implC: map[float64]c18M{}, oraC: map[float64]c18M{}, litC: map[float64]c18M{}, maxDev: map[string]float64{}}
	if o.n == 20 {
		k.label, k.family = "protein-"+label, "protein"
		if cs.Pi == nil {
			c.Flag("protein-model-frequencies")
		} else {
			c.Flag("protein-user-frequencies")
		}
	}
	c.Mark(cs)
	if !k.build() {
		c.Outcome(k.label + ":init-failed")
		return
	}
	if k.m.Analytical() {
		k.family = "analytic"
		c.Flag("analytical-path")
	} else {
		c.Flag("eigen-path")
	}

	var ts []float64 // ordinary branch lengths (the boundary value c18TMin is a class of its own)
	for _, t := range cs.T {
		if !(t >= 0) || math.IsInf(t, 0) {
			c.Fatal("invalid branch length in %s", jsonStr(cs))
			return
		}
		if t != c18TMin {
			ts = append(ts, t)
		}
	}

	// (1) every branch length alone
	for _, t := range cs.T {
		if k.dead {
			break
		}
		p, ok := k.impl(t)
		if !ok {
			continue
		}
		if t == c18TMin {
			if len(k.raised) > 0 {
				// the instance already violates at ordinary branch lengths: the boundary class would only repeat that
				c.Count("t-smallest-normal_not_examined_instance_already_violating", 1)
				continue
			}
			k.single(p, t, c18SfxTMin, t)
		} else {
			k.single(p, t, "", t)
		}
	}

	// (2) Chapman-Kolmogorov for every ordered pair, and every clause again at s+t
	seenSum := map[float64]bool{}
	for _, t := range ts {
		seenSum[t] = true
	}
	for _, s := range ts {
		for _, t := range ts {
			if k.dead {
				break
			}
			ps, ok1 := k.impl(s)
			pt, ok2 := k.impl(t)
			u := s + t
			pu, ok3 := k.impl(u)
			if !ok1 || !ok2 || !ok3 {
				continue
			}
			if !seenSum[u] {
				seenSum[u] = true
				k.single(pu, u, "", u)
			}
			d, i, j := c18Dev(pu, c18Mul(ps, pt))
			k.note("semigroup", d)
			if !(d <= c18TolSemi) {
				k.viol("semigroup", fmt.Sprintf("s=%v t=%v: P(s+t)[%d][%d]=%.17g but (P(s)P(t))[%d][%d]=%.17g", s, t, i, j, pu.at(i, j), i, j, c18Mul(ps, pt).at(i, j)), s, t)
			}
		}
	}

	// (3) one Pij object re-used through SetLength: ts in order, then back to the first
	if len(ts) > 0 && !k.dead {
		var w *models.Pij
		var err error
		// … then t, 0, the same t again, the same t twice, another one twice: a cached length must follow the matrix
		walk := append(append([]float64{}, ts...), ts[0], 0.5, 0, 0.5, 0.5, 2, 2, 0, 0)
		for step, t := range walk {
			var p c18M
			hist := walk[:step+1]
			if !k.call("setlength", hist, func() {
				if step == 0 {
					w, err = models.NewPij(k.m, t)
				} else {
					err = w.SetLength(t)
				}
				if err == nil {
					p = k.read(w)
				}
			}) {
				break
			}
			if err != nil {
				k.viol("setlength/error", fmt.Sprintf("SetLength(%v): %v", t, err), hist...)
				break
			}
			c.Eval()
			if !k.judgeExpm("setlength/expm", p, t, hist...) {
				break
			}
		}
	}

	// (3') lengths set without reading the matrix in between (a lazily computed product must follow the LAST length):
	// NewPij(a) SetLength(a) read; SetLength(b) SetLength(b) read; SetLength(a) SetLength(b) SetLength(a) read
	if len(ts) > 1 && !k.dead {
		a, b := ts[len(ts)/2], ts[len(ts)-1]
		if a == b {
			b = ts[0]
		}
		var w *models.Pij
		var err error
		for _, plan := range [][]float64{{a, a}, {b, b}, {a, b, a}} {
			var p c18M
			t := plan[len(plan)-1]
			hist := append([]float64{}, plan...) // the lengths set one after the other, the matrix read only after the last
			if !k.call("setlength-unread", hist, func() {
				for _, x := range plan {
					if w == nil {
						w, err = models.NewPij(k.m, x)
					} else {
						err = w.SetLength(x)
					}
					if err != nil {
						return
					}
				}
				p = k.read(w)
			}) {
				break
			}
			if err != nil {
				k.viol("setlength/error", fmt.Sprintf("SetLength: %v", err), hist...)
				break
			}
			c.Eval()
			if !k.judgeExpm("setlength-unread/expm", p, t, hist...) {
				break
			}
		}
	}

	// (4) closed-form models: analytical formula against the eigen-system the model publishes
	if k.m.Analytical() && !k.dead {
		for _, t := range ts {
			e, ok := k.eigenP(t)
			if !ok {
				break
			}
			c.Eval()
			k.judgeExpm("eigens/expm", e, t, t)
			a, ok := k.impl(t)
			if !ok {
				break
			}
			d, i, j := c18Dev(a, e)
			k.note("analytical-vs-eigen", d)
			if !(d <= c18TolAE) {
				k.viol("analytical-vs-eigen", fmt.Sprintf("t=%v: analytical P[%d][%d]=%.17g, R exp(Dt) L from Eigens() gives %.17g", t, i, j, a.at(i, j), e.at(i, j)), t)
			}
			// the exported formula and the Pij object must be the same function
			var direct float64
			if k.call("model.Pij", []float64{t}, func() { direct = k.m.Pij(i, j, t) }) && direct != a.at(i, j) {
				k.viol("analytical-vs-pij-object", fmt.Sprintf("t=%v: Model.Pij(%d,%d,t)=%.17g, NewPij(model,t).Pij(%d,%d)=%.17g", t, i, j, direct, i, j, a.at(i, j)), t)
			}
		}
	}

	// bookkeeping
	trivial := true
	for _, p := range cs.Par {
		trivial = trivial && p == 1
	}
	for _, p := range o.pi {
		trivial = trivial && p == o.pi[0]
	}
	if o.n == 20 {
		trivial = false
	}
	if !trivial {
		c.Nontrivial(fmt.Sprintf("%s|%v|%v|%s", cs.Model, cs.Par, cs.Pi, cs.PiTag))
	}
	for clause, d := range k.maxDev {
		dec := "0"
		if d > 0 {
			dec = fmt.Sprintf("1e%+03d", int(math.Ceil(math.Log10(d))))
		}
		c.Count("dev:"+clause+":"+k.family+":<="+dec, 1)
	}
	c.Count("instances:"+k.label, 1)
	if o.qLit != nil {
		c.Note(fmt.Sprintf("%s: published frequencies sum to 1%+.3g; goalign's P(t) equals exp(Qt) for -sum pi_i Q_ii = 1 with the published pi; against exactly one substitution per unit time under pi/sum(pi) the largest difference is %.3g (t=%v)", k.desc(), o.piSum-1, k.gap, k.gapT))
	}
	if len(k.raised) == 0 && (cs.Model == "gtr" || o.n == 20) && len(cs.Par)+len(cs.PiTag) > 0 {
		c.Sample(map[string]any{"case": cs, "lambda2": o.lambda2, "P(0.1) row 0": k.implC[0.1].a[:min(len(k.implC[0.1].a), o.n)]})
	}
}

func init() {
	mc.Register(&mc.Prop{
		ID:    "C18",
		Level: "exploration",
		Rule: "(the data of the seven protein models - 190 exchangeabilities and 20 frequencies each - are compared entry by entry with a frozen reference copy;) bounded-exhaustive enumeration of a parameter lattice, every instance run through the real model code. Instances: JC; K2P kappa in K = {0.1,0.5,1,2,4,10} (thorough: K = {0.1,0.25,0.5,1,2,4,10,25}); " +
			"F81 with pi = uniform and every strictly positive point of the simplex lattice of step 0.1 (84 points; thorough: step 0.05, 968 points); F84 = those pi x K; TN93 = those pi x K x K; " +
			"GTR = six exchangeabilities in {0.2,1,3}^6 x 7 pi (uniform, .3/.3/.2/.2, .1/.2/.3/.4, .4/.3/.2/.1, .1/.4/.4/.1, .7/.1/.1/.1, .1/.1/.1/.7; thorough: {0.2,1,3}^6 x uniform and all 84 step-0.1 points, and {0.2,0.5,1,3}^6 for those of them that are among the 7); " +
			"7 protein matrices (dayhoff jtt mtrev lg wag hivb ab) x {model frequencies, uniform, one state at 0.525 and the others at 0.025, ramp (k+1)/210; thorough: the dominant state at each of the 20 positions, reverse ramp, alternating 0.08/0.02}. " +
			"Branch lengths T = {0,1e-8,1e-4,0.01,0.1,0.5,1,2,5,20,100} (thorough adds 1e-6,1e-3,0.05,0.2,10,50) and the smallest positive normal double 2.2250738585072014e-308. " +
			"For every t in T and every sum s+t of two ordinary members: P(t) from models.NewPij(model,t).Pij(i,j) must have entries in [0,1] (1e-12), rows summing to 1 (1e-9), P(0)=I (1e-9), " +
			"equal exp(Qt) (1e-9) for the textbook Q = (r_ij pi_j) built by the harness and scaled to one substitution per unit time, exponentiated by Taylor+scaling-and-squaring (self-checked to 1e-11 against a Jacobi spectral evaluation), " +
			"satisfy pi_i P_ij = pi_j P_ji (1e-9) and |P_ij(t)-pi_j| <= sqrt(pi_j/pi_i) exp(lambda2 t) + 1e-9 with lambda2 the second eigenvalue of Q; for every ordered pair (s,t) of ordinary members P(s+t) = P(s)P(t) (1e-9); " +
			"one Pij object re-used through SetLength over T in order, back to T[0], then 0.5, 0, 0.5, 0.5, 2, 2, 0, 0 must give exp(Qt) each time; for JC and K2P, R exp(Dt) L assembled from Eigens() must equal exp(Qt) and the analytical Pij (1e-9). " +
			"An evaluation is one transition matrix obtained from goalign and judged. An instance is non-trivial when it is not the JC-equivalent point (some rate != 1 or non-uniform pi, every protein instance); distinct = distinct parameter vector.",
		Assumptions: []string{
			"states are ordered A,C,G,T (the order of the InitModel frequency arguments); transitions are A<->G and C<->T",
			"F84: Q_ij = pi_j (1+kappa/pi_R) for A<->G, pi_j (1+kappa/pi_Y) for C<->T, pi_j for transversions (Felsenstein's F84 as in the matrix written in models/dna/f84.go and in Bio++, which the source cites)",
			"TN93: kappa1 multiplies the purine transitions A<->G, kappa2 the pyrimidine transitions C<->T (convention of the Wikipedia page the source cites)",
			"GTR: InitModel(d,f,b,e,a,c,...) are the exchangeabilities AC,AG,AT,CG,CT,GT as drawn in the comment of models/dna/gtr.go",
			"protein exchangeabilities and model frequencies are read from goalign's data functions (DayoffMats ... ABMats) as parameters; they are checked for symmetry, sign and empty diagonal, and entry by entry (relative 1e-6) against a frozen copy of the tables of the pinned tree (c18_tables.go) - the publications are not available offline, so the pinned tables are taken to be the published ones (spot checks from memory of dayhoff.dat, jones.dat, lg.dat, wag.dat agree)",
			"where published protein frequencies sum to 1+d, |d|<=1e-5 (20 entries rounded to 6 decimals), both scalings (exact unit rate under pi/sum(pi); -sum pi_i Q_ii = 1 with the published pi) are accepted and the case is counted as skipped_ambiguous; stationary frequencies are pi/sum(pi)",
		},
		Tasks: c18Tasks,
		Replay: func(c *mc.Ctx, payload json.RawMessage) {
			if c18MLReplay(c, payload) {
				return
			}
			var cs c18Case
			if err := json.Unmarshal(payload, &cs); err != nil {
				c.Fatal("bad payload: %v", err)
				return
			}
			if cs.Tables {
				c18CheckTables(c)
				return
			}
			c18Check(c, cs)
		},
		// free-running complement: goroutines that each own their model objects (see harness/racepass)
		Post: func(m *mc.Master) { m.RacePass("models"); m.RacePass("first/model-") },
		Vacuity: func(tier string, t *mc.Totals) error {
			if t.Evaluations < 300000 {
				return fmt.Errorf("only %d transition matrices evaluated", t.Evaluations)
			}
			for _, f := range []string{"analytical-path", "eigen-path", "protein-model-frequencies", "protein-user-frequencies"} {
				if !t.Flags[f] {
					return fmt.Errorf("%s never exercised", f)
				}
			}
			labels := []string{"jc", "k2p", "f81", "f84", "tn93", "gtr"}
			for _, n := range c18ProtNames {
				labels = append(labels, "protein-"+n)
			}
			for _, l := range labels {
				if t.Extra["instances:"+l] == 0 {
					return fmt.Errorf("model %s never instantiated", l)
				}
				n := 0
				for o := range t.OutcomeSet {
					if strings.HasPrefix(o, l+":") {
						n++
					}
				}
				if n < 3 {
					return fmt.Errorf("model %s reached only %d regimes of P(t) (identity / near-identity / mixing / stationary)", l, n)
				}
			}
			return nil
		},
	})
}
