package props

import (
	"encoding/json"
	"fmt"
	"strings"

	"verif/harness/mc"

	"github.com/evolbioinfo/goalign/align"
	"github.com/evolbioinfo/goalign/io/fasta"
)

// Command-line layer of C13 (cmd/dedup.go): goalign dedup [--n-as-gap] [--unaligned] -o <file|stdout> -l <log|log.gz>
// writes the kept sequences Deduplicate keeps, and the log holds one line per group of identical names, as the
// library reports them - whatever the combination of output destinations.

type c13CLICase struct {
	CLI       bool     `json:"cli_dedup"`
	Seqs      []string `json:"seqs"`
	NAsGap    bool     `json:"nasgap,omitempty"`
	Unaligned bool     `json:"unaligned,omitempty"`
	Stdout    bool     `json:"sequences_to_stdout,omitempty"`
	Log       string   `json:"log"` // log.txt | log.txt.gz
}

func c13CheckCLI(c *mc.Ctx, box *cliBox, cs c13CLICase) {
	c.Eval()
	viol := func(clause, desc string) {
		c.Violation("C13/cli-dedup/"+clause, fmt.Sprintf("%s: case %s", desc, jsonStr(cs)), cs)
	}
	var sb align.SeqBag
	var err error
	if cs.Unaligned {
		sb, err = mkSeqBag(align.NUCLEOTIDS, namedRows(cs.Seqs...))
	} else {
		sb, err = mkAlign(align.NUCLEOTIDS, namedRows(cs.Seqs...))
	}
	if err != nil {
		c.Fatal("cannot build %s: %v", jsonStr(cs), err)
		return
	}
	var groups [][]string
	var lerr error
	if pn, _ := mc.Guard(func() { groups, lerr = sb.Deduplicate(cs.NAsGap) }); pn || lerr != nil {
		return
	}
	wantSeqs := fasta.WriteAlignment(sb)
	var wl strings.Builder
	for _, g := range groups {
		if len(g) > 1 { // the log lists the groups that hold more than one name
			wl.WriteString(strings.Join(g, ",") + "\n")
		}
	}
	wantLogAll := func() string {
		var b strings.Builder
		for _, g := range groups {
			b.WriteString(strings.Join(g, ",") + "\n")
		}
		return b.String()
	}()
	box.drop("out.fa", cs.Log)
	if !box.put(c, "in.fa", cliFasta(rowNames, cs.Seqs)) {
		return
	}
	args := []string{"dedup", "-i", "@in.fa", "--alphabet", "nt", "-l", box.path(cs.Log)}
	if cs.NAsGap {
		args = append(args, "--n-as-gap")
	}
	if cs.Unaligned {
		args = append(args, "--unaligned")
	}
	c.Mark(cs)
	var gotSeqs string
	var cerr error
	var pn, herr bool
	var msg string
	if cs.Stdout {
		gotSeqs, cerr, pn, msg, herr = box.runStdout(c, args...)
	} else {
		cerr, pn, msg, herr = box.run(c, append(args, "-o", box.path("out.fa"))...)
		if cerr == nil && !pn && !herr {
			gotSeqs, _ = box.get("out.fa")
		}
	}
	if herr {
		return
	}
	if pn {
		viol("panic/"+mc.PanicSite(msg), msg)
		return
	}
	if cerr != nil {
		viol("command-fails", cerr.Error())
		return
	}
	c.Nontrivial(jsonStr(cs))
	if gotSeqs != wantSeqs {
		viol("sequences-differ-from-library", fmt.Sprintf("goalign %s writes %q; Deduplicate keeps %q", strings.Join(args, " "), gotSeqs, wantSeqs))
		return
	}
	var gotLog string
	var ok bool
	if strings.HasSuffix(cs.Log, ".gz") {
		gotLog, ok = box.gunzip(cs.Log)
	} else {
		gotLog, ok = box.get(cs.Log)
	}
	if !ok {
		viol("log-unreadable", fmt.Sprintf("the log file %s cannot be read back (not written, or not closed)", cs.Log))
		return
	}
	if gotLog != wl.String() && gotLog != wantLogAll {
		viol("log-differs-from-library", fmt.Sprintf("log %q; the groups are %v", gotLog, groups))
		return
	}
	c.Outcome("cli-dedup:same")
}

func c13CLITasks() []mc.Task {
	return []mc.Task{{Name: "cli-dedup#all", Run: func(c *mc.Ctx) {
		box := newCLIBox(c, "c13-cli-")
		if box == nil {
			return
		}
		defer box.close()
		sets := [][]string{{"ACGT", "ACGT", "AC-T", "ACGT"}, {"ACNT", "AC-T", "ACGT"}, {"A", "C", "G"}, {"ACGT", "ACGT"}}
		for _, seqs := range sets {
			for o := 0; o < 16; o++ {
				log := "log.txt"
				if o&8 != 0 {
					log = "log.txt.gz"
				}
				c13CheckCLI(c, box, c13CLICase{CLI: true, Seqs: seqs, NAsGap: o&1 != 0, Unaligned: o&2 != 0, Stdout: o&4 != 0, Log: log})
			}
		}
	}}}
}

func c13CLIReplay(c *mc.Ctx, payload []byte) bool {
	var cs c13CLICase
	if err := json.Unmarshal(payload, &cs); err != nil || !cs.CLI {
		return false
	}
	box := newCLIBox(c, "c13-cli-")
	if box == nil {
		return true
	}
	defer box.close()
	c13CheckCLI(c, box, cs)
	return true
}
