package props

import (
	"runtime"
	"bufio"
	"encoding/json"
	"fmt"
	"io"
	"os"
	"path/filepath"
	"runtime/debug"
	"strings"
	"sync"
	"unicode"
	"unicode/utf8"

	"verif/harness/mc"

	"github.com/evolbioinfo/goalign/align"
	"github.com/evolbioinfo/goalign/io/clustal"
	"github.com/evolbioinfo/goalign/io/fasta"
	"github.com/evolbioinfo/goalign/io/nexus"
	"github.com/evolbioinfo/goalign/io/phylip"
	"github.com/evolbioinfo/goalign/io/stockholm"
	"github.com/evolbioinfo/goalign/io/utils"
	"github.com/evolbioinfo/goalign/verifrt/vrt"
)

// C02 — every alignment format round-trips losslessly through writer and parser.
//
// The oracle is the identity: what was written must be what is read (names in
// order, residues, Length(), detected alphabet).  Nothing of the writers' or
// parsers' behaviour is assumed beyond the function signatures.

// ---- the twelve writer configurations

type c02Variant struct {
	Name                     string
	Fmt                      int // align.FORMAT_*
	Strict, OneLine, NoBlock bool
}

var c02Variants = func() []c02Variant {
	vs := []c02Variant{{Name: "fasta", Fmt: align.FORMAT_FASTA}}
	for m := 0; m < 8; m++ {
		v := c02Variant{Name: "phylip", Fmt: align.FORMAT_PHYLIP, Strict: m&1 != 0, OneLine: m&2 != 0, NoBlock: m&4 != 0}
		if v.Strict {
			v.Name += "-strict"
		}
		if v.OneLine {
			v.Name += "-oneline"
		}
		if v.NoBlock {
			v.Name += "-noblock"
		}
		vs = append(vs, v)
	}
	return append(vs,
		c02Variant{Name: "nexus", Fmt: align.FORMAT_NEXUS},
		c02Variant{Name: "clustal", Fmt: align.FORMAT_CLUSTAL},
		c02Variant{Name: "stockholm", Fmt: align.FORMAT_STOCKHOLM})
}()

const (
	c02VFasta     = 0
	c02VPhylip0   = 1 // 1..8
	c02VNexus     = 9
	c02VClustal   = 10
	c02VStockholm = 11
)

func c02Write(v *c02Variant, al align.Alignment) string {
	switch v.Fmt {
	case align.FORMAT_PHYLIP:
		return phylip.WriteAlignment(al, v.Strict, v.OneLine, v.NoBlock)
	case align.FORMAT_NEXUS:
		return nexus.WriteAlignment(al)
	case align.FORMAT_CLUSTAL:
		return clustal.WriteAlignment(al)
	case align.FORMAT_STOCKHOLM:
		return stockholm.WriteAlignment(al)
	}
	return fasta.WriteAlignment(al)
}

func c02ParseReader(v *c02Variant, r *bufio.Reader) (align.Alignment, error) {
	switch v.Fmt {
	case align.FORMAT_PHYLIP:
		return phylip.NewParser(r, v.Strict).Parse()
	case align.FORMAT_NEXUS:
		return nexus.NewParser(r).Parse()
	case align.FORMAT_CLUSTAL:
		return clustal.NewParser(r).Parse()
	case align.FORMAT_STOCKHOLM:
		return stockholm.NewParser(r).Parse()
	}
	return fasta.NewParser(r).Parse()
}

// ---- representability: the formats' own delimiters only (DESIGN §4 C02)

// c02Residues is the residue alphabet of the statement: IUPAC nucleotide and
// protein letters (together all of A-Z) in both cases, '-', '*', '?'.  None of
// them is a delimiter of any of the five formats.  '.' is left out: it is the
// match character of Nexus and Phylip and the gap of Stockholm.
const c02Residues = "ABCDEFGHIJKLMNOPQRSTUVWXYZabcdefghijklmnopqrstuvwxyz-*?"

// c02NameOK tells whether name can be represented in the variant's format.
// Keywords are not delimiters.
func c02NameOK(v *c02Variant, name string) bool {
	if name == "" {
		return false
	}
	ascii := true
	for i := 0; i < len(name); i++ {
		if name[i] <= ' ' || name[i] == 0x7f {
			return false // blank, control: outside the quantifier
		}
		ascii = ascii && name[i] < 0x80
	}
	if !ascii {
		// printable characters beyond ASCII: valid UTF-8 of printable, non-blank runes only; not for strict
		// Phylip, whose 10-character name field does not say whether it counts bytes or characters
		if !utf8.ValidString(name) || (v.Fmt == align.FORMAT_PHYLIP && v.Strict) {
			return false
		}
		for _, r := range name {
			if !unicode.IsPrint(r) || unicode.IsSpace(r) {
				return false
			}
		}
	}
	switch v.Fmt {
	case align.FORMAT_FASTA:
		return name[0] != '>' // '>' opens the header line
	case align.FORMAT_PHYLIP:
		return !v.Strict || len(name) <= 10
	case align.FORMAT_NEXUS:
		return !strings.ContainsAny(name, "[];='\"") // comment brackets, command end, key=value, quoted tokens
	case align.FORMAT_STOCKHOLM:
		return !strings.ContainsAny(name, "[];=") && name[0] != '#' && !strings.HasPrefix(name, "//") // '#' opens mark-up lines, '//' ends the alignment
	}
	return true
}

func c02Representable(v *c02Variant, r rows) bool {
	for _, x := range r {
		if !c02NameOK(v, x.Name) {
			return false
		}
		for i := 0; i < len(x.Seq); i++ {
			if strings.IndexByte(c02Residues, x.Seq[i]) < 0 {
				return false
			}
		}
	}
	return true
}

// ---- classification of an input for signatures (never used to decide a verdict)

// c02Vocabulary: the words of each format's own syntax.  An input whose name or
// row spells one of them (any case) gets a signature of its own, so that the
// class "keyword taken for a name / for residues" is not lumped with other failures.
var c02Vocabulary = map[int][]string{
	align.FORMAT_NEXUS: {"#NEXUS", "BEGIN", "END", "ENDBLOCK", "DATA", "CHARACTERS", "TAXA", "TAXLABELS", "TREES", "TREE", "DIMENSIONS", "NTAX", "NCHAR",
		"FORMAT", "DATATYPE", "MISSING", "GAP", "MATCHCHAR", "MATRIX", "INTERLEAVE", "SYMBOLS", "DNA", "RNA", "PROTEIN", "NUCLEOTIDE", "STANDARD"},
	align.FORMAT_CLUSTAL:   {"CLUSTAL", "CLUSTALW", "W", "MUSCLE"},
	align.FORMAT_STOCKHOLM: {"STOCKHOLM", "1.0"},
}

func c02IsWord(fmtID int, s string) bool {
	for _, w := range c02Vocabulary[fmtID] {
		if strings.EqualFold(w, s) {
			return true
		}
	}
	return false
}

func c02InputClass(v *c02Variant, r rows) string {
	for _, x := range r {
		if c02IsWord(v.Fmt, x.Seq) {
			return "row-spells-keyword"
		}
	}
	for _, x := range r {
		if c02IsWord(v.Fmt, x.Name) {
			return "name-spells-keyword"
		}
	}
	return ""
}

// c02Slug turns an error message into a stable token: quoted parts and digits dropped.
func c02Slug(msg string) string {
	var b strings.Builder
	inq := false
	words := 0
	lastDash := true
	for i := 0; i < len(msg) && words < 7; i++ {
		ch := msg[i]
		if ch == '"' {
			inq = !inq
			continue
		}
		if inq {
			continue
		}
		switch {
		case ch >= 'A' && ch <= 'Z':
			ch += 32
			fallthrough
		case ch >= 'a' && ch <= 'z':
			b.WriteByte(ch)
			lastDash = false
		default:
			if !lastDash {
				b.WriteByte('-')
				lastDash = true
				words++
			}
		}
	}
	return strings.Trim(b.String(), "-")
}

// ---- comparison

// c02Compare names the first clause of the statement in which got departs from want.
func c02Compare(got align.Alignment, want rows, wantAlphabet int) (clause, desc string) {
	if got == nil {
		return "no-alignment", "parser returned neither an alignment nor an error"
	}
	if got.NbSequences() != len(want) {
		return "row-count", fmt.Sprintf("%d rows read, %d written: %v", got.NbSequences(), len(want), readRows(got))
	}
	for i := range want {
		if n, _ := got.GetSequenceNameById(i); n != want[i].Name {
			return "names", fmt.Sprintf("row %d is named %q, written %q", i, n, want[i].Name)
		}
	}
	for i := range want {
		if s, _ := got.GetSequenceById(i); s != want[i].Seq {
			return "residues", fmt.Sprintf("row %d reads %q, written %q", i, s, want[i].Seq)
		}
	}
	if got.Length() != len(want[0].Seq) {
		return "length", fmt.Sprintf("Length()=%d, written %d", got.Length(), len(want[0].Seq))
	}
	if got.Alphabet() != wantAlphabet {
		return "alphabet", fmt.Sprintf("alphabet %d, original %d", got.Alphabet(), wantAlphabet)
	}
	return "", ""
}

// ---- cases

// c02Case is one replayable case.
//
//	rt:    Rows written in each variant of Vs (empty: all twelve) that can represent it, parsed by the format's parser
//	       and, unless Direct, by ParseAlignmentAuto and by ParseMultiAlignmentsAuto
//	multi: List written one after the other in Phylip variant V, parsed by ParseMultiple and ParseMultiAlignmentsAuto
//	file:  Rows written in variant V to a file with extension Ext through OpenWriteFile (over an existing, longer file), read through GetReader / ReadAlign
//	chain: Rows converted through the variants Chain in turn
type c02Case struct {
	Kind   string `json:"kind"`
	Rows   rows   `json:"rows,omitempty"`
	Vs     []int  `json:"vs,omitempty"`
	Direct bool   `json:"direct,omitempty"`
	V      int    `json:"v,omitempty"`
	List   []rows `json:"list,omitempty"`
	Ext    string `json:"ext,omitempty"`
	Chain  []int  `json:"chain,omitempty"`
	// Huge (kind huge): Huge[0] rows x Huge[1] columns of the shape family are generated by the case itself
	// (the payload stays small); Procs: GOMAXPROCS during the case
	Huge  []int `json:"huge,omitempty"`
	Procs int   `json:"gomaxprocs,omitempty"`
}

// c02Reader hands out one reused buffered reader per process (the parsers
// adopt a *bufio.Reader of default size instead of allocating their own).
var (
	c02Buf = bufio.NewReader(strings.NewReader(""))
	c02Str = strings.NewReader("")
)

func c02Reader(text string) *bufio.Reader {
	c02Str.Reset(text)
	c02Buf.Reset(c02Str)
	return c02Buf
}

const (
	c02SkipAlphabet = "the original alignment has no detected alphabet (a J, or nucleotide-only U/O next to protein-only letters): 'the same detected alphabet' is undefined"
)

type c02Checker struct {
	c  *mc.Ctx
	cs c02Case
}

func (k *c02Checker) viol(op string, v *c02Variant, clause, class, desc string, payload c02Case) {
	sig := "C02/" + op + "/" + v.Name + "/" + clause
	if class != "" {
		sig += "/" + class
	}
	k.c.Violation(sig, fmt.Sprintf("%s %s: %s: case %s", v.Name, op, desc, jsonStr(payload)), payload)
}

// call runs goalign code; panics and library os.Exit are violations.
func (k *c02Checker) call(op string, v *c02Variant, class string, payload c02Case, f func()) bool {
	pn, msg, exited := mc.GuardExit(f)
	if pn {
		k.viol(op, v, "panic/"+mc.PanicSite(msg), class, msg, payload)
		return false
	}
	if exited {
		k.viol(op, v, "exit", class, "the library called os.Exit", payload)
		return false
	}
	return true
}

// build makes the original alignment the way a user of the library would:
// rows added, alphabet detected.  ok=false when the case is skipped.
func (k *c02Checker) build(r rows) (al align.Alignment, ok bool) {
	if len(r) == 0 || len(r[0].Seq) == 0 {
		k.c.Fatal("empty alignment in case %s", jsonStr(k.cs))
		return nil, false
	}
	al, err := mkAlignAuto(r)
	if err != nil {
		k.c.Fatal("cannot build the original of case %s: %v", jsonStr(k.cs), err)
		return nil, false
	}
	// the residues of one alphabet are detected as that alphabet (the statement quantifies over "nucleotide and
	// protein IUPAC residues in both cases"): only rows that fit neither alphabet by the harness's own letter
	// sets have no detected alphabet and are skipped
	want := c02ExpectedAlphabet(r)
	if a := al.Alphabet(); a != want {
		k.c.Violation("C02/alphabet-detection/"+c02AlphabetName(want)+"-read-as-"+c02AlphabetName(a),
			fmt.Sprintf("rows %v hold %s residues only but the detected alphabet is %s", r, c02AlphabetName(want), c02AlphabetName(a)), c02Case{Kind: "rt", Rows: r, Direct: k.cs.Direct})
		return nil, false
	}
	if a := al.Alphabet(); a != align.NUCLEOTIDS && a != align.AMINOACIDS {
		k.c.Skip(c02SkipAlphabet)
		return nil, false
	}
	return al, true
}

// c02ExpectedAlphabet: nucleotides when every residue is an IUPAC nucleotide code (U and O included, as
// goalign documents), a gap, '.', '*' or '?', in either case; else amino acids when every residue is one of the
// 20 amino acids, B, Z, X or one of those symbols; else unknown.
func c02ExpectedAlphabet(r rows) int {
	const shared = "ACBRGDKSHMNVXTWY?-.*"
	nt, aa := true, true
	for _, x := range r {
		for i := 0; i < len(x.Seq); i++ {
			b := x.Seq[i]
			if 'a' <= b && b <= 'z' {
				b -= 'a' - 'A'
			}
			switch {
			case strings.IndexByte(shared, b) >= 0:
			case b == 'U' || b == 'O':
				aa = false
			case strings.IndexByte("QEILFPZ", b) >= 0:
				nt = false
			default:
				nt, aa = false, false
			}
		}
	}
	switch {
	case nt:
		return align.NUCLEOTIDS
	case aa:
		return align.AMINOACIDS
	}
	return align.UNKNOWN
}

// judge compares one parse result with the original.
func (k *c02Checker) judge(op string, v *c02Variant, r rows, alphabet int, got align.Alignment, err error, payload c02Case) bool {
	class := c02InputClass(v, r)
	if err != nil {
		if class == "" {
			class = c02Slug(err.Error())
		}
		k.viol(op, v, "parse-error", class, err.Error(), payload)
		return false
	}
	if clause, desc := c02Compare(got, r, alphabet); clause != "" {
		k.viol(op, v, clause, class, desc, payload)
		return false
	}
	return true
}

// roundTrip: write r in variant vi, read it back three ways.
func (k *c02Checker) roundTrip(al align.Alignment, r rows, vi int) {
	c := k.c
	v := &c02Variants[vi]
	if !c02Representable(v, r) {
		c.Count("not_representable:"+v.Name, 1)
		return
	}
	c.Eval()
	payload := c02Case{Kind: "rt", Rows: r, Vs: []int{vi}, Direct: k.cs.Direct}
	class := c02InputClass(v, r)
	alphabet := al.Alphabet()
	var text string
	if !k.call("write", v, class, payload, func() { text = c02Write(v, al) }) {
		return
	}
	// the original is compared with what is read back: it must still be the original after the writer ran
	// (the next configuration writes the same object)
	if now := readRows(al); !now.equal(r) {
		k.viol("write", v, "original-changed-by-the-writer", class, fmt.Sprintf("after writing, the alignment holds [%s], it held [%s]", now, r), payload)
		return
	}
	var got align.Alignment
	var err error
	ok := true
	if k.call("roundtrip", v, class, payload, func() { got, err = c02ParseReader(v, c02Reader(text)) }) {
		ok = k.judge("roundtrip", v, r, alphabet, got, err, payload) && ok
	} else {
		ok = false
	}
	if v.Fmt != align.FORMAT_STOCKHOLM && !k.cs.Direct {
		// auto-detection, one alignment
		format := -1
		if k.call("auto", v, class, payload, func() {
			got, format, err = utils.ParseAlignmentAuto(c02Reader(text), v.Strict)
		}) {
			if k.judge("auto", v, r, alphabet, got, err, payload) {
				if format != v.Fmt {
					k.viol("auto", v, "format-detected", class, fmt.Sprintf("format %d reported, %d written", format, v.Fmt), payload)
					ok = false
				}
			} else {
				ok = false
			}
		} else {
			ok = false
		}
		// auto-detection, channel of alignments
		var list []align.Alignment
		if k.call("multiauto", v, class, payload, func() { list, format, err = c02MultiAuto(nil, c02Reader(text), v.Strict) }) {
			if err == nil && len(list) != 1 {
				k.viol("multiauto", v, "alignment-count", class, fmt.Sprintf("%d alignments read, 1 written", len(list)), payload)
				ok = false
			} else {
				if err == nil {
					got = list[0]
				}
				if k.judge("multiauto", v, r, alphabet, got, err, payload) {
					if format != v.Fmt {
						k.viol("multiauto", v, "format-detected", class, fmt.Sprintf("format %d reported, %d written", format, v.Fmt), payload)
						ok = false
					}
				} else {
					ok = false
				}
			}
		} else {
			ok = false
		}
	}
	if ok {
		if len(r) > 1 && len(r[0].Seq) > 60 && len(r[0].Seq) < 70 && v.Fmt != align.FORMAT_FASTA {
			c.Sample(map[string]any{"case": payload, "written": text})
		}
		c.Outcome(v.Name + ":ok:" + c02AlphabetName(alphabet))
	} else {
		c.Outcome(v.Name + ":violated")
	}
}

func c02AlphabetName(a int) string {
	if a == align.AMINOACIDS {
		return "aa"
	}
	return "nt"
}

// c02MultiAuto drains ParseMultiAlignmentsAuto.
func c02MultiAuto(closer io.Closer, r *bufio.Reader, strict bool) (list []align.Alignment, format int, err error) {
	var ac *align.AlignChannel
	if ac, format, err = utils.ParseMultiAlignmentsAuto(closer, r, strict, align.BOTH); err != nil {
		return
	}
	for al := range ac.Achan {
		list = append(list, al)
	}
	err = ac.Err
	return
}

func (k *c02Checker) rt() {
	cs := k.cs
	al, ok := k.build(cs.Rows)
	if !ok {
		return
	}
	k.c.Nontrivial(cs.Rows.String())
	if len(cs.Vs) > 0 {
		for _, vi := range cs.Vs {
			k.roundTrip(al, cs.Rows, vi)
		}
		return
	}
	for vi := range c02Variants {
		k.roundTrip(al, cs.Rows, vi)
	}
}

// multi: a stream of Phylip alignments.
func (k *c02Checker) multi() {
	c, cs := k.c, k.cs
	v := &c02Variants[cs.V]
	if v.Fmt != align.FORMAT_PHYLIP {
		c.Fatal("multi case with a non-Phylip variant: %s", jsonStr(cs))
		return
	}
	als := make([]align.Alignment, len(cs.List))
	for i, r := range cs.List {
		if !c02Representable(v, r) {
			c.Count("not_representable:"+v.Name, 1)
			return
		}
		var ok bool
		if als[i], ok = k.build(r); !ok {
			return
		}
	}
	c.Eval()
	var text strings.Builder
	if !k.call("write", v, "", cs, func() {
		for _, al := range als {
			text.WriteString(c02Write(v, al))
		}
	}) {
		return
	}
	check := func(op string, list []align.Alignment, err error) bool {
		if err != nil {
			k.viol(op, v, "parse-error", c02Slug(err.Error()), err.Error(), cs)
			return false
		}
		if len(list) != len(cs.List) {
			k.viol(op, v, "alignment-count", "", fmt.Sprintf("%d alignments read, %d written", len(list), len(cs.List)), cs)
			return false
		}
		for i, got := range list {
			if clause, desc := c02Compare(got, cs.List[i], als[i].Alphabet()); clause != "" {
				k.viol(op, v, clause, "", fmt.Sprintf("alignment %d: %s", i, desc), cs)
				return false
			}
		}
		return true
	}
	ok := true
	var list []align.Alignment
	var err error
	if k.call("multi", v, "", cs, func() {
		ac := &align.AlignChannel{Achan: make(chan align.Alignment, 15)}
		phylip.NewParser(c02Reader(text.String()), v.Strict).ParseMultiple(ac)
		list = nil
		for al := range ac.Achan {
			list = append(list, al)
		}
		err = ac.Err
	}) {
		ok = check("multi", list, err) && ok
	} else {
		ok = false
	}
	format := -1
	if k.call("multiauto", v, "", cs, func() {
		list, format, err = c02MultiAuto(nil, c02Reader(text.String()), v.Strict)
	}) {
		if check("multiauto", list, err) {
			if format != v.Fmt {
				k.viol("multiauto", v, "format-detected", "", fmt.Sprintf("format %d reported, %d written", format, v.Fmt), cs)
				ok = false
			}
		} else {
			ok = false
		}
	} else {
		ok = false
	}
	if ok {
		c.Outcome(fmt.Sprintf("multi:%s:ok:k=%d", v.Name, len(cs.List)))
	} else {
		c.Outcome("multi:" + v.Name + ":violated")
	}
}

// filemulti: a stream of Phylip alignments written to one plain / .gz / .xz file, one
// WriteString per alignment (the way the command line writes its output), read back
// through GetReader + ParseMultiple.
func (k *c02Checker) fileMulti() {
	c, cs := k.c, k.cs
	v := &c02Variants[cs.V]
	if v.Fmt != align.FORMAT_PHYLIP {
		c.Fatal("filemulti case with a non-Phylip variant: %s", jsonStr(cs))
		return
	}
	als := make([]align.Alignment, len(cs.List))
	for i, r := range cs.List {
		if !c02Representable(v, r) {
			c.Count("not_representable:"+v.Name, 1)
			return
		}
		var ok bool
		if als[i], ok = k.build(r); !ok {
			return
		}
	}
	dir := c02Temp(c)
	if dir == "" {
		return
	}
	c.Eval()
	path := filepath.Join(dir, "stream."+v.Name+cs.Ext)
	defer os.Remove(path)
	op := "filemulti" + cs.Ext
	var werr error
	if !k.call(op, v, "", cs, func() {
		var f utils.StringWriterCloser
		// the output file exists already and is longer than what is written now (goalign -o over an old result)
		if werr = os.WriteFile(path, []byte(strings.Repeat(">stale\nACGTACGTAC\n", 3*len(als)+40)), 0o644); werr != nil {
			return
		}
		if f, werr = utils.OpenWriteFile(path); werr != nil {
			return
		}
		for _, al := range als {
			if _, werr = f.WriteString(c02Write(v, al)); werr != nil {
				f.Close()
				return
			}
		}
		werr = f.Close()
	}) {
		return
	}
	if werr != nil {
		k.viol(op, v, "write-error", "", werr.Error(), cs)
		return
	}
	var list []align.Alignment
	var err error
	if !k.call(op, v, "", cs, func() {
		var fi io.Closer
		var r *bufio.Reader
		if fi, r, err = utils.GetReader(path); err != nil {
			return
		}
		defer fi.Close()
		ac := &align.AlignChannel{Achan: make(chan align.Alignment, 15)}
		phylip.NewParser(r, v.Strict).ParseMultiple(ac)
		list = nil
		for al := range ac.Achan {
			list = append(list, al)
		}
		err = ac.Err
	}) {
		return
	}
	switch {
	case err != nil:
		k.viol(op, v, "parse-error", c02Slug(err.Error()), err.Error(), cs)
	case len(list) != len(cs.List):
		k.viol(op, v, "alignment-count", "", fmt.Sprintf("%d alignments read, %d written", len(list), len(cs.List)), cs)
	default:
		for i, got := range list {
			if clause, desc := c02Compare(got, cs.List[i], als[i].Alphabet()); clause != "" {
				k.viol(op, v, clause, "", fmt.Sprintf("alignment %d: %s", i, desc), cs)
				return
			}
		}
		c.Outcome(fmt.Sprintf("filemulti%s:%s:ok:k=%d", cs.Ext, v.Name, len(cs.List)))
	}
}

// c02TempDir: a private directory (under the check's scratch directory, which ./check removes) for the
// file-layer cases of one task.
var c02TempDir string

func c02Temp(c *mc.Ctx) string {
	if c02TempDir == "" {
		d, err := os.MkdirTemp(mc.ScratchDir, "c02-files-")
		if err != nil {
			c.Fatal("cannot create a temporary directory: %v", err)
			return ""
		}
		c02TempDir = d
	}
	return c02TempDir
}

func c02DropTemp() {
	if c02TempDir != "" {
		os.RemoveAll(c02TempDir)
		c02TempDir = ""
	}
}

// file: the .gz / .xz / plain file layer.
func (k *c02Checker) file() {
	c, cs := k.c, k.cs
	v := &c02Variants[cs.V]
	if !c02Representable(v, cs.Rows) {
		c.Count("not_representable:"+v.Name, 1)
		return
	}
	al, ok := k.build(cs.Rows)
	if !ok {
		return
	}
	dir := c02Temp(c)
	if dir == "" {
		return
	}
	c.Eval()
	path := filepath.Join(dir, "al."+v.Name+cs.Ext)
	defer os.Remove(path)
	class := c02InputClass(v, cs.Rows)
	op := "file" + cs.Ext
	var werr error
	if !k.call(op, v, class, cs, func() {
		text := c02Write(v, al)
		var f utils.StringWriterCloser
		// the output file exists already and is longer than what is written now (goalign -o over an old result)
		if werr = os.WriteFile(path, []byte(text+text+">stale\nACGTACGTAC\n"), 0o644); werr != nil {
			return
		}
		if f, werr = utils.OpenWriteFile(path); werr != nil {
			return
		}
		if _, werr = f.WriteString(text); werr != nil {
			f.Close()
			return
		}
		werr = f.Close()
	}) {
		return
	}
	if werr != nil {
		k.viol(op, v, "write-error", "", werr.Error(), cs)
		return
	}
	good := true
	var got align.Alignment
	var err error
	// (1) GetReader + the format's parser
	if k.call(op, v, class, cs, func() {
		var fi io.Closer
		var r *bufio.Reader
		if fi, r, err = utils.GetReader(path); err != nil {
			return
		}
		defer fi.Close()
		got, err = c02ParseReader(v, r)
	}) {
		good = k.judge(op, v, cs.Rows, al.Alphabet(), got, err, cs) && good
	} else {
		good = false
	}
	// (2) ReadAlign (relaxed Phylip only: it has no strict switch; no Stockholm)
	if v.Fmt != align.FORMAT_STOCKHOLM && !v.Strict {
		if k.call(op+".ReadAlign", v, class, cs, func() { got, err = utils.ReadAlign(path, v.Fmt, align.BOTH) }) {
			good = k.judge(op+".ReadAlign", v, cs.Rows, al.Alphabet(), got, err, cs) && good
		} else {
			good = false
		}
	}
	// (3) GetReader + auto-detection, the way the command line reads its input
	if v.Fmt != align.FORMAT_STOCKHOLM {
		var list []align.Alignment
		format := -1
		if k.call(op+".auto", v, class, cs, func() {
			var fi io.Closer
			var r *bufio.Reader
			if fi, r, err = utils.GetReader(path); err != nil {
				return
			}
			list, format, err = c02MultiAuto(fi, r, v.Strict)
		}) {
			if err == nil && len(list) != 1 {
				k.viol(op+".auto", v, "alignment-count", class, fmt.Sprintf("%d alignments read, 1 written", len(list)), cs)
				good = false
			} else {
				if err == nil {
					got = list[0]
				}
				if k.judge(op+".auto", v, cs.Rows, al.Alphabet(), got, err, cs) {
					if format != v.Fmt {
						k.viol(op+".auto", v, "format-detected", class, fmt.Sprintf("format %d reported, %d written", format, v.Fmt), cs)
						good = false
					}
				} else {
					good = false
				}
			}
		} else {
			good = false
		}
	}
	if good {
		c.Outcome("file" + cs.Ext + ":" + v.Name + ":ok")
		// what the file starts with is evidence only: the statement does not say what a .gz file must contain
		if b, e := os.ReadFile(path); e == nil && len(b) >= 6 {
			switch {
			case b[0] == 0x1f && b[1] == 0x8b:
				c.Outcome("file" + cs.Ext + ":gzip-magic")
			case string(b[:6]) == "\xfd7zXZ\x00":
				c.Outcome("file" + cs.Ext + ":xz-magic")
			default:
				c.Outcome("file" + cs.Ext + ":plain-bytes")
			}
		}
	} else {
		c.Outcome("file" + cs.Ext + ":" + v.Name + ":violated")
	}
}

// chain: write/parse through several formats in turn; the alignment read back
// after every step must still be the original.
func (k *c02Checker) chain() {
	c, cs := k.c, k.cs
	for _, vi := range cs.Chain {
		if !c02Representable(&c02Variants[vi], cs.Rows) {
			c.Count("not_representable:chain", 1)
			return
		}
	}
	al, ok := k.build(cs.Rows)
	if !ok {
		return
	}
	c.Eval()
	alphabet := al.Alphabet()
	cur := al
	prev := "original"
	for step, vi := range cs.Chain {
		v := &c02Variants[vi]
		var got align.Alignment
		var err error
		op := "chain"
		if !k.call(op, v, "after-"+prev, cs, func() {
			got, err = c02ParseReader(v, c02Reader(c02Write(v, cur)))
		}) {
			c.Outcome("chain:violated")
			return
		}
		if err != nil {
			k.viol(op, v, "parse-error", "after-"+prev, fmt.Sprintf("step %d: %v", step, err), cs)
			c.Outcome("chain:violated")
			return
		}
		if clause, desc := c02Compare(got, cs.Rows, alphabet); clause != "" {
			k.viol(op, v, clause, "after-"+prev, fmt.Sprintf("step %d: %s", step, desc), cs)
			c.Outcome("chain:violated")
			return
		}
		cur = got
		prev = strings.SplitN(v.Name, "-", 2)[0] // the format the alignment was last read from
	}
	c.Outcome(fmt.Sprintf("chain:ok:len%d:%s", len(cs.Chain), c02AlphabetName(alphabet)))
}

func c02Check(c *mc.Ctx, cs c02Case) {
	c02Once.Do(func() {
		vrt.CatchExitAlways.Store(true)
		// the parsers allocate a few kB per call; with the default GC target a
		// worker would spend most of its time collecting a 4 MB heap
		debug.SetGCPercent(1600)
	})
	c.Mark(cs)
	if cs.Procs > 0 {
		defer runtime.GOMAXPROCS(runtime.GOMAXPROCS(cs.Procs))
	}
	if cs.Kind == "huge" {
		c02Huge(c, cs)
		return
	}
	k := &c02Checker{c: c, cs: cs}
	switch cs.Kind {
	case "rt":
		for _, vi := range cs.Vs {
			if vi < 0 || vi >= len(c02Variants) {
				c.Fatal("bad variant in %s", jsonStr(cs))
				return
			}
		}
		k.rt()
	case "multi", "file", "filemulti":
		if cs.V < 0 || cs.V >= len(c02Variants) {
			c.Fatal("bad variant in %s", jsonStr(cs))
			return
		}
		if cs.Kind == "multi" {
			k.multi()
		} else if cs.Kind == "filemulti" {
			k.fileMulti()
		} else {
			k.file()
		}
	case "chain":
		for _, vi := range cs.Chain {
			if vi < 0 || vi >= len(c02Variants) {
				c.Fatal("bad variant in %s", jsonStr(cs))
				return
			}
		}
		k.chain()
	default:
		c.Fatal("unknown case kind %q", cs.Kind)
	}
}

var c02Once sync.Once

// ---- corpora

// c02Reduced: eight residues that still reach both alphabets (Q, e are protein only).
const c02Reduced = "Ac-*?QeN"

// c02ShapeLens straddle every writer width (10, 50, 60, 80) and their multiples.
var c02ShapeLens = []int{1, 2, 9, 10, 11, 19, 20, 21, 49, 50, 51, 59, 60, 61, 79, 80, 81, 99, 100, 101, 119, 120, 121, 159, 160, 161, 179, 180, 181, 239, 240, 241}

const (
	c02NtSyms = "ACGTRYSWKMBDHVN-acgtryswkmbdhvn?*"                 // 33
	c02AaSyms = "ACDEFGHIKLMNPQRSTVWYBZX-acdefghiklmnpqrstvwybzx?*" // 49
)

// c02Pattern is a position-coded residue pattern: block b = j/10 of row i
// starts at symbol b+13i and advances by a step that depends on b and i, so
// that no two 10-column blocks of the three rows are equal inside the bound
// (checked by c02PatternCheck): a dropped, repeated, moved or re-ordered chunk
// changes the alignment.
func c02Pattern(syms string, i, j int) byte {
	b, o := j/10, j%10
	return syms[(b+13*i+o*(1+(b+2*i)%5))%len(syms)]
}

// c02Huge: an alignment of more than 2^21 residues (a writer that formats blocks of rows in several workers
// would only do so there) through every writer, read back by the format's own parser: same names in the same
// order, same residues.  The payload names the shape; the rows are generated here.
func c02Huge(c *mc.Ctx, cs c02Case) {
	if len(cs.Huge) != 2 {
		c.Fatal("bad huge case %s", jsonStr(cs))
		return
	}
	r := c02ShapeRows(c02NtSyms, cs.Huge[0], cs.Huge[1])
	al, err := mkAlign(align.NUCLEOTIDS, r)
	if err != nil {
		c.Fatal("cannot build the huge alignment: %v", err)
		return
	}
	for _, vi := range c02OnePerFormat {
		v := &c02Variants[vi]
		c.Eval()
		var got align.Alignment
		var perr error
		if pn, msg := mc.Guard(func() { got, perr = c02ParseReader(v, c02Reader(c02Write(v, al))) }); pn {
			c.Violation("C02/huge/"+v.Name+"/panic", msg, cs)
			return
		}
		if perr != nil || got == nil {
			c.Violation("C02/huge/"+v.Name+"/parse-error", fmt.Sprintf("%d x %d alignment written as %s does not parse back: %v", cs.Huge[0], cs.Huge[1], v.Name, perr), cs)
			return
		}
		back := readRows(got)
		if len(back) != len(r) {
			c.Violation("C02/huge/"+v.Name+"/row-count", fmt.Sprintf("%d rows written as %s, %d read back (GOMAXPROCS %d)", len(r), v.Name, len(back), cs.Procs), cs)
			return
		}
		for i := range r {
			if back[i] != r[i] && !(v.Strict && back[i].Seq == r[i].Seq) {
				c.Violation("C02/huge/"+v.Name+"/row-differs", fmt.Sprintf("row %d (%s) of %d written as %s reads back as %s with other residues or another name", i, r[i].Name, len(r), v.Name, back[i].Name), cs)
				return
			}
		}
		c.Nontrivial(fmt.Sprintf("huge|%v|%d|%s", cs.Huge, cs.Procs, v.Name))
		c.Outcome("huge:" + v.Name + ":ok")
	}
}

func c02ShapeRows(syms string, n, L int) rows {
	r := make(rows, n)
	for i := 0; i < n; i++ {
		b := make([]byte, L)
		for j := range b {
			b[j] = c02Pattern(syms, i, j)
		}
		r[i] = row{Name: fmt.Sprintf("Seq%04d", i), Seq: string(b)}
	}
	return r
}

// c02PatternCheck verifies the claim made for c02Pattern.
func c02PatternCheck() error {
	for _, syms := range []string{c02NtSyms, c02AaSyms} {
		r := c02ShapeRows(syms, 3, 250)
		seen := map[string]string{}
		for i, x := range r {
			for s := 0; s+10 <= 250; s += 10 {
				key := x.Seq[s : s+10]
				id := fmt.Sprintf("row %d [%d,%d)", i, s, s+10)
				if o, dup := seen[key]; dup {
					return fmt.Errorf("pattern repeats: %s = %s", id, o)
				}
				seen[key] = id
			}
		}
	}
	return nil
}

// c02Words: every vocabulary word of every format plus ordinary names.
func c02Words() []string {
	var ws []string
	seen := map[string]bool{}
	add := func(w string) {
		if !seen[w] {
			seen[w] = true
			ws = append(ws, w)
		}
	}
	for _, f := range []int{align.FORMAT_NEXUS, align.FORMAT_CLUSTAL, align.FORMAT_STOCKHOLM} {
		for _, w := range c02Vocabulary[f] {
			add(w)
			add(strings.ToLower(w))
			add(w[:1] + strings.ToLower(w[1:]))
		}
	}
	for _, w := range []string{"Seq0000", "seq", "A", "x", "Homo_sapiens", "gi|12345|ref|NP_0001.1|", "12", "-3", "+7", "0", "1e5", "0x1F", "NaN", "//x", "a#b", "a>b"} {
		add(w)
	}
	return ws
}

func c02IsResidues(s string) bool {
	for i := 0; i < len(s); i++ {
		if strings.IndexByte(c02Residues, s[i]) < 0 {
			return false
		}
	}
	return len(s) > 0
}

// c02NameSyms: the 16 symbols of the long-name enumeration (letters, digits,
// signs, and delimiters of some formats so that the representability filter is exercised).
const c02NameSyms = "aB10_|.:()'-#/>="

// c02Printable: all 94 printable non-blank ASCII characters.
var c02Printable = func() string {
	b := make([]byte, 0, 94)
	for ch := byte('!'); ch <= '~'; ch++ {
		b = append(b, ch)
	}
	return string(b)
}()

// c02NameCases: the name under test as the only row, and as second row of a
// two-row alignment long enough for a second Phylip / Clustal block.
func c02NameCases(c *mc.Ctx, name string) {
	c02Check(c, c02Case{Kind: "rt", Rows: rows{{name, "AC-T"}}})
	long := c02ShapeRows(c02NtSyms, 2, 61)
	long[0].Name = "other_name"
	long[1].Name = name
	c02Check(c, c02Case{Kind: "rt", Rows: long})
}

func c02SingleCase(s []byte) bool {
	up, lo := false, false
	for _, ch := range s {
		if ch >= 'a' && ch <= 'z' {
			lo = true
		} else if ch >= 'A' && ch <= 'Z' {
			up = true
		}
	}
	return !(up && lo)
}

// c02MultiShapes: the alignments a Phylip stream is assembled from (single
// block, exactly one line, several blocks, one residue).
func c02MultiShapes() []rows {
	return []rows{
		c02ShapeRows(c02NtSyms, 1, 1),
		c02ShapeRows(c02NtSyms, 2, 10),
		c02ShapeRows(c02AaSyms, 1, 60),
		c02ShapeRows(c02NtSyms, 2, 61),
		c02ShapeRows(c02AaSyms, 3, 121),
		c02ShapeRows(c02AaSyms, 2, 5),
	}
}

// c02OnePerFormat: one writer configuration per parser (the eight Phylip
// configurations write a row shorter than 10 columns in two ways only: relaxed and strict).
var c02OnePerFormat = []int{c02VFasta, c02VPhylip0, c02VPhylip0 + 1, c02VNexus, c02VClustal, c02VStockholm}

// c02PrefixTasks appends one task per prefix of length p over alpha; together
// they enumerate every string of length l.
func c02PrefixTasks(ts []mc.Task, class, alpha string, l, p int, run func(c *mc.Ctx, s []byte)) []mc.Task {
	forEachStringLen(alpha, p, nil, func(pf []byte) bool {
		pf = append([]byte{}, pf...)
		ts = append(ts, mc.Task{Name: fmt.Sprintf("%s/%s", class, pf), Run: func(c *mc.Ctx) {
			forEachStringLen(alpha, l, pf, func(s []byte) bool {
				run(c, s)
				return !c.Expired()
			})
		}})
		return true
	})
	return ts
}

// c02GroupTasks is c02PrefixTasks with the second character taken in g groups
// (len(alpha)*g tasks).
func c02GroupTasks(ts []mc.Task, class, alpha string, l, g int, run func(c *mc.Ctx, s []byte)) []mc.Task {
	per := (len(alpha) + g - 1) / g
	for i := 0; i < len(alpha); i++ {
		for q := 0; q < g; q++ {
			i, q := i, q
			ts = append(ts, mc.Task{Name: fmt.Sprintf("%s/%c/%d", class, alpha[i], q), Run: func(c *mc.Ctx) {
				for j := per * q; j < per*(q+1) && j < len(alpha); j++ {
					if !forEachStringLen(alpha, l, []byte{alpha[i], alpha[j]}, func(s []byte) bool {
						run(c, s)
						return !c.Expired()
					}) {
						return
					}
				}
			}})
		}
	}
	return ts
}

const c02Upper = "ABCDEFGHIJKLMNOPQRSTUVWXYZ"

func c02Tasks(tier string) []mc.Task {
	thorough := tier == "thorough"
	var ts []mc.Task
	add := func(name string, run func(c *mc.Ctx)) { ts = append(ts, mc.Task{Name: name, Run: run}) }
	// full: all twelve writer configurations, three ways of reading
	full := func(c *mc.Ctx, seqs ...string) {
		c02Check(c, c02Case{Kind: "rt", Rows: namedRows(seqs...)})
	}
	// lean: one configuration per parser, the format's own parser only
	lean := func(c *mc.Ctx, seqs ...string) {
		c02Check(c, c02Case{Kind: "rt", Vs: c02OnePerFormat, Direct: true, Rows: namedRows(seqs...)})
	}

	// (v) vocabulary: every word as a name and, when made of residues, as a row
	add("vocabulary#words", func(c *mc.Ctx) {
		if err := c02PatternCheck(); err != nil {
			c.Fatal("%v", err)
			return
		}
		for _, w := range c02Words() {
			c02Check(c, c02Case{Kind: "rt", Rows: rows{{w, "ACGT"}}})
			c02Check(c, c02Case{Kind: "rt", Rows: rows{{"first", "ACGT"}, {w, "AC-T"}}})
			c02Check(c, c02Case{Kind: "rt", Rows: rows{{w, "LQEK"}, {"second", "LQ-K"}}})
			if c02IsResidues(w) {
				other := strings.Repeat("-", len(w))
				full(c, w)
				full(c, w, other)
				full(c, other, w)
				full(c, w, w)
			}
		}
	})

	// (a) content, one row
	add("row1#L1-2", func(c *mc.Ctx) {
		forEachString(c02Residues, 1, 2, func(s []byte) bool { full(c, string(s)); return !c.Expired() })
	})
	ts = c02PrefixTasks(ts, "row1#L3", c02Residues, 3, 1, func(c *mc.Ctx, s []byte) {
		c02Check(c, c02Case{Kind: "rt", Direct: true, Rows: namedRows(string(s))})
	})
	if !thorough {
		ts = c02PrefixTasks(ts, "row1#L4-singlecase", c02Residues, 4, 1, func(c *mc.Ctx, s []byte) {
			if c02SingleCase(s) {
				lean(c, string(s))
			}
		})
	} else {
		ts = c02GroupTasks(ts, "row1#L4", c02Residues, 4, 4, func(c *mc.Ctx, s []byte) { lean(c, string(s)) })
		ts = c02GroupTasks(ts, "row1#L5-upper", c02Upper, 5, 6, func(c *mc.Ctx, s []byte) { lean(c, string(s)) })
	}

	// (a) content, two rows
	add("rows2#L1", func(c *mc.Ctx) {
		forEachAlignment(c02Residues, 2, 1, func(seqs []string) bool { full(c, seqs...); return !c.Expired() })
	})
	if !thorough {
		// length 2: one row over all residues, the other over the reduced set, both ways round
		ts = c02PrefixTasks(ts, "rows2#L2", c02Residues, 2, 1, func(c *mc.Ctx, s1 []byte) {
			all := string(s1)
			inReduced := strings.IndexByte(c02Reduced, s1[0]) >= 0 && strings.IndexByte(c02Reduced, s1[1]) >= 0
			forEachStringLen(c02Reduced, 2, nil, func(s2 []byte) bool {
				lean(c, all, string(s2))
				if !inReduced { // otherwise the pair is enumerated above
					lean(c, string(s2), all)
				}
				return true
			})
		})
	} else {
		ts = c02GroupTasks(ts, "rows2#L2", c02Residues, 4, 4, func(c *mc.Ctx, s []byte) { lean(c, string(s[:2]), string(s[2:])) })
	}
	//   length 3 (4 in the thorough tier, upper case): every row above and below a fixed partner
	ts = c02PrefixTasks(ts, "rows2#L3-partner", c02Residues, 3, 1, func(c *mc.Ctx, s []byte) {
		lean(c, string(s), "AC-")
		lean(c, "Q*e", string(s))
	})
	if thorough {
		ts = c02GroupTasks(ts, "rows2#L4-singlecase-partner", c02Residues, 4, 2, func(c *mc.Ctx, s []byte) {
			if c02SingleCase(s) {
				lean(c, string(s), "AC-t")
				lean(c, "Q*e?", string(s))
			}
		})
	}
	// (a) content, three rows over the reduced residues
	add("rows3#L1", func(c *mc.Ctx) {
		forEachAlignment(c02Reduced, 3, 1, func(seqs []string) bool { full(c, seqs...); return !c.Expired() })
	})
	red3 := c02Reduced[:6]
	if thorough {
		red3 = c02Reduced
	}
	ts = c02PrefixTasks(ts, "rows3#L2", red3, 6, 2, func(c *mc.Ctx, s []byte) {
		c02Check(c, c02Case{Kind: "rt", Direct: true, Rows: namedRows(string(s[0:2]), string(s[2:4]), string(s[4:6]))})
	})

	// (b) shapes, (f) file layer
	for _, L := range c02ShapeLens {
		L := L
		add(fmt.Sprintf("shape#L%d", L), func(c *mc.Ctx) {
			for n := 1; n <= 3; n++ {
				for _, syms := range []string{c02NtSyms, c02AaSyms} {
					c02Check(c, c02Case{Kind: "rt", Rows: c02ShapeRows(syms, n, L)})
				}
			}
		})
		add(fmt.Sprintf("file#L%d", L), func(c *mc.Ctx) {
			defer c02DropTemp()
			for n := 1; n <= 3; n++ {
				for _, syms := range []string{c02NtSyms, c02AaSyms} {
					r := c02ShapeRows(syms, n, L)
					for vi := range c02Variants {
						for _, ext := range []string{"", ".gz", ".xz"} {
							c02Check(c, c02Case{Kind: "file", V: vi, Ext: ext, Rows: r})
							if c.Expired() {
								return
							}
						}
					}
				}
			}
		})
	}

	//   more rows than the containers' initial capacity
	for _, n := range []int{4, 10, 11, 100, 101} {
		n := n
		add(fmt.Sprintf("shape#rows%d", n), func(c *mc.Ctx) {
			for _, L := range []int{1, 10, 61} {
				for _, syms := range []string{c02NtSyms, c02AaSyms} {
					c02Check(c, c02Case{Kind: "rt", Rows: c02ShapeRows(syms, n, L)})
				}
			}
		})
	}

	//   more than 2^21 residues, row counts that 2, 3, 4 do not all divide, under 1, 3, 4 processors
	for _, procs := range []int{1, 3, 4} {
		procs := procs
		add(fmt.Sprintf("shape#huge/procs%d", procs), func(c *mc.Ctx) {
			c02Check(c, c02Case{Kind: "huge", Huge: []int{1003, 2100}, Procs: procs})
		})
	}
	//   rows longer than the readers' 4096-byte buffer (one-line Phylip, Nexus and Stockholm write a row on one line)
	add("shape#long", func(c *mc.Ctx) {
		for _, L := range []int{4000, 4095, 4096, 4097, 8200} {
			for _, syms := range []string{c02NtSyms, c02AaSyms} {
				c02Check(c, c02Case{Kind: "rt", Rows: c02ShapeRows(syms, 2, L)})
			}
		}
	})

	//   buffer-boundary sweep: the readers hand the lexers 4096-byte buffers; with the row length (then the
	//   length of the first name) growing by one from 3700 to 4100, the end of every token of the first ~400
	//   bytes of overhead, of the first row and of the second name falls exactly on the last byte of a
	//   buffer, on the first of the next, and on every offset in between, in every format
	for sh := 0; sh < 8; sh++ {
		sh := sh
		add(fmt.Sprintf("shape#boundary-sweep/%d", sh), func(c *mc.Ctx) {
			for L := 3700 + sh; L <= 4100; L += 8 {
				c02Check(c, c02Case{Kind: "rt", Rows: c02ShapeRows(c02NtSyms, 2, L)})
				c02Check(c, c02Case{Kind: "rt", Rows: rows{{strings.Repeat("n", L), "ACGT"}, {"b", "AC-T"}}})
				if c.Expired() {
					return
				}
			}
		})
	}

	//   the same long rows through the file layer (files larger than what the readers have buffered when the
	//   parse starts: plain, .gz and .xz, every configuration, all three ways of reading)
	for _, ext := range []string{"", ".gz", ".xz"} {
		ext := ext
		add("file#long"+ext, func(c *mc.Ctx) {
			defer c02DropTemp()
			for _, L := range []int{4097, 8200, 20000} {
				r := c02ShapeRows(c02NtSyms, 2, L)
				for vi := range c02Variants {
					c02Check(c, c02Case{Kind: "file", V: vi, Ext: ext, Rows: r})
					if c.Expired() {
						return
					}
				}
			}
		})
	}

	// (c') names holding multi-byte characters (valid UTF-8): alone, inside and at both ends of a name
	add("names#multibyte", func(c *mc.Ctx) {
		for _, ch := range []string{"\u00e9", "\u00dc", "\u03b1", "\u20ac", "\u017f"} {
			for _, nm := range []string{ch, "s" + ch + "q_1", ch + "x", "x" + ch, ch + ch} {
				c02NameCases(c, nm)
				c02Check(c, c02Case{Kind: "rt", Rows: rows{{"r0", "ACGT"}, {nm, "AC-T"}, {nm + "2", "TTGA"}}})
			}
		}
	})
	// (c'') two names of one alignment that a careless comparison takes for the same: equal up to case, one a
	// prefix of the other, one the other's automatic duplicate name
	add("names#near-pairs", func(c *mc.Ctx) {
		for _, p := range [][2]string{{"seqA", "SEQA"}, {"a", "A"}, {"ab", "aB"}, {"x1", "X1"}, {"Aa", "aA"}, {"abc", "ab"}, {"ab", "abc"}, {"s_1", "s_10"},
			{"n", "n_0001"}, {"n_0001", "n"}, {"taxon", "Taxon"}, {"e", "E"}} {
			c02Check(c, c02Case{Kind: "rt", Rows: rows{{p[0], "ACGT"}, {p[1], "AC-T"}}})
			c02Check(c, c02Case{Kind: "rt", Rows: rows{{"r0", "TTGA"}, {p[0], "ACGT"}, {p[1], "AC-T"}}})
			c02Check(c, c02Case{Kind: "rt", Rows: rows{{p[0], "LQEK"}, {"mid", "LQ-K"}, {p[1], "LKEK"}}})
		}
	})
	// (c) names
	add("names#printable-L1", func(c *mc.Ctx) {
		forEachString(c02Printable, 1, 1, func(s []byte) bool { c02NameCases(c, string(s)); return !c.Expired() })
	})
	ts = c02PrefixTasks(ts, "names#printable-L2", c02Printable, 2, 1, func(c *mc.Ctx, s []byte) { c02NameCases(c, string(s)) })
	ts = c02PrefixTasks(ts, "names#sym16-L3", c02NameSyms, 3, 1, func(c *mc.Ctx, s []byte) { c02NameCases(c, string(s)) })
	if thorough {
		ts = c02PrefixTasks(ts, "names#sym16-L4", c02NameSyms, 4, 2, func(c *mc.Ctx, s []byte) { c02NameCases(c, string(s)) })
		ts = c02GroupTasks(ts, "names#printable-L3", c02Printable, 3, 2, func(c *mc.Ctx, s []byte) {
			c02Check(c, c02Case{Kind: "rt", Rows: rows{{string(s), "AC-T"}}})
			c02Check(c, c02Case{Kind: "rt", Rows: rows{{"r0", "ACGT"}, {string(s), "AC-T"}}})
		})
	}
	//   name lengths around the strict-Phylip width
	add("names#lengths", func(c *mc.Ctx) {
		const pat = "Name_0123456789_abcdefghijklmnopqrstuvwxyz_ABCDEFGHIJKLMNOPQRSTUVWXYZ"
		for _, l := range []int{1, 2, 3, 8, 9, 10, 11, 12, 20, 30, 64} {
			for off := 0; off < 3; off++ {
				c02NameCases(c, pat[off:off+l])
				// every row with a name of that length (strict Phylip: name and residues touch)
				for _, L := range []int{1, 10, 61, 121} {
					r := c02ShapeRows(c02AaSyms, 3, L)
					for i := range r {
						r[i].Name = pat[off+i:off+i+l-1] + string(rune('0'+i))
					}
					c02Check(c, c02Case{Kind: "rt", Rows: r})
				}
			}
		}
	})

	// (d) streams of Phylip alignments
	shapes := c02MultiShapes()
	maxList := 3
	if thorough {
		maxList = 4
	}
	for vi := c02VPhylip0; vi < c02VPhylip0+8; vi++ {
		for first := range shapes {
			vi, first := vi, first
			add(fmt.Sprintf("multi#%s/first%d", c02Variants[vi].Name, first), func(c *mc.Ctx) {
				var rec func(list []rows)
				rec = func(list []rows) {
					if c.Expired() {
						return
					}
					c02Check(c, c02Case{Kind: "multi", V: vi, List: list})
					if len(list) == maxList {
						return
					}
					for _, s := range shapes {
						rec(append(list[:len(list):len(list)], s))
					}
				}
				rec([]rows{shapes[first]})
			})
		}
	}

	// (f') streams in files: every list of 1-3 alignments out of {2x10, 2x61, 2x4200 (longer than the
	// 4096-byte write buffer)} written with one WriteString per alignment into '', .gz and .xz files
	fmShapes := []rows{c02ShapeRows(c02NtSyms, 2, 10), c02ShapeRows(c02NtSyms, 2, 61), c02ShapeRows(c02NtSyms, 2, 4200)}
	for vi := c02VPhylip0; vi < c02VPhylip0+8; vi++ {
		for _, ext := range []string{"", ".gz", ".xz"} {
			vi, ext := vi, ext
			add(fmt.Sprintf("filemulti#%s%s", c02Variants[vi].Name, ext), func(c *mc.Ctx) {
				var rec func(list []rows)
				rec = func(list []rows) {
					if c.Expired() {
						return
					}
					c02Check(c, c02Case{Kind: "filemulti", V: vi, Ext: ext, List: list})
					if len(list) == 3 {
						return
					}
					for _, s := range fmShapes {
						rec(append(list[:len(list):len(list)], s))
					}
				}
				for _, s := range fmShapes {
					rec([]rows{s})
				}
			})
		}
	}

	// (g) conversion chains over the shape corpus
	chainLens := []int{1, 9, 10, 11, 50, 51, 60, 61, 80, 81, 121, 241}
	chainRows := []int{2}
	if thorough {
		chainLens = c02ShapeLens
		chainRows = []int{1, 2, 3}
	}
	for _, L := range chainLens {
		for v1 := range c02Variants {
			L, v1 := L, v1
			add(fmt.Sprintf("chain#L%d/%s", L, c02Variants[v1].Name), func(c *mc.Ctx) {
				for _, n := range chainRows {
					for _, syms := range []string{c02NtSyms, c02AaSyms} {
						r := c02ShapeRows(syms, n, L)
						c02Check(c, c02Case{Kind: "chain", Rows: r, Chain: []int{v1}})
						for v2 := range c02Variants {
							c02Check(c, c02Case{Kind: "chain", Rows: r, Chain: []int{v1, v2}})
							for v3 := range c02Variants {
								c02Check(c, c02Case{Kind: "chain", Rows: r, Chain: []int{v1, v2, v3}})
							}
							if c.Expired() {
								return
							}
						}
					}
				}
			})
		}
	}
	return ts
}

func init() {
	mc.Register(&mc.Prop{
		ID:    "C02",
		Level: "exploration",
		Rule: "bounded-exhaustive enumeration of alignments x the 12 writer configurations {FASTA; Phylip x {relaxed,strict} x {default,one-line} x {default,no-block}; Nexus; Clustal; Stockholm}. " +
			"One evaluation = one alignment (built by AddSequence + AutoAlphabet) written by <format>.WriteAlignment in one configuration and read back (i) by that format's parser, " +
			"(ii) by utils.ParseAlignmentAuto and (iii) by utils.ParseMultiAlignmentsAuto (not Stockholm; strictness passed as written), each result compared with the original: number of rows, names in order, residues, Length(), Alphabet(), " +
			"and for (ii)/(iii) the reported format and exactly one alignment. 'Lean' cases use 6 configurations (FASTA, relaxed and strict Phylip, Nexus, Clustal, Stockholm) and reader (i) only. " +
			"Residues R = A-Z, a-z, '-', '*', '?' (55 symbols); names = printable non-blank ASCII minus each format's own delimiters (FASTA: leading '>'; strict Phylip: > 10 characters; Nexus: [ ] ; = ' \"; Stockholm: [ ] ; =, leading '#', leading '//'); keywords are not delimiters. " +
			"Cases: (v) 108 vocabulary words (every syntax word of Nexus, Clustal, Stockholm in 3 spellings, numeric-looking and ordinary names) as first/second row name and, when made of residues, as row 1, row 2 and both rows; " +
			"(a) one row: every row over R of length 1-2 (all configurations, 3 readers), length 3 (all configurations, reader (i)), length 4 without mixed letter case, lean (quick) / every row of length 4 and every row of length 5 over A-Z, lean (thorough); " +
			"two rows: all pairs over R of length 1; length 2 with one row over R and the other over {A,c,-,*,?,Q,e,N} in both orders (quick) / all pairs over R (thorough), lean; every row over R of length 3 above the partner AC- and below Q*e, lean; thorough: every row of length 4 without mixed letter case above AC-t and below Q*e?; " +
			"three rows: length 1 over the 8 reduced residues (all configurations, 3 readers), length 2 over 6 (quick) / 8 (thorough) of them (reader (i)); " +
			"(b) shapes: 1-3 rows x 32 lengths {1,2,9-11,19-21,49-51,59-61,79-81,99-101,119-121,159-161,179-181,239-241} x {nucleotide, protein} position-coded patterns in which no two 10-column blocks are equal; 4,10,11,100,101 rows x lengths 1,10,61; 2 rows x lengths 4000,4095,4096,4097,8200 (around the readers' 4096-byte buffer); " +
			"(c) names: every name of length 1-2 over the 94 printable characters and of length 3 over the 16 symbols aB10_|.:()'-#/>= (thorough: length 4 over those 16), as the only row (length 4) and as second row of a 2x61 alignment; thorough: length 3 over all 94 as the only row and as second row of a 2x4 alignment; names of length 1,2,3,8-12,20,30,64 on one and on all three rows with lengths 1,10,61,121; " +
			"(d) streams: every list of 1-3 (thorough 1-4) alignments out of 6 shapes (1x1, 2x10, 1x60, 2x61, 3x121, 2x5) written consecutively in each of the 8 Phylip configurations, read by phylip.Parser.ParseMultiple and by ParseMultiAlignmentsAuto; " +
			"(f') streams in files: every list of 1-3 alignments out of {2x10, 2x61, 2x4200} written with one WriteString per alignment into a plain, .gz and .xz file in each of the 8 Phylip configurations, read through GetReader + ParseMultiple; (f) files: the 1-3-row shape corpus and 2 rows x lengths 4097, 8200, 20000 x 12 configurations x extensions '', .gz, .xz written through utils.OpenWriteFile into a private temporary directory and read through GetReader + parser, ReadAlign (non-strict, not Stockholm) and GetReader + ParseMultiAlignmentsAuto; " +
			"(g) chains: every sequence of 1-3 configurations (12+144+1728) applied in turn (write, parse, write the parsed alignment, ...) to the 2-row shapes of 12 lengths (thorough: 1-3 rows, 32 lengths), the alignment compared with the original after every step. " +
			"The alphabet detected for the original must be the one of the harness's own letter sets (nucleotide codes incl. U/O; the 20 amino acids, B, Z, X; shared symbols - . * ?; either case); alignments that fit neither are skipped. An alignment is non-trivial when at least one configuration can represent it; distinct = distinct (names, rows).",
		Assumptions: []string{
			"the original is built through AddSequence and AutoAlphabet, the way every parser builds its result; 'detected alphabet' is Alphabet() after that",
			"representability is decided from the formats' delimiters only; a name or row that spells a keyword of the format (DATA, END, CLUSTAL, STOCKHOLM ...) is representable",
			"'.' is not enumerated as a residue (match character in Nexus/Phylip, gap in Stockholm; not in the statement's residue list)",
			"strict Phylip is read back with the strict switch it was written with (the library takes it as a parameter; it is not auto-detected)",
			"what a .gz/.xz file contains is not judged, only that it reads back (the magic bytes seen are recorded as outcomes)",
		},
		Tasks: c02Tasks,
		Replay: func(c *mc.Ctx, payload json.RawMessage) {
			var cs c02Case
			if err := json.Unmarshal(payload, &cs); err != nil {
				c.Fatal("bad payload: %v", err)
				return
			}
			defer c02DropTemp()
			c02Check(c, cs)
		},
		Vacuity: func(tier string, t *mc.Totals) error {
			if t.Evaluations < 8000000 {
				return fmt.Errorf("only %d evaluations", t.Evaluations)
			}
			var missing []string
			need := func(o string) {
				if _, ok := t.OutcomeSet[o]; !ok {
					missing = append(missing, o)
				}
			}
			for _, v := range c02Variants {
				need(v.Name + ":ok:nt")
				need(v.Name + ":ok:aa")
				for _, ext := range []string{"", ".gz", ".xz"} {
					need("file" + ext + ":" + v.Name + ":ok")
				}
				if v.Fmt == align.FORMAT_PHYLIP {
					for k := 1; k <= 3; k++ {
						need(fmt.Sprintf("multi:%s:ok:k=%d", v.Name, k))
					}
				}
			}
			for _, o := range []string{"file.gz:gzip-magic", "file.xz:xz-magic", "file:plain-bytes", "chain:ok:len1:nt", "chain:ok:len2:aa", "chain:ok:len3:nt", "chain:ok:len3:aa"} {
				need(o)
			}
			if len(missing) > 0 {
				return fmt.Errorf("outcome classes never observed: %v", missing)
			}
			for _, k := range []string{"not_representable:fasta", "not_representable:nexus", "not_representable:stockholm", "not_representable:phylip-strict"} {
				if t.Extra[k] == 0 {
					return fmt.Errorf("the representability filter never fired for %s", k)
				}
			}
			if len(t.Skipped) == 0 {
				return fmt.Errorf("no alignment of undetected alphabet met: the content enumeration did not run")
			}
			return nil
		},
	})
}
