package props

// C03 — the enumerated input space: per format the entry points, the byte
// alphabet, the contexts (a fixed prefix / suffix of a file between which
// every byte string and every token string is placed), the token
// vocabularies and the seed files whose mutations are enumerated.

import (
	"encoding/json"
	"fmt"
	"strconv"
	"strings"
	"sync"

	"verif/harness/mc"

	"github.com/evolbioinfo/goalign/align"
	"github.com/evolbioinfo/goalign/io/clustal"
	"github.com/evolbioinfo/goalign/io/fasta"
	"github.com/evolbioinfo/goalign/io/nexus"
	"github.com/evolbioinfo/goalign/io/phylip"
	"github.com/evolbioinfo/goalign/io/stockholm"
)

type c03Entry struct {
	Entry  string
	Strict bool
	Len    int
}

// c03Ctx is a place inside a file: every enumerated string s gives the input Pre+s+Post.
type c03Ctx struct {
	Pre, Post string
	Bytes     string   // byte alphabet ("" = the format's, "-" = no byte family here)
	Vocab     []string // token vocabulary (nil = the format's, empty = no token family here)
}

type c03Seed struct {
	Name string
	Text string
	// Strict / Relaxed: the phylip flavours under which the text is a valid
	// stream holding at least one alignment (other formats: unused).
	Strict, Relaxed bool
	// Thorough: enumerated in the thorough tier only (large file)
	Thorough bool
}

type c03Format struct {
	Name    string
	Entries []c03Entry
	Bytes   string
	Vocab   []string
	Ctxs    []c03Ctx
	Seeds   []c03Seed
	// bounds: byte strings of length <= LB (quick) / LB+1 (thorough), token
	// strings of length <= LT / LT+1
	LB, LT int
}

func (f *c03Format) bytesOf(ci int) []string {
	a := f.Ctxs[ci].Bytes
	if a == "-" {
		return nil
	}
	if a == "" {
		a = f.Bytes
	}
	out := make([]string, len(a))
	for i := 0; i < len(a); i++ {
		out[i] = a[i : i+1]
	}
	return out
}

func (f *c03Format) vocabOf(ci int) []string {
	if v := f.Ctxs[ci].Vocab; v != nil {
		return v
	}
	return f.Vocab
}

// c03Runes: the multi-byte characters substituted and inserted into every seed file.
var c03Runes = []string{"\u00b5", "\u00e9", "\u017f", "\u212a"}

const c03Huge = "99999999999"           // a count no file can honour
const c03MaxInt = "9223372036854775807" // the largest 64-bit integer
const c03Overflow = "9223372036854775808"

var (
	c03FormatsOnce sync.Once
	c03FormatList  []*c03Format
)

// c03Tiny and c03Long are the alignments whose writer outputs are seeds;
// c03Long is long enough for two Phylip (60) and two Clustal (50) blocks.
func c03SeedAlignments() (tiny, long, prot align.Alignment) {
	tiny, _ = mkAlign(align.NUCLEOTIDS, rows{{"s1", "ACGT"}, {"s2", "AC-T"}, {"seq3", "NNGT"}})
	l1 := strings.Repeat("ACGT-", 13)[:62]
	l2 := strings.Repeat("TTGCA", 13)[:62]
	long, _ = mkAlign(align.NUCLEOTIDS, rows{{"first", l1}, {"second", l2}})
	prot, _ = mkAlign(align.AMINOACIDS, rows{{"p1", "MKVLE*"}, {"p2", "MRV-EQ"}})
	return
}

func c03Formats() []*c03Format {
	c03FormatsOnce.Do(func() {
		tiny, long, prot := c03SeedAlignments()
		num := []string{"0", "1", "2", "-1", c03Huge, c03MaxInt, c03Overflow}

		fa := &c03Format{Name: "fasta", LB: 4, LT: 4,
			Entries: []c03Entry{{Entry: "fasta.Parse"}, {Entry: "fasta.ParseUnalign"}},
			Bytes:   ">Ac-1 \n\r\x00\xff",
			Vocab:   []string{">", "x", "y", "AC", "G-", " ", "\n", "\r", "1", "\x00", "\xc3\xa9"},
			Ctxs: []c03Ctx{
				{},
				{Pre: ">x\n"},
				{Pre: ">x\nAC\n"},
				{Pre: ">x\nAC\n>", Post: "\nGT\n"},
			},
			Seeds: []c03Seed{
				{Name: "two-rows", Text: ">a\nACGT\n>b\nAC-T\n"},
				{Name: "multi-line", Text: ">s1 first\nACG\nTTA\n>s2\nAC-\nT-A\n"},
				{Name: "no-final-newline", Text: ">a\nACGT\n>b\nTTTT"},
				{Name: "crlf", Text: ">a\r\nAC\r\n>b\r\nGT\r\n"},
				{Name: "protein", Text: ">p1\nMKV*\n>p2\nMRV*\n"},
				{Name: "duplicate-names", Text: ">a\nAC\n>a\nAC\n>a\nGT\n"},
				{Name: "duplicate-names-generated-form", Text: ">a_0001\nAC\n>a\nAC\n>a\nGT\n>a_0002\nGG\n"},
				{Name: "blank-lines-and-spaces", Text: "\n>a\nA C G\n\n>b\nT T T\n"},
				{Name: "one-by-one", Text: ">1\n-\n"},
				{Name: "unaligned", Text: ">a\nACGT\n>b\nAC\n"},
				{Name: "writer-tiny", Text: fasta.WriteAlignment(tiny)},
				{Name: "writer-protein", Text: fasta.WriteAlignment(prot)},
				{Name: "repo-test-fastastring3", Text: c03RepoFasta3},
			},
		}

		phyBody := []string{"x", "yyyyyyyyyy", "AC", "G-", "1", "2", " ", "\t", "\n", "\r", "\x00"}
		ph := &c03Format{Name: "phylip", LB: 4, LT: 4,
			Entries: []c03Entry{{Entry: "phylip.Parse"}, {Entry: "phylip.Parse", Strict: true}, {Entry: "phylip.ParseMultiple"}, {Entry: "phylip.ParseMultiple", Strict: true}},
			Bytes:   "A-012 \t\n\r\x00\xff",
			Vocab:   append(append([]string{}, num...), "x", "AC", " ", "\n", "\r", "\x00"),
			Ctxs: []c03Ctx{
				{},
				{Post: "\nx AC\ny GT\n", Bytes: "-", Vocab: append(append([]string{}, num...), " ", "\t", "\n", "x")},
				{Pre: "1 2\n", Vocab: phyBody},
				{Pre: "2 1\nx A\n", Vocab: phyBody},
				{Pre: "1 0\n", Vocab: phyBody},
				{Pre: "1 2\nx AC\n", Vocab: append(append([]string{}, num...), "x", "AC", " ", "\n")},
				{Pre: "2 4\nx AC\ny GT\n\n", Vocab: phyBody},
				{Pre: "1 2\nxxxxxxxx", Post: "AC\n", Vocab: []string{}},
			},
			Seeds: []c03Seed{
				{Name: "relaxed", Text: "2 4\na ACGT\nb AC-T\n", Relaxed: true},
				{Name: "strict", Text: " 2 4\na         ACGT\nb         AC-T\n", Strict: true, Relaxed: true},
				{Name: "interleaved-relaxed", Text: "2 8\na ACGT\nb AC-T\n\nGGGG\nTTTT\n", Relaxed: true},
				{Name: "interleaved-strict", Text: "   2   8\na         ACGT\nb         AC-T\n\n          GGGG\n          TTTT\n", Strict: true, Relaxed: true},
				{Name: "stream-of-two", Text: "1 2\na AC\n1 2\nb GT\n", Relaxed: true},
				{Name: "stream-with-blank-line", Text: "2 2\na AC\nb GT\n\n2 2\na AC\nb GT\n", Relaxed: true},
				{Name: "stream-fewer-rows-later", Text: "3 4\na ACGT\nb AC-T\nc TTGA\n2 4\nd TTTT\ne GGGG\n", Relaxed: true},
				{Name: "stream-fewer-rows-later-strict", Text: "   3   4\na         ACGT\nb         AC-T\nc         TTGA\n   2   4\nd         TTTT\ne         GGGG\n", Strict: true, Relaxed: true},
				{Name: "stream-more-rows-later", Text: "1 4\na ACGT\n3 4\nd TTTT\ne GGGG\nf CCCC\n", Relaxed: true},
				{Name: "crlf", Text: "2 2\r\na AC\r\nb GT\r\n", Relaxed: true},
				{Name: "duplicate-names", Text: "3 2\na AC\na AC\na GT\n", Relaxed: true},
				{Name: "duplicate-names-generated-form", Text: "4 2\na_0001 AC\na AC\na GT\na_0002 GG\n", Relaxed: true},
				{Name: "blocks-of-ten", Text: "1 12\nx ACGTACGTAC GT\n", Relaxed: true},
				{Name: "protein", Text: "2 3\np1 MKV\np2 MRV\n", Relaxed: true},
				{Name: "writer-tiny-strict", Text: phylip.WriteAlignment(tiny, true, false, false), Strict: true, Relaxed: true},
				{Name: "writer-long-relaxed", Text: phylip.WriteAlignment(long, false, false, false), Relaxed: true},
				{Name: "writer-long-strict", Text: phylip.WriteAlignment(long, true, false, false), Strict: true, Relaxed: true},
				{Name: "repo-test-phylipstring1", Text: c03RepoPhylip1, Relaxed: true},
				{Name: "repo-test-phylipstring2", Text: c03RepoPhylip2, Strict: true},
			},
		}

		nxTop := []string{"BEGIN ", "DATA ", "CHARACTERS ", "TAXA ", "TREES ", "FOO ", "END ", ";", "[", "]", "\n", "x ", "="}
		nxData := []string{"DIMENSIONS ", "FORMAT ", "MATRIX ", "FOO ", "END ", ";", "[", "]", "\n", "x ", "AC ", "="}
		nxMatrix := []string{"x ", "y ", "AC ", "G- ", "1 ", "\n", ";", "[", "]", "END "}
		nxTail := ";\nMATRIX\nx AC\ny GT\n;\nEND;\n"
		nx := &c03Format{Name: "nexus", LB: 4, LT: 4,
			Entries: []c03Entry{{Entry: "nexus.Parse"}},
			Bytes:   "[];=#A10 \n\r\x00\xff",
			Vocab:   []string{"#NEXUS", "BEGIN", "DATA", "MATRIX", "END", ";", "[", "]", " ", "\n", "x", "1"},
			Ctxs: []c03Ctx{
				{},
				{Pre: "#NEXUS\n", Vocab: nxTop},
				{Pre: "#NEXUS\nBEGIN DATA;\n", Vocab: nxData},
				// in front of declarations that disagree with the matrix: whatever is put here, a success needs a reason
				{Pre: "#NEXUS\nBEGIN DATA;\n", Post: "DIMENSIONS NTAX=1 NCHAR=1;\nMATRIX\nx AC\ny GT\n;\nEND;\n", Vocab: nxData},
				{Pre: "#NEXUS\nBEGIN TAXA;\n", Post: "DIMENSIONS NTAX=1;\nTAXLABELS x y;\nEND;\nBEGIN DATA;\nMATRIX\nx AC\ny GT\n;\nEND;\n", Vocab: nxData},
				{Pre: "#NEXUS\nBEGIN DATA;\nDIMENSIONS ", Post: nxTail,
					Vocab: []string{"NTAX ", "NCHAR ", "FOO ", "=", "0 ", "1 ", "2 ", "-1 ", c03Huge + " ", c03Overflow + " ", ";", "[", "\n"}},
				{Pre: "#NEXUS\nBEGIN DATA;\nFORMAT ", Post: ";\nMATRIX\nx A.\ny -?\n;\nEND;\n",
					Vocab: []string{"DATATYPE ", "MISSING ", "GAP ", "MATCHCHAR ", "INTERLEAVE ", "=", "DNA ", "PROTEIN ", "? ", ". ", "- ", "1 ", "\u00e9 ", ";", "[", "\n"}},
				{Pre: "#NEXUS\nBEGIN DATA;\nMATRIX\n", Vocab: nxMatrix},
				{Pre: "#NEXUS\nBEGIN DATA;\nMATRIX\n", Post: ";\nEND;\n", Vocab: nxMatrix},
				{Pre: "#NEXUS\nBEGIN TAXA;\n", Post: "BEGIN DATA;\nMATRIX\nx AC\ny GT\n;\nEND;\n",
					Vocab: []string{"DIMENSIONS ", "NTAX ", "=", "0 ", "1 ", "2 ", "-1 ", "TAXLABELS ", "x ", "y ", "z ", ";", "END ", "\n", "["}},
				{Pre: "#NEXUS\nBEGIN FOO;\n", Vocab: nxTop},
				{Pre: "#NEXUS\nBEGIN DATA;\nMATRIX\nx AC\n;\nEND;\n", Vocab: nxTop},
			},
			Seeds: []c03Seed{
				{Name: "writer-tiny", Text: nexus.WriteAlignment(tiny)},
				{Name: "writer-protein", Text: nexus.WriteAlignment(prot)},
				{Name: "taxa-and-interleaved", Text: "#NEXUS\nBEGIN TAXA;\n      TaxLabels fish frog;\nEND;\n\nBEGIN CHARACTERS;\n      Dimensions NChar=8;\n      Format DataType=DNA;\n      Matrix\n        fish   ACAT AGAG\n        frog   ACAT AGAC\n;\nEND;\n"},
				{Name: "interleaved-blocks", Text: "#NEXUS\nBEGIN DATA;\nDIMENSIONS NTAX=2 NCHAR=4;\nFORMAT DATATYPE=DNA INTERLEAVE=yes;\nMATRIX\na AC\nb GT\n\na GT\nb AC\n;\nEND;\n"},
				{Name: "comments", Text: "#NEXUS\n[file comment]\nBEGIN DATA;\n[c2]\nDIMENSIONS NTAX=2 NCHAR=4;\nFORMAT DATATYPE=DNA MISSING=? GAP=- MATCHCHAR=.;\nMATRIX\n[c3]\na ACGT\nb ..-?\n;\nEND;\n"},
				{Name: "other-blocks", Text: "#NEXUS\nBEGIN TREES;\nTREE t = (a,b);\nEND;\nBEGIN FOO;\nBAR x;\nEND;\nBEGIN CHARACTERS;\nDIMENSIONS NCHAR=2;\nFORMAT DATATYPE=PROTEIN;\nMATRIX\np1 MK\np2 MR\n;\nEND;\n"},
				{Name: "taxa-dimensions", Text: "#NEXUS\nBEGIN TAXA;\nDIMENSIONS NTAX=2;\nTAXLABELS a b;\nEND;\nBEGIN DATA;\nDIMENSIONS NTAX=2 NCHAR=2;\nFORMAT DATATYPE=DNA;\nMATRIX\na AC\nb GT\n;\nEND;\n"},
				{Name: "lower-case-crlf", Text: "#nexus\r\nbegin data;\r\ndimensions ntax=2 nchar=2;\r\nformat datatype=dna;\r\nmatrix\r\na AC\r\nb GT\r\n;\r\nend;\r\n"},
				{Name: "dimensions-after-matrix", Text: "#NEXUS\nBEGIN DATA;\nFORMAT DATATYPE=DNA;\nMATRIX\na ACGT\nb AC-T\n;\nDIMENSIONS NTAX=2 NCHAR=4;\nEND;\n"},
				{Name: "dimensions-after-matrix-contradicting", Text: "#NEXUS\nBEGIN DATA;\nFORMAT DATATYPE=DNA;\nMATRIX\na ACGT\nb AC-T\n;\nDIMENSIONS NTAX=5 NCHAR=10;\nEND;\n"},
				{Name: "taxa-ntax-zero", Text: "#NEXUS\nBEGIN TAXA;\nDIMENSIONS NTAX=0;\nTAXLABELS a b;\nEND;\nBEGIN DATA;\nDIMENSIONS NCHAR=2;\nFORMAT DATATYPE=DNA;\nMATRIX\na AC\nb GT\n;\nEND;\n"},
				{Name: "matrix-without-rows", Text: "#NEXUS\nBEGIN CHARACTERS;\nDIMENSIONS NCHAR=4;\nFORMAT DATATYPE=DNA;\nMATRIX\n;\nEND;\n"},
				{Name: "no-dimensions", Text: "#NEXUS\nBEGIN DATA;\nMATRIX\na AC\nb GT\n;\nEND;\n"},
				// symbols declared as a multi-byte character and used in the rows: NCHAR counts bytes or characters?
				{Name: "two-byte-gap-symbol", Text: "#NEXUS\nBEGIN DATA;\nDIMENSIONS NTAX=2 NCHAR=5;\nFORMAT DATATYPE=DNA GAP=\u00e9;\nMATRIX\na AC\u00e9T\nb A\u00e9GT\n;\nEND;\n"},
				{Name: "two-byte-missing-symbol", Text: "#NEXUS\nBEGIN DATA;\nDIMENSIONS NTAX=2 NCHAR=5;\nFORMAT DATATYPE=DNA MISSING=\u00e9;\nMATRIX\na AC\u00e9T\nb A\u00e9GT\n;\nEND;\n"},
				{Name: "two-byte-matchchar-symbol", Text: "#NEXUS\nBEGIN DATA;\nDIMENSIONS NTAX=2 NCHAR=5;\nFORMAT DATATYPE=DNA MATCHCHAR=\u00e9;\nMATRIX\na ACGGT\nb A\u00e9GT\n;\nEND;\n"},
				{Name: "two-byte-symbols-counted-as-characters", Text: "#NEXUS\nBEGIN DATA;\nDIMENSIONS NTAX=2 NCHAR=4;\nFORMAT DATATYPE=DNA GAP=\u00e9;\nMATRIX\na AC\u00e9T\nb A\u00e9GT\n;\nEND;\n"},
				{Name: "repo-test-goodnexus", Text: c03RepoNexus},
			},
		}

		clBody := []string{"u", "v", "AC", "G-", " ", "\n", "1", "2", c03Huge, "*", "x AC\n", "y GT\n", "\t**\n"}
		cl := &c03Format{Name: "clustal", LB: 4, LT: 4,
			Entries: []c03Entry{{Entry: "clustal.Parse"}},
			Bytes:   "xA-1* \n\r\x00\xff",
			Vocab:   []string{"CLUSTAL", "W", " ", "\n", "x", "AC", "1", "*", "\r", "\x00"},
			Ctxs: []c03Ctx{
				{},
				{Pre: "CLUSTAL W (1.83)\n\n", Vocab: clBody},
				{Pre: "CLUSTAL W\n\nx AC\ny GT\n", Vocab: clBody},
				{Pre: "CLUSTAL W\n\nx AC\n  **\n\n", Vocab: clBody},
				{Pre: "CLUSTAL W\n\nx AC\ny GT\n  **\n\nx AC\n", Vocab: clBody},
			},
			Seeds: []c03Seed{
				{Name: "writer-tiny", Text: clustal.WriteAlignment(tiny)},
				{Name: "writer-long-two-blocks", Text: clustal.WriteAlignment(long)},
				{Name: "writer-protein", Text: clustal.WriteAlignment(prot)},
				{Name: "two-blocks", Text: "CLUSTAL W (1.83) multiple sequence alignment\n\na   ACGT\nb   AC-T\n    ** *\n\na   GG\nb   GT\n    * \n"},
				{Name: "three-blocks-with-counts", Text: "CLUSTALW\n\na AC 2\nb AG 2\n  * \n\na GT 4\nb GT 4\n  **\n\na A 5\nb C 5\n   \n"},
				{Name: "trailing-blank-lines", Text: "CLUSTAL W\n\n1cms   --GE\n4pep   ---I\n         \n\n\n"},
				{Name: "crlf", Text: "CLUSTAL W\r\n\r\na AC\r\nb GT\r\n    \r\n"},
				{Name: "duplicate-names", Text: "CLUSTAL W\n\na AC\na AC\na GT\n    \n"},
				{Name: "duplicate-names-generated-form", Text: "CLUSTAL W\n\na_0001 AC\na AC\na GT\n    \n"},
				{Name: "numeric-names", Text: "CLUSTAL 2.1\n\n1 MKV\n22 MRV\n   * *\n"},
				{Name: "repo-test-clustalstring2", Text: c03RepoClustal2},
				{Name: "repo-test-clustalstring1", Text: c03RepoClustal1, Thorough: true},
			},
		}

		stBody := []string{"#=GF ", "#=GC ", "x", "y", "AC", "G.", "1", " ", "\n", "//", "\r", "\x00"}
		st := &c03Format{Name: "stockholm", LB: 4, LT: 4,
			Entries: []c03Entry{{Entry: "stockholm.Parse"}},
			Bytes:   "#/=A.1 \n\r\x00\xff",
			Vocab:   []string{"#", " ", "STOCKHOLM", "1.0", "\n", "//", "x", "AC", "=GF"},
			Ctxs: []c03Ctx{
				{},
				{Pre: "# STOCKHOLM 1.0\n", Vocab: stBody},
				{Pre: "# STOCKHOLM 1.0\nx AC\n", Vocab: stBody},
				{Pre: "# STOCKHOLM 1.0\n#=GF ID x\nx AC\n", Post: "//\n", Vocab: stBody},
			},
			Seeds: []c03Seed{
				{Name: "writer-tiny", Text: stockholm.WriteAlignment(tiny)},
				{Name: "writer-protein", Text: stockholm.WriteAlignment(prot)},
				{Name: "markup", Text: "# STOCKHOLM 1.0\n#=GF ID   Piwi\n#=GF AC   PF02171.22\n#=GS a/1-4 AC O74957.1\na/1-4   AC.T\n#=GR a/1-4 SS  HH.H\nb/1-4   ACGT\n#=GC SS_cons  HHHH\n//\n"},
				{Name: "no-terminator", Text: "# STOCKHOLM 1.0\n\na AC\nb GT\n"},
				{Name: "crlf", Text: "# STOCKHOLM 1.0\r\na AC\r\nb GT\r\n//\r\n"},
				{Name: "repeated-names", Text: "# STOCKHOLM 1.0\na AC\nb GT\n\na AC\nb GT\n//\n"},
				{Name: "numeric-name", Text: "# STOCKHOLM 1.0\n1 MKV\n22 MR.\n//\n"},
				{Name: "declared-sq", Text: "# STOCKHOLM 1.0\n#=GF SQ 2\na AC\nb GT\n//\n"},
			},
		}

		pa := &c03Format{Name: "partition", LB: 4, LT: 4,
			Entries: []c03Entry{{Entry: "partition.Parse", Len: 0}, {Entry: "partition.Parse", Len: 1}, {Entry: "partition.Parse", Len: 5}},
			Bytes:   ",=-/m156 \n\r\x00\xff",
			Vocab:   []string{"m", "p", ",", "=", "-", "/", "0", "1", "2", "5", "6", c03Huge, c03MaxInt, c03Overflow, " ", "\n"},
			Ctxs: []c03Ctx{
				{},
				{Pre: "m,p="},
				{Pre: "m,p=1-"},
				{Pre: "m,p=2-5/"},
				{Pre: "m,p=1-2\nm,q="},
				{Pre: "m,p=1,"},
			},
			Seeds: []c03Seed{
				{Name: "one", Text: "DNA,p1=1-5\n"},
				{Name: "two", Text: "DNA,p1=1-3\nDNA,p2=4-5\n"},
				{Name: "modulo", Text: "DNA,p1=1-5/2\nDNA,p2=2-4/2\n"},
				{Name: "spaces-and-list", Text: "M, p = 1 - 2 , 4\nM,q=3,5"},
				{Name: "single-site", Text: "WAG,a=1\n"},
				{Name: "crlf", Text: "m,p=1-5/3,2,3\r\n"},
				{Name: "same-name-twice", Text: "GTR+G,part1=1-2\nGTR+G,part1=3-4\nJC,part2=5-5"},
			},
		}

		c03FormatList = []*c03Format{fa, ph, nx, cl, st, pa}
		for _, f := range c03FormatList {
			for ci := range f.Ctxs {
				c03MustBePrefixFree(f.Name, f.vocabOf(ci))
				c03MustBePrefixFree(f.Name, f.bytesOf(ci))
			}
		}
	})
	return c03FormatList
}

// A vocabulary in which no token is a prefix of another one is uniquely
// decodable: two different token strings never give the same input.
func c03MustBePrefixFree(name string, v []string) {
	for i, a := range v {
		for j, b := range v {
			if i != j && strings.HasPrefix(b, a) {
				panic(fmt.Sprintf("c03: vocabulary of %s is not prefix free: %q / %q", name, a, b))
			}
		}
	}
}

// c03Decodes tells whether s is a concatenation of at most maxLen symbols (syms is prefix free).
func c03Decodes(s string, syms []string, maxLen int) bool {
	n := 0
	for len(s) > 0 {
		hit := false
		for _, t := range syms {
			if strings.HasPrefix(s, t) {
				s = s[len(t):]
				hit = true
				break
			}
		}
		n++
		if !hit || n > maxLen {
			return false
		}
	}
	return true
}

// c03Bounds gives the maximal string lengths of the byte and token families.
func (f *c03Format) bounds(thorough bool) (lb, lt int) {
	if thorough {
		return f.LB + 1, f.LT + 1
	}
	return f.LB, f.LT
}

func (f *c03Format) symsOf(fam string, ci int) []string {
	if fam == "bytes" {
		return f.bytesOf(ci)
	}
	return f.vocabOf(ci)
}

// c03EarlierCtx: is the input also produced (same family) in a context that comes first?
func (f *c03Format) earlierCtx(fam string, ci int, input string, maxLen int) bool {
	for j := 0; j < ci; j++ {
		x := f.Ctxs[j]
		syms := f.symsOf(fam, j)
		if len(syms) == 0 || len(input) < len(x.Pre)+len(x.Post) || !strings.HasPrefix(input, x.Pre) || !strings.HasSuffix(input, x.Post) {
			continue
		}
		if c03Decodes(input[len(x.Pre):len(input)-len(x.Post)], syms, maxLen) {
			return true
		}
	}
	return false
}

// c03ForEachSeq enumerates the symbol strings of length minL..maxL that start
// with prefix (indices into syms), shortest first.
func c03ForEachSeq(syms []string, prefix []int, minL, maxL int, f func(s string) bool) bool {
	var sb strings.Builder
	for l := max(minL, len(prefix)); l <= maxL; l++ {
		idx := make([]int, l)
		copy(idx, prefix)
		for {
			sb.Reset()
			for _, i := range idx {
				sb.WriteString(syms[i])
			}
			if !f(sb.String()) {
				return false
			}
			i := l - 1
			for ; i >= len(prefix); i-- {
				idx[i]++
				if idx[i] < len(syms) {
					break
				}
				idx[i] = 0
			}
			if i < len(prefix) {
				break
			}
		}
	}
	return true
}

// c03CheckAll runs every entry point of the format on the input.
func (f *c03Format) checkAll(c *mc.Ctx, input string, isSeed bool) {
	f.checkAllEnd(c, input, isSeed, false)
}

// checkAllEnd: endErr = the input ends with a read error instead of end-of-file.
func (f *c03Format) checkAllEnd(c *mc.Ctx, input string, isSeed, endErr bool) {
	quoted := strconv.Quote(input)
	in := []byte(input)
	c.Mark(c03Case{Format: f.Name, All: true, In: quoted, Seed: isSeed, EndErr: endErr})
	var seed *c03Seed
	for i := range f.Seeds {
		if isSeed && f.Seeds[i].Text == input {
			seed = &f.Seeds[i]
		}
	}
	for _, e := range f.Entries {
		cs := c03Case{Entry: e.Entry, Strict: e.Strict, Len: e.Len, In: quoted, EndErr: endErr}
		if seed != nil && f.Name == "phylip" {
			cs.Seed = (e.Strict && seed.Strict) || (!e.Strict && seed.Relaxed)
		}
		c03CheckInput(c, cs, in)
	}
}

// c03StringTasks: one context, one family.  The strings are partitioned by
// their first p symbols; strings shorter than p form one more task.
func (f *c03Format) stringTasks(ts []mc.Task, fam string, ci, maxLen int) []mc.Task {
	syms := f.symsOf(fam, ci)
	if len(syms) == 0 {
		return ts
	}
	x := f.Ctxs[ci]
	// p: keep a task below about 40 000 (quick) / 250 000 (thorough) strings
	p, per := 0, 1
	for l := 0; l < maxLen; l++ {
		per = per*len(syms) + 1
	}
	limit := 40000
	if maxLen > f.LB && fam == "bytes" || maxLen > f.LT && fam == "tokens" {
		limit = 250000 // thorough tier: longer strings, larger tasks
	}
	for p < maxLen-1 && (per > limit || fam == "tokens" && p == 0) {
		per /= len(syms)
		p++
	}
	run := func(prefix []int, minL, maxL int) func(c *mc.Ctx) {
		return func(c *mc.Ctx) {
			c03Setup()
			c03ForEachSeq(syms, prefix, minL, maxL, func(s string) bool {
				input := x.Pre + s + x.Post
				if f.earlierCtx(fam, ci, input, maxLen) {
					c.Count("inputs_already_enumerated_in_an_earlier_context", 1)
					return !c.Expired()
				}
				c.Count("inputs/"+f.Name+"-"+fam, 1)
				f.checkAll(c, input, false)
				return !c.Expired()
			})
		}
	}
	class := fmt.Sprintf("%s-%s#ctx%d", f.Name, fam, ci)
	if p == 0 {
		return append(ts, mc.Task{Name: class, Run: run(nil, 0, maxLen)})
	}
	ts = append(ts, mc.Task{Name: class + "/short", Run: run(nil, 0, p-1)})
	prefix := make([]int, p)
	for {
		pf := append([]int{}, prefix...)
		ts = append(ts, mc.Task{Name: fmt.Sprintf("%s/%v", class, pf), Run: run(pf, p, maxLen)})
		i := p - 1
		for ; i >= 0; i-- {
			prefix[i]++
			if prefix[i] < len(syms) {
				break
			}
			prefix[i] = 0
		}
		if i < 0 {
			break
		}
	}
	return ts
}

// ---- seed mutations

func c03Lines(s string) []string {
	var out []string
	for len(s) > 0 {
		i := strings.IndexByte(s, '\n')
		if i < 0 {
			out = append(out, s)
			break
		}
		out = append(out, s[:i+1])
		s = s[i+1:]
	}
	return out
}

// c03Boundaries: cut points of a text — line starts (quick) or every change
// of character class (white space, line end, punctuation, other) — plus both ends.
func c03Boundaries(s string, tokens bool) []int {
	class := func(b byte) int {
		switch {
		case b == ' ' || b == '\t':
			return 0
		case b == '\n' || b == '\r':
			return 1
		case b >= '0' && b <= '9' || b >= 'a' && b <= 'z' || b >= 'A' && b <= 'Z' || b >= 0x80 || b == '_' || b == '.':
			return 2
		}
		return 3 + int(b) // each punctuation byte is its own token
	}
	out := []int{0}
	for i := 1; i < len(s); i++ {
		if tokens && class(s[i]) != class(s[i-1]) || s[i-1] == '\n' {
			out = append(out, i)
		}
	}
	if len(s) > 0 {
		out = append(out, len(s))
	}
	return out
}

// seedTask: the seed itself and every truncation, single-byte deletion,
// single-byte substitution by and insertion of a byte of the format's
// alphabet, substitution by and insertion of four multi-byte characters, line deletion, line duplication and swap of two lines.
func (f *c03Format) seedTask(si int) mc.Task {
	seed := &f.Seeds[si]
	return mc.Task{Name: fmt.Sprintf("%s-seeds#%s", f.Name, seed.Name), Run: func(c *mc.Ctx) {
		c03Setup()
		s := seed.Text
		seen := map[string]struct{}{}
		try := func(kind, m string) bool {
			if _, dup := seen[m]; !dup {
				seen[m] = struct{}{}
				c.Count("inputs/"+f.Name+"-seeds/"+kind, 1)
				f.checkAll(c, m, kind == "identity")
				if kind == "identity" || kind == "truncation" {
					// the same bytes from a reader that ends with a read error (truncated .gz / .xz file)
					c.Count("inputs/"+f.Name+"-seeds/"+kind+"-read-error", 1)
					f.checkAllEnd(c, m, false, true)
				}
			}
			return !c.Expired()
		}
		if !try("identity", s) {
			return
		}
		for i := 0; i < len(s); i++ {
			if !try("truncation", s[:i]) {
				return
			}
		}
		for i := 0; i < len(s); i++ {
			if !try("byte-deletion", s[:i]+s[i+1:]) {
				return
			}
		}
		for i := 0; i < len(s); i++ {
			for j := 0; j < len(f.Bytes); j++ {
				if !try("byte-substitution", s[:i]+f.Bytes[j:j+1]+s[i+1:]) {
					return
				}
			}
		}
		for i := 0; i <= len(s); i++ {
			for j := 0; j < len(f.Bytes); j++ {
				if !try("byte-insertion", s[:i]+f.Bytes[j:j+1]+s[i:]) {
					return
				}
			}
		}
		// multi-byte characters (valid UTF-8, so that they pass lexers that read runes): case mapping leaves
		// Latin-1 for two of them (upper(µ) = U+039C, upper(ſ) = 'S', lower(KELVIN SIGN) = 'k'), byte and
		// rune counts differ for all
		for i := 0; i < len(s); i++ {
			for _, r := range c03Runes {
				if !try("rune-substitution", s[:i]+r+s[i+1:]) {
					return
				}
			}
		}
		for i := 0; i <= len(s); i++ {
			for _, r := range c03Runes {
				if !try("rune-insertion", s[:i]+r+s[i:]) {
					return
				}
			}
		}
		ls := c03Lines(s)
		join := func(l []string) string { return strings.Join(l, "") }
		for i := range ls {
			del := append(append([]string{}, ls[:i]...), ls[i+1:]...)
			dup := append(append(append([]string{}, ls[:i+1]...), ls[i]), ls[i+1:]...)
			if !try("line-deletion", join(del)) || !try("line-duplication", join(dup)) {
				return
			}
			for j := i + 1; j < len(ls); j++ {
				sw := append([]string{}, ls...)
				sw[i], sw[j] = sw[j], sw[i]
				if !try("line-swap", join(sw)) {
					return
				}
			}
		}
	}}
}

// spliceTask: prefix(A) + suffix(B) for every seed B of the format, cut at
// line starts (quick) or at every token boundary (thorough).
func (f *c03Format) spliceTask(ai int, tokens bool) mc.Task {
	a := f.Seeds[ai]
	return mc.Task{Name: fmt.Sprintf("%s-splices#%s", f.Name, a.Name), Run: func(c *mc.Ctx) {
		c03Setup()
		seen := map[string]struct{}{}
		for _, s := range f.Seeds {
			seen[s.Text] = struct{}{} // the seeds themselves belong to the seed tasks
		}
		ba := c03Boundaries(a.Text, tokens)
		for _, b := range f.Seeds {
			if b.Thorough && !tokens {
				continue
			}
			bb := c03Boundaries(b.Text, tokens)
			for _, i := range ba {
				for _, j := range bb {
					m := a.Text[:i] + b.Text[j:]
					if _, dup := seen[m]; dup {
						continue
					}
					seen[m] = struct{}{}
					c.Count("inputs/"+f.Name+"-splices", 1)
					f.checkAll(c, m, false)
					if c.Expired() {
						return
					}
				}
			}
		}
	}}
}

// longLineTask: files whose lines end at, just before and just after a multiple of the 4096-byte read buffer
// (row lines and name lines of every length 4080..4100 and 8180..8196; LF, CRLF, no final newline, cut
// inside the last line): lexers that read by chunks have their boundary cases there.
func (f *c03Format) longLineTask() mc.Task {
	return mc.Task{Name: f.Name + "-long-lines", Run: func(c *mc.Ctx) {
		c03Setup()
		var lens []int
		for l := 4080; l <= 4100; l++ {
			lens = append(lens, l)
		}
		for l := 8180; l <= 8196; l++ {
			lens = append(lens, l)
		}
		for _, L := range lens {
			a, b, n := strings.Repeat("A", L), strings.Repeat("C", L), strings.Repeat("n", L)
			var texts []string
			switch f.Name {
			case "fasta":
				texts = []string{">a\n" + a + "\n>b\n" + b + "\n", ">" + n + "\nAC\n>b\nGT\n", ">a\n" + a + "\n" + a + "\n>b\n" + b + "\n" + b + "\n"}
			case "phylip":
				texts = []string{fmt.Sprintf("2 %d\na %s\nb %s\n", L, a, b), fmt.Sprintf(" 2 %d\na         %s\nb         %s\n", L, a, b), fmt.Sprintf("2 2\n%s AC\nb GT\n", n)}
			case "nexus":
				texts = []string{fmt.Sprintf("#NEXUS\nBEGIN DATA;\nDIMENSIONS NTAX=2 NCHAR=%d;\nFORMAT DATATYPE=DNA;\nMATRIX\na %s\nb %s\n;\nEND;\n", L, a, b),
					fmt.Sprintf("#NEXUS\n[%s]\nBEGIN DATA;\nDIMENSIONS NTAX=2 NCHAR=2;\nFORMAT DATATYPE=DNA;\nMATRIX\na AC\nb GT\n;\nEND;\n", n)}
			case "clustal":
				texts = []string{"CLUSTAL W (1.82) multiple sequence alignment\n\na   " + a + "\nb   " + b + "\n    " + strings.Repeat(" ", L) + "\n"}
			case "stockholm":
				texts = []string{"# STOCKHOLM 1.0\n#=GF ID x\na " + a + "\nb " + b + "\n//\n", "# STOCKHOLM 1.0\n#=GF CC " + n + "\na AC\nb GT\n//\n"}
			default:
				return
			}
			for _, t := range texts {
				crlf := strings.ReplaceAll(t, "\n", "\r\n")
				for _, v := range []string{t, crlf, strings.TrimRight(t, "\n"), strings.TrimRight(crlf, "\r\n"), t[:len(t)-2], t[:len(t)-3]} {
					c.Count("inputs/"+f.Name+"-long-lines", 1)
					f.checkAll(c, v, false)
				}
			}
			if c.Expired() {
				return
			}
		}
	}}
}

// manyRowsTask: files written by goalign's own writers for alignments of 99..102 and 257 rows and 70 columns (two
// blocks in the interleaved formats): tables that start with room for 100 rows and grow.
func (f *c03Format) manyRowsTask() mc.Task {
	return mc.Task{Name: f.Name + "-many-rows", Run: func(c *mc.Ctx) {
		c03Setup()
		for _, n := range []int{99, 100, 101, 102, 257} {
			al := align.NewAlign(align.NUCLEOTIDS)
			for i := 0; i < n; i++ {
				b := make([]byte, 70)
				for j := range b {
					b[j] = "ACGT-"[(i+j*3+i*j)%5]
				}
				al.AddSequence(fmt.Sprintf("s%03d", i), string(b), "")
			}
			var text string
			switch f.Name {
			case "fasta":
				text = fasta.WriteAlignment(al)
			case "phylip":
				text = phylip.WriteAlignment(al, false, false, false)
			case "nexus":
				text = nexus.WriteAlignment(al)
			case "clustal":
				text = clustal.WriteAlignment(al)
			case "stockholm":
				text = stockholm.WriteAlignment(al)
			default:
				return
			}
			for _, v := range []string{text, text[:len(text)-1], text[:len(text)/2]} {
				c.Count("inputs/"+f.Name+"-many-rows", 1)
				f.checkAll(c, v, false)
			}
			if c.Expired() {
				return
			}
		}
	}}
}

func c03Tasks(tier string) []mc.Task {
	thorough := tier == "thorough"
	fs := c03Formats()
	var ts []mc.Task
	for _, f := range fs {
		ts = append(ts, f.longLineTask(), f.manyRowsTask())
	}
	// simplest first: raw byte strings, then the contexts, tokens, seeds, splices
	for _, f := range fs {
		lb, _ := f.bounds(thorough)
		ts = f.stringTasks(ts, "bytes", 0, lb)
	}
	for _, f := range fs {
		lb, _ := f.bounds(thorough)
		for ci := 1; ci < len(f.Ctxs); ci++ {
			ts = f.stringTasks(ts, "bytes", ci, lb)
		}
	}
	for _, f := range fs {
		_, lt := f.bounds(thorough)
		for ci := range f.Ctxs {
			ts = f.stringTasks(ts, "tokens", ci, lt)
		}
	}
	for _, f := range fs {
		for si := range f.Seeds {
			if thorough || !f.Seeds[si].Thorough {
				ts = append(ts, f.seedTask(si))
			}
		}
	}
	for _, f := range fs {
		for si := range f.Seeds {
			if thorough || !f.Seeds[si].Thorough {
				ts = append(ts, f.spliceTask(si, thorough))
			}
		}
	}
	return ts
}

func c03Vacuity(tier string, t *mc.Totals) error {
	if t.Evaluations < 5000000 {
		return fmt.Errorf("only %d parses", t.Evaluations)
	}
	for _, f := range c03Formats() {
		for _, e := range f.Entries {
			op := c03Case{Entry: e.Entry, Strict: e.Strict}.op()
			for _, out := range []string{"ok", "error"} {
				if !t.Flags[op+":"+out] {
					return fmt.Errorf("%s never ended with outcome %q", op, out)
				}
			}
		}
		if t.Extra["inputs/"+f.Name+"-bytes"] == 0 || t.Extra["inputs/"+f.Name+"-tokens"] == 0 || t.Extra["inputs/"+f.Name+"-splices"] == 0 {
			return fmt.Errorf("a family of %s inputs was not enumerated", f.Name)
		}
	}
	for _, fl := range []string{"phylip-relaxed.Parse:end-of-stream", "phylip-relaxed.Parse:error-exit", "clustal.Parse:error-exit",
		"phylip-relaxed.ParseMultiple:ok-then-error", "partition.Parse:ok-nothing-assigned",
		"duplicate-policy-changes-outcome", "forced-alphabet-changes-outcome"} {
		if !t.Flags[fl] {
			return fmt.Errorf("never observed: %s", fl)
		}
	}
	if t.Extra["nexus_successes_compared_with_declared_counts"] == 0 {
		return fmt.Errorf("no nexus success was compared with declared counts")
	}
	if t.Nontrivial < 10000 {
		return fmt.Errorf("only %d distinct (entry point, input) pairs parsed successfully", t.Nontrivial)
	}
	return nil
}

func init() {
	mc.Register(&mc.Prop{
		ID:    "C03",
		Level: "exploration",
		Rule: "(also: the auto-detecting entry point on every string of <= 3 bytes over {space, LF, CR, TAB, 2, a, >, #, C} and on every truncation of a relaxed Phylip stream, a strict Phylip, a FASTA, a Nexus and a Clustal file, strict and relaxed, under the controlled scheduler: an explicit error or well-formed alignments, never a nil or empty one; every seed file and every truncation of it read through a reader that ends with a read error instead of end-of-file, as a truncated compressed file does; per format, files whose row or name lines are 4080..4100 and 8180..8196 bytes long, with LF, CRLF, without final newline and cut inside the last line - the read buffer is 4096 bytes; per format, the files goalign writes for alignments of 99..102 and 257 rows of 70 columns, whole, without their last byte and cut in the middle;) bounded-exhaustive enumeration of inputs; every input is given to every entry point of its format — fasta.Parse, fasta.ParseUnalign, phylip Parse and ParseMultiple (strict and relaxed), nexus.Parse, clustal.Parse, stockholm.Parse, " +
			"partition.Parse(length 0, 1, 5) — under all 9 combinations of duplicate-name policy {none, name, sequence} x alphabet {auto, nucleotide, amino acid} (partition: no options), through a reader that hands out the input, then io.EOF, and counts reads after the end " +
			"(more than 10000 = the call never returns). Inputs per format: (a) bytes: Pre+s+Post for every context (Pre, Post) of the format (the empty context first; then places inside a file: after the header, inside a DIMENSIONS / FORMAT / MATRIX / TAXA command, " +
			"in a second block, after a complete alignment, inside a strict Phylip name …) and every byte string s of length <= 4 (quick) / 5 (thorough) over the format's 10-13 byte alphabet (its punctuation, letters, digits, space, LF, CR, NUL, 0xFF); " +
			"(b) tokens: the same with every token string of length <= 4 (quick) / 5 (thorough) over the context's prefix-free vocabulary of 9-16 tokens (keywords, punctuation, names, residue runs, whole lines, line ends, the numerals 0 1 2 -1 99999999999 9223372036854775807 9223372036854775808); " +
			"an input already produced in an earlier context of the same family is not repeated; (c) seeds: for each of 7-15 valid files per format (writer outputs of 3x4, 2x62 and protein alignments, multi-block, interleaved, stream, CRLF, duplicate-name, markup, comment variants, the fixtures of the repository's own parser tests except the 19 kB Stockholm one; the 1.7 kB Clustal fixture in the thorough tier only) the file itself and every truncation, every single-byte deletion, " +
			"every single-byte substitution by and insertion of each byte of the alphabet, every substitution by and insertion of the multi-byte characters U+00B5, U+00E9, U+017F, U+212A (valid UTF-8; case mapping leaves Latin-1 for three of them), every line deletion, line duplication and swap of two lines; (d) splices: prefix(A)+suffix(B) for all ordered pairs of seeds of a format, cut at every line start (quick) / every token boundary (thorough). " +
			"Oracle per parse: the call returns (no panic, no livelock, no process death); an error or io.ExitWithMessage is an explicit error; a success must be non-nil (phylip: nil,nil = end of stream, not accepted on a valid seed), have >= 1 row and >= 1 column, all rows as long as Length() (alignments), pairwise distinct names, " +
			"rows/length equal to the counts of the Phylip header line (first alignment; later alignments of a stream must match some two-integer line) and to NTAX/NCHAR of the Nexus DIMENSIONS commands read by an independent reader; a partition set must map exactly the sites 0..length-1 to -1 or a valid partition index. " +
			"A (entry point, input) pair is non-trivial when at least one option combination parses successfully; distinct = distinct pair.",
		Assumptions: []string{
			"non-empty means at least one row and at least one column (DESIGN.md §5)",
			"NUL is an ordinary input byte; that the lexers treat it as end of input is not a violation as long as the result is well formed",
			"under the duplicate policies 'name' and 'sequence' a result with fewer rows than the header count is not judged (skipped)",
			"Nexus counts are compared only when the independent reader finds them unambiguously (no brackets, NUL or lone CR, at most one DATA/CHARACTERS and one TAXA block, no repeated declaration); Stockholm '#=GF SQ' is not interpreted",
			"the end-of-stream marker of the Phylip parsers is accepted on any input except the unmodified valid seeds",
			"a CPU loop that never reads and an allocation that kills the process are caught by the master through the marked input (120 s without progress / worker death), not by the read counter",
		},
		Tasks: func(tier string) []mc.Task { return append(c03Tasks(tier), c03AutoTasks()...) },
		Replay: func(c *mc.Ctx, payload json.RawMessage) {
			if !c03AutoReplay(c, payload) {
				c03Replay(c, payload)
			}
		},
		Vacuity: c03Vacuity,
		// the stream protocol (parser goroutine -> channel -> consumer, Err read after the channel is
		// closed) free-running under the Go race detector: a complement, the deciding step stays the enumeration
		Post: func(m *mc.Master) { m.RacePass("phylipstream") },
	})
}
