package props

import (
	"encoding/json"
	"fmt"
	"math"
	"reflect"
	"sort"
	"strings"
	"unsafe"

	"verif/harness/mc"

	"github.com/evolbioinfo/goalign/align"
	"github.com/evolbioinfo/goalign/distance/protein"
	pm "github.com/evolbioinfo/goalign/models/protein"
	"gonum.org/v1/gonum/mat"
)

// C17 — protein distances are likelihood maximisers forming a sane matrix.
//
// The implementation under test is distance/protein (NewProtDistModel,
// InitModel, MLDist).  The oracle never calls it: it rebuilds the pair
// frequency table F from the rows, takes the substitution process from
// models/protein's exported eigen-system (whose validity is property C18),
// re-derives the gamma mixing of exp(lambda*r*d) over r ~ Gamma(alpha, alpha),
// and evaluates lnL(d) = sum_ij F_ij log(pi_i P_ij(d)) itself.

// ---- numeric bounds of the oracle

const (
	c17Cap  = 20.0                   // saturation cap named by the statement
	c17DMin = 1e-8                   // lower end of the candidate grid
	c17Grid = 200                    // points of the log grid over [c17DMin, c17Cap]
	c17Zero = 1e-6                   // "at 0", "zero diagonal", "symmetric"
	c17Perm = 1e-3                   // permutation comparisons: |x-y| <= c17Perm*max(1,x,y); two runs of the optimiser on mathematically equal problems were seen to differ by up to 1e-5 where the likelihood is flat
	c17LkTl = 1e-5                   // a candidate is "better" only if lnL(cand)-lnL(d) > c17LkTl*max(1,|lnL(d)|); on the unchanged tree the optimiser was seen to stop up to 3e-3 short of the maximum (deficit 3e-7 in lnL), genuine secondary maxima lose >= 1e-3
	c17Rel  = 1e-3                   // nearby candidates d(1 +- c17Rel)
	c17Abs  = 1e-4                   // nearby candidates d +- c17Abs
	c17AAs  = "ARNDCQEGHILKMFPSTWYV" // PAML order of the empirical matrices
	c17Sigp = "C17/MLDist/"
)

var c17Idx = func() (t [256]int8) {
	for i := range t {
		t[i] = -1
	}
	for i := 0; i < len(c17AAs); i++ {
		t[c17AAs[i]] = int8(i)
		t[c17AAs[i]+32] = int8(i) // a residue is the same amino acid in lower case
	}
	return
}()

var c17ModelNames = map[int]string{
	pm.MODEL_DAYHOFF: "dayhoff", pm.MODEL_JTT: "jtt", pm.MODEL_MTREV: "mtrev", pm.MODEL_LG: "lg",
	pm.MODEL_WAG: "wag", pm.MODEL_HIVB: "hivb", pm.MODEL_AB: "ab",
}

var c17Models = []int{pm.MODEL_LG, pm.MODEL_JTT, pm.MODEL_WAG, pm.MODEL_DAYHOFF, pm.MODEL_MTREV, pm.MODEL_HIVB, pm.MODEL_AB}

var c17Alphas = []float64{0, 0.5, 1, 2} // 0 = gamma off

// c17GridPts is the log grid of candidate distances.
var c17GridPts = func() []float64 {
	g := make([]float64, c17Grid)
	lo, hi := math.Log(c17DMin), math.Log(c17Cap)
	for i := range g {
		g[i] = math.Exp(lo + (hi-lo)*float64(i)/float64(c17Grid-1))
	}
	g[0], g[c17Grid-1] = c17DMin, c17Cap
	return g
}()

// ---- the case

// c17Case is one alignment under one configuration.  With RowPerm / ColPerm
// the implementation is run on the permuted alignment (row i of the image is
// row RowPerm[i] of Seqs, column l of the image is column ColPerm[l]; weights
// travel with their columns), every single-matrix clause is checked on the
// image, and the image's matrix is compared with the matrix of Seqs.
type c17Case struct {
	Seqs       []string  `json:"seqs"`
	Model      int       `json:"model"`
	ModelFreqs bool      `json:"modelfreqs"`
	Alpha      float64   `json:"alpha"` // 0: no gamma
	RmGaps     bool      `json:"rmgaps"`
	Weights    []float64 `json:"weights,omitempty"`
	RowPerm    []int     `json:"rowperm,omitempty"`
	ColPerm    []int     `json:"colperm,omitempty"`
	// Prior: before the model of the case is built, ANOTHER model object of the same matrix with the other
	// frequency setting (and then one with the same setting) is initialised on an alignment of skewed
	// composition and computes a matrix; nothing of it may show in the case's distances
	Prior bool `json:"prior_model,omitempty"`
	// Reuse: the model object of the case first computes the matrix of the same rows with their columns
	// reversed (same length, gaps elsewhere), as build distboot and a multi-alignment input make one model
	// serve several alignments; the matrix that is judged is the one of the second call
	Reuse bool `json:"model_reused,omitempty"`
	// StrayAlpha: gamma is switched off (Alpha 0) but the constructor is handed this shape all the same; the
	// distances are those without gamma
	StrayAlpha float64 `json:"alpha_given_with_gamma_off,omitempty"`
}

func (cs c17Case) cfgKey() string {
	return fmt.Sprintf("mf=%t|g=%v|rm=%t|w=%t", cs.ModelFreqs, cs.Alpha, cs.RmGaps, cs.Weights != nil)
}

func (cs c17Case) freqName() string {
	if cs.ModelFreqs {
		return "model-freqs"
	}
	return "empirical-freqs"
}

// ---- oracle: substitution process

// c17Eig is an eigen-system as exported by models/protein.
type c17Eig struct {
	pi    [20]float64
	val   [20]float64
	left  [20][20]float64 // rows: inverse of the right eigenvectors
	right [20][20]float64
}

var c17EigCache = map[int]*c17Eig{}

// c17NewEig asks models/protein for the eigen-system of a model with the
// given frequencies (nil: the model's own).
func c17NewEig(model int, pi []float64) (*c17Eig, error) {
	m, err := pm.NewProtModel(model, false, 0)
	if err != nil {
		return nil, err
	}
	if pi != nil {
		pi = append([]float64{}, pi...)
	}
	if err = m.InitModel(pi); err != nil {
		return nil, err
	}
	val, left, right, err := m.Eigens()
	if err != nil {
		return nil, err
	}
	e := &c17Eig{}
	for i := 0; i < 20; i++ {
		e.pi[i] = m.Pi(i)
		e.val[i] = val[i]
		for j := 0; j < 20; j++ {
			e.left[i][j] = left.At(i, j)
			e.right[i][j] = right.At(i, j)
		}
	}
	return e, nil
}

// c17IndepEig builds the eigen-system of the textbook process itself: the rate matrix
// is assembled by the harness from the model's exchangeabilities and the frequencies in
// force, scaled to one expected substitution per unit time, and decomposed by the
// harness' own symmetric Jacobi solver (shared with C18).  problem != "" when the
// frequencies are outside the open simplex (then the caller falls back on the
// eigen-system exported by models/protein).
func c17IndepEig(model int, pi []float64) (e *c17Eig, problem string) {
	o, problem := c18Textbook(c18Case{Model: c17ModelNames[model], Pi: pi})
	if problem != "" {
		return nil, problem
	}
	sp, n := o.spec, 20
	e = &c17Eig{}
	for i := 0; i < n; i++ {
		e.pi[i] = o.stat[i]
		e.val[i] = sp.lambda[i]
		for k := 0; k < n; k++ {
			e.right[i][k] = sp.v.a[i*n+k] / sp.sq[i]
			e.left[k][i] = sp.v.a[i*n+k] * sp.sq[i]
		}
	}
	e.val[0] = 0 // the stationary mode
	return e, ""
}

// factors: E[exp(lambda_k * r * d)] for r = 1 (no gamma) or r ~ Gamma(shape
// alpha, mean 1), whose moment generating function gives (1 - lambda d/alpha)^-alpha.
func (e *c17Eig) factors(d, alpha float64, f *[20]float64) {
	for k := 0; k < 20; k++ {
		if alpha > 0 {
			f[k] = math.Pow(1-e.val[k]*d/alpha, -alpha)
		} else {
			f[k] = math.Exp(e.val[k] * d)
		}
	}
}

type c17Cell struct {
	i, j int
	f    float64
}

// lnL of a pair frequency table at distance d.
func (e *c17Eig) lnL(F []c17Cell, d, alpha float64) float64 {
	var f [20]float64
	e.factors(d, alpha, &f)
	s := 0.0
	for _, c := range F {
		p := 0.0
		for k := 0; k < 20; k++ {
			p += e.right[c.i][k] * f[k] * e.left[k][c.j]
		}
		p *= e.pi[c.i]
		if !(p > 0) {
			return math.Inf(-1)
		}
		s += c.f * math.Log(p)
	}
	return s
}

// ---- oracle: the pair frequency table

func c17Unamb(b byte) bool { return c17Idx[b] >= 0 }

// c17Selected: which columns are taken into account.  Documentation of
// --rm-gaps: "Do not take into account positions containing >=1 gaps".
// Whether a column holding X or * (and no '-') counts as "containing a gap"
// is not said; wide=true reads it that way.
func c17Selected(seqs []string, rm, wide bool) []bool {
	L := len(seqs[0])
	sel := make([]bool, L)
	for l := 0; l < L; l++ {
		sel[l] = true
		if !rm {
			continue
		}
		for _, s := range seqs {
			if s[l] == '-' || (wide && !c17Unamb(s[l])) {
				sel[l] = false
			}
		}
	}
	return sel
}

// c17F: weighted frequencies of the unambiguous residue pairs of rows a, b
// over the selected columns (nil when there is none).
func c17F(a, b string, w []float64, sel []bool) []c17Cell {
	var tab [20][20]float64
	sum := 0.0
	for l := 0; l < len(a); l++ {
		if !sel[l] || !c17Unamb(a[l]) || !c17Unamb(b[l]) {
			continue
		}
		x := 1.0
		if w != nil {
			x = w[l]
		}
		tab[c17Idx[a[l]]][c17Idx[b[l]]] += x
		sum += x
	}
	if sum == 0 {
		return nil
	}
	var F []c17Cell
	for i := 0; i < 20; i++ {
		for j := 0; j < 20; j++ {
			if tab[i][j] > 0 {
				F = append(F, c17Cell{i, j, tab[i][j] / sum})
			}
		}
	}
	return F
}

func c17SameF(a, b []c17Cell) bool {
	if len(a) != len(b) {
		return false
	}
	for i := range a {
		if a[i] != b[i] {
			return false
		}
	}
	return true
}

// c17Differs: the pair has an unambiguous difference in some column.
func c17Differs(a, b string) bool {
	for l := 0; l < len(a); l++ {
		if c17Unamb(a[l]) && c17Unamb(b[l]) && c17Idx[a[l]] != c17Idx[b[l]] {
			return true
		}
	}
	return false
}

// c17Best evaluates the reported distance and the candidates: the best grid
// point and the best nearby point with their log-likelihoods.
func c17Best(e *c17Eig, F []c17Cell, d, alpha float64) (l0, gridL, gridAt, nearL, nearAt float64) {
	l0 = e.lnL(F, d, alpha)
	gridL, nearL = math.Inf(-1), math.Inf(-1)
	for _, x := range c17GridPts {
		if l := e.lnL(F, x, alpha); l > gridL {
			gridL, gridAt = l, x
		}
	}
	for _, x := range [4]float64{d * (1 - c17Rel), d * (1 + c17Rel), d - c17Abs, d + c17Abs} {
		if x < c17DMin || x > c17Cap {
			continue
		}
		if l := e.lnL(F, x, alpha); l > nearL {
			nearL, nearAt = l, x
		}
	}
	return
}

// ---- running the implementation

type c17Res struct {
	seqs []string
	w    []float64
	d    [][]float64
	pi   []float64 // frequencies the implementation's model ended up with
}

// c17ModelPi reads the frequency vector of the substitution model wrapped by
// a ProtDistModel (the wrapper exports no accessor): needed to ask
// models/protein for the eigen-system under "empirical frequencies", whose
// estimation formula neither the statement nor the documentation fixes.
func c17ModelPi(m *protein.ProtDistModel) ([]float64, error) {
	v := reflect.ValueOf(m).Elem()
	want := reflect.TypeOf((*pm.ProtModel)(nil))
	for i := 0; i < v.NumField(); i++ {
		if v.Field(i).Type() == want {
			inner := *(**pm.ProtModel)(unsafe.Pointer(v.Field(i).UnsafeAddr()))
			if inner == nil {
				return nil, fmt.Errorf("ProtDistModel holds a nil *ProtModel")
			}
			pi := make([]float64, 20)
			for k := range pi {
				pi[k] = inner.Pi(k)
			}
			return pi, nil
		}
	}
	return nil, fmt.Errorf("ProtDistModel has no *protein.ProtModel field any more")
}

type c17Checker struct {
	c  *mc.Ctx
	cs c17Case
}

func (k *c17Checker) viol(clause, desc string) {
	if k.cs.Prior {
		clause = "after-another-model-object/" + clause // a history case: replays on its own
	}
	if k.cs.Reuse {
		clause = "model-reused/" + clause
	}
	k.c.Violation(c17Sigp+clause, fmt.Sprintf("%s: case %s", desc, jsonStr(k.cs)), k.cs)
}

// exec runs NewProtDistModel + InitModel + MLDist on seqs (nil on failure,
// which has then been reported).
func (k *c17Checker) exec(seqs []string, w []float64) *c17Res {
	c, cs := k.c, k.cs
	c.Eval()
	c17Evals++
	al, err := mkAlign(align.AMINOACIDS, namedRows(seqs...))
	if err != nil {
		c.Fatal("cannot build alignment %v: %v", seqs, err)
		return nil
	}
	var wIn []float64
	if w != nil {
		wIn = append([]float64{}, w...)
	}
	var m *protein.ProtDistModel
	var dist, earlier, earlierCopy *mat.Dense
	stage := "NewProtDistModel"
	pn, msg := mc.Guard(func() {
		if cs.Prior {
			if pal, perr := mkAlign(align.AMINOACIDS, namedRows("WWWWCCRA", "WWWCCCRR", "WCWWCCAA")); perr == nil {
				for _, mf := range []bool{!cs.ModelFreqs, cs.ModelFreqs} {
					if pm, e := protein.NewProtDistModel(cs.Model, mf, cs.Alpha > 0, cs.Alpha, cs.RmGaps); e == nil && pm.InitModel(pal, nil) == nil {
						pm.MLDist(pal, nil)
					}
				}
			}
		}
		shape := cs.Alpha
		if cs.Alpha == 0 && cs.StrayAlpha != 0 {
			shape = cs.StrayAlpha
		}
		if m, err = protein.NewProtDistModel(cs.Model, cs.ModelFreqs, cs.Alpha > 0, shape, cs.RmGaps); err != nil {
			return
		}
		stage = "InitModel"
		if err = m.InitModel(al, wIn); err != nil {
			return
		}
		if cs.Reuse {
			rev := make([]string, len(seqs))
			for i, x := range seqs {
				b := []byte(x)
				for l, r := 0, len(b)-1; l < r; l, r = l+1, r-1 {
					b[l], b[r] = b[r], b[l]
				}
				rev[i] = string(b)
			}
			if ral, rerr := mkAlign(align.AMINOACIDS, namedRows(rev...)); rerr == nil {
				var rw []float64
				if wIn != nil {
					for i := len(wIn) - 1; i >= 0; i-- {
						rw = append(rw, wIn[i])
					}
				}
				m.MLDist(ral, rw)
			}
			// ... and an alignment of the same shape with another first row, whose matrix is kept by the caller
			other := append([]string{}, seqs...)
			fill := "W"
			if strings.HasPrefix(seqs[0], "W") {
				fill = "R"
			}
			other[0] = strings.Repeat(fill, len(seqs[0]))
			if oal, oerr := mkAlign(align.AMINOACIDS, namedRows(other...)); oerr == nil {
				if _, _, d1, e1 := m.MLDist(oal, wIn); e1 == nil && d1 != nil {
					earlier, earlierCopy = d1, mat.DenseCopyOf(d1)
				}
			}
		}
		stage = "MLDist"
		_, _, dist, err = m.MLDist(al, wIn)
	})
	if pn {
		c.Violation("C17/"+stage+"/panic/"+mc.PanicSite(msg), fmt.Sprintf("%s on rows %v: case %s", msg, seqs, jsonStr(cs)), cs)
		return nil
	}
	if err != nil {
		c.Violation("C17/"+stage+"/unexpected-error", fmt.Sprintf("%v on rows %v: case %s", err, seqs, jsonStr(cs)), cs)
		return nil
	}
	n := len(seqs)
	if dist == nil {
		k.viol("shape", fmt.Sprintf("nil matrix for rows %v", seqs))
		return nil
	}
	if earlier != nil && !mat.Equal(earlier, earlierCopy) {
		// NaN entries never compare equal: such a matrix is compared cell by cell below
		same := true
		r0, c0 := earlier.Dims()
		for i := 0; i < r0 && same; i++ {
			for j := 0; j < c0; j++ {
				a, b := earlier.At(i, j), earlierCopy.At(i, j)
				if a != b && !(math.IsNaN(a) && math.IsNaN(b)) {
					same = false
				}
			}
		}
		if !same {
			k.viol("earlier-result-changed-by-later-call", fmt.Sprintf("the matrix returned for an alignment with another first row was %v and reads %v after the next MLDist call of the same model (rows %v)", mat.Formatted(earlierCopy), mat.Formatted(earlier), seqs))
			return nil
		}
	}
	if r, cc := dist.Dims(); r != n || cc != n {
		k.viol("shape", fmt.Sprintf("%dx%d matrix for %d rows %v", r, cc, n, seqs))
		return nil
	}
	res := &c17Res{seqs: seqs, w: w, d: make([][]float64, n)}
	for i := range res.d {
		res.d[i] = make([]float64, n)
		for j := range res.d[i] {
			res.d[i][j] = dist.At(i, j)
		}
	}
	if !cs.ModelFreqs {
		if res.pi, err = c17ModelPi(m); err != nil {
			c.Fatal("%v", err)
			return nil
		}
	}
	return res
}

func c17Bucket(x float64) string {
	switch {
	case !(x > 0):
		return "<=0"
	case x <= 1e-12:
		return "<=1e-12"
	case x <= 1e-10:
		return "<=1e-10"
	case x <= 1e-9:
		return "<=1e-9"
	case x <= 1e-8:
		return "<=1e-8"
	case x <= 1e-7:
		return "<=1e-7"
	case x <= 1e-6:
		return "<=1e-6"
	case x <= 1e-5:
		return "<=1e-5"
	case x <= 1e-4:
		return "<=1e-4"
	case x <= 1e-3:
		return "<=1e-3"
	}
	return ">1e-3"
}

// single checks every clause that speaks about one matrix.
func (k *c17Checker) single(r *c17Res) {
	c, cs := k.c, k.cs
	n := len(r.seqs)
	at := func(i, j int) string {
		return fmt.Sprintf("d[%d][%d]=%.10g for rows %v weights %v", i, j, r.d[i][j], r.seqs, r.w)
	}
	var eig *c17Eig
	nontrivial := false
	if !cs.ModelFreqs && r.pi != nil {
		k.frequenciesFollowCounts(r)
	}
	for i := 0; i < n; i++ {
		if x := r.d[i][i]; math.IsNaN(x) || math.Abs(x) > c17Zero {
			k.viol("diagonal", "diagonal entry is not 0: "+at(i, i))
		}
		for j := i + 1; j < n; j++ {
			d := r.d[i][j]
			switch {
			case math.IsNaN(d) || math.IsNaN(r.d[j][i]):
				k.viol("range/not-a-number", at(i, j))
				continue
			case math.Abs(d-r.d[j][i]) > c17Zero:
				k.viol("symmetry", at(i, j)+" but "+at(j, i))
			}
			if d < 0 {
				k.viol("range/negative", "distance below 0: "+at(i, j))
				c.Outcome(cs.cfgKey() + "|negative")
				continue
			}
			if d > c17Cap {
				k.viol("range/above-cap", "distance above 20: "+at(i, j))
				continue
			}
			if !c17Differs(r.seqs[i], r.seqs[j]) {
				if d > c17Zero {
					k.viol("no-difference-not-zero", "rows without any unambiguous difference are not at 0: "+at(i, j))
				} else {
					c.Outcome(cs.cfgKey() + "|nodiff-zero")
				}
				continue
			}
			if d == c17Cap {
				c.Outcome(cs.cfgKey() + "|cap")
				c.Outcome(c17ModelNames[cs.Model] + "|cap")
				c.Count("pairs_at_cap", 1)
				continue
			}
			// likelihood clause
			FG := c17F(r.seqs[i], r.seqs[j], r.w, c17Selected(r.seqs, cs.RmGaps, false))
			FA := FG
			if cs.RmGaps {
				FA = c17F(r.seqs[i], r.seqs[j], r.w, c17Selected(r.seqs, true, true))
			}
			tables := [][]c17Cell{FG}
			if !c17SameF(FG, FA) {
				tables = append(tables, FA)
				c.Count("pairs_two_readings_of_rm_gaps", 1)
			}
			if eig == nil {
				var err error
				if cs.ModelFreqs {
					if eig = c17EigCache[cs.Model]; eig == nil {
						var problem string
						if eig, problem = c17IndepEig(cs.Model, nil); problem != "" {
							eig, err = c17NewEig(cs.Model, nil)
							c.Count("oracle_fallback_on_exported_eigensystem", 1)
						}
						if err == nil {
							c17EigCache[cs.Model] = eig
						}
					}
				} else {
					var problem string
					if eig, problem = c17IndepEig(cs.Model, r.pi); problem != "" {
						eig, err = c17NewEig(cs.Model, r.pi)
						c.Count("oracle_fallback_on_exported_eigensystem", 1)
					} else {
						c.Count("oracle_independent_eigensystem_user_freqs", 1)
					}
				}
				if err != nil {
					c.Fatal("oracle cannot obtain the eigen-system for %s: %v", jsonStr(cs), err)
					return
				}
			}
			ok, flat := false, false
			var worst string
			var worstClause string
			for _, F := range tables {
				if F == nil {
					// no comparable selected column: the likelihood does not depend on d
					ok, flat = true, true
					break
				}
				l0, gl, ga, nl, na := c17Best(eig, F, d, cs.Alpha)
				if math.IsNaN(l0) {
					c.Fatal("oracle likelihood is NaN at d=%v for %s", d, jsonStr(cs))
					return
				}
				// a candidate is better when its log-likelihood exceeds that of the
				// reported distance by more than the tolerance (by anything at all
				// when the reported distance has likelihood 0)
				gg, ng := gl-l0, nl-l0
				var gBad, nBad bool
				if math.IsInf(l0, -1) {
					gg, ng = math.Inf(1), math.Inf(1)
					gBad, nBad = !math.IsInf(gl, -1), !math.IsInf(nl, -1)
				} else {
					tol := c17LkTl * math.Max(1, math.Abs(l0))
					gBad, nBad = gg > tol, ng > tol
				}
				if !gBad && !nBad {
					ok = true
					c.Count("lk_gap_"+c17Bucket(math.Max(gg, ng)), 1)
					break
				}
				if gBad {
					worstClause = "not-a-likelihood-maximum/grid-point-better"
					worst = fmt.Sprintf("lnL(%.10g)=%.12g but lnL(%.10g) is higher by %.3g", d, l0, ga, gg)
				} else {
					worstClause = "not-a-likelihood-maximum/nearby-point-better"
					worst = fmt.Sprintf("lnL(%.10g)=%.12g but lnL(%.10g) is higher by %.3g", d, l0, na, ng)
				}
			}
			switch {
			case !ok:
				k.viol(worstClause, worst+": "+at(i, j))
			case flat:
				c.Outcome(cs.cfgKey() + "|no-comparable-site")
			default:
				nontrivial = true
				class := "ml-interior"
				if d <= c17Zero {
					class = "ml-at-lower-end"
				}
				c.Outcome(cs.cfgKey() + "|" + class)
				c.Outcome(c17ModelNames[cs.Model] + "|" + class)
				c.Count("pairs_likelihood_checked", 1)
				if class == "ml-interior" {
					c.Count("pairs_likelihood_checked_interior", 1)
					if n == 3 && cs.RmGaps && r.w != nil && !cs.ModelFreqs && cs.Alpha > 0 {
						c.Sample(map[string]any{"case": cs, "rows": r.seqs, "i": i, "j": j, "d": d})
					}
				}
			}
		}
	}
	if nontrivial {
		c.Nontrivial(fmt.Sprintf("%s|%v|%d|%s", strings.Join(r.seqs, "/"), r.w, cs.Model, cs.cfgKey()))
	}
}

// ---- permutations

// frequenciesFollowCounts: how "empirical frequencies" are estimated (pseudo-counts, share given to
// ambiguous residues) is not fixed by the statement, but they are the frequencies of the amino acids in
// the columns taken into account: two amino acids with the same (weighted) count have the same
// frequency, and a larger count never gives a smaller frequency.  Counts are taken under both readings
// of gap-site removal; a violation needs both to disagree with the model's frequencies.
func (k *c17Checker) frequenciesFollowCounts(r *c17Res) {
	var problems []string
	for _, wide := range []bool{false, true} {
		if wide && !k.cs.RmGaps {
			break
		}
		sel := c17Selected(r.seqs, k.cs.RmGaps, wide)
		var cnt [20]float64
		tot := 0.0
		for _, s := range r.seqs {
			for l := 0; l < len(s); l++ {
				if sel[l] && c17Unamb(s[l]) {
					x := 1.0
					if r.w != nil {
						x = r.w[l]
					}
					cnt[c17Idx[s[l]]] += x
					tot += x
				}
			}
		}
		problem := ""
		tol := 1e-9 * math.Max(1, tot)
	scan:
		for a := 0; a < 20; a++ {
			for b := 0; b < 20; b++ {
				switch {
				case math.Abs(cnt[a]-cnt[b]) <= tol && math.Abs(r.pi[a]-r.pi[b]) > 1e-9:
					problem = fmt.Sprintf("%c and %c both count %g but have frequencies %.12g and %.12g", c17AAs[a], c17AAs[b], cnt[a], r.pi[a], r.pi[b])
					break scan
				case cnt[a] > cnt[b]+tol && r.pi[a] < r.pi[b]-1e-12:
					problem = fmt.Sprintf("%c counts %g, %c counts %g, but their frequencies are %.12g and %.12g", c17AAs[a], cnt[a], c17AAs[b], cnt[b], r.pi[a], r.pi[b])
					break scan
				}
			}
		}
		if problem == "" {
			k.c.Outcome("empirical-frequencies-follow-counts")
			return
		}
		problems = append(problems, problem)
	}
	k.viol("empirical-frequencies-do-not-follow-counts", fmt.Sprintf("%s: rows %v weights %v", strings.Join(problems, " / "), r.seqs, r.w))
}

func c17IsIdentity(p []int) bool {
	for i, x := range p {
		if i != x {
			return false
		}
	}
	return true
}

func c17Permute(seqs []string, w []float64, rp, cp []int) ([]string, []float64) {
	n, L := len(seqs), len(seqs[0])
	out := make([]string, n)
	for i := 0; i < n; i++ {
		src := seqs[i]
		if rp != nil {
			src = seqs[rp[i]]
		}
		if cp == nil {
			out[i] = src
			continue
		}
		b := make([]byte, L)
		for l := 0; l < L; l++ {
			b[l] = src[cp[l]]
		}
		out[i] = string(b)
	}
	var wo []float64
	if w != nil {
		wo = make([]float64, L)
		for l := 0; l < L; l++ {
			if cp != nil {
				wo[l] = w[cp[l]]
			} else {
				wo[l] = w[l]
			}
		}
	}
	return out, wo
}

func c17ValidPerm(p []int, n int) bool {
	if p == nil {
		return true
	}
	if len(p) != n {
		return false
	}
	seen := make([]bool, n)
	for _, x := range p {
		if x < 0 || x >= n || seen[x] {
			return false
		}
		seen[x] = true
	}
	return true
}

// c17Memo keeps the matrix of the last unpermuted case so that the images of
// one alignment do not re-run it (the implementation is deterministic; a
// replay starts with an empty memo and recomputes).
var c17Memo struct {
	key string
	res *c17Res
}

// removalEqualsDeletion: with gap-site removal on ("do not take into account positions containing gaps"), the
// matrix is the one of the alignment whose removed columns (a column holding anything but one of the 20
// residues in some row) are deleted beforehand, computed with removal off, weights travelling with the columns.
func (k *c17Checker) removalEqualsDeletion(r *c17Res) {
	cs := k.cs
	L := len(cs.Seqs[0])
	var keep []int
	for j := 0; j < L; j++ {
		ok := true
		for _, s := range cs.Seqs {
			if !strings.ContainsRune("ARNDCQEGHILKMFPSTWYV", rune(s[j])) {
				ok = false
			}
		}
		if ok {
			keep = append(keep, j)
		}
	}
	if len(keep) == L || len(keep) == 0 {
		return
	}
	red := make([]string, len(cs.Seqs))
	for i, s := range cs.Seqs {
		b := make([]byte, len(keep))
		for x, j := range keep {
			b[x] = s[j]
		}
		red[i] = string(b)
	}
	var w []float64
	if cs.Weights != nil {
		for _, j := range keep {
			w = append(w, cs.Weights[j])
		}
	}
	k2 := &c17Checker{c: k.c, cs: cs}
	k2.cs.RmGaps, k2.cs.Seqs, k2.cs.Weights = false, red, w
	img := k2.exec(red, w)
	if img == nil {
		return
	}
	for i := range r.d {
		for j := range r.d {
			x, y := r.d[i][j], img.d[i][j]
			if math.IsNaN(x) || math.IsNaN(y) {
				continue
			}
			if df := math.Abs(x-y) / math.Max(1, math.Max(math.Abs(x), math.Abs(y))); df > c17Perm {
				k.viol("gap-site-removal-differs-from-deleting-the-columns", fmt.Sprintf("d(%d,%d) = %.10g with gap-site removal, %.10g on the alignment %v whose removed columns are deleted (removal off)", i, j, x, y, red))
				return
			}
		}
	}
	k.c.Outcome(cs.cfgKey() + "|removal-equals-deletion")
}

func c17BaseKey(cs c17Case) string {
	cs.RowPerm, cs.ColPerm = nil, nil
	return jsonStr(cs)
}

func c17Check(c *mc.Ctx, cs c17Case) {
	if len(cs.Seqs) < 2 || len(cs.Seqs[0]) == 0 || !c17ValidPerm(cs.RowPerm, len(cs.Seqs)) || !c17ValidPerm(cs.ColPerm, len(cs.Seqs[0])) ||
		(cs.Weights != nil && len(cs.Weights) != len(cs.Seqs[0])) {
		c.Fatal("malformed case %s", jsonStr(cs))
		return
	}
	if cs.RowPerm != nil && c17IsIdentity(cs.RowPerm) {
		cs.RowPerm = nil
	}
	if cs.ColPerm != nil && c17IsIdentity(cs.ColPerm) {
		cs.ColPerm = nil
	}
	c.Mark(cs)
	k := &c17Checker{c: c, cs: cs}
	key := c17BaseKey(cs)
	if cs.RowPerm == nil && cs.ColPerm == nil {
		r := k.exec(cs.Seqs, cs.Weights)
		c17Memo.key, c17Memo.res = key, r
		if r != nil {
			k.single(r)
			if cs.RmGaps && !cs.Prior && !cs.Reuse {
				k.removalEqualsDeletion(r)
			}
		}
		return
	}
	base := c17Memo.res
	if c17Memo.key != key {
		base = k.exec(cs.Seqs, cs.Weights)
		c17Memo.key, c17Memo.res = key, base
	}
	if base == nil {
		return
	}
	iseqs, iw := c17Permute(cs.Seqs, cs.Weights, cs.RowPerm, cs.ColPerm)
	img := base
	if strings.Join(iseqs, "/") != strings.Join(cs.Seqs, "/") || fmt.Sprint(iw) != fmt.Sprint(cs.Weights) {
		if img = k.exec(iseqs, iw); img == nil {
			return
		}
		k.single(img)
	} else {
		c.Count("automorphisms_checked", 1)
	}
	// the image's matrix must be the row-permuted matrix of the base
	n := len(cs.Seqs)
	worst, wi, wj := 0.0, 0, 0
	for i := 0; i < n; i++ {
		for j := 0; j < n; j++ {
			bi, bj := i, j
			if cs.RowPerm != nil {
				bi, bj = cs.RowPerm[i], cs.RowPerm[j]
			}
			x, y := img.d[i][j], base.d[bi][bj]
			if math.IsNaN(x) || math.IsNaN(y) {
				continue // reported by the range clause
			}
			if df := math.Abs(x-y) / math.Max(1, math.Max(math.Abs(x), math.Abs(y))); df > worst {
				worst, wi, wj = df, i, j
			}
		}
	}
	c.Count("perm_diff_"+cs.freqName()+"_"+c17Bucket(worst), 1)
	if worst > c17Perm {
		clause := "row-permutation/"
		what := "reordering the rows does not merely permute the matrix"
		if cs.RowPerm == nil {
			clause = "column-permutation/"
			what = "reordering the columns changes the matrix"
		} else if cs.ColPerm != nil {
			clause = "row-and-column-permutation/"
			what = "reordering rows and columns does not merely permute the matrix"
		}
		bi, bj := wi, wj
		if cs.RowPerm != nil {
			bi, bj = cs.RowPerm[wi], cs.RowPerm[wj]
		}
		k.viol(clause+cs.freqName(), fmt.Sprintf("%s: rows %v weights %v give d[%d][%d]=%.10g, rows %v weights %v give d[%d][%d]=%.10g",
			what, cs.Seqs, cs.Weights, bi, bj, base.d[bi][bj], iseqs, iw, wi, wj, img.d[wi][wj]))
		return
	}
	c.Outcome(cs.cfgKey() + "|permutation-agrees")
}

// ---- enumeration

// c17Block is one family of inputs: every nrows x L alignment over alpha,
// without weights (weighted=false) or with the site weights (1,2,…,L) in every
// arrangement (weighted=true).
type c17Block struct {
	name     string
	nrows, L int
	alpha    string // alphabet in the thorough tier
	qalpha   string // alphabet in the quick tier ("" = block not in the quick tier)
	weighted bool
}

const c17Sigma6 = "ARW-X*"

// Simplest first.  The blocks of one tier are pairwise disjoint (different
// shape or different weights) and each is closed under row and column
// rearrangement, so every input is executed exactly once, as an image of its
// smallest rearrangement.
var c17Blocks = []c17Block{
	{name: "n2L1", nrows: 2, L: 1, alpha: c17Sigma6, qalpha: c17Sigma6},
	{name: "n2L1w", nrows: 2, L: 1, alpha: c17Sigma6, qalpha: c17Sigma6, weighted: true},
	{name: "n3L1", nrows: 3, L: 1, alpha: c17Sigma6, qalpha: c17Sigma6},
	{name: "n3L1w", nrows: 3, L: 1, alpha: c17Sigma6, qalpha: c17Sigma6, weighted: true},
	{name: "n2L2", nrows: 2, L: 2, alpha: c17Sigma6, qalpha: c17Sigma6},
	{name: "n2L2w", nrows: 2, L: 2, alpha: c17Sigma6, qalpha: "AR-X", weighted: true},
	{name: "n2L3", nrows: 2, L: 3, alpha: "ARW-X", qalpha: "ARW"},
	{name: "n2L3w", nrows: 2, L: 3, alpha: "ARW", qalpha: "AR", weighted: true},
	{name: "n3L2", nrows: 3, L: 2, alpha: "AR-X", qalpha: "AR-"},
	{name: "n3L2w", nrows: 3, L: 2, alpha: "AR-", weighted: true},
	{name: "n2L4", nrows: 2, L: 4, alpha: "ARW"},
}

func (b c17Block) alphabet(tier string) string {
	if tier == "thorough" {
		return b.alpha
	}
	return b.qalpha
}

func c17BoundText(tier string) string {
	var parts []string
	for _, b := range c17Blocks {
		if a := b.alphabet(tier); a != "" {
			w := "no weights"
			if b.weighted {
				w = "weights = every arrangement of (1..L)"
			}
			parts = append(parts, fmt.Sprintf("%d rows x %d columns over {%s}, %s", b.nrows, b.L, a, w))
		}
	}
	return strings.Join(parts, "; ")
}

var c17PermCache = map[int][][]int{}

var c17Evals int64 // executions in this process (per-block counters)

// c17Perms lists the permutations of 0..n-1, identity first.
func c17Perms(n int) [][]int {
	if p, ok := c17PermCache[n]; ok {
		return p
	}
	var out [][]int
	perms(n, func(p []int) { out = append(out, append([]int{}, p...)) })
	sort.Slice(out, func(a, b int) bool {
		for i := range out[a] {
			if out[a][i] != out[b][i] {
				return out[a][i] < out[b][i]
			}
		}
		return false
	})
	c17PermCache[n] = out
	return out
}

// c17Orbit runs, for an alignment that is the smallest of its images, every
// distinct image (so that each alignment of a block is executed exactly once,
// as a member of exactly one orbit) and the alignment's own symmetries.
// Without weights the images are all row x column rearrangements; with weights
// (1,…,L) travelling with the columns every column order is a different input,
// so the representative only has to be smallest among its row orders.
func c17Orbit(c *mc.Ctx, cfg c17Case, seqs []string, weighted bool) {
	n, L := len(seqs), len(seqs[0])
	rps, cps := c17Perms(n), c17Perms(L)
	self := strings.Join(seqs, "/")
	var w []float64
	if weighted {
		w = make([]float64, L)
		for l := range w {
			w[l] = float64(l + 1)
		}
	}
	for _, rp := range rps {
		for _, cp := range cps {
			if weighted && !c17IsIdentity(cp) {
				continue
			}
			if im, _ := c17Permute(seqs, nil, rp, cp); strings.Join(im, "/") < self {
				return
			}
		}
	}
	selfKey := self + fmt.Sprint(w)
	seen := map[string]bool{}
	for _, rp := range rps {
		for _, cp := range cps {
			im, iw := c17Permute(seqs, w, rp, cp)
			key := strings.Join(im, "/") + fmt.Sprint(iw)
			if seen[key] && key != selfKey {
				continue
			}
			seen[key] = true
			cs := cfg
			cs.Seqs, cs.Weights, cs.RowPerm, cs.ColPerm = seqs, w, rp, cp
			c17Check(c, cs)
			if c.Expired() {
				return
			}
		}
	}
}

func c17Tasks(tier string) []mc.Task {
	var ts []mc.Task
	for _, b := range c17Blocks {
		alpha := b.alphabet(tier)
		if alpha == "" {
			continue
		}
		b := b
		for _, model := range c17Models {
			for _, mf := range []bool{true, false} {
				for _, ga := range c17Alphas {
					for _, rm := range []bool{false, true} {
						cfg := c17Case{Model: model, ModelFreqs: mf, Alpha: ga, RmGaps: rm}
						name := fmt.Sprintf("%s#%s/mf=%t/alpha=%v/rm=%t", b.name, c17ModelNames[model], mf, ga, rm)
						ts = append(ts, mc.Task{Name: name, Run: func(c *mc.Ctx) {
							defer func(e0 int64) { c.Count("evaluations_"+b.name, c17Evals-e0) }(c17Evals)
							forEachAlignment(alpha, b.nrows, b.L, func(seqs []string) bool {
								c17Orbit(c, cfg, seqs, b.weighted)
								return !c.Expired()
							})
						}})
					}
				}
			}
		}
	}
	// near-identical pairs: weights 999:1 and 399:1 make one differing column weigh as one difference in
	// 1000 / 400 sites (ML distances of a few 1e-3, below the first point of any coarse grid); every 2x2
	// alignment over {A,R,W,C}, both weight orders, every model and configuration
	for _, model := range c17Models {
		model := model
		ts = append(ts, mc.Task{Name: fmt.Sprintf("heavyweights#%s", c17ModelNames[model]), Run: func(c *mc.Ctx) {
			for _, mf := range []bool{true, false} {
				for _, ga := range c17Alphas {
					for _, wts := range [][]float64{{999, 1}, {1, 999}, {399, 1}} {
						forEachAlignment("ARWC", 2, 2, func(seqs []string) bool {
							// the heavy column is identical in the two rows (the near-identical regime; with the
							// heavy column differing the pair is near saturation, where the likelihood is flat)
							for l, wt := range wts {
								if wt > 1 && seqs[0][l] != seqs[1][l] {
									return true
								}
							}
							c17Check(c, c17Case{Seqs: seqs, Model: model, ModelFreqs: mf, Alpha: ga, Weights: wts, RowPerm: []int{0, 1}, ColPerm: []int{0, 1}})
							return !c.Expired()
						})
					}
				}
			}
		}})
	}
	// the scale of the weights does not enter the maximiser: weights of 1e-5 .. 1e-4 per column (a pair then
	// weighs far less than any absolute threshold), weights normalised to sum 1 with a pair that has a single
	// light column in common, and the same multiplied by 1e5; every 2x2 alignment over {A,R,W} and a 3x3 family
	for _, model := range c17Models {
		model := model
		ts = append(ts, mc.Task{Name: fmt.Sprintf("weight-scale#%s", c17ModelNames[model]), Run: func(c *mc.Ctx) {
			for _, mf := range []bool{true, false} {
				for _, ga := range []float64{0, 0.5} {
					for _, wts := range [][]float64{{1e-5, 1e-5}, {2e-5, 1e-5}, {1e-4, 3e-4}, {1.0 / 4096, 1.0 / 4096}, {1e5, 2e5}} {
						forEachAlignment("ARW", 2, 2, func(seqs []string) bool {
							c17Check(c, c17Case{Seqs: seqs, Model: model, ModelFreqs: mf, Alpha: ga, Weights: wts})
							return !c.Expired()
						})
					}
					for _, light := range []float64{0.0005, 1.0 / 1500, 0.002} {
						w := []float64{light, (1 - light) / 2, (1 - light) / 2}
						for _, first := range []string{"AAR", "ARW", "RRA"} {
							// the third row shares only the first (light) column with the others
							c17Check(c, c17Case{Seqs: []string{first, "AR" + first[2:], first[:1] + "--"}, Model: model, ModelFreqs: mf, Alpha: ga, Weights: w})
							c17Check(c, c17Case{Seqs: []string{first, "AR" + first[2:], "R--"}, Model: model, ModelFreqs: mf, Alpha: ga, Weights: w})
						}
					}
				}
			}
		}})
	}
	// composition dominated by one amino acid (a low-complexity alignment): the 20 amino acids once each, the
	// L column weighing 19000 or 1999 sites, plus every pair of columns over {L,A,R}; with empirical
	// frequencies the scaled rate matrix then has eigen values far below -745, where exp(lambda) alone is 0
	// although exp(lambda*d) is not for the short distances of such pairs
	for _, model := range c17Models {
		model := model
		ts = append(ts, mc.Task{Name: fmt.Sprintf("skewed-composition#%s", c17ModelNames[model]), Run: func(c *mc.Ctx) {
			for _, heavy := range []float64{19000, 1999} {
				if heavy != 19000 && tier != "thorough" {
					continue
				}
				for _, ga := range c17Alphas {
					if ga != 0 && ga != 0.5 {
						continue
					}
					w := make([]float64, 22)
					for i := range w {
						w[i] = 1
					}
					w[strings.IndexByte(c17AAs, 'L')] = heavy
					forEachAlignment("LAR", 2, 2, func(tail []string) bool {
						seqs := []string{c17AAs + tail[0], c17AAs + tail[1]}
						c17Check(c, c17Case{Seqs: seqs, Model: model, ModelFreqs: false, Alpha: ga, Weights: w})
						return !c.Expired()
					})
				}
			}
		}})
	}
	// gamma off, a shape handed over all the same (0.7, 2): every 2x2 alignment over {A,R,W}
	for _, model := range c17Models {
		model := model
		ts = append(ts, mc.Task{Name: fmt.Sprintf("stray-alpha#%s", c17ModelNames[model]), Run: func(c *mc.Ctx) {
			for _, mf := range []bool{true, false} {
				for _, sa := range []float64{0.7, 2} {
					forEachAlignment("ARW", 2, 2, func(seqs []string) bool {
						c17Check(c, c17Case{Seqs: seqs, Model: model, ModelFreqs: mf, StrayAlpha: sa})
						return !c.Expired()
					})
				}
			}
		}})
	}
	// lower-case residues (soft-masked regions, files written in lower case): every 2x3 alignment over {A,a,r}
	for _, model := range c17Models {
		model := model
		ts = append(ts, mc.Task{Name: fmt.Sprintf("lowercase#%s", c17ModelNames[model]), Run: func(c *mc.Ctx) {
			for _, mf := range []bool{true, false} {
				for _, ga := range c17Alphas {
					if ga != 0 && ga != 0.5 && tier != "thorough" {
						continue
					}
					cfg := c17Case{Model: model, ModelFreqs: mf, Alpha: ga}
					forEachAlignment("Aar", 2, 3, func(seqs []string) bool {
						c17Orbit(c, cfg, seqs, false)
						return !c.Expired()
					})
				}
			}
		}})
	}
	// weights together with gap-site removal on three columns: a removed column in front of columns of
	// different weights (the weight of a column travels with the column, not with its rank among the kept ones)
	for _, model := range c17Models {
		model := model
		for _, mf := range []bool{true, false} {
			mf := mf
			ts = append(ts, mc.Task{Name: fmt.Sprintf("weights-rmgaps#%s/mf=%t", c17ModelNames[model], mf), Run: func(c *mc.Ctx) {
				for _, ga := range c17Alphas {
					if ga != 0 && tier != "thorough" {
						continue
					}
					cfg := c17Case{Model: model, ModelFreqs: mf, Alpha: ga, RmGaps: true}
					forEachAlignment("AR-", 2, 3, func(seqs []string) bool {
						if strings.Contains(seqs[0]+seqs[1], "-") {
							c17Orbit(c, cfg, seqs, true)
						}
						return !c.Expired()
					})
				}
			}})
		}
		// the same model object served the column-reversed alignment before (gap-site removal on and off)
		ts = append(ts, mc.Task{Name: fmt.Sprintf("model-reused#%s", c17ModelNames[model]), Run: func(c *mc.Ctx) {
			for _, mf := range []bool{true, false} {
				for _, rm := range []bool{true, false} {
					forEachAlignment("AR-", 2, 3, func(seqs []string) bool {
						if strings.Contains(seqs[0]+seqs[1], "-") || !rm {
							c17Check(c, c17Case{Seqs: seqs, Model: model, ModelFreqs: mf, RmGaps: rm, Reuse: true})
						}
						return !c.Expired()
					})
				}
			}
		}})
		// another model object of the same matrix served before (other frequency setting, skewed data)
		ts = append(ts, mc.Task{Name: fmt.Sprintf("prior-model#%s", c17ModelNames[model]), Run: func(c *mc.Ctx) {
			for _, mf := range []bool{true, false} {
				for _, rm := range []bool{false, true} {
					forEachAlignment("ARW", 2, 2, func(seqs []string) bool {
						c17Check(c, c17Case{Seqs: seqs, Model: model, ModelFreqs: mf, RmGaps: rm, Prior: true})
						return !c.Expired()
					})
				}
			}
		}})
	}
	return ts
}

func c17Vacuity(tier string, t *mc.Totals) error {
	minEval, minInterior := int64(400000), int64(80000)
	if tier == "thorough" {
		minEval, minInterior = 3000000, 1000000
	}
	if t.Evaluations < minEval || t.Extra["pairs_likelihood_checked_interior"] < minInterior {
		return fmt.Errorf("only %d executions / %d distances below the cap checked against the likelihood oracle", t.Evaluations, t.Extra["pairs_likelihood_checked_interior"])
	}
	has := func(k string) bool { _, ok := t.OutcomeSet[k]; return ok }
	var missing []string
	for _, m := range c17Models {
		for _, class := range []string{"ml-interior", "cap"} {
			if k := c17ModelNames[m] + "|" + class; !has(k) {
				missing = append(missing, k)
			}
		}
	}
	for _, mf := range []bool{true, false} {
		for _, ga := range c17Alphas {
			for _, rm := range []bool{false, true} {
				for _, w := range []bool{false, true} {
					cfg := c17Case{ModelFreqs: mf, Alpha: ga, RmGaps: rm}
					if w {
						cfg.Weights = []float64{1}
					}
					for _, class := range []string{"ml-interior", "cap", "nodiff-zero", "permutation-agrees"} {
						if k := cfg.cfgKey() + "|" + class; !has(k) {
							missing = append(missing, k)
						}
					}
					// gap-site removal must have removed the only differing column of some pair
					// (likelihood maximal at the lower end) and every comparable column of another
					// (needs 3 rows and 2 columns: with weights only in the thorough tier)
					if rm && (!w || tier == "thorough") && !has(cfg.cfgKey()+"|ml-at-lower-end") {
						missing = append(missing, cfg.cfgKey()+"|ml-at-lower-end")
					}
					if rm && !has(cfg.cfgKey()+"|no-comparable-site") && !has(cfg.cfgKey()+"|negative") {
						missing = append(missing, cfg.cfgKey()+"|no-comparable-site")
					}
				}
			}
		}
	}
	if len(missing) > 0 {
		return fmt.Errorf("%d outcome classes never observed, e.g. %v", len(missing), missing[:min(5, len(missing))])
	}
	return nil
}

func init() {
	mc.Register(&mc.Prop{
		ID:    "C17",
		Level: "exploration",
		Rule: "(on every case with gap-site removal on and a removable column: the matrix equals the one of the alignment with those columns deleted, removal off; also: all 2x3 alignments over {A,R,-} computed by a model object that first served the column-reversed alignment and one with another first row (whose matrix, kept by the caller, must read as before afterwards); all 2x3 alignments over {A,R,-} holding a gap, gap-site removal on, weights = every arrangement of (1,2,3); all 2x2 alignments over {A,R,W} computed after another model object of the same matrix, with the other and then the same frequency setting, served on skewed data; the 20 amino acids once each with the L column weighing 19000 (thorough also 1999) sites followed by every pair of columns over {L,A,R}, empirical frequencies (composition dominated by one amino acid: eigen values of the scaled rate matrix far below -745; cells of the pair table below 0.1% of the weight); every 2x3 alignment over {A,a,r} (lower-case residues are the same amino acids); every 2x2 alignment over {A,R,W} with gamma off and a shape 0.7 / 2 handed to the constructor all the same; with empirical frequencies the frequencies the model ends up with follow the weighted counts of the columns taken into account - equal counts, equal frequencies; larger count, frequency not smaller;) bounded-exhaustive enumeration of protein.NewProtDistModel + InitModel + MLDist on a lattice. Configurations: all 7 empirical models (LG, JTT, WAG, Dayhoff, MtREV, HIVb, AB) x {model, empirical} frequencies x gamma {off, alpha 0.5, 1, 2} x gap-site removal {off, on}. " +
			"Inputs, quick tier: every alignment of " + c17BoundText("quick") + ". Thorough tier: " + c17BoundText("thorough") + ". " +
			"Every input is executed once (a fresh model per execution) and its matrix is compared with the matrix of its smallest row/column rearrangement, so that every row order and every column order (weights travelling with their columns) of every alignment is covered; symmetries of an alignment (equal rows, equal columns) are checked on its own matrix. " +
			"Clauses per matrix: square of the right size, no NaN, |d_ii| <= 1e-6, |d_ij - d_ji| <= 1e-6, 0 <= d_ij <= 20 (exact), d_ij <= 1e-6 when no column holds two different unambiguous residues, " +
			"and for 0 <= d_ij < 20 of a pair with a difference: lnL(d') - lnL(d_ij) <= 1e-5*max(1,|lnL(d_ij)|) for every d' on the 200-point log grid of [1e-8, 20] and d' in {d(1-1e-3), d(1+1e-3), d-1e-4, d+1e-4} within [1e-8, 20], " +
			"where lnL(d) = sum_ij F_ij log(pi_i P_ij(d)) is computed by the oracle: F = weighted frequencies of the unambiguous residue pairs over the columns taken into account, P(d) = R diag(f(lambda_k d)) R^-1 from an eigen-system the harness builds itself (rate matrix assembled from the model's exchangeabilities and the frequency vector in use, scaled to one substitution per unit time, decomposed by the harness' own Jacobi solver; the exported eigen-system of models/protein is only a fallback for frequencies outside the open simplex), f = exp without gamma and (1 - lambda d/alpha)^-alpha with gamma. " +
			"Permutation clauses: |image - permuted base| <= 1e-3*max(1, value) entrywise. " +
			"An execution is non-trivial when at least one of its distances was below 20 and compared with the likelihood candidates on a non-empty F; distinct = distinct (alignment, weights, configuration).",
		Assumptions: []string{
			"the exchangeability tables of models/protein are the published ones (read from goalign's data functions, checked for symmetry only)",
			"with empirical frequencies neither the statement nor the documentation fixes how the frequencies are estimated: the oracle reads the frequency vector the implementation's model ended up with (unexported field, by reflection) and asks models/protein for the eigen-system of the same matrix with these frequencies; order dependence of the estimate is caught by the permutation clauses",
			"--rm-gaps is documented as 'do not take into account positions containing >=1 gaps': a column is dropped when any row has '-' there; whether X or * also count is not said, so where the two readings give different pair frequencies a distance is accepted when it is a maximiser under either",
			"a pair whose only differences lie in dropped columns is not required to be at exactly 0 by the 'no unambiguous difference' clause; it is checked by the likelihood clause (an empty F makes every distance a maximiser)",
			"a reported distance equal to 20 carries no likelihood claim (statement: 'when below the saturation cap of 20')",
			"site weights are positive integers; zero, fractional or negative weights are outside the bound",
			"residues are upper-case; only A, R, W of the 20 amino acids occur (the optimiser, masking and matrix code does not depend on which residues are used; the seven rate matrices themselves are C18's subject)",
		},
		Tasks: c17Tasks,
		Replay: func(c *mc.Ctx, payload json.RawMessage) {
			var cs c17Case
			if err := json.Unmarshal(payload, &cs); err != nil {
				c.Fatal("bad payload: %v", err)
				return
			}
			c17Memo.key, c17Memo.res = "", nil
			c17Check(c, cs)
		},
		Vacuity: c17Vacuity,
	})
}
