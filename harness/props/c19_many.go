package props

import (
	"fmt"
	"sort"
	"strconv"

	"verif/harness/mc"

	"github.com/evolbioinfo/goalign/align"
)

// Containers with many rows: an implementation may take another route above a
// row-count threshold (copy the rows in blocks, by several workers).  The
// ownership clause is decided on the copy-producing operations for row counts
// around 1000 and 1024 and at counts that no block size of 2..8 divides.

var c19ManyCounts = []int{999, 1000, 1001, 1002, 1003, 1023, 1024, 1025, 1027, 2051}
var c19ManyOps = []string{"Clone", "CloneSeqBag", "SubAlign", "SelectSites", "CloneAlign"}

func c19ManyBuild(n int) align.Alignment {
	al := align.NewAlign(align.NUCLEOTIDS)
	for i := 0; i < n; i++ {
		s := []byte{"ACGT"[i%4], "ACGT-"[i%5], "ca"[i%2]}
		if err := al.AddSequence(fmt.Sprintf("r%04d", i), string(s), ""); err != nil {
			return nil
		}
	}
	return al
}

func c19ManyDerive(al align.Alignment, op string) (align.SeqBag, error) {
	switch op {
	case "Clone":
		return al.Clone()
	case "CloneAlign":
		sb, err := al.Clone()
		if err != nil {
			return nil, err
		}
		return sb.Clone() // a copy of a copy
	case "CloneSeqBag":
		return al.CloneSeqBag()
	case "SubAlign":
		return al.SubAlign(0, al.Length())
	case "SelectSites":
		return al.SelectSites([]int{0, 1, 2})
	}
	return nil, fmt.Errorf("unknown operation %s", op)
}

// c19SharesFast: the decision of c19Shares by a sweep over the sorted row
// buffers (n log n).
func c19SharesFast(a, b *align.VerifState) string {
	type iv struct {
		lo, hi uintptr
		side   int
		row    int
	}
	var v []iv
	objs := map[uintptr]int{}
	for i, r := range a.Rows {
		if r.Obj != 0 {
			objs[r.Obj] = i
		}
		if r.Cap > 0 {
			v = append(v, iv{r.Buf, r.Buf + uintptr(r.Cap), 0, i})
		}
	}
	for j, r := range b.Rows {
		if i, ok := objs[r.Obj]; ok && r.Obj != 0 {
			return fmt.Sprintf("row %d of the result IS row object %d of the original", j, i)
		}
		if r.Cap > 0 {
			v = append(v, iv{r.Buf, r.Buf + uintptr(r.Cap), 1, j})
		}
	}
	sort.Slice(v, func(i, j int) bool { return v[i].lo < v[j].lo })
	// furthest end seen so far on each side
	var end [2]uintptr
	var who [2]int
	for _, x := range v {
		o := 1 - x.side
		if end[o] > x.lo {
			return fmt.Sprintf("row %d of side %d is stored inside the buffer of row %d of the other container", x.row, x.side, who[o])
		}
		if x.hi > end[x.side] {
			end[x.side], who[x.side] = x.hi, x.row
		}
	}
	return ""
}

func c19ManyProbe(c *mc.Ctx, n int, op string) {
	cs := &c19Case{Op: "many-rows:" + op, Arg: strconv.Itoa(n)}
	c.Eval()
	c.Transition(1)
	viol := func(clause, desc string) {
		c.Violation("C19/many-rows/"+op+"/"+clause, fmt.Sprintf("%s on an alignment of %d rows x 3 columns: %s", op, n, desc), cs)
	}
	al := c19ManyBuild(n)
	if al == nil {
		c.Fatal("cannot build %d rows", n)
		return
	}
	before := c19Snapshot(al)
	d, err := c19ManyDerive(al, op)
	if err != nil || d == nil {
		viol("refused", fmt.Sprintf("error %v", err))
		return
	}
	if cl, _ := c19Diff(before, c19Snapshot(al)); cl != "" {
		viol("input-modified/"+cl, "the alignment it was called on is not what it was")
		return
	}
	dsnap := c19Snapshot(d)
	if len(dsnap.St.Rows) != n {
		viol("rows", fmt.Sprintf("%d rows in the result", len(dsnap.St.Rows)))
		return
	}
	for i, r := range dsnap.St.Rows {
		if r.Seq != before.St.Rows[i].Seq || r.Name != before.St.Rows[i].Name {
			viol("content", fmt.Sprintf("row %d of the result is %s/%s", i, r.Name, r.Seq))
			return
		}
	}
	if why := c19SharesFast(before.St, dsnap.St); why != "" {
		viol("copy-shares-storage", why)
		return
	}
	c.Nontrivial("many|" + op + "|" + cs.Arg)
	// in-place edits of one side, row by row: the other side stays what it was
	rowsToTouch := map[int]bool{0: true}
	for k := 1; k <= 9 && k <= n; k++ {
		rowsToTouch[n-k] = true
	}
	for _, q := range []int{n / 8, n / 4, n / 3, n / 2, 2 * n / 3, 3 * n / 4} {
		rowsToTouch[q], rowsToTouch[q-1] = true, true
	}
	for dir, pair := range [][2]align.SeqBag{{d, al}, {al, d}} {
		other := c19Snapshot(pair[1])
		for i := range rowsToTouch {
			if i < 0 || i >= n {
				continue
			}
			c.Transition(1)
			s, ok := pair[0].Sequence(i)
			if !ok {
				continue
			}
			ch := s.SequenceChar()
			for k := range ch {
				ch[k] = '#'
			}
			s.SetName(s.Name() + "'")
			if cl, _ := c19Diff(other, c19Snapshot(pair[1])); cl != "" {
				side := [2]string{"copy", "original"}[dir]
				viol("mutation-shows-through/"+cl, fmt.Sprintf("writing the residues and the name of row %d of the %s changed the other container", i, side))
				return
			}
		}
		c.Count("many_rows_touched:"+op, int64(len(rowsToTouch)))
	}
	c.Outcome("many-rows:" + op + ":independent")
}

func c19ManyTasks() []mc.Task {
	var ts []mc.Task
	for _, op := range c19ManyOps {
		op := op
		ts = append(ts, mc.Task{Name: "many-rows#" + op, Run: func(c *mc.Ctx) {
			for _, n := range c19ManyCounts {
				c19ManyProbe(c, n, op)
			}
		}})
	}
	return ts
}
