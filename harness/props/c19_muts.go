package props

// C19 — the in-place mutators of step 2.  A mutator is named
// "<class>[:<param>…]"; it is applied to whatever container it is given and is
// robust against parameters that do not fit that container (no-op).

import (
	"strconv"
	"strings"

	"verif/harness/mc"

	"github.com/evolbioinfo/goalign/align"
)

var c19CellWriters = []string{
	"write-through-Sequence.SequenceChar",
	"write-through-GetSequenceCharById",
	"write-through-GetSequenceChar",
	"write-through-GetSequenceByName",
	"write-through-SequenceByName",
	"write-through-Sequences",
	"write-through-SequencesChan",
}

// c19MutNames lists the mutators for a target of n rows x L columns.
func c19MutNames(lvl c19Level, n, L int, isAlign bool, alpha int, names []string) []string {
	var out []string
	add := func(s ...string) { out = append(out, s...) }
	p := func(class string, v ...int) string {
		s := class
		for _, x := range v {
			s += ":" + strconv.Itoa(x)
		}
		return s
	}
	type cell struct{ i, j int }
	var all, corners []cell
	for i := 0; i < n; i++ {
		for j := 0; j < L; j++ {
			all = append(all, cell{i, j})
		}
	}
	if n > 0 && L > 0 {
		corners = append(corners, cell{0, 0})
		if n > 1 || L > 1 {
			corners = append(corners, cell{n - 1, L - 1})
		}
	}
	some := corners
	if lvl.Full {
		some = all
	}
	for _, c := range all {
		add(p("SetSequenceChar", c.i, c.j))
	}
	for _, c := range some {
		if isAlign {
			add(p("ReplaceChar", c.i, c.j))
		}
		for _, w := range c19CellWriters {
			add(p(w, c.i, c.j))
		}
	}
	cols := []int{}
	rowsI := []int{}
	if lvl.Full {
		for j := 0; j < L; j++ {
			cols = append(cols, j)
		}
		for i := 0; i < n; i++ {
			rowsI = append(rowsI, i)
		}
	} else {
		if L > 0 {
			cols = append(cols, L-1)
		}
		if n > 0 {
			rowsI = append(rowsI, 0)
			if n > 1 {
				rowsI = append(rowsI, n-1)
			}
		}
	}
	for _, j := range cols {
		add(p("write-through-IterateChar", j), p("write-through-IterateAll", j))
	}
	for _, i := range rowsI {
		add(p("Sequence.Reverse", i), p("Sequence.Complement", i), p("Sequence.SetName", i), p("ReverseComplementSequences", i))
	}
	add("ToLower", "ToUpper", "ReverseComplement",
		"Rename", "RenameRegexp", "AppendSeqIdentifier:0", "AppendSeqIdentifier:1", "CleanNames", "TrimNames", "TrimNamesAuto",
		"Replace:plain", "Replace:regexp", "Translate:0", "Translate:-1", "Sort", "Clear", "AddSequence", "Deduplicate", "FilterLength",
		"SetAlphabet", "AutoAlphabet", "IgnoreIdentical")
	if isAlign {
		if L > 0 {
			add(p("Mask", 0, L), p("Mask", L-1, 1), "Mask:GAP", "Mask:MAJ", "Mask:nogap")
			if lvl.Full {
				for s := 0; s < L; s++ {
					for l := 1; s+l <= L; l++ {
						if !(s == 0 && l == L) && !(s == L-1 && l == 1) {
							add(p("Mask", s, l))
						}
					}
				}
			}
		}
		add("MaskUnique", "MaskOccurences", "TrimSequences:start", "TrimSequences:end", "Concat:same-names", "Concat:new-names", "Append",
			"DiffWithFirst", "ReplaceMatchChars", "RemoveGapSites", "RemoveGapSeqs", "RemoveCharacterSites", "RemoveMajorityCharacterSites", "Compress")
	}
	return out
}

func c19Other(ch uint8) uint8 {
	if ch == 'G' || ch == 'g' {
		return 'T'
	}
	return 'G'
}

// c19ApplyMut applies one mutator.  effective: the target's state changed.
// panicMsg: the mutator panicked inside goalign (tolerated, the other side is
// still compared).  fatal: the harness itself failed.
func c19ApplyMut(t align.SeqBag, m string, before c19Snap) (effective bool, panicMsg, fatal string) {
	pn, msg, _ := mc.GuardExit(func() { c19Mutate(t, m) })
	if pn {
		if mc.PanicSite(msg) == "?" {
			return false, "", "panic outside goalign in mutator " + m + ": " + msg
		}
		panicMsg = msg
	}
	after := c19Snapshot(t)
	cl, _ := c19Diff(before, after)
	return cl != "", panicMsg, ""
}

func c19Mutate(t align.SeqBag, m string) {
	f := strings.Split(m, ":")
	class := f[0]
	var v []int
	for _, x := range f[1:] {
		if k, err := strconv.Atoi(x); err == nil {
			v = append(v, k)
		}
	}
	al, _ := t.(align.Alignment)
	if st := align.VerifDump(t); st == nil || !st.IsAlign {
		al = nil
	}
	n := t.NbSequences()
	rowLen := func(i int) int {
		s, ok := t.GetSequenceCharById(i)
		if !ok {
			return -1
		}
		return len(s)
	}
	cellOK := func() (i, j int, ok bool) {
		if len(v) < 2 || v[0] < 0 || v[0] >= n || v[1] < 0 || v[1] >= rowLen(v[0]) {
			return 0, 0, false
		}
		return v[0], v[1], true
	}
	rowOK := func() (int, bool) {
		if len(v) < 1 || v[0] < 0 || v[0] >= n {
			return 0, false
		}
		return v[0], true
	}
	nameOf := func(i int) string { s, _ := t.GetSequenceNameById(i); return s }
	write := func(sl []uint8, j int) {
		if j >= 0 && j < len(sl) {
			sl[j] = c19Other(sl[j])
		}
	}
	L := -1
	if n > 0 {
		L = rowLen(0)
	}
	switch class {
	case "SetSequenceChar":
		if i, j, ok := cellOK(); ok {
			cur, _ := t.GetSequenceCharById(i)
			t.SetSequenceChar(i, j, c19Other(cur[j]))
		}
	case "ReplaceChar":
		if i, j, ok := cellOK(); ok && al != nil {
			cur, _ := t.GetSequenceCharById(i)
			al.ReplaceChar(nameOf(i), j, c19Other(cur[j]))
		}
	case "write-through-Sequence.SequenceChar":
		if i, j, ok := cellOK(); ok {
			s, _ := t.Sequence(i)
			write(s.SequenceChar(), j)
		}
	case "write-through-GetSequenceCharById":
		if i, j, ok := cellOK(); ok {
			s, _ := t.GetSequenceCharById(i)
			write(s, j)
		}
	case "write-through-GetSequenceChar":
		if i, j, ok := cellOK(); ok {
			if s, found := t.GetSequenceChar(nameOf(i)); found {
				write(s, j)
			}
		}
	case "write-through-GetSequenceByName":
		if i, j, ok := cellOK(); ok {
			if s, found := t.GetSequenceByName(nameOf(i)); found {
				write(s.SequenceChar(), j)
			}
		}
	case "write-through-SequenceByName":
		if i, j, ok := cellOK(); ok {
			if s, found := t.SequenceByName(nameOf(i)); found {
				write(s.SequenceChar(), j)
			}
		}
	case "write-through-Sequences":
		if i, j, ok := cellOK(); ok {
			write(t.Sequences()[i].SequenceChar(), j)
		}
	case "write-through-SequencesChan":
		if i, j, ok := cellOK(); ok {
			k := 0
			for s := range t.SequencesChan() {
				if k == i {
					write(s.SequenceChar(), j)
				}
				k++
			}
		}
	case "write-through-IterateChar":
		if len(v) == 1 {
			t.IterateChar(func(_ string, s []uint8) bool { write(s, v[0]); return false })
		}
	case "write-through-IterateAll":
		if len(v) == 1 {
			t.IterateAll(func(_ string, s []uint8, _ string) bool { write(s, v[0]); return false })
		}
	case "Sequence.Reverse":
		if i, ok := rowOK(); ok {
			s, _ := t.Sequence(i)
			s.Reverse()
		}
	case "Sequence.Complement":
		if i, ok := rowOK(); ok {
			s, _ := t.Sequence(i)
			s.Complement()
		}
	case "Sequence.SetName":
		if i, ok := rowOK(); ok {
			s, _ := t.Sequence(i)
			s.SetName("renamed-row")
		}
	case "ReverseComplementSequences":
		if i, ok := rowOK(); ok {
			t.ReverseComplementSequences(nameOf(i))
		}
	case "ToLower":
		t.ToLower()
	case "ToUpper":
		t.ToUpper()
	case "ReverseComplement":
		t.ReverseComplement()
	case "Rename":
		if n > 0 {
			t.Rename(map[string]string{nameOf(0): "renamed", "nosuch": "x"})
		}
	case "RenameRegexp":
		t.RenameRegexp("^", "p_", map[string]string{})
	case "AppendSeqIdentifier":
		t.AppendSeqIdentifier("_x", len(v) > 0 && v[0] == 1)
	case "CleanNames":
		t.CleanNames(map[string]string{})
	case "TrimNames":
		t.TrimNames(map[string]string{}, 3)
	case "TrimNamesAuto":
		cur := 1
		t.TrimNamesAuto(map[string]string{}, &cur)
	case "Replace":
		if len(f) > 1 && f[1] == "regexp" {
			t.Replace("[Ac-]", "T", true)
		} else {
			t.Replace("A", "GG", false)
			t.Replace("N", "G", false)
			t.Replace("L", "G", false)
		}
	case "Translate":
		ph := 0
		if len(v) > 0 {
			ph = v[0]
		}
		t.Translate(ph, align.GENETIC_CODE_STANDARD)
	case "Sort":
		t.Sort()
	case "Clear":
		t.Clear()
	case "AddSequence":
		t.AddSequence("added", strings.Repeat("G", max(L, 1)), "added comment")
	case "Deduplicate":
		t.Deduplicate(false)
	case "FilterLength":
		t.FilterLength(max(L, 0)+1, -1)
	case "SetAlphabet":
		if t.Alphabet() == align.NUCLEOTIDS {
			t.SetAlphabet(align.AMINOACIDS)
		} else {
			t.SetAlphabet(align.NUCLEOTIDS)
		}
	case "AutoAlphabet":
		t.AutoAlphabet()
	case "IgnoreIdentical":
		st := align.VerifDump(t)
		t.IgnoreIdentical((st.Policy + 1) % 3)
	}
	if al == nil {
		return
	}
	switch class {
	case "Mask":
		switch {
		case len(v) == 2:
			al.Mask("", v[0], v[1], "", false, false)
		case len(f) > 1 && f[1] == "GAP":
			al.Mask("", 0, max(L, 0), "GAP", false, false)
		case len(f) > 1 && f[1] == "MAJ":
			al.Mask("", 0, max(L, 0), "MAJ", false, false)
		case len(f) > 1 && f[1] == "nogap":
			if n > 0 {
				al.Mask(nameOf(0), 0, max(L, 0), "", true, true)
			}
		}
	case "MaskUnique":
		al.MaskUnique("", "")
	case "MaskOccurences":
		al.MaskOccurences("", 2, "")
	case "TrimSequences":
		al.TrimSequences(1, len(f) > 1 && f[1] == "start")
	case "Concat":
		o := align.NewAlign(t.Alphabet())
		for i := 0; i < n; i++ {
			nm := nameOf(i)
			if len(f) > 1 && f[1] == "new-names" {
				nm = "cc" + strconv.Itoa(i)
			}
			o.AddSequence(nm, "GT", "")
		}
		al.Concat(o)
	case "Append":
		o := align.NewAlign(t.Alphabet())
		o.AddSequence("appended1", strings.Repeat("G", max(L, 1)), "")
		o.AddSequence("appended2", strings.Repeat("T", max(L, 1)), "")
		al.Append(o)
	case "DiffWithFirst":
		al.DiffWithFirst()
	case "ReplaceMatchChars":
		al.DiffWithFirst()
		al.ReplaceMatchChars()
		al.ToLower()
	case "RemoveGapSites":
		al.RemoveGapSites(0, false)
	case "RemoveGapSeqs":
		al.RemoveGapSeqs(0, false)
	case "RemoveCharacterSites":
		al.RemoveCharacterSites([]uint8{'A', 'c', 'N', 'M', 'L'}, 0.5, false, true, false, false, false)
	case "RemoveMajorityCharacterSites":
		al.RemoveMajorityCharacterSites(0.5, false, false, false)
	case "Compress":
		al.Compress()
	}
}
