// Package props holds one driver per property.
package props

import (
	"encoding/json"
	"fmt"
	"io"
	"log"
	"sort"
	"strings"

	"github.com/evolbioinfo/goalign/align"
)

func init() {
	// goalign warns through the standard logger; keep workers quiet.
	log.SetOutput(io.Discard)
}

// forEachString calls f on every string over alpha of length minL..maxL, in
// length-then-lexicographic order (shortest first).  f returns false to stop.
func forEachString(alpha string, minL, maxL int, f func(s []byte) bool) bool {
	for l := minL; l <= maxL; l++ {
		if !forEachStringLen(alpha, l, nil, f) {
			return false
		}
	}
	return true
}

// forEachStringLen enumerates all strings of exactly length l that start with prefix.
func forEachStringLen(alpha string, l int, prefix []byte, f func(s []byte) bool) bool {
	if len(prefix) > l {
		return true
	}
	buf := make([]byte, l)
	copy(buf, prefix)
	idx := make([]int, l)
	p := len(prefix)
	for i := p; i < l; i++ {
		buf[i] = alpha[0]
	}
	for {
		if !f(buf) {
			return false
		}
		i := l - 1
		for ; i >= p; i-- {
			idx[i]++
			if idx[i] < len(alpha) {
				buf[i] = alpha[idx[i]]
				break
			}
			idx[i] = 0
			buf[i] = alpha[0]
		}
		if i < p {
			return true
		}
	}
}

// row is one (name, residues) pair of the reference model.
type row struct {
	Name string `json:"n"`
	Seq  string `json:"s"`
}

type rows []row

func (r rows) String() string {
	var b strings.Builder
	for i, x := range r {
		if i > 0 {
			b.WriteByte(';')
		}
		fmt.Fprintf(&b, "%s=%s", x.Name, x.Seq)
	}
	return b.String()
}

func (r rows) clone() rows { return append(rows{}, r...) }

// mkAlign builds a real alignment with the given alphabet from model rows.
func mkAlign(alphabet int, r rows) (align.Alignment, error) {
	a := align.NewAlign(alphabet)
	for _, x := range r {
		if err := a.AddSequence(x.Name, x.Seq, ""); err != nil {
			return nil, err
		}
	}
	return a, nil
}

// mkAlignAuto builds an alignment and detects its alphabet the way the parsers do.
func mkAlignAuto(r rows) (align.Alignment, error) {
	a := align.NewAlign(align.UNKNOWN)
	for _, x := range r {
		if err := a.AddSequence(x.Name, x.Seq, ""); err != nil {
			return nil, err
		}
	}
	a.AutoAlphabet()
	return a, nil
}

func mkSeqBag(alphabet int, r rows) (align.SeqBag, error) {
	a := align.NewSeqBag(alphabet)
	for _, x := range r {
		if err := a.AddSequence(x.Name, x.Seq, ""); err != nil {
			return nil, err
		}
	}
	return a, nil
}

// readRows observes a SeqBag through index access.
func readRows(sb align.SeqBag) rows {
	out := make(rows, 0, sb.NbSequences())
	for i := 0; i < sb.NbSequences(); i++ {
		n, _ := sb.GetSequenceNameById(i)
		s, _ := sb.GetSequenceById(i)
		out = append(out, row{n, s})
	}
	return out
}

func sameRows(a, b rows) bool {
	if len(a) != len(b) {
		return false
	}
	for i := range a {
		if a[i] != b[i] {
			return false
		}
	}
	return true
}

var rowNames = []string{"a", "b", "c", "d", "e", "f", "g", "h", "i", "j"}

// namedRows gives seqs the names a, b, c …
func namedRows(seqs ...string) rows {
	r := make(rows, len(seqs))
	for i, s := range seqs {
		if i < len(rowNames) {
			r[i] = row{rowNames[i], s}
		} else {
			r[i] = row{fmt.Sprintf("s%d", i), s}
		}
	}
	return r
}

// forEachAlignment enumerates all n-row alignments of length L over alpha.
func forEachAlignment(alpha string, n, L int, f func(seqs []string) bool) bool {
	total := n * L
	return forEachStringLen(alpha, total, nil, func(s []byte) bool {
		seqs := make([]string, n)
		for i := 0; i < n; i++ {
			seqs[i] = string(s[i*L : (i+1)*L])
		}
		return f(seqs)
	})
}

func jsonStr(v any) string {
	b, _ := json.Marshal(v)
	return string(b)
}

func sortedCopy(s []string) []string {
	o := append([]string{}, s...)
	sort.Strings(o)
	return o
}

func intsEq(a, b []int) bool {
	if len(a) != len(b) {
		return false
	}
	for i := range a {
		if a[i] != b[i] {
			return false
		}
	}
	return true
}

func upper(c byte) byte {
	if c >= 'a' && c <= 'z' {
		return c - 32
	}
	return c
}

func isGapOnly(s string) bool {
	for i := 0; i < len(s); i++ {
		if s[i] != '-' {
			return false
		}
	}
	return true
}

func ungap(s string) string { return strings.ReplaceAll(s, "-", "") }

// perms calls f with every permutation of 0..n-1.
func perms(n int, f func(p []int)) {
	p := make([]int, n)
	for i := range p {
		p[i] = i
	}
	var rec func(k int)
	rec = func(k int) {
		if k == n {
			f(p)
			return
		}
		for i := k; i < n; i++ {
			p[k], p[i] = p[i], p[k]
			rec(k + 1)
			p[k], p[i] = p[i], p[k]
		}
	}
	rec(0)
}

func (r rows) equal(o rows) bool {
	if len(r) != len(o) {
		return false
	}
	for i := range r {
		if r[i] != o[i] {
			return false
		}
	}
	return true
}
