package props

// C01 — explicit-state breadth-first search over histories of public
// SeqBag / Alignment operations.  A state is the shortest operation history
// reaching it (plus the RNG answers of its randomised steps); a successor is a
// fresh real object + replay + one more real call.  States are de-duplicated
// on a canonical key built from the private representation (row list, name
// index, cached length, alphabet, policy, buffer aliasing) — everything a
// public method can read, so equal keys have equal futures.  After every
// transition the real object is compared with a list-of-(name,sequence)
// reference model applying the documented meaning of the operation.

import (
	"encoding/json"
	"fmt"
	"os"
	"regexp"
	"sort"
	"strconv"
	"strings"

	"verif/harness/mc"

	"github.com/evolbioinfo/goalign/align"
	"github.com/evolbioinfo/goalign/verifrt/vrt"
)

// ---------------------------------------------------------------- reference model

type c01Model struct {
	IsAlign   bool
	Rows      rows
	Alphabet  int
	Policy    int
	CallerDup bool // the history contains a caller-made name collision
}

func (m *c01Model) length() int {
	if len(m.Rows) == 0 {
		return -1
	}
	return len(m.Rows[0].Seq)
}

// lenOr is the current number of columns, or d for an empty container.
func (m *c01Model) lenOr(d int) int {
	if l := m.length(); l >= 0 {
		return l
	}
	return d
}

func (m *c01Model) count(name string) (n, first int) {
	first = -1
	for i, r := range m.Rows {
		if r.Name == name {
			if n == 0 {
				first = i
			}
			n++
		}
	}
	return
}

func (m *c01Model) hasDup() bool {
	seen := map[string]bool{}
	for _, r := range m.Rows {
		if seen[r.Name] {
			return true
		}
		seen[r.Name] = true
	}
	return false
}

const (
	c01AddOK        = iota // row appended (possibly under a new name)
	c01AddIgnored          // dropped by the duplicate-name policy: container unchanged, no error required
	c01AddMustErr          // wrong length: error required, container unchanged
	c01AddAmbiguous        // caller-made duplicate names make the policy's comparison undefined
)

// add is the documented meaning of AddSequence: duplicate-name policy
// (IGNORE_NAME keeps the first; IGNORE_SEQUENCE drops a same-name-same-sequence
// row; otherwise the new row is renamed <name>_%04d with the first free index),
// then the length check of an alignment.
func (m *c01Model) add(name, seq string) int {
	n, first := m.count(name)
	newname := name
	if n > 0 {
		if m.Policy == align.IGNORE_NAME {
			return c01AddIgnored
		}
		if m.Policy == align.IGNORE_SEQUENCE {
			if n > 1 {
				return c01AddAmbiguous
			}
			if m.Rows[first].Seq == seq {
				return c01AddIgnored
			}
		}
		for idx := 1; ; idx++ {
			newname = fmt.Sprintf("%s_%04d", name, idx)
			if k, _ := m.count(newname); k == 0 {
				break
			}
		}
	}
	if m.IsAlign && len(m.Rows) > 0 && len(seq) != m.length() {
		return c01AddMustErr
	}
	m.Rows = append(m.Rows, row{newname, seq})
	return c01AddOK
}

// c01Detect is the documented alphabet detection rule (AutoAlphabet): every
// residue (case folded) must be possible in the alphabet; nucleotide wins when
// both are possible.
func c01Detect(rs rows) int {
	isnt, isaa := true, true
	for _, r := range rs {
		for i := 0; i < len(r.Seq); i++ {
			ch := upper(r.Seq[i])
			nt := strings.IndexByte("ACBRG?-.*DKSHMNVXTWYUO", ch) >= 0
			aa := strings.IndexByte("ACBRG?-.*DKSHMNVXTWYQEILFPZ", ch) >= 0
			isnt, isaa = isnt && nt, isaa && aa
		}
	}
	switch {
	case isnt:
		return align.NUCLEOTIDS
	case isaa:
		return align.AMINOACIDS
	}
	return align.UNKNOWN
}

// ---------------------------------------------------------------- world: real object + model

type c01Vio struct{ Clause, Desc string }

type c01World struct {
	real   align.SeqBag
	m      c01Model
	pruned bool // the last operation reported an error (not a successful operation): the state is not expanded
	skip   string
	vios   []c01Vio
	opName string
	k      string // state key taken before the harness's own observations
}

func (w *c01World) fail(clause, format string, a ...any) {
	w.vios = append(w.vios, c01Vio{w.opClass() + "/" + clause, fmt.Sprintf(format, a...)})
}

func (w *c01World) opClass() string {
	if i := strings.IndexByte(w.opName, ':'); i >= 0 {
		return w.opName[:i]
	}
	return w.opName
}

func (w *c01World) al() align.Alignment {
	a, _ := w.real.(align.Alignment)
	return a
}

// call runs f guarded; a panic is a violation and kills the world.
func (w *c01World) call(f func()) bool {
	pn, msg, exited := mc.GuardExit(f)
	if exited {
		w.pruned = true
		return false
	}
	if pn {
		if strings.Contains(msg, "vrt.") && strings.Contains(msg, "BudgetExceeded") {
			panic(vrt.BudgetExceeded{})
		}
		w.fail("panic/"+mc.PanicSite(msg), "panic: %s", msg)
		w.pruned = true
		return false
	}
	return true
}

func c01Build(in c01Init) (align.SeqBag, error) {
	var sb align.SeqBag
	if in.IsAlign {
		sb = align.NewAlign(in.Alphabet)
	} else {
		sb = align.NewSeqBag(in.Alphabet)
	}
	for _, r := range in.Rows {
		if err := sb.AddSequence(r.Name, r.Seq, ""); err != nil {
			return nil, err
		}
	}
	return sb, nil
}

// adopt makes a freshly returned object the current one.  Whether a derived
// object inherits the duplicate-name policy is not documented: it is set
// explicitly so that the model does not have to guess.
func (w *c01World) adopt(sb align.SeqBag, isAlign bool, newRows rows, alphabet int) {
	w.real = sb
	sb.IgnoreIdentical(align.IGNORE_NONE)
	w.m.Policy = align.IGNORE_NONE
	w.m.IsAlign = isAlign
	w.m.Rows = newRows
	w.m.Alphabet = alphabet
}

// check compares the real object with the model and evaluates I1–I4.
func (w *c01World) check() {
	sb, m := w.real, &w.m
	n := sb.NbSequences()
	got := make(rows, 0, n)
	okAll := true
	w.call(func() {
		for i := 0; i < n; i++ {
			nm, ok1 := sb.GetSequenceNameById(i)
			s, ok2 := sb.GetSequenceById(i)
			okAll = okAll && ok1 && ok2
			got = append(got, row{nm, s})
		}
	})
	if w.pruned {
		return
	}
	if !okAll {
		w.fail("index-access", "GetSequence*ById failed for an index below NbSequences()=%d", n)
		return
	}
	if !sameRows(got, m.Rows) {
		cl := "content"
		if len(got) != len(m.Rows) {
			cl = "row-count"
		} else {
			names, seqs := true, true
			for i := range got {
				names = names && got[i].Name == m.Rows[i].Name
				seqs = seqs && got[i].Seq == m.Rows[i].Seq
			}
			a, b := append(rows{}, got...), append(rows{}, m.Rows...)
			sort.Slice(a, func(i, j int) bool { return a[i].Name+"\x00"+a[i].Seq < a[j].Name+"\x00"+a[j].Seq })
			sort.Slice(b, func(i, j int) bool { return b[i].Name+"\x00"+b[i].Seq < b[j].Name+"\x00"+b[j].Seq })
			switch {
			case sameRows(a, b):
				cl = "row-order"
			case seqs:
				cl = "names"
			case names:
				cl = "residues"
			}
		}
		w.fail("model/"+cl, "rows are [%s], the reference model says [%s]", got, m.Rows)
		return
	}
	if sb.Alphabet() != m.Alphabet {
		w.fail("model/alphabet", "alphabet is %d, the reference model says %d (rows [%s])", sb.Alphabet(), m.Alphabet, got)
	}
	// I1 rectangular, reported length
	if a := w.al(); a != nil {
		if m.IsAlign {
			L := a.Length()
			for _, r := range got {
				if len(r.Seq) != L {
					w.fail("rectangular", "row %q has %d residues but Length() reports %d (rows [%s])", r.Name, len(r.Seq), L, got)
					break
				}
			}
			if len(got) == 0 && L != -1 {
				w.fail("length-of-empty", "the alignment is empty but Length() reports %d (an empty alignment reports -1 and accepts a first row of any length)", L)
			}
		}
	} else if m.IsAlign {
		w.fail("kind", "the model holds an alignment but the real object is not one")
	}
	// I2 iteration agrees with index access
	w.call(func() {
		var it1, it2, it3 rows
		sb.Iterate(func(name, s string) bool { it1 = append(it1, row{name, s}); return false })
		sb.IterateChar(func(name string, s []uint8) bool { it2 = append(it2, row{name, string(s)}); return false })
		sb.IterateAll(func(name string, s []uint8, _ string) bool { it3 = append(it3, row{name, string(s)}); return false })
		var it4, it5 rows
		for _, s := range sb.Sequences() {
			it4 = append(it4, row{s.Name(), s.Sequence()})
		}
		for i := 0; i < n; i++ {
			s, ok := sb.Sequence(i)
			c, ok2 := sb.GetSequenceCharById(i)
			if !ok || !ok2 || s == nil {
				w.fail("index-access", "Sequence(%d)/GetSequenceCharById(%d) failed below NbSequences()", i, i)
				return
			}
			it5 = append(it5, row{s.Name(), string(c)})
		}
		for k, it := range []rows{it1, it2, it3, it4, it5} {
			if !sameRows(it, got) {
				w.fail("iteration-disagrees", "%s yields [%s] but index access yields [%s]", []string{"Iterate", "IterateChar", "IterateAll", "Sequences", "Sequence(i)"}[k], it, got)
				return
			}
		}
		if _, ok := sb.GetSequenceById(n); ok {
			w.fail("index-access", "GetSequenceById(NbSequences()) succeeds")
		}
		if _, ok := sb.GetSequenceById(-1); ok {
			w.fail("index-access", "GetSequenceById(-1) succeeds")
		}
	})
	if w.pruned {
		return
	}
	// I4 names distinct unless the caller made them collide
	dup := m.hasDup()
	if dup && !m.CallerDup {
		w.fail("duplicate-names", "names are not pairwise distinct although the caller never renamed two rows to the same name: [%s]", got)
		return
	}
	// I3 lookup by name agrees with lookup by index (only where names are unique)
	w.call(func() {
		cnt := map[string]int{}
		for _, r := range got {
			cnt[r.Name]++
		}
		for i, r := range got {
			if cnt[r.Name] != 1 {
				continue
			}
			s, ok := sb.GetSequence(r.Name)
			if !ok || s != r.Seq {
				w.fail("lookup-by-name", "GetSequence(%q) = (%q,%v) but row %d is %q=%q (rows [%s])", r.Name, s, ok, i, r.Name, r.Seq, got)
				return
			}
			ch, ok := sb.GetSequenceChar(r.Name)
			if !ok || string(ch) != r.Seq {
				w.fail("lookup-by-name", "GetSequenceChar(%q) = (%q,%v) but row %d holds %q", r.Name, ch, ok, i, r.Seq)
				return
			}
			q, ok := sb.GetSequenceByName(r.Name)
			if !ok || q == nil || q.Name() != r.Name || q.Sequence() != r.Seq {
				w.fail("lookup-by-name", "GetSequenceByName(%q) does not return row %d (%q)", r.Name, i, r.Seq)
				return
			}
			q, ok = sb.SequenceByName(r.Name)
			if !ok || q == nil || q.Name() != r.Name || q.Sequence() != r.Seq {
				w.fail("lookup-by-name", "SequenceByName(%q) does not return row %d (%q)", r.Name, i, r.Seq)
				return
			}
			if id := sb.GetSequenceIdByName(r.Name); id != i {
				w.fail("lookup-by-name", "GetSequenceIdByName(%q) = %d, the row is at %d", r.Name, id, i)
				return
			}
		}
		for _, nm := range c01Absent {
			if cnt[nm] != 0 {
				continue
			}
			if s, ok := sb.GetSequence(nm); ok {
				w.fail("lookup-finds-absent-name", "GetSequence(%q) finds %q although no row has that name (rows [%s])", nm, s, got)
				return
			}
			if _, ok := sb.GetSequenceByName(nm); ok {
				w.fail("lookup-finds-absent-name", "GetSequenceByName(%q) succeeds although no row has that name (rows [%s])", nm, got)
				return
			}
			if id := sb.GetSequenceIdByName(nm); id >= 0 {
				w.fail("lookup-finds-absent-name", "GetSequenceIdByName(%q) = %d although no row has that name", nm, id)
				return
			}
		}
	})
}

var c01Absent = []string{"a", "b", "c", "d", "e", "B", "z", "q", "qb", "a_0001", "a_0002", "b_0001", "a_x", "pa", " x.y", "z;w ", "x-y", "z-w", "a_0", "a_1", "a_2", "S1", "S2", "ax01", "nosuch"}

// key is the canonical state key (see the file comment).  It is the key taken right after the last
// operation, BEFORE the harness observed the container (its own lookups may fill caches: a state whose
// caches are warm only because the harness looked is the same state as the cold one for the search, while a
// state reached through the "observe" operation of the history is not).
func (w *c01World) key() string {
	if w.k != "" {
		return w.k
	}
	return w.keyNow()
}

func (w *c01World) keyNow() string {
	st := align.VerifDump(w.real)
	if st == nil {
		return "foreign"
	}
	b := make([]byte, 0, 256)
	str := func(s string) {
		b = strconv.AppendInt(b, int64(len(s)), 10)
		b = append(b, ':')
		b = append(b, s...)
	}
	num := func(n int) {
		b = strconv.AppendInt(b, int64(n), 10)
		b = append(b, ',')
	}
	if st.IsAlign {
		b = append(b, 'A')
	} else {
		b = append(b, 'B')
	}
	if w.m.CallerDup {
		b = append(b, 'D')
	}
	num(st.Length)
	num(st.Alphabet)
	num(st.Policy)
	// the model's own policy and alphabet: two histories are the same state only if implementation AND model
	// agree - an implementation that lost a setting the model still has must not be merged with (and pruned as)
	// a history in which the setting was never made
	num(w.m.Policy)
	num(w.m.Alphabet)
	str(st.Extra) // fields this harness does not know by name (caches, memo tables): hidden state
	firstBuf := map[uintptr]int{}
	firstObj := map[uintptr]int{}
	for i, r := range st.Rows {
		ab, ao := i, i
		if r.Buf != 0 {
			if j, ok := firstBuf[r.Buf]; ok {
				ab = j
			} else {
				firstBuf[r.Buf] = i
			}
		}
		if j, ok := firstObj[r.Obj]; ok {
			ao = j
		} else {
			firstObj[r.Obj] = i
		}
		str(r.Name)
		str(r.Seq)
		num(ab)
		num(ao)
		// spare capacity and capacity shared with an earlier row: an in-place append reads both
		// (a clone carved out of one backing array has other futures than one row per allocation)
		spare, over := 0, -1
		if r.Cap > len(r.Seq) {
			spare = 1
		}
		if r.Buf != 0 {
			for j := 0; j < i; j++ {
				q := st.Rows[j]
				if q.Buf != 0 && q.Buf != r.Buf && r.Buf < q.Buf+uintptr(q.Cap) && q.Buf < r.Buf+uintptr(r.Cap) {
					over = j
					break
				}
			}
		}
		num(spare)
		num(over)
	}
	b = append(b, '|')
	for _, e := range st.Index {
		str(e.Key)
		num(e.Row)
		if e.Row < 0 || e.Name != e.Key {
			str(e.Name)
			str(e.Seq)
		}
	}
	return string(b)
}

// ---------------------------------------------------------------- operations

type c01Op struct {
	Name string
	Aln  bool // applicable to alignments
	Bag  bool // applicable to plain sequence sets
	Run  func(w *c01World)
}

func c01Filler(ch byte, n int) string { return strings.Repeat(string(ch), n) }

// c01Other builds the argument alignment of Append / Concat for the current model.
func c01Other(m *c01Model, kind string) rows {
	L := m.lenOr(2)
	var fresh []string // names no row of the model has
	for _, n := range []string{"d", "e", "f", "g", "h", "i", "j", "k", "l", "m", "n", "o", "p", "q", "r", "s"} {
		if k, _ := m.count(n); k == 0 {
			fresh = append(fresh, n)
		}
	}
	switch kind {
	case "share1":
		nm := "a"
		if len(m.Rows) > 0 {
			nm = m.Rows[0].Name
		}
		return rows{{nm, c01Filler('T', L)}, {fresh[0], c01Filler('G', L)}}
	case "shareAll":
		var o rows
		for _, r := range m.Rows {
			o = append(o, row{r.Name, c01Filler('T', L)})
		}
		return o
	case "sameRows":
		return m.Rows.clone()
	case "disjoint":
		return rows{{fresh[0], c01Filler('G', L)}, {fresh[1], c01Filler('C', L)}}
	case "disjointRev": // three new names, not in their sorted order (an implementation that collects them in a map loses the order)
		return rows{{fresh[2], c01Filler('G', L)}, {fresh[0], c01Filler('C', L)}, {fresh[1], c01Filler('T', L)}}
	case "wrongLen":
		return rows{{fresh[0], c01Filler('G', L+1)}}
	case "wrongLen2nd":
		return rows{{fresh[0], c01Filler('G', L)}, {fresh[1], c01Filler('G', L+1)}}
	case "empty":
		return nil
	}
	panic("c01Other: " + kind)
}

// c01TooManyForRNG bounds the randomised operations to containers of at most
// 4 rows (all 4! orders are enumerated; beyond that the answer tree explodes).
func c01TooManyForRNG(w *c01World) bool {
	if len(w.m.Rows) > 4 {
		w.pruned, w.skip = true, "randomised operation on more than 4 rows (outside the RNG enumeration bound)"
		return true
	}
	return false
}

func c01NoDupNeeded(w *c01World) bool {
	if w.m.hasDup() {
		w.pruned, w.skip = true, "operation pairs rows by name, or rebuilds the container through the duplicate-name policy, while the caller made names collide"
		return false
	}
	return true
}

func c01Ops() []c01Op {
	var ops []c01Op
	add := func(name string, aln, bag bool, run func(w *c01World)) {
		ops = append(ops, c01Op{name, aln, bag, run})
	}
	// --- duplicate-name policy
	for _, p := range []struct {
		n string
		v int
	}{{"none", align.IGNORE_NONE}, {"name", align.IGNORE_NAME}, {"sequence", align.IGNORE_SEQUENCE}} {
		p := p
		add("policy:"+p.n, true, true, func(w *c01World) {
			w.call(func() { w.real.IgnoreIdentical(p.v) })
			w.m.Policy = p.v
		})
	}
	// --- AddSequence
	for _, nm := range []string{"a", "b", "c", "a_0001", "p%d"} {
		for _, kind := range []string{"same", "dupseq", "long"} {
			if nm == "p%d" && kind != "same" {
				continue // a name that reads as a format directive: one kind of add is enough
			}
			nm, kind := nm, kind
			add("add:"+nm+":"+kind, true, true, func(w *c01World) {
				m := &w.m
				L := m.lenOr(2)
				seq := c01Filler('G', L)
				switch kind {
				case "dupseq":
					if _, first := m.count(nm); first >= 0 {
						seq = m.Rows[first].Seq
					} else if len(m.Rows) > 0 {
						seq = m.Rows[0].Seq
					}
				case "long":
					seq = c01Filler('G', L+1)
				}
				before := m.Rows.clone()
				verdict := m.add(nm, seq)
				var err error
				if !w.call(func() { err = w.real.AddSequence(nm, seq, "") }) {
					return
				}
				switch verdict {
				case c01AddAmbiguous:
					w.pruned, w.skip = true, "duplicate-name policy compared against caller-made duplicate names"
				case c01AddMustErr:
					if err == nil {
						w.fail("wrong-length-accepted", "AddSequence(%q,%q) succeeds on an alignment of length %d (rows [%s])", nm, seq, len(before[0].Seq), before)
						w.pruned = true
					}
					// the container must be unchanged: checked against the (unchanged) model
				case c01AddIgnored:
					// unchanged; an error is not demanded either way
				case c01AddOK:
					if err != nil {
						w.fail("valid-add-rejected", "AddSequence(%q,%q) fails with %v on rows [%s]", nm, seq, err, before)
						w.pruned = true
					}
				}
			})
		}
	}
	// --- Append / Concat
	for _, kind := range []string{"share1", "shareAll", "sameRows", "disjoint", "disjointRev", "wrongLen", "wrongLen2nd", "empty"} {
		kind := kind
		add("append:"+kind, true, false, func(w *c01World) {
			m := &w.m
			other := c01Other(m, kind)
			o, e := mkAlign(m.Alphabet, other)
			if e != nil {
				w.pruned = true
				return
			}
			other = readRows(o) // the argument as it really is (its own construction may have renamed duplicates)
			before := m.Rows.clone()
			mustErr, ambiguous := false, false
			for _, r := range other {
				switch m.add(r.Name, r.Seq) {
				case c01AddMustErr:
					mustErr = true
				case c01AddAmbiguous:
					ambiguous = true
				}
				if mustErr || ambiguous {
					break
				}
			}
			var err error
			if !w.call(func() { err = w.al().Append(o) }) {
				return
			}
			switch {
			case ambiguous:
				w.pruned, w.skip = true, "duplicate-name policy compared against caller-made duplicate names"
			case mustErr:
				if err == nil {
					w.fail("wrong-length-accepted", "Append of [%s] succeeds on rows [%s]", other, before)
				}
				if kind == "wrongLen" {
					m.Rows = before // rejected at its first row: the alignment must be unchanged
				} else {
					w.pruned = true // rows before the offending one were legitimately added; not a successful operation
				}
			case err != nil:
				w.fail("valid-append-rejected", "Append of [%s] fails with %v on rows [%s]", other, err, before)
				w.pruned = true
			}
		})
	}
	for _, kind := range []string{"share1", "shareAll", "disjoint", "disjointRev", "empty"} {
		kind := kind
		add("concat:"+kind, true, false, func(w *c01World) {
			m := &w.m
			if !c01NoDupNeeded(w) {
				return
			}
			other := c01Other(m, kind)
			o, e := mkAlign(m.Alphabet, other)
			if e != nil {
				w.pruned = true
				return
			}
			La, Lc := m.lenOr(0), 0
			if len(other) > 0 {
				Lc = len(other[0].Seq)
			}
			before := m.Rows.clone()
			inC := map[string]string{}
			for _, r := range other {
				inC[r.Name] = r.Seq
			}
			var out rows
			seen := map[string]bool{}
			for _, r := range m.Rows {
				seen[r.Name] = true
				if s, ok := inC[r.Name]; ok {
					out = append(out, row{r.Name, r.Seq + s})
				} else {
					out = append(out, row{r.Name, r.Seq + c01Filler('-', Lc)})
				}
			}
			for _, r := range other {
				if !seen[r.Name] {
					out = append(out, row{r.Name, c01Filler('-', La) + r.Seq})
				}
			}
			var err error
			if !w.call(func() { err = w.al().Concat(o) }) {
				return
			}
			if err != nil {
				w.fail("valid-concat-rejected", "Concat of [%s] onto [%s] fails with %v", other, before, err)
				w.pruned = true
				return
			}
			m.Rows = out
		})
	}
	// --- renaming
	for _, rn := range []struct {
		n string
		m map[string]string
	}{{"a>c", map[string]string{"a": "c"}}, {"a>b", map[string]string{"a": "b"}}, {"swapab", map[string]string{"a": "b", "b": "a"}}, {"none", map[string]string{"zz": "y"}}, {"c>a", map[string]string{"c": "a"}},
		{"chain", map[string]string{"a": "b", "b": "c"}}, {"a>a_0001", map[string]string{"a": "a_0001", "a_0001": "a_0002"}},
		// frees a name the duplicate-name policy handed out: the next duplicate of a gets it again
		{"a_0001>z", map[string]string{"a_0001": "z"}}} {
		rn := rn
		add("rename:"+rn.n, true, true, func(w *c01World) {
			w.call(func() { w.real.Rename(rn.m) })
			for i, r := range w.m.Rows {
				if nn, ok := rn.m[r.Name]; ok {
					w.m.Rows[i].Name = nn
				}
			}
			w.m.CallerDup = w.m.CallerDup || w.m.hasDup()
		})
	}
	for _, rr := range []struct{ n, re, rep string }{{"^a>z", "^a", "z"}, {"[ab]>q", "^[ab]$", "q"}, {"bad", "(", "x"}, {"$>_0001", "$", "_0001"}, {"^a$>b;b>bb", "^(a|b)$", "${1}b"}} {
		rr := rr
		add("renameRegexp:"+rr.n, true, true, func(w *c01World) {
			nm := map[string]string{}
			var err error
			if !w.call(func() { err = w.real.RenameRegexp(rr.re, rr.rep, nm) }) {
				return
			}
			re, cerr := regexp.Compile(rr.re)
			if cerr != nil {
				if err == nil {
					w.fail("bad-regexp-accepted", "RenameRegexp(%q) reports no error", rr.re)
				}
				return // must be unchanged
			}
			if err != nil {
				w.fail("valid-rename-rejected", "RenameRegexp(%q,%q) fails with %v", rr.re, rr.rep, err)
				w.pruned = true
				return
			}
			for i, r := range w.m.Rows {
				w.m.Rows[i].Name = re.ReplaceAllString(r.Name, rr.rep)
			}
			w.m.CallerDup = w.m.CallerDup || w.m.hasDup()
		})
	}
	for _, ai := range []struct {
		n, id string
		right bool
	}{{"_x:right", "_x", true}, {"p:left", "p", false}, {"empty", "", true}} {
		ai := ai
		add("appendId:"+ai.n, true, true, func(w *c01World) {
			w.call(func() { w.real.AppendSeqIdentifier(ai.id, ai.right) })
			for i, r := range w.m.Rows {
				if ai.right {
					w.m.Rows[i].Name = r.Name + ai.id
				} else {
					w.m.Rows[i].Name = ai.id + r.Name
				}
			}
		})
	}
	add("cleanNames", true, true, func(w *c01World) {
		nm := map[string]string{}
		w.call(func() { w.real.CleanNames(nm) })
		for i, r := range w.m.Rows {
			// documented: blanks removed at both ends, newick special characters replaced by "-"
			s := strings.Trim(r.Name, " \t")
			for j := 0; j+1 < len(s); j++ {
				if strings.IndexByte(" \t()[];,.:", s[j]) >= 0 && strings.IndexByte(" \t()[];,.:", s[j+1]) >= 0 {
					w.pruned, w.skip = true, "CleanNames on a run of special characters (collapsing is not documented)"
					return
				}
			}
			if strings.ContainsAny(s, "|") {
				w.pruned, w.skip = true, "CleanNames on '|' (not in the documented character list)"
				return
			}
			s = strings.Map(func(r rune) rune {
				if strings.ContainsRune(" \t()[];,.:", r) {
					return '-'
				}
				return r
			}, s)
			w.m.Rows[i].Name = s
		}
		w.m.CallerDup = w.m.CallerDup || w.m.hasDup()
	})
	for _, size := range []int{3, 4} {
		size := size
		add(fmt.Sprintf("trimNames:%d", size), true, true, func(w *c01World) {
			if !c01NoDupNeeded(w) {
				return
			}
			nm := map[string]string{}
			var err error
			if !w.call(func() { err = w.real.TrimNames(nm, size) }) {
				return
			}
			if err != nil {
				w.pruned = true
				return
			}
			w.relNames("TrimNames", nm, func(old, nw string) string {
				if len(nw) != size {
					return fmt.Sprintf("new name %q does not have the requested size %d", nw, size)
				}
				return ""
			})
		})
	}
	// an incoming map that already holds the short name of a LATER row (second alignment of a file, map of an
	// earlier run): new short names must stay distinct from it
	add("trimNames:4:premapped-last", true, true, func(w *c01World) {
		if !c01NoDupNeeded(w) || len(w.m.Rows) < 2 {
			w.pruned = true
			return
		}
		// what the operation would give the first row when it runs alone
		probe := map[string]string{}
		var perr error
		var first string
		var cl align.SeqBag
		var cerr error
		if w.al() != nil {
			cl, cerr = mkAlign(w.m.Alphabet, w.m.Rows)
		} else {
			cl, cerr = mkSeqBag(w.m.Alphabet, w.m.Rows)
		}
		if cerr != nil {
			w.pruned = true
			return
		}
		if pn, _ := mc.Guard(func() { perr = cl.TrimNames(probe, 4) }); pn || perr != nil {
			w.pruned = true
			return
		}
		first = probe[w.m.Rows[0].Name]
		last := w.m.Rows[len(w.m.Rows)-1].Name
		if first == "" || last == w.m.Rows[0].Name {
			w.pruned = true
			return
		}
		nm := map[string]string{last: first} // the later row already owns that short name
		var err error
		if !w.call(func() { err = w.real.TrimNames(nm, 4) }) {
			return
		}
		if err != nil {
			w.pruned = true
			return
		}
		w.relNames("TrimNames", nm, nil)
		if !w.pruned {
			if got, ok := w.observed(); ok && got[len(got)-1].Name != first {
				w.fail("name-map", "TrimNames does not give row %q the short name %q the incoming map holds for it (got %q)", last, first, got[len(got)-1].Name)
			}
		}
	})
	add("trimNamesAuto", true, true, func(w *c01World) {
		if !c01NoDupNeeded(w) {
			return
		}
		nm := map[string]string{}
		cur := 1
		var err error
		if !w.call(func() { err = w.real.TrimNamesAuto(nm, &cur) }) {
			return
		}
		if err != nil {
			w.pruned = true
			return
		}
		w.relNames("TrimNamesAuto", nm, nil)
	})
	// --- every read-only query once: the container is unchanged for the caller, but a query may fill a cache
	// (hidden state is part of the state key, so the histories through the state with the warm cache are explored)
	add("observe", true, true, func(w *c01World) {
		w.call(func() {
			r := w.real
			n := r.NbSequences()
			for i := -1; i <= n; i++ {
				r.GetSequenceNameById(i)
				r.GetSequenceById(i)
				r.GetSequenceCharById(i)
			}
			for _, x := range append(w.m.Rows.clone(), row{Name: "no-such-name"}) {
				r.GetSequence(x.Name)
				r.GetSequenceChar(x.Name)
				r.GetSequenceIdByName(x.Name)
				r.SequenceByName(x.Name)
			}
			r.Sequences()
			r.Iterate(func(string, string) bool { return false })
			r.IterateChar(func(string, []uint8) bool { return false })
			r.Alphabet()
			r.AlphabetStr()
			r.LongestORF(false)
			if a := w.al(); a != nil {
				a.Length()
				a.NbVariableSites()
				a.CharStats()
				if a.Length() > 0 && n > 0 {
					a.RefCoordinates(w.m.Rows[0].Name, 0, 1)
					a.Entropy(0, false)
				}
			}
		})
	})
	// --- order
	add("sort", true, true, func(w *c01World) {
		if !c01NoDupNeeded(w) {
			return
		}
		w.call(func() { w.real.Sort() })
		sort.SliceStable(w.m.Rows, func(i, j int) bool { return w.m.Rows[i].Name < w.m.Rows[j].Name })
	})
	add("shuffle", true, true, func(w *c01World) {
		if c01TooManyForRNG(w) {
			return
		}
		w.call(func() { w.real.ShuffleSequences() })
		w.relPermutation("ShuffleSequences")
	})
	// --- sampling (returns a new object, which is adopted)
	for _, k := range []string{"1", "n"} {
		k := k
		add("sample:"+k, true, false, func(w *c01World) {
			n := 1
			if k == "n" {
				n = len(w.m.Rows)
			}
			if !c01NoDupNeeded(w) || c01TooManyForRNG(w) {
				return
			}
			var s align.Alignment
			var err error
			if !w.call(func() { s, err = w.al().Sample(n) }) {
				return
			}
			if err != nil || s == nil {
				if n >= 1 && n <= len(w.m.Rows) {
					w.fail("valid-sample-rejected", "Sample(%d) of %d rows fails with %v", n, len(w.m.Rows), err)
				}
				w.pruned = true
				return
			}
			w.relSample("Sample", s, n, true)
		})
		add("sampleSeqBag:"+k, true, true, func(w *c01World) {
			n := 1
			if k == "n" {
				n = len(w.m.Rows)
			}
			if !c01NoDupNeeded(w) || c01TooManyForRNG(w) {
				return
			}
			var s align.SeqBag
			var err error
			if !w.call(func() { s, err = w.real.SampleSeqBag(n) }) {
				return
			}
			if err != nil || s == nil {
				if n >= 1 && n <= len(w.m.Rows) {
					w.fail("valid-sample-rejected", "SampleSeqBag(%d) of %d rows fails with %v", n, len(w.m.Rows), err)
				}
				w.pruned = true
				return
			}
			w.relSample("SampleSeqBag", s, n, false)
		})
	}
	// a sample is a new object: renaming ITS rows must leave this container, and the agreement of its
	// lookups, as they are (the sample is dropped, the history continues on the source)
	for _, bag := range []bool{false, true} {
		bag := bag
		nme := "sampleKept:n+renameSample"
		if bag {
			nme = "sampleSeqBagKept:n+renameSample"
		}
		add(nme, true, bag, func(w *c01World) {
			n := len(w.m.Rows)
			if n == 0 || !c01NoDupNeeded(w) || c01TooManyForRNG(w) {
				w.pruned = true
				return
			}
			var s align.SeqBag
			var err error
			if !w.call(func() {
				if bag {
					s, err = w.real.SampleSeqBag(n)
				} else {
					s, err = w.al().Sample(n)
				}
			}) {
				return
			}
			if err != nil || s == nil {
				w.pruned = true
				return
			}
			w.call(func() {
				s.AppendSeqIdentifier("zz", false)
				s.RenameRegexp("^", "y", map[string]string{})
			})
			// the model is unchanged: check() compares the source with it
		})
	}
	// --- filtering
	for _, mn := range []string{"-1", "0", "L", "L+1", "3", "-2"} {
		for _, mx := range []string{"-1", "0", "L-1", "L", "3", "-2"} {
			if (mn == "-2") != (mx == "-2") && mn != "0" && mx != "L" { // -2: any negative bound is "no bound"; a few pairings
				continue
			}
			mn, mx := mn, mx
			add("filterLength:"+mn+":"+mx, true, true, func(w *c01World) {
				L := w.m.lenOr(2)
				val := func(s string) int {
					switch s {
					case "L":
						return L
					case "L+1":
						return L + 1
					case "L-1":
						return L - 1
					}
					var v int
					fmt.Sscan(s, &v)
					return v
				}
				lo, hi := val(mn), val(mx)
				if !c01NoDupNeeded(w) { // the container is rebuilt through the duplicate-name policy
					return
				}
				var err error
				if !w.call(func() { err = w.real.FilterLength(lo, hi) }) {
					return
				}
				if err != nil {
					w.pruned = true
					return
				}
				// documented: removes sequences whose length is < min or > max; a negative bound is not considered
				var out rows
				for _, r := range w.m.Rows {
					if (lo >= 0 && len(r.Seq) < lo) || (hi >= 0 && len(r.Seq) > hi) {
						continue
					}
					out = append(out, r)
				}
				w.m.Rows = out
			})
		}
	}
	for _, nAsGap := range []bool{false, true} {
		nAsGap := nAsGap
		add(fmt.Sprintf("dedup:%v", nAsGap), true, true, func(w *c01World) {
			if !c01NoDupNeeded(w) {
				return
			}
			var err error
			if !w.call(func() { _, err = w.real.Deduplicate(nAsGap) }) {
				return
			}
			if err != nil {
				w.pruned = true
				return
			}
			wild := byte('N')
			if w.m.Alphabet == align.AMINOACIDS {
				wild = 'X'
			}
			var out rows
			seen := map[string]bool{}
			for _, r := range w.m.Rows {
				k := r.Seq
				if nAsGap && w.m.Alphabet != align.UNKNOWN {
					k = strings.ReplaceAll(k, string(wild), "-")
				}
				if !seen[k] {
					seen[k] = true
					out = append(out, r)
				}
			}
			w.m.Rows = out
		})
	}
	// --- cleaning (exact cut-offs 0 and 1 only; the arithmetic of other cut-offs is C12's business)
	for _, cut := range []float64{0, 1} {
		cut := cut
		add(fmt.Sprintf("removeGapSeqs:%v", cut), true, false, func(w *c01World) {
			if w.m.lenOr(0) == 0 {
				w.pruned = true
				return
			}
			if !c01NoDupNeeded(w) {
				return
			}
			w.call(func() { w.al().RemoveGapSeqs(cut, false) })
			var out rows
			for _, r := range w.m.Rows {
				g := strings.Count(r.Seq, "-")
				if (cut == 0 && g > 0) || (cut == 1 && g == len(r.Seq)) {
					continue
				}
				out = append(out, r)
			}
			w.m.Rows = out
		})
		add(fmt.Sprintf("removeGapSites:%v", cut), true, false, func(w *c01World) {
			if len(w.m.Rows) == 0 {
				w.pruned = true
				return
			}
			w.call(func() { w.al().RemoveGapSites(cut, false) })
			L := w.m.length()
			keep := []int{}
			for j := 0; j < L; j++ {
				g := 0
				for _, r := range w.m.Rows {
					if r.Seq[j] == '-' {
						g++
					}
				}
				if (cut == 0 && g > 0) || (cut == 1 && g == len(w.m.Rows)) {
					continue
				}
				keep = append(keep, j)
			}
			for i, r := range w.m.Rows {
				b := make([]byte, 0, len(keep))
				for _, j := range keep {
					b = append(b, r.Seq[j])
				}
				w.m.Rows[i].Seq = string(b)
			}
		})
	}
	// --- cleaning by majority / chosen character, all-sites and ends mode: which units qualify is decided by
	// the oracle of C12 (c12Expectation); a unit the statement leaves open prunes the history
	for _, cl := range []struct {
		n     string
		set   string
		maj   bool
		cut   float64
		ends  bool
		seqs  bool
		igaps bool
	}{
		{"maj:0.5:all", "", true, 0.5, false, false, false}, {"maj:0.5:ends", "", true, 0.5, true, false, false},
		{"maj:1:ends", "", true, 1, true, false, false}, {"maj:1:all:ignoregaps", "", true, 1, false, false, true},
		{"char:C:0.5:all", "C", false, 0.5, false, false, false}, {"char:C:0.5:ends", "C", false, 0.5, true, false, false},
		{"char:A:1:ends", "A", false, 1, true, false, false}, {"char:AC:0:ends", "AC", false, 0, true, false, false},
		{"char:C:0.6:all:ignoregaps", "C", false, 0.6, false, false, true}, {"char:A:0.5:ends:ignoregaps", "A", false, 0.5, true, false, true},
		{"seqs:A:0.5", "A", false, 0.5, false, true, false}, {"seqs:-:0.5", "-", false, 0.5, false, true, false},
	} {
		cl := cl
		add("clean:"+cl.n, true, false, func(w *c01World) {
			n, L := len(w.m.Rows), w.m.lenOr(0)
			if n == 0 || L == 0 || n > 16 || L > 16 {
				w.pruned = true
				return
			}
			if cl.seqs && !c01NoDupNeeded(w) {
				return
			}
			p := c12Params{set: cl.set, maj: cl.maj, cut: cl.cut, ends: cl.ends, seqwise: cl.seqs, ig: cl.igaps, wild: 'N', other: 'X'}
			if w.m.Alphabet == align.AMINOACIDS {
				p.wild, p.other = 'X', 'N'
			}
			var seqs []string
			for _, r := range w.m.Rows {
				seqs = append(seqs, r.Seq)
			}
			var rm []int
			var gotRm uint32
			if cl.seqs {
				before := w.m.Rows.clone()
				if !w.call(func() {
					if cl.set == "-" {
						w.al().RemoveGapSeqs(cl.cut, false)
					} else {
						w.al().RemoveCharacterSeqs(cl.set[0], cl.cut, false, false, false)
					}
				}) {
					return
				}
				got, ok := w.observed()
				if !ok {
					return
				}
				kept := map[string]bool{}
				for _, r := range got {
					kept[r.Name] = true
				}
				for i, r := range before {
					if !kept[r.Name] {
						gotRm |= 1 << uint(i)
					}
				}
			} else {
				if !w.call(func() {
					if cl.maj {
						_, _, _, rm = w.al().RemoveMajorityCharacterSites(cl.cut, cl.ends, cl.igaps, false)
					} else {
						_, _, _, rm = w.al().RemoveCharacterSites([]uint8(cl.set), cl.cut, cl.ends, false, cl.igaps, false, false)
					}
				}) {
					return
				}
				for _, j := range rm {
					if j >= 0 && j < L {
						gotRm |= 1 << uint(j)
					}
				}
			}
			var e c12Expect
			c12Expectation(&e, seqs, &p, c12Variant{}, gotRm)
			if e.skips != 0 {
				w.pruned, w.skip = true, "cleaning: a unit whose verdict the statement leaves open (C12 assumptions)"
				return
			}
			if cl.seqs {
				var out rows
				for i, r := range w.m.Rows {
					if e.rm&(1<<uint(i)) == 0 {
						out = append(out, r)
					}
				}
				w.m.Rows = out
				return
			}
			for i, r := range w.m.Rows {
				b := make([]byte, 0, L)
				for j := 0; j < L; j++ {
					if e.rm&(1<<uint(j)) == 0 {
						b = append(b, r.Seq[j])
					}
				}
				w.m.Rows[i].Seq = string(b)
			}
		})
	}
	// --- translation
	for _, ph := range []int{0, 1, 2, -1} {
		ph := ph
		opn := fmt.Sprintf("translate:%d", ph)
		if ph < 0 {
			opn = "translate3:all-frames"
		}
		add(opn, true, true, func(w *c01World) {
			if !c01NoDupNeeded(w) {
				return
			}
			var err error
			if !w.call(func() { err = w.real.Translate(ph, align.GENETIC_CODE_STANDARD) }) {
				return
			}
			if err != nil {
				w.pruned = true
				return
			}
			if w.m.Alphabet != align.NUCLEOTIDS {
				w.fail("translate-non-nucleotide", "Translate succeeds although the alphabet is %d", w.m.Alphabet)
				w.pruned = true
				return
			}
			var out rows
			for _, r := range w.m.Rows {
				if ph >= 0 {
					out = append(out, row{r.Name, refTranslate(r.Seq, ph, align.GENETIC_CODE_STANDARD)})
				} else {
					for f := 0; f < 3; f++ {
						out = append(out, row{fmt.Sprintf("%s_%d", r.Name, f), refTranslate(r.Seq, f, align.GENETIC_CODE_STANDARD)})
					}
				}
			}
			for _, r := range out {
				if r.Seq == "" {
					w.pruned, w.skip = true, "translation of fewer than 3 bases (must be an error; decided by C05)"
					return
				}
			}
			if c01HasDupRows(out) && !w.m.CallerDup {
				w.pruned, w.skip = true, "3-frame translation produces colliding names (e.g. rows a and a_0 …): not determined"
				return
			}
			w.m.Rows = out
			w.m.Alphabet = c01Detect(out)
		})
	}
	// --- trimming / extraction
	for _, tr := range []struct {
		n     string
		start bool
	}{{"start", true}, {"end", false}} {
		tr := tr
		add("trimSeq:1:"+tr.n, true, false, func(w *c01World) {
			var err error
			if !w.call(func() { err = w.al().TrimSequences(1, tr.start) }) {
				return
			}
			if err != nil {
				w.pruned = true
				return
			}
			if w.m.lenOr(0) < 2 {
				w.fail("trim-whole-length-accepted", "TrimSequences(1) succeeds on an alignment of length %d", w.m.length())
				w.pruned = true
				return
			}
			for i, r := range w.m.Rows {
				if tr.start {
					w.m.Rows[i].Seq = r.Seq[1:]
				} else {
					w.m.Rows[i].Seq = r.Seq[:len(r.Seq)-1]
				}
			}
		})
	}
	for _, sa := range []string{"0:1", "1:rest", "0:all"} {
		sa := sa
		add("subAlign:"+sa, true, false, func(w *c01World) {
			if !c01NoDupNeeded(w) {
				return
			}
			L := w.m.lenOr(0)
			start, ln := 0, 1
			switch sa {
			case "1:rest":
				start, ln = 1, L-1
			case "0:all":
				start, ln = 0, L
			}
			var s align.Alignment
			var err error
			if !w.call(func() { s, err = w.al().SubAlign(start, ln) }) {
				return
			}
			if err != nil || s == nil {
				w.pruned = true
				return
			}
			if start+ln > L || ln < 0 || len(w.m.Rows) == 0 {
				w.pruned = true
				return
			}
			out := w.m.Rows.clone()
			for i, r := range out {
				out[i].Seq = r.Seq[start : start+ln]
			}
			w.adopt(s, true, out, w.m.Alphabet)
		})
	}
	add("selectSites:last,first", true, false, func(w *c01World) {
		if !c01NoDupNeeded(w) {
			return
		}
		L := w.m.lenOr(0)
		if L < 1 || len(w.m.Rows) == 0 {
			w.pruned = true
			return
		}
		var s align.Alignment
		var err error
		if !w.call(func() { s, err = w.al().SelectSites([]int{L - 1, 0}) }) {
			return
		}
		if err != nil || s == nil {
			w.pruned = true
			return
		}
		out := w.m.Rows.clone()
		for i, r := range out {
			out[i].Seq = string([]byte{r.Seq[L-1], r.Seq[0]})
		}
		w.adopt(s, true, out, w.m.Alphabet)
	})
	add("compress", true, false, func(w *c01World) {
		if len(w.m.Rows) == 0 {
			w.pruned = true
			return
		}
		var weights []int
		if !w.call(func() { weights = w.al().Compress() }) {
			return
		}
		w.relCompress(weights)
	})
	add("clone", true, false, func(w *c01World) {
		if !c01NoDupNeeded(w) {
			return
		}
		var s align.Alignment
		var err error
		if !w.call(func() { s, err = w.al().Clone() }) {
			return
		}
		if err != nil || s == nil {
			w.fail("clone-fails", "Clone fails with %v on rows [%s]", err, w.m.Rows)
			w.pruned = true
			return
		}
		w.adopt(s, true, w.m.Rows.clone(), w.m.Alphabet)
	})
	add("cloneSeqBag", true, true, func(w *c01World) {
		if !c01NoDupNeeded(w) {
			return
		}
		var s align.SeqBag
		var err error
		if !w.call(func() { s, err = w.real.CloneSeqBag() }) {
			return
		}
		if err != nil || s == nil {
			w.fail("clone-fails", "CloneSeqBag fails with %v on rows [%s]", err, w.m.Rows)
			w.pruned = true
			return
		}
		w.adopt(s, false, w.m.Rows.clone(), w.m.Alphabet)
	})
	add("unalign", true, true, func(w *c01World) {
		if !c01NoDupNeeded(w) {
			return
		}
		var s align.SeqBag
		if !w.call(func() { s = w.real.Unalign() }) {
			return
		}
		out := w.m.Rows.clone()
		for i, r := range out {
			out[i].Seq = ungap(r.Seq)
		}
		w.adopt(s, false, out, w.m.Alphabet)
	})
	add("clear", true, true, func(w *c01World) {
		w.call(func() { w.real.Clear() })
		w.m.Rows = nil
	})
	// --- in-place residue edits
	add("toUpper", true, true, func(w *c01World) {
		w.call(func() { w.real.ToUpper() })
		for i, r := range w.m.Rows {
			w.m.Rows[i].Seq = strings.ToUpper(r.Seq)
		}
	})
	add("toLower", true, true, func(w *c01World) {
		w.call(func() { w.real.ToLower() })
		for i, r := range w.m.Rows {
			w.m.Rows[i].Seq = strings.ToLower(r.Seq)
		}
	})
	add("replaceChar:row0:0:T", true, false, func(w *c01World) {
		if !c01NoDupNeeded(w) {
			return
		}
		if len(w.m.Rows) == 0 || w.m.lenOr(0) == 0 {
			w.pruned = true
			return
		}
		nm := w.m.Rows[0].Name
		var err error
		if !w.call(func() { err = w.al().ReplaceChar(nm, 0, 'T') }) {
			return
		}
		if err != nil {
			w.fail("lookup-by-name", "ReplaceChar(%q,0,'T') fails with %v although row 0 has that name (rows [%s])", nm, err, w.m.Rows)
			w.pruned = true
			return
		}
		w.m.Rows[0].Seq = "T" + w.m.Rows[0].Seq[1:]
	})
	add("setChar:last:last:C", true, true, func(w *c01World) {
		n := len(w.m.Rows)
		if n == 0 || len(w.m.Rows[n-1].Seq) == 0 {
			w.pruned = true
			return
		}
		j := len(w.m.Rows[n-1].Seq) - 1
		var err error
		if !w.call(func() { err = w.real.SetSequenceChar(n-1, j, 'C') }) {
			return
		}
		if err != nil {
			w.fail("valid-set-rejected", "SetSequenceChar(%d,%d) fails with %v", n-1, j, err)
			w.pruned = true
			return
		}
		s := []byte(w.m.Rows[n-1].Seq)
		s[j] = 'C'
		w.m.Rows[n-1].Seq = string(s)
	})
	return ops
}

func c01HasDupRows(rs rows) bool {
	seen := map[string]bool{}
	for _, r := range rs {
		if seen[r.Name] {
			return true
		}
		seen[r.Name] = true
	}
	return false
}

// observed reads the rows of the real object through index access.
func (w *c01World) observed() (rows, bool) {
	var got rows
	ok := w.call(func() { got = readRows(w.real) })
	return got, ok
}

// relNames: a name-shortening operation may choose the new names, but they
// must be pairwise distinct, recorded old->new in the caller's map, and
// nothing else may change.  The observed names are then adopted by the model.
func (w *c01World) relNames(op string, nm map[string]string, extra func(old, nw string) string) {
	got, ok := w.observed()
	if !ok {
		return
	}
	if len(got) != len(w.m.Rows) {
		w.fail("model/row-count", "%s changes the number of rows: [%s] -> [%s]", op, w.m.Rows, got)
		w.pruned = true
		return
	}
	for i, r := range w.m.Rows {
		if got[i].Seq != r.Seq {
			w.fail("model/residues", "%s changes residues or row order: [%s] -> [%s]", op, w.m.Rows, got)
			w.pruned = true
			return
		}
		if nm[r.Name] != got[i].Name {
			w.fail("name-map", "%s renames %q to %q but the returned map says %q", op, r.Name, got[i].Name, nm[r.Name])
			w.pruned = true
			return
		}
		if extra != nil {
			if msg := extra(r.Name, got[i].Name); msg != "" {
				w.fail("new-name", "%s: %s", op, msg)
				w.pruned = true
				return
			}
		}
	}
	w.m.Rows = got
	// duplicate new names are reported by check() as duplicate-names
}

func (w *c01World) relPermutation(op string) {
	got, ok := w.observed()
	if !ok {
		return
	}
	a, b := append(rows{}, got...), w.m.Rows.clone()
	less := func(r rows) func(i, j int) bool {
		return func(i, j int) bool { return r[i].Name+"\x00"+r[i].Seq < r[j].Name+"\x00"+r[j].Seq }
	}
	sort.Slice(a, less(a))
	sort.Slice(b, less(b))
	if !sameRows(a, b) {
		w.fail("model/content", "%s is not a permutation of the rows: [%s] -> [%s]", op, w.m.Rows, got)
		w.pruned = true
		return
	}
	w.m.Rows = got
}

func (w *c01World) relSample(op string, s align.SeqBag, n int, isAlign bool) {
	old := w.real
	w.real = s
	got, ok := w.observed()
	if !ok {
		w.real = old
		return
	}
	if len(got) != n {
		w.fail("model/row-count", "%s(%d) returns %d rows", op, n, len(got))
		w.pruned = true
		return
	}
	used := map[string]bool{}
	for _, r := range got {
		_, first := w.m.count(r.Name)
		if first < 0 || w.m.Rows[first].Seq != r.Seq || used[r.Name] {
			w.fail("model/content", "%s(%d) returns [%s], which is not a set of distinct rows of [%s]", op, n, got, w.m.Rows)
			w.pruned = true
			return
		}
		used[r.Name] = true
	}
	w.adopt(s, isAlign, got, w.m.Alphabet)
}

func (w *c01World) relCompress(weights []int) {
	got, ok := w.observed()
	if !ok {
		return
	}
	if len(got) != len(w.m.Rows) {
		w.fail("model/row-count", "Compress changes the number of rows")
		w.pruned = true
		return
	}
	for i := range got {
		if got[i].Name != w.m.Rows[i].Name {
			w.fail("model/names", "Compress changes names or row order: [%s] -> [%s]", w.m.Rows, got)
			w.pruned = true
			return
		}
	}
	cols := func(rs rows) []string {
		if len(rs) == 0 {
			return nil
		}
		out := make([]string, len(rs[0].Seq))
		for j := range out {
			b := make([]byte, len(rs))
			for i := range rs {
				if j < len(rs[i].Seq) {
					b[i] = rs[i].Seq[j]
				}
			}
			out[j] = string(b)
		}
		return out
	}
	want := map[string]int{}
	for _, c := range cols(w.m.Rows) {
		want[c]++
	}
	gotc := cols(got)
	if len(gotc) != len(want) || len(weights) != len(gotc) {
		w.fail("model/content", "Compress of [%s] yields [%s] weights %v: not one column per distinct pattern", w.m.Rows, got, weights)
		w.pruned = true
		return
	}
	seen := map[string]bool{}
	for j, c := range gotc {
		if seen[c] || want[c] == 0 || weights[j] != want[c] {
			w.fail("model/content", "Compress of [%s] yields [%s] weights %v", w.m.Rows, got, weights)
			w.pruned = true
			return
		}
		seen[c] = true
	}
	w.m.Rows = got
}

// c01CoreOps: the operations most entangled with the name index, the cached
// length and the duplicate-name policy; histories of 4 of them are searched in
// the thorough tier (all operations: histories of 3).
var c01CoreOps = map[string]bool{
	"policy:name": true, "policy:sequence": true,
	"add:a:same": true, "add:b:dupseq": true, "add:c:long": true, "add:a_0001:same": true,
	"append:shareAll": true, "append:disjoint": true, "append:wrongLen": true,
	"concat:share1": true, "concat:disjoint": true, "concat:disjointRev": true, "concat:empty": true,
	"rename:a>c": true, "rename:a>b": true, "rename:swapab": true, "rename:chain": true, "rename:a_0001>z": true, "renameRegexp:^a>z": true, "renameRegexp:$>_0001": true,
	"appendId:_x:right": true, "cleanNames": true, "trimNames:3": true, "trimNamesAuto": true,
	"sort": true, "shuffle": true, "sample:1": true,
	"filterLength:L+1:-1": true, "filterLength:-1:L-1": true, "dedup:false": true,
	"removeGapSeqs:0": true, "removeGapSites:0": true, "translate:0": true,
	"trimSeq:1:start": true, "subAlign:0:1": true, "clone": true, "unalign": true, "clear": true,
	"replaceChar:row0:0:T": true, "compress": true,
}

// ---------------------------------------------------------------- initial states

type c01Init struct {
	Name     string
	IsAlign  bool
	Alphabet int
	Rows     rows
}

var c01Inits = []c01Init{
	{"empty", true, align.NUCLEOTIDS, nil},
	{"1x1", true, align.NUCLEOTIDS, rows{{"a", "A"}}},
	{"2x2", true, align.NUCLEOTIDS, rows{{"a", "AC"}, {"b", "A-"}}},
	{"mixed-case", true, align.NUCLEOTIDS, rows{{"a", "Ac"}, {"B", "gT"}}},
	{"3x6", true, align.NUCLEOTIDS, rows{{"a", "ATGAAC"}, {"b", "ATG--C"}, {"c", "ATGAAC"}}},
	{"3x1", true, align.NUCLEOTIDS, rows{{"b", "A"}, {"a", "-"}, {"c", "N"}}},
	{"dup-name", true, align.NUCLEOTIDS, rows{{"a", "AC"}, {"a_0001", "AC"}}},
	{"odd-names", true, align.NUCLEOTIDS, rows{{" x.y", "AC"}, {"z;w ", "GT"}}},
	// a name that reads as a format directive; two names that differ by a trailing vertical tab only (white space
	// that is neither a blank nor a tab: name cleaning, documented for blanks and tabs, leaves it)
	{"percent-vtab", true, align.NUCLEOTIDS, rows{{"p%d", "AC"}, {"k\v", "GT"}, {"k", "CA"}}},
	{"protein", true, align.AMINOACIDS, rows{{"a", "MK"}, {"b", "M-"}}},
	{"3x5-mid", true, align.NUCLEOTIDS, rows{{"a", "AC-AA"}, {"b", "TC-TC"}, {"c", "GCAGG"}}},
	{"bag-ragged", false, align.NUCLEOTIDS, rows{{"c", "ATGAAC"}, {"a", "ATG"}, {"b", "A"}}},
	{"bag-empty", false, align.NUCLEOTIDS, nil},
}

// ---------------------------------------------------------------- running histories

type c01Hist struct {
	Init   string      `json:"init"`
	Ops    []string    `json:"ops"`
	Points []vrt.Point `json:"rng_answers,omitempty"`
}

var c01OpList = c01Ops()
var c01OpIndex = func() map[string]int {
	m := map[string]int{}
	for i, o := range c01OpList {
		m[o.Name] = i
	}
	return m
}()

func c01InitByName(n string) (c01Init, bool) {
	for _, in := range c01Inits {
		if in.Name == n {
			return in, true
		}
	}
	return c01Init{}, false
}

// c01Run executes a history on a fresh real object and on the model; steps
// from checkFrom on are checked.  It is the body of one controlled execution.
func c01Run(in c01Init, ops []int, checkFrom int) *c01World {
	sb, err := c01Build(in)
	w := &c01World{real: sb, m: c01Model{IsAlign: in.IsAlign, Rows: in.Rows.clone(), Alphabet: in.Alphabet, Policy: align.IGNORE_NONE}}
	if err != nil {
		w.opName = "init"
		w.fail("init", "cannot build the initial state: %v", err)
		w.pruned = true
		return w
	}
	if len(ops) == 0 && checkFrom <= 0 {
		w.opName = "init"
		w.k = w.keyNow()
		w.check()
	}
	for i, oi := range ops {
		op := c01OpList[oi]
		w.opName = op.Name
		if (w.m.IsAlign && !op.Aln) || (!w.m.IsAlign && !op.Bag) {
			w.pruned, w.skip = true, "not-applicable"
			return w
		}
		op.Run(w)
		if i == len(ops)-1 && !w.pruned && len(w.vios) == 0 && w.real != nil {
			w.k = w.keyNow()
		}
		if w.pruned || len(w.vios) > 0 {
			if i >= checkFrom && len(w.vios) == 0 && !w.pruned {
				w.check()
			}
			if w.pruned && i >= checkFrom && len(w.vios) == 0 && w.skip == "" {
				// an operation that reported an error: for the clauses that demand "unchanged" the model was left unchanged
				w.check()
			}
			return w
		}
		if i >= checkFrom {
			w.check()
			if len(w.vios) > 0 {
				return w
			}
		}
	}
	return w
}

type c01State struct {
	ops    []int
	points []vrt.Point
}

func c01Names(ops []int) []string {
	out := make([]string, len(ops))
	for i, o := range ops {
		out[i] = c01OpList[o].Name
	}
	return out
}

var c01Opts = vrt.Options{RandMode: vrt.RandChoice, CatchExit: true, MaxRand: 2000}

// c01Successors runs op from state st under every sequence of RNG answers and
// calls f for each resulting world.
func c01Successors(c *mc.Ctx, in c01Init, st c01State, op int, f func(w *c01World, pts []vrt.Point)) bool {
	ops := append(append([]int{}, st.ops...), op)
	ex := &mc.Explorer{Ctx: c, NoCount: true, Opts: c01Opts, Body: func() any { return c01Run(in, ops, len(ops)-1) }}
	ex.Check = func(x *mc.Execution) {
		if x.Panic != nil {
			w := &c01World{opName: c01OpList[op].Name}
			if x.Exec.RandBudget {
				w.fail("does-not-terminate", "more than 2000 random draws")
			} else {
				w.fail("panic/harness", "execution panicked: %v", x.Panic)
			}
			f(w, x.Exec.Points)
			return
		}
		f(x.Result.(*c01World), x.Exec.Points)
	}
	return ex.ExploreFrom(st.points)
}

func c01Report(c *mc.Ctx, in c01Init, ops []int, pts []vrt.Point, w *c01World) {
	h := c01Hist{Init: in.Name, Ops: c01Names(ops), Points: pts}
	for _, v := range w.vios {
		c.Violation("C01/"+v.Clause, fmt.Sprintf("history init=%s ops=%v: %s", in.Name, h.Ops, v.Desc), h)
	}
}

// c01Level expands every state of frontier accepted by filter with every
// operation.  New canonical states (not in seen / local) are returned as the
// next frontier and recorded in local.  With report=false nothing is counted or
// reported (the level is being recomputed as the shared prefix of a shard).
func c01Level(c *mc.Ctx, in c01Init, opset []int, frontier []c01State, seen, local map[string]bool, report, keep bool, filter func(idx int) bool) (next []c01State, complete bool) {
	complete = true
	for idx, st := range frontier {
		if filter != nil && !filter(idx) {
			continue
		}
		for _, op := range opset {
			if c.Expired() {
				return next, false
			}
			st, op := st, op
			ok := c01Successors(c, in, st, op, func(w *c01World, pts []vrt.Point) {
				if report {
					c.Eval()
					c.Transition(1)
				}
				ops := append(append([]int{}, st.ops...), op)
				if w.skip != "" {
					if report && w.skip != "not-applicable" {
						c.Skip(w.skip)
					}
					return
				}
				if len(w.vios) > 0 {
					if report {
						c01Report(c, in, ops, pts, w)
						c.Outcome(w.opClass() + ":violation")
					}
					return
				}
				if w.pruned {
					if report {
						c.Outcome(w.opClass() + ":error")
					}
					return
				}
				k := w.key()
				if seen[k] || local[k] {
					if report {
						c.Outcome(w.opClass() + ":known-state")
					}
					return
				}
				local[k] = true
				if report {
					c.State(1)
					c.Outcome(w.opClass() + ":new-state")
					c.Nontrivial(in.Name + "|" + k)
					c.Count("op_fired:"+w.opClass(), 1)
					if len(ops) == 3 && len(local)%500 == 3 {
						c.Sample(map[string]any{"init": in.Name, "ops": c01Names(ops), "rows": w.m.Rows.String()})
					}
				}
				if keep {
					next = append(next, c01State{ops, append([]vrt.Point{}, pts...)})
				}
			})
			if !ok {
				complete = false
				if report {
					c.Count("rng_trees_capped", 1)
				}
			}
		}
	}
	return next, complete
}

// c01Prefix is the search down to the last-but-one level for one initial
// container: shared by all shards of that container and cached per worker process.
type c01Prefix struct {
	opsetN   int
	init     string
	depth    int
	seen     map[string]bool
	frontier []c01State
	complete bool
}

var c01Cache *c01Prefix

func c01GetPrefix(c *mc.Ctx, in c01Init, opset []int, depth int, report bool) *c01Prefix {
	if !report && c01Cache != nil && c01Cache.init == in.Name && c01Cache.depth == depth && c01Cache.opsetN == len(opset) && c01Cache.complete {
		return c01Cache
	}
	p := &c01Prefix{init: in.Name, depth: depth, opsetN: len(opset), seen: map[string]bool{}, complete: true}
	w0 := c01Run(in, nil, 0)
	if report {
		c.Eval()
		c.State(1)
		if len(w0.vios) > 0 {
			c01Report(c, in, nil, nil, w0)
		}
	}
	if len(w0.vios) > 0 {
		return p
	}
	p.seen[w0.key()] = true
	p.frontier = []c01State{{}}
	for level := 1; level < depth; level++ {
		var ok bool
		p.frontier, ok = c01Level(c, in, opset, p.frontier, nil, p.seen, report, true, nil)
		if !ok {
			p.complete = false
			p.frontier = nil
			break
		}
	}
	if !report {
		c01Cache = p
	}
	return p
}

// c01Task: shard `shard` of `nshards` of the search from one initial
// container.  Levels 1..depth-1 are recomputed (silently, cached per worker
// process) with global de-duplication; shard 0 also reports them.  The last
// level is partitioned over the shards by frontier position.
func c01Task(c *mc.Ctx, in c01Init, opset []int, shard, nshards, depth int) {
	if shard == 0 {
		c01GetPrefix(c, in, opset, depth, true)
	}
	p := c01GetPrefix(c, in, opset, depth, false)
	if !p.complete {
		return
	}
	local := map[string]bool{}
	c01Level(c, in, opset, p.frontier, p.seen, local, true, false, func(idx int) bool { return idx%nshards == shard })
}

func c01Replay(c *mc.Ctx, h c01Hist) {
	in, ok := c01InitByName(h.Init)
	if !ok {
		c.Fatal("unknown initial state %q", h.Init)
		return
	}
	var ops []int
	for _, n := range h.Ops {
		i, ok := c01OpIndex[n]
		if !ok {
			c.Fatal("unknown operation %q", n)
			return
		}
		ops = append(ops, i)
	}
	ex := &mc.Explorer{Ctx: c, NoCount: true, Opts: c01Opts, Body: func() any { return c01Run(in, ops, 0) }}
	x := ex.RunOnce(h.Points)
	c.Eval()
	if x.Exec.Diverged != "" {
		c.Fatal("replay diverged: %s", x.Exec.Diverged)
		return
	}
	if x.Panic != nil {
		w := &c01World{opName: "replay"}
		if len(ops) > 0 {
			w.opName = c01OpList[ops[len(ops)-1]].Name
		}
		if x.Exec.RandBudget {
			w.fail("does-not-terminate", "more than 2000 random draws")
		} else {
			w.fail("panic/harness", "execution panicked: %v", x.Panic)
		}
		c01Report(c, in, ops, x.Exec.Points, w)
		return
	}
	c01Report(c, in, ops, x.Exec.Points, x.Result.(*c01World))
}

func init() {
	mc.Register(&mc.Prop{
		ID:    "C01",
		Level: "model_checking",
		Rule: fmt.Sprintf("explicit-state breadth-first search over ALL histories of up to 3 operations drawn from %d concrete public SeqBag/Alignment operations (thorough: additionally all histories of up to 4 operations drawn from a core of 36 of them) "+
			"(IgnoreIdentical x3 policies, AddSequence {existing, new, auto-renamed name} x {same length, same content, wrong length}, Append/Concat with 0/1/all shared names, wrong length and empty arguments, Rename incl. swap and caller-made collision, RenameRegexp, AppendSeqIdentifier, CleanNames, TrimNames, TrimNamesAuto, Sort, ShuffleSequences and Sample/SampleSeqBag under EVERY sequence of RNG answers, FilterLength over 25 bound pairs, Deduplicate, RemoveGapSeqs/Sites at cut-offs 0 and 1, Translate in frames 0,1,2 and all three, TrimSequences, SubAlign/SelectSites/Clone/CloneSeqBag/Unalign with adoption of the result, Compress, Clear, ToUpper/ToLower, ReplaceChar, SetSequenceChar) "+
			"from %d initial containers (empty, 1x1, 2x2, mixed case, 3x6 coding, 3x5 with qualifying sites only in the middle, one column, auto-renamed duplicate name, names with special characters, protein, ragged sequence set, empty set); states de-duplicated on the private representation (rows, name index, cached length, alphabet, policy, buffer aliasing); "+
			"after EVERY transition: equality with a list-of-(name,sequence) reference model + rectangularity + index/name/iteration lookups agree + names distinct unless caller-made. states = canonical states (distinct within a shard), transitions = real operation calls checked, distinct_nontrivial = distinct (initial container, canonical state) reached by a successful state-changing operation.", len(c01OpList), len(c01Inits)),
		Assumptions: []string{
			"state key = complete private state of seqbag/align (dumped by an overlay-added file of package align), including for every row whether its buffer has spare capacity and whether that capacity overlaps an earlier row's (an in-place append reads both) — public methods read nothing else, so equal keys have equal futures",
			"operations that report an error are not 'successful operations': the state after them is checked only where the statement demands 'unchanged' (wrong-length insertion) and is not expanded",
			"operations pairing rows by name (Concat, Sort, by-name lookups, extraction into a new object) are not compared while caller-made duplicate names exist",
			"derived objects (SubAlign, Clone, Sample …) get their duplicate-name policy set explicitly after creation (inheritance is undocumented)",
		},
		Tasks: func(tier string) []mc.Task {
			all := make([]int, len(c01OpList))
			for i := range all {
				all[i] = i
			}
			var core []int
			for i, op := range c01OpList {
				if c01CoreOps[op.Name] {
					core = append(core, i)
				}
			}
			type plan struct {
				name    string
				opset   []int
				depth   int
				nshards int
			}
			plans := []plan{{"all", all, 3, 16}}
			if tier == "thorough" {
				plans = append(plans, plan{"core", core, 4, 48})
			}
			if d, err := strconv.Atoi(os.Getenv("C01_DEPTH")); err == nil && d > 0 {
				plans = []plan{{"all", all, d, 16}} // development aid
			}
			var ts []mc.Task
			for _, pl := range plans {
				for _, in := range c01Inits {
					for sh := 0; sh < pl.nshards; sh++ {
						in, sh, pl := in, sh, pl
						ts = append(ts, mc.Task{Name: fmt.Sprintf("%s-%s-d%d#shard%d/%d", in.Name, pl.name, pl.depth, sh, pl.nshards), Run: func(c *mc.Ctx) { c01Task(c, in, pl.opset, sh, pl.nshards, pl.depth) }})
					}
				}
			}
			return ts
		},
		Replay: func(c *mc.Ctx, payload json.RawMessage) {
			var h c01Hist
			if err := json.Unmarshal(payload, &h); err != nil {
				c.Fatal("bad payload: %v", err)
				return
			}
			c01Replay(c, h)
		},
		Vacuity: func(tier string, t *mc.Totals) error {
			if t.States < 5000 || t.Transitions < 100000 {
				return fmt.Errorf("too little explored: states=%d transitions=%d", t.States, t.Transitions)
			}
			fired := 0
			for k := range t.Extra {
				if strings.HasPrefix(k, "op_fired:") {
					fired++
				}
			}
			if fired < 30 {
				return fmt.Errorf("only %d operation classes ever produced a new state", fired)
			}
			return nil
		},
	})
}
