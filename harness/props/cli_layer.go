package props

import (
	"compress/gzip"
	"encoding/json"
	"fmt"
	"io"
	"os"
	"path/filepath"
	"strings"

	"verif/harness/mc"

	"github.com/evolbioinfo/goalign/align"
)

// The command-line layer shared by the drivers: the properties are anchored in
// cmd/*.go as well as in the library, and a command may wire a flag to the
// wrong argument, forget an option or post-process a result.  A cliBox runs
// goalign commands in process (cmd.RootCmd, flags reset before every run, see
// c04RunCLI) with their input and output in files of a private directory, so
// that a driver can enumerate option combinations and compare what the command
// writes with what the library call it documents returns for the same
// arguments (the library call itself is judged by the driver's oracle).

type cliBox struct {
	dir     string
	written map[string]string
}

func newCLIBox(c *mc.Ctx, pattern string) *cliBox {
	d, err := c04TempDir(pattern)
	if err != nil {
		c.Fatal("cannot create a private directory: %v", err)
		return nil
	}
	return &cliBox{dir: d, written: map[string]string{}}
}

func (b *cliBox) close() {
	if b != nil && b.dir != "" {
		os.RemoveAll(b.dir)
		b.dir = ""
	}
}

func (b *cliBox) path(name string) string { return filepath.Join(b.dir, name) }

// put writes an input file (skipped when the same content is still there).
func (b *cliBox) put(c *mc.Ctx, name, content string) bool {
	if old, ok := b.written[name]; ok && old == content {
		return true
	}
	if err := os.WriteFile(b.path(name), []byte(content), 0o644); err != nil {
		c.Fatal("cannot write %s: %v", name, err)
		return false
	}
	b.written[name] = content
	return true
}

// drop removes output files of an earlier run so that a command which writes
// nothing is not credited with them.
func (b *cliBox) drop(names ...string) {
	for _, n := range names {
		os.Remove(b.path(n))
		delete(b.written, n)
	}
}

// gunzip reads a gzip file of the box.
func (b *cliBox) gunzip(name string) (string, bool) {
	f, err := os.Open(b.path(name))
	if err != nil {
		return "", false
	}
	defer f.Close()
	zr, err := gzip.NewReader(f)
	if err != nil {
		return "", false
	}
	x, err := io.ReadAll(zr)
	if err != nil {
		return "", false
	}
	return string(x), true
}

func (b *cliBox) get(name string) (string, bool) {
	x, err := os.ReadFile(b.path(name))
	if err != nil {
		return "", false
	}
	return string(x), true
}

// run executes goalign with the arguments ("@name" = file of the box).
// harnessErr is set for failures of the environment (descriptor exhaustion).
func (b *cliBox) run(c *mc.Ctx, args ...string) (err error, panicked bool, msg string, harnessErr bool) {
	full := make([]string, len(args))
	for i, a := range args {
		if strings.HasPrefix(a, "@") {
			a = b.path(a[1:])
		}
		full[i] = a
	}
	c.Count("goalign_commands", 1)
	err, panicked, msg = c04RunCLI(full)
	if err != nil && strings.Contains(err.Error(), "too many open files") {
		c.Fatal("harness: %v", err)
		return err, false, "", true
	}
	return
}

func cliFasta(names []string, seqs []string) string {
	var sb strings.Builder
	for i, s := range seqs {
		fmt.Fprintf(&sb, ">%s\n%s\n", names[i], s)
	}
	return sb.String()
}

func cliAlphaFlag(alphabet int) string {
	if alphabet == align.AMINOACIDS {
		return "aa"
	}
	return "nt"
}

func cliIntLines(s string) ([]int, bool) {
	var out []int
	for _, l := range strings.Split(s, "\n") {
		if l == "" {
			continue
		}
		var v int
		if _, err := fmt.Sscanf(l, "%d", &v); err != nil {
			return nil, false
		}
		out = append(out, v)
	}
	return out, true
}

func cliSameInts(a, b []int) bool {
	if len(a) != len(b) {
		return false
	}
	for i := range a {
		if a[i] != b[i] {
			return false
		}
	}
	return true
}

// runStdout executes the command with os.Stdout redirected to a file of the box
// and returns what it printed.
func (b *cliBox) runStdout(c *mc.Ctx, args ...string) (out string, err error, panicked bool, msg string, harnessErr bool) {
	f, ferr := os.Create(b.path("stdout.txt"))
	if ferr != nil {
		c.Fatal("harness: %v", ferr)
		return "", ferr, false, "", true
	}
	old := os.Stdout
	os.Stdout = f
	err, panicked, msg, harnessErr = b.run(c, args...)
	os.Stdout = old
	f.Close()
	x, _ := os.ReadFile(b.path("stdout.txt"))
	return string(x), err, panicked, msg, harnessErr
}

// ---------------------------------------------------------------- alignments of a stream are treated one by one
//
// Most commands accept a Phylip file holding several alignments and process
// them in turn.  What a command writes for the stream [A, B, …] must be what it
// writes for A alone followed by what it writes for B alone: anything else means
// that state computed for one alignment (a converted coordinate, a parsed
// position list, a window that slid) leaked into the next one.  The commands
// and flags below are those the properties are anchored in; each row belongs to
// the property whose statement covers the command.

type cliStreamCase struct {
	Stream bool       `json:"cli_stream"`
	Prop   string     `json:"prop"`
	Args   []string   `json:"args"`
	Inputs [][]string `json:"inputs"` // alignments (rows a, b, c, …), in stream order
}

var cliStreamCommands = []struct {
	prop string
	args []string
}{
	{"C04", []string{"subseq", "-s", "1", "-l", "3"}},
	{"C04", []string{"subseq", "-s", "1", "-l", "3", "--ref-seq", "b"}},
	{"C04", []string{"subseq", "-s", "0", "-l", "2", "--step", "2"}},
	{"C04", []string{"subseq", "-s", "1", "-l", "2", "--ref-seq", "b", "-r"}},
	{"C04", []string{"subsites", "1", "3", "4"}},
	{"C04", []string{"subsites", "--ref-seq", "b", "1", "3"}},
	{"C04", []string{"subsites", "--ref-seq", "b", "-r", "0", "2"}},
	{"C04", []string{"trim", "seq", "-n", "2"}},
	{"C04", []string{"trim", "seq", "-n", "1", "-s"}},
	{"C15", []string{"mask", "-s", "1", "-l", "3"}},
	{"C15", []string{"mask", "--pos", "1,3", "--ref-seq", "b"}},
	{"C15", []string{"mask", "--pos", "0,4"}},
	{"C15", []string{"mask", "-s", "1", "-l", "3", "--ref-seq", "b", "--no-ref"}},
	{"C15", []string{"mask", "-s", "0", "-l", "4", "--ref-seq", "b", "--no-gaps", "--replace", "GAP"}},
	{"C15", []string{"mask", "--unique", "--replace", "MAJ"}},
	{"C15", []string{"mask", "--unique", "--at-most", "2", "--ref-seq", "b"}},
	{"C12", []string{"clean", "sites", "-q", "-c", "0.3"}},
	{"C12", []string{"clean", "sites", "-q", "-c", "0.5", "--char", "MAJ", "--ends"}},
	{"C12", []string{"clean", "seqs", "-q", "-c", "0.2"}},
	{"C06", []string{"revcomp"}},
	{"C06", []string{"revcomp", "b"}},
	{"C06", []string{"tolower"}},
	{"C06", []string{"toupper"}},
	{"C06", []string{"revcomp", "zz", "b", "c"}}, // a name no alignment has, before names they have
	{"C06", []string{"revcomp", "c", "zz", "a"}},
	{"C13", []string{"dedup", "-l", "@aux"}},
	{"C06", []string{"unalign", "-o", "@perfile"}},
	{"C06", []string{"unalign", "-o", "@perfile", "-t", "4"}},
	{"C14", []string{"stats", "--per-sequences", "--ref-sequence", "b"}},
	{"C14", []string{"stats", "--per-sequences"}},
	{"C11", []string{"reformat", "phylip"}},
	{"C11", []string{"reformat", "phylip", "--output-strict"}},
	{"C11", []string{"reformat", "nexus"}},
	{"C05", []string{"translate", "--phase", "1"}},
	{"C14", []string{"consensus"}},
	{"C14", []string{"consensus", "--ignore-gaps"}},
	{"C14", []string{"stats", "nseq"}},
	{"C14", []string{"stats", "length"}},
	{"C13", []string{"dedup"}},
	{"C13", []string{"compress"}},
}

// cliStreamInputs: alignments whose reference row b has its gaps at different columns, of different lengths.
var cliStreamInputs = [][]string{
	{"AC-GTA", "A-CGTT", "ACGG-A"},
	{"-ACGTAC", "AC--GTT", "TTGCA-A"},
	{"TTTGCA", "TG-CA-", "TTTGCA"},
}

func cliPhylip(seqs []string) string {
	var sb strings.Builder
	fmt.Fprintf(&sb, "   %d   %d\n", len(seqs), len(seqs[0]))
	for i, s := range seqs {
		fmt.Fprintf(&sb, "%s  %s\n", c12Names[i], s)
	}
	return sb.String()
}

func cliStreamCheck(c *mc.Ctx, box *cliBox, cs cliStreamCase) {
	c.Eval()
	viol := func(clause, desc string) {
		c.Violation(cs.Prop+"/cli-stream/"+cs.Args[0]+"/"+clause, fmt.Sprintf("%s: goalign %s -p on a stream of %d alignments %v", desc, strings.Join(cs.Args, " "), len(cs.Inputs), cs.Inputs), cs)
	}
	lastAux := ""
	run := func(content string) (string, bool, bool) {
		if !box.put(c, "in.phy", content) {
			return "", false, false
		}
		args := append(append([]string{}, cs.Args...), "-p", "-i", "@in.phy")
		// "@aux": an auxiliary output file of the command (a log); its content is part of what is compared
		hasAux := false
		for i, a := range args {
			if a == "@aux" {
				args[i], hasAux = box.path("aux.txt"), true
			}
		}
		// "@perfile": the command writes one file per alignment, <prefix>_000001.fa, <prefix>_000002.fa, ...; what
		// is compared is their content in that order
		perFile := false
		for i, a := range args {
			if a == "@perfile" {
				args[i], perFile = box.path("pf"), true
			}
		}
		box.drop("aux.txt")
		out, err, pn, msg, herr := box.runStdout(c, args...)
		if herr {
			return "", false, false
		}
		if pn {
			viol("panic/"+mc.PanicSite(msg), msg)
			return "", false, false
		}
		lastAux = ""
		if hasAux {
			lastAux, _ = box.get("aux.txt")
		}
		if perFile {
			for k := 1; ; k++ {
				name := fmt.Sprintf("pf_%06d.fa", k)
				x, found := box.get(name)
				if !found {
					break
				}
				lastAux += x
				box.drop(name)
			}
		}
		return out, err == nil, true
	}
	var want, wantAux strings.Builder
	var all strings.Builder
	for _, in := range cs.Inputs {
		ph := cliPhylip(in)
		all.WriteString(ph)
		o, ok, alive := run(ph)
		wantAux.WriteString(lastAux)
		if !alive {
			return
		}
		if !ok {
			c.Outcome("cli-stream:" + cs.Args[0] + ":single-fails")
			c.Count("cli_stream_single_fails:"+strings.Join(cs.Args, "_"), 1)
			return
		}
		want.WriteString(o)
	}
	got, ok, alive := run(all.String())
	if !alive {
		return
	}
	c.Mark(cs)
	c.Nontrivial(jsonStr(cs))
	if !ok {
		viol("stream-fails", "every alignment alone is accepted, the stream is not")
		return
	}
	if got != want.String() {
		viol("differs-from-one-by-one", fmt.Sprintf("the stream gives %q; the alignments one by one give %q", got, want.String()))
		return
	}
	if lastAux != wantAux.String() {
		viol("auxiliary-file-differs-from-one-by-one", fmt.Sprintf("for the stream the auxiliary file holds %q; for the alignments one by one %q", lastAux, wantAux.String()))
		return
	}
	c.Outcome("cli-stream:" + cs.Args[0] + ":same")
	c.Count("cli_stream_same", 1)
}

// cliStreamTasks: the rows of the table that belong to prop, on every ordered pair and one triple of inputs.
func cliStreamTasks(prop string) []mc.Task {
	var ts []mc.Task
	for _, row := range cliStreamCommands {
		if row.prop != prop {
			continue
		}
		row := row
		ts = append(ts, mc.Task{Name: "cli-stream#" + strings.Join(row.args, "_"), Run: func(c *mc.Ctx) {
			box := newCLIBox(c, "cli-stream-")
			if box == nil {
				return
			}
			defer box.close()
			n := len(cliStreamInputs)
			for i := 0; i < n; i++ {
				for j := 0; j < n; j++ {
					cliStreamCheck(c, box, cliStreamCase{Stream: true, Prop: prop, Args: row.args, Inputs: [][]string{cliStreamInputs[i], cliStreamInputs[j]}})
				}
			}
			cliStreamCheck(c, box, cliStreamCase{Stream: true, Prop: prop, Args: row.args, Inputs: cliStreamInputs})
		}})
	}
	return ts
}

// cliStreamReplay replays a stream case; false when the payload is something else.
func cliStreamReplay(c *mc.Ctx, payload []byte) bool {
	var cs cliStreamCase
	if err := json.Unmarshal(payload, &cs); err != nil || !cs.Stream || len(cs.Args) == 0 || len(cs.Inputs) == 0 {
		return false
	}
	box := newCLIBox(c, "cli-stream-")
	if box == nil {
		return true
	}
	defer box.close()
	cliStreamCheck(c, box, cs)
	return true
}

const cliStreamRule = " Command-line streams: for the commands of this property that read a Phylip file of several alignments (table cliStreamCommands in cli_layer.go), what the command prints for a stream of two or three alignments (every ordered pair and one triple of 3 alignments of different lengths whose reference row has its gaps at different columns) must be what it prints for each alignment alone, in order (an auxiliary log file the command writes is compared the same way)."
