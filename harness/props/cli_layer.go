package props

import (
	"fmt"
	"os"
	"path/filepath"
	"strings"

	"verif/harness/mc"

	"github.com/evolbioinfo/goalign/align"
)

// The command-line layer shared by the drivers: the properties are anchored in
// cmd/*.go as well as in the library, and a command may wire a flag to the
// wrong argument, forget an option or post-process a result.  A cliBox runs
// goalign commands in process (cmd.RootCmd, flags reset before every run, see
// c04RunCLI) with their input and output in files of a private directory, so
// that a driver can enumerate option combinations and compare what the command
// writes with what the library call it documents returns for the same
// arguments (the library call itself is judged by the driver's oracle).

type cliBox struct {
	dir     string
	written map[string]string
}

func newCLIBox(c *mc.Ctx, pattern string) *cliBox {
	d, err := c04TempDir(pattern)
	if err != nil {
		c.Fatal("cannot create a private directory: %v", err)
		return nil
	}
	return &cliBox{dir: d, written: map[string]string{}}
}

func (b *cliBox) close() {
	if b != nil && b.dir != "" {
		os.RemoveAll(b.dir)
		b.dir = ""
	}
}

func (b *cliBox) path(name string) string { return filepath.Join(b.dir, name) }

// put writes an input file (skipped when the same content is still there).
func (b *cliBox) put(c *mc.Ctx, name, content string) bool {
	if old, ok := b.written[name]; ok && old == content {
		return true
	}
	if err := os.WriteFile(b.path(name), []byte(content), 0o644); err != nil {
		c.Fatal("cannot write %s: %v", name, err)
		return false
	}
	b.written[name] = content
	return true
}

// drop removes output files of an earlier run so that a command which writes
// nothing is not credited with them.
func (b *cliBox) drop(names ...string) {
	for _, n := range names {
		os.Remove(b.path(n))
		delete(b.written, n)
	}
}

func (b *cliBox) get(name string) (string, bool) {
	x, err := os.ReadFile(b.path(name))
	if err != nil {
		return "", false
	}
	return string(x), true
}

// run executes goalign with the arguments ("@name" = file of the box).
// harnessErr is set for failures of the environment (descriptor exhaustion).
func (b *cliBox) run(c *mc.Ctx, args ...string) (err error, panicked bool, msg string, harnessErr bool) {
	full := make([]string, len(args))
	for i, a := range args {
		if strings.HasPrefix(a, "@") {
			a = b.path(a[1:])
		}
		full[i] = a
	}
	c.Count("goalign_commands", 1)
	err, panicked, msg = c04RunCLI(full)
	if err != nil && strings.Contains(err.Error(), "too many open files") {
		c.Fatal("harness: %v", err)
		return err, false, "", true
	}
	return
}

func cliFasta(names []string, seqs []string) string {
	var sb strings.Builder
	for i, s := range seqs {
		fmt.Fprintf(&sb, ">%s\n%s\n", names[i], s)
	}
	return sb.String()
}

func cliAlphaFlag(alphabet int) string {
	if alphabet == align.AMINOACIDS {
		return "aa"
	}
	return "nt"
}

func cliIntLines(s string) ([]int, bool) {
	var out []int
	for _, l := range strings.Split(s, "\n") {
		if l == "" {
			continue
		}
		var v int
		if _, err := fmt.Sscanf(l, "%d", &v); err != nil {
			return nil, false
		}
		out = append(out, v)
	}
	return out, true
}

func cliSameInts(a, b []int) bool {
	if len(a) != len(b) {
		return false
	}
	for i := range a {
		if a[i] != b[i] {
			return false
		}
	}
	return true
}
