package props

import (
	"encoding/json"
	"fmt"
	"math"
	"strconv"
	"strings"

	"verif/harness/mc"
)

// Command-line layer of C20 (cmd/weightboot.go): goalign build weightboot -n k writes k weight vectors,
// one per line: each line holds one strictly positive finite weight per site and sums to the alignment
// length (to the 6 decimals the command prints).  Output on a file (plain, .gz) and on standard output,
// short and long enough to need several write buffers.

type c20CLICase struct {
	CLI  bool   `json:"cli_weightboot"`
	L    int    `json:"l"`
	N    int    `json:"n"`
	Seed int    `json:"seed"`
	Out  string `json:"out"` // stdout | file | file.gz
	// More: the input is a Phylip file of several alignments; the first has L sites, the following ones these
	// many ("If the input alignment contains several alignments, will process the first one only")
	More []int `json:"more_alignments,omitempty"`
	// Threads: --threads (0: not given)
	Threads int `json:"threads,omitempty"`
	// Existing (file outputs): the output file exists already and is longer than what the command writes
	Existing bool `json:"existing_file,omitempty"`
}

func c20CheckCLI(c *mc.Ctx, box *cliBox, cs c20CLICase) {
	c.Eval()
	viol := func(clause, desc string) {
		c.Violation("C20/cli-weightboot/"+clause, fmt.Sprintf("%s: case %s", desc, jsonStr(cs)), cs)
	}
	maxL := cs.L
	for _, l := range cs.More {
		maxL = max(maxL, l)
	}
	row := func(k int) string {
		b := make([]byte, maxL)
		for j := range b {
			b[j] = "ACGT"[(j*(k+1)+j/3)%4]
		}
		return string(b)
	}
	args := []string{"build", "weightboot", "-i", "@in.fa", "-n", strconv.Itoa(cs.N), "--seed", strconv.Itoa(cs.Seed)}
	if len(cs.More) > 0 {
		var ph strings.Builder
		for _, l := range append([]int{cs.L}, cs.More...) {
			ph.WriteString(cliPhylip([]string{row(0)[:l], row(1)[:l], row(2)[:l]}))
		}
		if !box.put(c, "in.phy", ph.String()) {
			return
		}
		args = []string{"build", "weightboot", "-p", "-i", "@in.phy", "-n", strconv.Itoa(cs.N), "--seed", strconv.Itoa(cs.Seed)}
	} else if !box.put(c, "in.fa", cliFasta(rowNames, []string{row(0), row(1), row(2)})) {
		return
	}
	if cs.Threads > 0 {
		args = append(args, "-t", strconv.Itoa(cs.Threads))
	}
	var out string
	var err error
	var pn, herr bool
	var msg string
	c.Mark(cs)
	switch cs.Out {
	case "stdout":
		out, err, pn, msg, herr = box.runStdout(c, args...)
	default:
		name := "w.txt"
		if cs.Out == "file.gz" {
			name = "w.txt.gz"
		}
		box.drop(name)
		if cs.Existing && !box.put(c, name, strings.Repeat(strings.Repeat("1.000000\t", 3*cs.L+5)+"\n", cs.N+3)) {
			return
		}
		err, pn, msg, herr = box.run(c, append(args, "-o", box.path(name))...)
		if err == nil && !pn && !herr {
			var ok bool
			if cs.Out == "file.gz" {
				out, ok = box.gunzip(name)
			} else {
				out, ok = box.get(name)
			}
			if !ok {
				viol("no-output", "the command succeeded without a readable output file")
				return
			}
		}
	}
	if herr {
		return
	}
	if pn {
		viol("panic/"+mc.PanicSite(msg), msg)
		return
	}
	if err != nil {
		viol("command-fails", err.Error())
		return
	}
	lines := strings.Split(strings.TrimSuffix(out, "\n"), "\n")
	if out == "" {
		lines = nil
	}
	if len(lines) != cs.N {
		viol("vector-count", fmt.Sprintf("%d lines for -n %d (output of %d bytes)", len(lines), cs.N, len(out)))
		return
	}
	for li, l := range lines {
		f := strings.Split(l, "\t")
		if len(f) != cs.L {
			viol("one-weight-per-site", fmt.Sprintf("line %d holds %d weights for %d sites", li, len(f), cs.L))
			return
		}
		sum := 0.0
		for _, x := range f {
			v, e := strconv.ParseFloat(x, 64)
			if e != nil || math.IsNaN(v) || math.IsInf(v, 0) || v < 0 {
				viol("weight-not-finite-positive", fmt.Sprintf("line %d: %q", li, x))
				return
			}
			sum += v
		}
		if math.Abs(sum-float64(cs.L)) > float64(cs.L)*1e-6+1e-9 {
			viol("sum-not-alignment-length", fmt.Sprintf("line %d sums to %v for %d sites", li, sum, cs.L))
			return
		}
	}
	c.Nontrivial(jsonStr(cs))
	c.Outcome("cli-weightboot:" + cs.Out + ":ok")
}

func c20CLITasks() []mc.Task {
	return []mc.Task{{Name: "cli-weightboot#all", Run: func(c *mc.Ctx) {
		box := newCLIBox(c, "c20-cli-")
		if box == nil {
			return
		}
		defer box.close()
		// several alignments in the input: the first one only is processed
		for _, more := range [][]int{{25, 7}, {7}, {10}} {
			for seed := 1; seed <= 2; seed++ {
				c20CheckCLI(c, box, c20CLICase{CLI: true, L: 10, N: 2, Seed: seed, Out: "stdout", More: more})
			}
		}
		// the output file exists already, longer than the new content (a re-run with fewer vectors)
		for _, n := range []int{1, 3} {
			c20CheckCLI(c, box, c20CLICase{CLI: true, L: 12, N: n, Seed: 2, Out: "file", Existing: true})
		}
		// several threads asked for: as many vectors, each of one weight per site
		for _, threads := range []int{1, 2, 3, 4, 16} {
			for _, n := range []int{1, 2, 5, 17} {
				for _, out := range []string{"stdout", "file"} {
					c20CheckCLI(c, box, c20CLICase{CLI: true, L: 12, N: n, Seed: 3, Out: out, Threads: threads})
				}
			}
		}
		for _, L := range []int{3, 4, 10, 100, 455, 456, 700, 2000, 7000, 7500, 30000} { // long lines: several write buffers per line // 9 bytes per weight: 455/456 straddle 4096 bytes per line
			for _, n := range []int{1, 2, 5} {
				for _, out := range []string{"stdout", "file", "file.gz"} {
					if L > 2000 && (n > 1 && out != "file") {
						continue
					}
					for seed := 1; seed <= 2; seed++ {
						c20CheckCLI(c, box, c20CLICase{CLI: true, L: L, N: n, Seed: seed, Out: out})
					}
				}
			}
		}
	}}}
}

func c20CLIReplay(c *mc.Ctx, payload []byte) bool {
	var cs c20CLICase
	if err := json.Unmarshal(payload, &cs); err != nil || !cs.CLI {
		return false
	}
	box := newCLIBox(c, "c20-cli-")
	if box == nil {
		return true
	}
	defer box.close()
	c20CheckCLI(c, box, cs)
	return true
}
