package props

import (
	"runtime"
	"encoding/json"
	"fmt"
	"sort"
	"strconv"
	"strings"

	"verif/harness/mc"

	"github.com/evolbioinfo/goalign/align"
)

// C13 — de-duplication and site compression lose nothing but redundancy.
//
// Oracle (from the property statement and docs/commands/dedup.md, compress.md):
//
//   dedup   two sequences are "the same" when they are byte-wise equal; with
//           nAsGap, after replacing the alphabet's wildcard (N in a nucleotide
//           set, X in a protein set: "X/N (depending on alphabet)") by '-'.
//           Row i is kept iff no earlier row is the same; kept rows keep their
//           own name / residues / comment and their relative order; the
//           reported groups partition the input names, each group is exactly
//           the class of its first element, which is a kept row; a second
//           application changes nothing and reports singletons only.
//   compress  the emitted columns are pairwise distinct, are exactly the
//           distinct input columns, weights[i] is the number of input columns
//           equal to emitted column i, the weights sum to the input length, so
//           that sum_i w_i*f(col_i) = sum over input columns f(col) for any f.
//
// The oracle is a pairwise-comparison re-implementation (no string-keyed map,
// no radix tree) and never calls Deduplicate / Compress.

type c13Case struct {
	Op     string   `json:"op"`   // dedup | compress
	Kind   string   `json:"kind"` // aln | bag
	Alpha  int      `json:"alpha"`
	NAsGap bool     `json:"nasgap,omitempty"`
	Seqs   []string `json:"seqs"`
	// Raw carries the rows instead of Seqs when they hold bytes >= 0x80 (JSON strings cannot)
	Raw [][]byte `json:"raw,omitempty"`
	// Procs: GOMAXPROCS during the case (0 = unchanged)
	Procs int `json:"gomaxprocs,omitempty"`
}

// c13Payload is the JSON-safe form of a case.
func c13Payload(cs c13Case) c13Case {
	if c13NonASCII(cs.Seqs) {
		cs.Raw = make([][]byte, len(cs.Seqs))
		for i, s := range cs.Seqs {
			cs.Raw[i] = []byte(s)
		}
		cs.Seqs = nil
	}
	return cs
}

func c13CaseStr(cs c13Case) string {
	return fmt.Sprintf("{op:%s kind:%s alphabet:%s nAsGap:%v rows:%q}", cs.Op, cs.Kind, c13AlphaName(cs.Alpha), cs.NAsGap, cs.Seqs)
}

var c13Comments = func() []string {
	o := make([]string, len(c13Names))
	for i, n := range c13Names {
		o[i] = "k" + n
	}
	return o
}()

func c13Comment(i int) string {
	if i < len(c13Comments) {
		return c13Comments[i]
	}
	return "k" + c13Name(i)
}

// c13Idx is the input position of a row name (-1 when it is not an input name).
func c13Idx(name string, n int) int {
	for i := 0; i < n; i++ {
		if c13Name(i) == name {
			return i
		}
	}
	return -1
}

// names deliberately not in alphabetical order (a result sorted by name differs from input order)
var c13Names = []string{"q", "b", "z", "a", "m", "c", "y", "d", "x", "e", "w", "f", "v", "g", "u", "h"}

func c13Name(i int) string {
	if i < len(c13Names) {
		return c13Names[i]
	}
	return "s" + strconv.Itoa(i)
}

// c13Wildcard: docs/commands/dedup.md — "X/N (depending on alphabet) are considered identical to GAPS".
func c13Wildcard(alpha int) byte {
	if alpha == align.AMINOACIDS {
		return 'X'
	}
	return 'N'
}

func c13AlphaName(alpha int) string {
	if alpha == align.AMINOACIDS {
		return "aa"
	}
	return "nt"
}

// c13Same compares two sequences position by position.
func c13Same(a, b string, nAsGap bool, wild byte) bool {
	if len(a) != len(b) {
		return false
	}
	for i := 0; i < len(a); i++ {
		x, y := a[i], b[i]
		if nAsGap {
			if x == wild {
				x = '-'
			}
			if y == wild {
				y = '-'
			}
		}
		if x != y {
			return false
		}
	}
	return true
}

type c13Row struct {
	Name, Seq, Comment string
}

func c13Read(sb align.SeqBag) []c13Row {
	out := make([]c13Row, 0, sb.NbSequences())
	for i := 0; i < sb.NbSequences(); i++ {
		s, ok := sb.Sequence(i)
		if !ok || s == nil {
			out = append(out, c13Row{"<missing>", "", ""})
			continue
		}
		out = append(out, c13Row{s.Name(), s.Sequence(), s.Comment()})
	}
	return out
}

func c13RowsStr(r []c13Row) string {
	var b strings.Builder
	for i, x := range r {
		if i > 0 {
			b.WriteByte(';')
		}
		b.WriteString(x.Name)
		b.WriteByte('=')
		b.WriteString(strconv.Quote(x.Seq))
	}
	return b.String()
}

func c13Build(cs c13Case) (align.SeqBag, error) {
	var sb align.SeqBag
	if cs.Kind == "aln" {
		sb = align.NewAlign(cs.Alpha)
	} else {
		sb = align.NewSeqBag(cs.Alpha)
	}
	for i, s := range cs.Seqs {
		if err := sb.AddSequence(c13Name(i), s, c13Comment(i)); err != nil {
			return nil, err
		}
	}
	return sb, nil
}

func c13NonASCII(seqs []string) bool {
	for _, s := range seqs {
		for i := 0; i < len(s); i++ {
			if s[i] >= 0x80 {
				return true
			}
		}
	}
	return false
}

func c13Check(c *mc.Ctx, cs c13Case) {
	if cs.Procs > 0 {
		defer runtime.GOMAXPROCS(runtime.GOMAXPROCS(cs.Procs))
	}
	switch cs.Op {
	case "dedup":
		c13Dedup(c, cs)
	case "compress":
		c13Compress(c, cs)
	case "sched-compress", "sched-dedup":
		op := strings.TrimPrefix(cs.Op, "sched-")
		run := cs
		run.Op = op
		mc.SchedProbe(c, "C13/"+op, fmt.Sprintf("%s on a %dx%d alignment", op, len(cs.Seqs), len(cs.Seqs[0])), 1, c13Payload(cs), func() any {
			sb, err := c13Build(run)
			if err != nil {
				return "build:" + err.Error()
			}
			if op == "compress" {
				w := sb.(align.Alignment).Compress()
				return fmt.Sprint(w, c13RowsStr(c13Read(sb)))
			}
			id, err := sb.Deduplicate(false)
			return fmt.Sprint(id, err, c13RowsStr(c13Read(sb)))
		}, func(a, b any) bool { return a == b })
	default:
		c.Fatal("unknown op %q", cs.Op)
	}
}

// ---------------------------------------------------------------- dedup

func c13Dedup(c *mc.Ctx, cs c13Case) {
	c.Eval()
	mode := "exact"
	if cs.NAsGap {
		mode = "n-as-gap"
	}
	viol := func(clause, desc string) {
		c.Violation("C13/dedup/"+clause+"/"+mode, fmt.Sprintf("%s: case %s", desc, c13CaseStr(cs)), c13Payload(cs))
	}
	sb, e := c13Build(cs)
	if e != nil {
		c.Fatal("cannot build input %s: %v", c13CaseStr(cs), e)
		return
	}
	n := len(cs.Seqs)
	wild := c13Wildcard(cs.Alpha)

	// ---- reference model
	var leaderA [16]int
	leader := leaderA[:0] // index of the first row that is the same as row i
	if n <= len(leaderA) {
		leader = leaderA[:n]
	} else {
		leader = make([]int, n)
	}
	nKept := 0
	for i := 0; i < n; i++ {
		leader[i] = i
		for j := 0; j < i; j++ {
			if c13Same(cs.Seqs[j], cs.Seqs[i], cs.NAsGap, wild) {
				leader[i] = j
				break
			}
		}
		if leader[i] == i {
			nKept++
		}
	}

	// ---- first application
	var groups [][]string
	var err error
	if pn, msg := mc.Guard(func() { groups, err = sb.Deduplicate(cs.NAsGap) }); pn {
		c.Violation("C13/dedup/panic/"+mc.PanicSite(msg), fmt.Sprintf("%s: case %s", msg, c13CaseStr(cs)), c13Payload(cs))
		return
	}
	if err != nil {
		viol("unexpected-error", err.Error())
		return
	}
	got := c13Read(sb)

	// kept rows: set, then order, then content
	gotIdx := make([]int, len(got))
	seen := make([]bool, n)
	setOK := len(got) == nKept
	for k, g := range got {
		i := c13Idx(g.Name, n)
		if i < 0 || seen[i] || leader[i] != i {
			setOK = false
			i = -1
		} else {
			seen[i] = true
		}
		gotIdx[k] = i
	}
	if !setOK {
		var want []string
		for i := 0; i < n; i++ {
			if leader[i] == i {
				want = append(want, c13Name(i))
			}
		}
		viol("kept-set", fmt.Sprintf("kept rows %s, expected exactly the first occurrences %v", c13RowsStr(got), want))
		return
	}
	for k := 1; k < len(gotIdx); k++ {
		if gotIdx[k-1] > gotIdx[k] {
			viol("kept-order", fmt.Sprintf("kept rows %s are not in input order", c13RowsStr(got)))
			return
		}
	}
	for k, g := range got {
		i := gotIdx[k]
		if g.Seq != cs.Seqs[i] {
			viol("kept-content", fmt.Sprintf("kept row %s has residues %q, the input row had %q", g.Name, g.Seq, cs.Seqs[i]))
			return
		}
		if g.Comment != c13Comment(i) {
			viol("kept-comment", fmt.Sprintf("kept row %s has comment %q, the input row had %q", g.Name, g.Comment, c13Comment(i)))
			return
		}
	}

	// groups: partition of the input names
	cnt := make([]int, n)
	total := 0
	partOK := true
	for _, g := range groups {
		for _, nm := range g {
			i := c13Idx(nm, n)
			if i < 0 {
				partOK = false
				continue
			}
			cnt[i]++
			total++
		}
	}
	for i := 0; i < n; i++ {
		if cnt[i] != 1 {
			partOK = false
		}
	}
	if !partOK || total != n {
		viol("groups-partition", fmt.Sprintf("groups %v do not partition the %d input names", groups, n))
		return
	}
	// each group led by a kept representative, one group per kept row
	if len(groups) != nKept {
		viol("groups-leader", fmt.Sprintf("%d groups %v for %d kept rows %s", len(groups), groups, nKept, c13RowsStr(got)))
		return
	}
	for _, g := range groups {
		if len(g) == 0 {
			viol("groups-leader", fmt.Sprintf("empty group in %v", groups))
			return
		}
		if i := c13Idx(g[0], n); leader[i] != i {
			viol("groups-leader", fmt.Sprintf("group %v is led by %s, which is not a kept row (kept %s)", g, g[0], c13RowsStr(got)))
			return
		}
	}
	// each group is exactly the class of its leader
	for _, g := range groups {
		l := c13Idx(g[0], n)
		for _, nm := range g[1:] {
			if x := c13Idx(nm, n); leader[x] != l {
				viol("groups-members", fmt.Sprintf("group %v contains %s whose sequence %q is not the same as the leader's %q", g, nm, cs.Seqs[x], cs.Seqs[l]))
				return
			}
		}
	}
	// (partition + one group per kept row + members of the leader's class => groups are exactly the classes)

	// container consistency: alignment length, by-name index
	if al, ok := sb.(align.Alignment); ok && n > 0 {
		if al.Length() != len(cs.Seqs[0]) {
			viol("length", fmt.Sprintf("Length()=%d after de-duplication of an alignment of length %d", al.Length(), len(cs.Seqs[0])))
			return
		}
	}
	for i := 0; i < n; i++ {
		s, found := sb.GetSequence(c13Name(i))
		if leader[i] == i {
			if !found || s != cs.Seqs[i] {
				viol("lookup", fmt.Sprintf("kept row %s: GetSequence gives (%q,%v), expected %q", c13Name(i), s, found, cs.Seqs[i]))
				return
			}
		} else if found {
			viol("lookup", fmt.Sprintf("removed row %s can still be retrieved by name (%q)", c13Name(i), s))
			return
		}
	}

	// ---- second application: no-op
	var groups2 [][]string
	if pn, msg := mc.Guard(func() { groups2, err = sb.Deduplicate(cs.NAsGap) }); pn {
		c.Violation("C13/dedup/panic-second/"+mc.PanicSite(msg), fmt.Sprintf("second application: %s: case %s", msg, c13CaseStr(cs)), c13Payload(cs))
		return
	}
	if err != nil {
		viol("idempotence-error", err.Error())
		return
	}
	got2 := c13Read(sb)
	same := len(got2) == len(got)
	for k := 0; same && k < len(got); k++ {
		same = got[k] == got2[k]
	}
	if !same {
		viol("idempotence-rows", fmt.Sprintf("first application gives %s, second gives %s", c13RowsStr(got), c13RowsStr(got2)))
		return
	}
	single := len(groups2) == len(got)
	if single {
		names2 := make([]string, 0, len(groups2))
		for _, g := range groups2 {
			if len(g) != 1 {
				single = false
				break
			}
			names2 = append(names2, g[0])
		}
		if single {
			want := make([]string, 0, len(got))
			for _, g := range got {
				want = append(want, g.Name)
			}
			sort.Strings(names2)
			sort.Strings(want)
			for k := range want {
				if want[k] != names2[k] {
					single = false
				}
			}
		}
	}
	if !single {
		viol("idempotence-groups", fmt.Sprintf("second application on %s reports groups %v, expected one singleton per row", c13RowsStr(got), groups2))
		return
	}

	// ---- bookkeeping
	c.Outcome(c13DedupOutcome(cs.Kind, cs.Alpha, cs.NAsGap, n, nKept))
	if cs.NAsGap {
		// did the option matter for this input?
		exactKept := 0
		for i := 0; i < n; i++ {
			first := true
			for j := 0; j < i; j++ {
				if cs.Seqs[j] == cs.Seqs[i] {
					first = false
					break
				}
			}
			if first {
				exactKept++
			}
		}
		if exactKept != nKept {
			if cs.Alpha == align.AMINOACIDS {
				c.Count("dedup_nasgap_effective_aa", 1)
			} else {
				c.Count("dedup_nasgap_effective_nt", 1)
			}
		}
	}
	if cs.Kind == "aln" {
		c.Count("dedup_aln", 1)
	} else {
		c.Count("dedup_bag", 1)
	}
	if nKept < n {
		c.Nontrivial(c13Key('d', cs))
		if nKept > 1 && n > 3 {
			c.Sample(map[string]any{"case": cs, "kept": c13RowsStr(got), "groups": groups})
		}
	}
}

var c13OutcomeCache = map[[5]int]string{}

func c13DedupOutcome(kind string, alpha int, nAsGap bool, n, kept int) string {
	k := [5]int{int(kind[0]), alpha, 0, n, kept}
	mode := "exact"
	if nAsGap {
		k[2] = 1
		mode = "n-as-gap"
	}
	if s, ok := c13OutcomeCache[k]; ok {
		return s
	}
	s := "dedup:" + kind + ":" + c13AlphaName(alpha) + ":" + mode + ":n" + strconv.Itoa(n) + ":kept" + strconv.Itoa(kept)
	c13OutcomeCache[k] = s
	return s
}

// c13Key is the identity of a case for the distinct-non-trivial count.
func c13Key(op byte, cs c13Case) string {
	b := make([]byte, 0, 48)
	b = append(b, op, cs.Kind[0], byte('0'+cs.Alpha))
	if cs.NAsGap {
		b = append(b, '+')
	}
	for _, s := range cs.Seqs {
		b = append(b, '/')
		b = append(b, s...)
	}
	return string(b)
}

// ---------------------------------------------------------------- compress

// c13Stat is an arbitrary column function for the "column-additive statistic" clause.
func c13Stat(col string) uint64 {
	h := uint64(1469598103934665603)
	for i := 0; i < len(col); i++ {
		h = (h ^ uint64(col[i])) * 1099511628211
	}
	return h>>7 + uint64(len(col))
}

func c13Compress(c *mc.Ctx, cs c13Case) {
	c.Eval()
	class := "ascii"
	if c13NonASCII(cs.Seqs) {
		class = "non-ascii"
	}
	cs.Kind = "aln"
	viol := func(clause, desc string) {
		c.Violation("C13/compress/"+clause+"/"+class, fmt.Sprintf("%s: case %s", desc, c13CaseStr(cs)), c13Payload(cs))
	}
	sb, e := c13Build(cs)
	if e != nil {
		c.Fatal("cannot build input %s: %v", c13CaseStr(cs), e)
		return
	}
	al := sb.(align.Alignment)
	n := len(cs.Seqs)
	L := 0
	if n > 0 {
		L = len(cs.Seqs[0])
	}
	// ---- reference model: input columns and their multiplicities (pairwise comparison)
	cols := make([]string, L)
	buf := make([]byte, n)
	for j := 0; j < L; j++ {
		for i := 0; i < n; i++ {
			buf[i] = cs.Seqs[i][j]
		}
		cols[j] = string(buf)
	}
	mult := func(p string) int {
		k := 0
		for _, q := range cols {
			if q == p {
				k++
			}
		}
		return k
	}
	nDistinct := 0
	var statIn uint64
	for j, p := range cols {
		first := true
		for _, q := range cols[:j] {
			if q == p {
				first = false
				break
			}
		}
		if first {
			nDistinct++
		}
		statIn += c13Stat(p)
	}

	var w []int
	if pn, msg := mc.Guard(func() { w = al.Compress() }); pn {
		c.Violation("C13/compress/panic/"+mc.PanicSite(msg), fmt.Sprintf("%s: case %s", msg, c13CaseStr(cs)), c13Payload(cs))
		return
	}
	got := c13Read(al)
	m := len(w)
	// rows: the same names, every row of length len(weights)
	if len(got) != n {
		viol("names", fmt.Sprintf("%d rows after compression of %d rows: %s", len(got), n, c13RowsStr(got)))
		return
	}
	outSeqs := make([]string, n)
	have := make([]bool, n)
	for _, g := range got {
		i := c13Idx(g.Name, n)
		if i < 0 || have[i] {
			viol("names", fmt.Sprintf("row names changed: %s", c13RowsStr(got)))
			return
		}
		have[i] = true
		outSeqs[i] = g.Seq
	}
	for i := 0; i < n; i++ {
		if len(outSeqs[i]) != m {
			viol("shape", fmt.Sprintf("%d weights %v but row %s has %d columns (%s)", m, w, c13Name(i), len(outSeqs[i]), c13RowsStr(got)))
			return
		}
	}
	if n > 0 && al.Length() != m {
		viol("shape", fmt.Sprintf("Length()=%d but %d weights %v / rows %s", al.Length(), m, w, c13RowsStr(got)))
		return
	}
	emitted := make([]string, m)
	for j := 0; j < m; j++ {
		for i := 0; i < n; i++ {
			buf[i] = outSeqs[i][j]
		}
		emitted[j] = string(buf)
	}
	desc := func() string { return fmt.Sprintf("emitted columns %q weights %v, input columns %q", emitted, w, cols) }
	// pairwise distinct
	for j := 0; j < m; j++ {
		for k := 0; k < j; k++ {
			if n > 0 && emitted[j] == emitted[k] {
				viol("duplicate-pattern", "column pattern emitted twice: "+desc())
				return
			}
		}
	}
	// exactly the input patterns
	for j := 0; j < m; j++ {
		if n > 0 && mult(emitted[j]) == 0 {
			viol("foreign-pattern", fmt.Sprintf("emitted column %q is not a column of the input: %s", emitted[j], desc()))
			return
		}
	}
	if n > 0 && m != nDistinct {
		viol("lost-pattern", fmt.Sprintf("%d distinct input columns, %d emitted: %s", nDistinct, m, desc()))
		return
	}
	if n == 0 {
		if m != 0 {
			viol("lost-pattern", fmt.Sprintf("alignment without rows compressed to %d weights %v", m, w))
		} else {
			c.Outcome("compress:empty")
		}
		return
	}
	// weights
	sum := 0
	for _, x := range w {
		if x <= 0 {
			viol("weight-nonpositive", desc())
			return
		}
		sum += x
	}
	wrong := -1
	for j := 0; j < m; j++ {
		if w[j] != mult(emitted[j]) {
			wrong = j
			break
		}
	}
	if wrong >= 0 {
		wantW := make([]int, m)
		for j := range wantW {
			wantW[j] = mult(emitted[j])
		}
		a, b := append([]int{}, w...), append([]int{}, wantW...)
		sort.Ints(a)
		sort.Ints(b)
		if intsEq(a, b) {
			viol("weight-order", fmt.Sprintf("weights %v are the right multiset but not in the order of the emitted columns (expected %v): %s", w, wantW, desc()))
		} else {
			viol("multiplicity", fmt.Sprintf("weight %d of emitted column %q is %d, the input has it %d times: %s", wrong, emitted[wrong], w[wrong], wantW[wrong], desc()))
		}
		return
	}
	if sum != L {
		viol("weight-sum", fmt.Sprintf("weights sum to %d, input length %d: %s", sum, L, desc()))
		return
	}
	var statOut uint64
	for j := 0; j < m; j++ {
		statOut += uint64(w[j]) * c13Stat(emitted[j])
	}
	if statOut != statIn {
		viol("additive-statistic", fmt.Sprintf("sum_i w_i*f(col_i)=%d, sum over input columns f(col)=%d: %s", statOut, statIn, desc()))
		return
	}
	c.Outcome("compress:" + class + ":n" + strconv.Itoa(n) + ":L" + strconv.Itoa(L) + ":m" + strconv.Itoa(m))
	if m < L {
		c.Nontrivial(c13Key('c', cs))
		c.Count("compress_reduced", 1)
		if m > 2 && n > 1 {
			c.Sample(map[string]any{"case": cs, "rows": c13RowsStr(got), "weights": w})
		}
	}
	for j := 1; j < m; j++ {
		if w[j] > w[j-1] {
			c.Count("compress_weights_increasing_somewhere", 1)
			break
		}
	}
	for j := 1; j < m; j++ {
		if w[j] < w[j-1] {
			c.Count("compress_weights_decreasing_somewhere", 1)
			break
		}
	}
}

// ---------------------------------------------------------------- enumeration

// c13Letters: the residue alphabet used for a sequence alphabet; position 2 is the wildcard.
func c13Letters(alpha int, k int) string {
	var s string
	if alpha == align.AMINOACIDS {
		s = "A-XCN" // 3: A - X ; 4: + C ; 5: + the other alphabet's wildcard
	} else {
		s = "A-NCX"
	}
	return s[:k]
}

type c13Shape struct {
	n, L int
	k    int // alphabet size
}

// c13Split returns prefixes of the flattened n*L string so that each task holds at most ~maxCases strings.
func c13Split(k, cells int, maxCases int) []string {
	p := 0
	cases := 1
	for i := 0; i < cells; i++ {
		cases *= k
	}
	for cases > maxCases && p < cells {
		cases /= k
		p++
	}
	out := []string{""}
	for i := 0; i < p; i++ {
		var nxt []string
		for _, pf := range out {
			for j := 0; j < k; j++ {
				nxt = append(nxt, pf+string(rune('0'+j)))
			}
		}
		out = nxt
	}
	return out
}

// c13Decode turns an index prefix ("012") into letters of the alphabet.
func c13Decode(pf string, letters string) []byte {
	b := make([]byte, len(pf))
	for i := range pf {
		b[i] = letters[pf[i]-'0']
	}
	return b
}

func c13Cut(s []byte, n, L int) []string {
	seqs := make([]string, n)
	for i := 0; i < n; i++ {
		seqs[i] = string(s[i*L : (i+1)*L])
	}
	return seqs
}

var c13Alphabets = []int{align.NUCLEOTIDS, align.AMINOACIDS}

// c13DedupAlignedShapes: (n, L, alphabet size) of the aligned de-duplication enumeration.
func c13DedupAlignedShapes(tier string) []c13Shape {
	sh := []c13Shape{{0, 0, 4}}
	for n := 1; n <= 4; n++ {
		for L := 0; L <= 2; L++ {
			sh = append(sh, c13Shape{n, L, 5}) // 5 letters: the other alphabet's wildcard is an ordinary residue
		}
	}
	sh = append(sh, c13Shape{1, 3, 4}, c13Shape{2, 3, 4}, c13Shape{3, 3, 4}, c13Shape{4, 3, 3},
		c13Shape{5, 1, 4}, c13Shape{6, 1, 4}, c13Shape{5, 2, 3}, c13Shape{6, 2, 3}, c13Shape{2, 4, 4}, c13Shape{2, 5, 3}, c13Shape{3, 4, 3})
	if tier == "thorough" {
		sh = append(sh, c13Shape{4, 3, 4}, c13Shape{3, 4, 4}, c13Shape{5, 2, 4}, c13Shape{6, 2, 4}, c13Shape{2, 5, 4}, c13Shape{2, 6, 3}, c13Shape{7, 2, 3}, c13Shape{5, 3, 3}, c13Shape{3, 3, 5})
	}
	// the k-letter matrices of a shape are among its (k+1)-letter matrices: keep the largest alphabet per shape
	var out []c13Shape
	for i, a := range sh {
		dominated := false
		for j, b := range sh {
			if i != j && a.n == b.n && a.L == b.L && (a.k < b.k || (a.k == b.k && j < i)) {
				dominated = true
			}
		}
		if !dominated {
			out = append(out, a)
		}
	}
	return out
}

type c13Ragged struct {
	n, maxL, k int
}

func c13DedupRaggedShapes(tier string) []c13Ragged {
	sh := []c13Ragged{{0, 0, 1}, {1, 3, 4}, {2, 3, 4}, {3, 3, 4}, {4, 2, 4}, {5, 2, 3}, {3, 2, 5}}
	if tier == "thorough" {
		sh = append(sh, c13Ragged{4, 3, 3}, c13Ragged{5, 2, 4}, c13Ragged{3, 4, 3})
	}
	// drop a bound that lies inside another one
	var out []c13Ragged
	for i, a := range sh {
		dominated := false
		for j, b := range sh {
			if i != j && a.n == b.n && a.maxL <= b.maxL && a.k <= b.k && (a != b || j < i) {
				dominated = true
			}
		}
		if !dominated {
			out = append(out, a)
		}
	}
	return out
}

// c13RaggedEarlier tells whether the tuple already belongs to one of the bounds listed before position pos
// (bounds may overlap partially; every tuple is enumerated by the first bound that contains it).
func c13RaggedEarlier(shapes []c13Ragged, pos int, seqs []string, letters string) bool {
	maxLen, maxLetter := 0, 0
	for _, s := range seqs {
		if len(s) > maxLen {
			maxLen = len(s)
		}
		for i := 0; i < len(s); i++ {
			if x := strings.IndexByte(letters, s[i]); x > maxLetter {
				maxLetter = x
			}
		}
	}
	for _, b := range shapes[:pos] {
		if b.n == len(seqs) && maxLen <= b.maxL && maxLetter < b.k {
			return true
		}
	}
	return false
}

// c13CompressShapes: all (n>=1, L>=0) with n*L <= cells over k letters.
type c13CBound struct {
	k, cells int
}

func c13CompressBounds(tier string) []c13CBound {
	if tier == "thorough" {
		return []c13CBound{{4, 11}, {3, 14}, {2, 18}}
	}
	return []c13CBound{{4, 9}, {3, 12}, {2, 16}}
}

func c13Pow(k, e int) int {
	r := 1
	for i := 0; i < e; i++ {
		r *= k
	}
	return r
}

// c13AllStrings lists all strings of length 0..maxL over letters, shortest first.
func c13AllStrings(letters string, maxL int) []string {
	var out []string
	forEachString(letters, 0, maxL, func(s []byte) bool {
		out = append(out, string(s))
		return true
	})
	return out
}

type c13SizedTask struct {
	size int
	t    mc.Task
}

func c13Tasks(tier string) []mc.Task {
	var ts []c13SizedTask
	maxCases := 70000 // matrices per task (each is run 2-4 times)
	if tier == "thorough" {
		maxCases = 280000
	}

	// ---- (D1) de-duplication of alignments (Kind aln) : every n x L matrix over the letters
	for _, sh := range c13DedupAlignedShapes(tier) {
		sh := sh
		cells := sh.n * sh.L
		for _, pf := range c13Split(sh.k, cells, maxCases) {
			pf := pf
			size := c13Pow(sh.k, cells-len(pf)) * 4
			ts = append(ts, c13SizedTask{size + cells, mc.Task{Name: fmt.Sprintf("dedup-aln#n%d/L%d/k%d/%s", sh.n, sh.L, sh.k, pf), Run: func(c *mc.Ctx) {
				for _, alpha := range c13Alphabets {
					letters := c13Letters(alpha, sh.k)
					forEachStringLen(letters, cells, c13Decode(pf, letters), func(s []byte) bool {
						seqs := c13Cut(s, sh.n, sh.L)
						c13Check(c, c13Case{Op: "dedup", Kind: "aln", Alpha: alpha, NAsGap: false, Seqs: seqs})
						c13Check(c, c13Case{Op: "dedup", Kind: "aln", Alpha: alpha, NAsGap: true, Seqs: seqs})
						return !c.Expired()
					})
				}
			}}})
		}
	}

	// ---- (D2) de-duplication of sequence sets (Kind bag) : every n-tuple of strings of length 0..maxL
	ragged := c13DedupRaggedShapes(tier)
	for pos, sh := range ragged {
		pos, sh := pos, sh
		nstr := 0
		for l := 0; l <= sh.maxL; l++ {
			nstr += c13Pow(sh.k, l)
		}
		total := c13Pow(nstr, sh.n)
		// fix the first f rows per task
		f := 0
		per := total
		for per > maxCases && f < sh.n {
			per /= nstr
			f++
		}
		nTasks := c13Pow(nstr, f)
		for ti := 0; ti < nTasks; ti++ {
			ti := ti
			ts = append(ts, c13SizedTask{per*4 + sh.n*sh.maxL, mc.Task{Name: fmt.Sprintf("dedup-bag#n%d/maxL%d/k%d/%d", sh.n, sh.maxL, sh.k, ti), Run: func(c *mc.Ctx) {
				for _, alpha := range c13Alphabets {
					letters := c13Letters(alpha, 5)
					strs := c13AllStrings(letters[:sh.k], sh.maxL)
					idx := make([]int, sh.n)
					x := ti
					for i := f - 1; i >= 0; i-- {
						idx[i] = x % nstr
						x /= nstr
					}
					seqs := make([]string, sh.n)
					for {
						for i := range idx {
							seqs[i] = strs[idx[i]]
						}
						if !c13RaggedEarlier(ragged, pos, seqs, letters) {
							cp := append([]string{}, seqs...)
							c13Check(c, c13Case{Op: "dedup", Kind: "bag", Alpha: alpha, NAsGap: false, Seqs: cp})
							c13Check(c, c13Case{Op: "dedup", Kind: "bag", Alpha: alpha, NAsGap: true, Seqs: cp})
						}
						if c.Expired() {
							return
						}
						i := sh.n - 1
						for ; i >= f; i-- {
							idx[i]++
							if idx[i] < nstr {
								break
							}
							idx[i] = 0
						}
						if i < f {
							break
						}
					}
				}
			}}})
		}
	}

	// ---- (C1) compression : every n x L matrix with n>=1, n*L <= cells (largest alphabet that fits first)
	done := map[string]bool{}
	for _, b := range c13CompressBounds(tier) {
		b := b
		for n := 1; n <= b.cells; n++ {
			for L := 0; n*L <= b.cells; L++ {
				if L == 0 && n > 4 {
					continue
				}
				n, L := n, L
				cells := n * L
				// a k-letter matrix is also a (k+1)-letter matrix: enumerate it only if no larger alphabet covered this shape
				key := fmt.Sprintf("%d/%d", n, L)
				if done[key] {
					continue
				}
				done[key] = true
				for _, pf := range c13Split(b.k, cells, maxCases*2) {
					pf := pf
					size := c13Pow(b.k, cells-len(pf)) * 2
					ts = append(ts, c13SizedTask{size + cells, mc.Task{Name: fmt.Sprintf("compress#n%d/L%d/k%d/%s", n, L, b.k, pf), Run: func(c *mc.Ctx) {
						// both sequence alphabets for small shapes, alternating by shape parity above
						alphas := c13Alphabets
						if cells > 8 {
							alphas = []int{c13Alphabets[(n+L)%2]}
						}
						for _, alpha := range alphas {
							letters := c13Letters(alpha, b.k)
							forEachStringLen(letters, cells, c13Decode(pf, letters), func(s []byte) bool {
								c13Check(c, c13Case{Op: "compress", Alpha: alpha, Seqs: c13Cut(s, n, L)})
								return !c.Expired()
							})
						}
					}}})
				}
			}
		}
	}
	// alignment without rows
	ts = append(ts, c13SizedTask{0, mc.Task{Name: "compress#empty", Run: func(c *mc.Ctx) {
		for _, alpha := range c13Alphabets {
			c13Check(c, c13Case{Op: "compress", Alpha: alpha, Seqs: []string{}})
		}
	}}})

	// ---- (C2) compression of rows holding bytes >= 0x80 (a FASTA file with a UTF-8 letter gives such rows)
	for n := 1; n <= 3; n++ {
		for L := 1; n*L <= 6; L++ {
			n, L := n, L
			ts = append(ts, c13SizedTask{c13Pow(4, n*L), mc.Task{Name: fmt.Sprintf("compress-bytes#n%d/L%d", n, L), Run: func(c *mc.Ctx) {
				forEachStringLen("A\xc3\xa9\xe9", n*L, nil, func(s []byte) bool {
					seqs := c13Cut(s, n, L)
					if c13NonASCII(seqs) { // the pure-ASCII ones belong to (C1)
						c13Check(c, c13Case{Op: "compress", Alpha: align.AMINOACIDS, Seqs: seqs})
					}
					return !c.Expired()
				})
			}}})
		}
	}

	// ---- (C3) compression over letter sets in which two different 2-row columns collide under the usual
	// polynomial string hashes (h*31+c: (M,L)/(N,-); h*33+c: (A,N)/(B,-); h*37+c: (A,R)/(B,-)) and under byte
	// sums/xors ((A,D)/(B,C), (A,B)/(B,A)): an index keyed by a hash of the column must still tell them apart
	for _, ls := range []struct {
		alpha   int
		letters string
	}{{align.AMINOACIDS, "MLN-"}, {align.NUCLEOTIDS, "ABN-"}, {align.NUCLEOTIDS, "ABR-"}, {align.NUCLEOTIDS, "ABCD"}} {
		ls := ls
		for _, sh := range [][2]int{{2, 3}, {2, 4}, {3, 3}} {
			n, L := sh[0], sh[1]
			if n*L > 8 && tier != "thorough" {
				continue
			}
			ts = append(ts, c13SizedTask{c13Pow(4, n*L) * 2, mc.Task{Name: fmt.Sprintf("compress-colliding#%s/n%d/L%d", ls.letters, n, L), Run: func(c *mc.Ctx) {
				forEachStringLen(ls.letters, n*L, nil, func(s []byte) bool {
					c13Check(c, c13Case{Op: "compress", Alpha: ls.alpha, Seqs: c13Cut(s, n, L)})
					return !c.Expired()
				})
			}}})
		}
	}

	// ---- (C4) compression at block-size boundaries: lengths around the multiples of 256 (and 1000), three rows
	// whose pattern composition changes along the alignment
	ts = append(ts, c13SizedTask{1 << 19, mc.Task{Name: "compress#length-sweep", Run: func(c *mc.Ctx) {
		var lens []int
		for _, b := range []int{256, 512, 768, 1000, 1024, 2000, 2048} {
			for d := -2; d <= 2; d++ {
				lens = append(lens, b+d)
			}
		}
		for _, L := range lens {
			seqs := make([]string, 3)
			for i := range seqs {
				b := make([]byte, L)
				for j := range b {
					b[j] = "AC-NA-"[(j*(i+2)+j/5+i*(j/256)+(j/250)*(i+1))%6]
				}
				seqs[i] = string(b)
			}
			c13Check(c, c13Case{Op: "compress", Alpha: align.NUCLEOTIDS, Seqs: seqs})
			c13Check(c, c13Case{Op: "dedup", Kind: "aln", Alpha: align.NUCLEOTIDS, Seqs: seqs})
			if c.Expired() {
				return
			}
		}
	}}})

	// ---- (D3) many rows: every one-column alignment of 13..16 rows over {A,C} (more rows than the
	// small-input paths of sorting and hashing code take), both alphabets, both nAsGap values
	for n := 13; n <= 16; n++ {
		for _, pf := range []string{"A", "C"} {
			n, pf := n, pf
			ts = append(ts, c13SizedTask{1 << n, mc.Task{Name: fmt.Sprintf("dedup-manyrows#n%d/%s", n, pf), Run: func(c *mc.Ctx) {
				forEachStringLen("AC", n, []byte(pf), func(s []byte) bool {
					seqs := c13Cut(s, n, 1)
					c13Check(c, c13Case{Op: "dedup", Kind: "aln", Alpha: align.NUCLEOTIDS, Seqs: seqs})
					c13Check(c, c13Case{Op: "dedup", Kind: "bag", Alpha: align.AMINOACIDS, NAsGap: true, Seqs: seqs})
					return !c.Expired()
				})
			}}})
		}
	}
	// ---- (D3') wildcard followed by the letter whose code is one above it (N O, X Y: what a word-at-a-time
	// byte search flags by mistake), at every position of rows of 8..24 residues, against the same row with
	// gaps there; and one pattern occurring 65535..65538 and 131073 times in Compress (narrow counters)
	ts = append(ts, c13SizedTask{1 << 17, mc.Task{Name: "dedup#wildcard-neighbours", Run: func(c *mc.Ctx) {
		for L := 8; L <= 24; L++ {
			for p := 0; p+1 < L; p++ {
				for _, t := range []struct {
					alpha int
					pair  string
				}{{align.AMINOACIDS, "XY"}, {align.AMINOACIDS, "xy"}, {align.NUCLEOTIDS, "NO"}, {align.NUCLEOTIDS, "no"}} {
					mk := func(mid string) string { return strings.Repeat("A", p) + mid + strings.Repeat("C", L-p-2) }
					seqs := []string{mk(t.pair), mk("--"), mk(t.pair[:1] + "-"), mk("-" + t.pair[1:])}
					for _, nag := range []bool{true, false} {
						c13Check(c, c13Case{Op: "dedup", Kind: "aln", Alpha: t.alpha, NAsGap: nag, Seqs: seqs})
						c13Check(c, c13Case{Op: "dedup", Kind: "bag", Alpha: t.alpha, NAsGap: nag, Seqs: seqs})
					}
				}
			}
			if c.Expired() {
				return
			}
		}
	}}})
	ts = append(ts, c13SizedTask{1 << 21, mc.Task{Name: "compress#pattern-counts", Run: func(c *mc.Ctx) {
		for _, L := range []int{65535, 65536, 65537, 65538, 131073} {
			r1, r2 := []byte(strings.Repeat("A", L)), []byte(strings.Repeat("C", L))
			r1[7], r2[L-3] = 'G', '-'
			c13Check(c, c13Case{Op: "compress", Alpha: align.NUCLEOTIDS, Seqs: []string{string(r1), string(r2)}})
			c13Check(c, c13Case{Op: "compress", Alpha: align.NUCLEOTIDS, Seqs: []string{string(r1)}})
			if L == 65537 {
				// long alignments of few patterns under 2, 3, 8 processors (pattern counts gathered by several workers)
				r3 := make([]byte, L)
				for j := range r3 {
					r3[j] = "ACGT-"[(j/3+j/7)%5]
				}
				for _, procs := range []int{2, 3, 8} {
					c13Check(c, c13Case{Op: "compress", Alpha: align.NUCLEOTIDS, Seqs: []string{string(r1), string(r2)}, Procs: procs})
					c13Check(c, c13Case{Op: "compress", Alpha: align.NUCLEOTIDS, Seqs: []string{string(r1), string(r3)}, Procs: procs})
				}
			}
			if c.Expired() {
				return
			}
		}
	}}})
	// ---- (D4) row-count sweep: n pairwise distinct rows, n around 64, 100, 128, 200, 256, 400, 1024 (the
	// capacities growing slices and tables start from and double to), then duplicates of the first, middle,
	// 100th, 101st and last distinct row; and the same with the duplicates interleaved every 50 rows
	ts = append(ts, c13SizedTask{1 << 18, mc.Task{Name: "dedup#row-count-sweep", Run: func(c *mc.Ctx) {
		row := func(k int) string {
			b := make([]byte, 6)
			for j := range b {
				b[j] = "ACGT"[(k>>(2*j))&3]
			}
			return string(b)
		}
		for _, base := range []int{64, 100, 128, 200, 256, 400, 1024} {
			for d := -1; d <= 2; d++ {
				n := base + d
				var tail, mixed []string
				for k := 0; k < n; k++ {
					tail = append(tail, row(k))
					mixed = append(mixed, row(k))
					if k%50 == 49 {
						mixed = append(mixed, row(k/2), row(0))
					}
				}
				for _, k := range []int{0, n / 2, 99, 100, n - 1, 0} {
					if k < n {
						tail = append(tail, row(k))
					}
				}
				for _, seqs := range [][]string{tail, mixed} {
					c13Check(c, c13Case{Op: "dedup", Kind: "aln", Alpha: align.NUCLEOTIDS, Seqs: seqs})
					c13Check(c, c13Case{Op: "dedup", Kind: "bag", Alpha: align.NUCLEOTIDS, NAsGap: true, Seqs: seqs})
				}
				if c.Expired() {
					return
				}
			}
		}
	}}})
	// ---- (S) long inputs under the controlled scheduler: Compress and Deduplicate on 3 x 4500 and 40 x 30
	// alignments (longer than any block size a parallel version would plausibly use).  Sequential code:
	// one execution each; code that spawns goroutines: every interleaving within one preemption.
	ts = append(ts, c13SizedTask{1 << 20, mc.Task{Name: "concurrent#long", Run: func(c *mc.Ctx) {
		long := func(n, L int) []string {
			out := make([]string, n)
			for i := range out {
				b := make([]byte, L)
				for j := range b {
					b[j] = "ACGT-N"[(j*(i+2)+j/7+i*(j/1024))%6]
				}
				out[i] = string(b)
			}
			return out
		}
		for _, sh := range [][2]int{{3, 4500}, {40, 30}} {
			seqs := long(sh[0], sh[1])
			for _, op := range []string{"compress", "dedup"} {
				cs := c13Case{Op: op, Kind: "aln", Alpha: align.NUCLEOTIDS, Seqs: seqs}
				c13Check(c, cs) // the oracle on the long input, free running
				cs.Op = "sched-" + op
				c13Check(c, cs)
			}
		}
	}}})

	sort.SliceStable(ts, func(i, j int) bool { return ts[i].size < ts[j].size })
	out := make([]mc.Task, len(ts))
	for i := range ts {
		out[i] = ts[i].t
	}
	return out
}

func init() {
	mc.Register(&mc.Prop{
		ID:    "C13",
		Level: "exploration",
		Rule: cliStreamRule[1:] + "Command line: goalign dedup on 4 sets x --n-as-gap x --unaligned x sequences to a file / to standard output x log plain / .gz: the sequences written are those Deduplicate keeps, the log holds the groups it reports. (Free-running complement under the race detector: 8 goroutines doing this property's operations on objects of their own must get the values the same work gives alone.)  " + "(also: Compress and Deduplicate on 3-row alignments of every length within 2 of 256, 512, 768, 1000, 1024, 2000, 2048; Compress on every 2x3 and 2x4 [thorough 3x3] alignment over {M,L,N,-}, {A,B,N,-}, {A,B,R,-}, {A,B,C,D}, letter sets in which two different columns collide under the usual polynomial string hashes and byte sums; every one-column alignment of 13..16 rows over {A,C}; Deduplicate on rows of 8..24 residues holding the wildcard followed by the letter whose code is one above it (N O, X Y, both cases) at every position, beside the same row with gaps there, both nAsGap values; Compress on 1 and 2 rows in which one pattern occurs 65535..65538 and 131073 times; Deduplicate on n pairwise distinct rows, n within -1..+2 of 64, 100, 128, 200, 256, 400, 1024, followed by (or interleaved every 50 rows with) duplicates of the first, middle, 100th, 101st and last of them; Compress and Deduplicate on 3x4500 and 40x30 alignments against the oracle and under the controlled scheduler, preemption bound 1 — one execution unless the operation spawns goroutines;) bounded-exhaustive enumeration, nucleotide letters {A,-,N,C,X} / protein letters {A,-,X,C,N} taken as the first k of that list, rows named q,b,z,a,m,c,... with distinct comments. " +
			"DEDUP on alignments: every n x L matrix for n<=4, L<=2 (k=5), n<=3, L=3 (k=4), 4x3 (k=3), 5x1, 6x1, 2x4 (k=4), 5x2, 6x2, 2x5, 3x4 (k=3), and the alignment without rows; thorough adds 4x3, 3x4, 5x2, 6x2, 2x5 (k=4), 2x6, 7x2, 5x3 (k=3), 3x3 (k=5). " +
			"DEDUP on sequence sets (ragged): every n-tuple of strings of length 0..m for (n,m,k) = (1..3,3,4), (4,2,4), (5,2,3), (3,2,5), and the set without sequences; thorough adds (4,3,3), (5,2,4), (3,4,3). " +
			"Every dedup input is run for both alphabets and both nAsGap values, Deduplicate applied twice. " +
			"COMPRESS: every n x L matrix with n>=1, L>=1 (and L=0 for n<=4) and n*L <= 9 over k=4 letters, <= 12 over k=3, <= 16 over k=2 (thorough 11 / 14 / 18), both alphabets up to 8 cells, one (alternating with shape) above; the alignment without rows; every matrix with n<=3, n*L<=6 over the bytes {A,0xC3,0xA9,0xE9} that holds a byte >= 0x80. " +
			"A case is non-trivial when the call succeeded, every oracle clause was compared, and redundancy was present (dedup: a row was removed; compress: fewer patterns than columns); distinct = distinct (operation, container kind, alphabet, nAsGap, rows).",
		Assumptions: []string{
			"two sequences are the same iff they are byte-wise equal (case is not folded; lower-case letters are not enumerated because neither the statement nor the documentation says whether a and A are one sequence, nor whether n is a wildcard)",
			"with nAsGap the wildcard is N in a nucleotide set and X in a protein set, as docs/commands/dedup.md says (\"X/N (depending on alphabet)\"); sets with alphabet UNKNOWN are not enumerated",
			"the order of the reported groups and of the names after the leader inside a group is not constrained by the statement and is not compared",
			"compression may reorder columns (doc comment of Compress); rows are matched by name",
		},
		// free-running complement: goroutines that each own their objects must get what they get alone (harness/racepass)
		Post:  func(m *mc.Master) { m.RacePass("own-dedup") },
		Tasks: func(tier string) []mc.Task { return append(append(c13Tasks(tier), cliStreamTasks("C13")...), c13CLITasks()...) },
		Replay: func(c *mc.Ctx, payload json.RawMessage) {
			if cliStreamReplay(c, payload) || c13CLIReplay(c, payload) {
				return
			}
			var cs c13Case
			if err := json.Unmarshal(payload, &cs); err != nil {
				c.Fatal("bad payload: %v", err)
				return
			}
			if cs.Raw != nil {
				cs.Seqs = make([]string, len(cs.Raw))
				for i, b := range cs.Raw {
					cs.Seqs[i] = string(b)
				}
				cs.Raw = nil
			}
			c13Check(c, cs)
		},
		Vacuity: func(tier string, t *mc.Totals) error {
			if t.Evaluations < 10000000 || len(t.OutcomeSet) < 100 {
				return fmt.Errorf("only %d evaluations / %d outcome classes", t.Evaluations, len(t.OutcomeSet))
			}
			for _, k := range []string{"dedup_aln", "dedup_bag", "dedup_nasgap_effective_nt", "dedup_nasgap_effective_aa", "compress_reduced", "compress_weights_increasing_somewhere", "compress_weights_decreasing_somewhere"} {
				if t.Extra[k] < 1000 {
					return fmt.Errorf("counter %s = %d: that part of the space was not exercised", k, t.Extra[k])
				}
			}
			return nil
		},
	})
}
