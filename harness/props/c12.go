package props

import (
	"encoding/json"
	"fmt"
	"math"
	"math/big"
	"math/bits"
	"runtime/debug"
	"sort"
	"strings"

	"verif/harness/mc"

	"github.com/evolbioinfo/goalign/align"
)

// C12 - cleaning removes exactly the sites and sequences that meet the cutoff.
//
// The oracle below is written from the property statement and from goalign's
// documentation (doc comments of Remove*Sites / Remove*Seqs, docs/commands/clean.md):
//
//   * a site (sequence) is removed iff count/total >= cutoff, where total is the
//     number of rows (sites) not excluded by ignore-gaps / ignore-N-or-X (N,n for a
//     nucleotide alignment, X,x for a protein alignment) and count the number of
//     matching characters among them; cutoff 0, <0 or >1: removed iff count > 0;
//   * the comparison is done in exact rational arithmetic on the exact value of
//     the float64 passed; where the two float64 evaluations of the same comparison
//     (count >= cutoff*total, count/total >= cutoff) do not both agree with the
//     exact one - 4 of 5 against float64(0.8), which is a little more than 4/5 -
//     the unit is "either" (the documentation calls that a tie, exact arithmetic
//     does not);
//   * ends mode removes the maximal qualifying prefix and suffix only;
//   * kept / removed partition 0..L-1, first / last are the numbers of leading /
//     trailing removed columns, the result is the selection of the kept columns.
//
// Where statement and documentation do not fix the verdict of one site (sequence)
// that unit is "either": the implementation's choice is accepted for it and
// everything else is still compared (see the c12Skip* reasons).

// ---- cases

type c12Case struct {
	Op         string   `json:"op"` // gapsites | charsites | majsites | gapseqs | charseqs (all: every configuration of Profile, used to name the input when a worker dies)
	Profile    string   `json:"profile,omitempty"`
	Alpha      string   `json:"alpha"` // nt | aa
	Seqs       []string `json:"seqs"`
	Chars      string   `json:"chars,omitempty"` // charsites: the set; charseqs: one character
	Cutoff     float64  `json:"cutoff"`
	Ends       bool     `json:"ends,omitempty"`
	IgnoreCase bool     `json:"ignore_case,omitempty"`
	IgnoreGaps bool     `json:"ignore_gaps,omitempty"`
	IgnoreNs   bool     `json:"ignore_ns,omitempty"`
	Reverse    bool     `json:"reverse,omitempty"`
	// CLI: the case runs goalign clean sites / clean seqs and compares with the library call (c12_cli.go)
	CLI bool `json:"cli,omitempty"`
}

const (
	c12SkipAllIgnored    = "every character of a site/sequence is excluded by ignore-gaps / ignore-N: the fraction is undefined, either verdict accepted for that unit (the rest of the call is compared)"
	c12SkipContradictory = "the searched character is itself excluded by ignore-gaps / ignore-N (a request the command line refuses for sites): either verdict accepted for the units where it matters (the rest of the call is compared)"
	c12SkipRounding      = "count/total and the cutoff differ by less than float64 rounding (e.g. 4/5 against float64(0.8) = 0.8000000000000000444): exact arithmetic and the float64 evaluations count >= cutoff*total, count/total >= cutoff disagree, either verdict accepted for that unit (the rest of the call is compared)"
	c12SkipMajCase       = "majority character of a site holding both cases of a letter: MAJ has no case-folding option and the statement does not say whether A and a are one character: either verdict accepted where it matters (the rest of the call is compared)"
)

// verdicts of one unit (site or sequence)
const (
	c12Keep   int8 = 0
	c12Remove int8 = 1
	c12Either int8 = 2
)

const (
	c12WhyAllIgnored uint8 = 1 << iota
	c12WhyContradictory
	c12WhyMajCase
	c12WhyRounding
)

// c12Variant selects how a verdict is computed.  The zero value is the oracle.
// The other values are *diagnostic hypotheses*, used only to label a mismatch
// that has already been established against the oracle (they never decide
// whether a case is a violation).
type c12Variant struct {
	otherWild    bool // ignore-N uses the wildcard of the other alphabet
	countIgnored bool // excluded rows are still counted as matches
	rangeNever   bool // a cutoff outside [0,1] is not replaced by 0: nothing qualifies
}

var c12VariantNames = []string{"other-alphabet-wildcard", "ignored-rows-counted-as-matches", "out-of-range-cutoff-not-reset"}

func c12VariantOf(mask int) c12Variant {
	return c12Variant{otherWild: mask&1 != 0, countIgnored: mask&2 != 0, rangeNever: mask&4 != 0}
}

// c12VariantOrder: fewest hypotheses first.
var c12VariantOrder = func() []int {
	var o []int
	for pc := 1; pc <= 3; pc++ {
		for _, m := range []int{1, 2, 4, 3, 5, 6, 7} {
			if bits.OnesCount(uint(m)) == pc {
				o = append(o, m)
			}
		}
	}
	return o
}()

func c12VariantLabel(mask int) string {
	var p []string
	for i, n := range c12VariantNames {
		if mask&(1<<i) != 0 {
			p = append(p, n)
		}
	}
	return strings.Join(p, "-and-")
}

// ---- exact cutoff arithmetic

// c12MinTab holds, for one cutoff (0 < cutoff <= 1) and every total <= 32, the
// smallest integer k with k >= cutoff*total, computed exactly on the value of
// the float64, and whether cutoff*total is an integer (then k/total is a tie).
type c12MinTab struct {
	need    [33]int16
	integer uint64
	have    uint64
}

var (
	c12MinTabs  = map[uint64]*c12MinTab{}
	c12LastBits uint64
	c12LastTab  *c12MinTab
)

func c12Tab(cut float64, total int) *c12MinTab {
	b := math.Float64bits(cut)
	if c12LastTab == nil || b != c12LastBits {
		t, ok := c12MinTabs[b]
		if !ok {
			t = &c12MinTab{}
			c12MinTabs[b] = t
		}
		c12LastBits, c12LastTab = b, t
	}
	t := c12LastTab
	if t.have&(1<<uint(total)) == 0 {
		r := new(big.Rat).SetFloat64(cut) // exact
		r.Mul(r, big.NewRat(int64(total), 1))
		q, m := new(big.Int).DivMod(r.Num(), r.Denom(), new(big.Int))
		k := q.Int64()
		if m.Sign() != 0 {
			k++
		} else {
			t.integer |= 1 << uint(total)
		}
		t.need[total] = int16(k)
		t.have |= 1 << uint(total)
	}
	return t
}

// c12MinCount is the smallest count that meets the cutoff for this total.
func c12MinCount(cut float64, total int) int { return int(c12Tab(cut, total).need[total]) }

// c12IsTie tells whether count/total equals the cutoff exactly.
func c12IsTie(cut float64, count, total int) bool {
	if !(cut > 0 && cut <= 1) || total <= 0 {
		return false
	}
	t := c12Tab(cut, total)
	return int(t.need[total]) == count && t.integer&(1<<uint(total)) != 0
}

// c12Qualifies: the unit meets the cutoff (decided exactly).  sensitive tells
// that a float64 evaluation of the same comparison decides differently, i.e.
// that count/total is within rounding of the cutoff without being equal to it.
func c12Qualifies(cut float64, count, total int, v c12Variant) (q, sensitive bool) {
	if cut < 0 || cut > 1 || cut == 0 {
		if v.rangeNever && cut != 0 {
			return false, false
		}
		// documented: a cutoff outside [0,1] is considered as 0; 0 means "at least one"
		return count > 0, false
	}
	q = count >= c12MinCount(cut, total)
	byProduct := float64(count) >= cut*float64(total)
	byDivision := float64(count)/float64(total) >= cut
	return q, byProduct != q || byDivision != q
}

// ---- per-unit oracle

type c12Params struct {
	set     string // characters searched (site and sequence variants)
	ic      bool
	ig      bool
	in      bool
	rev     bool
	maj     bool
	wild    byte // upper-case wildcard of the alignment's own alphabet
	other   byte // upper-case wildcard of the other alphabet
	cut     float64
	ends    bool
	seqwise bool
}

func c12Lower(b byte) byte {
	if b >= 'A' && b <= 'Z' {
		return b + 32
	}
	return b
}

func c12InSet(ch byte, set string, ic bool) bool {
	for i := 0; i < len(set); i++ {
		if set[i] == ch || (ic && c12Lower(set[i]) == c12Lower(ch)) {
			return true
		}
	}
	return false
}

type c12UnitInfo struct {
	verdict    int8
	why        uint8 // c12Why* when the verdict is either
	count      int   // matching characters among the rows that are not excluded
	total      int
	fractional bool // 0 < count < total: the verdict depends on the cutoff
}

// c12Unit gives the verdict for one site (column) or one sequence (row).
func c12Unit(unit []byte, p *c12Params, v c12Variant) (u c12UnitInfo) {
	wild := p.wild
	if v.otherWild {
		wild = p.other
	}
	if p.maj {
		// most abundant character among the rows that are not excluded, with and without case folding
		maxE, maxF := 0, 0
		for i, ch := range unit {
			if (p.ig && ch == '-') || (p.in && (ch == wild || ch == wild+32)) {
				continue
			}
			u.total++
			ne, nf := 0, 0
			for _, d := range unit[i:] {
				if d == ch {
					ne++
				}
				if c12Lower(d) == c12Lower(ch) {
					nf++
				}
			}
			if ne > maxE {
				maxE = ne
			}
			if nf > maxF {
				maxF = nf
			}
		}
		if u.total == 0 {
			u.verdict, u.why = c12Either, c12WhyAllIgnored
			return
		}
		qf, sf := c12Qualifies(p.cut, maxF, u.total, v)
		u.count = maxF
		u.fractional = maxF < u.total
		if sf {
			u.verdict, u.why = c12Either, c12WhyRounding
			return
		}
		if maxE != maxF {
			if qe, se := c12Qualifies(p.cut, maxE, u.total, v); se || qe != qf {
				u.verdict, u.why = c12Either, c12WhyMajCase
				return
			}
		}
		if qf {
			u.verdict = c12Remove
		}
		return
	}
	cntAll := 0
	for _, ch := range unit {
		match := c12InSet(ch, p.set, p.ic) != p.rev
		if match {
			cntAll++
		}
		if (p.ig && ch == '-') || (p.in && (ch == wild || ch == wild+32)) {
			continue
		}
		u.total++
		if match {
			u.count++
		}
	}
	if u.total == 0 {
		u.verdict, u.why = c12Either, c12WhyAllIgnored
		return
	}
	u.fractional = u.count > 0 && u.count < u.total
	if v.countIgnored {
		u.count = cntAll
	}
	q, sens := c12Qualifies(p.cut, u.count, u.total, v)
	if sens {
		u.verdict, u.why = c12Either, c12WhyRounding
		return
	}
	if !v.countIgnored && cntAll != u.count && !p.rev {
		// the request names a character and asks to ignore it at the same time
		if q2, s2 := c12Qualifies(p.cut, cntAll, u.total, v); s2 || q2 != q {
			u.verdict, u.why = c12Either, c12WhyContradictory
			return
		}
	}
	if q {
		u.verdict = c12Remove
	}
	return
}

// c12Expect is what the oracle (or a diagnostic variant) expects from a call.
type c12Expect struct {
	rm          uint32 // removed units (sites, or sequences)
	qual        uint32 // units that meet the cutoff (after resolving "either" units with the observed choice)
	first, last int
	nu          int
	units       [32]c12UnitInfo
	skips       uint8 // c12Why* of the units that were "either"
	fractional  bool
}

// c12Expectation evaluates every unit; an "either" unit takes the verdict the
// implementation gave it (gotRm), so that it never causes a mismatch.
func c12Expectation(e *c12Expect, seqs []string, p *c12Params, v c12Variant, gotRm uint32) {
	n, L := len(seqs), len(seqs[0])
	*e = c12Expect{nu: L}
	if p.seqwise {
		e.nu = n
	}
	var buf [32]byte
	for j := 0; j < e.nu; j++ {
		var unit []byte
		if p.seqwise {
			unit = append(buf[:0], seqs[j]...)
		} else {
			unit = buf[:n]
			for i := 0; i < n; i++ {
				unit[i] = seqs[i][j]
			}
		}
		u := c12Unit(unit, p, v)
		if u.verdict == c12Either {
			e.skips |= u.why
			if gotRm&(1<<uint(j)) != 0 {
				u.verdict = c12Remove
			} else {
				u.verdict = c12Keep
			}
		} else if u.fractional {
			e.fractional = true
		}
		if u.verdict == c12Remove {
			e.qual |= 1 << uint(j)
		}
		e.units[j] = u
	}
	if p.seqwise {
		e.rm = e.qual
		return
	}
	for e.first < L && e.qual&(1<<uint(e.first)) != 0 {
		e.first++
	}
	for e.last < L && e.qual&(1<<uint(L-1-e.last)) != 0 {
		e.last++
	}
	if p.ends {
		for j := 0; j < e.first; j++ {
			e.rm |= 1 << uint(j)
		}
		for j := 0; j < e.last; j++ {
			e.rm |= 1 << uint(L-1-j)
		}
	} else {
		e.rm = e.qual
	}
}

// ---- counters for the vacuity rule (flushed once per task)

const (
	c12aOp           = iota       // +0..4
	c12aAlpha        = c12aOp + 5 // +0..1
	c12aSitesRemoved = c12aAlpha + 2
	c12aSitesKept    = c12aSitesRemoved + 1
	c12aInterior     = c12aSitesKept + 1
	c12aSeqsRemoved  = c12aInterior + 1
	c12aSeqsKept     = c12aSeqsRemoved + 1
	c12aOpt          = c12aSeqsKept + 1 // +2*option+value
	c12aTie          = c12aOpt + 10
	c12aAbove        = c12aTie + 1
	c12aBelow        = c12aAbove + 1
	c12aZero         = c12aBelow + 1
	c12aRange        = c12aZero + 1
	c12aEither       = c12aRange + 1 // +0..2
	c12aN            = c12aEither + 4
)

// c12Names are the row names (in this order) of every alignment built here.
var c12Names = []string{"a", "b", "c", "d", "e", "f", "g", "h", "i", "j", "k", "l", "m", "n", "o", "p"}

var c12Ops = []string{"gapsites", "charsites", "majsites", "gapseqs", "charseqs"}

var c12AccNames = func() (n [c12aN]string) {
	for i, o := range c12Ops {
		n[c12aOp+i] = "compared:" + o
	}
	n[c12aAlpha], n[c12aAlpha+1] = "compared:nucleotide", "compared:protein"
	n[c12aSitesRemoved], n[c12aSitesKept] = "sites:call-removed-some", "sites:call-kept-some"
	n[c12aInterior] = "sites:ends-mode-kept-an-interior-qualifying-site"
	n[c12aSeqsRemoved], n[c12aSeqsKept] = "seqs:call-removed-some", "seqs:call-kept-some"
	for i, o := range []string{"ends", "ignore-case", "ignore-gaps", "ignore-n", "reverse"} {
		n[c12aOpt+2*i], n[c12aOpt+2*i+1] = "charsites-fractional:"+o+"=false", "charsites-fractional:"+o+"=true"
	}
	n[c12aTie], n[c12aAbove], n[c12aBelow] = "unit:exact-tie", "unit:smallest-count-above-cutoff", "unit:largest-count-below-cutoff"
	n[c12aZero], n[c12aRange] = "call:cutoff-zero", "call:cutoff-out-of-range"
	n[c12aEither], n[c12aEither+1], n[c12aEither+2], n[c12aEither+3] = "either:all-ignored", "either:contradictory-request", "either:majority-case", "either:within-rounding-of-cutoff"
	return
}()

type c12Acc [c12aN]int64

func (a *c12Acc) flush(c *mc.Ctx) {
	for i, v := range a {
		if v != 0 {
			c.Count(c12AccNames[i], v)
		}
	}
	*a = c12Acc{}
}

var c12Cur c12Acc

// ---- the check

type c12Run struct {
	c     *mc.Ctx
	cs    *c12Case
	p     c12Params
	opi   int
	alphi int
	n, L  int
}

func (r *c12Run) viol(clause, desc string) {
	r.c.Violation("C12/"+r.cs.Op+"/"+clause, fmt.Sprintf("%s: case %s", desc, jsonStr(r.cs)), r.cs)
}

func (r *c12Run) init() (alphabet int, err error) {
	cs, p := r.cs, &r.p
	p.cut = cs.Cutoff
	switch cs.Alpha {
	case "nt":
		alphabet, p.wild, p.other, r.alphi = align.NUCLEOTIDS, 'N', 'X', 0
	case "aa":
		alphabet, p.wild, p.other, r.alphi = align.AMINOACIDS, 'X', 'N', 1
	default:
		return 0, fmt.Errorf("alphabet %q", cs.Alpha)
	}
	switch cs.Op {
	case "gapsites":
		r.opi, p.set, p.ends = 0, "-", cs.Ends
	case "charsites":
		r.opi, p.set, p.ends, p.ic, p.ig, p.in, p.rev = 1, cs.Chars, cs.Ends, cs.IgnoreCase, cs.IgnoreGaps, cs.IgnoreNs, cs.Reverse
	case "majsites":
		r.opi, p.maj, p.ends, p.ig, p.in = 2, true, cs.Ends, cs.IgnoreGaps, cs.IgnoreNs
	case "gapseqs":
		r.opi, p.set, p.in, p.seqwise = 3, "-", cs.IgnoreNs, true
	case "charseqs":
		if len(cs.Chars) != 1 {
			return 0, fmt.Errorf("charseqs needs one character")
		}
		r.opi, p.set, p.ic, p.ig, p.in, p.seqwise = 4, cs.Chars, cs.IgnoreCase, cs.IgnoreGaps, cs.IgnoreNs, true
	default:
		return 0, fmt.Errorf("operation %q", cs.Op)
	}
	return alphabet, nil
}

func c12Check(c *mc.Ctx, cs *c12Case) {
	c.Eval()
	r := c12Run{c: c, cs: cs}
	alphabet, err := r.init()
	if err != nil || len(cs.Seqs) == 0 || len(cs.Seqs) > len(c12Names) || len(cs.Seqs[0]) == 0 || len(cs.Seqs[0]) > 32 || cs.Cutoff != cs.Cutoff {
		c.Fatal("bad case %s: %v", jsonStr(cs), err)
		return
	}
	r.n, r.L = len(cs.Seqs), len(cs.Seqs[0])
	al := align.NewAlign(alphabet)
	for i, s := range cs.Seqs {
		if len(s) != r.L {
			c.Fatal("ragged case %s", jsonStr(cs))
			return
		}
		if err := al.AddSequence(c12Names[i], s, ""); err != nil {
			c.Fatal("cannot build %s: %v", jsonStr(cs), err)
			return
		}
	}
	if r.p.seqwise {
		r.checkSeqs(al)
	} else {
		r.checkSites(al)
	}
}

func c12Mask(idx []int, limit int) (m uint32, ok bool) {
	for _, i := range idx {
		if i < 0 || i >= limit || m&(1<<uint(i)) != 0 {
			return m, false
		}
		m |= 1 << uint(i)
	}
	return m, true
}

func c12MaskList(m uint32) []int {
	out := []int{}
	for j := 0; m != 0; j, m = j+1, m>>1 {
		if m&1 != 0 {
			out = append(out, j)
		}
	}
	return out
}

// explain labels an established mismatch with the diagnostic variants that
// reproduce what the implementation returned: all those with the fewest
// hypotheses, joined by "-or-" when several do (the label is then ambiguous).
func (r *c12Run) explain(same func(e *c12Expect) bool, gotRm uint32) string {
	var e c12Expect
	var labels []string
	found := 0
	for _, mask := range c12VariantOrder {
		pc := bits.OnesCount(uint(mask))
		if found != 0 && pc > found {
			break
		}
		c12Expectation(&e, r.cs.Seqs, &r.p, c12VariantOf(mask), gotRm)
		if same(&e) {
			found = pc
			labels = append(labels, c12VariantLabel(mask))
		}
	}
	if found == 0 {
		return ""
	}
	return "as-if:" + strings.Join(labels, "-or-")
}

// unitDetail names the first unit on which the removed set is wrong.
func (r *c12Run) unitDetail(e *c12Expect, gotRm uint32, noun string) string {
	p := &r.p
	j := bits.TrailingZeros32(e.rm ^ gotRm)
	u := e.units[j]
	at := ""
	switch {
	case p.cut == 0:
		at = ":cutoff-zero"
	case !(p.cut > 0 && p.cut <= 1):
		at = ":cutoff-out-of-range"
	case c12IsTie(p.cut, u.count, u.total):
		at = ":exact-tie"
	}
	removed := gotRm&(1<<uint(j)) != 0
	meets := e.qual&(1<<uint(j)) != 0
	switch {
	case removed && !meets:
		return "non-qualifying-" + noun + "-removed" + at
	case !removed && meets && !p.ends:
		return "qualifying-" + noun + "-kept" + at
	case !removed && meets:
		return "ends-prefix-or-suffix-" + noun + "-kept" + at
	default: // removed, meets the cutoff, but ends mode and not part of the prefix / suffix
		return "ends-interior-" + noun + "-removed"
	}
}

func c12UnitsString(e *c12Expect) string {
	var b strings.Builder
	for i := 0; i < e.nu; i++ {
		if i > 0 {
			b.WriteByte(' ')
		}
		fmt.Fprintf(&b, "%d/%d", e.units[i].count, e.units[i].total)
	}
	return b.String()
}

func (r *c12Run) checkSites(al align.Alignment) {
	c, cs, p, n, L := r.c, r.cs, &r.p, r.n, r.L
	var first, last int
	var kept, rm []int
	set := []uint8(cs.Chars) // the caller's character set: an argument, to be left as it is
	pn, msg := mc.Guard(func() {
		switch r.opi {
		case 0:
			first, last, kept, rm = al.RemoveGapSites(cs.Cutoff, cs.Ends)
		case 1:
			first, last, kept, rm = al.RemoveCharacterSites(set, cs.Cutoff, cs.Ends, cs.IgnoreCase, cs.IgnoreGaps, cs.IgnoreNs, cs.Reverse)
		case 2:
			first, last, kept, rm = al.RemoveMajorityCharacterSites(cs.Cutoff, cs.Ends, cs.IgnoreGaps, cs.IgnoreNs)
		}
	})
	if pn {
		r.viol("panic/"+mc.PanicSite(msg), msg)
		return
	}
	if string(set) != cs.Chars {
		r.viol("character-set-argument-modified", fmt.Sprintf("the set %q handed to RemoveCharacterSites reads %q after the call (a caller that uses it again cleans other characters)", cs.Chars, set))
		return
	}
	full := uint32(1)<<uint(L) - 1
	gotRm, ok1 := c12Mask(rm, L)
	gotKept, ok2 := c12Mask(kept, L)
	if !ok1 || !ok2 || gotRm&gotKept != 0 || gotRm|gotKept != full {
		r.viol("indices-not-a-partition", fmt.Sprintf("kept=%v removed=%v do not partition 0..%d", kept, rm, L-1))
		return
	}
	var e c12Expect
	c12Expectation(&e, cs.Seqs, p, c12Variant{}, gotRm)
	r.skips(e.skips)
	if e.rm != gotRm || e.first != first || e.last != last {
		detail := r.explain(func(x *c12Expect) bool { return x.rm == gotRm && x.first == first && x.last == last }, gotRm)
		clause := "leading-trailing-counts"
		if e.rm != gotRm {
			clause = "removed-set"
			if detail == "" {
				detail = r.unitDetail(&e, gotRm, "site")
			}
		} else if detail == "" {
			detail = map[bool]string{true: "ends-mode", false: "all-sites-mode"}[p.ends]
		}
		r.viol(clause+"/"+detail, fmt.Sprintf("removed=%v first=%d last=%d, expected removed=%v first=%d last=%d (sites meeting the cutoff: %v; per site count/total: %s)",
			rm, first, last, c12MaskList(e.rm), e.first, e.last, c12MaskList(e.qual), c12UnitsString(&e)))
		return
	}
	// the result is the selection of the kept columns, names and order intact
	if al.NbSequences() != n {
		r.viol("result-not-selection-of-kept/row-count", fmt.Sprintf("%d rows, want %d", al.NbSequences(), n))
		return
	}
	var sel [32]byte
	for i := 0; i < n; i++ {
		k := 0
		for j := 0; j < L; j++ {
			if gotKept&(1<<uint(j)) != 0 {
				sel[k] = cs.Seqs[i][j]
				k++
			}
		}
		name, _ := al.GetSequenceNameById(i)
		if name != c12Names[i] {
			r.viol("result-not-selection-of-kept/names", fmt.Sprintf("row %d is named %q, want %q", i, name, c12Names[i]))
			return
		}
		got, _ := al.GetSequenceCharById(i)
		if string(got) != string(sel[:k]) {
			r.viol("result-not-selection-of-kept/residues", fmt.Sprintf("kept=%v but row %d = %q, want %q", kept, i, got, sel[:k]))
			return
		}
	}
	if al.Length() != bits.OnesCount32(gotKept) {
		r.viol("length-not-updated", fmt.Sprintf("Length()=%d, %d columns kept", al.Length(), bits.OnesCount32(gotKept)))
		return
	}
	// bookkeeping
	acc := &c12Cur
	nr := bits.OnesCount32(e.rm)
	interior := p.ends && e.qual != e.rm
	if e.fractional {
		c.Nontrivial(c12Key(cs))
	}
	c12Outcome(c, r.opi, L, nr, e.first, e.last, p.ends, interior)
	if nr > 0 {
		acc[c12aSitesRemoved]++
	}
	if nr < L {
		acc[c12aSitesKept]++
	}
	if interior {
		acc[c12aInterior]++
	}
	r.account(&e)
	if interior && nr > 0 && e.skips == 0 && e.fractional {
		c.Sample(map[string]any{"case": cs, "removed": rm, "kept": kept, "first": first, "last": last})
	}
}

func (r *c12Run) skips(s uint8) {
	if s == 0 {
		return
	}
	if s&c12WhyAllIgnored != 0 {
		r.c.Skip(c12SkipAllIgnored)
		c12Cur[c12aEither]++
	}
	if s&c12WhyContradictory != 0 {
		r.c.Skip(c12SkipContradictory)
		c12Cur[c12aEither+1]++
	}
	if s&c12WhyMajCase != 0 {
		r.c.Skip(c12SkipMajCase)
		c12Cur[c12aEither+2]++
	}
	if s&c12WhyRounding != 0 {
		r.c.Skip(c12SkipRounding)
		c12Cur[c12aEither+3]++
	}
}

func (r *c12Run) checkSeqs(al align.Alignment) {
	c, cs, p, n, L := r.c, r.cs, &r.p, r.n, r.L
	var nrm int
	pn, msg := mc.Guard(func() {
		switch r.opi {
		case 3:
			nrm = al.RemoveGapSeqs(cs.Cutoff, cs.IgnoreNs)
		case 4:
			nrm = al.RemoveCharacterSeqs(cs.Chars[0], cs.Cutoff, cs.IgnoreCase, cs.IgnoreGaps, cs.IgnoreNs)
		}
	})
	if pn {
		r.viol("panic/"+mc.PanicSite(msg), msg)
		return
	}
	var gotKept uint32
	prev := -1
	ng := al.NbSequences()
	for i := 0; i < ng; i++ {
		name, _ := al.GetSequenceNameById(i)
		j := -1
		for k := 0; k < n; k++ {
			if c12Names[k] == name {
				j = k
			}
		}
		if j < 0 || gotKept&(1<<uint(j)) != 0 {
			r.viol("result-rows/names", fmt.Sprintf("result %v has a row that is not one original row", readRows(al)))
			return
		}
		if j < prev {
			r.viol("result-rows/order", fmt.Sprintf("result %v is not in the original order", readRows(al)))
			return
		}
		prev = j
		gotKept |= 1 << uint(j)
	}
	gotRm := (uint32(1)<<uint(n) - 1) &^ gotKept
	var e c12Expect
	c12Expectation(&e, cs.Seqs, p, c12Variant{}, gotRm)
	r.skips(e.skips)
	if e.rm != gotRm {
		detail := r.explain(func(x *c12Expect) bool { return x.rm == gotRm }, gotRm)
		if detail == "" {
			detail = r.unitDetail(&e, gotRm, "sequence")
		}
		r.viol("removed-set/"+detail, fmt.Sprintf("removed sequences %v, expected %v (per sequence count/total: %s)", c12MaskList(gotRm), c12MaskList(e.rm), c12UnitsString(&e)))
		return
	}
	if nrm != bits.OnesCount32(gotRm) {
		r.viol("returned-count", fmt.Sprintf("returned %d, %d sequences were removed", nrm, bits.OnesCount32(gotRm)))
		return
	}
	i := 0
	for k := 0; k < n; k++ {
		if gotKept&(1<<uint(k)) == 0 {
			continue
		}
		got, _ := al.GetSequenceCharById(i)
		if string(got) != cs.Seqs[k] {
			r.viol("result-rows/residues", fmt.Sprintf("kept row %s = %q, was %q", c12Names[k], got, cs.Seqs[k]))
			return
		}
		i++
	}
	if ng > 0 && al.Length() != L {
		r.viol("length-changed", fmt.Sprintf("Length()=%d, want %d", al.Length(), L))
		return
	}
	// lookups by name agree with the rows: a removed sequence is gone, a kept one is found with its residues
	for k := 0; k < n; k++ {
		s, found := al.GetSequence(c12Names[k])
		kept := gotKept&(1<<uint(k)) != 0
		if found != kept || (kept && s != cs.Seqs[k]) || (al.GetSequenceIdByName(c12Names[k]) >= 0) != kept {
			r.viol("lookup-by-name", fmt.Sprintf("sequence %s (kept=%v): GetSequence finds %v %q, GetSequenceIdByName %d", c12Names[k], kept, found, s, al.GetSequenceIdByName(c12Names[k])))
			return
		}
	}
	acc := &c12Cur
	nr := bits.OnesCount32(gotRm)
	if e.fractional {
		c.Nontrivial(c12Key(cs))
	}
	c12Outcome(c, r.opi, n, nr, 0, 0, false, false)
	if nr > 0 {
		acc[c12aSeqsRemoved]++
	}
	if nr < n {
		acc[c12aSeqsKept]++
	}
	r.account(&e)
	if nr > 0 && nr < n && L > 1 && e.skips == 0 && e.fractional {
		c.Sample(map[string]any{"case": cs, "removed_rows": c12MaskList(gotRm), "returned": nrm})
	}
}

// account records, for the vacuity rule, what a fully compared call exercised.
func (r *c12Run) account(e *c12Expect) {
	acc, cs := &c12Cur, r.cs
	acc[c12aOp+r.opi]++
	acc[c12aAlpha+r.alphi]++
	if r.opi == 1 && e.fractional {
		for i, v := range [5]bool{cs.Ends, cs.IgnoreCase, cs.IgnoreGaps, cs.IgnoreNs, cs.Reverse} {
			k := c12aOpt + 2*i
			if v {
				k++
			}
			acc[k]++
		}
	}
	switch {
	case cs.Cutoff == 0:
		acc[c12aZero]++
	case !(cs.Cutoff > 0 && cs.Cutoff <= 1):
		acc[c12aRange]++
	default:
		for j := 0; j < e.nu; j++ {
			u := &e.units[j]
			if u.total == 0 || u.why != 0 {
				continue
			}
			t := c12Tab(cs.Cutoff, u.total)
			need := int(t.need[u.total])
			if u.count == need && u.count > 0 {
				if t.integer&(1<<uint(u.total)) != 0 {
					acc[c12aTie]++
				} else {
					acc[c12aAbove]++
				}
			} else if u.count == need-1 {
				acc[c12aBelow]++
			}
		}
	}
}

var c12KeyBuf []byte

func c12Key(cs *c12Case) string {
	b := c12KeyBuf[:0]
	b = append(b, cs.Op...)
	b = append(b, cs.Alpha...)
	for _, s := range cs.Seqs {
		b = append(b, '|')
		b = append(b, s...)
	}
	b = append(b, '|')
	b = append(b, cs.Chars...)
	var o byte
	for i, v := range [5]bool{cs.Ends, cs.IgnoreCase, cs.IgnoreGaps, cs.IgnoreNs, cs.Reverse} {
		if v {
			o |= 1 << uint(i)
		}
	}
	b = append(b, '|', 'a'+o)
	bt := math.Float64bits(cs.Cutoff)
	for i := 0; i < 8; i++ {
		b = append(b, byte(bt>>(8*uint(i))))
	}
	c12KeyBuf = b
	return string(b)
}

var c12OutcomeNames = map[uint32]string{}

func c12Outcome(c *mc.Ctx, opi, size, removed, first, last int, ends, interior bool) {
	k := uint32(opi) | uint32(size)<<3 | uint32(removed)<<8 | uint32(first)<<13 | uint32(last)<<18
	if ends {
		k |= 1 << 23
	}
	if interior {
		k |= 1 << 24
	}
	s, ok := c12OutcomeNames[k]
	if !ok {
		if opi >= 3 {
			s = fmt.Sprintf("%s:rows%d:removed%d", c12Ops[opi], size, removed)
		} else {
			s = fmt.Sprintf("%s:sites%d:removed%d:first%d:last%d:ends=%v:interior-qualifying-kept=%v", c12Ops[opi], size, removed, first, last, ends, interior)
		}
		c12OutcomeNames[k] = s
	}
	c.Outcome(s)
}

// ---- enumeration

// Alphabets are written with placeholders: W/w = wildcard of the alignment's own
// alphabet (N,n for nucleotides; X,x for proteins), O = upper-case wildcard of the
// other alphabet (X for nucleotides, N = asparagine for proteins).
func c12Concrete(s, alpha string) string {
	w, o := byte('N'), byte('X')
	if alpha == "aa" {
		w, o = 'X', 'N'
	}
	b := []byte(s)
	for i := range b {
		switch b[i] {
		case 'W':
			b[i] = w
		case 'w':
			b[i] = w + 32
		case 'O':
			b[i] = o
		}
	}
	return string(b)
}

const (
	c12Sigma6 = "Aa-WwO"
	c12Sigma5 = "Aa-WO"
	c12Sigma4 = "A-WO"
	c12Sigma3 = "A-W"
	c12Sigma2 = "A-"
)

// c12Profile lists the configurations run on every alignment of a block.
type c12Profile struct {
	name     string
	siteSets []string // character sets for RemoveCharacterSites (placeholders allowed); nil: no site operations
	siteOpts []int    // option combinations for RemoveCharacterSites: bit0 ends, bit1 ignoreCase, bit2 ignoreGaps, bit3 ignoreNs, bit4 reverse
	seqChars string   // characters for RemoveCharacterSeqs (placeholders allowed); "": no sequence operations
	cuts     func(den int) []float64
}

var c12AllOpts = func() (o []int) {
	for i := 0; i < 32; i++ {
		o = append(o, i)
	}
	return
}()

// over {A,-} ignore-case and ignore-N cannot change anything: ends x ignore-gaps x reverse
var c12TieOpts = []int{0, 1, 4, 5, 16, 17, 20, 21}

// c12CutsFull: -1, 1.5 and, for every fraction k/m with 1 <= m <= den, 0 <= k <= m,
// the float64 nearest to it, its predecessor and its successor (so also the
// largest negative and the smallest > 1 float64).
func c12CutsFull(den int) []float64 {
	seen := map[uint64]bool{}
	out := []float64{}
	add := func(f float64) {
		if f == 0 {
			f = 0 // no negative zero
		}
		if !seen[math.Float64bits(f)] {
			seen[math.Float64bits(f)] = true
			out = append(out, f)
		}
	}
	for m := 1; m <= den; m++ {
		for k := 0; k <= m; k++ {
			f := float64(k) / float64(m)
			add(f)
			add(math.Nextafter(f, -1))
			add(math.Nextafter(f, 2))
		}
	}
	sort.Float64s(out)
	return append([]float64{-1, 1.5}, out...)
}

var c12CutsFullCache = map[int][]float64{}

func c12CutsFullC(den int) []float64 {
	if v, ok := c12CutsFullCache[den]; ok {
		return v
	}
	v := c12CutsFull(den)
	c12CutsFullCache[den] = v
	return v
}

var (
	c12CutsGridV = []float64{0, 1.0 / 3, 0.5, 2.0 / 3, 1}
	c12CutsEndsV = []float64{0, 0.5, 1}
)

func c12CutsGrid(int) []float64 { return c12CutsGridV }
func c12CutsEnds(int) []float64 { return c12CutsEndsV }

var (
	c12ProfFull = &c12Profile{name: "full", siteSets: []string{"-", "A", "a", "AW", "AO"}, siteOpts: c12AllOpts, seqChars: "-AaWO", cuts: c12CutsFullC}
	c12ProfGrid = &c12Profile{name: "grid", siteSets: []string{"A", "AW"}, siteOpts: c12AllOpts, seqChars: "A", cuts: c12CutsGrid}
	// sets in which a character occurs twice, verbatim or after case folding
	c12ProfDup  = &c12Profile{name: "dupset", siteSets: []string{"AA", "Aa", "AWA"}, siteOpts: c12AllOpts, seqChars: "", cuts: c12CutsFullC}
	c12ProfEnds = &c12Profile{name: "ends", siteSets: []string{"-", "A", "AW"}, siteOpts: c12AllOpts, seqChars: "", cuts: c12CutsEnds}
	c12ProfTieC = &c12Profile{name: "tiecol", siteSets: []string{"A"}, siteOpts: c12TieOpts, seqChars: "", cuts: c12CutsFullC}
	c12ProfTieR = &c12Profile{name: "tierow", siteSets: nil, seqChars: "A", cuts: c12CutsFullC}
	c12ProfLetters = &c12Profile{name: "letters", siteSets: []string{"-"}, siteOpts: c12AllOpts, seqChars: "", cuts: c12CutsGrid}
	c12ProfWide = &c12Profile{name: "wide", siteSets: []string{"-", "A", "AN"}, siteOpts: c12AllOpts, seqChars: "-A", cuts: c12CutsGrid}
)

// evals per alignment of a profile on an n x L alignment (for task sizing).
func (pr *c12Profile) evals(n, L int) int {
	t := 0
	if pr.siteSets != nil {
		t += (len(pr.siteSets)*len(pr.siteOpts) + 8 + 2) * len(pr.cuts(n))
	}
	if pr.seqChars != "" {
		t += (len(pr.seqChars)*8 + 2) * len(pr.cuts(L))
	}
	return t
}

// c12RunAlignment runs every configuration of the profile on one alignment.
func c12RunAlignment(c *mc.Ctx, alpha string, seqs []string, pr *c12Profile) {
	n, L := len(seqs), len(seqs[0])
	c.Mark(&c12Case{Op: "all", Profile: pr.name, Alpha: alpha, Seqs: seqs})
	var cs c12Case
	if pr.siteSets != nil {
		for _, cut := range pr.cuts(n) {
			for e := 0; e < 2; e++ {
				cs = c12Case{Op: "gapsites", Alpha: alpha, Seqs: seqs, Cutoff: cut, Ends: e == 1}
				c12Check(c, &cs)
			}
			for o := 0; o < 8; o++ {
				cs = c12Case{Op: "majsites", Alpha: alpha, Seqs: seqs, Cutoff: cut, Ends: o&1 != 0, IgnoreGaps: o&2 != 0, IgnoreNs: o&4 != 0}
				c12Check(c, &cs)
			}
			for _, set := range pr.siteSets {
				set = c12Concrete(set, alpha)
				for _, o := range pr.siteOpts {
					cs = c12Case{Op: "charsites", Alpha: alpha, Seqs: seqs, Chars: set, Cutoff: cut,
						Ends: o&1 != 0, IgnoreCase: o&2 != 0, IgnoreGaps: o&4 != 0, IgnoreNs: o&8 != 0, Reverse: o&16 != 0}
					c12Check(c, &cs)
				}
			}
		}
	}
	if pr.seqChars != "" {
		chars := c12Concrete(pr.seqChars, alpha)
		for _, cut := range pr.cuts(L) {
			for o := 0; o < 2; o++ {
				cs = c12Case{Op: "gapseqs", Alpha: alpha, Seqs: seqs, Cutoff: cut, IgnoreNs: o == 1}
				c12Check(c, &cs)
			}
			for i := 0; i < len(chars); i++ {
				for o := 0; o < 8; o++ {
					cs = c12Case{Op: "charseqs", Alpha: alpha, Seqs: seqs, Chars: chars[i : i+1], Cutoff: cut,
						IgnoreCase: o&1 != 0, IgnoreGaps: o&2 != 0, IgnoreNs: o&4 != 0}
					c12Check(c, &cs)
				}
			}
		}
	}
}

var c12TaskTarget = 200000.0 // evaluations per task, roughly (raised for the thorough tier)

// c12Block appends the tasks that enumerate every n x L alignment over sigma for
// one alphabet, split by a prefix of the alignment so that tasks have similar cost.
func c12Block(ts []mc.Task, class, alpha, sigma string, n, L int, pr *c12Profile) []mc.Task {
	conc := c12Concrete(sigma, alpha)
	per := pr.evals(n, L)
	cells := n * L
	p := 0
	count := func(free int) float64 { return math.Pow(float64(len(conc)), float64(free)) * float64(per) }
	for p < cells && count(cells-p) > c12TaskTarget {
		p++
	}
	forEachStringLen(conc, p, nil, func(pf []byte) bool {
		pf = append([]byte{}, pf...)
		ts = append(ts, mc.Task{Name: fmt.Sprintf("%s#%s/%dx%d/%s/%s", class, alpha, n, L, pr.name, pf), Run: func(c *mc.Ctx) {
			debug.SetGCPercent(1000) // many short-lived alignments: collect less often
			c12Cur = c12Acc{}
			seqs := make([]string, n)
			forEachStringLen(conc, cells, pf, func(s []byte) bool {
				for i := 0; i < n; i++ {
					seqs[i] = string(s[i*L : (i+1)*L])
				}
				c12RunAlignment(c, alpha, seqs, pr)
				return !c.Expired()
			})
			c12Cur.flush(c)
		}})
		return true
	})
	return ts
}

func c12Tasks(tier string) []mc.Task {
	thorough := tier == "thorough"
	var ts []mc.Task
	alphas := []string{"nt", "aa"}
	colMax, rowMax, tieMax := 4, 4, 10
	c12TaskTarget = 200000
	if thorough {
		colMax, rowMax, tieMax = 5, 5, 12
		c12TaskTarget = 1500000
	}
	// (1) one column: every configuration
	for n := 1; n <= colMax; n++ {
		for _, a := range alphas {
			ts = c12Block(ts, "col", a, c12Sigma6, n, 1, c12ProfFull)
		}
	}
	// (2) one row: every configuration
	for L := 2; L <= rowMax; L++ {
		for _, a := range alphas {
			ts = c12Block(ts, "row", a, c12Sigma6, 1, L, c12ProfFull)
		}
	}
	// (3) 2 x 2: every configuration
	for _, a := range alphas {
		ts = c12Block(ts, "square", a, c12Sigma6, 2, 2, c12ProfFull)
	}
	// (3') character sets with a repeated character: one column of 1..3 rows and 2x2 over {A,a,-,W}
	for _, a := range alphas {
		for n := 1; n <= 3; n++ {
			ts = c12Block(ts, "dupcol", a, "Aa-W", n, 1, c12ProfDup)
		}
		ts = c12Block(ts, "dupsquare", a, "Aa-W", 2, 2, c12ProfDup)
	}
	// (3'') wide alignments: 3 rows of every length 17..32 (beyond any 8- or 16-column block a fast path would
	// take), two patterns whose qualifying sites lie at the ends, in the middle and at block boundaries
	ts = append(ts, mc.Task{Name: "wide#17..32", Run: func(c *mc.Ctx) {
		c12Cur = c12Acc{}
		for L := 17; L <= 32; L++ {
			for _, a := range alphas {
				for pat := 0; pat < 2; pat++ {
					seqs := make([]string, 3)
					for i := range seqs {
						b := make([]byte, L)
						for j := range b {
							switch {
							case pat == 0 && (j < 2 || j >= L-2 || j == 8 || j == 15 || j == 16):
								b[j] = '-'
							case pat == 1 && (j%7 == i || j == L/2):
								b[j] = "-N-"[i]
							default:
								b[j] = c12Concrete("ANa", a)[(i+j)%3]
							}
						}
						seqs[i] = string(b)
					}
					c12RunAlignment(c, a, seqs, c12ProfWide)
				}
			}
			if c.Expired() {
				break
			}
		}
		c12Cur.flush(c)
	}})
	// (3d) every letter in both cases: one column of 3 rows over {X, x, -} for each letter X but A, W, O (those are
	// the families above): case folding of the majority / chosen character is the same for all 26 letters
	for _, a := range alphas {
		for ch := byte('B'); ch <= 'Z'; ch++ {
			if ch == 'W' || ch == 'O' {
				continue
			}
			ts = c12Block(ts, "letters", a, string([]byte{ch, ch + 32, '-'}), 3, 1, c12ProfLetters)
		}
	}
	// (4) exact ties and their neighbours: one column of n rows (site operations) /
	// one row of L sites (sequence operations) over {A,-}
	for n := colMax + 1; n <= tieMax; n++ {
		for _, a := range alphas {
			ts = c12Block(ts, "tiecol", a, c12Sigma2, n, 1, c12ProfTieC)
		}
	}
	for L := rowMax + 1; L <= tieMax; L++ {
		for _, a := range alphas {
			ts = c12Block(ts, "tierow", a, c12Sigma2, 1, L, c12ProfTieR)
		}
	}
	// (5) ends mode on long alignments (site operations)
	endsMax1, endsMax2 := 9, 5
	if thorough {
		endsMax1, endsMax2 = 10, 7
	}
	for L := rowMax + 1; L <= endsMax1; L++ {
		for _, a := range alphas {
			ts = c12Block(ts, "ends1", a, c12Sigma3, 1, L, c12ProfEnds)
		}
	}
	for L := 4; L <= endsMax2; L++ {
		for _, a := range alphas {
			ts = c12Block(ts, "ends2", a, c12Sigma2, 2, L, c12ProfEnds)
		}
	}
	// (6) several rows and several columns
	for _, a := range alphas {
		ts = c12Block(ts, "grid", a, c12Sigma6, 2, 3, c12ProfGrid)
		ts = c12Block(ts, "grid", a, c12Sigma6, 3, 2, c12ProfGrid)
	}
	if thorough {
		for _, a := range alphas {
			ts = c12Block(ts, "col5", a, c12Sigma5, 6, 1, c12ProfFull)
			ts = c12Block(ts, "row5", a, c12Sigma5, 1, 6, c12ProfFull)
		}
		for _, a := range alphas {
			ts = c12Block(ts, "grid4", a, c12Sigma4, 3, 3, c12ProfGrid)
			ts = c12Block(ts, "grid4", a, c12Sigma4, 2, 4, c12ProfGrid)
			ts = c12Block(ts, "grid4", a, c12Sigma4, 4, 2, c12ProfGrid)
		}
	}
	ts = append(ts, c12CLITasks(thorough)...)
	return append(append(ts, c12LargeTasks()...), c12TallTasks()...)
}

func init() {
	mc.Register(&mc.Prop{
		ID:    "C12",
		Level: "exploration",
		Rule: cliStreamRule[1:] + "(Free-running complement under the race detector: 8 goroutines doing this property's operations on objects of their own must get the values the same work gives alone.)  " + "bounded-exhaustive enumeration of calls to RemoveGapSites, RemoveCharacterSites, RemoveMajorityCharacterSites, RemoveGapSeqs and RemoveCharacterSeqs on nucleotide and on protein alignments; " +
			"W/w stands for the wildcard of the alignment's own alphabet (N/n, X/x), O for the one of the other alphabet (X, N). Quick tier [thorough tier in brackets]: " +
			"(1) every 1-column alignment of 1..4 [1..5] rows, (2) every 1-row alignment of 2..4 [2..5] sites and (3) every 2x2 alignment over {A,a,-,W,w,O}: RemoveCharacterSites with the sets {-},{A},{a},{A,W},{A,O} x all 2^5 combinations of ends/ignoreCase/ignoreGaps/ignoreNs/reverse, RemoveMajorityCharacterSites x 2^3 (ends, ignoreGaps, ignoreNs), RemoveGapSites x ends, RemoveCharacterSeqs with each of -,A,a,W,O x 2^3 (ignoreCase, ignoreGaps, ignoreNs), RemoveGapSeqs x ignoreNs; cutoffs -1, 1.5 and, for every fraction k/m with m <= number of rows (site operations) or <= number of sites (sequence operations), the float64 nearest to k/m, its predecessor and its successor; " +
			"(3b) sets with a repeated character ({A,A}, {A,a}, {A,W,A}) x 2^5 on every 1-column alignment of 1..3 rows and every 2x2 alignment over {A,a,-,W}; after sequence cleaning, lookups by name find exactly the kept sequences; (4) ties: every 1-column alignment of 5..10 [6..12] rows over {A,-} (site operations, set {A}, ends x ignoreGaps x reverse) and every 1-row alignment of 5..10 [6..12] sites over {A,-} (sequence operations, character A), same cutoff family; " +
			"(5) ends mode: every 1-row alignment of 5..9 [6..10] sites over {A,-,W} and every 2-row alignment of 4..5 [4..7] sites over {A,-}: the three site operations, sets {-},{A},{A,W} x 2^5, cutoffs 0, 1/2, 1; " +
			"(6) every 2x3 and 3x2 alignment over {A,a,-,W,w,O} [plus every 3x3, 2x4, 4x2 alignment over {A,-,W,O}]: all five operations, sets {A},{A,W} x 2^5, sequences with A x 2^3, cutoffs 0, 1/3, 1/2, 2/3, 1 [plus every 6x1 and 1x6 alignment over {A,a,-,W,O} with the configurations of (1)]. " +
			"(7) command line: goalign clean sites / clean seqs (in process, files in a private directory) for --char GAP, MAJ, A, aW, A- (sites) and GAP, A, W, a (seqs) x every combination of --ends/--reverse/--ignore-case/--ignore-gaps/--ignore-n the command passes on x cutoffs 0, 1/2, 1, -1, 1.5, 1/3 x every 2x2 alignment over {A,a,-,W} [{A,a,-,W,w,O}] and 4 larger ones, both alphabets: output file, --positions and --positions-rm must equal what the library call with the same options returns (combinations the command documents as errors must be refused or agree). " +
			"Each call is compared with an oracle written from the statement and the documentation: per site (sequence) count/total over the rows (sites) not excluded by ignore-gaps / ignore-N-or-X of the own alphabet, removal iff count/total >= cutoff in exact rational arithmetic on the float64 passed (count > 0 when the cutoff is 0 or outside [0,1]), maximal qualifying prefix and suffix in ends mode, kept/removed a partition of the columns, first/last the numbers of leading/trailing removed columns, result = selection of the kept columns (rows) with names, order and Length(). " +
			"A case is non-trivial when the whole call was compared and at least one of its sites (sequences) has 0 < count < total, i.e. a verdict that depends on the cutoff; distinct = distinct (operation, alphabet, alignment, characters, options, cutoff bits).",
		Assumptions: []string{
			"a cutoff outside [0,1] is treated as 0 (doc comments of the five functions and docs/commands/clean.md); NaN is not enumerated",
			"a site/sequence all of whose characters are excluded by the ignore options has no fraction: either verdict is accepted for it",
			"a searched character that is itself excluded by the ignore options (without reverse; the command line refuses it for sites) leaves the verdict open where counting or not counting it decides",
			"when exact arithmetic and the float64 evaluations count >= cutoff*total / count/total >= cutoff of the same comparison disagree (4 of 5 against float64(0.8)) either verdict is accepted for that unit",
			"for the majority character it is left open whether the two cases of a letter are one character (either verdict accepted where it decides)",
			"with every site qualifying, first = last = number of columns (each is the length of the maximal qualifying prefix / suffix)",
		},
		// free-running complement: goroutines that each own their objects must get what they get alone (harness/racepass)
		Post:  func(m *mc.Master) { m.RacePass("own-clean") },
		Tasks: func(tier string) []mc.Task { return append(c12Tasks(tier), cliStreamTasks("C12")...) },
		Replay: func(c *mc.Ctx, payload json.RawMessage) {
			if cliStreamReplay(c, payload) {
				return
			}
			var tc c12TallCase
			if json.Unmarshal(payload, &tc) == nil && tc.Tall {
				c12TallCheck(c, tc)
				return
			}
			var lc c12LargeCase
			if json.Unmarshal(payload, &lc) == nil && lc.Large {
				c12LargeCheck(c, &lc)
				return
			}
			var cs c12Case
			if err := json.Unmarshal(payload, &cs); err != nil {
				c.Fatal("bad payload: %v", err)
				return
			}
			c12Cur = c12Acc{}
			if cs.Op == "all" {
				for _, pr := range []*c12Profile{c12ProfFull, c12ProfGrid, c12ProfEnds, c12ProfTieC, c12ProfTieR, c12ProfDup} {
					if pr.name == cs.Profile && len(cs.Seqs) > 0 && len(cs.Seqs[0]) > 0 {
						c12RunAlignment(c, cs.Alpha, cs.Seqs, pr)
						return
					}
				}
				c.Fatal("bad payload %s", payload)
				return
			}
			if cs.CLI {
				defer c12DropBox()
				c12CheckCLI(c, &cs)
				return
			}
			c12Check(c, &cs)
		},
		Vacuity: func(tier string, t *mc.Totals) error {
			if t.Evaluations < 20000000 || len(t.OutcomeSet) < 300 {
				return fmt.Errorf("only %d evaluations / %d outcome classes", t.Evaluations, len(t.OutcomeSet))
			}
			for i, name := range c12AccNames {
				if i >= c12aEither {
					break
				}
				if t.Extra[name] < 10000 {
					return fmt.Errorf("too little exercised: %s = %d", name, t.Extra[name])
				}
			}
			return nil
		},
	})
}
