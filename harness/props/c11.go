package props

// C11 — the command line is reproducible.  The instrumented goalign binary
// (built from the current tree, rewrite R10 wraps main) is run as a child
// process; every scheduling decision at a synchronisation operation, every
// iteration order of a ranged map and every answer of time.Now is a choice
// point recorded by the runtime and replayed / varied by the explorer
// (subprocess mode: VRT_CHOICES / VRT_TRACE files).  Inside the deviation bound
// every execution of a scenario must produce the bytes of the default
// execution with --threads 1.

import (
	"bytes"
	"crypto/sha256"
	"encoding/json"
	"fmt"
	"io"
	"os"
	"os/exec"
	"path/filepath"
	"sort"
	"strings"
	"time"

	"verif/harness/mc"

	"github.com/evolbioinfo/goalign/verifrt/vrt"
)

// ---------------------------------------------------------------- inputs

var c11Files = map[string]string{
	"nt.fa":  ">s1\nATGGCTAAGTGA\n>s2\nATGGCTAAG-GA\n>s3\nATGACTAAGTNA\n>s4\nATGACCAAGTGA\n",
	"nt2.fa": ">s1\nACGT\n>s2\nAC-T\n>s5\nTTTT\n",
	"tie.fa": ">a\nACGT-N\n>b\nCAGT-N\n>c\nACTG-A\n>d\nCATGNA\n",
	"odd.fa": ">a\nAC?T*N\n>b\nA-?T*a\n>c\nacgt-?\n",
	"aa.fa":  ">p1\nMAKWL-\n>p2\nMAKWLL\n>p3\nMGKWIL\n",
	// gapped protein alignment long enough for bootstrap replicates to give defined distances
	"aa2.fa": ">p1\nMAKWLLDE-RSTVIPG\n>p2\nMAKWL-DEQRSTVLPG\n>p3\nMGKWILNEQRATV-PG\n>p4\nMGRWILNDQKATVIPA\n",
	// a saturated pair (s2,s3 differ at exactly 3 sites of 4: the jc distance is undefined) met after the
	// pairs with defined distances, and the same rows in the other order
	"ntlong.fa": ">s1\nATGGCTAAGTGAACGTTGCAATGC\n>s2\nATGGCTAAG-GAACGATGCTATGC\n>s3\nATGACTAAGTNAACCTTGGAATCC\n>s4\nATGACCAAGTGATCGTTGCATTGA\n",
	// names and rows that are NEXUS keywords but for their case
	"kw.fa": ">Data\nACGT\n>end\nAC-T\n>Matrix\nTTGA\n>tree\nGGCA\n",
	// first row: protein-only letters; second row: also U and O (no alphabet fits the whole alignment); a column
	// conserved within a Clustal "strong" group without being identical (I/L)
	"mixed.fa": ">a\nEIQLFP\n>b\nELQUOP\n>c\nEIQLFP\n",
	// more rows than workers, the number of rows (and of rows less one) not a multiple of the number of workers
	"nt7.fa": ">r1\nATGGCTAAGTGA\n>r2\nATGGCTAAG-GA\n>r3\nATGACTAAGTNA\n>r4\nATGACCAAGTGA\n>r5\nTTGACCAAGTGC\n>r6\nATCACCTAGTGA\n>r7\nATGAGCAAGAGA\n",
	// a name holding a multi-byte UTF-8 character
	"utf8.fa": ">s\xc3\xa9q1\nACGT\n>seq2\nAC-T\n>\xce\xb1\xce\xb2\nTTGA\n",
	// header lines with a description after the identifier (the name is the whole line)
	"desc.fa": ">Seq0001 Homo sapiens isolate 1\nACGT-A\n>Seq0002\tMus musculus\nAC-TTA\n",
	"sat.fa":  ">s1\nAACA\n>s2\nAAAA\n>s3\nCCCA\n",
	"sat2.fa": ">s1\nAAAA\n>s2\nCCCA\n>s3\nAACA\n",
	// the ORF ATGCTTTGGTAA translates to MLW*: L is a protein-only letter, so the pairwise aligner reads it as a protein
	"unal.fa": ">u1\nCCATGCTTTGGTAAGG\n>u2\nATGCTTTGGTAA\n>u3\nGATGCTATGGTAAC\n>u4\nCCTTACCAAAGCATGG\n",
	// here the ORF ATGGCTTGGTAA translates to MAW*, which goalign reads as nucleotides: every alignment fails on '*'
	"unalerr.fa": ">u1\nCCATGGCTTGGTAAGG\n>u2\nATGGCTTGGTAA\n>u3\nGATGGCATGGTAAC\n>u4\nCCTTACCAAGCCATGG\n",
	"pair.fa":    ">q1\nACGTTGCA\n>q2\nCGTAGC\n",
	"orf.fa":     ">orf\nATGCTTTGGTAA\n",
	"multi.ph":   "   3   6\nx1  ACGTAC\nx2  ACG-AC\nx3  TCGTAA\n   3   4\nx1  ACGT\nx2  AC-T\nx3  TCGA\n",
	// the second alignment announces 3 sequences of 4 sites but holds a short row
	"multibad.ph": "   3   6\nx1  ACGTAC\nx2  ACG-AC\nx3  TCGTAA\n   3   4\nx1  ACGT\nx2  AC\nx3  TCGA\n",
	"counts.txt":  "s1\t3\ns2\t2\ns3\t1\ns4\t2\n",
	"part.txt":    "M1, p1 = 1-6\nM2, p2 = 7-12\n",
	"map.txt":     "s1\tt1\ns3\tt3\n",
	"names.txt":   "s1\ns3\n",
	"coords.txt":  "0\t6\tg1\n6\t12\tg2\n0,8\t4,12\tg3\t-\n",
	"ntaa.fa":     ">s1\nMEL\n>s2\nME-\n",
	"ntforaa.fa":  ">s1\nATGGAACTG\n>s2\nATGGAA\n",
	"profile.txt": "site\t-\tA\tC\tG\tN\tT\n0\t0\t4\t0\t0\t0\t0\n",
}

type c11Scenario struct {
	Name      string
	Args      []string // "@file" is replaced by the path of an input file
	Seeded    bool     // the command draws random numbers: --seed is passed
	Threads   bool     // the command uses --threads
	ThreadSet []int    // the thread counts explored (default 1,2,3,16)
	Stdin     string   // input file piped to stdin
}

func c11Scenarios() []c11Scenario {
	var sc []c11Scenario
	add := func(name string, seeded, threads bool, args ...string) {
		sc = append(sc, c11Scenario{Name: name, Args: args, Seeded: seeded, Threads: threads})
	}
	// --- formats
	for _, f := range []string{"fasta", "phylip", "nexus", "clustal", "paml", "tnt"} {
		add("reformat-"+f, false, false, "reformat", f, "-i", "@nt.fa")
	}
	// compressed output files (the .gz / .xz writers of io/utils: headers, buffering)
	add("reformat-to-gz", false, false, "reformat", "fasta", "-i", "@nt.fa", "-o", "out.fa.gz")
	add("reformat-to-xz", false, false, "reformat", "phylip", "-i", "@nt.fa", "-o", "out.ph.xz")
	add("dist-to-gz", false, true, "compute", "distance", "-m", "jc", "-i", "@nt.fa", "-o", "dist.txt.gz")
	add("reformat-phylip-strict", false, false, "reformat", "phylip", "-i", "@nt.fa", "--output-strict")
	add("reformat-multi", false, false, "reformat", "fasta", "-p", "-i", "@multi.ph")
	add("reformat-multibad", false, false, "reformat", "nexus", "-p", "-i", "@multibad.ph")
	add("reformat-autodetect", false, false, "reformat", "phylip", "--auto-detect", "-i", "@multi.ph")
	// --- commands that take only the first alignment of a Phylip stream (well-formed and malformed second alignment)
	for _, in := range []string{"multi.ph", "multibad.ph"} {
		tag := "-first-of-" + strings.TrimSuffix(in, ".ph")
		add("reformat-fasta"+tag, false, false, "reformat", "fasta", "-p", "-i", "@"+in)
		add("reformat-clustal"+tag, false, false, "reformat", "clustal", "-p", "-i", "@"+in)
		add("reformat-tnt"+tag, false, false, "reformat", "tnt", "-p", "-i", "@"+in)
		add("stats-taxa"+tag, false, false, "stats", "taxa", "-p", "-i", "@"+in)
		add("stats-alphabet"+tag, false, false, "stats", "alphabet", "-p", "-i", "@"+in)
		add("stats-gaps"+tag, false, false, "stats", "gaps", "-p", "-i", "@"+in)
		add("stats-maxchar"+tag, false, false, "stats", "maxchar", "-p", "-i", "@"+in)
		add("stats-mutations"+tag, false, false, "stats", "mutations", "--ref-sequence", "x1", "-p", "-i", "@"+in)
		add("sample-sites"+tag, true, false, "sample", "sites", "-l", "2", "-p", "-i", "@"+in)
		add("trim-name"+tag, false, false, "trim", "name", "-a", "-p", "-i", "@"+in)
	}
	// --- statistics
	add("stats", false, false, "stats", "-i", "@tie.fa")
	add("stats-perseq", false, false, "stats", "--per-sequences", "-i", "@tie.fa")
	add("stats-perseq-ref", false, false, "stats", "--per-sequences", "--ref-sequence", "a", "-i", "@tie.fa")
	add("stats-char", false, false, "stats", "char", "-i", "@tie.fa")
	add("stats-char-persites", false, false, "stats", "char", "--per-sites", "-i", "@tie.fa")
	add("stats-char-perseq", false, false, "stats", "char", "--per-sequences", "-i", "@tie.fa")
	add("stats-maxchar", false, false, "stats", "maxchar", "-i", "@tie.fa")
	add("stats-maxchar-ig", false, false, "stats", "maxchar", "--ignore-gaps", "--ignore-n", "-i", "@tie.fa")
	add("stats-alleles", false, false, "stats", "alleles", "-i", "@tie.fa")
	add("stats-gaps", false, false, "stats", "gaps", "-i", "@tie.fa")
	add("stats-gaps-unique", false, false, "stats", "gaps", "--unique", "-i", "@tie.fa")
	add("stats-mutations", false, false, "stats", "mutations", "--ref-sequence", "a", "-i", "@tie.fa")
	add("stats-mutations-list", false, false, "stats", "mutations", "list", "--ref-sequence", "a", "-i", "@tie.fa")
	add("stats-length", false, false, "stats", "length", "-i", "@nt.fa")
	add("stats-nseq", false, false, "stats", "nseq", "-i", "@nt.fa")
	add("stats-taxa", false, false, "stats", "taxa", "-i", "@nt.fa")
	add("stats-alphabet", false, false, "stats", "alphabet", "-i", "@aa.fa")
	add("stats-nalign", false, false, "stats", "nalign", "-p", "-i", "@multi.ph")
	add("stats-nalign-bad", false, false, "stats", "nalign", "-p", "-i", "@multibad.ph")
	add("stats-first-of-bad", false, false, "stats", "length", "-p", "-i", "@multibad.ph")
	add("consensus", false, false, "consensus", "-i", "@tie.fa")
	add("consensus-ignore", false, false, "consensus", "--ignore-gaps", "--ignore-n", "-i", "@tie.fa")
	add("entropy", false, false, "compute", "entropy", "-i", "@tie.fa")
	add("entropy-avg", false, false, "compute", "entropy", "-a", "-g", "-i", "@tie.fa")
	add("pssm", false, false, "compute", "pssm", "-n", "1", "-i", "@tie.fa")
	add("pssm-log", false, false, "compute", "pssm", "-n", "2", "-l", "-c", "0.5", "-i", "@nt.fa")
	// --- distances
	for _, m := range []string{"rawdist", "pdist", "jc", "k2p", "f81", "f84", "tn93"} {
		add("dist-"+m, false, true, "compute", "distance", "-m", m, "-i", "@nt.fa")
	}
	add("dist-k2p-gamma-rmgaps", false, true, "compute", "distance", "-m", "k2p", "--alpha", "0.5", "-r", "-i", "@nt.fa")
	add("dist-jc-saturated", false, true, "compute", "distance", "-m", "jc", "-i", "@sat.fa")
	add("dist-jc-saturated2", false, true, "compute", "distance", "-m", "jc", "-i", "@sat2.fa")
	add("dist-jc-7rows", false, true, "compute", "distance", "-m", "jc", "-i", "@nt7.fa")
	sc[len(sc)-1].ThreadSet = []int{1, 3, 4, 5}
	add("dist-pdist-7rows-range", false, true, "compute", "distance", "-m", "pdist", "--range1", "0:5", "--range2", "1:6", "-i", "@nt7.fa")
	sc[len(sc)-1].ThreadSet = []int{1, 4, 5}
	add("distboot-7rows", true, true, "build", "distboot", "-n", "2", "-m", "k2p", "-i", "@nt7.fa")
	sc[len(sc)-1].ThreadSet = []int{1, 4}
	add("dist-avg", false, true, "compute", "distance", "-m", "pdist", "-a", "-i", "@nt.fa")
	add("dist-range", false, true, "compute", "distance", "-m", "jc", "--range1", "0:1", "--range2", "1:3", "-i", "@nt.fa")
	add("dist-range-above", false, true, "compute", "distance", "-m", "jc", "--range1", "2:3", "--range2", "0:2", "-i", "@nt.fa")
	add("dist-range-inside", false, true, "compute", "distance", "-m", "pdist", "--range1", "1:2", "--range2", "0:3", "-i", "@nt.fa")
	add("dist-prot-lg", false, true, "compute", "distance", "-m", "lg", "-i", "@aa.fa")
	add("dist-multi", false, true, "compute", "distance", "-m", "pdist", "-p", "-i", "@multi.ph")
	// --- cleaning, dedup, compress
	add("clean-sites", false, false, "clean", "sites", "-c", "0.25", "-i", "@tie.fa")
	add("clean-sites-maj", false, false, "clean", "sites", "--char", "MAJ", "-c", "0.5", "-i", "@tie.fa")
	add("clean-sites-pos", false, false, "clean", "sites", "-c", "0.25", "--positions", "kept.txt", "--positions-rm", "rm.txt", "-i", "@tie.fa")
	add("clean-seqs", false, false, "clean", "seqs", "-c", "0.05", "-i", "@nt.fa")
	add("dedup", false, false, "dedup", "-l", "dedup.log", "-i", "@nt.fa")
	add("dedup-name", false, false, "dedup", "--name", "-i", "@nt.fa")
	add("compress", false, false, "compress", "--weight-out", "w.txt", "-i", "@nt.fa")
	// --- names
	add("trim-name", false, false, "trim", "name", "-n", "3", "-m", "map.out", "-i", "@nt.fa")
	add("trim-name-auto", false, false, "trim", "name", "-a", "-m", "map.out", "-i", "@nt.fa")
	add("trim-name-multi", false, false, "trim", "name", "-a", "-m", "map.out", "-p", "-i", "@multi.ph")
	add("trim-seq", false, false, "trim", "seq", "-n", "2", "-s", "-i", "@nt.fa")
	add("rename-regexp", false, false, "rename", "-e", "s", "-b", "q", "-i", "@nt.fa")
	add("rename-map", false, false, "rename", "-m", "@map.txt", "-i", "@nt.fa")
	add("rename-clean", false, false, "rename", "--clean-names", "-i", "@nt.fa")
	add("addid", false, false, "addid", "-n", "X_", "-i", "@nt.fa")
	// --- randomised commands
	add("shuffle-seqs", true, false, "shuffle", "seqs", "-i", "@nt.fa")
	add("shuffle-sites", true, false, "shuffle", "sites", "-r", "0.5", "--rogue", "0.5", "--rogue-file", "rogues.txt", "-i", "@nt.fa")
	add("shuffle-recomb", true, false, "shuffle", "recomb", "-i", "@nt.fa")
	add("shuffle-rogue", true, false, "shuffle", "rogue", "--rogue-file", "rogues.txt", "-i", "@nt.fa")
	add("shuffle-swap", true, false, "shuffle", "swap", "-i", "@nt.fa")
	add("sample-seqs", true, false, "sample", "seqs", "-n", "2", "-i", "@nt.fa")
	add("sample-sites", true, false, "sample", "sites", "-l", "4", "-n", "2", "-i", "@nt.fa")
	add("sample-sites-nc", true, false, "sample", "sites", "-l", "4", "--consecutive=false", "-i", "@nt.fa")
	add("sample-rarefy", true, false, "sample", "rarefy", "-n", "4", "-c", "@counts.txt", "-i", "@nt.fa")
	add("mutate-snvs", true, false, "mutate", "snvs", "-r", "0.3", "-i", "@nt.fa")
	add("mutate-gaps", true, false, "mutate", "gaps", "-r", "0.3", "-n", "0.5", "-i", "@nt.fa")
	add("random", true, true, "random", "-n", "3", "-l", "7")
	add("random-aa", true, true, "random", "-n", "3", "-l", "7", "-a")
	add("seqboot", true, true, "build", "seqboot", "-n", "3", "-o", "boot", "-i", "@nt.fa")
	add("seqboot-frac-shuf", true, true, "build", "seqboot", "-n", "2", "-f", "0.5", "-S", "-o", "boot", "-i", "@nt.fa")
	add("seqboot-tar", true, true, "build", "seqboot", "-n", "2", "--tar", "-o", "boot", "-i", "@nt.fa")
	add("seqboot-gz", true, true, "build", "seqboot", "-n", "2", "--gz", "-o", "boot", "-i", "@nt.fa")
	add("distboot", true, true, "build", "distboot", "-n", "2", "-m", "jc", "-i", "@nt.fa")
	add("weightboot", true, false, "build", "weightboot", "-n", "2", "-i", "@nt.fa")
	// --- phasing, ORF, pairwise alignment, translation
	add("phase", false, true, "phase", "--unaligned", "-i", "@unal.fa", "--aa-output", "aa.out", "-l", "log.out")
	add("phase-ref-rev", false, true, "phase", "--unaligned", "--reverse", "--cut-end", "--ref-orf", "@orf.fa", "-i", "@unal.fa")
	add("phase-alignment-error", false, true, "phase", "--unaligned", "-i", "@unalerr.fa")
	add("phasent", false, true, "phasent", "--unaligned", "-i", "@unal.fa", "--aa-output", "aa.out", "--nt-output", "nt.out")
	add("orf", false, false, "orf", "-i", "@unal.fa")
	add("orf-reverse", false, false, "orf", "--reverse", "-i", "@unal.fa")
	add("sw", false, false, "sw", "-i", "@pair.fa", "-l", "sw.log")
	add("translate", false, false, "translate", "-i", "@nt.fa")
	add("translate-3", false, false, "translate", "--phase", "-1", "--unaligned", "-i", "@unal.fa")
	add("codonalign", false, false, "codonalign", "-i", "@ntaa.fa", "-f", "@ntforaa.fa")
	// --- extraction and editing
	add("subseq", false, false, "subseq", "-s", "1", "-l", "4", "-i", "@nt.fa")
	add("subseq-ref", false, false, "subseq", "-s", "1", "-l", "4", "--ref-seq", "s2", "-i", "@nt.fa")
	add("subseq-first-of-bad", false, false, "subseq", "-s", "1", "-l", "2", "-p", "-i", "@multibad.ph")
	add("subsites", false, false, "subsites", "-i", "@nt.fa", "1", "3", "5")
	add("subsites-informative", false, false, "subsites", "--informative", "-i", "@tie.fa")
	add("subset", false, false, "subset", "-f", "@names.txt", "-i", "@nt.fa")
	add("subset-revert-regexp", false, false, "subset", "-e", "-r", "-i", "@nt.fa", "s[12]")
	add("mask", false, false, "mask", "-s", "1", "-l", "3", "-i", "@nt.fa")
	add("mask-maj", false, false, "mask", "-s", "0", "-l", "6", "--replace", "MAJ", "-i", "@tie.fa")
	add("mask-unique", false, false, "mask", "--unique", "-i", "@tie.fa")
	add("mask-unique-maj", false, false, "mask", "--unique", "--at-most", "2", "--replace", "MAJ", "-i", "@tie.fa")
	add("replace", false, false, "replace", "-s", "GC", "-n", "--", "-i", "@nt.fa")
	add("revcomp", false, false, "revcomp", "-i", "@nt.fa")
	add("sort", false, false, "sort", "-i", "@nt.fa")
	add("tolower", false, false, "tolower", "-i", "@nt.fa")
	add("toupper", false, false, "toupper", "-i", "@nt.fa")
	add("transpose", false, false, "transpose", "-i", "@nt.fa")
	add("unalign", false, false, "unalign", "-i", "@nt.fa")
	// one output file per alignment of the input (a contributor would write them in parallel)
	add("unalign-multi-prefix", false, true, "unalign", "-p", "-i", "@multi.ph", "-o", "ua")
	add("diff", false, false, "diff", "-i", "@nt.fa")
	add("diff-counts", false, false, "diff", "--counts", "-i", "@tie.fa")
	add("concat", false, false, "concat", "-i", "@nt.fa", "@nt2.fa", "-l", "concat.log")
	add("append", false, false, "append", "-i", "@nt.fa", "@nt.fa")
	add("split", false, false, "split", "--partition", "@part.txt", "-o", "part_", "-i", "@nt.fa")
	add("divide", false, false, "divide", "-p", "-i", "@multi.ph", "-o", "div")
	add("divide-fasta-nb", false, false, "divide", "-p", "-f", "--nb-sequences", "2", "-i", "@multi.ph", "-o", "div")
	add("extract", false, false, "extract", "--coordinates", "@coords.txt", "--ref-seq", "s1", "-i", "@nt.fa")
	add("identical", false, false, "identical", "-c", "@nt.fa", "-i", "@nt.fa")
	return sc
}

// ---------------------------------------------------------------- running the binary

type c11Obs struct {
	Exit   int               `json:"exit"`
	Stdout string            `json:"stdout"`
	Files  map[string]string `json:"files"` // name -> sha256 + size (content kept for small files)
}

func (o c11Obs) key() string {
	var b strings.Builder
	fmt.Fprintf(&b, "exit=%d\nstdout=%q\n", o.Exit, o.Stdout)
	names := make([]string, 0, len(o.Files))
	for n := range o.Files {
		names = append(names, n)
	}
	sort.Strings(names)
	for _, n := range names {
		fmt.Fprintf(&b, "file %s=%s\n", n, o.Files[n])
	}
	return b.String()
}

func c11Diff(a, b c11Obs) string {
	if a.Exit != b.Exit {
		return fmt.Sprintf("exit status %d vs %d", a.Exit, b.Exit)
	}
	if a.Stdout != b.Stdout {
		return fmt.Sprintf("stdout %q vs %q", c11Short(a.Stdout), c11Short(b.Stdout))
	}
	for n, x := range a.Files {
		if y, ok := b.Files[n]; !ok {
			return "file " + n + " written only in one of the runs"
		} else if x != y {
			return fmt.Sprintf("file %s: %q vs %q", n, c11Short(x), c11Short(y))
		}
	}
	for n := range b.Files {
		if _, ok := a.Files[n]; !ok {
			return "file " + n + " written only in one of the runs"
		}
	}
	return ""
}

// c11SameLines: same exit status and, in stdout and in every file, the same multiset of lines.
func c11SameLines(a, b c11Obs) bool {
	if a.Exit != b.Exit || len(a.Files) != len(b.Files) {
		return false
	}
	same := func(x, y string) bool {
		if strings.HasPrefix(x, "sha256:") || strings.HasPrefix(y, "sha256:") {
			return x == y
		}
		lx, ly := strings.Split(x, "\n"), strings.Split(y, "\n")
		sort.Strings(lx)
		sort.Strings(ly)
		return strings.Join(lx, "\n") == strings.Join(ly, "\n")
	}
	if !same(a.Stdout, b.Stdout) {
		return false
	}
	for n, x := range a.Files {
		y, ok := b.Files[n]
		if !ok || !same(x, y) {
			return false
		}
	}
	return true
}

func c11Short(s string) string {
	if len(s) > 300 {
		return s[:300] + "…"
	}
	return s
}

type c11Run struct {
	Scenario string      `json:"scenario"`
	Seed     int         `json:"seed,omitempty"`
	Threads  int         `json:"threads"`
	Bound    int         `json:"bound"`
	Choices  []vrt.Point `json:"choices,omitempty"`
	Plain    bool        `json:"plain,omitempty"`
	ShardN   int         `json:"shard_n,omitempty"`
	ShardI   int         `json:"shard_i,omitempty"`
}

func c11Find(name string) (c11Scenario, bool) {
	for _, s := range c11Scenarios() {
		if s.Name == name {
			return s, true
		}
	}
	return c11Scenario{}, false
}

var c11Seq int

// c11Again: c11Exec observes the SECOND run of the command in one working directory.
var c11Again bool

// c11Exec runs the scenario once in a private directory.
func c11Exec(sc c11Scenario, seed, threads int, plain bool, sub *vrt.SubIn) (obs c11Obs, out *vrt.SubOut, err error) {
	c11Seq++
	dir := filepath.Join(mc.ScratchDir, fmt.Sprintf("c11-%s-%d", os.Getenv("VERIF_WORKER_ID"), c11Seq))
	work := filepath.Join(dir, "w")
	// input files are named relative to the working directory (some commands write the names of
	// their inputs into their output: the name must be the same in every execution)
	if err = os.MkdirAll(filepath.Join(work, "in"), 0o755); err != nil {
		return
	}
	defer os.RemoveAll(dir)
	var args []string
	for _, a := range sc.Args {
		if strings.HasPrefix(a, "@") {
			content, ok := c11Files[a[1:]]
			if !ok {
				err = fmt.Errorf("unknown input file %s", a)
				return
			}
			if err = os.WriteFile(filepath.Join(work, "in", a[1:]), []byte(content), 0o644); err != nil {
				return
			}
			a = "in/" + a[1:]
		}
		args = append(args, a)
	}
	if sc.Seeded {
		args = append(args, "--seed", fmt.Sprint(seed))
	}
	if sc.Threads {
		args = append(args, "-t", fmt.Sprint(threads))
	}
	bin := filepath.Join(mc.ScratchDir, "goalign-instr")
	if plain {
		bin = filepath.Join(mc.ScratchDir, "goalign-plain")
	}
	if c11Again {
		// the command has been run in this directory before (its output files exist): a first, unobserved run
		pre := exec.Command(bin, args...)
		pre.Dir = work
		pre.Stdout, pre.Stderr = io.Discard, io.Discard
		pre.Run()
	}
	cmd := exec.Command(bin, args...)
	cmd.Dir = work
	cmd.Env = append(os.Environ(), "GOTRACEBACK=single")
	trace := filepath.Join(dir, "trace.json")
	if sub != nil {
		b, _ := json.Marshal(sub)
		cf := filepath.Join(dir, "choices.json")
		os.WriteFile(cf, b, 0o644)
		cmd.Env = append(cmd.Env, "VRT_CHOICES="+cf, "VRT_TRACE="+trace)
	}
	var so, se bytes.Buffer
	cmd.Stdout, cmd.Stderr = &so, &se
	if err = cmd.Start(); err != nil {
		return
	}
	done := make(chan error, 1)
	go func() { done <- cmd.Wait() }()
	select {
	case werr := <-done:
		if ee, ok := werr.(*exec.ExitError); ok {
			obs.Exit = ee.ExitCode()
		} else if werr != nil {
			err = werr
			return
		}
	case <-time.After(120 * time.Second):
		cmd.Process.Kill()
		<-done
		err = fmt.Errorf("child process did not finish within 120 s (a controlled execution cannot block: harness defect) stderr=%s", c11Short(se.String()))
		return
	}
	obs.Stdout = so.String()
	obs.Files = map[string]string{}
	filepath.Walk(work, func(p string, info os.FileInfo, e error) error {
		if e != nil || info.IsDir() {
			return nil
		}
		rel, _ := filepath.Rel(work, p)
		if strings.HasPrefix(rel, "in"+string(filepath.Separator)) {
			return nil // the inputs
		}
		b, _ := os.ReadFile(p)
		if len(b) <= 400 && !bytes.ContainsRune(b, 0) {
			obs.Files[rel] = string(b)
		} else {
			obs.Files[rel] = fmt.Sprintf("sha256:%x size:%d", sha256.Sum256(b), len(b))
		}
		return nil
	})
	if sub != nil {
		b, rerr := os.ReadFile(trace)
		if rerr != nil {
			err = fmt.Errorf("child wrote no trace (exit %d, stderr %s)", obs.Exit, c11Short(se.String()))
			return
		}
		out = &vrt.SubOut{}
		if err = json.Unmarshal(b, out); err != nil {
			return
		}
	}
	return
}

var c11Opts = vrt.Options{Sched: true, MapChoice: true, NowChoice: true, MaxSteps: 200000}

// c11Explore: every execution of (scenario, seed, threads) within `bound`
// deviations (preemption / non-default map order / clock step) must give the
// observation of the default execution with one thread.
func c11Explore(c *mc.Ctx, r c11Run) {
	sc, ok := c11Find(r.Scenario)
	if !ok {
		c.Fatal("unknown scenario %q", r.Scenario)
		return
	}
	viol := func(clause, desc string, pts []vrt.Point) {
		rr := r
		rr.Choices = pts
		c.Violation("C11/"+sc.Name+"/"+clause, fmt.Sprintf("%s; command: goalign %s (seed %d, threads %d); choices [%s]", desc, strings.Join(sc.Args, " "), r.Seed, r.Threads, mc.RenderPoints(pts)), rr)
	}
	// reference observation: default execution, one thread
	ref, refOut, err := c11Exec(sc, r.Seed, 1, false, &vrt.SubIn{Opts: c11Opts})
	if err != nil {
		c.Fatal("%s: %v", sc.Name, err)
		return
	}
	if refOut.End != "return" && refOut.End != "exit" {
		viol("abnormal-end/"+refOut.End, fmt.Sprintf("default execution ended with %s: %v %v", refOut.End, refOut.Exec.Blocked, refOut.Exec.Errors), nil)
		return
	}
	c.Outcome(fmt.Sprintf("%s:exit%d", strings.SplitN(sc.Name, "-", 2)[0], ref.Exit))
	ex := &mc.Explorer{Ctx: c, Opts: c11Opts, Bound: map[string]int{"sched": r.Bound, "map": r.Bound, "now": r.Bound}, TotalBound: r.Bound, ChargeFree: map[string]bool{"sched": true}, ShardN: r.ShardN, ShardI: r.ShardI}
	var fatal error
	ex.Runner = func(prefix []vrt.Point) *mc.Execution {
		obs, out, err := c11Exec(sc, r.Seed, r.Threads, false, &vrt.SubIn{Points: prefix, Opts: c11Opts})
		if err != nil {
			fatal = err
			return &mc.Execution{Exec: &vrt.Exec{Points: prefix}, Panic: err}
		}
		return &mc.Execution{Exec: out.Exec, Result: [2]any{obs, out}}
	}
	failed := false
	ex.Check = func(x *mc.Execution) {
		if fatal != nil {
			c.Fatal("%s: %v", sc.Name, fatal)
			ex.Stop()
			return
		}
		res := x.Result.([2]any)
		obs, out := res[0].(c11Obs), res[1].(*vrt.SubOut)
		c.Nontrivial(fmt.Sprintf("%s|%d|%d|%s", sc.Name, r.Seed, r.Threads, x.Choices()))
		c.Count(fmt.Sprintf("threads_seen_%d", min(out.Exec.Threads, 9)), 1)
		switch {
		case out.End == "deadlock":
			failed = true
			viol("deadlock", "the command never terminates: "+strings.Join(out.Exec.Blocked, ", "), x.Exec.Points)
			return
		case out.End == "horizon":
			failed = true
			viol("horizon", "the command did not finish within the step horizon", x.Exec.Points)
			return
		case out.End == "diverged":
			c.Fatal("%s: replay diverged: %s", sc.Name, out.Exec.Diverged)
			ex.Stop()
			return
		case len(out.Exec.Errors) > 0:
			failed = true
			viol("crash", strings.Join(out.Exec.Errors, "; "), x.Exec.Points)
			return
		}
		if len(out.Exec.Races) > 0 {
			failed = true
			x.NoExpand = true
			// keyed by variable and by the source file of the first access (the command): the same
			// race shows in every scenario of that command and must not depend on the scenario's name
			msg := out.Exec.Races[0]
			file := "?"
			if i := strings.Index(msg, "@"); i >= 0 {
				file = msg[i+1:]
				if j := strings.IndexAny(file, ": "); j > 0 {
					file = file[:j]
				}
			}
			rr := r
			rr.Choices = x.Exec.Points
			c.Violation("C11/data-race/"+raceVar(msg)+"/"+file, fmt.Sprintf("%s; command: goalign %s (seed %d, threads %d); choices [%s]", msg, strings.Join(sc.Args, " "), r.Seed, r.Threads, mc.RenderPoints(x.Exec.Points)), rr)
			return
		}
		if d := c11Diff(ref, obs); d != "" {
			failed = true
			x.NoExpand = true // executions with further deviations on top of this one are explained by it
			// which deviations are needed?  Drop them one at a time while the output still differs
			// (a replay that no longer fits the program's choice points is simply not a candidate).
			pts := append([]vrt.Point{}, x.Exec.Points...)
			isDev := func(p vrt.Point) bool { return p.Chosen != 0 }
			last := func(ps []vrt.Point) int {
				l := -1
				for i, p := range ps {
					if isDev(p) {
						l = i
					}
				}
				return l
			}
			pts = pts[:last(pts)+1]
			for changed := true; changed && len(pts) > 0; {
				changed = false
				for i := range pts {
					if !isDev(pts[i]) {
						continue
					}
					cand := append([]vrt.Point{}, pts...)
					cand[i].Chosen = 0
					cand = cand[:last(cand)+1]
					o2, out2, err := c11Exec(sc, r.Seed, r.Threads, false, &vrt.SubIn{Points: cand, Opts: c11Opts})
					c.Count("runs_minimisation", 1)
					if err != nil || out2 == nil || (out2.End != "return" && out2.End != "exit") {
						continue
					}
					if c11Diff(ref, o2) != "" {
						pts, obs, changed = cand, o2, true
						break
					}
				}
			}
			d = c11Diff(ref, obs)
			kind := "output-depends-on"
			if c11SameLines(ref, obs) {
				kind = "output-order-depends-on" // same lines everywhere, in another order
			}
			var kinds []string
			seen := map[string]bool{}
			for _, p := range pts {
				if isDev(p) && !seen[p.Kind] {
					seen[p.Kind] = true
					kinds = append(kinds, p.Kind)
				}
			}
			if len(kinds) == 0 {
				kinds = []string{"threads"}
			}
			sort.Strings(kinds)
			viol(kind+"/"+strings.Join(kinds, "+"), "output differs from the default one-thread execution: "+d, pts)
			return
		}
		if ex.Executions == 2 {
			c.Sample(map[string]any{"scenario": sc.Name, "args": sc.Args, "seed": r.Seed, "threads": r.Threads, "choices": x.Choices(), "exit": obs.Exit, "stdout": c11Short(obs.Stdout)})
		}
	}
	if r.Bound < 0 && r.Choices == nil { // default execution only
		x := ex.RunOnce(nil)
		c.Eval()
		c.Transition(int64(len(x.Exec.Points)))
		c.State(int64(len(x.Exec.Points) + 1))
		ex.Executions = 3
		ex.Check(x)
		c.Count("runs_instrumented", 1)
		c.Count("default_only_runs", 1)
		return
	}
	if r.Choices != nil { // replay of one recorded execution
		x := ex.RunOnce(r.Choices)
		c.Eval()
		ex.Executions = 3
		ex.Check(x)
		return
	}
	complete := ex.Explore()
	c.Count("runs_instrumented", ex.Executions)
	c.Count("trees", 1)
	if os.Getenv("C11_PROFILE") != "" {
		c.Count(fmt.Sprintf("tree_runs:%s/t%d", sc.Name, r.Threads), ex.Executions)
	}
	if !complete {
		c.Count("trees_capped", 1)
	}
	_ = failed
}

// c11Plain: the uninstrumented binary, twice: byte-identical.
func c11Plain(c *mc.Ctx, r c11Run) {
	sc, ok := c11Find(r.Scenario)
	if !ok {
		c.Fatal("unknown scenario %q", r.Scenario)
		return
	}
	a, _, err := c11Exec(sc, r.Seed, r.Threads, true, nil)
	if err != nil {
		c.Fatal("%s: %v", sc.Name, err)
		return
	}
	// the instrumented binary in pass-through mode must behave like the plain one (conformance of the instrumentation)
	p, _, err := c11Exec(sc, r.Seed, r.Threads, false, nil)
	if err != nil {
		c.Fatal("%s: %v", sc.Name, err)
		return
	}
	c.Eval()
	c.Count("runs_plain", 2)
	if sc.Name == "seqboot-tar" || sc.Name == "seqboot-gz" {
		return // archive headers carry the wall clock: decided by the clock choice points of the instrumented runs, not by two timed runs
	}
	// run twice in the same directory (a pipeline that is run again over its old output files): the second run
	// must give what a run in an empty directory gives
	if r.Threads <= 1 {
		c11Again = true
		a3, _, err3 := c11Exec(sc, r.Seed, r.Threads, true, nil)
		c11Again = false
		if err3 != nil {
			c.Fatal("%s: %v", sc.Name, err3)
			return
		}
		c.Count("runs_plain", 2)
		if d3 := c11Diff(a, a3); d3 != "" {
			c.Violation("C11/"+sc.Name+"/second-run-in-the-same-directory-differs", fmt.Sprintf("goalign %s (seed %d) run again in the directory that holds the output of its first run gives different output: %s", strings.Join(sc.Args, " "), r.Seed, c11Short(d3)), r)
		}
	}
	if d := c11Diff(a, p); d != "" {
		// Either the command is not reproducible (which the exploration decides, deterministically) or the
		// instrumentation changed behaviour.  Tell them apart: the plain binary again.
		a2, _, err := c11Exec(sc, r.Seed, r.Threads, true, nil)
		if err != nil {
			c.Fatal("%s: %v", sc.Name, err)
			return
		}
		c.Count("runs_plain", 1)
		c.Count("plain_vs_passthrough_differ", 1)
		c.Note(fmt.Sprintf("%s (seed %d, threads %d): plain binary and pass-through instrumented binary differ: %s; two plain runs differ: %v", sc.Name, r.Seed, r.Threads, c11Short(d), c11Diff(a, a2) != ""))
		if d2 := c11Diff(a, a2); d2 != "" && r.Threads <= 1 {
			// two executions of the uninstrumented binary, one thread, same input, flags and seed: a source of
			// randomness the seed does not reach and the instrumentation does not intercept (another generator,
			// the address of an object, ...).  Observed, not explored: reported as it is.
			c.Violation("C11/"+sc.Name+"/two-plain-runs-differ", fmt.Sprintf("goalign %s run twice (one thread, seed %d) gives different output: %s", strings.Join(sc.Args, " "), r.Seed, c11Short(d2)), r)
		}
	}
}

// ---------------------------------------------------------------- reformat chains and bootstrap equivalence

type c11Chain struct {
	Input  string   `json:"input"`
	Chain  []string `json:"chain"` // formats, first = last = starting format
	Strict bool     `json:"strict,omitempty"`
	// Canonical: the input file is in the form goalign writes; the first conversion to FASTA must return it
	Canonical bool `json:"canonical_input,omitempty"`
}

var c11Formats = []string{"fasta", "phylip", "nexus", "clustal"}

func c11FormatFlag(f string) []string {
	switch f {
	case "phylip":
		return []string{"-p"}
	case "nexus":
		return []string{"-x"}
	case "clustal":
		return []string{"-u"}
	}
	return nil
}

func c11Reformat(c *mc.Ctx, dir string, from, to string, in []byte, n *int) ([]byte, error) {
	*n++
	from = strings.TrimSuffix(from, "/unaligned")
	p := filepath.Join(dir, fmt.Sprintf("step%d.%s", *n, from))
	if err := os.WriteFile(p, in, 0o644); err != nil {
		return nil, err
	}
	from = strings.TrimSuffix(from, "/unaligned")
	args := append([]string{"reformat", to, "-i", p}, c11FormatFlag(from)...)
	if strings.HasSuffix(to, "/unaligned") {
		// the file is read as a set of sequences (gaps are residues then) and written as FASTA again
		args = []string{"reformat", "fasta", "-i", p, "--unaligned"}
	}
	cmd := exec.Command(filepath.Join(mc.ScratchDir, "goalign-plain"), args...)
	var so, se bytes.Buffer
	cmd.Stdout, cmd.Stderr = &so, &se
	if err := cmd.Run(); err != nil {
		return nil, fmt.Errorf("goalign %s: %v: %s", strings.Join(args[:2], " "), err, c11Short(se.String()))
	}
	c.Count("runs_plain", 1)
	return so.Bytes(), nil
}

func c11CheckChain(c *mc.Ctx, ch c11Chain) {
	if ch.Input == "mixed.fa" {
		for _, f := range ch.Chain {
			if f == "nexus" { // a Nexus file states its datatype: an alignment that fits no alphabet is refused
				return
			}
		}
	}
	c.Eval()
	dir := filepath.Join(mc.ScratchDir, fmt.Sprintf("c11chain-%s-%d", os.Getenv("VERIF_WORKER_ID"), c11Seq))
	c11Seq++
	os.MkdirAll(dir, 0o755)
	defer os.RemoveAll(dir)
	n := 0
	start, err := c11Reformat(c, dir, "fasta", ch.Chain[0], []byte(c11Files[ch.Input]), &n)
	if err != nil {
		c.Violation("C11/reformat-chain/conversion-fails", fmt.Sprintf("writing %s as %s: %v", ch.Input, ch.Chain[0], err), ch)
		return
	}
	if ch.Canonical && !bytes.Equal(start, []byte(c11Files[ch.Input])) {
		// the input is written the way goalign writes FASTA (one line per sequence here, the whole header line being
		// the name): reformatting it to FASTA is already a round trip
		c.Violation("C11/reformat-chain/bytes-differ", fmt.Sprintf("reformat fasta on %s (in goalign's own FASTA form) returns %q, the file holds %q", ch.Input, c11Short(string(start)), c11Short(c11Files[ch.Input])), ch)
		return
	}
	cur := start
	for i := 1; i < len(ch.Chain); i++ {
		if cur, err = c11Reformat(c, dir, ch.Chain[i-1], ch.Chain[i], cur, &n); err != nil {
			c.Violation("C11/reformat-chain/conversion-fails", fmt.Sprintf("chain %v on %s: step %d: %v", ch.Chain, ch.Input, i, err), ch)
			return
		}
	}
	c.Nontrivial(fmt.Sprintf("%v|%s", ch.Chain, ch.Input))
	c.Outcome("chain:len" + fmt.Sprint(len(ch.Chain)-1))
	if !bytes.Equal(cur, start) {
		c.Violation("C11/reformat-chain/bytes-differ", fmt.Sprintf("chain %v on %s returns %q, started from %q", ch.Chain, ch.Input, c11Short(string(cur)), c11Short(string(start))), ch)
	}
}

type c11Boot struct {
	Model string `json:"model"`
	Seed  int    `json:"seed"`
	N     int    `json:"n"`
	Input string `json:"input"`
	// Flags given both to build distboot and to compute distance (-r, --alpha a)
	Flags []string `json:"flags,omitempty"`
	// BootFlags: given both to build distboot and to build seqboot (-f fraction)
	BootFlags []string `json:"boot_flags,omitempty"`
}

func c11CheckBoot(c *mc.Ctx, b c11Boot) {
	c.Eval()
	dir := filepath.Join(mc.ScratchDir, fmt.Sprintf("c11boot-%s-%d", os.Getenv("VERIF_WORKER_ID"), c11Seq))
	c11Seq++
	os.MkdirAll(dir, 0o755)
	defer os.RemoveAll(dir)
	in := filepath.Join(dir, "in.fa")
	os.WriteFile(in, []byte(c11Files[b.Input]), 0o644)
	run := func(args ...string) (string, error) {
		cmd := exec.Command(filepath.Join(mc.ScratchDir, "goalign-plain"), args...)
		cmd.Dir = dir
		var so, se bytes.Buffer
		cmd.Stdout, cmd.Stderr = &so, &se
		err := cmd.Run()
		c.Count("runs_plain", 1)
		if err != nil {
			return "", fmt.Errorf("goalign %s: %v: %s", strings.Join(args, " "), err, c11Short(se.String()))
		}
		return so.String(), nil
	}
	if b.Input == "aa.fa" || b.Input == "aa2.fa" {
		// a short protein replicate may hold only letters that are nucleotide codes too: the alphabet is
		// stated, so that re-reading a replicate cannot change it
		b.Flags = append(append([]string{}, b.Flags...), "--alphabet", "aa")
	}
	direct, err := run(append(append([]string{"build", "distboot", "-i", in, "-n", fmt.Sprint(b.N), "--seed", fmt.Sprint(b.Seed), "-m", b.Model}, b.Flags...), b.BootFlags...)...)
	if err != nil {
		c.Violation("C11/bootstrap-equivalence/command-fails", err.Error(), b)
		return
	}
	if _, err = run(append([]string{"build", "seqboot", "-i", in, "-n", fmt.Sprint(b.N), "--seed", fmt.Sprint(b.Seed), "-o", "rep"}, b.BootFlags...)...); err != nil {
		c.Violation("C11/bootstrap-equivalence/command-fails", err.Error(), b)
		return
	}
	var two strings.Builder
	for i := 0; i < b.N; i++ {
		o, err := run(append([]string{"compute", "distance", "-m", b.Model, "-i", fmt.Sprintf("rep%d.fa", i)}, b.Flags...)...)
		if err != nil {
			c.Violation("C11/bootstrap-equivalence/command-fails", err.Error(), b)
			return
		}
		two.WriteString(o)
	}
	c.Nontrivial(fmt.Sprintf("%v", b))
	c.Outcome("boot:" + b.Model)
	if two.String() != direct {
		c.Violation("C11/bootstrap-equivalence/matrices-differ", fmt.Sprintf("build distboot -n %d --seed %d -m %s %s on %s gives %q; seqboot + compute distance gives %q", b.N, b.Seed, b.Model, strings.Join(append(append([]string{}, b.Flags...), b.BootFlags...), " "), b.Input, c11Short(direct), c11Short(two.String())), b)
	}
}

// ---------------------------------------------------------------- registration

type c11Payload struct {
	Run   *c11Run   `json:"run,omitempty"`
	Chain *c11Chain `json:"chain,omitempty"`
	Boot  *c11Boot  `json:"boot,omitempty"`
}

func init() {
	mc.Register(&mc.Prop{
		ID:    "C11",
		Level: "model_checking",
		Rule: cliStreamRule[1:] + " " + "subprocess-mode exploration of the goalign binary instrumented from the current tree: for each of the listed command scenarios (every documented command family, 1-3 flag sets each, on small nucleotide / protein / multi-Phylip / malformed-second-alignment inputs) x seeds {1,7} (randomised commands; shuffle seqs and sample sites also 0, -2, -1234567890123, build seqboot and mutate snvs also -2: every seed but the documented -1 replays) x --threads {1,2,3,16} (threaded commands; distances of a 7-row alignment with 3, 4 and 5 threads: more rows than workers, neither the rows nor the rows less one a multiple of the workers): the default execution, then EVERY execution within 2 (quick) / 3 (thorough) deviations from it when run with one thread, 2 deviations with 2 threads and 1 deviation with 3 and 16 threads (both tiers) — a deviation is one scheduling decision other than the default (keep the running goroutine, else the lowest runnable id) at a channel/mutex/WaitGroup/spawn operation, one non-sorted iteration order at a ranged map, or one clock step at time.Now — must give exactly the bytes (stdout, exit status, every file written) of the default one-thread execution, end normally, and show no data race (vector clocks). " +
			"Reformat chains: ALL format sequences of <=3 conversions among fasta/phylip/nexus/clustal that return to the starting format, on 8 inputs (one whose names hold multi-byte UTF-8 characters, one that fits no alphabet as a whole, one with '?', '*' and lower case, one whose names are NEXUS keywords but for their case), must return the starting bytes (FASTA also read with --unaligned and written again, and with header lines that hold a description); build distboot == build seqboot + compute distance for 9 models (6 nucleotide, 3 protein on a gapped protein alignment) x {no flag, -r, --alpha 0.7, both} x 2 seeds, and x partial bootstrap -f 0.5, 0.25. Free-running complement: goalign built with the race detector runs every threaded scenario with 4 threads (reports of the detector are violations). Each scenario also runs on the uninstrumented binary and on the instrumented binary in pass-through mode (must agree), and a second time in the directory that holds the output files of a first run (must give what a run in an empty directory gives). states/transitions = nodes/edges of the choice trees; distinct_nontrivial = distinct (scenario, seed, threads, choice list) executions compared.",
		Assumptions: []string{
			"scheduling points only at synchronisation operations (channel, mutex, WaitGroup, go); data races are reported separately by vector clocks",
			"stderr is not compared (log lines); dependencies (cobra, gzip, xz, tar) are not instrumented: they spawn no goroutines and range over no maps on these paths",
			"when main returns the process ends (goroutines still blocked are not run further), as in Go",
		},
		Tasks: func(tier string) []mc.Task {
			bound := 2
			if tier == "thorough" {
				bound = 3
			}
			var ts []mc.Task
			for _, sc := range c11Scenarios() {
				seeds := []int{0}
				if sc.Seeded {
					seeds = []int{1, 7}
					// the rest of the seed domain: 0, negative seeds other than the documented -1 ("nano seconds since 1970")
					switch sc.Name {
					case "shuffle-seqs", "sample-sites":
						seeds = append(seeds, 0, -2, -1234567890123)
					case "seqboot", "mutate-snvs":
						seeds = append(seeds, -2)
					}
				}
				threads := []int{1}
				if sc.Threads {
					threads = []int{1, 2, 3, 16}
					if sc.ThreadSet != nil {
						threads = sc.ThreadSet
					}
				}
				for _, sd := range seeds {
					for _, th := range threads {
						r := c11Run{Scenario: sc.Name, Seed: sd, Threads: th, Bound: bound}
						switch {
						case th >= 3:
							r.Bound = 1 // 3 and 16 workers: one deviation (both tiers)
						case th == 2:
							r.Bound = 2 // two workers: two deviations (both tiers); three do not complete in the budget
						}
						nsh := 1
						if th >= 2 {
							nsh = 8
						}
						for sh := 0; sh < nsh; sh++ {
							rs := r
							if nsh > 1 {
								rs.ShardN, rs.ShardI = nsh, sh
							}
							ts = append(ts, mc.Task{Name: fmt.Sprintf("explore#%s/seed%d/t%d/shard%d", sc.Name, sd, th, sh), Run: func(c *mc.Ctx) { c11Explore(c, rs) }})
						}
						rp := r
						rp.Plain = true
						ts = append(ts, mc.Task{Name: fmt.Sprintf("plain#%s/seed%d/t%d", sc.Name, sd, th), Run: func(c *mc.Ctx) { c11Plain(c, rp) }})
					}
				}
			}
			// reformat chains
			for _, in := range []string{"nt.fa", "aa.fa", "tie.fa", "nt2.fa", "odd.fa", "kw.fa", "mixed.fa", "utf8.fa"} {
				for _, start := range c11Formats {
					in, start := in, start
					ts = append(ts, mc.Task{Name: fmt.Sprintf("chain#%s/%s", in, start), Run: func(c *mc.Ctx) {
						c11CheckChain(c, c11Chain{Input: in, Chain: []string{start, start}})
						for _, x := range c11Formats {
							c11CheckChain(c, c11Chain{Input: in, Chain: []string{start, x, start}})
							for _, y := range c11Formats {
								c11CheckChain(c, c11Chain{Input: in, Chain: []string{start, x, y, start}})
							}
						}
					}})
				}
			}
			// FASTA read as a set of sequences (--unaligned) and written again; names holding blanks (FASTA only)
			for _, in := range []string{"nt.fa", "tie.fa", "odd.fa", "desc.fa"} {
				in := in
				ts = append(ts, mc.Task{Name: "chain-unaligned#" + in, Run: func(c *mc.Ctx) {
					c11CheckChain(c, c11Chain{Input: in, Chain: []string{"fasta", "fasta"}, Canonical: true})
					c11CheckChain(c, c11Chain{Input: in, Chain: []string{"fasta", "fasta/unaligned", "fasta"}, Canonical: true})
				}})
			}
			for _, m := range []string{"pdist", "jc", "k2p", "f81", "f84", "tn93", "lg", "jtt", "wag"} {
				in := "nt.fa"
				if m == "lg" || m == "jtt" || m == "wag" {
					in = "aa2.fa"
				}
				for fi, fl := range [][]string{nil, {"-r"}, {"--alpha", "0.7"}, {"-r", "--alpha", "0.7"}} {
					for _, sd := range []int{1, 7} {
						b := c11Boot{Model: m, Seed: sd, N: 3, Input: in, Flags: fl}
						ts = append(ts, mc.Task{Name: fmt.Sprintf("boot#%s/flags%d/seed%d", m, fi, sd), Run: func(c *mc.Ctx) { c11CheckBoot(c, b) }})
					}
				}
				// partial bootstrap (-f) of a longer input
				for fi, fr := range []string{"0.5", "0.25"} {
					lin := "ntlong.fa"
					if in == "aa2.fa" {
						lin = in
					}
					b := c11Boot{Model: m, Seed: 3, N: 2, Input: lin, BootFlags: []string{"-f", fr}}
					ts = append(ts, mc.Task{Name: fmt.Sprintf("boot#%s/frac%d", m, fi), Run: func(c *mc.Ctx) { c11CheckBoot(c, b) }})
				}
			}
			// reformatting a file of several alignments gives what reformatting each of them alone gives (in process)
			return append(ts, cliStreamTasks("C11")...)
		},
		Replay: func(c *mc.Ctx, payload json.RawMessage) {
			if cliStreamReplay(c, payload) {
				return
			}
			// a payload is a c11Run, a c11Chain or a c11Boot: told apart by their fields
			var probe map[string]json.RawMessage
			if err := json.Unmarshal(payload, &probe); err != nil {
				c.Fatal("bad payload: %v", err)
				return
			}
			switch {
			case probe["scenario"] != nil:
				var r c11Run
				json.Unmarshal(payload, &r)
				if r.Plain {
					c11Plain(c, r)
					return
				}
				if r.Choices == nil {
					r.Choices = []vrt.Point{}
				}
				c11Explore(c, r)
			case probe["chain"] != nil:
				var ch c11Chain
				json.Unmarshal(payload, &ch)
				c11CheckChain(c, ch)
			case probe["model"] != nil:
				var b c11Boot
				json.Unmarshal(payload, &b)
				c11CheckBoot(c, b)
			default:
				c.Fatal("unrecognised payload")
			}
		},
		// free-running complement: goalign built with the race detector runs every threaded scenario with 4 threads
		Post: func(m *mc.Master) {
			dir, err := os.MkdirTemp(m.Scratch, "c11-race-")
			if err != nil || os.MkdirAll(filepath.Join(dir, "in"), 0o755) != nil {
				return
			}
			var runs [][]string
			for _, sc := range c11Scenarios() {
				if !sc.Threads {
					continue
				}
				var args []string
				for _, a := range sc.Args {
					if strings.HasPrefix(a, "@") {
						os.WriteFile(filepath.Join(dir, "in", a[1:]), []byte(c11Files[a[1:]]), 0o644)
						a = "in/" + a[1:]
					}
					args = append(args, a)
				}
				if sc.Seeded {
					args = append(args, "--seed", "1")
				}
				runs = append(runs, append(args, "-t", "4"))
			}
			m.RacePassCLI(dir, runs)
		},
		Vacuity: func(tier string, t *mc.Totals) error {
			if t.Extra["runs_instrumented"] < 20000 || t.Extra["trees"] < 100 {
				return fmt.Errorf("too little explored: %v", t.Extra)
			}
			multi := int64(0)
			for k, v := range t.Extra {
				if strings.HasPrefix(k, "threads_seen_") && k != "threads_seen_1" {
					multi += v
				}
			}
			if multi < 500 {
				return fmt.Errorf("only %d executions involved more than one goroutine", multi)
			}
			return nil
		},
	})
}
